/-
Transfer of the C02 / C03 / C05 statements about the schema-1.x *encoders* (and the pairs encoder / decoder)
from the hand model `Impl.V1.*` to the model regenerated from the C++ sources (`Gen.ImplV1.*`,
tools/tr_blobs_v1.py), through the equalities of Proofs/ImplV1GenEnc.lean, ImplV1GenBeat.lean,
ImplV1GenLists.lean (encoders) and Proofs/ImplV1Gen.lean (decoders):

* `gen_v1_*_encode_spec*` (C02): the regenerated encoder returns `ok b` exactly when the independent Spec
  encoder of Format/V1.lean returns `some b` — same bytes, same rejections;
* `gen_v1_*_readback*` / `_roundtrip*` / `_reject*` (C03): on the *regenerated pair*, decode (encode v) is the
  format's reading of `v`; values outside the encodable domain end in an exception;
* `gen_v1_*_encode_safe*` (C05): the regenerated encoder never produces an undefined-behaviour outcome
  (no write past the buffer, no overflowing `int` / `int64_t` arithmetic, no out-of-range `v[i]`).

Size hypotheses: those of the equalities (payload below 2^63 bytes, resp. the decoder's bound).
-/
import Proofs.ImplV1GenTransfer
import Proofs.ImplV1GenEnc
import Proofs.ImplV1GenBeat
import Proofs.ImplV1GenLists
import Proofs.ImplV1Beat
import Proofs.PayloadNonempty

namespace EngineModel.Gen.ImplV1
open Codec Cur EngineModel.V1Proofs

theorem agree_of' {r : Res Bytes} {o : Option Bytes}
    (h : (∃ b0, o = some b0 ∧ r = .ok b0) ∨ (o = none ∧ ∃ e, r = .throw e)) (b : Bytes) :
    r = .ok b ↔ o = some b := by
  rcases h with ⟨b0, ho, hr⟩ | ⟨ho, e, hr⟩
  · rw [ho, hr]; constructor
    · intro h; injection h with h; rw [h]
    · intro h; injection h with h; rw [h]
  · rw [ho, hr]; constructor
    · intro h; cases h
    · intro h; cases h

/-! ### waveforms -/

theorem gen_v1_ovw_encode_spec_partial (v : Impl.V1.Wave) (h : 27 + 3 * v.entries.length < 9223372036854775808)
    (b : Bytes) : encodeOvw v = .ok b ↔ V1.encodeOvw v = some b := by
  rw [encodeOvw_eq_partial v h]; exact agree_of' (Or.inl (encodeOvw_ok v)) b

theorem gen_v1_hires_encode_spec_partial (v : Impl.V1.Wave) (h : 30 + 6 * v.entries.length < 9223372036854775808)
    (b : Bytes) : encodeHires v = .ok b ↔ V1.encodeHires v = some b := by
  rw [encodeHires_eq_partial v h]; exact agree_of' (Or.inl (encodeHires_ok v)) b

/-- C03 on the regenerated pair of `overview_waveform_data`: the three value channels come back, the opacity is 255. -/
theorem gen_v1_ovw_readback_partial (v : Impl.V1.Wave) (h : 27 + 3 * v.entries.length < 4611686018427387904) :
    ∃ b, encodeOvw v = .ok b ∧ decodeOvw b = .ok ⟨v.spe, v.entries.map opaq⟩ := by
  obtain ⟨b, hs, hi⟩ := encodeOvw_ok v
  have hb : b.length = 27 + 3 * v.entries.length := Impl.V2.writeInto_length hi
  refine ⟨b, by rw [encodeOvw_eq_partial v (by omega)]; exact hi, ?_⟩
  rw [gen_v1_ovw_spec_partial b (by omega), spec_ovw_roundtrip v (by unfold maxCount; omega) b hs]; rfl

/-- C03 on the regenerated pair of `high_res_waveform_data`. -/
theorem gen_v1_hires_roundtrip_partial (v : Impl.V1.Wave) (h : 30 + 6 * v.entries.length < 9223372036854775808) :
    ∃ b, encodeHires v = .ok b ∧ decodeHires b = .ok v := by
  obtain ⟨b, hs, hi⟩ := encodeHires_ok v
  have hb : b.length = 30 + 6 * v.entries.length := Impl.V2.writeInto_length hi
  refine ⟨b, by rw [encodeHires_eq_partial v h]; exact hi, ?_⟩
  rw [gen_v1_hires_spec_partial b (by omega), spec_hires_roundtrip v (by unfold maxCount; omega) b hs]; rfl

theorem gen_v1_ovw_encode_safe_partial (v : Impl.V1.Wave) (h : 27 + 3 * v.entries.length < 9223372036854775808)
    (u : Ub) : encodeOvw v ≠ .ub u := by
  obtain ⟨b, _, hi⟩ := encodeOvw_ok v
  rw [encodeOvw_eq_partial v h, hi]; simp

theorem gen_v1_hires_encode_safe_partial (v : Impl.V1.Wave) (h : 30 + 6 * v.entries.length < 9223372036854775808)
    (u : Ub) : encodeHires v ≠ .ub u := by
  obtain ⟨b, _, hi⟩ := encodeHires_ok v
  rw [encodeHires_eq_partial v h, hi]; simp

/-! ### quick cues -/

theorem cueLen_le (s : Option Impl.V1.HotCue) (h : V1.cueSlotOk s = true) : cueLen s ≤ 255 := by
  cases s with
  | none => simp [cueLen]
  | some q => simp only [V1.cueSlotOk, decide_eq_true_eq] at h; exact h.2

theorem loopLen_le (s : Option Impl.V1.LoopV) (h : V1.loopSlotOk s = true) : loopLen s ≤ 255 := by
  cases s with
  | none => simp [loopLen]
  | some q => simp only [V1.loopSlotOk, decide_eq_true_eq] at h; exact h.2

theorem sum_le_of_all {α} (f : α → Nat) (ok : α → Bool) (hf : ∀ a, ok a = true → f a ≤ 255) :
    ∀ l : List α, l.all ok = true → (l.map f).sum ≤ 255 * l.length := by
  intro l
  induction l with
  | nil => intro _; simp
  | cons a l ih =>
    intro h
    simp only [List.all_cons, Bool.and_eq_true] at h
    have := hf a h.1
    have := ih h.2
    simp only [List.map_cons, List.sum_cons, List.length_cons]
    omega

theorem gen_v1_cues_encode_spec_partial (v : Impl.V1.Cues)
    (h : 129 + Impl.V2.labelsLen (Impl.V1.cueLabels v.cues) < 9223372036854775808) (b : Bytes) :
    encodeCues v = .ok b ↔ V1.encodeCues v = some b := by
  rw [encodeCues_eq_partial v h]
  apply agree_of'
  by_cases h : v.cues.length = 8 ∧ v.cues.all V1.cueSlotOk = true
  · exact Or.inl ⟨_, by simp only [V1.encodeCues, h, and_self, if_true]; rfl, encodeCues_ok v h.1 h.2⟩
  · exact Or.inr ⟨by simp only [V1.encodeCues, h, if_false], encodeCues_reject v h⟩

theorem cues_size_ok (v : Impl.V1.Cues) (h8 : v.cues.length = 8) (h : v.cues.all V1.cueSlotOk = true) :
    129 + Impl.V2.labelsLen (Impl.V1.cueLabels v.cues) ≤ 129 + 2040 := by
  rw [cueLabels_sum]
  have := sum_le_of_all cueLen V1.cueSlotOk cueLen_le v.cues h
  omega

/-- C03 on the regenerated pair of `quick_cues_data` (exactly 8 slots, labels of 1..255 bytes). -/
theorem gen_v1_cues_readback (v : Impl.V1.Cues) (h8 : v.cues.length = 8) (h : v.cues.all V1.cueSlotOk = true) :
    ∃ b, encodeCues v = .ok b ∧ decodeCues b = .ok ⟨v.cues.map normCue, v.adjMain, v.defMain⟩ := by
  have hsz := cues_size_ok v h8 h
  have hi := encodeCues_ok v h8 h
  have hb : (V2.cuesRaw.enc (cuesWire v)).length = 129 + Impl.V2.labelsLen (Impl.V1.cueLabels v.cues) := by
    rw [cuesRaw_enc_length, cueLabels_len]; simp [cuesWire, h8]
  refine ⟨_, by rw [encodeCues_eq_partial v (by omega)]; exact hi, ?_⟩
  rw [gen_v1_cues_spec_partial _ (by omega), spec_cues_roundtrip v h8 h]; rfl

/-- more or fewer than 8 slots, an empty label, a label over 255 bytes: an exception — never other bytes, never a
write past the buffer -/
theorem gen_v1_cues_reject_partial (v : Impl.V1.Cues)
    (hs : 129 + Impl.V2.labelsLen (Impl.V1.cueLabels v.cues) < 9223372036854775808)
    (h : ¬ (v.cues.length = 8 ∧ v.cues.all V1.cueSlotOk = true)) : ∃ e, encodeCues v = .throw e := by
  rw [encodeCues_eq_partial v hs]; exact encodeCues_reject v h

theorem gen_v1_cues_encode_safe_partial (v : Impl.V1.Cues)
    (hs : 129 + Impl.V2.labelsLen (Impl.V1.cueLabels v.cues) < 9223372036854775808) (u : Ub) :
    encodeCues v ≠ .ub u := by
  rw [encodeCues_eq_partial v hs]
  by_cases h : v.cues.length = 8 ∧ v.cues.all V1.cueSlotOk = true
  · rw [encodeCues_ok v h.1 h.2]; simp
  · obtain ⟨e, he⟩ := encodeCues_reject v h
    rw [he]; simp

/-! ### loops -/

theorem gen_v1_loops_encode_spec_partial (v : Impl.V1.Loops)
    (h : 8 + 23 * v.length + Impl.V2.labelsLen (Impl.V1.loopLabels v) < 9223372036854775808) (b : Bytes) :
    encodeLoops v = .ok b ↔ V1.encodeLoops v = some b := by
  rw [encodeLoops_eq_partial v h]
  apply agree_of'
  cases h : v.all V1.loopSlotOk with
  | true => exact Or.inl ⟨_, by simp [V1.encodeLoops, h], encodeLoops_ok v h⟩
  | false => exact Or.inr ⟨by simp [V1.encodeLoops, h], encodeLoops_reject v h⟩

/-- C03 on the regenerated pair of `loops_data` (labels of 1..255 bytes; fewer than 2^52 slots). -/
theorem gen_v1_loops_readback_partial (v : Impl.V1.Loops) (hrep : v.length < 4503599627370496)
    (h : v.all V1.loopSlotOk = true) :
    ∃ b, encodeLoops v = .ok b ∧ decodeLoops b = .ok (v.map normLoop) := by
  have hsum := sum_le_of_all loopLen V1.loopSlotOk loopLen_le v h
  have hi := encodeLoops_ok v h
  have hb : (V2.loops.enc (v.map V1.loopToWire)).length =
      8 + 23 * v.length + Impl.V2.labelsLen (Impl.V1.loopLabels v) := by
    rw [Impl.V2.loops_enc_length, loopLabels_len]; simp
  have hsz : 8 + 23 * v.length + Impl.V2.labelsLen (Impl.V1.loopLabels v) < 2305843009213693952 := by
    rw [loopLabels_sum]; omega
  refine ⟨_, by rw [encodeLoops_eq_partial v (by omega)]; exact hi, ?_⟩
  rw [gen_v1_loops_spec_partial _ (by omega), spec_loops_roundtrip v (by unfold maxCount; omega) h]; rfl

theorem gen_v1_loops_reject_partial (v : Impl.V1.Loops)
    (hs : 8 + 23 * v.length + Impl.V2.labelsLen (Impl.V1.loopLabels v) < 9223372036854775808)
    (h : v.all V1.loopSlotOk = false) : ∃ e, encodeLoops v = .throw e := by
  rw [encodeLoops_eq_partial v hs]; exact encodeLoops_reject v h

theorem gen_v1_loops_encode_safe_partial (v : Impl.V1.Loops)
    (hs : 8 + 23 * v.length + Impl.V2.labelsLen (Impl.V1.loopLabels v) < 9223372036854775808) (u : Ub) :
    encodeLoops v ≠ .ub u := by
  rw [encodeLoops_eq_partial v hs]
  cases h : v.all V1.loopSlotOk with
  | true => rw [encodeLoops_ok v h]; simp
  | false =>
    obtain ⟨e, he⟩ := encodeLoops_reject v h
    rw [he]; simp

/-! ### beat data (encoder) -/

theorem gen_v1_beat_encode_spec (v : Impl.V1.Beat) (b : Bytes) :
    encodeBeat v = .ok b ↔ V1.encodeBeat v = some b := by
  rw [encodeBeat_eq]
  apply agree_of'
  by_cases h : V1.gridOk v.dflt = true ∧ V1.gridOk v.adj = true
  · exact Or.inl ⟨_, by simp only [V1.encodeBeat, h.1, h.2, Bool.and_self, if_true]; rfl, encodeBeat_ok v h.1 h.2⟩
  · refine Or.inr ⟨?_, _, encodeBeat_reject v h⟩
    have : (V1.gridOk v.dflt && V1.gridOk v.adj) = false := by
      cases h1 : V1.gridOk v.dflt <;> cases h2 : V1.gridOk v.adj <;> simp_all
    simp [V1.encodeBeat, this]

/-- a grid outside the domain (one marker, more than 32768, not strictly increasing) is rejected -/
theorem gen_v1_beat_encode_reject (v : Impl.V1.Beat) (h : ¬ (V1.gridOk v.dflt = true ∧ V1.gridOk v.adj = true)) :
    encodeBeat v = .throw .invalid_argument := by
  rw [encodeBeat_eq]; exact encodeBeat_reject v h

/-- the regenerated 1.x beat-data encoder never overflows (`v[i + 1].index - v[i].index` in `int`), never indexes
out of range, never writes past the buffer -/
theorem gen_v1_beat_encode_safe (v : Impl.V1.Beat) (u : Ub) : encodeBeat v ≠ .ub u := by
  rw [encodeBeat_eq]
  by_cases h : V1.gridOk v.dflt = true ∧ V1.gridOk v.adj = true
  · rw [encodeBeat_ok v h.1 h.2]; simp
  · rw [encodeBeat_reject v h]; simp

/-! ### non-vacuity of the hypotheses -/

example : 27 + 3 * (⟨0, [⟨1, 2, 3, 255, 255, 255⟩]⟩ : Impl.V1.Wave).entries.length < 4611686018427387904 := by decide
example : encodeOvw ⟨0, [⟨1, 2, 3, 255, 255, 255⟩]⟩ =
    .ok ([0,0,0,0,0,0,0,1, 0,0,0,0,0,0,0,1, 0,0,0,0,0,0,0,0, 1,2,3, 1,2,3]) := by decide
example : encodeHires ⟨0, [⟨1, 2, 3, 4, 5, 6⟩, ⟨9, 1, 1, 1, 1, 7⟩]⟩ =
    .ok ([0,0,0,0,0,0,0,2, 0,0,0,0,0,0,0,2, 0,0,0,0,0,0,0,0, 1,2,3,4,5,6, 9,1,1,1,1,7, 9,2,3,4,5,7]) := by decide
example : (([some ⟨[76], 0, 0, ⟨255, 9, 8, 7⟩⟩, none] : Impl.V1.Loops).all V1.loopSlotOk = true) := by decide
example : ([some ⟨[], 0, 0, ⟨0, 0, 0, 0⟩⟩] : Impl.V1.Loops).all V1.loopSlotOk = false := by decide
example : ¬ (V1.gridOk [⟨0, 0⟩] = true ∧ V1.gridOk ([] : List Impl.V1.GMarker) = true) := by decide
example : encodeBeat ⟨none, none, [⟨0, 0⟩], []⟩ = .throw .invalid_argument := by decide
example : ¬ ((⟨[none, none, none], 0, 0⟩ : Impl.V1.Cues).cues.length = 8 ∧
    (⟨[none, none, none], 0, 0⟩ : Impl.V1.Cues).cues.all V1.cueSlotOk = true) := by decide
example : encodeCues ⟨[none, none, none], 0, 0⟩ = .throw .runtime_error := by decide

end EngineModel.Gen.ImplV1
