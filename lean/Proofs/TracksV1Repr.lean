/-
C01 1.x: the per-field representability lemmas behind `v1_C01_representable` (stated with
premises `P v → normalised v = v` whose `P` the property file names `Repr…`).
-/
import EngineModel.TracksV1.Spec
import Proofs.TracksV1Spec

namespace EngineModel.TracksV1.Spec

open Impl.V1 (GMarker HotCue LoopV Entry)

theorem dropZero_of_repr (v : Option Bits) (h : v ≠ some F64.zero ∧ v ≠ some F64.negZero) : dropZero v = v := by
  cases v with
  | none => rfl
  | some a =>
    unfold dropZero
    have h1 : a ≠ F64.zero := fun e => h.1 (by rw [e])
    have h2 : a ≠ F64.negZero := fun e => h.2 (by rw [e])
    simp [h1, h2]

theorem bpm_of_repr (v : Option Bits) (h : v ≠ some F64.negZero) :
    (v.map fun b => if b = F64.negZero then F64.zero else b) = v := by
  cases v with
  | none => rfl
  | some a =>
    have : a ≠ F64.negZero := fun e => h (by rw [e])
    simp [this]

theorem whole1000_of_mod (d : UInt64) (h : Prim.s64 d % 1000 = 0) : wholeUnits 1000 d = d := by
  have hr := Prim.s64_range d
  unfold wholeUnits
  simp only
  have : (if Prim.s64 d < 0 then -(((Prim.s64 d).natAbs / 1000 : Nat) : Int)
    else (((Prim.s64 d).natAbs / 1000 : Nat) : Int)) * ((1000 : Nat) : Int) = Prim.s64 d := by
    split <;> omega
  rw [this, Prim.u64OfInt_s64]

theorem wholeBillion_of_mod (d : UInt64) (h : Prim.s64 d % 1000000000 = 0) : wholeUnits 1000000000 d = d := by
  have hr := Prim.s64_range d
  unfold wholeUnits
  simp only
  have : (if Prim.s64 d < 0 then -(((Prim.s64 d).natAbs / 1000000000 : Nat) : Int)
    else (((Prim.s64 d).natAbs / 1000000000 : Nat) : Int)) * ((1000000000 : Nat) : Int) = Prim.s64 d := by
    split <;> omega
  rw [this, Prim.u64OfInt_s64]

theorem duration_of_repr (d : Option UInt64) (h : ∀ ms, d = some ms → Prim.s64 ms % 1000 = 0) :
    d.map (wholeUnits 1000) = d := by
  cases d with
  | none => rfl
  | some ms => simp [whole1000_of_mod ms (h ms rfl)]

theorem time_of_repr (d : Option UInt64) (h : ∀ ns, d = some ns → Prim.s64 ns % 1000000000 = 0) :
    d.map (wholeUnits 1000000000) = d := by
  cases d with
  | none => rfl
  | some ns => simp [wholeBillion_of_mod ns (h ns rfl)]

theorem rating_of_repr (r : Option UInt32) (h : ∀ v, r = some v → 0 ≤ Prim.s32 v ∧ Prim.s32 v ≤ 100) :
    r.map clamp100 = r := by
  cases r with
  | none => rfl
  | some v =>
    obtain ⟨h0, h1⟩ := h v rfl
    have a : ¬ Prim.s32 v < 0 := by omega
    have b : ¬ Prim.s32 v > 100 := by omega
    simp [clamp100, a, b]

theorem count_of_repr (c : Option UInt64) (h : c ≠ some 0) : (c.bind fun n => if n = 0 then none else some n) = c := by
  cases c with
  | none => rfl
  | some n =>
    have : n ≠ 0 := fun e => h (by rw [e])
    simp [this]

theorem map_norm_id {α} (g : Option α → Option α) (l : List (Option α)) (h : ∀ q ∈ l, g q = q) : l.map g = l := by
  induction l with
  | nil => rfl
  | cons a t ih =>
    simp only [List.map_cons]
    rw [h a (List.mem_cons_self ..), ih (fun q hq => h q (List.mem_cons_of_mem _ hq))]

theorem cues_of_repr (l : List (Option HotCue)) (h : l.length = 8 ∧ ∀ q, some q ∈ l → q.off ≠ F64.negOne) :
    pad8 (l.map normCue) = l := by
  have hm : l.map normCue = l := by
    apply map_norm_id
    intro q hq
    cases q with
    | none => rfl
    | some c => simp [normCue, h.2 c hq]
  rw [hm, pad8_of_length8 l h.1]

theorem loops_of_repr (l : List (Option LoopV)) (h : l.length = 8 ∧ ∀ q, some q ∈ l → q.start ≠ F64.negOne) :
    pad8 (l.map normLoop) = l := by
  have hm : l.map normLoop = l := by
    apply map_norm_id
    intro q hq
    cases q with
    | none => rfl
    | some c => simp [normLoop, h.2 c hq]
  rw [hm, pad8_of_length8 l h.1]

end EngineModel.TracksV1.Spec
