/-
`playlist_entity_table` (property C18, second round):
  * the full round trip through `get(list, track, database_uuid)`;
  * "the greatest uuid wins": what `get(list, track)` returns when several
    entries of one (list, track) pair exist, and the round trip through it
    exactly when the written row carries the greatest uuid;
  * `get_for_list` returns rows of the table, and the row just appended to an
    empty list.
-/
import Proofs.TableLists
namespace EngineModel
namespace Table

/-! ## the byte-string order of the uuid index -/

theorem bytesLt_irrefl (a : Bytes) : bytesLt a a = false := by
  induction a with
  | nil => rfl
  | cons x xs ih => simp only [bytesLt, UInt8.lt_irrefl, if_false]; exact ih

theorem bytesLt_asymm {a b : Bytes} (h : bytesLt a b = true) : bytesLt b a = false := by
  induction a generalizing b with
  | nil => cases b <;> simp_all [bytesLt]
  | cons x xs ih =>
    cases b with
    | nil => simp [bytesLt] at h
    | cons y ys =>
      simp only [bytesLt] at h ⊢
      by_cases hxy : x < y
      · have : ¬ y < x := UInt8.lt_asymm hxy
        simp [this, hxy]
      · simp only [hxy, if_false] at h
        by_cases hyx : y < x
        · simp [hyx] at h
        · simp only [hyx, if_false] at h ⊢
          simp only [hxy, if_false]
          exact ih h

/-- `¬ (b < a)` is transitive (the order is total). -/
theorem bytesLe_trans {a b c : Bytes} (h1 : bytesLt b a = false) (h2 : bytesLt c b = false) :
    bytesLt c a = false := by
  induction a generalizing b c with
  | nil => cases c <;> rfl
  | cons x xs ih =>
    cases c with
    | nil =>
      cases b with
      | nil => simp [bytesLt] at h1
      | cons y ys => simp [bytesLt] at h2
    | cons z zs =>
      cases b with
      | nil => simp [bytesLt] at h1
      | cons y ys =>
        simp only [bytesLt] at h1 h2 ⊢
        by_cases hyx : y < x
        · simp [hyx] at h1
        · simp only [hyx, if_false] at h1
          by_cases hzy : z < y
          · simp [hzy] at h2
          · simp only [hzy, if_false] at h2
            have hzx : ¬ z < x := by
              rw [UInt8.lt_iff_toNat_lt] at hyx hzy ⊢; omega
            simp only [hzx, if_false]
            by_cases hxy : x < y
            · have hxz : x < z := by
                rw [UInt8.lt_iff_toNat_lt] at hxy hzy ⊢; omega
              simp [hxz]
            · simp only [hxy, if_false] at h1
              by_cases hyz : y < z
              · have hxz : x < z := by
                  rw [UInt8.lt_iff_toNat_lt] at hyz hyx ⊢; omega
                simp [hxz]
              · simp only [hyz, if_false] at h2
                by_cases hxz : x < z
                · simp [hxz]
                · simp only [hxz, if_false]
                  exact ih h1 h2

/-! ## `lastByUuid` returns a member with a greatest uuid -/

def uuidOf (x : Raw ECol) : Bytes := readStr (x .databaseUuid)

theorem lastByUuid_none {l : List (Raw ECol)} : lastByUuid l = none ↔ l = [] := by
  cases l with
  | nil => simp [lastByUuid]
  | cons r rs =>
    simp only [lastByUuid]
    cases lastByUuid rs with
    | none => simp
    | some q => simp only; split <;> simp

theorem lastByUuid_spec {l : List (Raw ECol)} {m : Raw ECol} (h : lastByUuid l = some m) :
    m ∈ l ∧ ∀ x ∈ l, bytesLt (uuidOf m) (uuidOf x) = false := by
  induction l generalizing m with
  | nil => simp [lastByUuid] at h
  | cons r rs ih =>
    simp only [lastByUuid] at h
    cases hq : lastByUuid rs with
    | none =>
      rw [hq] at h
      simp only [Option.some.injEq] at h; subst h
      have : rs = [] := lastByUuid_none.mp hq
      subst this
      exact ⟨List.mem_cons_self, fun x hx => by
        rcases List.mem_cons.mp hx with rfl | hx
        · exact bytesLt_irrefl _
        · cases hx⟩
    | some q =>
      rw [hq] at h
      simp only at h
      obtain ⟨hqmem, hqmax⟩ := ih hq
      split at h
      · rename_i hlt
        simp only [Option.some.injEq] at h; subst h
        refine ⟨List.mem_cons_self, fun x hx => ?_⟩
        rcases List.mem_cons.mp hx with rfl | hx
        · exact bytesLt_irrefl _
        · -- q ≥ x and r > q
          exact bytesLe_trans (hqmax x hx) (bytesLt_asymm hlt)
      · rename_i hnlt
        simp only [Option.some.injEq] at h; subst h
        refine ⟨List.mem_cons_of_mem _ hqmem, fun x hx => ?_⟩
        rcases List.mem_cons.mp hx with rfl | hx
        · unfold uuidOf; simpa using hnlt
        · exact hqmax x hx

/-- Appending a row whose uuid is strictly greater than every other one makes it the answer. -/
theorem lastByUuid_append_greatest (xs : List (Raw ECol)) (r : Raw ECol)
    (h : ∀ x ∈ xs, bytesLt (uuidOf x) (uuidOf r) = true) : lastByUuid (xs ++ [r]) = some r := by
  induction xs with
  | nil => rfl
  | cons x xs ih =>
    simp only [List.cons_append, lastByUuid]
    rw [ih (fun y hy => h y (List.mem_cons_of_mem _ hy))]
    simp only
    have := bytesLt_asymm (h x List.mem_cons_self)
    unfold uuidOf at this
    rw [this]
    simp

/-! ## the row `add_back` inserts -/

/-- No entry of the same (list, track, database uuid) triple yet: `add_back` inserts. -/
def noEntry3 (t : Rows ECol) (l tr : Int) (u : Bytes) : Prop :=
  ∀ x ∈ t, ¬ ((x .listId == .int l && x .trackId == .int tr && x .databaseUuid == .text u) = true)

theorem eAddBack_inserted3 {st : LStmts} {d d' : LDb} {r : Row EField} {dup : Bool} {i l tr : Int} {u : Bytes}
    (hl : r .list_id = .int l) (ht : r .track_id = .int tr) (hu : r .database_uuid = .str u)
    (hnone : noEntry3 d.pe l tr u) (h : eAddBack st d r dup = (d', .ok i)) :
    ∃ ps, evalParams r st.eIns = .ok ps ∧ i = d.peSeq + 1 ∧
      d' = { d with
        pe := updWhere (d.pe ++ [assign (setCol nullRaw .id (.int (d.peSeq + 1))) ps])
          (fun x => x .listId == .int l && x .nextEntityId == .int 0 && !(rowId .id x == d.peSeq + 1))
          (fun x => setCol x .nextEntityId (.int (d.peSeq + 1))),
        peSeq := d.peSeq + 1 } := by
  unfold eAddBack at h
  split at h
  · cases h
  · rw [hl, ht, hu] at h
    simp only at h
    have hf : d.pe.filter (fun x => x .listId == .int l && x .trackId == .int tr && x .databaseUuid == .text u) = [] := by
      rw [List.filter_eq_nil_iff]; exact hnone
    rw [hf] at h
    simp only [lastByUuid] at h
    cases he : evalParams r st.eIns with
    | throw e => rw [he] at h; cases h
    | ub ub => rw [he] at h; cases h
    | ok ps =>
      rw [he] at h
      simp only at h
      split at h
      · cases h
      · simp only [Prod.mk.injEq, Res.ok.injEq] at h
        exact ⟨ps, rfl, h.2.symm, h.1.symm⟩

/-- The key columns and the id of the inserted row. -/
theorem inserted_cols {ins : List (WB ECol EField)} {r : Row EField} {ps : List (ECol × Val)}
    (heins : alignedW eSpec eNeed [(.nextEntityId, .int 0)] ins = true) (he : evalParams r ins = .ok ps)
    (hr : wtRowE r) {l tr : Int} {u : Bytes}
    (hl : r .list_id = .int l) (ht : r .track_id = .int tr) (hu : r .database_uuid = .str u) (i : Int) :
    let raw := assign (setCol nullRaw .id (.int i)) ps
    raw .listId = .int l ∧ raw .trackId = .int tr ∧ raw .databaseUuid = .text u ∧ rowId .id raw = i := by
  obtain ⟨x1, hx1, hc1⟩ := assign_evalParams heins he (setCol nullRaw .id (.int i)) (f := .list_id) (by decide)
  obtain ⟨x2, hx2, hc2⟩ := assign_evalParams heins he (setCol nullRaw .id (.int i)) (f := .track_id) (by decide)
  obtain ⟨x3, hx3, hc3⟩ := assign_evalParams heins he (setCol nullRaw .id (.int i)) (f := .database_uuid) (by decide)
  obtain ⟨k1, hk1, hk1'⟩ := written_i64 (hr .list_id) rfl hx1
  obtain ⟨k2, hk2, hk2'⟩ := written_i64 (hr .track_id) rfl hx2
  obtain ⟨k3, hk3, hk3'⟩ := written_str (hr .database_uuid) rfl hx3
  rw [hl] at hk1; rw [ht] at hk2; rw [hu] at hk3
  cases hk1; cases hk2; cases hk3
  subst hk1' hk2' hk3'
  refine ⟨hc1, hc2, hc3, ?_⟩
  have hn : ECol.id ∉ ps.map (·.1) := by
    intro hc
    rw [(evalParams_ok he).1] at hc
    rcases alignedW_cols heins hc with h | h
    · revert h; decide
    · revert h; decide
  show readInt (assign (setCol nullRaw .id (.int i)) ps .id) = _
  rw [assign_not_mem _ _ _ hn, setCol_same]; rfl

/-- The rows of the table after the insert that satisfy a predicate on the key
columns only (`listId`, `trackId`, `databaseUuid` — untouched by the chain
update): the old rows that did, in order, then possibly the new row. -/
theorem filter_after_insert (t : Rows ECol) (raw : Raw ECol) (l i : Int) (hrid : rowId .id raw = i)
    (q : Val → Val → Val → Bool) :
    (updWhere (t ++ [raw])
      (fun x => x .listId == .int l && x .nextEntityId == .int 0 && !(rowId .id x == i))
      (fun x => setCol x .nextEntityId (.int i))).filter (fun x => q (x .listId) (x .trackId) (x .databaseUuid))
    = ((t.filter (fun x => q (x .listId) (x .trackId) (x .databaseUuid))).map
        (fun r => if (r .listId == .int l && r .nextEntityId == .int 0 && !(rowId .id r == i)) = true
          then setCol r .nextEntityId (.int i) else r))
      ++ (if q (raw .listId) (raw .trackId) (raw .databaseUuid) then [raw] else []) := by
  unfold updWhere
  rw [List.map_append, List.filter_append]
  congr 1
  · induction t with
    | nil => rfl
    | cons x xs ih =>
      simp only [List.map_cons, List.filter_cons]
      have hkeep : ∀ y : Raw ECol, q ((if (x .listId == .int l && x .nextEntityId == .int 0 && !(rowId .id x == i)) = true
          then setCol x .nextEntityId (.int i) else x) .listId)
          ((if (x .listId == .int l && x .nextEntityId == .int 0 && !(rowId .id x == i)) = true
          then setCol x .nextEntityId (.int i) else x) .trackId)
          ((if (x .listId == .int l && x .nextEntityId == .int 0 && !(rowId .id x == i)) = true
          then setCol x .nextEntityId (.int i) else x) .databaseUuid) = q (x .listId) (x .trackId) (x .databaseUuid) := by
        intro _
        split
        · rw [setCol_other _ _ (by decide), setCol_other _ _ (by decide), setCol_other _ _ (by decide)]
        · rfl
      rw [hkeep x]
      split
      · simp only [List.map_cons]; rw [ih]
      · exact ih
  · simp only [List.map_cons, List.map_nil]
    have h2 : (raw .listId == .int l && raw .nextEntityId == .int 0 && !(rowId .id raw == i)) = false := by
      rw [hrid]; simp
    rw [h2]
    simp only [Bool.false_eq_true, if_false, List.filter_cons, List.filter_nil]

/-- The chain update keeps the uuid of a row. -/
theorem uuidOf_chain (r : Raw ECol) (l i : Int) :
    uuidOf (if (r .listId == .int l && r .nextEntityId == .int 0 && !(rowId .id r == i)) = true
      then setCol r .nextEntityId (.int i) else r) = uuidOf r := by
  unfold uuidOf
  split
  · rw [setCol_other _ _ (by decide)]
  · rfl

/-! ## round trips -/

/-- **Entity round trip (full).**  After `add_back r` inserted a row (no entry of
the same (list, track, database uuid) existed), `get(list, track, database_uuid)`
returns the row written: id assigned, no next entity. -/
theorem entity_add_get3 {st : LStmts} (ha : alignedL st = true) {d d' : LDb}
    {r : Row EField} (hr : wtRowE r) {dup : Bool} {i l tr : Int} {u : Bytes}
    (hl : r .list_id = .int l) (ht : r .track_id = .int tr) (hu : r .database_uuid = .str u)
    (hnone : noEntry3 d.pe l tr u) (h : eAddBack st d r dup = (d', .ok i)) :
    eGet3 st d' l tr u = .ok (some (normRowE i r)) := by
  have hext := alignedL_ext ha
  replace ha := alignedL_core ha
  simp only [alignedLcore, Bool.and_eq_true] at ha
  simp only [alignedLext, Bool.and_eq_true] at hext
  obtain ⟨⟨⟨⟨⟨⟨⟨⟨⟨_, _⟩, _⟩, _⟩, _⟩, _⟩, heins⟩, _⟩, _⟩, _⟩ := ha
  obtain ⟨ps, he, hi, hd'⟩ := eAddBack_inserted3 hl ht hu hnone h
  subst hi hd'
  obtain ⟨hrawl, hrawt, hrawu, hrid⟩ := inserted_cols heins he hr hl ht hu (d.peSeq + 1)
  unfold eGet3
  simp only
  have := filter_after_insert d.pe _ l (d.peSeq + 1) hrid
    (fun a b c => a == .int l && b == .int tr && c == .text u)
  rw [this]
  have hold : d.pe.filter (fun x => x .listId == .int l && x .trackId == .int tr && x .databaseUuid == .text u) = [] := by
    rw [List.filter_eq_nil_iff]; exact hnone
  rw [hold, hrawl, hrawt, hrawu]
  simp only [List.map_nil, List.nil_append, beq_self_eq_true, Bool.and_self, if_true, lastByUuid]
  rw [readRow_aligned (normRowE (d.peSeq + 1) r) hext.1.1 EField.nodup_all EField.mem_all
    (read_entity_inserted heins he hr (d.peSeq + 1))]

/-- **Greatest uuid wins (round trip through the two-key `get`).**  If every
existing entry of the same (list, track) pair carries a database uuid strictly
below the written one (unsigned byte order — in particular if there is none),
`get(list, track)` after `add_back r` returns the row written. -/
theorem entity_add_get_greatest {st : LStmts} (ha : alignedL st = true) {d d' : LDb}
    {r : Row EField} (hr : wtRowE r) {dup : Bool} {i l tr : Int} {u : Bytes}
    (hl : r .list_id = .int l) (ht : r .track_id = .int tr) (hu : r .database_uuid = .str u)
    (hlow : ∀ x ∈ d.pe, (x .listId == .int l && x .trackId == .int tr) = true → bytesLt (uuidOf x) u = true)
    (h : eAddBack st d r dup = (d', .ok i)) :
    eGet st d' l tr = .ok (some (normRowE i r)) := by
  have hnone : noEntry3 d.pe l tr u := by
    intro x hx hc
    simp only [Bool.and_eq_true, beq_iff_eq] at hc
    have := hlow x hx (by simp [hc.1.1, hc.1.2])
    unfold uuidOf at this
    rw [hc.2] at this
    simp only [readStr, bytesLt_irrefl] at this
    cases this
  replace ha := alignedL_core ha
  simp only [alignedLcore, Bool.and_eq_true] at ha
  obtain ⟨⟨⟨⟨⟨⟨⟨⟨⟨_, _⟩, _⟩, _⟩, _⟩, _⟩, heins⟩, hesel⟩, _⟩, _⟩ := ha
  obtain ⟨ps, he, hi, hd'⟩ := eAddBack_inserted3 hl ht hu hnone h
  subst hi hd'
  obtain ⟨hrawl, hrawt, hrawu, hrid⟩ := inserted_cols heins he hr hl ht hu (d.peSeq + 1)
  unfold eGet
  simp only
  have := filter_after_insert d.pe _ l (d.peSeq + 1) hrid (fun a b _ => a == .int l && b == .int tr)
  rw [this, hrawl, hrawt]
  simp only [beq_self_eq_true, Bool.and_self, if_true]
  rw [lastByUuid_append_greatest]
  · simp only
    rw [readRow_aligned (normRowE (d.peSeq + 1) r) hesel EField.nodup_all EField.mem_all
      (read_entity_inserted heins he hr (d.peSeq + 1))]
  · intro x hx
    obtain ⟨o, ho, hxo⟩ := List.mem_map.mp hx
    rw [← hxo, uuidOf_chain]
    have hm := List.mem_filter.mp ho
    have : uuidOf (assign (setCol nullRaw ECol.id (Val.int (d.peSeq + 1))) ps) = u := by
      unfold uuidOf; rw [hrawu]; rfl
    rw [this]
    exact hlow o hm.1 hm.2

/-- **Greatest uuid wins (what the two-key `get` returns, on any state).**  The
row `get(list, track)` returns is read from an entry of that pair whose database
uuid no other entry of the pair exceeds; it returns `nullopt` exactly when the
pair has no entry. -/
theorem entity_get_greatest (st : LStmts) (d : LDb) (l tr : Int) :
    (eGet st d l tr = .ok none ↔ ∀ x ∈ d.pe, ¬ ((x .listId == .int l && x .trackId == .int tr) = true)) ∧
    (∀ g, eGet st d l tr = .ok (some g) →
      ∃ raw ∈ d.pe, raw .listId = .int l ∧ raw .trackId = .int tr ∧ readRow raw st.eSel = .ok g ∧
        ∀ x ∈ d.pe, (x .listId == .int l && x .trackId == .int tr) = true →
          bytesLt (uuidOf raw) (uuidOf x) = false) := by
  unfold eGet
  cases hm : lastByUuid (d.pe.filter (fun x => x .listId == .int l && x .trackId == .int tr)) with
  | none =>
    have := lastByUuid_none.mp hm
    rw [List.filter_eq_nil_iff] at this
    refine ⟨⟨fun _ => this, fun _ => rfl⟩, fun g hg => by cases hg⟩
  | some raw =>
    obtain ⟨hmem, hmax⟩ := lastByUuid_spec hm
    obtain ⟨hin, hkey⟩ := List.mem_filter.mp hmem
    simp only [Bool.and_eq_true, beq_iff_eq] at hkey
    constructor
    · constructor
      · intro h
        simp only at h
        cases hr : readRow raw st.eSel with
        | ok g => rw [hr] at h; cases h
        | throw e => rw [hr] at h; cases h
        | ub u => rw [hr] at h; cases h
      · intro h
        exact absurd (by simp [hkey.1, hkey.2]) (h raw hin)
    · intro g hg
      simp only at hg
      cases hr : readRow raw st.eSel with
      | ok g' =>
        rw [hr] at hg
        simp only [Res.ok.injEq, Option.some.injEq] at hg
        subst hg
        exact ⟨raw, hin, hkey.1, hkey.2, hr, fun x hx hk => hmax x (List.mem_filter.mpr ⟨hx, hk⟩)⟩
      | throw e => rw [hr] at hg; cases hg
      | ub u => rw [hr] at hg; cases hg

/-- **`add_back` of an entry that exists** changes nothing: it reports
`invalid_argument` when asked to, and answers the existing id otherwise. -/
theorem entity_add_duplicate {st : LStmts} {d : LDb} {r : Row EField} {l tr : Int} {u : Bytes}
    (hid : r .id = .int 0)
    (hl : r .list_id = .int l) (ht : r .track_id = .int tr) (hu : r .database_uuid = .str u)
    (hex : ¬ noEntry3 d.pe l tr u) :
    eAddBack st d r true = (d, .throw .invalid_argument) ∧
    ∃ x ∈ d.pe, x .listId = .int l ∧ x .trackId = .int tr ∧ x .databaseUuid = .text u ∧
      eAddBack st d r false = (d, .ok (rowId .id x)) := by
  have hne : d.pe.filter (fun x => x .listId == .int l && x .trackId == .int tr && x .databaseUuid == .text u) ≠ [] := by
    intro hc
    rw [List.filter_eq_nil_iff] at hc
    exact hex hc
  cases hm : lastByUuid (d.pe.filter (fun x => x .listId == .int l && x .trackId == .int tr && x .databaseUuid == .text u)) with
  | none => exact absurd (lastByUuid_none.mp hm) hne
  | some x =>
    obtain ⟨hmem, _⟩ := lastByUuid_spec hm
    obtain ⟨hin, hkey⟩ := List.mem_filter.mp hmem
    simp only [Bool.and_eq_true, beq_iff_eq] at hkey
    constructor
    · unfold eAddBack
      simp only [hid, ne_eq, not_true_eq_false, if_false, hl, ht, hu, hm, if_true]
    · refine ⟨x, hin, hkey.1.1, hkey.1.2, hkey.2, ?_⟩
      unfold eAddBack
      simp only [hid, ne_eq, not_true_eq_false, if_false, hl, ht, hu, hm, Bool.false_eq_true]

/-! ## get_for_list -/

theorem readRows_ok {sel : List (RB ECol EField)} {raws : List (Raw ECol)} {gs : List (Row EField)}
    (h : readRows sel raws = .ok gs) : ∀ g ∈ gs, ∃ raw ∈ raws, readRow raw sel = .ok g := by
  induction raws generalizing gs with
  | nil => simp only [readRows, Res.ok.injEq] at h; subst h; intro g hg; cases hg
  | cons raw rest ih =>
    simp only [readRows] at h
    cases hr : readRow raw sel with
    | ok g =>
      rw [hr] at h
      cases hrest : readRows sel rest with
      | ok gs' =>
        rw [hrest] at h
        simp only [Res.ok.injEq] at h; subst h
        intro g' hg'
        rcases List.mem_cons.mp hg' with rfl | hg'
        · exact ⟨raw, List.mem_cons_self, hr⟩
        · obtain ⟨raw', hm, hrd⟩ := ih hrest g' hg'
          exact ⟨raw', List.mem_cons_of_mem _ hm, hrd⟩
      | throw e => rw [hrest] at h; cases h
      | ub u => rw [hrest] at h; cases h
    | throw e => rw [hr] at h; cases h
    | ub u => rw [hr] at h; cases h

theorem mapFind_mem {rows : List (Row EField)} {k : Int} {g : Row EField} (h : mapFind rows k = some g) : g ∈ rows := by
  unfold mapFind at h
  exact (List.mem_filter.mp (List.mem_of_getLast? h)).1

theorem walkBack_mem (rows : List (Row EField)) (n : Nat) (g : Row EField) (acc : List (Row EField))
    (hg : g ∈ rows) (hacc : ∀ x ∈ acc, x ∈ rows) : ∀ x ∈ walkBack rows n g acc, x ∈ rows := by
  induction n generalizing g acc with
  | zero =>
    intro x hx
    simp only [walkBack, List.mem_cons] at hx
    rcases hx with rfl | hx
    · exact hg
    · exact hacc x hx
  | succ n ih =>
    intro x hx
    simp only [walkBack] at hx
    cases hm : mapFind rows (entId g) with
    | none =>
      rw [hm] at hx
      simp only [List.mem_cons] at hx
      rcases hx with rfl | hx
      · exact hg
      · exact hacc x hx
    | some g' =>
      rw [hm] at hx
      exact ih g' (g :: acc) (mapFind_mem hm) (fun y hy => by
        rcases List.mem_cons.mp hy with rfl | hy
        · exact hg
        · exact hacc y hy) x hx

/-- **`get_for_list` returns rows of the table**: every row it returns is what
the aligned SELECT reads from an entry of that list. -/
theorem entity_list_sound {st : LStmts} {d : LDb} {l : Int} {gs : List (Row EField)}
    (h : eGetForList st d l = .ok gs) :
    ∀ g ∈ gs, ∃ raw ∈ d.pe, raw .listId = .int l ∧ readRow raw st.eSelList = .ok g := by
  unfold eGetForList at h
  cases hr : readRows st.eSelList (d.pe.filter (fun x => x .listId == .int l)) with
  | throw e => rw [hr] at h; cases h
  | ub u => rw [hr] at h; cases h
  | ok rows =>
    rw [hr] at h
    have hall := readRows_ok hr
    have hrow : ∀ g ∈ rows, ∃ raw ∈ d.pe, raw .listId = .int l ∧ readRow raw st.eSelList = .ok g := by
      intro g hg
      obtain ⟨raw, hraw, hread⟩ := hall g hg
      obtain ⟨hin, hk⟩ := List.mem_filter.mp hraw
      exact ⟨raw, hin, by simpa using hk, hread⟩
    cases rows with
    | nil => simp only [Res.ok.injEq] at h; subst h; intro g hg; cases hg
    | cons r0 rest =>
      simp only at h
      cases hm : mapFind (r0 :: rest) 0 with
      | none => rw [hm] at h; cases h
      | some tail =>
        rw [hm] at h
        simp only [Res.ok.injEq] at h; subst h
        intro g hg
        exact hrow g (walkBack_mem _ _ _ _ (mapFind_mem hm) (fun _ hx => by cases hx) g hg)

/-- **`get_for_list` after the first `add_back`**: on a list without entries, the
list read back is exactly the row written. -/
theorem entity_list_single {st : LStmts} (ha : alignedL st = true) {d d' : LDb}
    {r : Row EField} (hr : wtRowE r) {dup : Bool} {i l tr : Int} {u : Bytes}
    (hl : r .list_id = .int l) (ht : r .track_id = .int tr) (hu : r .database_uuid = .str u)
    (hseq : 0 ≤ d.peSeq)
    (hempty : ∀ x ∈ d.pe, ¬ ((x .listId == .int l) = true)) (h : eAddBack st d r dup = (d', .ok i)) :
    eGetForList st d' l = .ok [normRowE i r] := by
  have hnone : noEntry3 d.pe l tr u := by
    intro x hx hc
    simp only [Bool.and_eq_true] at hc
    exact hempty x hx hc.1.1
  have hext := alignedL_ext ha
  replace ha := alignedL_core ha
  simp only [alignedLcore, Bool.and_eq_true] at ha
  simp only [alignedLext, Bool.and_eq_true] at hext
  obtain ⟨⟨⟨⟨⟨⟨⟨⟨⟨_, _⟩, _⟩, _⟩, _⟩, _⟩, heins⟩, _⟩, _⟩, _⟩ := ha
  obtain ⟨ps, he, hi, hd'⟩ := eAddBack_inserted3 hl ht hu hnone h
  subst hi hd'
  obtain ⟨hrawl, hrawt, hrawu, hrid⟩ := inserted_cols heins he hr hl ht hu (d.peSeq + 1)
  unfold eGetForList
  simp only
  have := filter_after_insert d.pe _ l (d.peSeq + 1) hrid (fun a _ _ => a == .int l)
  rw [this]
  have hold : d.pe.filter (fun x => x .listId == .int l) = [] := by
    rw [List.filter_eq_nil_iff]; exact hempty
  rw [hold, hrawl]
  simp only [List.map_nil, List.nil_append, beq_self_eq_true, if_true, readRows]
  rw [readRow_aligned (normRowE (d.peSeq + 1) r) hext.1.2 EField.nodup_all EField.mem_all
    (read_entity_inserted heins he hr (d.peSeq + 1))]
  simp only
  have hnext : entNext (normRowE (d.peSeq + 1) r) = 0 := rfl
  have hidg : entId (normRowE (d.peSeq + 1) r) = d.peSeq + 1 := rfl
  have hfind0 : mapFind [normRowE (d.peSeq + 1) r] 0 = some (normRowE (d.peSeq + 1) r) := by
    simp [mapFind, hnext]
  rw [hfind0]
  simp only [List.length_singleton, walkBack, hidg]
  have hfind1 : mapFind [normRowE (d.peSeq + 1) r] (d.peSeq + 1) = none := by
    have hne : ((0 : Int) == d.peSeq + 1) = false := by simp; omega
    simp [mapFind, hnext, hne]
  rw [hfind1]

end Table
end EngineModel
