/-
One refinement lemma per 1.x setter that goes through a PerformanceData blob column.
-/
import Proofs.TracksV1Lens
namespace EngineModel.TracksV1
open Impl.V1 (GMarker HotCue LoopV Entry Wave Beat Cues Loops)
open Fl (FOps)
set_option linter.unusedSimpArgs false
macro "inv_perf" hinv:ident p:ident hp:ident : tactic =>
  `(tactic| (refine InvP.of_perf $hinv $p _ $hp ?_ ?_ ?_ _ ?_ ?_ <;>
      first | rfl | exact InvP.cues $hinv $p $hp | exact InvP.loops $hinv $p $hp | simp [colTrack, $hp:ident]))
variable (o : FOps) (s : Schema) (r r' : TrackRows)

theorem refine_averageLoudness (v : Option Bits) (hinv : InvP r) (h : set o r .averageLoudness v = .ok r') :
    Refines o s r r' .averageLoudness v := by
  simp only [set] at h
  obtain ⟨p, hp, hr⟩ := setTrackCol_ok _ _ _ h
  subst hr
  refine ⟨_, rfl, ?_, ?_⟩
  · simp [snapOf, Spec.putField, fileBytesCol, colTrack, hp, loud_eq]
  · inv_perf hinv p hp

theorem refine_beatgrid (g : List GMarker) (hinv : InvP r) (h : set o r .beatgrid g = .ok r') :
    Refines o s r r' .beatgrid g := by
  simp only [set] at h
  obtain ⟨p, hp, hr, hv, ha⟩ := setBeatCol_ok _ _ _ h
  subst hr
  simp only at hv ha
  have hg : Spec.gridOk g = true := by
    rw [← validGrid_eq_gridOk g (all2_marker_noNaN g ha)]; exact hv
  refine ⟨g, by simp [Spec.normField, hg], ?_, ?_⟩
  · simp [snapOf, Spec.putField, fileBytesCol, colBeat, hp]
  · inv_perf hinv p hp

theorem refine_sampleCount (n0 : Option UInt64) (hinv : InvP r) (h : set o r .sampleCount n0 = .ok r') :
    Refines o s r r' .sampleCount n0 := by
  simp only [set] at h
  obtain ⟨secs, hsecs, h⟩ := bind_ok_inv h
  obtain ⟨r2, h2, h⟩ := bind_ok_inv h
  obtain ⟨r3, h3, h⟩ := bind_ok_inv h
  obtain ⟨p, hp, hr2, _, _⟩ := setBeatCol_ok _ _ _ h2
  simp only at hp
  subst hr2
  obtain ⟨p2, hp2, hr3⟩ := setTrackCol_ok _ _ _ h3
  simp only [Option.some.injEq] at hp2
  subst hp2
  subst hr3
  split at h
  · simp only [Res.pure_eq, pure, Res.ok.injEq] at h
    subst h
    refine ⟨_, rfl, ?_, ?_⟩
    · simp [snapOf, Spec.putField, fileBytesCol, colTrack, colBeat, hp]
    · inv_perf hinv p hp
  · obtain ⟨e, he, h⟩ := bind_ok_inv h
    obtain ⟨p3, hp3, hr⟩ := setOvwCol_ok _ _ _ h
    simp only [Option.some.injEq] at hp3
    subst hp3
    subst hr
    refine ⟨_, rfl, ?_, ?_⟩
    · simp [snapOf, Spec.putField, fileBytesCol, colTrack, colBeat, hp]
    · inv_perf hinv p hp

theorem refine_sampleRate (v0 : Option Bits) (hinv : InvP r) (h : set o r .sampleRate v0 = .ok r') :
    Refines o s r r' .sampleRate v0 := by
  simp only [set] at h
  obtain ⟨secs, hsecs, h⟩ := bind_ok_inv h
  obtain ⟨r2, h2, h⟩ := bind_ok_inv h
  obtain ⟨r3, h3, h⟩ := bind_ok_inv h
  obtain ⟨r4, h4, h⟩ := bind_ok_inv h
  obtain ⟨p, hp, hr2, _, _⟩ := setBeatCol_ok _ _ _ h2
  simp only at hp
  subst hr2
  obtain ⟨p2, hp2, hr3⟩ := setTrackCol_ok _ _ _ h3
  simp only [Option.some.injEq] at hp2
  subst hp2
  subst hr3
  have hnf : Spec.normField .sampleRate v0 = some (zeroNoneF (zeroNoneF v0)) := by
    rw [zeroNoneF_eq_dropZero, zeroNoneF_eq_dropZero, Spec.dropZero_idem]; rfl
  split at h4
  · simp only [Res.pure_eq, pure, Res.ok.injEq] at h4
    subst h4
    split at h
    · simp only [Res.pure_eq, pure, Res.ok.injEq] at h
      subst h
      refine ⟨_, hnf, ?_, ?_⟩
      · simp [snapOf, Spec.putField, fileBytesCol, colTrack, colBeat, hp, zeroNoneF_eq_dropZero, Spec.dropZero_idem]
      · inv_perf hinv p hp
    · obtain ⟨e, he, h⟩ := bind_ok_inv h
      obtain ⟨p3, hp3, hr⟩ := setOvwCol_ok _ _ _ h
      simp only [Option.some.injEq] at hp3
      subst hp3
      subst hr
      refine ⟨_, hnf, ?_, ?_⟩
      · simp [snapOf, Spec.putField, fileBytesCol, colTrack, colBeat, hp, zeroNoneF_eq_dropZero, Spec.dropZero_idem]
      · inv_perf hinv p hp
  · obtain ⟨e4, he4, h4⟩ := bind_ok_inv h4
    obtain ⟨p4, hp4, hr4⟩ := setHiresCol_ok _ _ _ h4
    simp only [Option.some.injEq] at hp4
    subst hp4
    subst hr4
    split at h
    · simp only [Res.pure_eq, pure, Res.ok.injEq] at h
      subst h
      refine ⟨_, hnf, ?_, ?_⟩
      · simp [snapOf, Spec.putField, fileBytesCol, colTrack, colBeat, colHires, hp, zeroNoneF_eq_dropZero,
          Spec.dropZero_idem]
      · inv_perf hinv p hp
    · obtain ⟨e, he, h⟩ := bind_ok_inv h
      obtain ⟨p3, hp3, hr⟩ := setOvwCol_ok _ _ _ h
      simp only [Option.some.injEq] at hp3
      subst hp3
      subst hr
      refine ⟨_, hnf, ?_, ?_⟩
      · simp [snapOf, Spec.putField, fileBytesCol, colTrack, colBeat, colHires, hp, zeroNoneF_eq_dropZero,
          Spec.dropZero_idem]
      · inv_perf hinv p hp

theorem refine_waveform (w : List Entry) (hinv : InvP r) (h : set o r .waveform w = .ok r') :
    Refines o s r r' .waveform w := by
  simp only [set] at h
  obtain ⟨⟨ov, hi⟩, hpair, h⟩ := bind_ok_inv h
  simp only at h
  obtain ⟨r1, h1, h⟩ := bind_ok_inv h
  obtain ⟨p, hp, hr1⟩ := setOvwCol_ok _ _ _ h1
  subst hr1
  obtain ⟨p2, hp2, hr⟩ := setHiresCol_ok _ _ _ h
  simp only [Option.some.injEq] at hp2
  subst hp2
  subst hr
  have hhi : hi.entries = w := by
    split at hpair
    · rename_i hw
      simp only [Res.pure_eq, pure, Res.ok.injEq, Prod.mk.injEq] at hpair
      rw [← hpair.2]
      cases w with
      | nil => rfl
      | cons a t => simp at hw
    · obtain ⟨oe, _, hpair⟩ := bind_ok_inv hpair
      obtain ⟨es, _, hpair⟩ := bind_ok_inv hpair
      obtain ⟨he, _, hpair⟩ := bind_ok_inv hpair
      simp only [Res.pure_eq, pure, Res.ok.injEq, Prod.mk.injEq] at hpair
      rw [← hpair.2]
  refine ⟨w, rfl, ?_, ?_⟩
  · simp [snapOf, Spec.putField, fileBytesCol, hp, hhi]
  · inv_perf hinv p hp

/-- `set_key`: the track-data blob (which holds C major as "no key") and `MetaDataInteger` type 4. -/
theorem refine_key (k : Option UInt32) (hinv : InvP r) (h : set o r .key k = .ok r') :
    Refines o s r r' .key k := by
  simp only [set] at h
  obtain ⟨r1, h1, h⟩ := Res.bind_eq_ok h
  obtain ⟨p, hp, hr1⟩ := setTrackCol_ok _ _ _ h1
  subst hr1
  simp only [Res.ok.injEq] at h
  subst h
  refine ⟨k, rfl, ?_, ?_⟩
  · have hk := key_read' k
    simp [snapOf, Spec.putField, fileBytesCol, colTrack, hp, cell_aset_same, cell_aset_other]
    exact hk
  · obtain ⟨a, b, c, d, e, f⟩ := hinv
    refine ⟨a, b, ?_, ?_, ?_, ?_⟩
    · intro t ht
      rw [cell_aset_other _ _ _ _ (by decide)] at ht
      exact c t ht
    · intro q hq; cases hq; exact d p hp
    · intro q hq; cases hq; exact e p hp
    · intro q hq k0 hk0
      cases hq
      simp only at hk0
      rw [cell_aset_same]
      cases k with
      | none => simp at hk0
      | some kv =>
        simp only [Option.bind_some] at hk0
        split at hk0
        · cases hk0
        · cases hk0; rfl

theorem refine_mainCue (v : Option Bits) (hinv : InvP r) (h : set o r .mainCue v = .ok r') :
    Refines o s r r' .mainCue v := by
  simp only [set] at h
  obtain ⟨p, hp, hr, h8, _, _⟩ := setCuesCol_ok _ _ _ h
  subst hr
  refine ⟨_, rfl, ?_, ?_⟩
  · simp [snapOf, Spec.putField, fileBytesCol, colCues, hp, mainCue_read]
  · refine InvP.of_perf hinv p _ hp ?_ ?_ ?_ _ ?_ ?_ <;>
      first | rfl | exact hinv.loops p hp | (simpa using h8)

theorem refine_hotCues (cs : List (Option HotCue)) (hinv : InvP r) (h : set o r .hotCues cs = .ok r') :
    Refines o s r r' .hotCues cs := by
  simp only [set] at h
  obtain ⟨p, hp, hr, h8, hall, hfix⟩ := setCuesCol_ok _ _ _ h
  subst hr
  simp only at h8 hall hfix
  have hlen : cs.length ≤ 8 := pad_len_le cs h8
  have hall' : cs.all Spec.cueOk = true := pad_all _ cs hall
  have hw : Spec.pad8 (cs.map Spec.normCue) = padTo8 cs := by
    rw [← map_pad8 _ rfl, ← padTo8_eq_pad8]; exact hfix
  refine ⟨Spec.pad8 (cs.map Spec.normCue), by simp [Spec.normField, hlen, hall'], ?_, ?_⟩
  · simp [snapOf, Spec.putField, fileBytesCol, colCues, hp, hw]
  · refine InvP.of_perf hinv p _ hp ?_ ?_ ?_ _ ?_ ?_ <;>
      first | rfl | exact hinv.loops p hp | exact h8

theorem refine_hotCueAt (i : UInt32) (q : Option HotCue) (hinv : InvP r) (h : set o r (.hotCueAt i) q = .ok r') :
    Refines o s r r' (.hotCueAt i) q := by
  simp only [set] at h
  obtain ⟨k, hk, h⟩ := Res.bind_eq_ok h
  obtain ⟨p, hp, hr, h8, hall, hfix⟩ := setCuesCol_ok _ _ _ h
  subst hr
  have hc : (colCues r).cues = p.cues.cues := by simp [colCues, hp]
  have hl8 : p.cues.cues.length = 8 := hinv.cues p hp
  rw [slotIndex_eq, hc, hl8] at hk
  cases hs : Spec.slotOf i 8 with
  | none => rw [hs] at hk; cases hk
  | some k' =>
    rw [hs] at hk
    cases hk
    have hklt : k < p.cues.cues.length := by rw [hl8]; exact slotOf_lt i 8 k hs
    simp only [setAt, hc] at h8 hall hfix
    have hmem : q ∈ p.cues.cues.set k q := mem_set_self _ _ _ hklt
    have hq : Spec.cueOk q = true := List.all_eq_true.mp hall q hmem
    have hnq : Spec.normCue q = q := map_eq_self_mem _ _ hfix q hmem
    refine ⟨Spec.normCue q, by simp [Spec.normField, slotOf_8 i k hs, hq], ?_, ?_⟩
    · simp [snapOf, Spec.putField, fileBytesCol, colCues, hp, setAt, Spec.slotPut, hl8, hs, hnq]
    · refine InvP.of_perf hinv p _ hp ?_ ?_ ?_ _ ?_ ?_ <;>
        first | rfl | exact hinv.loops p hp | (simpa [setAt, hc] using hl8)

theorem refine_loops (ls : List (Option LoopV)) (hinv : InvP r) (h : set o r .loops ls = .ok r') :
    Refines o s r r' .loops ls := by
  simp only [set] at h
  split at h
  · cases h
  · rename_i hlen
    obtain ⟨p, hp, hr, hall, hfix⟩ := setLoopsCol_ok _ _ _ h
    subst hr
    have hlen' : ls.length ≤ 8 := by omega
    have hall' : ls.all Spec.loopOk = true := pad_all _ ls hall
    have hw : Spec.pad8 (ls.map Spec.normLoop) = padTo8 ls := by
      rw [← map_pad8 _ rfl, ← padTo8_eq_pad8]; exact hfix
    refine ⟨Spec.pad8 (ls.map Spec.normLoop), by simp [Spec.normField, hlen', hall'], ?_, ?_⟩
    · simp [snapOf, Spec.putField, fileBytesCol, hp, hw]
    · refine InvP.of_perf hinv p _ hp ?_ ?_ ?_ _ ?_ ?_ <;>
        first | rfl | exact hinv.cues p hp | exact padTo8_length ls hlen'

theorem refine_loopAt (i : UInt32) (q : Option LoopV) (hinv : InvP r) (h : set o r (.loopAt i) q = .ok r') :
    Refines o s r r' (.loopAt i) q := by
  simp only [set] at h
  obtain ⟨k, hk, h⟩ := Res.bind_eq_ok h
  obtain ⟨p, hp, hr, hall, hfix⟩ := setLoopsCol_ok _ _ _ h
  subst hr
  have hc : colLoops r = p.loops := by simp [colLoops, hp]
  have hl8 : p.loops.length = 8 := hinv.loops p hp
  rw [slotIndex_eq, hc, hl8] at hk
  cases hs : Spec.slotOf i 8 with
  | none => rw [hs] at hk; cases hk
  | some k' =>
    rw [hs] at hk
    cases hk
    have hklt : k < p.loops.length := by rw [hl8]; exact slotOf_lt i 8 k hs
    simp only [setAt, hc] at hall hfix
    have hmem : q ∈ p.loops.set k q := mem_set_self _ _ _ hklt
    have hq : Spec.loopOk q = true := List.all_eq_true.mp hall q hmem
    have hnq : Spec.normLoop q = q := map_eq_self_mem _ _ hfix q hmem
    refine ⟨Spec.normLoop q, by simp [Spec.normField, slotOf_8 i k hs, hq], ?_, ?_⟩
    · simp [snapOf, Spec.putField, fileBytesCol, colLoops, hp, setAt, Spec.slotPut, hl8, hs, hnq]
    · refine InvP.of_perf hinv p _ hp ?_ ?_ ?_ _ ?_ ?_ <;>
        first | rfl | exact hinv.cues p hp | (simpa [setAt, hc] using hl8)

end EngineModel.TracksV1
