/-
Lemmas about the `playlist_table` / `playlist_entity_table` model
(Table/Lists.lean) for property C18: the row the INSERT / UPDATE stored is found
again by id after the schema's triggers ran (they touch other rows only, or
rewrite a column with the value it has), and the aligned SELECT reads from it
the row written.
-/
import EngineModel.Table.Lists
import Proofs.TableTrack
namespace EngineModel
namespace Table

set_option linter.unusedSectionVars false

/-! ## row store: general UPDATE … WHERE -/
section Store
variable {C : Type} [DecidableEq C]

theorem findRow_updWhere (idc : C) (t : Rows C) (p : Raw C → Bool) (f : Raw C → Raw C) (i : Int)
    (hid : ∀ r, rowId idc (f r) = rowId idc r) :
    findRow idc (updWhere t p f) i = (findRow idc t i).map (fun r => if p r then f r else r) := by
  unfold findRow updWhere
  induction t with
  | nil => rfl
  | cons r rs ih =>
    simp only [List.map_cons, List.find?_cons]
    have : rowId idc (if p r = true then f r else r) = rowId idc r := by split <;> simp [hid]
    rw [this]
    split
    · rfl
    · exact ih

theorem idsBelow_updWhere {idc : C} {t : Rows C} {seq : Int} (h : idsBelow idc t seq)
    (p : Raw C → Bool) (f : Raw C → Raw C) (hid : ∀ r, rowId idc (f r) = rowId idc r) :
    idsBelow idc (updWhere t p f) seq := by
  intro x hx
  unfold updWhere at hx
  obtain ⟨o, ho, hxo⟩ := List.mem_map.mp hx
  rw [← hxo]
  split
  · rw [hid]; exact h o ho
  · exact h o ho

theorem findRow_fresh {idc : C} {t : Rows C} {seq : Int} (h : idsBelow idc t seq) {i : Int} (hi : seq < i) :
    findRow idc t i = none := by
  unfold findRow
  rw [List.find?_eq_none]
  intro r hr
  have := h r hr
  simp only [beq_iff_eq]
  omega

theorem rowId_setCol (idc : C) (r : Raw C) {c : C} (v : Val) (h : c ≠ idc) :
    rowId idc (setCol r c v) = rowId idc r := by
  unfold rowId
  rw [setCol_other _ _ (fun hc => h hc.symm)]

/-- Setting a column to the value it already has changes nothing. -/
theorem setCol_same_val (r : Raw C) (c : C) (v : Val) (h : r c = v) : setCol r c v = r := by
  funext c'
  unfold setCol
  split
  · rename_i hc; rw [hc, h]
  · rfl

end Store

/-! ## Spec tables of the list tables -/

theorem PField.mem_all (f : PField) : f ∈ PField.all := by cases f <;> decide
theorem PField.nodup_all : nodupB PField.all = true := by decide
theorem PField.col_inj {f g : PField} (h : f.col = g.col) : f = g := by
  cases f <;> cases g <;> first | rfl | (exact absurd h (by decide))
theorem PField.mem_writable {f : PField} : f ∈ PField.writable ↔ f ≠ .id := by
  unfold PField.writable
  simp [List.mem_filter, PField.mem_all]

theorem EField.mem_all (f : EField) : f ∈ EField.all := by cases f <;> decide
theorem EField.nodup_all : nodupB EField.all = true := by decide
theorem EField.col_inj {f g : EField} (h : f.col = g.col) : f = g := by
  cases f <;> cases g <;> first | rfl | (exact absurd h (by decide))

theorem pSpec_colOf (f : PField) : pSpec.colOf f = f.col := rfl
theorem pSpec_tyOf (f : PField) : pSpec.tyOf f = f.ty := rfl
theorem eSpec_colOf (f : EField) : eSpec.colOf f = f.col := rfl
theorem eSpec_tyOf (f : EField) : eSpec.tyOf f = f.ty := rfl


theorem alignedL_core {st : LStmts} (h : alignedL st = true) : alignedLcore st = true := by
  simp only [alignedL, Bool.and_eq_true] at h; exact h.1

theorem alignedL_ext {st : LStmts} (h : alignedL st = true) : alignedLext st = true := by
  simp only [alignedL, Bool.and_eq_true] at h; exact h.2

/-! ## playlist_entity_table -/

theorem wt_i64 {v : FVal} (h : wtv .i64 v = true) : ∃ i, v = .int i := by
  cases v <;> simp only [wtv, Bool.false_eq_true] at h
  exact ⟨_, rfl⟩

theorem wt_str {v : FVal} (h : wtv .str v = true) : ∃ b, v = .str b := by
  cases v <;> simp only [wtv, Bool.false_eq_true] at h
  exact ⟨_, rfl⟩

/-- No entry of the same (list, track) pair yet. -/
def noEntry (t : Rows ECol) (l tr : Int) : Prop :=
  ∀ x ∈ t, ¬ ((x .listId == .int l && x .trackId == .int tr) = true)

theorem filter_none_of_noEntry {t : Rows ECol} {l tr : Int} (h : noEntry t l tr) (q : Raw ECol → Bool) :
    t.filter (fun x => x .listId == .int l && x .trackId == .int tr && q x) = [] := by
  rw [List.filter_eq_nil_iff]
  intro x hx
  have := h x hx
  intro hh
  simp only [Bool.and_eq_true] at this hh
  exact this hh.1

theorem eAddBack_inserted {st : LStmts} {d d' : LDb} {r : Row EField} {dup : Bool} {i l tr : Int} {u : Bytes}
    (hl : r .list_id = .int l) (ht : r .track_id = .int tr) (hu : r .database_uuid = .str u)
    (hnone : noEntry d.pe l tr) (h : eAddBack st d r dup = (d', .ok i)) :
    ∃ ps, evalParams r st.eIns = .ok ps ∧ i = d.peSeq + 1 ∧
      d' = { d with
        pe := updWhere (d.pe ++ [assign (setCol nullRaw .id (.int (d.peSeq + 1))) ps])
          (fun x => x .listId == .int l && x .nextEntityId == .int 0 && !(rowId .id x == d.peSeq + 1))
          (fun x => setCol x .nextEntityId (.int (d.peSeq + 1))),
        peSeq := d.peSeq + 1 } := by
  unfold eAddBack at h
  split at h
  · cases h
  · rw [hl, ht, hu] at h
    simp only at h
    rw [filter_none_of_noEntry hnone] at h
    simp only [lastByUuid] at h
    cases he : evalParams r st.eIns with
    | throw e => rw [he] at h; cases h
    | ub ub => rw [he] at h; cases h
    | ok ps =>
      rw [he] at h
      simp only at h
      split at h
      · cases h
      · simp only [Prod.mk.injEq, Res.ok.injEq] at h
        exact ⟨ps, rfl, h.2.symm, h.1.symm⟩

/-- What the entity SELECT reads from the row the entity INSERT stored. -/
theorem read_entity_inserted {ins : List (WB ECol EField)} {r : Row EField} {ps : List (ECol × Val)}
    (hins : alignedW eSpec eNeed [(.nextEntityId, .int 0)] ins = true) (he : evalParams r ins = .ok ps)
    (hr : wtRowE r) (i : Int) (f : EField) :
    readSrc (assign (setCol nullRaw .id (.int i)) ps) (expectedSrc eSpec (fun _ => true) f)
      = .ok (normRowE i r f) := by
  let base : Raw ECol := setCol nullRaw .id (.int i)
  have hcols : ∀ c ∈ ps.map (·.1), c ∈ eNeed.map eSpec.colOf ∨ c ∈ [(ECol.nextEntityId, Val.int 0)].map (·.1) := by
    intro c hc
    rw [(evalParams_ok he).1] at hc
    exact alignedW_cols hins hc
  by_cases hfid : f = .id
  · subst hfid
    have hn : ECol.id ∉ ps.map (·.1) := by
      intro hc
      rcases hcols _ hc with h | h
      · revert h; decide
      · revert h; decide
    simp only [expectedSrc, if_true, readSrc, eSpec_colOf, eSpec_tyOf, EField.col, EField.ty]
    rw [assign_not_mem _ _ _ hn, setCol_same]
    rfl
  by_cases hfn : f = .next_entity_id
  · subst hfn
    have := assign_evalParams_const hins he base (c := .nextEntityId) (v := .int 0) (by decide)
    simp only [expectedSrc, if_true, readSrc, eSpec_colOf, eSpec_tyOf, EField.col, EField.ty]
    show rconv _ _ (assign base ps .nextEntityId) = _
    rw [this]; rfl
  have hneed : f ∈ eNeed := by
    cases f <;> first | contradiction | decide
  have hnorm : normRowE i r f = normV f.ty (r f) := by
    cases f <;> first | contradiction | rfl
  rw [hnorm]
  simp only [expectedSrc, if_true]
  exact read_after_write hins he base _ hneed (hr f) rfl

/-- **Entity round trip.**  If no entry of the same (list, track) pair exists,
`get(list, track)` after a successful `add_back r` returns the row written
(id assigned, no next entity). -/
theorem entity_add_get {st : LStmts} (ha : alignedL st = true) {d d' : LDb}
    {r : Row EField} (hr : wtRowE r) {dup : Bool} {i l tr : Int}
    (hl : r .list_id = .int l) (ht : r .track_id = .int tr)
    (hnone : noEntry d.pe l tr) (h : eAddBack st d r dup = (d', .ok i)) :
    eGet st d' l tr = .ok (some (normRowE i r)) := by
  replace ha := alignedL_core ha
  simp only [alignedLcore, Bool.and_eq_true] at ha
  obtain ⟨⟨⟨⟨⟨⟨⟨⟨⟨_, _⟩, _⟩, _⟩, _⟩, _⟩, heins⟩, hesel⟩, _⟩, _⟩ := ha
  obtain ⟨u, hu⟩ := wt_str (hr .database_uuid)
  obtain ⟨ps, he, hi, hd'⟩ := eAddBack_inserted hl ht hu hnone h
  subst hi hd'
  let raw := assign (setCol nullRaw .id (.int (d.peSeq + 1))) ps
  -- the columns of the new row
  obtain ⟨x1, hx1, hc1⟩ := assign_evalParams heins he (setCol nullRaw .id (.int (d.peSeq + 1))) (f := .list_id) (by decide)
  obtain ⟨x2, hx2, hc2⟩ := assign_evalParams heins he (setCol nullRaw .id (.int (d.peSeq + 1))) (f := .track_id) (by decide)
  obtain ⟨k1, hk1, hk1'⟩ := written_i64 (hr .list_id) rfl hx1
  obtain ⟨k2, hk2, hk2'⟩ := written_i64 (hr .track_id) rfl hx2
  rw [hl] at hk1; rw [ht] at hk2
  cases hk1; cases hk2
  subst hk1' hk2'
  have hrawl : raw .listId = .int l := hc1
  have hrawt : raw .trackId = .int tr := hc2
  have hrid : rowId .id raw = d.peSeq + 1 := by
    have hn : ECol.id ∉ ps.map (·.1) := by
      intro hc
      rw [(evalParams_ok he).1] at hc
      rcases alignedW_cols heins hc with h | h
      · revert h; decide
      · revert h; decide
    show readInt (assign (setCol nullRaw .id (.int (d.peSeq + 1))) ps .id) = _
    rw [assign_not_mem _ _ _ hn, setCol_same]; rfl
  unfold eGet
  simp only
  -- the only match is the new row
  have hfilter : (updWhere (d.pe ++ [raw])
      (fun x => x .listId == .int l && x .nextEntityId == .int 0 && !(rowId .id x == d.peSeq + 1))
      (fun x => setCol x .nextEntityId (.int (d.peSeq + 1)))).filter
        (fun x => x .listId == .int l && x .trackId == .int tr) = [raw] := by
    unfold updWhere
    rw [List.map_append, List.filter_append]
    have h1 : (List.map (fun r => if (r .listId == .int l && r .nextEntityId == .int 0 && !(rowId .id r == d.peSeq + 1)) = true
        then setCol r .nextEntityId (.int (d.peSeq + 1)) else r) d.pe).filter
          (fun x => x .listId == .int l && x .trackId == .int tr) = [] := by
      rw [List.filter_eq_nil_iff]
      intro x hx
      obtain ⟨o, ho, hxo⟩ := List.mem_map.mp hx
      have hno := hnone o ho
      rw [← hxo]
      split
      · rw [setCol_other _ _ (by decide), setCol_other _ _ (by decide)]; exact hno
      · exact hno
    rw [h1]
    simp only [List.map_cons, List.map_nil, List.nil_append]
    have h2 : (raw .listId == .int l && raw .nextEntityId == .int 0 && !(rowId .id raw == d.peSeq + 1)) = false := by
      rw [hrid]; simp
    rw [h2]
    simp only [Bool.false_eq_true, if_false, List.filter_cons, hrawl, hrawt, beq_self_eq_true, Bool.and_self, if_true,
      List.filter_nil]
  rw [hfilter]
  simp only [lastByUuid]
  rw [readRow_aligned (normRowE (d.peSeq + 1) r) hesel EField.nodup_all EField.mem_all
    (read_entity_inserted heins he hr (d.peSeq + 1))]


/-- The aligned WHERE clause of `remove` selects by the PAIR (list, entity). -/
theorem whereMatches_pair (l e : Int) (x : Raw ECol) :
    whereMatches [(.listId, 0), (.id, 1)] [l, e] x = (x .listId == .int l && x .id == .int e) := by
  simp [whereMatches]

theorem entity_remove_missing {st : LStmts} (ha : alignedL st = true) {d : LDb} {l e : Int}
    (h : ∀ x ∈ d.pe, ¬ (x .listId = .int l ∧ x .id = .int e)) :
    eRemove st d l e = (d, .throw .invalid_argument) := by
  have hext := alignedL_ext ha
  replace ha := alignedL_core ha
  simp only [alignedLcore, Bool.and_eq_true] at ha
  simp only [alignedLext, Bool.and_eq_true, decide_eq_true_eq] at hext
  unfold eRemove
  rw [hext.2]
  have : d.pe.filter (whereMatches [(.listId, 0), (.id, 1)] [l, e]) = [] := by
    rw [List.filter_eq_nil_iff]
    intro x hx hc
    rw [whereMatches_pair] at hc
    simp only [Bool.and_eq_true, beq_iff_eq] at hc
    exact h x hx hc
  rw [this, ha.2]
  rfl

/-! ## playlist_table -/

theorem setPersist_find (t : Rows PCol) (ids : List Int) (v : Int) (i : Int) :
    findRow .id (setPersist t ids v) i =
      (findRow .id t i).map (fun r => if ids.contains (rowId .id r) then setCol r .isPersisted (.int v) else r) := by
  unfold setPersist
  exact findRow_updWhere .id t _ _ i (fun r => rowId_setCol (C := PCol) .id r (c := .isPersisted) _ (by decide))

/-- The isPersist triggers leave the row they fire for as it is (they rewrite
its `isPersisted` with the value it already has, at most). -/
theorem persistTriggers_subject {t t' : Rows PCol} {old : Option (Raw PCol)} {new : Raw PCol} {i : Int}
    (hfind : findRow .id t i = some new)
    (h : persistTriggers t old new = .ok t') : findRow .id t' i = some new := by
  unfold persistTriggers at h
  by_cases hup : persistUp old new = true
  · simp only [hup, if_true] at h
    have hp : new .isPersisted = .int 1 := by
      unfold persistUp at hup
      cases old with
      | none => simpa using hup
      | some o =>
        simp only [Bool.or_eq_true, Bool.and_eq_true] at hup
        rcases hup with h1 | h1
        · simpa using h1.2
        · simpa using h1.2
    by_cases hac : (!acyclic t) = true
    · simp only [hac, if_true] at h; cases h
    · simp only [hac, Bool.false_eq_true, ↓reduceIte] at h
      cases ha : ancestors t (rowId .id new) with
      | none => rw [ha] at h; cases h
      | some a =>
        rw [ha] at h
        simp only [Res.ok.injEq] at h
        subst h
        rw [setPersist_find, hfind]
        simp only [Option.map_some, Option.some.injEq]
        split
        · exact setCol_same_val _ _ _ hp
        · rfl
  · simp only [hup, Bool.false_eq_true, ↓reduceIte] at h
    by_cases hdown : persistDown old new = true
    · simp only [hdown, if_true] at h
      have hp : new .isPersisted = .int 0 := by
        unfold persistDown at hdown
        cases old with
        | none => simp at hdown
        | some o =>
          simp only [Bool.and_eq_true] at hdown
          simpa using hdown.2
      by_cases hac : (!acyclic t) = true
      · simp only [hac, if_true] at h; cases h
      · simp only [hac, Bool.false_eq_true, ↓reduceIte] at h
        cases hd : descendants t (rowId .id new) with
        | none => rw [hd] at h; cases h
        | some ds =>
          rw [hd] at h
          simp only [Res.ok.injEq] at h
          subst h
          rw [setPersist_find, hfind]
          simp only [Option.map_some, Option.some.injEq]
          split
          · exact setCol_same_val _ _ _ hp
          · rfl
    · simp only [hdown, Bool.false_eq_true, ↓reduceIte, Res.ok.injEq] at h
      subst h
      exact hfind

theorem pInsertRow_find {t t' : Rows PCol} {seq : Int} (hwf : idsBelow .id t seq) {raw : Raw PCol} {i : Int}
    (hi : seq < i) (hrid : rowId .id raw = i) {k : Int} (hnext : raw .nextListId = .int k)
    (h : pInsertRow t raw = .ok (some t')) : findRow .id t' i = some raw := by
  unfold pInsertRow at h
  simp only at h
  split at h
  · cases h
  · split at h
    · cases h
    · split at h
      · cases h
      · -- the row is found after the splice triggers …
        have hf3 : findRow .id
            (updWhere
              (updWhere t (fun r => r .nextListId == raw .nextListId && r .parentListId == raw .parentListId)
                (fun r => setCol r .nextListId (.int (-(1 + readInt (r .nextListId))))) ++ [raw])
              (fun r => r .nextListId == .int (-(1 + readInt (raw .nextListId))) && r .parentListId == raw .parentListId)
              (fun r => setCol r .nextListId (.int (rowId .id raw)))) i = some raw := by
          rw [findRow_updWhere .id _ _ _ i (fun r => rowId_setCol (C := PCol) .id r (c := .nextListId) _ (by decide))]
          rw [findRow_append_fresh .id _ raw i
            (fun r hr => by
              have := idsBelow_updWhere hwf _ _ (fun r => rowId_setCol (C := PCol) .id r (c := .nextListId) _ (by decide)) r hr
              omega) hrid]
          simp only [Option.map_some, Option.some.injEq]
          have : (raw .nextListId == .int (-(1 + readInt (raw .nextListId)))) = false := by
            rw [hnext]
            simp only [readInt, beq_eq_false_iff_ne, ne_eq, Val.int.injEq]
            omega
          rw [this]
          simp
        -- … and the isPersist trigger leaves it alone
        cases hp : persistTriggers _ none raw with
        | ok t4 =>
          rw [hp] at h
          simp only [Res.ok.injEq, Option.some.injEq] at h
          subst h
          exact persistTriggers_subject hf3 hp
        | throw e => rw [hp] at h; cases h
        | ub u => rw [hp] at h; cases h


theorem pid_not_written {need : List PField} (hneed : PField.id ∉ need) {ps : List (WB PCol PField)}
    {r : Row PField} {l : List (PCol × Val)}
    (ha : alignedW pSpec need [] ps = true) (he : evalParams r ps = .ok l) : PCol.id ∉ l.map (·.1) := by
  intro hc
  have := evalParams_cols_need ha he hc
  obtain ⟨f, hf, hcol⟩ := List.mem_map.mp this
  have : f = .id := PField.col_inj (f := f) (g := .id) hcol
  subst this
  exact hneed hf

theorem normRowP_other {i : Int} {r : Row PField} {f : PField} (h : f ≠ .id) :
    normRowP i r f = normV f.ty (r f) := by
  cases f <;> first | rfl | contradiction

/-- What the playlist SELECT reads from a row an aligned write stored over `base`
(id `i`); members the statement does not name are read from `base`. -/
theorem read_playlist_written {need : List PField} (hneedid : PField.id ∉ need)
    {ps : List (WB PCol PField)} {r : Row PField} {l : List (PCol × Val)}
    (hps : alignedW pSpec need [] ps = true) (he : evalParams r ps = .ok l) (hr : wtRowP r)
    (base : Raw PCol) (i : Int) (hbase : rowId .id base = i)
    (hrest : ∀ f, f ∉ need → f ≠ .id →
      readSrc base (.col f.col f.ty.pty f.ty.rconv) = .ok (normV f.ty (r f)))
    (f : PField) :
    readSrc (assign base l) (expectedSrc pSpec (fun _ => true) f) = .ok (normRowP i r f) := by
  simp only [expectedSrc, if_true, pSpec_colOf, pSpec_tyOf]
  by_cases hfid : f = .id
  · subst hfid
    simp only [readSrc, PField.col, PField.ty, FTy.pty, FTy.rconv]
    rw [assign_not_mem _ _ _ (pid_not_written hneedid hps he)]
    show Res.ok (FVal.int (readInt (base .id))) = _
    rw [show readInt (base .id) = i from hbase]; rfl
  rw [normRowP_other hfid]
  by_cases hfn : f ∈ need
  · exact read_after_write hps he base _ hfn (hr f) rfl
  · have hnc : f.col ∉ l.map (·.1) := by
      intro hc
      have := evalParams_cols_need hps he hc
      obtain ⟨g, hg, hcol⟩ := List.mem_map.mp this
      have : g = f := PField.col_inj hcol
      subst this
      exact hfn hg
    have := hrest f hfn hfid
    simp only [readSrc] at this ⊢
    rw [assign_not_mem _ _ _ hnc]
    exact this

theorem pAdd_ok {st : LStmts} {d d' : LDb} {r : Row PField} {i : Int} (h : pAdd st d r = (d', .ok i)) :
    ∃ ps t, r .id = .int 0 ∧ evalParams r st.pIns = .ok ps ∧ i = d.plSeq + 1 ∧
      pInsertRow d.pl (assign (setCol nullRaw .id (.int (d.plSeq + 1))) ps) = .ok (some t) ∧
      d' = { d with pl := t, plSeq := d.plSeq + 1 } := by
  unfold pAdd at h
  split at h
  · cases h
  · rename_i hid
    split at h
    · split at h
      · cases h
      · cases he : evalParams r st.pIns with
        | throw e => rw [he] at h; cases h
        | ub u => rw [he] at h; cases h
        | ok ps =>
          rw [he] at h
          simp only at h
          cases hins : pInsertRow d.pl (assign (setCol nullRaw .id (.int (d.plSeq + 1))) ps) with
          | ok o =>
            rw [hins] at h
            cases o with
            | some t =>
              simp only [Prod.mk.injEq, Res.ok.injEq] at h
              exact ⟨ps, t, by simpa using hid, rfl, h.2.symm, hins, h.1.symm⟩
            | none => cases h
          | throw e => rw [hins] at h; cases h
          | ub u => rw [hins] at h; cases h
    · cases h

/-- **Playlist round trip.**  `get` after a successful `add r` returns the row
written (id assigned, last-edit time floored to whole seconds). -/
theorem playlist_add_get {st : LStmts} (ha : alignedL st = true) {d d' : LDb}
    (hwf : idsBelow .id d.pl d.plSeq) {r : Row PField} (hr : wtRowP r) {i : Int}
    (h : pAdd st d r = (d', .ok i)) :
    pGet st d' i = .ok (some (normRowP i r)) := by
  replace ha := alignedL_core ha
  simp only [alignedLcore, Bool.and_eq_true] at ha
  obtain ⟨⟨⟨⟨⟨⟨⟨⟨⟨_, _⟩, hpins⟩, _⟩, _⟩, hpsel⟩, _⟩, _⟩, _⟩, _⟩ := ha
  obtain ⟨ps, t, _, he, hi, hins, hd'⟩ := pAdd_ok h
  subst hi hd'
  have hnid : PField.id ∉ PField.writable := fun h => (PField.mem_writable.mp h) rfl
  have hrid : rowId .id (assign (setCol nullRaw .id (.int (d.plSeq + 1))) ps) = d.plSeq + 1 := by
    show readInt (assign (setCol nullRaw .id (.int (d.plSeq + 1))) ps .id) = _
    rw [assign_not_mem _ _ _ (pid_not_written hnid hpins he), setCol_same]; rfl
  -- the stored nextListId is an integer
  obtain ⟨x, hx, hc⟩ := assign_evalParams hpins he (setCol nullRaw .id (.int (d.plSeq + 1))) (f := .next_list_id)
    (PField.mem_writable.mpr (by decide))
  obtain ⟨k, _, hk⟩ := written_i64 (hr .next_list_id) rfl hx
  subst hk
  have hfind := pInsertRow_find hwf (by omega) hrid (k := k) hc hins
  unfold pGet
  simp only
  rw [hfind]
  simp only
  rw [readRow_aligned (normRowP (d.plSeq + 1) r) hpsel PField.nodup_all PField.mem_all
    (read_playlist_written hnid hpins he hr _ _ (by simp [rowId, setCol, readInt])
      (fun f hf hfid => absurd (PField.mem_writable.mpr hfid) hf))]


theorem pUpdRow_find {t t' : Rows PCol} {i : Int} {ps : List (PCol × Val)} {old : Raw PCol}
    (hold : findRow .id t i = some old) (hidcol : PCol.id ∉ ps.map (·.1))
    (h : pUpdRow t i ps = .ok (some t')) : findRow .id t' i = some (assign old ps) := by
  unfold pUpdRow at h
  rw [hold] at h
  simp only at h
  have hrid : rowId .id (assign old ps) = i := by
    unfold rowId
    rw [assign_not_mem _ _ _ hidcol]
    exact (findRow_some hold).2
  split at h
  · cases h
  · cases hp : persistTriggers (updRow .id t i (fun _ => assign old ps)) (some old) (assign old ps) with
    | ok t2 =>
      rw [hp] at h
      simp only [Res.ok.injEq, Option.some.injEq] at h
      subst h
      exact persistTriggers_subject (findRow_updRow_same .id t i _ hold hrid) hp
    | throw e => rw [hp] at h; cases h
    | ub u => rw [hp] at h; cases h

theorem pUpdNext_find {t t' : Rows PCol} {p : Raw PCol → Bool} {v : Raw PCol → Val} {i : Int}
    (h : pUpdNext t p (fun x => setCol x .nextListId (v x)) = some t') :
    findRow .id t' i = (findRow .id t i).map (fun r => if p r then setCol r .nextListId (v r) else r) := by
  unfold pUpdNext at h
  simp only at h
  split at h
  · cases h
    exact findRow_updWhere .id t _ _ i (fun r => rowId_setCol (C := PCol) .id r (c := .nextListId) _ (by decide))
  · cases h

/-- A row found by id is still there (same id, same columns other than
nextListId) after a next-pointer statement. -/
theorem pUpdNext_keeps {t t' : Rows PCol} {p : Raw PCol → Bool} {v : Raw PCol → Val} {i : Int} {old : Raw PCol}
    (hold : findRow .id t i = some old)
    (h : pUpdNext t p (fun x => setCol x .nextListId (v x)) = some t') :
    ∃ old', findRow .id t' i = some old' := by
  rw [pUpdNext_find h, hold]
  exact ⟨_, rfl⟩

/-- **Playlist update.**  `get` after a successful `update r` returns the row
written (last-edit time floored to whole seconds). -/
theorem playlist_update_get {st : LStmts} (ha : alignedL st = true) {d d' : LDb}
    {r : Row PField} (hr : wtRowP r) {i : Int} (hid : r .id = .int i)
    (h : pUpdate st d r = (d', .ok ())) :
    pGet st d' i = .ok (some (normRowP i r)) := by
  replace ha := alignedL_core ha
  simp only [alignedLcore, Bool.and_eq_true] at ha
  obtain ⟨⟨⟨⟨⟨⟨⟨⟨⟨_, _⟩, _⟩, hfull⟩, hsimple⟩, hpsel⟩, _⟩, _⟩, _⟩, _⟩ := ha
  obtain ⟨title, htitle⟩ := wt_str (hr .title)
  obtain ⟨parent, hparent⟩ := wt_i64 (hr .parent_list_id)
  obtain ⟨next, hnext⟩ := wt_i64 (hr .next_list_id)
  have hnidw : PField.id ∉ PField.writable := fun h => (PField.mem_writable.mp h) rfl
  have hnids : PField.id ∉ [PField.title, PField.is_persisted, PField.last_edit_time, PField.is_explicitly_exported] := by decide
  unfold pUpdate at h
  split at h
  · cases h
  · rw [hid, htitle, hparent, hnext] at h
    simp only at h
    split at h
    · cases h
    · cases hfo : findRow .id d.pl i with
      | none => rw [hfo] at h; cases h
      | some old =>
        rw [hfo] at h
        simp only at h
        split at h
        · -- position unchanged: the simple statement
          rename_i hsame
          simp only [Bool.and_eq_true, beq_iff_eq] at hsame
          cases he : evalParams r st.pUpdSimple with
          | throw e => rw [he] at h; cases h
          | ub u => rw [he] at h; cases h
          | ok ps =>
            rw [he] at h
            simp only at h
            cases hu : pUpdRow d.pl i ps with
            | ok o =>
              rw [hu] at h
              cases o with
              | none => cases h
              | some t =>
                simp only [Prod.mk.injEq] at h
                obtain ⟨hd', _⟩ := h
                subst hd'
                have hfind := pUpdRow_find hfo (pid_not_written hnids hsimple he) hu
                unfold pGet
                simp only
                rw [hfind]
                simp only
                rw [readRow_aligned (normRowP i r) hpsel PField.nodup_all PField.mem_all
                  (read_playlist_written hnids hsimple he hr old i (findRow_some hfo).2
                    (by
                      intro f hf hfid
                      -- the members the simple statement does not name: parent and next, unchanged
                      have : f = .parent_list_id ∨ f = .next_list_id := by
                        cases f <;> first | (exact absurd rfl hfid) | (exact absurd (by decide) hf) | simp
                      rcases this with hf' | hf'
                      · subst hf'
                        rw [hparent]
                        show Res.ok (FVal.int (readInt (old .parentListId))) = _
                        rw [hsame.2]; rfl
                      · subst hf'
                        rw [hnext]
                        show Res.ok (FVal.int (readInt (old .nextListId))) = _
                        rw [hsame.1]; rfl))]
            | throw e => rw [hu] at h; cases h
            | ub u => rw [hu] at h; cases h
        · -- position changed: four statements
          cases h1 : pUpdNext d.pl (fun x => rowId .id x == i)
              (fun x => setCol x .nextListId (.int (-(1 + readInt (x .nextListId))))) with
          | none => rw [h1] at h; cases h
          | some t1 =>
            rw [h1] at h
            simp only at h
            cases h2 : pUpdNext t1 (fun x => x .nextListId == .int i && x .parentListId == .int (readInt (old .parentListId)))
                (fun x => setCol x .nextListId (.int (readInt (old .nextListId)))) with
            | none => rw [h2] at h; cases h
            | some t2 =>
              rw [h2] at h
              simp only at h
              cases h3 : pUpdNext t2 (fun x => x .nextListId == .int next && x .parentListId == .int parent)
                  (fun x => setCol x .nextListId (.int i)) with
              | none => rw [h3] at h; cases h
              | some t3 =>
                rw [h3] at h
                simp only at h
                cases he : evalParams r st.pUpdFull with
                | throw e => rw [he] at h; cases h
                | ub u => rw [he] at h; cases h
                | ok ps =>
                  rw [he] at h
                  simp only at h
                  obtain ⟨o1, ho1⟩ := pUpdNext_keeps hfo h1
                  obtain ⟨o2, ho2⟩ := pUpdNext_keeps ho1 h2
                  obtain ⟨o3, ho3⟩ := pUpdNext_keeps ho2 h3
                  cases hu : pUpdRow t3 i ps with
                  | ok o =>
                    rw [hu] at h
                    cases o with
                    | none => cases h
                    | some t =>
                      simp only [Prod.mk.injEq] at h
                      obtain ⟨hd', _⟩ := h
                      subst hd'
                      have hfind := pUpdRow_find ho3 (pid_not_written hnidw hfull he) hu
                      unfold pGet
                      simp only
                      rw [hfind]
                      simp only
                      rw [readRow_aligned (normRowP i r) hpsel PField.nodup_all PField.mem_all
                        (read_playlist_written hnidw hfull he hr o3 i (findRow_some ho3).2
                          (fun f hf hfid => absurd (PField.mem_writable.mpr hfid) hf))]
                  | throw e => rw [hu] at h; cases h
                  | ub u => rw [hu] at h; cases h

theorem playlist_remove_missing {st : LStmts} (ha : alignedL st = true) {d : LDb} {i : Int}
    (h : findRow .id d.pl i = none) : pRemove st d i = (d, .throw .invalid_argument) := by
  replace ha := alignedL_core ha
  simp only [alignedLcore, Bool.and_eq_true] at ha
  unfold pRemove pExists
  rw [h, ha.1.2]
  rfl

end Table
end EngineModel
