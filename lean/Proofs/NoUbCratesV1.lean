/-
C15, schema 1.x crates: on every state that satisfies the forest invariant
`FInv` (Proofs/CratesV1Forest.lean) no operation of `Api.CratesV1.step` ends in
`ub` — the only `ub` of that model is the unbounded recursion of `update_path`
over children(), which needs an acyclic parent list — and every operation keeps
`FInv` (plus the AUTOINCREMENT bound `SeqOk` used for stale track handles).
All lemmas live in the namespace `…CratesV1.C15` (other packages extend the
parent namespace).
-/
import Proofs.CratesV1SetParent

namespace EngineModel.Api.CratesV1.C15
open EngineModel EngineModel.Api.CratesV1 EngineModel.Pure.Detect EngineModel.Spec

set_option linter.unusedSimpArgs false

def Defined {α} (r : Res α) : Prop := ∀ u, r ≠ .ub u

theorem Defined.ok {α} (a : α) : Defined (Res.ok a) := fun _ h => by cases h
theorem Defined.throw {α} (e : Exn) : Defined (Res.throw e : Res α) := fun _ h => by cases h

theorem defined_of_eq {α} {r r' : Res α} (h : r = r') (h' : Defined r') : Defined r := h ▸ h'

theorem transaction_defined {α} (db : Db) (body : Res (Db × α)) (h : Defined body) :
    Defined (transaction db body).2 := by
  unfold transaction
  cases hb : body with
  | ok p => exact Defined.ok _
  | throw e => exact Defined.throw _
  | ub u => exact absurd hb (h u)

theorem validName_cases (n : Name) : Forest.validName n = true ∨ Forest.validName n = false := by
  cases Forest.validName n <;> simp

/-! ### the AUTOINCREMENT bound -/

theorem int_le_max_succ (a b c : Int) (h : a ≤ b) : a ≤ max b c + 1 := by omega
theorem int_max_succ_ne (t b c : Int) (h : t ≤ b) : max b c + 1 ≠ t := by omega


/-- From 1.17.0 on `Track.id` is AUTOINCREMENT: no stored id exceeds `sqlite_sequence`. -/
def SeqOk (s : Schema) (db : Db) : Prop := trackAutoinc s = true → ∀ r ∈ db.track, r.id ≤ db.trackSeq

structure CInv (s : Schema) (db : Db) : Prop where
  finv : FInv db
  seq : SeqOk s db

theorem cinv_empty (s : Schema) : CInv s Db.empty :=
  ⟨inv_empty.toFInv, fun _ r hr => by cases hr⟩

theorem SeqOk.congr {s : Schema} {db db' : Db} (h : SeqOk s db) (h1 : db'.track = db.track)
    (h2 : db'.trackSeq = db.trackSeq) : SeqOk s db' := by
  intro ha r hr; rw [h1] at hr; rw [h2]; exact h ha r hr

/-! ### create_root_crate / create_sub_crate -/

theorem createRoot_cases (s : Schema) (db : Db) (n : Name) :
    createRootCrate s db n = (db, .throw exInvalidName) ∨ createRootCrate s db n = (db, .throw exAlreadyExists) ∨
    createRootCrate s db n = (afterCreateRoot s db n, .ok (.id (newCrateId s db))) := by
  rcases validName_cases n with hv | hv
  · by_cases hd : RootNamed db n
    · exact Or.inr (Or.inl (createRoot_dup s db hv hd))
    · exact Or.inr (Or.inr (createRoot_ok s db hv hd))
  · exact Or.inl (createRoot_invalid s db hv)

theorem finv_afterCreateRoot (s : Schema) {db : Db} (h : FInv db) (n : Name) : FInv (afterCreateRoot s db n) := by
  have hids : ids (afterCreateRoot s db n) = ids db ++ [newCrateId s db] := by simp [ids, afterCreateRoot]
  exact h.add_root (newCrateId_fresh s db) hids rfl rfl

theorem createSub_cases (s : Schema) {db : Db} (h : (ids db).Nodup) (c : Id) (n : Name) :
    createSubCrate s db c n = (db, .throw exInvalidName) ∨ createSubCrate s db c n = (db, .throw exAlreadyExists) ∨
    createSubCrate s db c n = (db, .throw exCrateDeleted) ∨
    (c ∈ ids db ∧ createSubCrate s db c n = (afterCreateSub s db c n, .ok (.id (newCrateId s db)))) := by
  rcases validName_cases n with hv | hv
  · by_cases hd : SubNamed db c n
    · exact Or.inr (Or.inl (createSub_dup s db c hv hd))
    · by_cases hc : c ∈ ids db
      · exact Or.inr (Or.inr (Or.inr ⟨hc, createSub_ok s h hv hd hc⟩))
      · exact Or.inr (Or.inr (Or.inl (createSub_dead s db hv hd hc)))
  · exact Or.inl (createSub_invalid s db c hv)

theorem finv_afterCreateSub (s : Schema) {db : Db} (h : FInv db) {c : Id} (hc : c ∈ ids db) (n : Name) :
    FInv (afterCreateSub s db c n) := by
  have hids : ids (afterCreateSub s db c n) = ids db ++ [newCrateId s db] := by simp [ids, afterCreateSub]
  exact h.add_leaf (newCrateId_fresh s db) hc hids rfl rfl

/-! ### set_name / set_parent: the recursion of update_path is bounded on a forest -/

theorem setName_cases (s : Schema) {db : Db} (h : FInv db) (c : Id) (n : Name) :
    setName s db c n = (db, .throw exInvalidName) ∨ setName s db c n = (db, .throw exCrateDeleted) ∨
    (c ∈ ids db ∧ setName s db c n = (afterSetName db c n, .ok .unit)) := by
  rcases validName_cases n with hv | hv
  · by_cases hc : c ∈ ids db
    · exact Or.inr (Or.inr ⟨hc, setName_ok s h hv hc⟩)
    · exact Or.inr (Or.inl (setName_dead s db hv hc))
  · exact Or.inl (setName_invalid s db c hv)

theorem finv_afterSetName {db : Db} (h : FInv db) (c : Id) (n : Name) : FInv (afterSetName db c n) :=
  (finv_setTitle h c n).congr (ids_of_keys (setPaths_keys _ _ _)) rfl rfl

theorem setParent_cases (s : Schema) {db : Db} (h : FInv db) (c : Id) (parent : Option Id) :
    setParent s db c parent = (db, .throw exInvalidParent) ∨ setParent s db c parent = (db, .throw exCrateDeleted) ∨
    (ReparentOk db c parent ∧ setParent s db c parent = (afterSetParent db c parent, .ok .unit)) := by
  by_cases hself : parent = some c
  · subst hself; exact Or.inl (setParent_self s db c)
  · by_cases hc : c ∈ ids db
    · cases hp : parent with
      | none =>
        have hok : ReparentOk db c none := ⟨hc, fun q hq => by cases hq⟩
        exact Or.inr (Or.inr ⟨hok, setParent_ok s h hok⟩)
      | some q =>
        have hqc : q ≠ c := fun e => hself (by rw [hp, e])
        by_cases hq : q ∈ ids db
        · by_cases hcyc : (c, q) ∈ db.ch
          · exact Or.inl (setParent_cycle s h.idsNodup hqc hc hq hcyc)
          · have hok : ReparentOk db c (some q) := ⟨hc, fun q' hq' => by cases hq'; exact ⟨hq, hqc, hcyc⟩⟩
            exact Or.inr (Or.inr ⟨hok, setParent_ok s h hok⟩)
        · exact Or.inr (Or.inl (setParent_dead_parent s h.idsNodup hqc hc hq))
    · exact Or.inr (Or.inl (setParent_dead s db hself hc))

theorem finv_afterSetParent {db : Db} (h : FInv db) {c : Id} {parent : Option Id} (hok : ReparentOk db c parent) :
    FInv (afterSetParent db c parent) :=
  (finv_reparent h hok).congr (ids_of_keys (setPaths_keys _ _ _)) rfl rfl

/-! ### remove_crate -/

/-- One round of the loop of remove_crate. -/
def rmOne (s : Schema) (acc : Db) (id : Id) : Db :=
  let a1 := deleteCtl s acc (fun r => r.1 == id)
  let a2 := { a1 with ch := deletePairs s a1.ch (fun r => r.1 == id || r.2 == id) }
  let a3 := { a2 with cpl := deletePairs s a2.cpl (fun r => r.1 == id) }
  { a3 with crate := deleteCrate s a3.crate id }

theorem removeCrate_eq (s : Schema) (db : Db) (c : Id) :
    removeCrate s db c = ((subtreeList db c).foldl (rmOne s) db, .ok .unit) := rfl

theorem rmOne_tables (s : Schema) (acc : Db) (id : Id) :
    (rmOne s acc id).crate = acc.crate.filter (fun r => !(r.id == id)) ∧
    (rmOne s acc id).cpl = acc.cpl.filter (fun r => !(r.1 == id)) ∧
    (rmOne s acc id).ch = acc.ch.filter (fun r => !(r.1 == id || r.2 == id)) ∧
    (rmOne s acc id).track = acc.track ∧ (rmOne s acc id).trackSeq = acc.trackSeq := by
  obtain ⟨h1, h2, h3, h4, h5⟩ := deleteCtl_other s acc (fun r => r.1 == id)
  unfold rmOne
  simp only [deleteCrate_eq, deletePairs_eq, h1, h2, h3, h4, h5, and_self]

theorem rmFold_tables (s : Schema) (L : List Id) : ∀ (acc : Db),
    (L.foldl (rmOne s) acc).crate = acc.crate.filter (fun r => !L.contains r.id) ∧
    (L.foldl (rmOne s) acc).cpl = acc.cpl.filter (fun r => !L.contains r.1) ∧
    (L.foldl (rmOne s) acc).ch = acc.ch.filter (fun r => !(L.contains r.1 || L.contains r.2)) ∧
    (L.foldl (rmOne s) acc).track = acc.track ∧ (L.foldl (rmOne s) acc).trackSeq = acc.trackSeq := by
  induction L with
  | nil => intro acc; simp
  | cons a t ih =>
    intro acc
    obtain ⟨h1, h2, h3, h4, h5⟩ := rmOne_tables s acc a
    obtain ⟨i1, i2, i3, i4, i5⟩ := ih (rmOne s acc a)
    simp only [List.foldl_cons]
    refine ⟨?_, ?_, ?_, i4.trans h4, i5.trans h5⟩
    · rw [i1, h1, List.filter_filter]
      apply List.filter_congr
      intro r _
      simp only [List.contains_cons]
      generalize (r.id == a) = x; generalize (t.contains r.id) = y
      cases x <;> cases y <;> rfl
    · rw [i2, h2, List.filter_filter]
      apply List.filter_congr
      intro r _
      simp only [List.contains_cons]
      generalize (r.1 == a) = x; generalize (t.contains r.1) = y
      cases x <;> cases y <;> rfl
    · rw [i3, h3, List.filter_filter]
      apply List.filter_congr
      intro r _
      simp only [List.contains_cons]
      generalize (r.1 == a) = x; generalize (t.contains r.1) = y
      generalize (r.2 == a) = x'; generalize (t.contains r.2) = y'
      cases x <;> cases y <;> cases x' <;> cases y' <;> rfl

theorem contains_subtree (db : Db) (c y : Id) : (subtreeList db c).contains y = true ↔ Sub db c y := by
  rw [List.contains_iff_mem, mem_subtreeList]

theorem finv_removeCrate (s : Schema) {db : Db} (h : FInv db) (c : Id) : FInv (removeCrate s db c).1 := by
  rw [removeCrate_eq]
  obtain ⟨h1, h2, h3, _, _⟩ := rmFold_tables s (subtreeList db c) db
  have hsub : ∀ y, ((subtreeList db c).contains y = true) ↔ Sub db c y := contains_subtree db c
  apply h.remove (c := c)
  · intro y
    show y ∈ (List.foldl (rmOne s) db (subtreeList db c)).crate.map (·.id) ↔ _
    rw [h1]
    simp only [List.mem_map, List.mem_filter, Bool.not_eq_true', ids]
    constructor
    · rintro ⟨r, ⟨hr, hn⟩, rfl⟩
      refine ⟨⟨r, hr, rfl⟩, ?_⟩
      intro hs; rw [(hsub _).mpr hs] at hn; cases hn
    · rintro ⟨⟨r, hr, rfl⟩, hn⟩
      refine ⟨r, ⟨hr, ?_⟩, rfl⟩
      cases hc : (subtreeList db c).contains r.id with
      | false => rfl
      | true => exact absurd ((hsub _).mp hc) hn
  · show ((List.foldl (rmOne s) db (subtreeList db c)).crate.map (·.id)).Nodup
    rw [h1]
    exact (List.Nodup.sublist (List.Sublist.map _ List.filter_sublist) h.idsNodup)
  · intro r
    rw [h2]
    simp only [List.mem_filter, Bool.not_eq_true']
    constructor
    · rintro ⟨hr, hn⟩
      refine ⟨hr, ?_⟩
      intro hs; rw [(hsub _).mpr hs] at hn; cases hn
    · rintro ⟨hr, hn⟩
      refine ⟨hr, ?_⟩
      cases hc : (subtreeList db c).contains r.1 with
      | false => rfl
      | true => exact absurd ((hsub _).mp hc) hn
  · rw [h2]
    exact (List.Nodup.sublist (List.Sublist.map _ List.filter_sublist) h.cplNodup)
  · intro r
    rw [h3]
    simp only [List.mem_filter, Bool.not_eq_true', Bool.or_eq_false_iff]
    constructor
    · rintro ⟨hr, hn1, hn2⟩
      refine ⟨hr, ?_, ?_⟩
      · intro hs; rw [(hsub _).mpr hs] at hn1; cases hn1
      · intro hs; rw [(hsub _).mpr hs] at hn2; cases hn2
    · rintro ⟨hr, hn1, hn2⟩
      refine ⟨hr, ?_, ?_⟩
      · cases hc : (subtreeList db c).contains r.1 with
        | false => rfl
        | true => exact absurd ((hsub _).mp hc) hn1
      · cases hc : (subtreeList db c).contains r.2 with
        | false => rfl
        | true => exact absurd ((hsub _).mp hc) hn2
  · rw [h3]
    exact List.Nodup.sublist List.filter_sublist h.chNodup

theorem removeCrate_tracks (s : Schema) (db : Db) (c : Id) :
    (removeCrate s db c).1.track = db.track ∧ (removeCrate s db c).1.trackSeq = db.trackSeq := by
  rw [removeCrate_eq]
  obtain ⟨_, _, _, h4, h5⟩ := rmFold_tables s (subtreeList db c) db
  exact ⟨h4, h5⟩

/-- A removed crate is gone, whatever the state. -/
theorem removed_not_live (s : Schema) (db : Db) (c : Id) : c ∉ ids (removeCrate s db c).1 := by
  rw [removeCrate_eq]
  obtain ⟨h1, _⟩ := rmFold_tables s (subtreeList db c) db
  unfold ids
  rw [h1]
  simp only [List.mem_map, List.mem_filter, Bool.not_eq_true']
  rintro ⟨r, ⟨_, hn⟩, rfl⟩
  have : (subtreeList db r.id).contains r.id = true := (contains_subtree db r.id r.id).mpr (Or.inl rfl)
  rw [this] at hn; cases hn

/-! ### membership and track operations leave the forest alone -/

theorem requireValid_defined (db : Db) (c : Id) : Defined (requireValid db c) := by
  unfold requireValid crateIsValid
  simp only
  split
  · simp only [Res.bind_ok]; exact Defined.ok _
  · split
    · exact Defined.throw _
    · simp only [Res.bind_ok]; exact Defined.throw _

theorem addTrack_defined (s : Schema) (db : Db) (c t : Id) : Defined (addTrack s db c t).2 := by
  unfold addTrack
  apply transaction_defined
  cases hr : requireValid db c with
  | ub u => exact absurd hr (requireValid_defined db c u)
  | throw e => exact Defined.throw _
  | ok _ =>
    simp only [Res.bind_ok]
    split
    · simp only [Res.pure_eq, Res.bind_ok]; exact Defined.ok _
    · exact Defined.throw _

theorem addTrack_fst (s : Schema) (db : Db) (c t : Id) :
    (addTrack s db c t).1 = db ∨
    (addTrack s db c t).1 = { deleteCtl s db (fun r => r.1 == c && r.2 == t) with
      ctl := (deleteCtl s db (fun r => r.1 == c && r.2 == t)).ctl ++ [(c, t)] } := by
  unfold addTrack transaction
  cases hr : requireValid db c with
  | ub u => left; rfl
  | throw e => left; rfl
  | ok _ =>
    by_cases hlen : (db.track.filter (fun r => r.id == t && r.hasPath)).length > 0
    · right; simp only [Res.bind_ok, hlen, if_true, Res.pure_eq]
    · left; simp only [Res.bind_ok, hlen, if_false, Res.bind_throw]

theorem addTrack_frame (s : Schema) (db : Db) (c t : Id) :
    (addTrack s db c t).1.crate = db.crate ∧ (addTrack s db c t).1.cpl = db.cpl ∧ (addTrack s db c t).1.ch = db.ch ∧
    (addTrack s db c t).1.track = db.track ∧ (addTrack s db c t).1.trackSeq = db.trackSeq := by
  obtain ⟨h1, h2, h3, h4, h5⟩ := deleteCtl_other s db (fun r => r.1 == c && r.2 == t)
  rcases addTrack_fst s db c t with e | e <;> rw [e]
  · exact ⟨rfl, rfl, rfl, rfl, rfl⟩
  · exact ⟨h1, h2, h3, h4, h5⟩

theorem finv_of_frame {db db' : Db} (h : FInv db) (h1 : db'.crate = db.crate) (h2 : db'.cpl = db.cpl)
    (h3 : db'.ch = db.ch) : FInv db' :=
  h.congr (by unfold ids; rw [h1]) h2 h3

/-! ### create_track / remove_track and the AUTOINCREMENT bound -/

theorem createTrack_seq (s : Schema) {db : Db} (h : SeqOk s db) : SeqOk s (createTrack s db).1 := by
  unfold createTrack
  split <;> rename_i ha
  · intro _ r hr
    simp only [List.mem_append, List.mem_singleton] at hr
    rcases hr with hr | hr
    · exact int_le_max_succ _ _ _ (h ha r hr)
    · rw [hr]; exact Int.le_refl _
  · intro ha'; rw [ha'] at ha; exact absurd rfl ha

/-- The trigger loop of remove_track: every id it leaves or creates differs from `t`, and the
AUTOINCREMENT bound survives. -/
theorem rmTrack_fold (t : Id) (olds : List TrackRow) : ∀ (acc : Db),
    (∀ r ∈ acc.track, r.id ≠ t) → (∀ r ∈ acc.track, r.id ≤ acc.trackSeq) → t ≤ acc.trackSeq →
    let db' := olds.foldl (fun (acc : Db) old =>
      if old.id > maxId (acc.track.map (·.id)) then
        let tr2 := acc.track.filter (·.hasPath)
        let id := max acc.trackSeq (maxId (tr2.map (·.id))) + 1
        { acc with track := tr2 ++ [⟨id, false⟩], trackSeq := id }
      else acc) acc
    (∀ r ∈ db'.track, r.id ≠ t) ∧ (∀ r ∈ db'.track, r.id ≤ db'.trackSeq) ∧
    db'.crate = acc.crate ∧ db'.cpl = acc.cpl ∧ db'.ch = acc.ch := by
  induction olds with
  | nil => intro acc h1 h2 _; exact ⟨h1, h2, rfl, rfl, rfl⟩
  | cons o os ih =>
    intro acc h1 h2 h3
    simp only [List.foldl_cons]
    split
    · apply ih
      · intro r hr
        simp only [List.mem_append, List.mem_singleton] at hr
        rcases hr with hr | hr
        · exact h1 r (List.mem_filter.mp hr).1
        · rw [hr]; exact int_max_succ_ne _ _ _ h3
      · intro r hr
        simp only [List.mem_append, List.mem_singleton] at hr
        rcases hr with hr | hr
        · exact int_le_max_succ _ _ _ (h2 r (List.mem_filter.mp hr).1)
        · rw [hr]; exact Int.le_refl _
      · exact int_le_max_succ _ _ _ h3
    · exact ih acc h1 h2 h3

theorem removeTrack_props (s : Schema) {db : Db} (hs : SeqOk s db) (t : Id) :
    (∀ r ∈ (removeTrack s db t).1.track, r.id ≠ t) ∧ SeqOk s (removeTrack s db t).1 ∧
    (removeTrack s db t).1.crate = db.crate ∧ (removeTrack s db t).1.cpl = db.cpl ∧
    (removeTrack s db t).1.ch = db.ch := by
  obtain ⟨c1, c2, c3, c4, c5⟩ := deleteCtl_other s db (fun r => r.2 == t)
  have hne : ∀ r ∈ (deleteCtl s db (fun r => r.2 == t)).track.filter (fun r => !(r.id == t)), r.id ≠ t := by
    intro r hr
    have := (List.mem_filter.mp hr).2
    simpa using this
  unfold removeTrack
  simp only
  split <;> rename_i ha
  · by_cases hex : ∃ r ∈ db.track, r.id = t
    · obtain ⟨r0, hr0, hr0t⟩ := hex
      have hbound : t ≤ db.trackSeq := hr0t ▸ hs ha r0 hr0
      have := rmTrack_fold t ((deleteCtl s db (fun r => r.2 == t)).track.filter (·.id == t))
        { deleteCtl s db (fun r => r.2 == t) with
          track := (deleteCtl s db (fun r => r.2 == t)).track.filter (fun r => !(r.id == t)) }
        hne
        (by intro r hr; rw [c4] at hr; show r.id ≤ (deleteCtl s db _).trackSeq; rw [c5]
            exact hs ha r (List.mem_filter.mp hr).1)
        (by show t ≤ (deleteCtl s db _).trackSeq; rw [c5]; exact hbound)
      obtain ⟨p1, p2, p3, p4, p5⟩ := this
      exact ⟨p1, fun _ => p2, p3.trans c1, p4.trans c2, p5.trans c3⟩
    · have hnil : (deleteCtl s db (fun r => r.2 == t)).track.filter (·.id == t) = [] := by
        rw [c4]
        apply List.filter_eq_nil_iff.mpr
        intro r hr he
        exact hex ⟨r, hr, by simpa using he⟩
      rw [hnil]
      simp only [List.foldl_nil]
      refine ⟨hne, ?_, c1, c2, c3⟩
      intro _ r hr
      show r.id ≤ (deleteCtl s db _).trackSeq
      rw [c5]
      have hr' : r ∈ db.track := by
        have := (List.mem_filter.mp hr).1
        rwa [c4] at this
      exact hs ha r hr'
  · refine ⟨hne, ?_, c1, c2, c3⟩
    intro ha'; rw [ha'] at ha; exact absurd rfl ha

theorem trackIsValid_absent {db : Db} {t : Id} (h : ∀ r ∈ db.track, r.id ≠ t) : trackIsValid db t = .ok false := by
  unfold trackIsValid
  have : db.track.filter (fun r => r.id == t && r.hasPath) = [] := by
    apply List.filter_eq_nil_iff.mpr
    intro r hr he
    simp only [Bool.and_eq_true, beq_iff_eq] at he
    exact h r hr he.1
  simp [this]

/-! ### every operation -/

theorem step_defined (s : Schema) {db : Db} (h : FInv db) (op : Op) : Defined (step s db op).2 := by
  cases op with
  | createRoot n =>
    rcases createRoot_cases s db n with e | e | e <;> (show Defined (createRootCrate s db n).2; rw [e])
    · exact Defined.throw _
    · exact Defined.throw _
    · exact Defined.ok _
  | createSub c n =>
    rcases createSub_cases s h.idsNodup c n with e | e | e | ⟨_, e⟩ <;>
      (show Defined (createSubCrate s db c n).2; rw [e])
    · exact Defined.throw _
    · exact Defined.throw _
    · exact Defined.throw _
    · exact Defined.ok _
  | rename c n =>
    rcases setName_cases s h c n with e | e | ⟨_, e⟩ <;> (show Defined (setName s db c n).2; rw [e])
    · exact Defined.throw _
    · exact Defined.throw _
    · exact Defined.ok _
  | setParent c p =>
    rcases setParent_cases s h c p with e | e | ⟨_, e⟩ <;> (show Defined (setParent s db c p).2; rw [e])
    · exact Defined.throw _
    · exact Defined.throw _
    · exact Defined.ok _
  | removeCrate c => show Defined (removeCrate s db c).2; rw [removeCrate_eq]; exact Defined.ok _
  | addTrack c t => exact addTrack_defined s db c t
  | removeTrackFrom c t => exact Defined.ok _
  | clearTracks c => exact Defined.ok _
  | createTrack => show Defined (createTrack s db).2; unfold createTrack; split <;> exact Defined.ok _
  | removeTrack t => show Defined (removeTrack s db t).2; unfold removeTrack; simp only; split <;> exact Defined.ok _

theorem step_cinv (s : Schema) {db : Db} (h : CInv s db) (op : Op) : CInv s (step s db op).1 := by
  have hf := h.finv
  cases op with
  | createRoot n =>
    show CInv s (createRootCrate s db n).1
    rcases createRoot_cases s db n with e | e | e <;> rw [e]
    · exact h
    · exact h
    · exact ⟨finv_afterCreateRoot s hf n, h.seq.congr rfl rfl⟩
  | createSub c n =>
    show CInv s (createSubCrate s db c n).1
    rcases createSub_cases s hf.idsNodup c n with e | e | e | ⟨hc, e⟩ <;> rw [e]
    · exact h
    · exact h
    · exact h
    · exact ⟨finv_afterCreateSub s hf hc n, h.seq.congr rfl rfl⟩
  | rename c n =>
    show CInv s (setName s db c n).1
    rcases setName_cases s hf c n with e | e | ⟨_, e⟩ <;> rw [e]
    · exact h
    · exact h
    · exact ⟨finv_afterSetName hf c n, h.seq.congr rfl rfl⟩
  | setParent c p =>
    show CInv s (setParent s db c p).1
    rcases setParent_cases s hf c p with e | e | ⟨hok, e⟩ <;> rw [e]
    · exact h
    · exact h
    · exact ⟨finv_afterSetParent hf hok, h.seq.congr rfl rfl⟩
  | removeCrate c =>
    obtain ⟨t1, t2⟩ := removeCrate_tracks s db c
    exact ⟨finv_removeCrate s hf c, h.seq.congr t1 t2⟩
  | addTrack c t =>
    obtain ⟨h1, h2, h3, h4, h5⟩ := addTrack_frame s db c t
    exact ⟨finv_of_frame hf h1 h2 h3, h.seq.congr h4 h5⟩
  | removeTrackFrom c t =>
    obtain ⟨h1, h2, h3, h4, h5⟩ := deleteCtl_other s db (fun r => r.1 == c && r.2 == t)
    exact ⟨finv_of_frame hf h1 h2 h3, h.seq.congr h4 h5⟩
  | clearTracks c =>
    obtain ⟨h1, h2, h3, h4, h5⟩ := deleteCtl_other s db (fun r => r.1 == c)
    exact ⟨finv_of_frame hf h1 h2 h3, h.seq.congr h4 h5⟩
  | createTrack =>
    refine ⟨?_, createTrack_seq s h.seq⟩
    show FInv (createTrack s db).1
    unfold createTrack
    split <;> exact finv_of_frame hf rfl rfl rfl
  | removeTrack t =>
    obtain ⟨_, p2, p3, p4, p5⟩ := removeTrack_props s h.seq t
    exact ⟨finv_of_frame hf p3 p4 p5, p2⟩

def outcomes (s : Schema) (db : Db) : List Op → List (Res Out)
  | [] => []
  | op :: t => (step s db op).2 :: outcomes s (step s db op).1 t

theorem run_cinv (s : Schema) (l : List Op) : ∀ db, CInv s db → CInv s (run s db l) := by
  induction l with
  | nil => intro db h; exact h
  | cons op t ih => intro db h; exact ih _ (step_cinv s h op)

theorem outcomes_defined (s : Schema) (l : List Op) : ∀ db, CInv s db → ∀ r ∈ outcomes s db l, Defined r := by
  induction l with
  | nil => intro db _ r hr; cases hr
  | cons op t ih =>
    intro db h r hr
    simp only [outcomes, List.mem_cons] at hr
    rcases hr with e | e
    · rw [e]; exact step_defined s h.finv op
    · exact ih _ (step_cinv s h op) r e

end EngineModel.Api.CratesV1.C15
