/-
Helper lemmas for Properties/C15Faults.lean, schema 2.x crates: a call executed as its statement program under
any fault plan ends on the prior state or on `step`'s state (C14's all-or-nothing + the program refinement), so
the invariant of the crates-2.x package survives every history with failures.
-/
import EngineModel.Api.FaultsV2
import Properties.C14
import Proofs.NoUbCratesV2
import Proofs.V2Members

namespace EngineModel.Proofs.C15FaultsV2
open EngineModel EngineModel.Db.Chain EngineModel.Db.V2 EngineModel.Api.GuardedV2 EngineModel.Api.FaultsV2
open EngineModel.Spec.Txn EngineModel.Spec.Stmts EngineModel.Properties.C14

theorem stmts_no_rollback (d : Db) (op : Op) : ∀ x ∈ stmts d op, x.kind ≠ .rollback := by
  have hb : ∀ x ∈ body d op, x.kind ≠ .rollback := by
    intro x hx h
    have := V2CratesStmts.body_rw d op x hx
    simp [Cmd.rw, h] at this
  intro x hx
  unfold stmts at hx
  split at hx
  · simp only [txn, List.mem_cons, List.mem_append, List.not_mem_nil, or_false] at hx
    rcases hx with (rfl | hx) | rfl
    · simp [Cmd.kind]
    · exact hb x hx
    · simp [Cmd.kind]
  · exact hb x hx

/-- **a raised run restores the prior state**, whatever made it raise (an injected fault at any position, or a
statement refusing by itself), with or without SQLite's own rollback -/
theorem raised_restores (d : Db) (op : Op) (fault : Option Nat) (auto : Bool)
    (hr : (call fault auto (stmts d op) d).raised = true) : (call fault auto (stmts d op) d).conn = Conn.idle d :=
  (C14_shape_sound (stmts d op) (V2CratesStmts.stmts_atomic d op) fault auto d).1 hr

/-- a run that does not raise has made exactly `step`'s tables durable (when `step` returns normally), whatever
the plan -/
theorem completed_is_step (d : Db) (op : Op) (out : Out) (h : (step d op).2 = .ok out) (fault : Option Nat) (auto : Bool)
    (hr : (call fault auto (stmts d op) d).raised = false) :
    (call fault auto (stmts d op) d).conn = Conn.idle (step d op).1 := by
  have hat := V2CratesStmts.stmts_atomic d op
  have hnr := stmts_no_rollback d op
  have h1 := C14_all_writes (stmts d op) hat hnr fault auto d hr
  have h0 := V2CratesStmts.stmts_run d op out auto h
  have h2 := C14_all_writes (stmts d op) hat hnr none auto d h0.1
  rw [h0.2] at h2
  have hc : (call fault auto (stmts d op) d).conn.committed = (step d op).1 := by
    rw [h2] at h1; simpa [Conn.idle] using h1.symm
  have hw := ((C14_shape_sound (stmts d op) hat fault auto d).2 hr).1
  cases hcn : (call fault auto (stmts d op) d).conn with
  | mk c w =>
    rw [hcn] at hc hw
    simp only at hc hw
    subst hc; subst hw; rfl

theorem view_idle (d : Db) : (Conn.idle d).view = d := rfl

/-- the state after a call under any plan: the prior one or `step`'s -/
theorem callF_state (d : Db) (op : Op) (plan : Option Plan) :
    (callF d op plan).1 = d ∨ (callF d op plan).1 = (step d op).1 := by
  cases plan with
  | none => right; simp only [callF, stepG_eq]
  | some p =>
    simp only [callF]
    split
    · right; rw [stepG_eq]
    · split
      · rename_i hr
        left
        have := raised_restores d op (some p.k) p.auto hr
        show (progRun d op p).conn.view = d
        unfold progRun; rw [this]; rfl
      · right; rw [stepG_eq]

/-- a fault position inside the call: the call throws and the state is exactly the prior one -/
theorem callF_fault_inside (d : Db) (op : Op) (p : Plan) (hk : p.k < positions d op)
    (hu : ∀ u, (stepG d op).2 ≠ .ub u) : callF d op (some p) = (d, .throw .sqlite_error) := by
  have h := C14_crates_v2_all_or_nothing d op p.k p.auto hk
  have hr : (progRun d op p).raised = true := h.1
  have hc : (progRun d op p).conn = Conn.idle d := h.2
  unfold callF
  cases hs : (stepG d op).2 with
  | ub u' => exact absurd hs (hu u')
  | ok o => simp only [hs, hr, if_true, hc]; rfl
  | throw e => simp only [hs, hr, if_true, hc]; rfl

/-- the outcome of a call under a plan is `step`'s outcome or the exception of the failing statement -/
theorem callF_outcome (d : Db) (op : Op) (plan : Option Plan) :
    (callF d op plan).2 = (step d op).2 ∨ (callF d op plan).2 = .throw .sqlite_error := by
  cases plan with
  | none => left; simp only [callF, stepG_eq]
  | some p =>
    simp only [callF]
    split
    · left; rw [stepG_eq]
    · split
      · right; rfl
      · left; rw [stepG_eq]

theorem inv_callF {S : Ord} {d : Db} (hI : Inv S d) (op : Op) (hm : memOp op = true) (plan : Option Plan) :
    ∃ S', Inv S' (callF d op plan).1 := by
  rcases callF_state d op plan with h | h
  · rw [h]; exact ⟨S, hI⟩
  · rw [h]; exact ⟨_, inv_step hI op hm⟩

theorem inv_runF (hist : List FCall) : ∀ {S : Ord} {d : Db}, Inv S d → (hist.all fun c => memOp c.1) = true →
    ∃ S', Inv S' (runF d hist) := by
  induction hist with
  | nil => intro S d hI _; exact ⟨S, hI⟩
  | cons c t ih =>
    intro S d hI hm
    simp only [List.all_cons, Bool.and_eq_true] at hm
    obtain ⟨S1, h1⟩ := inv_callF hI c.1 hm.1 c.2
    exact ih h1 hm.2

theorem callF_defined {S : Ord} {d : Db} (hI : Inv S d) (op : Op) (plan : Option Plan) (u : Ub) :
    (callF d op plan).2 ≠ .ub u := by
  have hs : (step d op).2 ≠ .ub u := fun h => by
    have := step_defined d hI.pl.wf op
    rw [h] at this; exact this u rfl
  rcases callF_outcome d op plan with h | h
  · rw [h]; exact hs
  · rw [h]; intro hh; cases hh

theorem outcomesF_defined (hist : List FCall) : ∀ {S : Ord} {d : Db}, Inv S d → (hist.all fun c => memOp c.1) = true →
    ∀ r ∈ outcomesF d hist, ∀ u, r ≠ .ub u := by
  induction hist with
  | nil => intro S d _ _ r hr; cases hr
  | cons c t ih =>
    intro S d hI hm r hr u
    simp only [List.all_cons, Bool.and_eq_true] at hm
    simp only [outcomesF, List.mem_cons] at hr
    rcases hr with e | e
    · rw [e]; exact callF_defined hI c.1 c.2 u
    · obtain ⟨S1, h1⟩ := inv_callF hI c.1 hm.1 c.2
      exact ih h1 hm.2 r e u

end EngineModel.Proofs.C15FaultsV2
