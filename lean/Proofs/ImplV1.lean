/-
Agreement of the Model's schema-1.x codecs (Impl/V1.lean, the mirror of
src/djinterop/engine/v1/performance_data_format.cpp) with the Spec layouts of
Format/V1.lean: track data and the two waveforms.  Quick cues, loops and beat
data are in Proofs/ImplV1Lists.lean and Proofs/ImplV1Beat.lean.
-/
import EngineModel.Format.V1
import Proofs.ImplV2Lists
set_option linter.unusedSimpArgs false
set_option linter.unusedVariables false

namespace EngineModel

/-- Spec verdict in the outcome alphabet: rejection is `invalid_argument`. -/
def ofOpt {α} : Option α → Res α
  | some a => .ok a
  | none => .throw .invalid_argument

@[simp] theorem ofOpt_some {α} (a : α) : ofOpt (some a) = .ok a := rfl
@[simp] theorem ofOpt_none {α} : (ofOpt (none : Option α)) = .throw .invalid_argument := rfl

theorem ofOpt_never_ub {α} (o : Option α) (u : Ub) : ofOpt o ≠ .ub u := by
  cases o <;> simp [ofOpt]

theorem ofOpt_throw {α} {o : Option α} {e : Exn} (h : ofOpt o = .throw e) : e = .invalid_argument := by
  cases o <;> simp [ofOpt] at h
  exact h.symm

theorem ofOpt_ok_iff {α} {o : Option α} {a : α} : ofOpt o = .ok a ↔ o = some a := by
  cases o <;> simp [ofOpt]

namespace V1Proofs
open Codec Cur Impl.V2

/-! ### track data -/

theorem trackWire_enc_length (w) : (V1.trackWire.enc w).length = 28 := rfl

theorem encodeTrack_ok (v : Impl.V1.Track) :
    Impl.V1.encodeTrack v = .ok (V1.trackWire.enc (V1.trackToWire v)) := by
  unfold Impl.V1.encodeTrack
  have e : (u64be.enc (v.sampleRate.getD 0) ++ u64be.enc (v.sampleCount.getD 0) ++
      u64be.enc (v.loudness.getD 0) ++ u32be.enc (v.key.getD 0)) = V1.trackWire.enc (V1.trackToWire v) := by
    simp [V1.trackWire, V1.trackToWire, pair, List.append_assoc]
  rw [e]
  exact writeInto_exact (trackWire_enc_length _)

theorem decodeTrack_eq (bs : Bytes) : Impl.V1.decodeTrack bs = ofOpt (V1.decodeTrack bs) := by
  unfold Impl.V1.decodeTrack V1.decodeTrack
  by_cases h : bs.length = 28
  · have hnil : bs.drop 28 = [] := by simp [List.drop_eq_nil_iff]; omega
    simp (disch := (first | omega | (simp; omega)))
      [h, rd_u64be_run, rd_u32be_run, Res.bind, V1.trackWire, pair, dec_run_u64be, dec_run_u32be,
       List.drop_drop, hnil, V1.trackOfWire, V1.optZ]
  · simp only [h, ne_eq, not_false_eq_true, if_true]
    have hno : ∀ w, V1.trackWire.dec bs ≠ some (w, []) := by
      intro w hd
      have := (V1.trackWire_exact bs w [] hd).2
      apply h
      rw [this, List.append_nil, trackWire_enc_length]
    cases hd : V1.trackWire.dec bs with
    | none => rfl
    | some p =>
      obtain ⟨w, r⟩ := p
      cases r with
      | nil => exact absurd hd (hno w)
      | cons x r => rfl

/-! ### waveforms -/

theorem forN_ovwEntry : ∀ (n : Nat) (bs : Bytes), 3 * n ≤ bs.length →
    forN Impl.V1.ovwEntry n bs = .ok (V1.chunk3 (bs.take (3 * n)), bs.drop (3 * n)) := by
  intro n
  induction n with
  | zero => intro bs _; simp [forN, V1.chunk3]
  | succ n ih =>
    intro bs h
    match bs, h with
    | a :: b :: c :: r, h =>
      have hr : 3 * n ≤ r.length := by simp at h; omega
      have he : Impl.V1.ovwEntry (a :: b :: c :: r) = .ok (⟨a, b, c, 255, 255, 255⟩, r) := rfl
      simp only [forN, bind_run, he, ih r hr, pure_run]
      have e : 3 * (n + 1) = 3 * n + 3 := by omega
      simp [e, List.take_succ_cons, V1.chunk3]

theorem forN_hiresEntry : ∀ (n : Nat) (bs : Bytes), 6 * n ≤ bs.length →
    forN Impl.V1.hiresEntry n bs = .ok (V1.chunk6 (bs.take (6 * n)), bs.drop (6 * n)) := by
  intro n
  induction n with
  | zero => intro bs _; simp [forN, V1.chunk6]
  | succ n ih =>
    intro bs h
    match bs, h with
    | a :: b :: c :: d :: e :: f :: r, h =>
      have hr : 6 * n ≤ r.length := by simp at h; omega
      have he : Impl.V1.hiresEntry (a :: b :: c :: d :: e :: f :: r) = .ok (⟨a, b, c, d, e, f⟩, r) := rfl
      simp only [forN, bind_run, he, ih r hr, pure_run]
      have e : 6 * (n + 1) = 6 * n + 6 := by omega
      simp [e, List.take_succ_cons, V1.chunk6]

theorem wave_enc_length (w : Nat) (v : V1.WaveRaw) :
    ((V1.wave w).enc v).length = 24 + v.points.length + v.maxPt.length := by
  simp [V1.wave, dep, filter, V1.waveBody, map, pair, expect, bytesN, u64be_enc_length]
  omega

theorem wave_cond (w : Nat) (hw : w = 3 ∨ w = 6) (rem n : Nat) :
    (((rem : Int) / (w : Int) < (n : Int)) ∨ (rem : Int) ≠ (w : Int) * ((n : Int) + 1)) ↔ ¬ (rem = w * n + w) := by
  rcases hw with rfl | rfl <;> omega

/-- The Spec's waveform decoder on an input of at least 24 bytes, spelled out. -/
theorem wave_dec_run (w : Nat) (bs : Bytes) (h : 24 ≤ bs.length) :
    (V1.wave w).dec bs =
      if (u64be.get bs).toNat < maxCount ∧ u64be.get (bs.drop 8) = u64be.get bs ∧
          w * (u64be.get bs).toNat + w ≤ bs.length - 24 then
        some (⟨u64be.get (bs.drop 16), (bs.drop 24).take (w * (u64be.get bs).toNat),
               ((bs.drop 24).drop (w * (u64be.get bs).toNat)).take w⟩,
              (bs.drop 24).drop (w * (u64be.get bs).toNat + w))
      else none := by
  have e1 := dec_run_u64be (bs := bs) (by omega)
  have e2 := dec_run_u64be (bs := bs.drop 8) (by simp; omega)
  have e3 := dec_run_u64be (bs := bs.drop 16) (by simp; omega)
  simp only [List.drop_drop] at e2 e3
  generalize u64be.get bs = n1 at e1 ⊢
  generalize u64be.get (List.drop 8 bs) = n2 at e2 ⊢
  generalize u64be.get (List.drop 16 bs) = spe at e3 ⊢
  have hl : (List.drop 24 bs).length = bs.length - 24 := by simp
  by_cases hk : n1.toNat < maxCount
  · by_cases hn : n2 = n1
    · subst hn
      by_cases h3 : n2.toNat * w ≤ bs.length - 24
      · by_cases h4 : w ≤ bs.length - 24 - w * n2.toNat
        · have h5 : w * n2.toNat + w ≤ bs.length - 24 := by
            have := Nat.mul_comm w n2.toNat; omega
          have h3' : w * n2.toNat ≤ bs.length - 24 := by omega
          have h4' : w ≤ bs.length - (24 + w * n2.toNat) := by omega
          simp [V1.wave, dep, filter, V1.waveBody, map, pair, expect, e1, e2, e3, hk, bytesN, hl, h3, h3', h4, h4', h5,
            List.drop_drop, Nat.add_assoc]
        · have h5 : ¬ (w * n2.toNat + w ≤ bs.length - 24) := by
            have := Nat.mul_comm w n2.toNat; omega
          have h3' : w * n2.toNat ≤ bs.length - 24 := by
            have := Nat.mul_comm w n2.toNat; omega
          have h4' : ¬ (w ≤ bs.length - (24 + w * n2.toNat)) := by omega
          simp [V1.wave, dep, filter, V1.waveBody, map, pair, expect, e1, e2, e3, hk, bytesN, hl, h3, h3', h4, h4', h5]
      · have h5 : ¬ (w * n2.toNat + w ≤ bs.length - 24) := by
          have := Nat.mul_comm w n2.toNat; omega
        have h3' : ¬ (w * n2.toNat ≤ bs.length - 24) := by
          have := Nat.mul_comm w n2.toNat; omega
        simp [V1.wave, dep, filter, V1.waveBody, map, pair, expect, e1, e2, e3, hk, bytesN, hl, h3, h3', h5]
    · simp [V1.wave, dep, filter, V1.waveBody, map, pair, expect, e1, e2, e3, hk, hn]
  · simp [V1.wave, dep, filter, e1, hk]

/-- The Model's 1.x waveform decoder on an input of at least `24 + w` bytes, spelled out. -/
theorem decodeWave_run (w : Nat) (hw : w = 3 ∨ w = 6) (entry : Cur Impl.V1.Entry)
    (chunk : Bytes → List Impl.V1.Entry)
    (hentry : ∀ n bs, w * n ≤ bs.length → forN entry n bs = .ok (chunk (bs.take (w * n)), bs.drop (w * n)))
    (bs : Bytes) (hlen : bs.length < maxCount) (h : 24 + w ≤ bs.length) :
    Impl.V1.decodeWave (24 + w) w entry bs =
      if (u64be.get bs).toNat < maxCount ∧ u64be.get (bs.drop 8) = u64be.get bs ∧
          bs.length - 24 = w * (u64be.get bs).toNat + w then
        .ok ⟨u64be.get (bs.drop 16), chunk ((bs.drop 24).take (w * (u64be.get bs).toNat))⟩
      else .throw .invalid_argument := by
  have hw0 : 0 < w := by rcases hw with rfl | rfl <;> omega
  have hw6 : w ≤ 6 := by rcases hw with rfl | rfl <;> omega
  rw [ArithZ.decodeWave_eq_Z (24 + w) w (by omega) hw0 hw6 entry bs hlen]
  unfold ArithZ.decodeWaveZ
  have hlen : ¬ bs.length < 24 + w := by omega
  have r1 := rd_u64be_run (bs := bs) (by omega)
  have r2 := rd_u64be_run (bs := bs.drop 8) (by simp; omega)
  have r3 := rd_u64be_run (bs := bs.drop 16) (by simp; omega)
  simp only [List.drop_drop, Nat.reduceAdd] at r2 r3
  generalize u64be.get bs = n1 at r1 ⊢
  generalize u64be.get (List.drop 8 bs) = n2 at r2 ⊢
  generalize u64be.get (List.drop 16 bs) = spe at r3 ⊢
  have hl : (List.drop 24 bs).length = bs.length - 24 := by simp
  simp only [hlen, if_false, bind_run, r1, r2, r3, remaining_run, hl]
  by_cases hn : n1 = n2
  · subst hn
    simp only [ne_eq, not_true_eq_false, if_false, true_and, bind_run, remaining_run, hl]
    by_cases hk : n1.toNat < maxCount
    · have hs := s64_of_lt n1 hk
      have hneg : ¬ ((n1.toNat : Int) < 0) := by omega
      rw [hs]
      have hc := wave_cond w hw (bs.length - 24) n1.toNat
      by_cases hfit : bs.length - 24 = w * n1.toNat + w
      · have hcond : ¬ ((n1.toNat : Int) < 0 ∨ ((bs.length - 24 : Nat) : Int) / (w : Int) < (n1.toNat : Int) ∨
            ((bs.length - 24 : Nat) : Int) ≠ (w : Int) * ((n1.toNat : Int) + 1)) := by
          intro hx
          rcases hx with hx | hx
          · exact hneg hx
          · exact (hc.mp hx) hfit
        simp only [hcond, if_false, hk, hfit.symm ▸ hfit, and_self, if_true, bind_run]
        rw [hentry n1.toNat (bs.drop 24) (by rw [hl]; omega)]
        have ht : w ≤ ((bs.drop 24).drop (w * n1.toNat)).length := by simp; omega
        have hz : (((bs.drop 24).drop (w * n1.toNat)).drop w).length = 0 := by simp; omega
        simp only [takeN_run ht, remaining_run, hz, ne_eq, not_true_eq_false, if_false, pure_run, Res.bind]
        rw [if_pos ⟨trivial, hfit⟩]
      · have hcond : ((n1.toNat : Int) < 0 ∨ ((bs.length - 24 : Nat) : Int) / (w : Int) < (n1.toNat : Int) ∨
            ((bs.length - 24 : Nat) : Int) ≠ (w : Int) * ((n1.toNat : Int) + 1)) := Or.inr (hc.mpr hfit)
        simp only [hcond, if_true, throwC_run, Res.bind, hfit, and_false, if_false]
    · have hneg : Prim.s64 n1 < 0 := by
        have := n1.toNat_lt
        unfold Prim.s64
        unfold maxCount at hk
        split <;> omega
      simp only [hneg, true_or, if_true, throwC_run, Res.bind, hk, false_and, if_false]
  · have hn' : ¬ n2 = n1 := fun e => hn e.symm
    simp only [ne_eq, hn, not_false_eq_true, if_true, throwC_run, Res.bind, hn', false_and, and_false, if_false]

theorem decodeWave_accept (w : Nat) (hw : w = 3 ∨ w = 6) (entry : Cur Impl.V1.Entry)
    (chunk : Bytes → List Impl.V1.Entry)
    (hentry : ∀ n bs, w * n ≤ bs.length → forN entry n bs = .ok (chunk (bs.take (w * n)), bs.drop (w * n)))
    (bs : Bytes) (hlen' : bs.length < maxCount) (raw : V1.WaveRaw) (hd : (V1.wave w).dec bs = some (raw, [])) :
    Impl.V1.decodeWave (24 + w) w entry bs = .ok ⟨raw.spe, chunk raw.points⟩ := by
  have hw0 : 0 < w := by rcases hw with rfl | rfl <;> omega
  obtain ⟨hv, e⟩ := V1.wave_exact w hw0 bs raw [] hd
  have hlen : bs.length = 24 + raw.points.length + w := by
    rw [e, List.append_nil, wave_enc_length, hv.2.2]
  have h : 24 + w ≤ bs.length := by omega
  rw [decodeWave_run w hw entry chunk hentry bs hlen' h]
  rw [wave_dec_run w bs (by omega)] at hd
  split at hd
  · rename_i hc
    obtain ⟨h1, h2, h3⟩ := hc
    simp only [Option.some.injEq, Prod.mk.injEq] at hd
    obtain ⟨rfl, hnil⟩ := hd
    have hz : bs.length - 24 = w * (u64be.get bs).toNat + w := by
      have := congrArg List.length hnil
      simp at this
      omega
    simp only [h1, h2, hz, and_self, if_true]
  · simp at hd

theorem decodeWave_reject (w : Nat) (hw : w = 3 ∨ w = 6) (entry : Cur Impl.V1.Entry)
    (chunk : Bytes → List Impl.V1.Entry)
    (hentry : ∀ n bs, w * n ≤ bs.length → forN entry n bs = .ok (chunk (bs.take (w * n)), bs.drop (w * n)))
    (bs : Bytes) (hlen' : bs.length < maxCount) (hd : ∀ raw, (V1.wave w).dec bs ≠ some (raw, [])) :
    Impl.V1.decodeWave (24 + w) w entry bs = .throw .invalid_argument := by
  have hw0 : 0 < w := by rcases hw with rfl | rfl <;> omega
  by_cases hlen : bs.length < 24 + w
  · unfold Impl.V1.decodeWave
    simp only [hlen, if_true]
  · have h : 24 + w ≤ bs.length := by omega
    rw [decodeWave_run w hw entry chunk hentry bs hlen' h]
    split
    · rename_i hc
      obtain ⟨h1, h2, h3⟩ := hc
      exfalso
      have hz : (bs.drop 24).drop (w * (u64be.get bs).toNat + w) = [] := by
        simp [List.drop_eq_nil_iff]; omega
      have := wave_dec_run w bs (by omega)
      rw [if_pos ⟨h1, h2, by omega⟩, hz] at this
      exact hd _ this
    · rfl

theorem decodeOvw_eq (bs : Bytes) (hlen : bs.length < maxCount) : Impl.V1.decodeOvw bs = ofOpt (V1.decodeOvw bs) := by
  unfold V1.decodeOvw
  show Impl.V1.decodeWave (24 + 3) 3 Impl.V1.ovwEntry bs = _
  cases hd : (V1.wave 3).dec bs with
  | none =>
    rw [decodeWave_reject 3 (Or.inl rfl) _ V1.chunk3 forN_ovwEntry bs hlen (by rw [hd]; intro raw h; cases h)]
    rfl
  | some p =>
    obtain ⟨raw, r⟩ := p
    cases r with
    | nil => rw [decodeWave_accept 3 (Or.inl rfl) _ V1.chunk3 forN_ovwEntry bs hlen raw hd]; rfl
    | cons x r =>
      rw [decodeWave_reject 3 (Or.inl rfl) _ V1.chunk3 forN_ovwEntry bs hlen (by rw [hd]; intro raw h; cases h)]
      rfl

theorem decodeHires_eq (bs : Bytes) (hlen : bs.length < maxCount) : Impl.V1.decodeHires bs = ofOpt (V1.decodeHires bs) := by
  unfold V1.decodeHires
  show Impl.V1.decodeWave (24 + 6) 6 Impl.V1.hiresEntry bs = _
  cases hd : (V1.wave 6).dec bs with
  | none =>
    rw [decodeWave_reject 6 (Or.inr rfl) _ V1.chunk6 forN_hiresEntry bs hlen (by rw [hd]; intro raw h; cases h)]
    rfl
  | some p =>
    obtain ⟨raw, r⟩ := p
    cases r with
    | nil => rw [decodeWave_accept 6 (Or.inr rfl) _ V1.chunk6 forN_hiresEntry bs hlen raw hd]; rfl
    | cons x r =>
      rw [decodeWave_reject 6 (Or.inr rfl) _ V1.chunk6 forN_hiresEntry bs hlen (by rw [hd]; intro raw h; cases h)]
      rfl

/-! waveform encoders -/

theorem maxOf_eq : @Impl.V1.maxOf = @V1.maxOf := rfl

theorem flat3_length (es : List Impl.V1.Entry) : (V1.flat3 es).length = 3 * es.length := by
  induction es with
  | nil => rfl
  | cons e es ih => simp [V1.flat3, List.flatMap_cons] at ih ⊢; omega

theorem flat6_length (es : List Impl.V1.Entry) : (V1.flat6 es).length = 6 * es.length := by
  induction es with
  | nil => rfl
  | cons e es ih => simp [V1.flat6, List.flatMap_cons] at ih ⊢; omega

theorem encodeOvw_ok (v : Impl.V1.Wave) : ∃ b, V1.encodeOvw v = some b ∧ Impl.V1.encodeOvw v = .ok b := by
  refine ⟨_, rfl, ?_⟩
  have hk : V1.waveCount 3 ⟨v.spe, V1.flat3 v.entries,
      [V1.maxOf (·.lv) v.entries, V1.maxOf (·.mv) v.entries, V1.maxOf (·.hv) v.entries]⟩ =
      UInt64.ofNat v.entries.length := by simp [V1.waveCount, flat3_length]
  have e : (V1.wave 3).enc ⟨v.spe, V1.flat3 v.entries,
      [V1.maxOf (·.lv) v.entries, V1.maxOf (·.mv) v.entries, V1.maxOf (·.hv) v.entries]⟩ =
      u64be.enc (UInt64.ofNat v.entries.length) ++ u64be.enc (UInt64.ofNat v.entries.length) ++ u64be.enc v.spe ++
        v.entries.flatMap (fun e => [e.lv, e.mv, e.hv]) ++
        [Impl.V1.maxOf (·.lv) v.entries, Impl.V1.maxOf (·.mv) v.entries, Impl.V1.maxOf (·.hv) v.entries] := by
    simp only [V1.wave, dep, filter, V1.waveBody, map, pair, expect, bytesN, hk, List.append_assoc]
    rfl
  unfold Impl.V1.encodeOvw
  dsimp only
  rw [← e]
  apply writeInto_exact
  rw [wave_enc_length]
  simp [flat3_length]
  omega

theorem encodeHires_ok (v : Impl.V1.Wave) : ∃ b, V1.encodeHires v = some b ∧ Impl.V1.encodeHires v = .ok b := by
  refine ⟨_, rfl, ?_⟩
  have hk : V1.waveCount 6 ⟨v.spe, V1.flat6 v.entries,
      [V1.maxOf (·.lv) v.entries, V1.maxOf (·.mv) v.entries, V1.maxOf (·.hv) v.entries,
       V1.maxOf (·.lo) v.entries, V1.maxOf (·.mo) v.entries, V1.maxOf (·.ho) v.entries]⟩ =
      UInt64.ofNat v.entries.length := by simp [V1.waveCount, flat6_length]
  have e : (V1.wave 6).enc ⟨v.spe, V1.flat6 v.entries,
      [V1.maxOf (·.lv) v.entries, V1.maxOf (·.mv) v.entries, V1.maxOf (·.hv) v.entries,
       V1.maxOf (·.lo) v.entries, V1.maxOf (·.mo) v.entries, V1.maxOf (·.ho) v.entries]⟩ =
      u64be.enc (UInt64.ofNat v.entries.length) ++ u64be.enc (UInt64.ofNat v.entries.length) ++ u64be.enc v.spe ++
        v.entries.flatMap (fun e => [e.lv, e.mv, e.hv, e.lo, e.mo, e.ho]) ++
        [Impl.V1.maxOf (·.lv) v.entries, Impl.V1.maxOf (·.mv) v.entries, Impl.V1.maxOf (·.hv) v.entries,
         Impl.V1.maxOf (·.lo) v.entries, Impl.V1.maxOf (·.mo) v.entries, Impl.V1.maxOf (·.ho) v.entries] := by
    simp only [V1.wave, dep, filter, V1.waveBody, map, pair, expect, bytesN, hk, List.append_assoc]
    rfl
  unfold Impl.V1.encodeHires
  dsimp only
  rw [← e]
  apply writeInto_exact
  rw [wave_enc_length]
  simp [flat6_length]
  omega

end V1Proofs
end EngineModel
