/-
The `Track` table's own constraints on the 1.x database model: the primary key
and `UNIQUE ([path])` (from 1.11.1 on), kept by create_track / update / every
setter / remove_track together with the row invariant of C06.
-/
import Proofs.TracksV1HistDb

namespace EngineModel.TracksV1

open Impl.V1 (GMarker HotCue LoopV Entry Wave Beat Cues Loops)
open Fl (FOps)

set_option linter.unusedSimpArgs false
set_option linter.unusedVariables false

theorem pathTaken_false (d : Db) (id : Int) (p : Bytes) (h : pathTaken d id p = false)
    (hs : d.schema.ge .s1_11_1 = true) : ∀ e ∈ d.tracks, e.1 ≠ id → e.2.track.path ≠ some p := by
  intro e he hne hp
  unfold pathTaken at h
  rw [hs, Bool.true_and] at h
  have : (d.tracks.any fun e => e.1 ≠ id && e.2.track.path == some p) = true := by
    apply List.any_eq_true.mpr
    exact ⟨e, he, by simp [hne, hp]⟩
  rw [this] at h; cases h

theorem mem_aset {β} (k : Int) (v : β) (l : List (Int × β)) (hnd : (l.map (·.1)).Nodup) (e : Int × β)
    (he : e ∈ aset k v l) : e = (k, v) ∨ (e ∈ l ∧ e.1 ≠ k) := by
  induction l with
  | nil => simp [aset] at he; exact Or.inl he
  | cons hd t ih =>
    obtain ⟨k0, v0⟩ := hd
    simp only [List.map_cons, List.nodup_cons] at hnd
    obtain ⟨hk0, hnt⟩ := hnd
    by_cases hk : k0 = k
    · simp only [aset, hk, if_true] at he
      cases he with
      | head => exact Or.inl rfl
      | tail _ h' =>
        right
        refine ⟨List.mem_cons_of_mem _ h', ?_⟩
        intro hek
        apply hk0
        rw [hk, ← hek]
        exact List.mem_map.mpr ⟨e, h', rfl⟩
    · simp only [aset, hk, if_false] at he
      cases he with
      | head => exact Or.inr ⟨List.mem_cons_self .., hk⟩
      | tail _ h' =>
        rcases ih hnt h' with h1 | ⟨h1, h2⟩
        · exact Or.inl h1
        · exact Or.inr ⟨List.mem_cons_of_mem _ h1, h2⟩

theorem keys_aset {β} (k : Int) (v : β) (l : List (Int × β)) :
    (aset k v l).map (·.1) = if k ∈ l.map (·.1) then l.map (·.1) else l.map (·.1) ++ [k] := by
  induction l with
  | nil => simp [aset]
  | cons hd t ih =>
    obtain ⟨k0, v0⟩ := hd
    by_cases hk : k0 = k
    · simp [aset, hk]
    · have hk' : ¬ k = k0 := fun e => hk e.symm
      simp only [aset, hk, if_false, List.map_cons, ih, List.mem_cons, hk', false_or]
      split <;> simp

theorem nodup_aset {β} (k : Int) (v : β) (l : List (Int × β)) (hnd : (l.map (·.1)).Nodup) :
    ((aset k v l).map (·.1)).Nodup := by
  rw [keys_aset]
  split
  · exact hnd
  · rename_i hk
    rw [List.nodup_append]
    refine ⟨hnd, by simp, ?_⟩
    intro a ha b hb
    simp only [List.mem_singleton] at hb
    subst hb
    intro hab; subst hab; exact hk ha

theorem foldl_max_le (l : List (Int × TrackRows)) (m : Int) :
    m ≤ l.foldl (fun m e => if m < e.1 then e.1 else m) m ∧
    ∀ e ∈ l, e.1 ≤ l.foldl (fun m e => if m < e.1 then e.1 else m) m := by
  induction l generalizing m with
  | nil => exact ⟨Int.le_refl _, fun e he => by cases he⟩
  | cons hd t ih =>
    simp only [List.foldl_cons]
    by_cases hm : m < hd.1
    · simp only [hm, if_true]
      obtain ⟨h1, h2⟩ := ih hd.1
      refine ⟨by omega, ?_⟩
      intro e he
      cases he with
      | head => exact h1
      | tail _ h' => exact h2 e h'
    · simp only [hm, if_false]
      obtain ⟨h1, h2⟩ := ih m
      refine ⟨h1, ?_⟩
      intro e he
      cases he with
      | head => omega
      | tail _ h' => exact h2 e h'

theorem nextId_fresh (d : Db) : ∀ e ∈ d.tracks, e.1 < nextId d := by
  intro e he
  have := (foldl_max_le d.tracks 0).2 e he
  unfold nextId
  omega

/-- A setter other than `set_relative_path` leaves the path alone. -/
theorem set_path_same (o : FOps) (r r' : TrackRows) (f : Field) (v : f.ty) (hinv : InvP r)
    (hf : f ≠ .relativePath) (h : set o r f v = .ok r') : r'.track.path = r.track.path := by
  by_cases hfin : Spec.finiteArg f v = true
  · obtain ⟨w, _, hs, _⟩ := set_refines o .s1_6_0 r r' f v hinv hfin h
    have := congrArg Snap.relativePath hs
    rw [putField_path _ f w hf] at this
    exact this
  · cases f with
    | bpm =>
      simp only [set] at h
      obtain ⟨c, _, h⟩ := bind_ok_inv h
      simp only [Res.pure_eq, pure, Res.ok.injEq] at h
      subst h
      rfl
    | _ => exact absurd rfl hfin


theorem aget_mem {β} (l : List (Int × β)) (k : Int) (v : β) (h : aget k l = some v) : (k, v) ∈ l := by
  induction l with
  | nil => cases h
  | cons hd t ih =>
    obtain ⟨k0, v0⟩ := hd
    simp only [aget] at h
    split at h
    · rename_i hk; cases h; rw [hk]; exact List.mem_cons_self ..
    · exact List.mem_cons_of_mem _ (ih h)

theorem dbSet_path_free (o : FOps) (d d' : Db) (id : Int) (p : Bytes) (h : dbSet o d id .relativePath p = .ok d') :
    pathTaken d id p = false := by
  unfold dbSet at h
  cases hr : d.rows id with
  | none => rw [hr] at h; simp only at h; split at h <;> first | cases h | (split at h <;> cases h)
  | some r =>
    rw [hr] at h
    simp only at h
    have key : ∀ (c : Bool) (X : Res Db), (if c = true then (Res.throw .sqlite_error : Res Db) else X) = .ok d' →
        c = false := by
      intro c X; cases c <;> simp
    exact key _ _ h

/-- Replacing the rows of one track by rows whose path collides with no other track keeps the table well-formed. -/
theorem tableOk_aset (d : Db) (id : Int) (r' : TrackRows) (hok : TableOk d) (hinv : Inv r' = true)
    (hfree : d.schema.ge .s1_11_1 = true → ∀ e ∈ d.tracks, e.1 ≠ id → ∀ p, r'.track.path = some p → e.2.track.path ≠ some p) :
    TableOk { d with tracks := aset id r' d.tracks } := by
  obtain ⟨hk, hp, hr⟩ := hok
  refine ⟨nodup_aset _ _ _ hk, ?_, ?_⟩
  · intro hs e1 he1 e2 he2 hne p hp1
    rcases mem_aset _ _ _ hk e1 he1 with h1 | ⟨h1, h1'⟩ <;> rcases mem_aset _ _ _ hk e2 he2 with h2 | ⟨h2, h2'⟩
    · subst h1; subst h2; exact absurd rfl hne
    · subst h1; exact hfree hs e2 h2 h2' p hp1
    · subst h2
      intro hp2
      exact hfree hs e1 h1 h1' p hp2 hp1
    · exact hp hs e1 h1 e2 h2 hne p hp1
  · intro id' r hr'
    by_cases hid : id' = id
    · subst hid
      simp only [Db.rows, aget_aset_same, Option.some.injEq] at hr'
      subst hr'; exact hinv
    · simp only [Db.rows, aget_aset_other _ _ _ _ hid] at hr'
      exact hr _ _ hr'

theorem dbSet_tableOk (o : FOps) (d d' : Db) (id : Int) (f : Field) (v : f.ty) (hok : TableOk d)
    (h : dbSet o d id f v = .ok d') : TableOk d' := by
  obtain ⟨r, r', hr, hs, hd'⟩ := dbSet_ok o d d' id f v h
  subst hd'
  have hi := (inv_iff r).mp (hok.rows _ _ hr)
  have hi' : Inv r' = true := (inv_iff r').mpr (set_inv o .s1_6_0 r r' f v hi hs)
  apply tableOk_aset d id r' hok hi'
  intro hsch e he hne p hp'
  by_cases hf : f = .relativePath
  · subst hf
    have hfree := dbSet_path_free o d _ id v h
    simp only [set, Res.ok.injEq] at hs
    subst hs
    have hvp : v = p := Option.some.inj hp'
    subst hvp
    exact pathTaken_false d id _ hfree hsch e he hne
  · have hpath := set_path_same o r r' f v hi hf hs
    rw [hpath] at hp'
    have hmem := aget_mem _ _ _ hr
    intro hc
    exact hok.paths hsch (id, r) hmem e he (fun h => hne h.symm) p hp' hc

theorem dbUpdate_tableOk (o : FOps) (d d' : Db) (id : Int) (x : Snap) (hok : TableOk d)
    (h : dbUpdate o d id x = .ok d') : TableOk d' := by
  have hinv' := dbUpdate_inv o d d' x id hok.rows h
  unfold dbUpdate at h
  cases hp : d.rows id with
  | none =>
    rw [hp] at h
    simp only at h
    split at h
    · cases h
    · split at h <;> cases h
    · cases h
  | some prior =>
    rw [hp] at h
    simp only at h
    cases hw : writeSnap o d.schema x (some prior) with
    | ub u => rw [hw] at h; cases h
    | throw e =>
      rw [hw] at h
      simp only at h
      split at h
      · cases h
      · split at h
        · cases h
        · split at h <;> cases h
    | ok rows =>
      rw [hw] at h
      simp only at h
      cases hc : pathTaken d id (rows.track.path.getD []) with
      | true => rw [hc] at h; simp at h
      | false =>
        rw [hc] at h
        simp only [Bool.false_eq_true, if_false, Res.ok.injEq] at h
        subst h
        have hi' := (inv_iff rows).mpr (writeSnap_inv o _ x _ _ hw)
        apply tableOk_aset d id rows hok hi'
        intro hsch e he hne p hp'
        rw [hp'] at hc
        exact pathTaken_false d id p hc hsch e he hne

theorem dbCreate_tableOk (o : FOps) (d d' : Db) (id : Int) (x : Snap) (hok : TableOk d)
    (h : dbCreate o d x = .ok (d', id)) : TableOk d' := by
  have hinv' := dbCreate_inv o d d' x id hok.rows h
  unfold dbCreate at h
  simp only at h
  cases hw : writeSnap o d.schema x none with
  | ub u => rw [hw] at h; cases h
  | throw e =>
    rw [hw] at h
    simp only at h
    split at h
    · cases h
    · split at h
      · cases h
      · split at h <;> cases h
  | ok rows =>
    rw [hw] at h
    simp only at h
    cases hc : pathTaken d (nextId d) (rows.track.path.getD []) with
    | true => rw [hc] at h; simp at h
    | false =>
      rw [hc] at h
      simp only [Bool.false_eq_true, if_false, Res.ok.injEq, Prod.mk.injEq] at h
      obtain ⟨h1, h2⟩ := h
      subst h1
      have hfresh := nextId_fresh d
      have hnew : ∀ e ∈ d.tracks, e.1 ≠ nextId d := fun e he => by have := hfresh e he; omega
      refine ⟨?_, ?_, hinv'⟩
      · unfold KeysDistinct
        simp only [List.map_append, List.map_cons, List.map_nil]
        rw [List.nodup_append]
        refine ⟨hok.keys, by simp, ?_⟩
        intro a ha b hb
        simp only [List.mem_singleton] at hb
        subst hb
        obtain ⟨e, he, rfl⟩ := List.mem_map.mp ha
        exact hnew e he
      · intro hsch e1 he1 e2 he2 hne p hp1
        simp only [List.mem_append, List.mem_singleton] at he1 he2
        rcases he1 with h1 | h1 <;> rcases he2 with h2 | h2
        · exact hok.paths hsch e1 h1 e2 h2 hne p hp1
        · subst h2
          intro hp2
          simp only at hp2
          rw [hp2] at hc
          exact pathTaken_false d _ p hc hsch e1 h1 (hnew e1 h1) hp1
        · subst h1
          simp only at hp1
          rw [hp1] at hc
          exact pathTaken_false d _ p hc hsch e2 h2 (hnew e2 h2)
        · subst h1; subst h2; exact absurd rfl hne

theorem dbRemove_tableOk (d : Db) (id : Int) (hok : TableOk d) : TableOk (dbRemove d id) := by
  refine ⟨?_, ?_, ?_⟩
  · unfold KeysDistinct dbRemove
    exact List.Nodup.sublist (List.Sublist.map _ (List.filter_sublist)) hok.keys
  · intro hsch e1 he1 e2 he2 hne p hp1
    exact hok.paths hsch e1 (List.mem_filter.mp he1).1 e2 (List.mem_filter.mp he2).1 hne p hp1
  · intro id' r hr
    by_cases hid : id' = id
    · subst hid
      have : (dbRemove d id').rows id' = none := aget_filter_ne _ _
      rw [this] at hr; cases hr
    · have : (dbRemove d id).rows id' = d.rows id' := aget_filter_other _ _ _ hid
      rw [this] at hr
      exact hok.rows _ _ hr

end EngineModel.TracksV1
