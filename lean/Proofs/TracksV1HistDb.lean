/-
C06 on the legacy layout, continued: the invariant after `create_track` /
`update`, absence of undefined behaviour in the setters, and the lift to the
database (several tracks, `UNIQUE(path)`) and to arbitrary finite histories.
-/
import Proofs.TracksV1Hist

namespace EngineModel.TracksV1

open Impl.V1 (GMarker HotCue LoopV Entry Wave Beat Cues Loops)
open Fl (FOps)

set_option linter.unusedSimpArgs false
set_option linter.unusedVariables false

/-! ### `create_track` / `update` establish the invariant -/

theorem normCues_ok_len (v v' : Cues) (h : normCues v = .ok v') : v'.cues.length = 8 := by
  unfold normCues at h
  split at h
  · cases h
  · rename_i h8
    cases hm : mapRes normCueSlot v.cues with
    | throw e => rw [hm] at h; cases h
    | ub u => rw [hm] at h; cases h
    | ok cs =>
      rw [hm] at h
      simp only at h
      split at h
      · cases h
      · rename_i h7
        cases h
        have := mapRes_length _ _ _ hm
        simp only
        omega

theorem writeSnap_inv (o : FOps) (s : Schema) (x : Snap) (prior : Option TrackRows) (rows : TrackRows)
    (h : writeSnap o s x prior = .ok rows) : InvP rows := by
  unfold writeSnap at h
  cases hp : x.relativePath with
  | none => rw [hp] at h; cases h
  | some path =>
    rw [hp] at h
    simp only at h
    obtain ⟨lc, _, h⟩ := Res.bind_eq_ok h
    obtain ⟨bi, _, h⟩ := Res.bind_eq_ok h
    obtain ⟨ov, _, h⟩ := Res.bind_eq_ok h
    obtain ⟨hi, _, h⟩ := Res.bind_eq_ok h
    obtain ⟨ls, hls, h⟩ := Res.bind_eq_ok h
    obtain ⟨bt, _, h⟩ := Res.bind_eq_ok h
    obtain ⟨cs, hcs, h⟩ := Res.bind_eq_ok h
    obtain ⟨lp, hlp, h⟩ := Res.bind_eq_ok h
    cases h
    have hl8 : ls.length = 8 := by
      rcases toLoops_cases x.loops with ⟨h8, ht⟩ | ⟨_, ht⟩
      · rw [ht] at hls; cases hls; exact padTo8_length _ h8
      · rw [ht] at hls; cases hls
    refine ⟨⟨path, rfl⟩, ?_, ?_, ?_, ?_, ?_⟩
    · intro l hl
      simp only [assemble, writeTrackRow] at hl
      cases hd : x.duration with
      | none => rw [hd] at hl; cases hl
      | some d => rw [hd] at hl; simp only [Option.map_some, Option.some.injEq] at hl; subst hl; exact fits1000 d
    · intro t ht
      simp only [assemble, cell_mi1] at ht
      cases hd : x.lastPlayedAt with
      | none => rw [hd] at ht; cases ht
      | some d => rw [hd] at ht; simp only [Option.map_some, Option.some.injEq] at ht; subst ht; exact fitsBillion d
    · intro p hp'
      simp only [assemble, Option.some.injEq] at hp'
      subst hp'
      exact normCues_ok_len _ _ hcs
    · intro p hp'
      simp only [assemble, Option.some.injEq] at hp'
      subst hp'
      unfold normLoops at hlp
      simp only
      rw [mapRes_length _ _ _ hlp]; exact hl8
    · intro p hp' k hk
      simp only [assemble, Option.some.injEq] at hp'
      subst hp'
      simp only [normTrack] at hk
      simp only [assemble, cell_mi4]
      cases hkey : x.key with
      | none => rw [hkey] at hk; cases hk
      | some kv =>
        rw [hkey] at hk
        simp only [Option.bind_some] at hk
        split at hk
        · cases hk
        · cases hk; rfl

/-! ### no undefined behaviour in a setter -/

theorem Defined.bind' {α β} {r : Res α} {f : α → Res β} (h : Defined r) (hf : ∀ a, r = .ok a → Defined (f a)) :
    Defined (r >>= f) := Defined.bind h hf

theorem slotIndex_defined {α} (i : UInt32) (l : List α) : Defined (slotIndex i l) := by
  rw [slotIndex_eq]
  cases Spec.slotOf i l.length <;> first | exact Defined.ok _ | exact Defined.throw _

theorem setTrackCol_defined (r : TrackRows) (v : Impl.V1.Track) : Defined (setTrackCol r v) :=
  setCol_defined _ _ _ _ _ (Defined.ok _)
theorem setBeatCol_defined (r : TrackRows) (v : Beat) : Defined (setBeatCol r v) :=
  setCol_defined _ _ _ _ _ (normBeat_defined _)
theorem setCuesCol_defined (r : TrackRows) (v : Cues) : Defined (setCuesCol r v) :=
  setCol_defined _ _ _ _ _ (normCues_defined _)
theorem setLoopsCol_defined (r : TrackRows) (v : Loops) : Defined (setLoopsCol r v) :=
  setCol_defined _ _ _ _ _ (normLoops_defined _)
theorem setHiresCol_defined (r : TrackRows) (v : Wave) : Defined (setHiresCol r v) :=
  setCol_defined _ _ _ _ _ (Defined.ok _)
theorem setOvwCol_defined (r : TrackRows) (v : Wave) : Defined (setOvwCol r v) :=
  setCol_defined _ _ _ _ _ (Defined.ok _)

theorem ceiledBpm_defined (o : FOps) (hc : CeilInRange o) (v : Option Bits) : Defined (ceiledBpm o v) := by
  unfold ceiledBpm
  cases v with
  | none => exact Defined.ok _
  | some b =>
    simp only
    by_cases h : Fl.absLt63 b = true
    · obtain ⟨i, hi⟩ := hc b h
      simp only [h, Bool.not_true, Bool.false_eq_true, if_false, hi]
      exact Defined.ok _
    · simp only [h, Bool.not_false, if_true]
      exact Defined.ok _

theorem set_defined (o : FOps) (r : TrackRows) (f : Field) (v : f.ty) (hc : f = .bpm → CeilInRange o) :
    Defined (set o r f v) := by
  cases f with
  | album | artist | comment | composer | genre | publisher | title | bitrate | duration | lastPlayedAt | rating
  | relativePath | trackNumber | year => exact Defined.ok _
  | averageLoudness => exact setTrackCol_defined _ _
  | beatgrid => exact setBeatCol_defined _ _
  | bpm =>
    simp only [set]
    exact Defined.bind' (ceiledBpm_defined o (hc rfl) v) fun _ _ => Defined.ok _
  | hotCues => exact setCuesCol_defined _ _
  | hotCueAt i =>
    simp only [set]
    exact Defined.bind (slotIndex_defined _ _) fun _ _ => setCuesCol_defined _ _
  | key =>
    simp only [set]
    exact Defined.bind (setTrackCol_defined _ _) fun _ _ => Defined.ok _
  | loops =>
    simp only [set]
    split
    · exact Defined.throw _
    · exact setLoopsCol_defined _ _
  | loopAt i =>
    simp only [set]
    exact Defined.bind (slotIndex_defined _ _) fun _ _ => setLoopsCol_defined _ _
  | mainCue => exact setCuesCol_defined _ _
  | sampleCount =>
    simp only [set]
    refine Defined.bind' (defined_of_ok (lengthCalculated_ok _ _)) fun _ _ => ?_
    refine Defined.bind' (setBeatCol_defined _ _) fun _ _ => ?_
    refine Defined.bind' (setTrackCol_defined _ _) fun _ _ => ?_
    split
    · exact Defined.ok _
    · exact Defined.bind' (defined_of_ok (ovwExtents_ok o _ _)) fun _ _ => setOvwCol_defined _ _
  | sampleRate =>
    simp only [set]
    refine Defined.bind' (defined_of_ok (lengthCalculated_ok _ _)) fun _ _ => ?_
    refine Defined.bind' (setBeatCol_defined _ _) fun _ _ => ?_
    refine Defined.bind' (setTrackCol_defined _ _) fun _ _ => ?_
    refine Defined.bind' ?_ fun _ _ => ?_
    · split
      · exact Defined.ok _
      · exact Defined.bind' (defined_of_ok (hiresExtents_ok o _ _)) fun _ _ => setHiresCol_defined _ _
    · split
      · exact Defined.ok _
      · exact Defined.bind' (defined_of_ok (ovwExtents_ok o _ _)) fun _ _ => setOvwCol_defined _ _
  | waveform =>
    simp only [set]
    refine Defined.bind' ?_ fun _ _ => ?_
    · split
      · exact Defined.ok _
      · rename_i hw
        have hne : v ≠ [] := by intro h; apply hw; rw [h]; rfl
        refine Defined.bind' (defined_of_ok (ovwExtents_ok o _ _)) fun _ _ => ?_
        refine Defined.bind' (defined_of_ok (resample_ok v _ hne)) fun _ _ => ?_
        exact Defined.bind' (defined_of_ok (hiresExtents_ok o _ _)) fun _ _ => Defined.ok _
    · exact Defined.bind' (setOvwCol_defined _ _) fun _ _ => setHiresCol_defined _ _

/-- Every setter keeps the invariant (for `set_bpm` whatever the value: it touches two `Track` columns only). -/
theorem set_inv (o : FOps) (s : Schema) (r r' : TrackRows) (f : Field) (v : f.ty) (hinv : InvP r)
    (h : set o r f v = .ok r') : InvP r' := by
  by_cases hfin : Spec.finiteArg f v = true
  · obtain ⟨_, _, _, hi⟩ := set_refines o s r r' f v hinv hfin h
    exact hi
  · cases f with
    | bpm =>
      simp only [set] at h
      obtain ⟨c, _, h⟩ := bind_ok_inv h
      simp only [Res.pure_eq, pure, Res.ok.injEq] at h
      subst h
      exact hinv.of_same rfl rfl rfl rfl rfl
    | _ => exact absurd rfl hfin

/-! ### the database step -/

theorem dbSet_ok (o : FOps) (d d' : Db) (id : Int) (f : Field) (v : f.ty) (h : dbSet o d id f v = .ok d') :
    ∃ r r', d.rows id = some r ∧ set o r f v = .ok r' ∧ d' = { d with tracks := aset id r' d.tracks } := by
  unfold dbSet at h
  cases hr : d.rows id with
  | none =>
    rw [hr] at h
    simp only at h
    split at h
    · cases h
    · split at h <;> cases h
  | some r =>
    rw [hr] at h
    simp only at h
    have key : ∀ (c : Bool) (X : Res Db), (if c = true then (Res.throw .sqlite_error : Res Db) else X) = .ok d' →
        X = .ok d' := by
      intro c X; cases c <;> simp
    have h' := key _ _ h
    cases hs : set o r f v with
    | ok r' => rw [hs] at h'; cases h'; exact ⟨r, r', rfl, hs, rfl⟩
    | throw e => rw [hs] at h'; cases h'
    | ub u => rw [hs] at h'; cases h'

/-- On the handle of a track that is not (or no longer) in the database every setter throws. -/
theorem dbSet_absent (o : FOps) (d : Db) (id : Int) (f : Field) (v : f.ty) (h : d.rows id = none) :
    ∃ e, dbSet o d id f v = .throw e := by
  unfold dbSet
  rw [h]
  simp only
  by_cases hrs : f.rowSetter = true
  · rw [if_pos hrs]; exact ⟨_, rfl⟩
  · rw [if_neg hrs]
    have hnb : f = .bpm → CeilInRange o := by
      intro hf; subst hf; exact absurd rfl hrs
    cases hs : set o blankRows f v with
    | ok r' => exact ⟨_, rfl⟩
    | throw e => exact ⟨e, rfl⟩
    | ub u => exact absurd hs (set_defined o blankRows f v hnb u)

theorem aget_filter_ne {β} (l : List (Int × β)) (k : Int) : aget k (l.filter fun e => e.1 ≠ k) = none := by
  induction l with
  | nil => rfl
  | cons hd t ih =>
    obtain ⟨k0, v0⟩ := hd
    simp only [ne_eq, decide_not] at ih ⊢
    by_cases hk : k0 = k
    · simp [List.filter, hk, ih]
    · simp [List.filter, hk, aget, ih]

theorem aget_filter_other {β} (l : List (Int × β)) (k k' : Int) (h : k' ≠ k) :
    aget k' (l.filter fun e => e.1 ≠ k) = aget k' l := by
  induction l with
  | nil => rfl
  | cons hd t ih =>
    obtain ⟨k0, v0⟩ := hd
    simp only [ne_eq, decide_not] at ih ⊢
    by_cases hk : k0 = k
    · have : ¬ k0 = k' := fun e => h (e.symm.trans hk)
      simp [List.filter, hk, aget, this, ih]
      intro e; exact absurd e.symm h
    · by_cases hk' : k0 = k'
      · subst hk'
        simp [List.filter, hk, aget]
      · simp [List.filter, hk, aget, hk', ih]

theorem dbSet_rows_same (o : FOps) (d d' : Db) (id : Int) (f : Field) (v : f.ty) (h : dbSet o d id f v = .ok d') :
    ∃ r r', d.rows id = some r ∧ set o r f v = .ok r' ∧ d'.rows id = some r' ∧ d'.schema = d.schema := by
  obtain ⟨r, r', h1, h2, h3⟩ := dbSet_ok o d d' id f v h
  subst h3
  exact ⟨r, r', h1, h2, aget_aset_same _ _ _, rfl⟩

theorem dbSet_rows_other (o : FOps) (d d' : Db) (id id' : Int) (f : Field) (v : f.ty) (hne : id' ≠ id)
    (h : dbSet o d id f v = .ok d') : d'.rows id' = d.rows id' := by
  obtain ⟨r, r', h1, h2, h3⟩ := dbSet_ok o d d' id f v h
  subst h3
  exact aget_aset_other _ _ _ _ hne

theorem dbStep_fail (o : FOps) (d : Db) (op : SetOp) (h : (dbStep o d op).2 = false) : (dbStep o d op).1 = d := by
  unfold dbStep at h ⊢
  cases hs : dbSet o d op.id op.f op.v with
  | ok d' => rw [hs] at h; cases h
  | throw e => rfl
  | ub u => rfl

theorem dbStep_ok (o : FOps) (d : Db) (op : SetOp) (h : (dbStep o d op).2 = true) :
    dbSet o d op.id op.f op.v = .ok (dbStep o d op).1 := by
  unfold dbStep at h ⊢
  cases hs : dbSet o d op.id op.f op.v with
  | ok d' => rfl
  | throw e => rw [hs] at h; cases h
  | ub u => rw [hs] at h; cases h

/-- One step of a history, seen from track `id`. -/
theorem dbStep_spec (o : FOps) (d : Db) (hinv : DbInv d) (op : SetOp) (hfin : Spec.finiteArg op.f op.v = true) :
    DbInv (dbStep o d op).1 ∧ (dbStep o d op).1.schema = d.schema ∧
    ((dbStep o d op).2 = true → (Spec.normField op.f op.v).isSome = true) ∧
    (∀ id, d.rows id = none → (dbStep o d op).1.rows id = none) ∧
    (∀ id r, d.rows id = some r → ∃ r', (dbStep o d op).1.rows id = some r' ∧
      snapOf o d.schema r' =
        (if (dbStep o d op).2 && decide (op.id = id) then Spec.applyOk (snapOf o d.schema r) op.f op.v
         else snapOf o d.schema r)) := by
  cases hok : (dbStep o d op).2 with
  | false =>
    rw [dbStep_fail o d op hok]
    refine ⟨hinv, rfl, (by intro h; cases h), fun _ h => h, ?_⟩
    intro id r hr
    exact ⟨r, hr, by simp⟩
  | true =>
    have hset := dbStep_ok o d op hok
    generalize (dbStep o d op).1 = d' at hset ⊢
    obtain ⟨r0, r0', hr0, hs0, hr0', hsch⟩ := dbSet_rows_same o d d' op.id op.f op.v hset
    have hi0 : InvP r0 := (inv_iff r0).mp (hinv _ _ hr0)
    obtain ⟨w, hw, hsnap, hinv'⟩ := set_refines o d.schema r0 r0' op.f op.v hi0 hfin hs0
    refine ⟨?_, hsch, ?_, ?_, ?_⟩
    · intro id r hr
      by_cases hid : id = op.id
      · subst hid
        rw [hr0'] at hr
        cases hr
        exact (inv_iff _).mpr hinv'
      · rw [dbSet_rows_other o d d' op.id id op.f op.v hid hset] at hr
        exact hinv _ _ hr
    · intro _; rw [hw]; rfl
    · intro id hn
      by_cases hid : id = op.id
      · subst hid; rw [hr0] at hn; cases hn
      · rw [dbSet_rows_other o d d' op.id id op.f op.v hid hset]; exact hn
    · intro id r hr
      by_cases hid : id = op.id
      · subst hid
        rw [hr0] at hr
        cases hr
        refine ⟨r0', hr0', ?_⟩
        simp only [Bool.true_and, decide_true, if_true, Spec.applyOk, hw]
        exact hsnap
      · have hid' : ¬ op.id = id := fun h => hid h.symm
        refine ⟨r, by rw [dbSet_rows_other o d d' op.id id op.f op.v hid hset]; exact hr, ?_⟩
        simp [hid']

/-- Any finite history. -/
theorem dbRun_spec (o : FOps) (h : List SetOp) (d : Db) (hinv : DbInv d)
    (hfin : ∀ op ∈ h, Spec.finiteArg op.f op.v = true) :
    DbInv (dbRun o d h).1 ∧ (dbRun o d h).1.schema = d.schema ∧
    (∀ e ∈ (dbRun o d h).2, e.2 = true → (Spec.normField e.1.f e.1.v).isSome = true) ∧
    (∀ id, d.rows id = none → (dbRun o d h).1.rows id = none) ∧
    (∀ id r, d.rows id = some r → ∃ r', (dbRun o d h).1.rows id = some r' ∧
      snapOf o d.schema r' = Spec.replay id (dbRun o d h).2 (snapOf o d.schema r)) := by
  induction h generalizing d with
  | nil =>
    refine ⟨hinv, rfl, ?_, fun _ h => h, ?_⟩
    · intro e he; cases he
    · intro id r hr; exact ⟨r, hr, rfl⟩
  | cons op t ih =>
    obtain ⟨s1, s2, s3, s4, s5⟩ := dbStep_spec o d hinv op (hfin op (List.mem_cons_self ..))
    obtain ⟨i1, i2, i3, i4, i5⟩ := ih (dbStep o d op).1 s1 (fun op' h' => hfin op' (List.mem_cons_of_mem _ h'))
    simp only [dbRun]
    refine ⟨i1, by rw [i2, s2], ?_, ?_, ?_⟩
    · intro e he
      cases he with
      | head => exact s3
      | tail _ he' => exact i3 e he'
    · intro id hn; exact i4 id (s4 id hn)
    · intro id r hr
      obtain ⟨r1, hr1, hsn1⟩ := s5 id r hr
      obtain ⟨r', hr', hsn'⟩ := i5 id r1 hr1
      refine ⟨r', hr', ?_⟩
      rw [s2] at hsn'
      rw [hsn', hsn1]
      rfl

theorem dbRun_other (o : FOps) (h : List SetOp) (d : Db) (id : Int) (hne : ∀ op ∈ h, op.id ≠ id) :
    (dbRun o d h).1.rows id = d.rows id := by
  induction h generalizing d with
  | nil => rfl
  | cons op t ih =>
    simp only [dbRun]
    rw [ih _ (fun op' h' => hne op' (List.mem_cons_of_mem _ h'))]
    cases hok : (dbStep o d op).2 with
    | false => rw [dbStep_fail o d op hok]
    | true =>
      have := hne op (List.mem_cons_self ..)
      exact dbSet_rows_other o d _ op.id id op.f op.v (fun h => this h.symm) (dbStep_ok o d op hok)

/-! ### `create_track` / `update` on the database keep the invariant -/

theorem aget_append_singleton {β} (l : List (Int × β)) (k k' : Int) (v b : β)
    (h : aget k' (l ++ [(k, v)]) = some b) : aget k' l = some b ∨ b = v := by
  induction l with
  | nil =>
    simp only [List.nil_append, aget] at h
    split at h
    · cases h; exact Or.inr rfl
    · cases h
  | cons hd t ih =>
    obtain ⟨k0, v0⟩ := hd
    simp only [List.cons_append, aget] at h ⊢
    split
    · rename_i hk; rw [if_pos hk] at h; exact Or.inl h
    · rename_i hk; rw [if_neg hk] at h; exact ih h

theorem dbCreate_inv (o : FOps) (d d' : Db) (x : Snap) (id : Int) (hinv : DbInv d)
    (h : dbCreate o d x = .ok (d', id)) : DbInv d' := by
  unfold dbCreate at h
  simp only at h
  cases hw : writeSnap o d.schema x none with
  | ub u => rw [hw] at h; cases h
  | throw e =>
    rw [hw] at h
    simp only at h
    split at h
    · cases h
    · split at h
      · cases h
      · split at h <;> cases h
  | ok rows =>
    rw [hw] at h
    simp only at h
    split at h
    · cases h
    · cases h
      intro id' r hr
      rcases aget_append_singleton _ _ _ _ _ hr with h1 | h1
      · exact hinv _ _ h1
      · subst h1; exact (inv_iff _).mpr (writeSnap_inv o _ x none _ hw)

theorem dbUpdate_inv (o : FOps) (d d' : Db) (x : Snap) (id : Int) (hinv : DbInv d)
    (h : dbUpdate o d id x = .ok d') : DbInv d' := by
  unfold dbUpdate at h
  cases hp : d.rows id with
  | none =>
    rw [hp] at h
    simp only at h
    split at h
    · cases h
    · split at h <;> cases h
    · cases h
  | some prior =>
    rw [hp] at h
    simp only at h
    cases hw : writeSnap o d.schema x (some prior) with
    | ub u => rw [hw] at h; cases h
    | throw e =>
      rw [hw] at h
      simp only at h
      split at h
      · cases h
      · split at h
        · cases h
        · split at h <;> cases h
    | ok rows =>
      rw [hw] at h
      simp only at h
      split at h
      · cases h
      · cases h
        intro id' r hr
        by_cases hid : id' = id
        · subst hid
          simp only [Db.rows, aget_aset_same, Option.some.injEq] at hr
          subst hr
          exact (inv_iff _).mpr (writeSnap_inv o _ x _ _ hw)
        · simp only [Db.rows, aget_aset_other _ _ _ _ hid] at hr
          exact hinv _ _ hr

end EngineModel.TracksV1
