/-
Every setter of `v2::track_impl` refines the lens Spec: on the snapshot of its
track it does exactly what `Spec.applySetter` says (the named field takes the
normalised value, the other 24 are unchanged), and it throws exactly where the
Spec rejects.
-/
import Proofs.TracksV2
import EngineModel.TracksV2.SpecLens

namespace EngineModel
namespace TracksV2

open Prim

/-- what `tablePut` and every blob setter guarantee of a stored row -/
def RowEnc (r : Row) : Prop := cuesEncodable r.cues.1 = true ∧ loopsEncodable r.loops.1 = true

/-- the snapshot of a row, given the (checked) duration -/
def snapWith (ops : FOps) (r : Row) (d : Option UInt64) : Snap :=
  { album := r.album, artist := r.artist, averageLoudness := readAverageLoudness r.trackData.1,
    beatgrid := readGridMarkers r.beat.1.adj, bitrate := r.bitrate.map trunc32,
    bpm := readBpm ops r.bpmAnalyzed r.bpm, comment := r.comment, composer := r.composer, duration := d,
    fileBytes := r.fileBytes, genre := r.genre, hotCues := readHotCues r.cues.1, key := r.key,
    lastPlayedAt := r.timeLastPlayed, loops := readLoops r.loops.1, mainCue := readMainCue r.cues.1.adjMain,
    publisher := r.label, rating := readRating r.rating, relativePath := some r.path,
    sampleCount := readSampleCount r.trackData.1, sampleRate := readSampleRate r.trackData.1, title := r.title,
    trackNumber := r.playOrder.map trunc32, waveform := readWaveform r.ovw.1, year := r.year.map trunc32 }

theorem readSnap_eq (ops : FOps) (r : Row) :
    readSnap ops r = (readDuration r.length).bind fun d => .ok (snapWith ops r d) := rfl

theorem readSnap_ok (ops : FOps) (r : Row) (y : Snap) (h : readSnap ops r = .ok y) :
    ∃ d, readDuration r.length = .ok d ∧ y = snapWith ops r d := by
  rw [readSnap_eq] at h
  cases hd : readDuration r.length with
  | ok d => rw [hd] at h; simp only [Res.bind, Res.ok.injEq] at h; exact ⟨d, rfl, h.symm⟩
  | throw e => rw [hd] at h; cases h
  | ub u => rw [hd] at h; cases h

theorem readSnap_of_duration (ops : FOps) (r : Row) (d : Option UInt64) (h : readDuration r.length = .ok d) :
    readSnap ops r = .ok (snapWith ops r d) := by
  rw [readSnap_eq, h]; rfl

/-! ### slots -/

theorem slotIndex_eq (i : UInt32) (n : Nat) :
    slotIndex i n = match Spec.slot i n with
      | some k => .ok k
      | none => .throw .out_of_range := by
  unfold slotIndex Spec.slot
  have hi := i.toNat_lt
  by_cases h : s32 i < 0 ∨ n ≤ i.toNat
  · have : ¬ (0 ≤ s32 i ∧ s32 i < (n : Int)) := by
      unfold s32 at h ⊢
      split at h <;> split <;> omega
    simp [h, this]
  · have : (0 ≤ s32 i ∧ s32 i < (n : Int)) := by
      unfold s32 at h ⊢
      split at h <;> split <;> omega
    simp [h, this]

theorem slot_lt (i : UInt32) (n k : Nat) (h : Spec.slot i n = some k) : k < n := by
  unfold Spec.slot at h
  have hi := i.toNat_lt
  split at h
  · rename_i hh
    cases h
    unfold s32 at hh
    split at hh <;> omega
  · cases h

theorem all_set {α} (p : α → Bool) (l : List α) (k : Nat) (a : α) (hk : k < l.length) :
    (l.set k a).all p = true ↔ (p a = true ∧ ∀ j, j < l.length → j ≠ k → p (l[j]?.getD a) = true) := by
  induction l generalizing k with
  | nil => simp at hk
  | cons x t ih =>
    cases k with
    | zero =>
      simp only [List.set_cons_zero, List.all_cons, Bool.and_eq_true, List.length_cons]
      constructor
      · intro ⟨h1, h2⟩
        refine ⟨h1, ?_⟩
        intro j hj hne
        cases j with
        | zero => exact absurd rfl hne
        | succ j =>
          simp only [List.getElem?_cons_succ]
          rw [List.all_eq_true] at h2
          have hj' : j < t.length := by omega
          rw [List.getElem?_eq_getElem hj']
          exact h2 _ (List.getElem_mem hj')
      · intro ⟨h1, h2⟩
        refine ⟨h1, ?_⟩
        rw [List.all_eq_true]
        intro y hy
        obtain ⟨j, hj, rfl⟩ := List.getElem_of_mem hy
        have := h2 (j + 1) (by omega) (by omega)
        simpa [List.getElem?_eq_getElem hj] using this
    | succ k =>
      simp only [List.set_cons_succ, List.all_cons, Bool.and_eq_true, List.length_cons]
      have hk' : k < t.length := by simpa using hk
      rw [ih k hk']
      constructor
      · intro ⟨hx, h1, h2⟩
        refine ⟨h1, ?_⟩
        intro j hj hne
        cases j with
        | zero => simpa using hx
        | succ j => simpa using h2 j (by omega) (by omega)
      · intro ⟨h1, h2⟩
        refine ⟨by simpa using h2 0 (by omega) (by omega), h1, ?_⟩
        intro j hj hne
        simpa using h2 (j + 1) (by omega) (by omega)

theorem all_set_of_all {α} (p : α → Bool) (l : List α) (k : Nat) (a : α) (h : l.all p = true) (ha : p a = true) :
    (l.set k a).all p = true := by
  rw [List.all_eq_true] at h ⊢
  intro y hy
  rcases List.mem_or_eq_of_mem_set hy with h1 | h1
  · exact h y h1
  · subst h1; exact ha

theorem all_set_elim {α} (p : α → Bool) (l : List α) (k : Nat) (a : α) (hk : k < l.length)
    (h : (l.set k a).all p = true) : p a = true := ((all_set p l k a hk).mp h).1


/-! ### the refinement, setter by setter -/

theorem map_set {α β} (f : α → β) (l : List α) (k : Nat) (a : α) : (l.set k a).map f = (l.map f).set k (f a) := by
  induction l generalizing k with
  | nil => rfl
  | cons x t ih => cases k <;> simp [ih]

theorem setter_refines (ops : FOps) (σ : Setter) (r : Row) (y : Snap) (hr : readSnap ops r = .ok y)
    (henc : RowEnc r) :
    match Spec.applySetter σ y with
    | some y' => ∃ r', applySetter ops σ r = .ok r' ∧ readSnap ops r' = .ok y' ∧ RowEnc r'
    | none => ∃ e, applySetter ops σ r = .throw e := by
  obtain ⟨d, hd, rfl⟩ := readSnap_ok ops r y hr
  cases σ with
  | album v => exact ⟨_, rfl, readSnap_of_duration ops _ d hd, henc⟩
  | artist v => exact ⟨_, rfl, readSnap_of_duration ops _ d hd, henc⟩
  | averageLoudness v =>
    refine ⟨_, rfl, ?_, henc⟩
    refine (readSnap_of_duration ops _ d (by exact hd)).trans ?_
    simp only [snapWith, Spec.applySetter, readAverageLoudness, writeAverageLoudness, readSampleCount,
      readSampleRate, Res.ok.injEq, Snap.mk.injEq, true_and, and_true]
    exact zeroAbsent_getD v
  | beatgrid v =>
    refine ⟨_, rfl, ?_, henc⟩
    refine (readSnap_of_duration ops _ d (by exact hd)).trans ?_
    simp only [snapWith, Spec.applySetter, read_write_grid]
  | bitrate v =>
    refine ⟨_, rfl, ?_, henc⟩
    refine (readSnap_of_duration ops _ d (by exact hd)).trans ?_
    simp only [snapWith, Spec.applySetter, map_trunc32_sext32]
  | bpm v =>
    refine ⟨_, rfl, ?_, henc⟩
    refine (readSnap_of_duration ops _ d (by exact hd)).trans ?_
    simp only [snapWith, Spec.applySetter, read_write_bpm]
  | comment v => exact ⟨_, rfl, readSnap_of_duration ops _ d hd, henc⟩
  | composer v => exact ⟨_, rfl, readSnap_of_duration ops _ d hd, henc⟩
  | duration v =>
    refine ⟨_, rfl, ?_, henc⟩
    exact readSnap_of_duration ops _ _ (read_write_duration v)
  | genre v => exact ⟨_, rfl, readSnap_of_duration ops _ d hd, henc⟩
  | hotCueAt i v =>
    simp only [Spec.applySetter, applySetter, snapWith, readHotCues, List.length_map, slotIndex_eq]
    cases hs : Spec.slot i r.cues.1.cues.length with
    | none => exact ⟨_, rfl⟩
    | some k =>
      have hk := slot_lt _ _ _ hs
      simp only [Res.bind]
      by_cases hl : Spec.labelOk HotCue.label v = true
      · have henc' : cuesEncodable { r.cues.1 with cues := r.cues.1.cues.set k (writeHotCue v) } = true := by
          unfold cuesEncodable
          apply all_set_of_all _ _ _ _ henc.1
          cases v with
          | none => rfl
          | some q => exact hl
        simp only [hl, if_true, putCues, henc']
        refine ⟨_, rfl, ?_, henc', henc.2⟩
        refine (readSnap_of_duration ops _ d (by exact hd)).trans ?_
        simp only [snapWith, readHotCues, map_set, read_write_hotCue]
      · have henc' : ¬ cuesEncodable { r.cues.1 with cues := r.cues.1.cues.set k (writeHotCue v) } = true := by
          intro hh
          apply hl
          have := all_set_elim _ _ _ _ hk hh
          cases v with
          | none => rfl
          | some q => exact this
        simp only [hl, putCues, henc']
        exact ⟨_, rfl⟩
  | hotCues v =>
    simp only [Spec.applySetter, applySetter, writeHotCues]
    by_cases hlen : 8 < v.length
    · simp only [hlen, true_or, if_true, Res.bind]; exact ⟨_, rfl⟩
    · cases hl : Spec.labelsOk HotCue.label v with
      | false =>
        simp only [hlen, hl, Bool.not_false, or_true, if_true, if_false, Res.bind, putCues, cuesEncodable_write,
          Bool.false_eq_true]
        exact ⟨_, rfl⟩
      | true =>
        simp only [hlen, hl, Bool.not_true, Bool.false_eq_true, or_self, if_false, Res.bind, putCues,
          cuesEncodable_write, if_true]
        refine ⟨_, rfl, ?_, by rw [cuesEncodable_write]; exact hl, henc.2⟩
        refine (readSnap_of_duration ops _ d (by exact hd)).trans ?_
        simp only [snapWith, readHotCues, read_write_hotCues]
  | key v => exact ⟨_, rfl, readSnap_of_duration ops _ d hd, henc⟩
  | lastPlayedAt v =>
    refine ⟨_, rfl, ?_, henc⟩
    refine (readSnap_of_duration ops _ d (by exact hd)).trans ?_
    simp only [snapWith, Spec.applySetter, map_storeTime]
  | loopAt i v =>
    simp only [Spec.applySetter, applySetter, snapWith, readLoops, List.length_map, slotIndex_eq]
    cases hs : Spec.slot i r.loops.1.length with
    | none => exact ⟨_, rfl⟩
    | some k =>
      have hk := slot_lt _ _ _ hs
      simp only [Res.bind]
      by_cases hl : Spec.labelOk LoopV.label v = true
      · have henc' : loopsEncodable (r.loops.1.set k (writeLoop v)) = true := by
          unfold loopsEncodable
          apply all_set_of_all _ _ _ _ henc.2
          cases v with
          | none => rfl
          | some q => exact hl
        simp only [hl, if_true, putLoops, henc']
        refine ⟨_, rfl, ?_, henc.1, henc'⟩
        refine (readSnap_of_duration ops _ d (by exact hd)).trans ?_
        simp only [snapWith, readLoops, map_set, read_write_loop]
      · have henc' : ¬ loopsEncodable (r.loops.1.set k (writeLoop v)) = true := by
          intro hh
          apply hl
          have := all_set_elim _ _ _ _ hk hh
          cases v with
          | none => rfl
          | some q => exact this
        simp only [hl, putLoops, henc']
        exact ⟨_, rfl⟩
  | loops v =>
    simp only [Spec.applySetter, applySetter, writeLoops]
    by_cases hlen : 8 < v.length
    · simp only [hlen, true_or, if_true, Res.bind]; exact ⟨_, rfl⟩
    · cases hl : Spec.labelsOk LoopV.label v with
      | false =>
        simp only [hlen, hl, Bool.not_false, or_true, if_true, if_false, Res.bind, putLoops, loopsEncodable_write,
          Bool.false_eq_true]
        exact ⟨_, rfl⟩
      | true =>
        simp only [hlen, hl, Bool.not_true, Bool.false_eq_true, or_self, if_false, Res.bind, putLoops,
          loopsEncodable_write, if_true]
        refine ⟨_, rfl, ?_, henc.1, by rw [loopsEncodable_write]; exact hl⟩
        refine (readSnap_of_duration ops _ d (by exact hd)).trans ?_
        simp only [snapWith, readLoops, read_write_loops]
  | mainCue v =>
    refine ⟨_, rfl, ?_, henc⟩
    refine (readSnap_of_duration ops _ d (by exact hd)).trans ?_
    simp only [snapWith, Spec.applySetter, readMainCue, readHotCues, Res.ok.injEq, Snap.mk.injEq, true_and, and_true]
    exact zeroAbsent_getD v
  | publisher v => exact ⟨_, rfl, readSnap_of_duration ops _ d hd, henc⟩
  | rating v =>
    refine ⟨_, rfl, ?_, henc⟩
    refine (readSnap_of_duration ops _ d (by exact hd)).trans ?_
    simp only [snapWith, Spec.applySetter, read_write_rating]
  | relativePath v => exact ⟨_, rfl, readSnap_of_duration ops _ d hd, henc⟩
  | sampleCount v =>
    refine ⟨_, rfl, ?_, henc⟩
    refine (readSnap_of_duration ops _ d (by exact hd)).trans ?_
    simp only [snapWith, Spec.applySetter, readAverageLoudness, readSampleCount, readSampleRate, Res.ok.injEq,
      Snap.mk.injEq, true_and, and_true]
    exact read_write_count v
  | sampleRate v =>
    refine ⟨_, rfl, ?_, henc⟩
    refine (readSnap_of_duration ops _ d (by exact hd)).trans ?_
    simp only [snapWith, Spec.applySetter, readAverageLoudness, readSampleCount, readSampleRate, writeSampleRate,
      Res.ok.injEq, Snap.mk.injEq, true_and, and_true]
    exact zeroAbsent_getD v
  | title v => exact ⟨_, rfl, readSnap_of_duration ops _ d hd, henc⟩
  | trackNumber v =>
    refine ⟨_, rfl, ?_, henc⟩
    refine (readSnap_of_duration ops _ d (by exact hd)).trans ?_
    simp only [snapWith, Spec.applySetter, map_trunc32_sext32]
  | waveform v =>
    have hw := read_write_waveform ops v (getSampleCount r) (getSampleRate r)
    simp only [getSampleCount, getSampleRate] at hw
    simp only [Spec.applySetter, applySetter, snapWith, getSampleCount, getSampleRate]
    cases hn : Spec.normWaveform v (readSampleCount r.trackData.1) (readSampleRate r.trackData.1) with
    | none =>
      simp only [hn] at hw
      exact ⟨_, by rw [hw]; rfl⟩
    | some w =>
      simp only [hn] at hw
      obtain ⟨o, ho, hro⟩ := hw
      refine ⟨{ r with ovw := (o, r.ovw.2) }, by rw [ho]; rfl, ?_, henc⟩
      refine (readSnap_of_duration ops _ d (by exact hd)).trans ?_
      simp only [snapWith, hro]
  | year v =>
    refine ⟨_, rfl, ?_, henc⟩
    refine (readSnap_of_duration ops _ d (by exact hd)).trans ?_
    simp only [snapWith, Spec.applySetter, map_trunc32_sext32]

end TracksV2
end EngineModel
