/-
The 1.x model regenerated from the C++ sources (`Gen/ImplV1Gen.lean`, written by
tools/tr_blobs_v1.py on every run) equals the hand-written mirror `Impl/V1.lean`,
function by function.  The C02/C03/C05 theorems about schema 1.x are stated on
`Impl.V1.*`; through these equalities they are theorems about the code as it is in
/repo now — a change of performance_data_format.cpp that changes the translation
breaks the proofs below.
-/
import EngineModel.Gen.ImplV1Gen
import EngineModel.Impl.V1
import Proofs.CursorCxxLemmas
import Proofs.CxxPrimsLemmas
import Proofs.CursorCxxV1Lemmas
import Proofs.ImplV2
set_option linter.unusedSimpArgs false

namespace EngineModel.Gen.ImplV1
open Codec Cur

/-! ### small facts about the value conversions the generated code performs -/

theorem ne_zero_eq (x : UInt64) : F64.ne x F64.zero = !F64.isZero x := by
  unfold F64.ne; rw [F64.isZero_iff_eq_zero]

theorem eq_zero_eq (x : UInt64) : F64.eq x F64.zero = F64.isZero x := by
  rw [F64.isZero_iff_eq_zero]

theorem s64_eq_zero (x : UInt64) : Prim.s64 x = 0 ↔ x = 0 := by
  have h := x.toNat_lt
  constructor
  · intro hx
    apply UInt64.toNat_inj.mp
    unfold Prim.s64 at hx
    split at hx <;> simp <;> omega
  · intro hx; subst hx; decide

theorem s32_eq_zero (x : UInt32) : Prim.s32 x = 0 ↔ x = 0 := by
  have h := x.toNat_lt
  constructor
  · intro hx
    apply UInt32.toNat_inj.mp
    unfold Prim.s32 at hx
    split at hx <;> simp <;> omega
  · intro hx; subst hx; decide

/-- `track_data::decode` -/
theorem decodeTrack_eq : decodeTrack = Impl.V1.decodeTrack := by
  funext bs
  unfold decodeTrack Impl.V1.decodeTrack Cur.fromBlob
  simp only [CxxPrims.decode_uint8_eq, CxxPrims.decode_int32_le_eq, CxxPrims.decode_int32_be_eq,
    CxxPrims.decode_int64_le_eq, CxxPrims.decode_int64_be_eq, CxxPrims.decode_double_le_eq,
    CxxPrims.decode_double_be_eq]
  by_cases h : bs.length = 28
  · have r1 := rd_u64be_run (bs := bs) (by omega)
    have r2 := rd_u64be_run (bs := bs.drop 8) (by simp; omega)
    have r3 := rd_u64be_run (bs := bs.drop 16) (by simp; omega)
    have r4 := rd_u32be_run (bs := bs.drop 24) (by simp; omega)
    simp only [List.drop_drop] at r2 r3 r4
    simp only [h, ne_eq, not_true_eq_false, decide_false, if_false, Bool.false_eq_true, bind_run, remaining_run,
      r1, r2, r3, r4, pure_run, List.length_drop, ne_zero_eq, eq_zero_eq, s64_eq_zero, s32_eq_zero]
    generalize u64be.get bs = a
    generalize u64be.get (List.drop (8 + 8) bs) = c
    generalize u64be.get (List.drop 8 bs) = b
    generalize u32be.get (List.drop (16 + 8) bs) = d
    cases F64.isZero a <;> cases F64.isZero c <;> by_cases hb : b = 0 <;> by_cases hd : d = 0 <;>
      simp [hb, hd, Res.bind]
  · simp [h, Res.bind]

/-! ### waveforms -/

theorem advance_bind {β} (n : Nat) (k : Cur β) :
    (Cur.advance n >>= fun _ => k) = (takeN n >>= fun _ => k) := by
  funext bs
  simp only [bind_run, Cur.advance, takeN]
  by_cases h : n ≤ bs.length <;> simp [h]

theorem decodeOvw_body1_eq : decodeOvw_body1 = Impl.V1.ovwEntry := by
  unfold decodeOvw_body1 Impl.V1.ovwEntry
  simp only [CxxPrims.decode_uint8_eq]

theorem decodeHires_body1_eq : decodeHires_body1 = Impl.V1.hiresEntry := by
  unfold decodeHires_body1 Impl.V1.hiresEntry
  simp only [CxxPrims.decode_uint8_eq]

/-- `overview_waveform_data::decode`.
Full statement: `decodeOvw = Impl.V1.decodeOvw` — false only for payloads of about 2^62 bytes and more, which no
machine can hold: `resize(num_entries_1)` throws `length_error` above `max_size() = (2^63 - 1) / sizeof(waveform_entry)`
(= / 6) of the entry vector, while the count guard is `num_entries_1 <= (end - ptr) / 3`; the hand model has no
`resize` limit.  The `int64_t` arithmetic `3 * (num_entries_1 + 1)` is checked in both models. -/
theorem decodeOvw_eq_partial (bs : Bytes) (hb : bs.length < 4611686018427387904) :
    decodeOvw bs = Impl.V1.decodeOvw bs := by
  unfold decodeOvw Impl.V1.decodeOvw Impl.V1.decodeWave Cur.fromBlob
  have e3 : ((3 : Nat) : Int) = 3 := rfl
  simp only [CxxPrims.decode_int64_be_eq, CxxPrims.decode_double_be_eq, decodeOvw_body1_eq, advance_bind, e3]
  simp only [bind_run, remaining_run]
  by_cases h27 : bs.length < 27
  · simp [h27, Res.bind]
  · have r1 := rd_u64be_run (bs := bs) (by omega)
    have r2 := rd_u64be_run (bs := bs.drop 8) (by simp; omega)
    have r3 := rd_u64be_run (bs := bs.drop 16) (by simp; omega)
    simp only [List.drop_drop] at r2 r3
    simp only [h27, decide_false, if_false, Bool.false_eq_true, r1, r2, r3, bind_run, remaining_run,
      orElse_pure_run]
    generalize u64be.get bs = n1
    generalize u64be.get (List.drop 8 bs) = n2
    generalize u64be.get (List.drop 16 bs) = spp
    have hr : (bs.drop (16 + 8)).length + 24 < 4611686018427387904 ∧ 3 ≤ (bs.drop (16 + 8)).length := by
      simp; omega
    generalize bs.drop (16 + 8) = r at hr
    by_cases hn : n1 = n2
    · subst hn
      simp only [ne_eq, not_true_eq_false, decide_false, if_false, Bool.false_eq_true]
      by_cases hneg : Prim.s64 n1 < 0
      · simp [hneg, Res.bind]
      · have hk : Prim.s64 n1 = (n1.toNat : Int) := by
          have := s64_toNat_of_nonneg hneg; omega
        by_cases hc : Prim.s64 n1 > Int.tdiv (r.length : Int) 3
        · have hc' : ((r.length : Int) / 3 : Int) < Prim.s64 n1 := by
            rwa [Int.tdiv_eq_ediv_of_nonneg (by omega)] at hc
          simp [hneg, hc, hc', Res.bind]
        · have hc' : ¬ (((r.length : Int) / 3 : Int) < Prim.s64 n1) := by
            rwa [Int.tdiv_eq_ediv_of_nonneg (by omega)] at hc
          simp only [hneg, hc, hc', decide_false, if_false, Bool.false_eq_true, pure_run, false_or, or_self,
            bind_run, orElse_pure_run, remaining_run]
          rw [chkI64_run (by omega) (by omega)]
          simp only []
          rw [chkI64_run (by omega) (by omega)]
          simp only []
          have ha : Chk.add64 (Prim.s64 n1) 1 = .ok (Prim.s64 n1 + 1) :=
            Chk.add64_ok (by unfold Chk.in64; omega)
          have hm : Chk.mul64 3 (Prim.s64 n1 + 1) = .ok (3 * (Prim.s64 n1 + 1)) :=
            Chk.mul64_ok (by unfold Chk.in64; omega)
          simp only [ha, hm, lift_ok_run]
          by_cases h3 : (r.length : Int) = 3 * (Prim.s64 n1 + 1)
          · have hres : n1.toNat ≤ 9223372036854775807 / 6 := by omega
            simp only [h3, ne_eq, not_true_eq_false, decide_false, if_false, Bool.false_eq_true, bind_run,
              u64OfInt_s64_of_nonneg hneg, reserve_run hres, forEach_eq, decide_eq_true_eq]
          · simp [h3, Res.bind]
    · have : Prim.s64 n1 ≠ Prim.s64 n2 := fun h => hn (s64_inj.mp h)
      simp [hn, this, Res.bind]

/-- `high_res_waveform_data::decode`.
Full statement: `decodeHires = Impl.V1.decodeHires`; the hypothesis is `std::vector<std::byte>::max_size()` (every
payload the C++ can be handed): `resize` limit (`sizeof(waveform_entry) = 6`, count guard `/ 6`) and checked
`6 * (num_entries_1 + 1)`. -/
theorem decodeHires_eq_partial (bs : Bytes) (hb : bs.length < 9223372036854775808) :
    decodeHires bs = Impl.V1.decodeHires bs := by
  unfold decodeHires Impl.V1.decodeHires Impl.V1.decodeWave Cur.fromBlob
  have e3 : ((6 : Nat) : Int) = 6 := rfl
  simp only [CxxPrims.decode_int64_be_eq, CxxPrims.decode_double_be_eq, decodeHires_body1_eq, advance_bind, e3]
  simp only [bind_run, remaining_run]
  by_cases h27 : bs.length < 30
  · simp [h27, Res.bind]
  · have r1 := rd_u64be_run (bs := bs) (by omega)
    have r2 := rd_u64be_run (bs := bs.drop 8) (by simp; omega)
    have r3 := rd_u64be_run (bs := bs.drop 16) (by simp; omega)
    simp only [List.drop_drop] at r2 r3
    simp only [h27, decide_false, if_false, Bool.false_eq_true, r1, r2, r3, bind_run, remaining_run,
      orElse_pure_run]
    generalize u64be.get bs = n1
    generalize u64be.get (List.drop 8 bs) = n2
    generalize u64be.get (List.drop 16 bs) = spp
    have hr : (bs.drop (16 + 8)).length + 24 < 9223372036854775808 ∧ 6 ≤ (bs.drop (16 + 8)).length := by
      simp; omega
    generalize bs.drop (16 + 8) = r at hr
    by_cases hn : n1 = n2
    · subst hn
      simp only [ne_eq, not_true_eq_false, decide_false, if_false, Bool.false_eq_true]
      by_cases hneg : Prim.s64 n1 < 0
      · simp [hneg, Res.bind]
      · have hk : Prim.s64 n1 = (n1.toNat : Int) := by
          have := s64_toNat_of_nonneg hneg; omega
        by_cases hc : Prim.s64 n1 > Int.tdiv (r.length : Int) 6
        · have hc' : ((r.length : Int) / 6 : Int) < Prim.s64 n1 := by
            rwa [Int.tdiv_eq_ediv_of_nonneg (by omega)] at hc
          simp [hneg, hc, hc', Res.bind]
        · have hc' : ¬ (((r.length : Int) / 6 : Int) < Prim.s64 n1) := by
            rwa [Int.tdiv_eq_ediv_of_nonneg (by omega)] at hc
          simp only [hneg, hc, hc', decide_false, if_false, Bool.false_eq_true, pure_run, false_or, or_self,
            bind_run, orElse_pure_run, remaining_run]
          rw [chkI64_run (by omega) (by omega)]
          simp only []
          rw [chkI64_run (by omega) (by omega)]
          simp only []
          have ha : Chk.add64 (Prim.s64 n1) 1 = .ok (Prim.s64 n1 + 1) :=
            Chk.add64_ok (by unfold Chk.in64; omega)
          have hm : Chk.mul64 6 (Prim.s64 n1 + 1) = .ok (6 * (Prim.s64 n1 + 1)) :=
            Chk.mul64_ok (by unfold Chk.in64; omega)
          simp only [ha, hm, lift_ok_run]
          by_cases h6 : (r.length : Int) = 6 * (Prim.s64 n1 + 1)
          · have hres : n1.toNat ≤ 9223372036854775807 / 6 := by omega
            simp only [h6, ne_eq, not_true_eq_false, decide_false, if_false, Bool.false_eq_true, bind_run,
              u64OfInt_s64_of_nonneg hneg, reserve_run hres, forEach_eq, decide_eq_true_eq]
          · simp [h6, Res.bind]
    · have : Prim.s64 n1 ≠ Prim.s64 n2 := fun h => hn (s64_inj.mp h)
      simp [hn, this, Res.bind]

/-! ### quick cues, loops -/

theorem ite_throw_bind {α β} (c : Prop) [Decidable c] (e : Exn) (m : Cur α) (k : α → Cur β) :
    ((if c then throwC e else m) >>= k) = if c then throwC e else (m >>= k) := by
  split
  · funext bs; rfl
  · rfl

/-- the per-cue body of `quick_cues_data::decode` -/
theorem decodeCues_body1_eq : decodeCues_body1 = Impl.V1.decodeCue := by
  unfold decodeCues_body1 Impl.V1.decodeCue Impl.V2.decodeCue
  simp only [CxxPrims.decode_uint8_eq, CxxPrims.decode_double_be_eq]
  simp only [V2.color, rd_map, rd_pair, bind_assoc', pure_bind', ite_throw_bind]
  congr 1
  funext len
  funext r
  simp only [bind_run, remaining_run]
  have hl := len.toNat_lt
  rw [chkI32_run (by omega) (by omega)]
  simp only []
  by_cases hg : r.length < 29 + len.toNat
  · have : ((r.length : Int) < 29 + (len.toNat : Int)) := by omega
    simp [hg, this]
  · have : ¬ ((r.length : Int) < 29 + (len.toNat : Int)) := by omega
    simp only [hg, this, decide_false, if_false, Bool.false_eq_true]
    by_cases hz : len.toNat = 0
    · simp [hz, takeN]
    · have hp : ((len.toNat : Int) > 0) := by omega
      simp only [hp, decide_true, if_true, peek_advance]

/-- the per-loop body of `loops_data::decode` -/
theorem decodeLoops_body1_eq : decodeLoops_body1 = Impl.V1.decodeLoop := by
  unfold decodeLoops_body1 Impl.V1.decodeLoop Impl.V2.decodeLoop
  simp only [CxxPrims.decode_uint8_eq, CxxPrims.decode_double_le_eq]
  simp only [V2.color, rd_map, rd_pair, bind_assoc', pure_bind', ite_throw_bind]
  funext bs
  simp only [bind_run, remaining_run]
  by_cases h23 : bs.length < 23
  · have : ((bs.length : Int) < 23) := by omega
    simp [h23, this]
  · have h23i : ¬ ((bs.length : Int) < 23) := by omega
    have h1 : 1 ≤ bs.length := by omega
    simp only [h23, h23i, decide_false, if_false, Bool.false_eq_true, rd_u8_run h1, bind_run, remaining_run]
    generalize u8.get bs = len
    generalize bs.drop 1 = r
    have hl := len.toNat_lt
    rw [chkI32_run (by omega) (by omega)]
    simp only []
    by_cases hg : r.length < 22 + len.toNat
    · have : ((r.length : Int) < 22 + (len.toNat : Int)) := by omega
      simp [hg, this]
    · have : ¬ ((r.length : Int) < 22 + (len.toNat : Int)) := by omega
      simp only [hg, this, decide_false, if_false, Bool.false_eq_true]
      by_cases hz : len.toNat = 0
      · simp [hz, takeN]
      · have hp : ((len.toNat : Int) > 0) := by omega
        simp only [hp, decide_true, if_true, peek_advance]

/-- `loops_data::decode`.
Full statement (false of the code only for payloads of 2^61 bytes and more, which no machine can hold):
`decodeLoops = Impl.V1.decodeLoops`.  `result.loops.reserve(num_loops)` throws `length_error` above
`max_size() = (2^63 - 1) / sizeof(std::optional<loop>)` (= / 64); the count guard `num_loops <= (end - ptr) / 23`
excludes that only below 23 * 2^63 / 64 bytes.  The hand model has no `reserve`. -/
theorem decodeLoops_eq_partial (bs : Bytes) (hb : bs.length < 2305843009213693952) :
    decodeLoops bs = Impl.V1.decodeLoops bs := by
  unfold decodeLoops Impl.V1.decodeLoops Cur.fromBlob
  simp only [CxxPrims.decode_int64_le_eq]
  rw [decodeLoops_body1_eq]
  simp only [bind_run, remaining_run]
  by_cases h8 : bs.length < 8
  · simp [h8, Res.bind]
  · have h8' : 8 ≤ bs.length := by omega
    simp only [h8, decide_false, if_false, Bool.false_eq_true, rd_u64le_run h8', bind_run, remaining_run, orElse_pure_run]
    generalize u64le.get bs = k
    have hr : (bs.drop 8).length < 2305843009213693952 := by simp; omega
    generalize bs.drop 8 = r at hr
    by_cases hneg : Prim.s64 k < 0
    · simp [hneg, Res.bind]
    · by_cases hc : Prim.s64 k > Int.tdiv (r.length : Int) 23
      · have hc' : ((r.length : Int) / 23 : Int) < Prim.s64 k := by
          rwa [Int.tdiv_eq_ediv_of_nonneg (by omega)] at hc
        simp [hneg, hc, hc', Res.bind]
      · have hc' : ¬ (((r.length : Int) / 23 : Int) < Prim.s64 k) := by
          rwa [Int.tdiv_eq_ediv_of_nonneg (by omega)] at hc
        have hk : Prim.s64 k = (k.toNat : Int) := by
          have := s64_toNat_of_nonneg hneg; omega
        have hres : k.toNat ≤ 9223372036854775807 / 64 := by omega
        simp only [hneg, hc, hc', decide_false, if_false, Bool.false_eq_true, pure_run, or_self,
          forCount_eq, s64_toNat_of_nonneg hneg, u64OfInt_s64_of_nonneg hneg]
        simp only [bind_run, reserve_run hres, decide_eq_true_eq]

theorem flag_cond (n : Nat) (b : Bool) :
    ((decide ((n : Int) > 1) || decide ((n : Int) = 0) && b) = true) = (n > 1 ∨ n = 0 ∧ b = true) := by
  cases b <;> simp <;> omega

/-- `quick_cues_data::decode`.
Full statement (false of the code only for payloads of 2^60 bytes and more): `decodeCues = Impl.V1.decodeCues`;
see `decodeLoops_eq_partial` (`reserve(num_hot_cues)`, `sizeof(std::optional<hot_cue>) = 56`, guard `/ 13`). -/
theorem decodeCues_eq_partial (bs : Bytes) (hb : bs.length < 1152921504606846976) :
    decodeCues bs = Impl.V1.decodeCues bs := by
  unfold decodeCues Impl.V1.decodeCues Cur.fromBlob
  simp only [CxxPrims.decode_int64_be_eq, CxxPrims.decode_double_be_eq, CxxPrims.decode_uint8_eq]
  rw [decodeCues_body1_eq]
  simp only [bind_run, remaining_run]
  by_cases h8 : bs.length < 25
  · simp [h8, Res.bind]
  · have h8' : 8 ≤ bs.length := by omega
    simp only [h8, decide_false, if_false, Bool.false_eq_true, rd_u64be_run h8', bind_run, remaining_run, orElse_pure_run]
    generalize u64be.get bs = k
    have hr : (bs.drop 8).length < 1152921504606846976 := by simp; omega
    generalize bs.drop 8 = r at hr
    by_cases hneg : Prim.s64 k < 0
    · simp [hneg, Res.bind]
    · by_cases hc : Prim.s64 k > Int.tdiv (r.length : Int) 13
      · have hc' : ((r.length : Int) / 13 : Int) < Prim.s64 k := by
          rwa [Int.tdiv_eq_ediv_of_nonneg (by omega)] at hc
        simp [hneg, hc, hc', Res.bind]
      · have hc' : ¬ (((r.length : Int) / 13 : Int) < Prim.s64 k) := by
          rwa [Int.tdiv_eq_ediv_of_nonneg (by omega)] at hc
        have hk : Prim.s64 k = (k.toNat : Int) := by
          have := s64_toNat_of_nonneg hneg; omega
        have hres : k.toNat ≤ 9223372036854775807 / 56 := by omega
        simp only [hneg, hc, hc', decide_false, if_false, Bool.false_eq_true, pure_run, or_self,
          forCount_eq, s64_toNat_of_nonneg hneg, u64OfInt_s64_of_nonneg hneg]
        simp only [bind_run, reserve_run hres]
        simp only [flag_cond, decide_eq_true_eq]

/-! ### encoders -/
section Enc
open Wr

theorem u64OfInt_zero : Prim.u64OfInt 0 = 0 := by decide

/-- `track_data::encode` -/
theorem encodeTrack_eq : encodeTrack = Impl.V1.encodeTrack := by
  funext v
  have hl : (u64be.enc (v.sampleRate.getD 0) ++ u64be.enc (v.sampleCount.getD 0) ++
      u64be.enc (v.loudness.getD 0) ++ u32be.enc (v.key.getD 0)).length = 28 := by
    simp [Impl.V2.u64be_enc_length]; rfl
  unfold encodeTrack Impl.V1.encodeTrack
  rw [Impl.V2.writeInto_exact hl]
  refine run_of_writesTo ?_ hl (by omega)
  simp only [CxxPrims.encode_double_be_eq, CxxPrims.encode_int64_be_eq, CxxPrims.encode_int32_be_eq,
    u64OfInt_zero, F64.zero]
  refine WritesTo.congr
    ((Writes.put _).bindTo <| (Writes.put _).bindTo <| (Writes.put _).bindTo <| (Writes.put _).bindTo <|
      WritesTo.endCheck _) ?_
  cases v.key <;> simp [Prim.u32OfInt_s32] <;> rfl

end Enc

end EngineModel.Gen.ImplV1
