/-
The invariant of the extended schema-1.x state (`Lib/V1Refs.lean`): `LibInv` of the library + every row of
PlaylistTrackList / HistorylistTrackList / PreparelistTrackList / CopiedTrack names a track that exists — kept by
every public call and by the environment step `plantRefs`; from it the executable raw check and
`PRAGMA foreign_key_check` cleanliness on the raw dump WITH the `OT` section filled in.
-/
import EngineModel.Lib.V1Refs
import Proofs.Lib1Raw
import Proofs.Lib1Proj
import Proofs.Lib1Members

namespace EngineModel.Lib.V1
open EngineModel.Api
open EngineModel.Api.CratesV1 (liveTrack trackAutoinc)
open EngineModel.TracksV1 (dbCreate)
open EngineModel.TracksV1.Fl (FOps)

structure LibInvR (s : VSchema) (R : Lib1R) : Prop where
  lib : LibInv s R.lib
  /-- no dependent row of a missing track, in any of the four tables -/
  refsLive : ∀ x ∈ R.refs, liveTrack R.lib.cr x.2

theorem libInvR_empty (s : VSchema) (um up dir : Bytes) : LibInvR s (Lib1R.empty s um up dir) :=
  ⟨libInv_empty s um up dir, by intro x hx; cases hx⟩

/-- Every call except `remove_track` keeps every existing track. -/
theorem live_step_mono (o : FOps) {s : VSchema} {L : Lib1} (h : LibInv s L) (c : Call) (hc : ∀ t, c ≠ .removeTrack t)
    (x : Id) (hx : liveTrack L.cr x) : liveTrack (step o s L c).1.cr x := by
  have crate : ∀ op, crateOnly op = true → liveTrack (viaCrates s L op).1.cr x := by
    intro op hop
    obtain ⟨ht, _⟩ := crateOp_track (toDetect s) h.crates.toFInv op hop
    show liveTrack (CratesV1.step (toDetect s) L.cr op).1 x
    rw [CratesV1.liveTrack_congr ht]; exact hx
  by_cases hob : c.isObserver = true
  · rw [step_observer o s L c hob]; exact hx
  · cases c with
    | createRootCrate n => exact crate _ rfl
    | createRootCrateAfter n a => exact crate _ rfl
    | createTrack sn =>
      obtain ⟨id, seq, hcr, _⟩ := CratesV1.createTrack_spec (toDetect s) L.cr
      show liveTrack (createTrack o s L sn).1.cr x
      unfold createTrack
      rw [hcr]
      simp only
      cases hd : dbCreate o L.tr sn with
      | ok p =>
        simp only
        obtain ⟨r, hr, h1, h2⟩ := hx
        exact ⟨r, List.mem_append_left _ hr, h1, h2⟩
      | throw e => exact hx
      | ub u => exact hx
    | removeCrate c => exact crate _ rfl
    | removeTrack t => exact absurd rfl (hc t)
    | addTrack c t => exact crate _ rfl
    | crateRemoveTrack c t => exact crate _ rfl
    | clearTracks c => exact crate _ rfl
    | createSubCrate c n => exact crate _ rfl
    | createSubCrateAfter c n a => exact crate _ rfl
    | setName c n => exact crate _ rfl
    | setParent c p => exact crate _ rfl
    | update t sn => show liveTrack (viaTracks L _).1.cr x; rw [viaTracks_cr]; exact hx
    | set t f v => show liveTrack (viaTracks L _).1.cr x; rw [viaTracks_cr]; exact hx
    | _ => exact absurd rfl hob

theorem mem_dropRefs {keeps : RefTable → Bool} {refs : List (RefTable × Id)} {t : Id} {x : RefTable × Id} :
    x ∈ dropRefs keeps refs t ↔ x ∈ refs ∧ (keeps x.1 = true ∨ x.2 ≠ t) := by
  unfold dropRefs
  rw [List.mem_filter]
  simp

theorem stepR_api (o : FOps) (s : VSchema) (R : Lib1R) (c : Call) : (stepR o s R (.api c)).1.lib = (step o s R.lib c).1 := by
  cases c <;> rfl

theorem stepR_api_res (o : FOps) (s : VSchema) (R : Lib1R) (c : Call) : (stepR o s R (.api c)).2 = (step o s R.lib c).2 := by
  cases c <;> rfl

theorem stepR_api_refs (o : FOps) (s : VSchema) (R : Lib1R) (c : Call) (hc : ∀ t, c ≠ .removeTrack t) :
    (stepR o s R (.api c)).1.refs = R.refs := by
  cases c <;> first | rfl | exact absurd rfl (hc _)

theorem stepR_remove_refs (o : FOps) (s : VSchema) (R : Lib1R) (t : Id) :
    (stepR o s R (.api (.removeTrack t))).1.refs = dropRefs (fun _ => false) R.refs t := rfl

theorem plantRefs_lib (R : Lib1R) (t : Id) : (plantRefs R t).1.lib = R.lib := by
  unfold plantRefs
  split <;> rfl

theorem mem_plantRefs {s : VSchema} {R : Lib1R} (h : LibInv s R.lib) (t : Id) (x : RefTable × Id)
    (hx : x ∈ (plantRefs R t).1.refs) : x ∈ R.refs ∨ (x.2 = t ∧ liveTrack R.lib.cr t) := by
  unfold plantRefs at hx
  split at hx
  · rename_i hl
    rcases List.mem_append.mp hx with m | m
    · exact .inl m
    · obtain ⟨k, _, rfl⟩ := List.mem_map.mp m
      refine .inr ⟨rfl, ?_⟩
      by_contra hn
      have := (trackIsValid_live h.crates.trackNodup t).2 hn
      unfold trackLive at hl
      rw [this] at hl
      cases hl
  · exact .inl hx
  · exact .inl hx
  · exact .inl hx

/-- **Every step — public call or Engine writing its rows — keeps the extended invariant.** -/
theorem libInvR_step (o : FOps) {s : VSchema} {R : Lib1R} (h : LibInvR s R) (c : CallR) : LibInvR s (stepR o s R c).1 := by
  cases c with
  | plantRefs t =>
    show LibInvR s (plantRefs R t).1
    refine ⟨by rw [plantRefs_lib]; exact h.lib, ?_⟩
    intro x hx
    rw [plantRefs_lib]
    rcases mem_plantRefs h.lib t x hx with m | ⟨e, hl⟩
    · exact h.refsLive x m
    · rw [e]; exact hl
  | api c =>
    refine ⟨by rw [stepR_api]; exact libInv_step o h.lib c, ?_⟩
    intro x hx
    rw [stepR_api]
    by_cases hc : ∀ t, c ≠ .removeTrack t
    · rw [stepR_api_refs o s R c hc] at hx
      exact live_step_mono o h.lib c hc x.2 (h.refsLive x hx)
    · have : ∃ t, c = .removeTrack t := by
        by_contra hn
        exact hc fun t ht => hn ⟨t, ht⟩
      obtain ⟨t, rfl⟩ := this
      rw [stepR_remove_refs] at hx
      obtain ⟨hm, hk⟩ := mem_dropRefs.mp hx
      have hne : x.2 ≠ t := by
        rcases hk with hk | hk
        · cases hk
        · exact hk
      obtain ⟨_, _, _, _, _, _, e6⟩ := CratesV1.removeTrack_spec (toDetect s) h.lib.crates t
      show liveTrack (CratesV1.removeTrack (toDetect s) R.lib.cr t).1 x.2
      rw [e6]
      exact ⟨h.refsLive x hm, hne⟩

theorem runR_cons (o : FOps) (s : VSchema) (R : Lib1R) (c : CallR) (cs : List CallR) :
    runR o s R (c :: cs) = runR o s (stepR o s R c).1 cs := rfl

theorem libInvR_run (o : FOps) {s : VSchema} : ∀ (cs : List CallR) {R : Lib1R}, LibInvR s R → LibInvR s (runR o s R cs) := by
  intro cs
  induction cs with
  | nil => intro R h; exact h
  | cons c cs ih => intro R h; rw [runR_cons]; exact ih (libInvR_step o h c)

/-- The library part of an extended history is the plain composite history of its public calls: every theorem about
`Lib.V1.run` applies to the library under Engine's writes. -/
theorem runR_lib (o : FOps) (s : VSchema) : ∀ (cs : List CallR) (R : Lib1R), (runR o s R cs).lib = run o s R.lib (apiCalls cs) := by
  intro cs
  induction cs with
  | nil => intro R; rfl
  | cons c cs ih =>
    intro R
    rw [runR_cons, ih]
    cases c with
    | api c => rw [stepR_api]; rfl
    | plantRefs t => show run o s (plantRefs R t).1.lib _ = _; rw [plantRefs_lib]; rfl

/-! ### the raw dump -/

theorem mem_refCodes {s : VSchema} {refs : List (RefTable × Id)} {y : Int × Id} (hy : y ∈ refCodes s refs) :
    ∃ x ∈ refs, x.2 = y.2 := by
  unfold refCodes at hy
  rcases List.mem_append.mp hy with m | m
  · obtain ⟨x, hx, rfl⟩ := List.mem_map.mp m
    exact ⟨x, hx, rfl⟩
  · split at m
    · obtain ⟨x, hx, rfl⟩ := List.mem_map.mp m
      exact ⟨x, (List.mem_filter.mp hx).1, rfl⟩
    · cases m

theorem refs_live_raw {s : VSchema} {R : Lib1R} (h : LibInvR s R) {z : String × Id} (hz : z ∈ (rawR s R).otherTrackRefs) :
    liveTrack R.lib.cr z.2 := by
  obtain ⟨y, hy, rfl⟩ := List.mem_map.mp hz
  obtain ⟨x, hx, e⟩ := mem_refCodes hy
  show liveTrack R.lib.cr y.2
  rw [← e]; exact h.refsLive x hx

/-- **`PRAGMA foreign_key_check` over every declared key, the four tables (and ListTrackList behind the views)
included, reports nothing.** -/
theorem fkAllR_clean {s : VSchema} {R : Lib1R} (h : LibInvR s R) : fkViolationsAll (rawR s R) = [] := by
  have h0 := fkAll_clean h.lib
  unfold fkViolationsAll at h0 ⊢
  have h5 : (raw R.lib).otherTrackRefs = [] := rfl
  simp only at h0 ⊢
  rw [h5] at h0
  simp only [List.filter_nil, List.map_nil, List.append_nil] at h0
  have h6 : ((rawR s R).otherTrackRefs.filter fun x => !((rawR s R).cr.track.map (·.id)).contains x.2) = [] := by
    rw [List.filter_eq_nil_iff]
    intro z hz
    obtain ⟨r, hr, hre, _⟩ := refs_live_raw h hz
    have : ((rawR s R).cr.track.map (·.id)).contains z.2 = true := by
      rw [contains_iff]; exact List.mem_map.mpr ⟨r, hr, hre⟩
    rw [this]; simp
  rw [h6]
  simp only [List.map_nil, List.append_nil]
  exact h0

theorem libInvRawR_of_libInvR {s : VSchema} {R : Lib1R} (h : LibInvR s R) : libInvRaw s (rawR s R) = true := by
  have h0 := libInvRaw_of_libInv h.lib
  unfold libInvRaw libChecks at h0 ⊢
  simp only [List.all_cons, List.all_nil, Bool.and_true, Bool.and_eq_true] at h0 ⊢
  obtain ⟨c1, _, c3, c4, c5, c6, c7, c8, c9, _, c11, c12⟩ := h0
  refine ⟨c1, ?_, c3, c4, c5, c6, c7, c8, c9, ?_, c11, c12⟩
  · rw [fkAllR_clean h]; rfl
  · rw [List.all_eq_true]
    intro z hz
    rw [contains_iff]
    show z.2 ∈ (R.lib.cr.track.filter (·.hasPath)).map (·.id)
    rw [CratesV1.mem_liveIds]
    exact refs_live_raw h hz

end EngineModel.Lib.V1
