/-
C01 1.x with NaN inside: `create_track` / `update` on EVERY snapshot (the property's quantifier excludes
NaN; this file says what the library does anyway): accepted exactly when `Spec.libAccepted`, and then the
read-back is `Spec.normFieldsNaN` — every NaN survives bit for bit except a NaN BPM, which reads back absent.
-/
import Proofs.TracksV1RoundTrip

namespace EngineModel.TracksV1

open Impl.V1 (GMarker HotCue LoopV Entry Wave Beat Cues Loops)
open Fl (FOps)

set_option linter.unusedSimpArgs false
set_option linter.unusedVariables false

theorem libAccepted_unpack (x : Snap) (h : Spec.libAccepted x = true) :
    (∃ p, x.relativePath = some p) ∧ x.hotCues.length ≤ 8 ∧ x.hotCues.all Spec.cueOk = true ∧
    x.loops.length ≤ 8 ∧ x.loops.all Spec.loopOk = true ∧ Impl.V1.validGrid x.beatgrid = true ∧
    waveStorable x.sampleCount x.sampleRate x.waveform := by
  unfold Spec.libAccepted at h
  simp only [Bool.and_eq_true, decide_eq_true_eq, Bool.or_eq_true] at h
  obtain ⟨⟨⟨⟨⟨⟨h1, h2⟩, h3⟩, h4⟩, h5⟩, h6⟩, h7⟩ := h
  refine ⟨?_, h2, h3, h4, h5, h6, ?_⟩
  · cases hp : x.relativePath with
    | none => rw [hp] at h1; cases h1
    | some p => exact ⟨p, rfl⟩
  · rcases h7 with hw | ⟨hr, hc⟩
    · left
      cases hww : x.waveform with
      | nil => rfl
      | cons a t => rw [hww] at hw; cases hw
    · right
      obtain ⟨rr, hrr, hz⟩ := (present_iff _).mp hr
      cases hcc : x.sampleCount with
      | none => rw [hcc] at hc; cases hc
      | some n =>
        rw [hcc] at hc
        simp only [Option.any_some, decide_eq_true_eq] at hc
        exact ⟨n, rr, rfl, hrr, hc, hz⟩

theorem libAccepted_pack (x : Snap) (hp : ∃ p, x.relativePath = some p) (h2 : x.hotCues.length ≤ 8)
    (h3 : x.hotCues.all Spec.cueOk = true) (h4 : x.loops.length ≤ 8) (h5 : x.loops.all Spec.loopOk = true)
    (h6 : Impl.V1.validGrid x.beatgrid = true) (h7 : waveStorable x.sampleCount x.sampleRate x.waveform) :
    Spec.libAccepted x = true := by
  unfold Spec.libAccepted
  simp only [Bool.and_eq_true, decide_eq_true_eq, Bool.or_eq_true]
  obtain ⟨p, hp⟩ := hp
  refine ⟨⟨⟨⟨⟨⟨by simp [hp], h2⟩, h3⟩, h4⟩, h5⟩, h6⟩, ?_⟩
  rcases h7 with hw | ⟨n, rr, hc, hr, hn, hz⟩
  · left; simp [hw]
  · right
    refine ⟨(present_iff _).mpr ⟨rr, hr, hz⟩, ?_⟩
    simp [hc, hn]

/-- On snapshots without NaN the library's own acceptance is the Spec's. -/
theorem libAccepted_eq (x : Snap) (hn : Spec.NoNaN x = true) : Spec.libAccepted x = Spec.accepted x := by
  unfold Spec.libAccepted Spec.accepted
  rw [validGrid_eq_gridOk _ (noNaN_grid x hn)]

/-- `writeSnap_accepted` with the two uses of `NoNaN` made explicit. -/
theorem writeSnap_libAccepted (o : FOps) (s : Schema) (x : Snap) (prior : Option TrackRows)
    (ha : Spec.libAccepted x = true) (hb : Spec.optFinite x.bpm = true) :
    ∃ rows, writeSnap o s x prior = .ok rows ∧ readSnap o s rows = .ok (Spec.normFields s x) := by
  obtain ⟨⟨path, hpath⟩, hc8, hcok, hl8, hlok, hvg, hwave⟩ := libAccepted_unpack x ha
  obtain ⟨lc, hlc⟩ := lengthCalculated_ok x.sampleCount x.sampleRate
  obtain ⟨bi, hbi⟩ := roundedBpm_ok x.bpm
  obtain ⟨ov, hov⟩ := toOverview_ok o x.sampleCount x.sampleRate x.waveform
  obtain ⟨spe, hhi⟩ := toHires_ok o x.sampleCount x.sampleRate x.waveform hwave
  have hlo : toLoops x.loops = .ok (padTo8 x.loops) := by
    rcases toLoops_cases x.loops with ⟨_, h⟩ | ⟨h, _⟩
    · exact h
    · omega
  have hbeat := normBeat_same x.sampleRate (x.sampleCount.map fun n => o.ofU64 n.toNat) x.beatgrid
  rw [if_pos hvg] at hbeat
  have hcues := normCues_toCues_ok x.hotCues x.mainCue hc8 hcok
  have hloops := normLoops_pad_ok x.loops hlok
  have hb' : x.bpm = none → bi = none := by
    intro h
    rw [h, roundedBpm_none] at hbi
    cases hbi; rfl
  refine ⟨_, ?_, readSnap_assemble o s x prior path lc bi ov spe (zeroNoneF x.sampleRate)
    (zeroNoneF (x.sampleCount.map fun n => o.ofU64 n.toNat)) hpath hb' hb⟩
  unfold writeSnap
  simp only [hpath, hlc, hbi, hov, hhi, hlo, hbeat, hcues, hloops, Res.bind_ok']

theorem writeSnap_ok_libAccepted (o : FOps) (s : Schema) (x : Snap) (prior : Option TrackRows) (rows : TrackRows)
    (h : writeSnap o s x prior = .ok rows) : Spec.libAccepted x = true := by
  unfold writeSnap at h
  cases hp : x.relativePath with
  | none => rw [hp] at h; cases h
  | some path =>
    rw [hp] at h
    simp only at h
    obtain ⟨lc, _, h⟩ := Res.bind_eq_ok h
    obtain ⟨bi, _, h⟩ := Res.bind_eq_ok h
    obtain ⟨ov, _, h⟩ := Res.bind_eq_ok h
    obtain ⟨hi, hhi, h⟩ := Res.bind_eq_ok h
    obtain ⟨ls, hls, h⟩ := Res.bind_eq_ok h
    obtain ⟨bt, hbt, h⟩ := Res.bind_eq_ok h
    obtain ⟨cs, hcs, h⟩ := Res.bind_eq_ok h
    obtain ⟨lp, hlp, _⟩ := Res.bind_eq_ok h
    have hwave : waveStorable x.sampleCount x.sampleRate x.waveform := by
      rcases toHires_cases o x.sampleCount x.sampleRate x.waveform with ⟨_, _, hw⟩ | ⟨ht, _⟩
      · exact hw
      · rw [ht] at hhi; cases hhi
    have hl8 : x.loops.length ≤ 8 ∧ ls = padTo8 x.loops := by
      rcases toLoops_cases x.loops with ⟨h8, ht⟩ | ⟨_, ht⟩
      · rw [ht] at hls; cases hls; exact ⟨h8, rfl⟩
      · rw [ht] at hls; cases hls
    have hgrid : Impl.V1.validGrid x.beatgrid = true := by
      rw [normBeat_same] at hbt
      cases hv : Impl.V1.validGrid x.beatgrid with
      | true => rfl
      | false => rw [hv] at hbt; simp at hbt
    have hcues : x.hotCues.length ≤ 8 ∧ x.hotCues.all Spec.cueOk = true := by
      rcases normCues_toCues_cases x.hotCues x.mainCue with hh | ⟨e, he⟩
      · exact hh
      · rw [he] at hcs; cases hcs
    have hloops : x.loops.all Spec.loopOk = true := by
      rw [hl8.2] at hlp
      rcases normLoops_pad_cases x.loops with hh | ⟨e, he⟩
      · exact hh
      · rw [he] at hlp; cases hlp
    exact libAccepted_pack x ⟨path, hp⟩ hcues.1 hcues.2 hl8.1 hloops hgrid hwave

/-! ### a NaN BPM is written as "no BPM" -/

theorem absLt63_nan (b : Bits) (h : F64.isNaN b = true) : Fl.absLt63 b = false := by
  cases ha : Fl.absLt63 b with
  | false => rfl
  | true =>
    have := Fl.absLt63_exp b ha
    unfold F64.isNaN at h
    simp only [Bool.and_eq_true, beq_iff_eq] at h
    omega

theorem writeSnap_bpm_nan (o : FOps) (s : Schema) (x : Snap) (prior : Option TrackRows) (b : Bits)
    (hx : x.bpm = some b) (hnan : F64.isNaN b = true) :
    writeSnap o s x prior = writeSnap o s { x with bpm := none } prior := by
  have hr : roundedBpm x.bpm = roundedBpm none := by
    rw [hx]; unfold roundedBpm; simp [absLt63_nan b hnan]
  have hcell : x.bpm.bind Fl.realCell = none := by
    rw [hx]; simp [Fl.realCell, hnan]
  unfold writeSnap
  simp only [hr]
  cases x.relativePath with
  | none => rfl
  | some path =>
    simp only
    congr 1; funext lc
    congr 1; funext bi
    congr 1; funext ov
    congr 1; funext hi
    congr 1; funext ls
    congr 1; funext bt
    congr 1; funext cs
    congr 1; funext lp
    congr 1
    unfold assemble writeTrackRow
    simp only [hcell]
    rfl

theorem dropNaN_finite (v : Option Bits) (h : Spec.optFinite v = true) :
    Spec.dropNaN (v.map fun b => if b = F64.negZero then F64.zero else b) =
      (v.map fun b => if b = F64.negZero then F64.zero else b) := by
  cases v with
  | none => rfl
  | some b =>
    unfold Spec.optFinite at h
    simp only [Option.all_some, Bool.not_eq_true'] at h
    unfold Spec.dropNaN
    simp only [Option.map_some, Option.bind_some]
    by_cases hz : b = F64.negZero
    · simp only [hz, if_true]; rfl
    · simp only [hz, if_false, h]; rfl

/-- **Every snapshot, NaN included.** -/
theorem writeSnap_total (o : FOps) (s : Schema) (x : Snap) (prior : Option TrackRows) :
    (Spec.libAccepted x = true →
      ∃ rows, writeSnap o s x prior = .ok rows ∧ readSnap o s rows = .ok (Spec.normFieldsNaN s x)) ∧
    (Spec.libAccepted x = false → ∃ e, writeSnap o s x prior = .throw e) := by
  constructor
  · intro ha
    by_cases hb : Spec.optFinite x.bpm = true
    · obtain ⟨rows, hw, hr⟩ := writeSnap_libAccepted o s x prior ha hb
      refine ⟨rows, hw, ?_⟩
      rw [hr]
      unfold Spec.normFieldsNaN
      have : Spec.dropNaN (Spec.normFields s x).bpm = (Spec.normFields s x).bpm := dropNaN_finite x.bpm hb
      rw [this]
    · -- the BPM is NaN
      cases hx : x.bpm with
      | none => rw [hx] at hb; exact absurd rfl hb
      | some b =>
        have hnan : F64.isNaN b = true := by
          rw [hx] at hb
          unfold Spec.optFinite at hb
          simp only [Option.all_some, Bool.not_eq_true', Bool.not_eq_false] at hb
          exact hb
        rw [writeSnap_bpm_nan o s x prior b hx hnan]
        have ha' : Spec.libAccepted { x with bpm := none } = true := ha
        obtain ⟨rows, hw, hr⟩ := writeSnap_libAccepted o s { x with bpm := none } prior ha' rfl
        refine ⟨rows, hw, ?_⟩
        rw [hr]
        unfold Spec.normFieldsNaN Spec.normFields
        simp only [hx, Option.map_some, Option.map_none]
        have hnz : b ≠ F64.negZero := by intro e; rw [e] at hnan; revert hnan; decide
        simp [Spec.dropNaN, hnz, hnan]
  · intro ha
    cases hw : writeSnap o s x prior with
    | ok rows => rw [writeSnap_ok_libAccepted o s x prior rows hw] at ha; cases ha
    | throw e => exact ⟨e, rfl⟩
    | ub u => exact absurd hw (writeSnap_defined o s x prior u)

end EngineModel.TracksV1
