/-
C12, soundness of the kernel decision on class indices (`Spec/SchemaFactsCore.lean`):

  classesOk texts cls → schemaEqIdx cls a b → schemaEq (toDump texts strs a) (toDump texts strs b)

and its lift to the whole table of pairs (`tableOk_sound`).
-/
import EngineModel.Spec.SchemaFactsCore

namespace EngineModel.Spec.SchemaFacts
open EngineModel.Spec.SqlCanon EngineModel.Spec.SchemaDump

/-! ### sets -/

theorem subsetB_iff {α : Type} [DecidableEq α] (xs ys : List α) :
    subsetB xs ys = true ↔ ∀ x ∈ xs, x ∈ ys := by
  simp [subsetB, List.all_eq_true]

theorem sameSet_iff {α : Type} [DecidableEq α] (xs ys : List α) :
    sameSet xs ys = true ↔ (∀ x, x ∈ xs ↔ x ∈ ys) ∧ xs.length = ys.length := by
  simp only [sameSet, Bool.and_eq_true, subsetB_iff, beq_iff_eq]
  constructor
  · intro h
    exact ⟨fun x => ⟨h.1.1 x, h.1.2 x⟩, h.2⟩
  · intro h
    exact ⟨⟨fun x => (h.1 x).1, fun x => (h.1 x).2⟩, h.2⟩

theorem sameSet_map {α β : Type} [DecidableEq α] [DecidableEq β] (f : α → β) {xs ys : List α}
    (h : sameSet xs ys = true) : sameSet (xs.map f) (ys.map f) = true := by
  rw [sameSet_iff] at *
  refine ⟨fun y => ?_, by simp only [List.length_map]; exact h.2⟩
  simp only [List.mem_map]
  constructor
  · intro hx
    obtain ⟨x, hx, rfl⟩ := hx
    exact ⟨x, (h.1 x).1 hx, rfl⟩
  · intro hx
    obtain ⟨x, hx, rfl⟩ := hx
    exact ⟨x, (h.1 x).2 hx, rfl⟩

/-! ### the class table -/

theorem classesOk_canon {texts : List Str} {cls : List Nat} (h : classesOk texts cls = true) (i : Nat) :
    canonChars (textAt texts i) = canonChars (textAt texts (clsOf cls i)) := by
  simp only [classesOk, Bool.and_eq_true, beq_iff_eq, List.all_eq_true, List.mem_range,
    Bool.or_eq_true] at h
  obtain ⟨hlen, hall⟩ := h
  by_cases hi : i < texts.length
  · cases hall i hi with
    | inl h1 => rw [h1]
    | inr h2 => exact h2
  · have hc : clsOf cls i = i := by
      unfold clsOf
      rw [List.getD_eq_getElem?_getD, List.getElem?_eq_none (by omega)]
      rfl
    rw [hc]

/-! ### one pair -/

/-- The canonical row read off a class-index row. -/
def rowOfClass (texts strs : List Str) (r : CRowI) : CMasterRow :=
  ⟨toStr strs r.db, toStr strs r.type, toStr strs r.name, toStr strs r.tbl, r.cls.map fun i => canonChars (textAt texts i)⟩

theorem canonRow_toRow {texts : List Str} {cls : List Nat} (strs : List Str) (hc : classesOk texts cls = true) (r : IRow) :
    canonRow (toRow texts strs r) = rowOfClass texts strs (classRow cls r) := by
  cases r with
  | mk db type name tbl sql =>
    cases sql with
    | none => rfl
    | some i =>
      simp only [canonRow, toRow, rowOfClass, classRow, Option.map_some]
      rw [classesOk_canon hc i]

theorem master_canon {texts : List Str} {cls : List Nat} (strs : List Str) (hc : classesOk texts cls = true) (a : IDump) :
    (canonDump (toDump texts strs a)).master = (a.master.map (classRow cls)).map (rowOfClass texts strs) := by
  simp only [canonDump, toDump, List.map_map]
  apply List.map_congr_left
  intro r _
  exact canonRow_toRow strs hc r

/-- The flattened index entry read back. -/
def idxOf (strs : List Str) (p : NStr × NStr × IIndex) : Str × Str × Index :=
  (toStr strs p.1, toStr strs p.2.1, toIndex strs p.2.2)

theorem indexes_canon (texts strs : List Str) (a : IDump) :
    (canonDump (toDump texts strs a)).indexes = (flatIdx a).map (idxOf strs) := by
  simp only [canonDump, toDump, flatIdx]
  generalize a.indexes = l
  induction l with
  | nil => rfl
  | cons t ts ih =>
    simp only [List.map_cons, List.flatMap_cons, List.map_append, ih]
    congr 1
    simp only [toTableIdx, List.map_map]
    rfl

theorem schemaEqIdx_sound {texts : List Str} {cls : List Nat} (strs : List Str) (hc : classesOk texts cls = true) {a b : IDump}
    (h : schemaEqIdx cls a b = true) : schemaEq (toDump texts strs a) (toDump texts strs b) = true := by
  simp only [schemaEqIdx, Bool.and_eq_true] at h
  obtain ⟨⟨hm, ht⟩, hi⟩ := h
  simp only [schemaEq, cdumpEq, Bool.and_eq_true]
  refine ⟨⟨?_, ?_⟩, ?_⟩
  · rw [master_canon strs hc a, master_canon strs hc b]
    exact sameSet_map _ hm
  · show sameSet (a.tables.map (toTable strs)) (b.tables.map (toTable strs)) = true
    exact sameSet_map _ ht
  · rw [indexes_canon texts strs a, indexes_canon texts strs b]
    exact sameSet_map _ hi

/-! ### the whole table -/

theorem tableOk_sound {texts : List Str} {cls : List Nat} (strs : List Str) {dumps : List IDump} {pairs : List (Nat × Nat)}
    (hc : classesOk texts cls = true) (ht : tableOk cls dumps pairs = true) :
    ∀ p ∈ pairs, schemaEq (toDump texts strs (dumpAt dumps p.1)) (toDump texts strs (dumpAt dumps p.2)) = true := by
  intro p hp
  simp only [tableOk, List.all_eq_true] at ht
  exact schemaEqIdx_sound strs hc (ht p hp)

/-! ### non-vacuity: two texts that differ only in whitespace and quoting -/

namespace Example

/-- `a [b]` and `a  b`. -/
def texts : List Str := [['a', ' ', '[', 'b', ']'], ['a', ' ', ' ', 'b']]
def cls : List Nat := [0, 0]

def strs : List Str := [['m'], ['t'], ['x']]
def row (i : Nat) : IRow := ⟨0, 1, 2, 2, some i⟩
def dumps : List IDump := [⟨[row 0], [], []⟩, ⟨[row 1], [], []⟩]

example : texts.getD 0 [] ≠ texts.getD 1 [] := by decide
example : classesOk texts cls = true := by decide +kernel
example : tableOk cls dumps [(0, 1)] = true := by decide +kernel

example : schemaEq (toDump texts strs (dumpAt dumps 0)) (toDump texts strs (dumpAt dumps 1)) = true :=
  tableOk_sound (texts := texts) (cls := cls) strs (dumps := dumps) (pairs := [(0, 1)])
    (by decide +kernel) (by decide +kernel) (0, 1) (List.mem_singleton.mpr rfl)

end Example

end EngineModel.Spec.SchemaFacts
