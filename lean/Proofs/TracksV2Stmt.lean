/-
Every `set_*` call of the statement-level model (`callSet`: the SELECT / UPDATE
statements in the order of the C++, inside the transaction scope the C++ has)
is *atomic* on a well-formed table: it equals `atomicSet` — all of the setter's
effect on the row (`applySetter`, the lens model of C06) or, when a statement
fails, no effect at all.
-/
import Proofs.TracksV2Table

namespace EngineModel
namespace TracksV2

open Prim

/-- the whole effect of the setter, or nothing -/
def atomicSet (ops : FOps) (id : Nat) (σ : Setter) : M Unit := fun db =>
  match db.find id with
  | none => (db, .throw .runtime_error)
  | some t =>
    match applySetter ops σ t.row with
    | .ok r' => if pathTaken' db id r'.path then (db, .throw .sqlite_error) else (db.rep t r', .ok ())
    | .throw e => (db, .throw e)
    | .ub u => (db, .ub u)

section
variable {db : TDb} {id : Nat} {t : TRow}

theorem atomic_keep (ops : FOps) (σ : Setter) (hs : SInv db) (hf : db.find id = some t) {r' : Row}
    (ha : applySetter ops σ t.row = .ok r') (hp : r'.path = t.row.path) :
    atomicSet ops id σ db = (db.rep t r', .ok ()) := by
  obtain ⟨ht, hid⟩ := find_mem hf
  unfold atomicSet
  simp only [hf, ha, hp]
  rw [← hid, pathTaken_same hs ht]
  rfl

theorem atomic_throw (ops : FOps) (σ : Setter) (hf : db.find id = some t) {e : Exn}
    (ha : applySetter ops σ t.row = .throw e) : atomicSet ops id σ db = (db, .throw e) := by
  unfold atomicSet; simp only [hf, ha]

theorem atomic_ub (ops : FOps) (σ : Setter) (hf : db.find id = some t) {u : Ub}
    (ha : applySetter ops σ t.row = .ub u) : atomicSet ops id σ db = (db, .ub u) := by
  unfold atomicSet; simp only [hf, ha]

theorem sel_bind {β} (hf : db.find id = some t) (f : Row → M β) : (selectRow id >>= f) db = f t.row db := by
  rw [M.bind_apply, selectRow_some hf]

/-- a column write that keeps the path: result, and the table stays usable for the next statement -/
theorem step_keep (hs : SInv db) (hf : db.find id = some t) (g : Row → Row) (hp : (g t.row).path = t.row.path) :
    setCol id g db = (db.rep t (g t.row), .ok ()) ∧ SInv (db.rep t (g t.row)) ∧
      (db.rep t (g t.row)).find id = some { t with row := g t.row } := by
  obtain ⟨ht, hid⟩ := find_mem hf
  refine ⟨setCol_keep hs hf g hp, SInv_rep hs ht _ (by rw [hp]; exact pathTaken_same hs ht), ?_⟩
  rw [find_rep, hf]; simp [hid]

theorem keep_bind {β} (hs : SInv db) (hf : db.find id = some t) (g : Row → Row) (hp : (g t.row).path = t.row.path)
    (f : Unit → M β) : (setCol id g >>= f) db = f () (db.rep t (g t.row)) := by
  rw [M.bind_apply, (step_keep hs hf g hp).1]

end

/-- a single path-keeping column write is the whole setter -/
theorem single_keep (ops : FOps) (σ : Setter) {db : TDb} {id : Nat} {t : TRow} (hs : SInv db)
    (hf : db.find id = some t) (g : Row → Row) (hp : (g t.row).path = t.row.path)
    (ha : applySetter ops σ t.row = .ok (g t.row)) : setCol id g db = atomicSet ops id σ db := by
  rw [setCol_keep hs hf g hp, atomic_keep ops σ hs hf ha hp]

/-- close `setCol id g db = atomicSet ops id σ db` for a path-keeping single write -/
macro "single_write" hs:ident hf:ident : tactic =>
  `(tactic| (apply single_keep (hs := $hs) (hf := $hf) <;> first | rfl | (simp [applySetter, Res.bind, *])))

theorem callSet_none (ops : FOps) (σ : Setter) {db : TDb} {id : Nat} (hf : db.find id = none) :
    callSet ops id σ db = (db, .throw .runtime_error) := by
  cases σ <;> simp only [callSet] <;>
    first
    | exact setCol_none hf _
    | (rw [M.bind_apply, selectRow_none hf])
    | (unfold M.transaction; rw [M.bind_apply, setCol_none hf])
    | (unfold M.transaction; rw [M.bind_apply, selectRow_none hf])

set_option maxHeartbeats 1000000 in
/-- **Every setter is atomic.** -/
theorem callSet_atomic (ops : FOps) (id : Nat) (σ : Setter) {db : TDb} (hs : SInv db) :
    callSet ops id σ db = atomicSet ops id σ db := by
  cases hf : db.find id with
  | none =>
    rw [callSet_none ops σ hf]
    unfold atomicSet; simp only [hf]
  | some t =>
    obtain ⟨ht, hid⟩ := find_mem hf
    cases σ with
    | album v => simp only [callSet]; single_write hs hf
    | artist v => simp only [callSet]; single_write hs hf
    | bitrate v => simp only [callSet]; single_write hs hf
    | comment v => simp only [callSet]; single_write hs hf
    | composer v => simp only [callSet]; single_write hs hf
    | duration v => simp only [callSet]; single_write hs hf
    | genre v => simp only [callSet]; single_write hs hf
    | lastPlayedAt v => simp only [callSet]; single_write hs hf
    | publisher v => simp only [callSet]; single_write hs hf
    | rating v => simp only [callSet]; single_write hs hf
    | title v => simp only [callSet]; single_write hs hf
    | trackNumber v => simp only [callSet]; single_write hs hf
    | year v => simp only [callSet]; single_write hs hf
    | averageLoudness v =>
      simp only [callSet]
      rw [sel_bind hf]
      single_write hs hf
    | beatgrid g =>
      simp only [callSet]
      rw [sel_bind hf]
      single_write hs hf
    | mainCue v =>
      simp only [callSet]
      rw [sel_bind hf]
      single_write hs hf
    | hotCueAt i v =>
      simp only [callSet]
      rw [sel_bind hf, M.lift_bind]
      cases h1 : slotIndex i t.row.cues.1.cues.length with
      | throw e => exact (atomic_throw ops _ hf (by simp [applySetter, h1, Res.bind])).symm
      | ub u => exact (atomic_ub ops _ hf (by simp [applySetter, h1, Res.bind])).symm
      | ok k =>
        simp only []
        rw [M.lift_bind]
        cases h2 : putCues ({ t.row.cues.1 with cues := t.row.cues.1.cues.set k (writeHotCue v) }, t.row.cues.2) with
        | throw e => exact (atomic_throw ops _ hf (by simp [applySetter, h1, h2, Res.bind])).symm
        | ub u => exact (atomic_ub ops _ hf (by simp [applySetter, h1, h2, Res.bind])).symm
        | ok q => single_write hs hf
    | hotCues v =>
      simp only [callSet]
      rw [sel_bind hf, M.lift_bind]
      cases h1 : writeHotCues v with
      | throw e => exact (atomic_throw ops _ hf (by simp [applySetter, h1, Res.bind])).symm
      | ub u => exact (atomic_ub ops _ hf (by simp [applySetter, h1, Res.bind])).symm
      | ok cs =>
        simp only []
        rw [M.lift_bind]
        cases h2 : putCues ({ t.row.cues.1 with cues := cs }, t.row.cues.2) with
        | throw e => exact (atomic_throw ops _ hf (by simp [applySetter, h1, h2, Res.bind])).symm
        | ub u => exact (atomic_ub ops _ hf (by simp [applySetter, h1, h2, Res.bind])).symm
        | ok q => single_write hs hf
    | loopAt i v =>
      simp only [callSet]
      rw [sel_bind hf, M.lift_bind]
      cases h1 : slotIndex i t.row.loops.1.length with
      | throw e => exact (atomic_throw ops _ hf (by simp [applySetter, h1, Res.bind])).symm
      | ub u => exact (atomic_ub ops _ hf (by simp [applySetter, h1, Res.bind])).symm
      | ok k =>
        simp only []
        rw [M.lift_bind]
        cases h2 : putLoops (t.row.loops.1.set k (writeLoop v), t.row.loops.2) with
        | throw e => exact (atomic_throw ops _ hf (by simp [applySetter, h1, h2, Res.bind])).symm
        | ub u => exact (atomic_ub ops _ hf (by simp [applySetter, h1, h2, Res.bind])).symm
        | ok q => single_write hs hf
    | loops v =>
      simp only [callSet]
      rw [sel_bind hf, M.lift_bind]
      cases h1 : writeLoops v with
      | throw e => exact (atomic_throw ops _ hf (by simp [applySetter, h1, Res.bind])).symm
      | ub u => exact (atomic_ub ops _ hf (by simp [applySetter, h1, Res.bind])).symm
      | ok ls =>
        simp only []
        rw [M.lift_bind]
        cases h2 : putLoops (ls, t.row.loops.2) with
        | throw e => exact (atomic_throw ops _ hf (by simp [applySetter, h1, h2, Res.bind])).symm
        | ub u => exact (atomic_ub ops _ hf (by simp [applySetter, h1, h2, Res.bind])).symm
        | ok q => single_write hs hf
    | waveform w =>
      simp only [callSet]
      rw [sel_bind hf, sel_bind hf, sel_bind hf, M.lift_bind]
      cases h1 : writeWaveform ops w (getSampleCount t.row) (getSampleRate t.row) with
      | throw e => exact (atomic_throw ops _ hf (by simp [applySetter, h1, Res.bind])).symm
      | ub u => exact (atomic_ub ops _ hf (by simp [applySetter, h1, Res.bind])).symm
      | ok o => single_write hs hf
    | bpm v =>
      simp only [callSet]
      obtain ⟨e1, s1, f1⟩ := step_keep hs hf (fun r => { r with bpmAnalyzed := storeReal (writeBpm v).1 }) rfl
      have e2 := (step_keep s1 f1 (fun r => { r with bpm := (writeBpm v).2 }) rfl).1
      unfold M.transaction
      rw [M.bind_apply, e1]
      simp only []
      rw [e2, rep_rep]
      refine (atomic_keep ops _ hs hf ?_ ?_).symm <;> rfl
    | key v =>
      simp only [callSet]
      obtain ⟨e1, s1, f1⟩ := step_keep hs hf (fun r => { r with key := (writeKey v).1 }) rfl
      have e2 := (step_keep s1 f1 (fun x => { x with trackData :=
        ({ t.row.trackData.1 with key := (writeKey v).2 }, t.row.trackData.2) }) rfl).1
      unfold M.transaction
      rw [M.bind_apply, e1]
      simp only []
      rw [sel_bind f1]
      simp only []
      rw [e2, rep_rep]
      refine (atomic_keep ops _ hs hf ?_ ?_).symm <;> rfl
    | sampleCount v =>
      simp only [callSet]
      obtain ⟨e1, s1, f1⟩ := step_keep hs hf (fun x => { x with trackData :=
        ({ t.row.trackData.1 with samples := v.getD 0 }, t.row.trackData.2) }) rfl
      have e2 := (step_keep s1 f1 (fun x => { x with beat :=
        ({ t.row.beat.1 with samples := ops.ofU64 (v.getD 0) }, t.row.beat.2) }) rfl).1
      unfold M.transaction
      rw [sel_bind hf, sel_bind hf, M.bind_apply, e1]
      simp only []
      rw [e2, rep_rep]
      refine (atomic_keep ops _ hs hf ?_ ?_).symm <;> rfl
    | sampleRate v =>
      simp only [callSet]
      obtain ⟨e1, s1, f1⟩ := step_keep hs hf (fun x => { x with trackData :=
        ({ t.row.trackData.1 with sampleRate := writeSampleRate v }, t.row.trackData.2) }) rfl
      have e2 := (step_keep s1 f1 (fun x => { x with beat :=
        ({ t.row.beat.1 with sampleRate := writeSampleRate v }, t.row.beat.2) }) rfl).1
      unfold M.transaction
      rw [sel_bind hf, sel_bind hf, M.bind_apply, e1]
      simp only []
      rw [e2, rep_rep]
      refine (atomic_keep ops _ hs hf ?_ ?_).symm <;> rfl
    | relativePath p =>
      simp only [callSet]
      unfold M.transaction atomicSet
      simp only [hf, applySetter]
      rw [M.bind_apply, setCol_some hs hf]
      cases hc : pathTaken' db id p with
      | true => simp
      | false =>
        simp only [Bool.false_eq_true, if_false]
        have s1 : SInv (db.rep t { t.row with path := p }) := SInv_rep hs ht _ (by rw [hid]; exact hc)
        have f1 : (db.rep t { t.row with path := p }).find id = some { t with row := { t.row with path := p } } := by
          rw [find_rep, hf]; simp [hid]
        obtain ⟨e2, s2, f2⟩ := step_keep s1 f1 (fun r => { r with filename := getFilename p }) rfl
        have e3 := (step_keep s2 f2 (fun r => { r with fileType := (getFileExtension (getFilename p)).getD [] }) rfl).1
        rw [M.bind_apply, e2]
        simp only []
        rw [e3, rep_rep, rep_rep]

end TracksV2
end EngineModel
