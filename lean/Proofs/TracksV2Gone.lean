/-
Removed tracks on the statement-level table: once an id is gone (no row, id within
the AUTOINCREMENT counter) no later call brings it back.
-/
import Proofs.TracksV2Wf

namespace EngineModel
namespace TracksV2

/-- the track `id` has been removed (or never existed) and its id can no longer be issued -/
def Gone (db : TDb) (id : Nat) : Prop := db.find id = none ∧ id ≤ db.seq

theorem find_filter_none (rows : List TRow) (id : Nat) (q : TRow → Bool)
    (h : rows.find? (·.id == id) = none) : (rows.filter q).find? (·.id == id) = none := by
  rw [List.find?_eq_none] at h ⊢
  intro x hx
  exact h x (List.mem_filter.mp hx).1

theorem gone_rep {db : TDb} {id : Nat} (h : Gone db id) (t : TRow) (r : Row) : Gone (db.rep t r) id := by
  refine ⟨?_, h.2⟩
  rw [find_rep, h.1]
  split <;> rfl

/-- a removed track stays removed: no call re-creates it (AUTOINCREMENT never reissues an id) -/
theorem gone_step (ops : FOps) (s : Schema) (op : TOp) {db : TDb} (hI : Inv db) {id : Nat} (h : Gone db id) :
    Gone (db.step ops s op).1 id := by
  cases op with
  | create x =>
    show Gone (callCreate ops s x db).1 id
    unfold callCreate
    rw [M.lift_bind]
    cases writeStore ops s x with
    | throw e => exact h
    | ub u => exact h
    | ok r =>
      simp only []
      unfold M.stmt
      simp only [insertStmt_eq hI.s]
      cases pathTaken' db 0 r.path with
      | true => exact h
      | false =>
        simp only [Bool.false_eq_true, if_false]
        refine ⟨?_, Nat.le_succ_of_le h.2⟩
        show (db.rows ++ [db.created r]).find? (·.id == id) = none
        rw [List.find?_append]
        have h1 : db.rows.find? (·.id == id) = none := h.1
        rw [h1]
        have : ¬ db.seq + 1 = id := by have := h.2; omega
        simp [TDb.created, this]
  | update id' x =>
    show Gone ((callUpdate ops s id' x >>= fun _ => (pure 0 : M Nat)) db).1 id
    rw [fst_bind_pure]
    unfold callUpdate
    rw [M.lift_bind]
    cases writeStore ops s x with
    | throw e => exact h
    | ub u => exact h
    | ok r =>
      simp only []
      rw [M.bind_apply]
      unfold M.stmt
      cases hf : db.find id' with
      | none => simp only [updateStmt_none hf]; exact h
      | some t =>
        simp only [updateStmt_whole hI.s hf]
        cases pathTaken' db id' r.path with
        | true => exact h
        | false => exact gone_rep h t r
  | set id' σ =>
    show Gone ((callSet ops id' σ >>= fun _ => (pure 0 : M Nat)) db).1 id
    rw [fst_bind_pure, callSet_atomic ops id' σ hI.s]
    unfold atomicSet
    cases db.find id' with
    | none => exact h
    | some t =>
      simp only []
      cases applySetter ops σ t.row with
      | throw e => exact h
      | ub u => exact h
      | ok r' =>
        simp only []
        cases pathTaken' db id' r'.path with
        | true => exact h
        | false => exact gone_rep h t r'
  | remove id' =>
    show Gone ((callRemove id' >>= fun _ => (pure 0 : M Nat)) db).1 id
    rw [fst_bind_pure, callRemove_eq]
    split
    · exact h
    · exact ⟨find_filter_none db.rows id _ h.1, h.2⟩

theorem gone_run (ops : FOps) (s : Schema) (hist : List TOp) {db : TDb} (hI : Inv db) {id : Nat} (h : Gone db id) :
    Gone (db.run ops s hist) id := by
  induction hist generalizing db with
  | nil => exact h
  | cons op t ih => exact ih (inv_step ops s op hI) (gone_step ops s op hI h)

/-- `remove_track` of an existing track makes it `Gone` -/
theorem gone_of_remove {db : TDb} (hI : Inv db) {id : Nat} {t : TRow} (hf : db.find id = some t) :
    (callRemove id db).2 = .ok () ∧ Gone (callRemove id db).1 id := by
  obtain ⟨ht, hid⟩ := find_mem hf
  rw [callRemove_eq]
  have hne : ¬ (db.rows.filter fun e => e.id == id).length = 0 := by
    intro h0
    have : t ∈ db.rows.filter fun e => e.id == id := List.mem_filter.mpr ⟨ht, by simp [hid]⟩
    rw [List.length_eq_zero_iff.mp h0] at this
    cases this
  simp only [hne, if_false]
  refine ⟨trivial, ?_, by rw [← hid]; exact (hI.s.pos t ht).2⟩
  show (db.rows.filter fun e => !(e.id == id)).find? (·.id == id) = none
  rw [List.find?_eq_none]
  intro x hx
  have := (List.mem_filter.mp hx).2
  simpa using this

end TracksV2
end EngineModel
