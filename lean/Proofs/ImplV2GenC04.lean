/-
C04 on the regenerated pair: decoding a (foreign) payload with the decoder
regenerated from `from_blob` and re-encoding the result with the encoder
regenerated from `to_blob` returns every byte (`normBool`: the one
`is_main_cue_adjusted` byte of quick cues is normalised to 0/1).
Obtained from the C04 theorems on the hand model through the equalities of
Proofs/ImplV2Gen.lean and ImplV2GenTransfer.lean; the size hypotheses are theirs.
-/
import Proofs.ImplV2GenTransfer
import Properties.C04

namespace EngineModel.Gen.ImplV2
open Codec EngineModel.V2 EngineModel.Properties.C04

theorem gen_track_reencode_partial (bs : Bytes) (hb : bs.length < 9223372036854775808) (v : Track) (extra : Bytes)
    (h : decodeTrack bs = .ok (v, extra)) : encodeTrack v extra = .ok bs := by
  rw [decodeTrack_eq] at h
  have h4 := C04_v2_track_reencode bs v extra h
  have he : bs = track.enc v ++ extra := by
    rw [Impl.V2.encodeTrack_ok] at h4; injection h4 with h4; exact h4.symm
  rw [gen_encodeTrack_eq_hand_partial v extra (by rw [← he]; exact hb)]; exact h4

theorem gen_beat_reencode_partial (bs : Bytes) (hb : bs.length < 9223372036854775808) (v : Beat) (extra : Bytes)
    (h : decodeBeat bs = .ok (v, extra)) : encodeBeat v extra = .ok bs := by
  rw [decodeBeat_eq] at h
  have h4 := C04_v2_beat_reencode bs v extra h
  have he : bs = beat.enc v ++ extra := by
    rw [Impl.V2.encodeBeat_ok] at h4; injection h4 with h4; exact h4.symm
  rw [gen_encodeBeat_eq_hand_partial v extra (by rw [← he]; exact hb)]; exact h4

theorem gen_ovw_reencode_partial (bs : Bytes) (hb : bs.length < 9223372036854775808) (v : Ovw) (extra : Bytes)
    (h : decodeOvw bs = .ok (v, extra)) : encodeOvw v extra = .ok bs := by
  rw [decodeOvw_eq_partial bs hb] at h
  have hm : bs.length < maxCount := by unfold maxCount; exact hb
  have h4 := C04_v2_ovw_reencode bs hm v extra h
  rw [Impl.V2.decodeOvw_eq bs hm, liftDec_ok_iff] at h
  have hv := (ovw_exact _ _ _ h).1
  have he : bs = ovw.enc v ++ extra := (ovw_exact _ _ _ h).2
  rw [gen_encodeOvw_eq_hand_partial v hv extra (by rw [← he]; exact hb)]; exact h4

theorem gen_loops_reencode_partial (bs : Bytes) (hb : bs.length < 2305843009213693952) (v : Loops) (extra : Bytes)
    (h : decodeLoops bs = .ok (v, extra)) : encodeLoops v extra = .ok bs := by
  rw [decodeLoops_eq_partial bs hb] at h
  have h4 := C04_v2_loops_reencode bs v extra h
  rw [Impl.V2.decodeLoops_eq, liftDec_ok_iff] at h
  have he : bs = loops.enc v ++ extra := (loops_exact _ _ _ h).2
  rw [gen_encodeLoops_eq_hand_partial v extra (by rw [← he]; omega)]; exact h4

theorem gen_cues_reencode_partial (bs : Bytes) (hb : bs.length < 2305843009213693952) (v : Cues) (extra : Bytes)
    (h : decodeCues bs = .ok (v, extra)) : encodeCues v extra = .ok (normBool bs) := by
  rw [decodeCues_eq_partial bs hb] at h
  have h4 := C04_v2_cues_reencode bs v extra h
  rw [Impl.V2.decodeCues_eq, liftDec_ok_iff] at h
  obtain ⟨raw, hraw, rfl⟩ := cues_dec_raw h
  have hfit : Impl.V2.CuesFit raw.toCues := fun q hq => (cuesRaw_exact _ _ _ hraw).1.2 q hq
  obtain ⟨pre, post, e1, e2⟩ := C04_normBool_one_byte bs raw extra hraw
  have hlen : (normBool bs).length = bs.length := by rw [e2, e1]; simp
  have he : normBool bs = cues.enc raw.toCues ++ extra := by
    rw [Impl.V2.encodeCues_ok _ hfit] at h4; injection h4 with h4; exact h4.symm
  rw [gen_encodeCues_eq_hand_partial raw.toCues extra (by rw [← he, hlen]; omega)]; exact h4

end EngineModel.Gen.ImplV2
