/-
Generic lemmas about binding tables (property C18): what `assign ∘ evalParams`
stores in a column, what `readRow` reads from it, and the value-level round trip
`rconv ∘ wconv = normV` for every declared member type.
-/
import EngineModel.Table.Core

namespace EngineModel
namespace Table

/-! ## value conversions -/

theorem in64_iff (i : Int) : in64 i = true ↔ (-9223372036854775808 ≤ i ∧ i ≤ 9223372036854775807) := by
  unfold in64; simp

theorem in32_iff (i : Int) : in32 i = true ↔ (-2147483648 ≤ i ∧ i ≤ 2147483647) := by
  unfold in32; simp

theorem wrap32_of_in32 {i : Int} (h : in32 i = true) : wrap32 i = i := by
  rw [in32_iff] at h
  unfold wrap32
  omega

theorem truncSec_in64 {ns : Int} (h : in64 ns = true) : in64 (truncSec ns * 1000000000) = true := by
  rw [in64_iff] at *
  unfold truncSec
  split <;> omega

theorem toTimePoint_truncSec {ns : Int} (h : in64 ns = true) :
    toTimePoint (truncSec ns) = .ok (truncSec ns * 1000000000) := by
  unfold toTimePoint
  rw [truncSec_in64 h]; rfl

theorem toTimePoint_floorSec {ns : Int} (h : in64 (floorSec ns * 1000000000) = true) :
    toTimePoint (ns / 1000000000) = .ok (floorSec ns * 1000000000) := by
  unfold floorSec at *
  unfold toTimePoint
  rw [h]; rfl

/-- Truncation is idempotent: a time point that is a whole number of seconds is kept. -/
theorem truncSec_idem (ns : Int) : truncSec (truncSec ns * 1000000000) = truncSec ns := by
  unfold truncSec
  split <;> split <;> omega

theorem floorSec_idem (ns : Int) : floorSec (floorSec ns * 1000000000) = floorSec ns := by
  unfold floorSec
  omega

theorem readOptReal_storeReal (x : UInt64) :
    FVal.oreal (readOptReal (storeReal x)) =
      (if F64.isNaN x then .oreal none else if x = F64.negZero then .oreal (some F64.zero) else .oreal (some x)) := by
  unfold storeReal
  split
  · rfl
  · split <;> rfl

/-- **Value round trip**: a member value of its declared type, written with the
conversion of that type and read back with the parameter type and conversion of
that type, is its normal form. -/
theorem conv_roundtrip {ty : FTy} {v : FVal} {x : Val}
    (hv : wtv ty v = true) (hw : wconv ty.wconv v = .ok x) :
    rconv ty.pty ty.rconv x = .ok (normV ty v) := by
  cases ty <;> cases v <;> simp only [wtv, Bool.false_eq_true] at hv
  case i64.int i =>
    simp only [FTy.wconv, wconv, Res.ok.injEq] at hw; subst hw; rfl
  case oi64.oint o =>
    cases o <;> (simp only [FTy.wconv, wconv, Res.ok.injEq] at hw; subst hw; rfl)
  case oi32.oint o =>
    cases o with
    | none => simp only [FTy.wconv, wconv, Res.ok.injEq] at hw; subst hw; rfl
    | some i =>
      simp only [FTy.wconv, wconv, Res.ok.injEq] at hw; subst hw
      simp only [FTy.pty, FTy.rconv, rconv, readOptInt, readInt, Option.map, wrap32_of_in32 hv, normV]
  case str.str s =>
    simp only [FTy.wconv, wconv, Res.ok.injEq] at hw; subst hw; rfl
  case ostr.ostr o =>
    cases o <;> (simp only [FTy.wconv, wconv, Res.ok.injEq] at hw; subst hw; rfl)
  case odbl.oreal o =>
    cases o with
    | none => simp only [FTy.wconv, wconv, Res.ok.injEq] at hw; subst hw; rfl
    | some x =>
      simp only [FTy.wconv, wconv, Res.ok.injEq] at hw; subst hw
      simp only [FTy.pty, FTy.rconv, rconv, normV, readOptReal_storeReal]
  case bool.bool b =>
    simp only [FTy.wconv, wconv, Res.ok.injEq] at hw; subst hw
    cases b <;> rfl
  case time.time ns =>
    simp only [FTy.wconv, wconv, Res.ok.injEq] at hw; subst hw
    simp only [FTy.pty, FTy.rconv, rconv, readInt, toTimePoint_truncSec hv, normV]; rfl
  case otime.otime o =>
    cases o with
    | none => simp only [FTy.wconv, wconv, Res.ok.injEq] at hw; subst hw; rfl
    | some ns =>
      simp only [FTy.wconv, wconv, Res.ok.injEq] at hw; subst hw
      simp only [FTy.pty, FTy.rconv, rconv, readOptInt, readInt, toTimePoint_truncSec hv, normV]; rfl
  case timeText.time ns =>
    simp only [Bool.and_eq_true] at hv
    simp only [FTy.wconv, wconv, Res.ok.injEq] at hw; subst hw
    simp only [FTy.pty, FTy.rconv, rconv, parseFt, toTimePoint_floorSec hv.2, normV]; rfl
  case blob.blob k b =>
    simp only [decide_eq_true_eq] at hv
    simp only [FTy.wconv, wconv] at hw
    split at hw
    · simp only [Res.ok.injEq] at hw; subst hw
      simp only [FTy.pty, FTy.rconv, rconv, fromBlob, hv, if_true, normV]
    · cases hw

/-- The normal form has the declared type again. -/
theorem wtv_normV {ty : FTy} {v : FVal} (hv : wtv ty v = true) : wtv ty (normV ty v) = true := by
  cases ty <;> cases v <;> simp only [wtv, Bool.false_eq_true] at hv
  case i64.int i => exact hv
  case oi64.oint o => exact hv
  case oi32.oint o => exact hv
  case str.str s => rfl
  case ostr.ostr o => rfl
  case odbl.oreal o =>
    cases o with
    | none => rfl
    | some x =>
      simp only [normV]
      split
      · rfl
      · split <;> rfl
  case bool.bool b => rfl
  case time.time ns => exact truncSec_in64 hv
  case otime.otime o =>
    cases o with
    | none => rfl
    | some ns => exact truncSec_in64 hv
  case timeText.time ns =>
    simp only [Bool.and_eq_true] at hv
    simp only [normV, wtv, Bool.and_eq_true, floorSec_idem]
    exact ⟨hv.2, hv.2⟩
  case blob.blob k b => simpa [wtv, normV] using hv

/-! ## assign / evalParams -/

set_option linter.unusedSectionVars false
variable {C F : Type} [DecidableEq C] [DecidableEq F]

theorem nodupB_cons {c : C} {cs : List C} (h : nodupB (c :: cs) = true) : c ∉ cs ∧ nodupB cs = true := by
  simp only [nodupB, Bool.and_eq_true, Bool.not_eq_true', List.contains_eq_mem, decide_eq_false_iff_not] at h
  exact h

theorem assign_not_mem (raw : Raw C) (l : List (C × Val)) (c : C) (h : c ∉ l.map (·.1)) :
    assign raw l c = raw c := by
  induction l generalizing raw with
  | nil => rfl
  | cons p rest ih =>
    obtain ⟨c', v⟩ := p
    simp only [List.map_cons, List.mem_cons, not_or] at h
    simp only [assign]
    rw [ih _ h.2]
    simp only [setCol, if_neg h.1]

theorem assign_mem (raw : Raw C) (l : List (C × Val)) (c : C) (v : Val)
    (hn : nodupB (l.map (·.1)) = true) (h : (c, v) ∈ l) : assign raw l c = v := by
  induction l generalizing raw with
  | nil => cases h
  | cons p rest ih =>
    obtain ⟨c', v'⟩ := p
    simp only [List.map_cons] at hn
    obtain ⟨hnot, hn'⟩ := nodupB_cons hn
    simp only [assign]
    rcases List.mem_cons.mp h with heq | hmem
    · cases heq
      rw [assign_not_mem _ _ _ hnot]
      simp [setCol]
    · exact ih _ hn' hmem

/-- The evaluated parameter list has the statement's columns, in order, and
each value is what its source evaluates to. -/
theorem evalParams_ok {r : Row F} {ps : List (WB C F)} {l : List (C × Val)}
    (h : evalParams r ps = .ok l) :
    l.map (·.1) = ps.map (·.col) ∧
    ∀ p ∈ ps, ∃ v, evalSrc r p.src = .ok v ∧ (p.col, v) ∈ l := by
  induction ps generalizing l with
  | nil =>
    simp only [evalParams, Res.ok.injEq] at h; subst h
    exact ⟨rfl, fun p hp => by cases hp⟩
  | cons p ps ih =>
    simp only [evalParams] at h
    cases hw : evalSrc r p.src with
    | ok v =>
      rw [hw] at h
      cases he : evalParams r ps with
      | ok rest =>
        rw [he] at h
        simp only [Res.ok.injEq] at h; subst h
        obtain ⟨h1, h2⟩ := ih he
        refine ⟨by simp [h1], ?_⟩
        intro q hq
        rcases List.mem_cons.mp hq with rfl | hq'
        · exact ⟨v, hw, List.mem_cons_self⟩
        · obtain ⟨v', hv', hm⟩ := h2 q hq'
          exact ⟨v', hv', List.mem_cons_of_mem _ hm⟩
      | throw e => rw [he] at h; cases h
      | ub u => rw [he] at h; cases h
    | throw e => rw [hw] at h; cases h
    | ub u => rw [hw] at h; cases h

/-- What a write statement leaves in the column of a bound member. -/
theorem assign_evalParams {sp : TSpec C F} {need : List F} {consts : List (C × Val)}
    {ps : List (WB C F)} {r : Row F}
    {l : List (C × Val)} (ha : alignedW sp need consts ps = true) (he : evalParams r ps = .ok l)
    (raw : Raw C) {f : F} (hf : f ∈ need) :
    ∃ v, wconv (sp.tyOf f).wconv (r f) = .ok v ∧ assign raw l (sp.colOf f) = v := by
  simp only [alignedW, Bool.and_eq_true, List.all_eq_true, List.contains_eq_mem,
    decide_eq_true_eq] at ha
  obtain ⟨⟨⟨_, hnd⟩, hneed⟩, _⟩ := ha
  obtain ⟨hcols, hvals⟩ := evalParams_ok he
  have hp := hneed f hf
  obtain ⟨v, hv, hm⟩ := hvals _ hp
  exact ⟨v, hv, assign_mem raw l _ v (by rw [hcols]; exact hnd) hm⟩

/-- What a write statement leaves in the column of a bound constant. -/
theorem assign_evalParams_const {sp : TSpec C F} {need : List F} {consts : List (C × Val)}
    {ps : List (WB C F)} {r : Row F}
    {l : List (C × Val)} (ha : alignedW sp need consts ps = true) (he : evalParams r ps = .ok l)
    (raw : Raw C) {c : C} {v : Val} (hc : (c, v) ∈ consts) :
    assign raw l c = v := by
  simp only [alignedW, Bool.and_eq_true, List.all_eq_true, List.contains_eq_mem,
    decide_eq_true_eq] at ha
  obtain ⟨⟨⟨_, hnd⟩, _⟩, hconst⟩ := ha
  obtain ⟨hcols, hvals⟩ := evalParams_ok he
  have hp := hconst _ hc
  obtain ⟨v', hv', hm⟩ := hvals _ hp
  simp only [evalSrc, Res.ok.injEq] at hv'
  subst hv'
  exact assign_mem raw l _ _ (by rw [hcols]; exact hnd) hm

/-- The columns an aligned write statement names are exactly the columns of
the needed members and of the constants. -/
theorem alignedW_cols {sp : TSpec C F} {need : List F} {consts : List (C × Val)}
    {ps : List (WB C F)} (ha : alignedW sp need consts ps = true) {c : C}
    (hc : c ∈ ps.map (·.col)) : c ∈ need.map sp.colOf ∨ c ∈ consts.map (·.1) := by
  simp only [alignedW, Bool.and_eq_true, List.all_eq_true, List.contains_eq_mem,
    decide_eq_true_eq] at ha
  obtain ⟨⟨⟨hall, _⟩, _⟩, _⟩ := ha
  obtain ⟨p, hp, rfl⟩ := List.mem_map.mp hc
  have := hall p hp
  cases hs : p.src with
  | field f k =>
    rw [hs] at this
    simp only [Bool.and_eq_true, decide_eq_true_eq, List.contains_eq_mem] at this
    left; rw [this.1.1]; exact List.mem_map_of_mem this.2
  | const v =>
    rw [hs] at this
    simp only [List.contains_eq_mem, decide_eq_true_eq] at this
    right; exact List.mem_map.mpr ⟨_, this, rfl⟩

/-- A write statement leaves every column it does not name alone. -/
theorem assign_evalParams_frame {ps : List (WB C F)} {r : Row F} {l : List (C × Val)}
    (he : evalParams r ps = .ok l) (raw : Raw C) {c : C} (hc : c ∉ ps.map (·.col)) :
    assign raw l c = raw c := by
  obtain ⟨hcols, _⟩ := evalParams_ok he
  exact assign_not_mem raw l c (by rw [hcols]; exact hc)

theorem wconv_no_ub (k : WConv) (v : FVal) (u : Ub) : wconv k v ≠ .ub u := by
  intro h
  cases k <;> cases v <;> simp only [wconv] at h <;> (try cases h)
  all_goals first
    | (split at h <;> cases h)
    | (rename_i o; cases o <;> simp only [wconv] at h <;> cases h)

theorem evalSrc_no_ub (r : Row F) (s : WSrc F) (u : Ub) : evalSrc r s ≠ .ub u := by
  cases s with
  | field f k => exact wconv_no_ub _ _ _
  | const v => simp [evalSrc]

/-- Evaluating the parameters never has undefined behaviour. -/
theorem evalParams_no_ub {r : Row F} {ps : List (WB C F)} : ∀ u, evalParams r ps ≠ .ub u := by
  induction ps with
  | nil => intro u; simp [evalParams]
  | cons p ps ih =>
    intro u
    simp only [evalParams]
    cases hw : evalSrc r p.src with
    | ok v =>
      cases he : evalParams r ps with
      | ok rest => simp
      | throw e => simp
      | ub u' => exact absurd he (ih u')
    | throw e => simp
    | ub u' => exact absurd hw (evalSrc_no_ub _ _ _)

/-! ## readRow -/

theorem readRow_ok {raw : Raw C} {sel : List (RB C F)} {g : Row F}
    (h : readRow raw sel = .ok g) (hn : nodupB (sel.map (·.field)) = true) :
    ∀ b ∈ sel, readSrc raw b.src = .ok (g b.field) := by
  induction sel generalizing g with
  | nil => intro b hb; cases hb
  | cons b bs ih =>
    simp only [List.map_cons] at hn
    obtain ⟨hnot, hn'⟩ := nodupB_cons hn
    simp only [readRow] at h
    cases hs : readSrc raw b.src with
    | ok v =>
      rw [hs] at h
      cases hr : readRow raw bs with
      | ok g' =>
        rw [hr] at h
        simp only [Res.ok.injEq] at h; subst h
        intro q hq
        rcases List.mem_cons.mp hq with rfl | hq'
        · simp only [if_true]; exact hs
        · have hne : q.field ≠ b.field := fun heq => hnot (by rw [← heq]; exact List.mem_map_of_mem hq')
          simp only [if_neg hne]
          exact ih hr hn' q hq'
      | throw e => rw [hr] at h; cases h
      | ub u => rw [hr] at h; cases h
    | throw e => rw [hs] at h; cases h
    | ub u => rw [hs] at h; cases h

/-- `readRow` succeeds when every source does. -/
theorem readRow_of_all {raw : Raw C} {sel : List (RB C F)}
    (h : ∀ b ∈ sel, ∃ v, readSrc raw b.src = .ok v) : ∃ g, readRow raw sel = .ok g := by
  induction sel with
  | nil => exact ⟨_, rfl⟩
  | cons b bs ih =>
    obtain ⟨v, hv⟩ := h b List.mem_cons_self
    obtain ⟨g, hg⟩ := ih (fun q hq => h q (List.mem_cons_of_mem _ hq))
    exact ⟨fun f => if f = b.field then v else g f, by simp only [readRow, hv, hg]⟩

end Table
end EngineModel

namespace EngineModel
namespace Table

set_option linter.unusedSectionVars false
variable {C F : Type} [DecidableEq C] [DecidableEq F]

/-! ## aligned SELECT: the whole row at once -/

/-- The source an aligned `SELECT` reads member `f` from. -/
def expectedSrc (sp : TSpec C F) (present : F → Bool) (f : F) : RSrc C :=
  if present f then .col (sp.colOf f) (sp.tyOf f).pty (sp.tyOf f).rconv else absentSrc (sp.tyOf f)

theorem alignedR_fields {sp : TSpec C F} {present : F → Bool} {sel : List (RB C F)}
    (har : alignedR sp present sel = true) : sel.map (·.field) = sp.fields := by
  simp only [alignedR, Bool.and_eq_true, decide_eq_true_eq] at har
  exact har.1

theorem alignedR_src {sp : TSpec C F} {present : F → Bool} {sel : List (RB C F)}
    (har : alignedR sp present sel = true) {b : RB C F} (hb : b ∈ sel) :
    b.src = expectedSrc sp present b.field := by
  simp only [alignedR, Bool.and_eq_true, decide_eq_true_eq, List.all_eq_true] at har
  exact har.2 b hb

/-- An aligned `SELECT` over a raw row from which every member's expected
source reads `target f` returns exactly `target`. -/
theorem readRow_aligned {sp : TSpec C F} {present : F → Bool} {sel : List (RB C F)} {raw : Raw C}
    (target : Row F) (har : alignedR sp present sel = true)
    (hnd : nodupB sp.fields = true) (hall : ∀ f, f ∈ sp.fields)
    (h : ∀ f, readSrc raw (expectedSrc sp present f) = .ok (target f)) :
    readRow raw sel = .ok target := by
  have hsrc : ∀ b ∈ sel, readSrc raw b.src = .ok (target b.field) := by
    intro b hb
    rw [alignedR_src har hb]; exact h b.field
  obtain ⟨g, hg⟩ := readRow_of_all (raw := raw) (sel := sel) (fun b hb => ⟨_, hsrc b hb⟩)
  rw [hg]
  congr 1
  funext f
  have hf : f ∈ sel.map (·.field) := by rw [alignedR_fields har]; exact hall f
  obtain ⟨b, hb, rfl⟩ := List.mem_map.mp hf
  have h1 := readRow_ok hg (by rw [alignedR_fields har]; exact hnd) b hb
  rw [hsrc b hb] at h1
  simp only [Res.ok.injEq] at h1
  exact h1.symm

/-- What an aligned write followed by an aligned read yields for one member. -/
theorem read_after_write {sp : TSpec C F} {need : List F} {consts : List (C × Val)}
    {ps : List (WB C F)} {r : Row F} {l : List (C × Val)}
    (ha : alignedW sp need consts ps = true) (he : evalParams r ps = .ok l)
    (base raw : Raw C) {f : F} (hf : f ∈ need) (hwt : wtv (sp.tyOf f) (r f) = true)
    (hraw : raw (sp.colOf f) = assign base l (sp.colOf f)) :
    readSrc raw (.col (sp.colOf f) (sp.tyOf f).pty (sp.tyOf f).rconv) = .ok (normV (sp.tyOf f) (r f)) := by
  obtain ⟨v, hv, hcol⟩ := assign_evalParams ha he base hf
  simp only [readSrc, hraw, hcol]
  exact conv_roundtrip hwt hv

/-- The columns an aligned write names (no constants): columns of needed members. -/
theorem evalParams_cols_need {sp : TSpec C F} {need : List F}
    {ps : List (WB C F)} {r : Row F} {l : List (C × Val)}
    (ha : alignedW sp need [] ps = true) (he : evalParams r ps = .ok l) {c : C}
    (hc : c ∈ l.map (·.1)) : c ∈ need.map sp.colOf := by
  rw [(evalParams_ok he).1] at hc
  rcases alignedW_cols ha hc with h | h
  · exact h
  · simp at h

theorem absentSrc_read (raw : Raw C) (ty : FTy) :
    readSrc raw (absentSrc ty : RSrc C) =
      .ok (match ty with | .time | .timeText => .time 0 | _ => .oint none) := by
  cases ty <;> rfl

end Table
end EngineModel

namespace EngineModel
namespace Table
set_option linter.unusedSectionVars false
variable {C F : Type} [DecidableEq C] [DecidableEq F]

/-- An aligned write names the column of every needed member. -/
theorem alignedW_mem {sp : TSpec C F} {need : List F} {consts : List (C × Val)} {ps : List (WB C F)}
    (ha : alignedW sp need consts ps = true) {f : F} (hf : f ∈ need) : sp.colOf f ∈ ps.map (·.col) := by
  simp only [alignedW, Bool.and_eq_true, List.all_eq_true, List.contains_eq_mem,
    decide_eq_true_eq] at ha
  obtain ⟨⟨⟨_, _⟩, hneed⟩, _⟩ := ha
  exact List.mem_map.mpr ⟨_, hneed f hf, rfl⟩

end Table
end EngineModel

namespace EngineModel
namespace Table
set_option linter.unusedSectionVars false
variable {C F : Type} [DecidableEq C] [DecidableEq F]

/-- What an aligned `SELECT` that returned `g` read for member `f`. -/
theorem readRow_aligned_inv {sp : TSpec C F} {present : F → Bool} {sel : List (RB C F)} {raw : Raw C}
    {g : Row F} (har : alignedR sp present sel = true) (hnd : nodupB sp.fields = true)
    (h : readRow raw sel = .ok g) {f : F} (hf : f ∈ sp.fields) :
    readSrc raw (expectedSrc sp present f) = .ok (g f) := by
  have hf' : f ∈ sel.map (·.field) := by rw [alignedR_fields har]; exact hf
  obtain ⟨b, hb, rfl⟩ := List.mem_map.mp hf'
  have h1 := readRow_ok h (by rw [alignedR_fields har]; exact hnd) b hb
  rw [alignedR_src har hb] at h1
  exact h1

/-- The expected source of a member looks at that member's column only. -/
theorem readSrc_congr {sp : TSpec C F} {present : F → Bool} {raw1 raw2 : Raw C} {f : F}
    (h : raw1 (sp.colOf f) = raw2 (sp.colOf f)) :
    readSrc raw1 (expectedSrc sp present f) = readSrc raw2 (expectedSrc sp present f) := by
  unfold expectedSrc
  split
  · simp only [readSrc, h]
  · cases sp.tyOf f <;> rfl

end Table
end EngineModel
