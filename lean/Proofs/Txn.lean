/-
Helper lemmas for C14 / C16 / C10 about `EngineModel.Spec.Txn`
(Mathlib-free).
-/
import EngineModel.Spec.Txn

namespace EngineModel.Proofs.Txn
open EngineModel.Spec.Txn
variable {α : Type}

/-- The shape monitor's state describes the state of the run. -/
structure TInv (s : ShapeSt) (scopes : Nat) (c : Conn α) (db0 : α) : Prop where
  open_ : s.inTxn = true → ∃ w, c.working = some w ∧ (s.pending = false → w = c.committed)
  closed : s.inTxn = false → c.working = none
  scopes_eq : scopes = if s.inTxn then 1 else 0
  untouched : s.effected = false → c.committed = db0

def injectedAt (fault : Option Nat) (k : CmdKind) (seen : Nat) : Bool := faultable k && (fault == some seen)
def seenAfter (k : CmdKind) (seen : Nat) : Nat := if faultable k then seen + 1 else seen
def raiseConn (auto : Bool) (c : Conn α) (scopes : Nat) : Conn α :=
  unwind (if auto then ⟨c.committed, none⟩ else c) scopes

theorem exec_cons_ok (fault : Option Nat) (auto : Bool) (cmd : Cmd α) (rest : List (Cmd α))
    (seen scopes : Nat) (c c' : Conn α)
    (hi : injectedAt fault cmd.kind seen = false) (hs : stepStmt c cmd = some c') :
    exec fault auto (cmd :: rest) seen scopes c =
      (exec fault auto rest (seenAfter cmd.kind seen) (scopesAfter cmd.kind scopes) c').cons ⟨cmd.kind, false⟩ := by
  simp only [injectedAt] at hi
  simp [exec, hi, hs, seenAfter]

theorem exec_cons_fail (fault : Option Nat) (auto : Bool) (cmd : Cmd α) (rest : List (Cmd α))
    (seen scopes : Nat) (c : Conn α)
    (h : injectedAt fault cmd.kind seen = true ∨ stepStmt c cmd = none) :
    (exec fault auto (cmd :: rest) seen scopes c).raised = true ∧
    (exec fault auto (cmd :: rest) seen scopes c).conn = raiseConn auto c scopes := by
  simp only [injectedAt] at h
  rcases h with h | h
  · simp [exec, h, raiseConn]
  · have : (if (faultable cmd.kind && fault == some seen) = true then (none : Option (Conn α)) else none) = none := by
      split <;> rfl
    simp [exec, h, raiseConn]

theorem raise_idle (auto : Bool) (s : ShapeSt) (scopes : Nat) (c : Conn α) (db0 : α)
    (hinv : TInv s scopes c db0) (he : s.effected = false) :
    raiseConn auto c scopes = Conn.idle db0 := by
  obtain ⟨ho, hc, hsc, hu⟩ := hinv
  have := hu he
  rcases c with ⟨cm, wk⟩
  simp only at this
  subst this
  cases ht : s.inTxn
  · have := hc ht
    simp only at this
    subst this
    simp [raiseConn, unwind, Conn.idle, hsc, ht]
  · cases auto <;> simp [raiseConn, unwind, Conn.idle, hsc, ht]

theorem step_ok (fault : Option Nat) (auto : Bool) (db0 : α)
    (cmd : Cmd α) (rest : List (Cmd α)) (s s1 : ShapeSt) (seen scopes : Nat) (c : Conn α)
    (hinv : TInv s scopes c db0) (hstep : shapeStep s cmd.kind = some s1) :
    (∃ c', TInv s1 (scopesAfter cmd.kind scopes) c' db0 ∧
       exec fault auto (cmd :: rest) seen scopes c =
         (exec fault auto rest (seenAfter cmd.kind seen) (scopesAfter cmd.kind scopes) c').cons ⟨cmd.kind, false⟩) ∨
    ((exec fault auto (cmd :: rest) seen scopes c).raised = true ∧
      (exec fault auto (cmd :: rest) seen scopes c).conn = Conn.idle db0 ∧
      (fault = none → ¬ cmd.total)) := by
  by_cases hi : injectedAt fault cmd.kind seen = true
  · right
    have hf := exec_cons_fail fault auto cmd rest seen scopes c (Or.inl hi)
    have he : s.effected = false := by
      simp only [injectedAt, Bool.and_eq_true] at hi
      cases hee : s.effected
      · rfl
      · simp [shapeStep, hee, hi.1] at hstep
    refine ⟨hf.1, ?_, ?_⟩
    · rw [hf.2]; exact raise_idle auto s scopes c db0 hinv he
    · intro hn; subst hn; simp [injectedAt] at hi
  · simp only [Bool.not_eq_true] at hi
    have hinv' := hinv
    obtain ⟨ho, hc, hsc, hu⟩ := hinv
    rcases s with ⟨t, p, e⟩
    rcases c with ⟨cm, wk⟩
    cases cmd with
    | begin =>
      cases e <;> cases t <;> simp [Cmd.kind, shapeStep, faultable] at hstep
      subst hstep
      simp at hc hu hsc
      subst hc hu hsc
      left
      refine ⟨⟨cm, some cm⟩, ⟨by simp, by simp, by simp [scopesAfter, Cmd.kind], by simp⟩, ?_⟩
      exact exec_cons_ok fault auto _ rest seen 0 _ _ hi (by simp [stepStmt])
    | commit =>
      cases e <;> cases t <;> simp [Cmd.kind, shapeStep, faultable] at hstep
      subst hstep
      simp at ho hu hsc
      obtain ⟨w, hw, hp⟩ := ho
      subst hw hu hsc
      left
      refine ⟨⟨w, none⟩, ⟨by simp, by simp, by simp [scopesAfter, Cmd.kind], ?_⟩, ?_⟩
      · intro h; simp at h; simp [hp h]
      · exact exec_cons_ok fault auto _ rest seen 1 _ _ hi (by simp [stepStmt])
    | rollback =>
      simp [Cmd.kind, shapeStep, faultable] at hstep
      subst hstep
      left
      refine ⟨⟨cm, none⟩, ⟨by simp, by simp, ?_, by simpa using hu⟩, ?_⟩
      · cases t <;> simp_all [scopesAfter, Cmd.kind]
      · exact exec_cons_ok fault auto _ rest seen scopes _ _ hi (by simp [stepStmt])
    | write f =>
      cases e <;> simp [Cmd.kind, shapeStep, faultable] at hstep
      cases t <;> simp at hstep <;> subst hstep
      · -- autocommit write
        simp at hc hu hsc
        subst hc hu hsc
        cases hf : f cm with
        | none =>
          right
          have hfail := exec_cons_fail fault auto (Cmd.write f) rest seen 0 ⟨cm, none⟩ (Or.inr (by simp [stepStmt, hf]))
          refine ⟨hfail.1, ?_, ?_⟩
          · rw [hfail.2]; exact raise_idle auto _ _ _ _ hinv' rfl
          · intro _ htot; have := htot cm; simp [hf] at this
        | some d =>
          left
          refine ⟨⟨d, none⟩, ⟨by simp, by simp, by simp [scopesAfter, Cmd.kind], by simp⟩, ?_⟩
          exact exec_cons_ok fault auto _ rest seen 0 _ _ hi (by simp [stepStmt, hf])
      · -- write inside the scope
        simp at ho hu hsc
        obtain ⟨w, hw, hp⟩ := ho
        subst hw hu hsc
        cases hf : f w with
        | none =>
          right
          have hfail := exec_cons_fail fault auto (Cmd.write f) rest seen 1 ⟨cm, some w⟩ (Or.inr (by simp [stepStmt, hf]))
          refine ⟨hfail.1, ?_, ?_⟩
          · rw [hfail.2]; exact raise_idle auto _ _ _ _ hinv' rfl
          · intro _ htot; have := htot w; simp [hf] at this
        | some w' =>
          left
          refine ⟨⟨cm, some w'⟩, ⟨by simp, by simp, by simp [scopesAfter, Cmd.kind], by simp⟩, ?_⟩
          exact exec_cons_ok fault auto _ rest seen 1 _ _ hi (by simp [stepStmt, hf])
    | read =>
      simp [Cmd.kind, shapeStep, faultable] at hstep
      subst hstep
      left
      exact ⟨⟨cm, wk⟩, by simpa [scopesAfter, Cmd.kind] using hinv', exec_cons_ok fault auto _ rest seen scopes _ _ hi (by simp [stepStmt])⟩

theorem TInv.init (db : α) : TInv ShapeSt.init 0 (Conn.idle db) db :=
  ⟨by simp [ShapeSt.init], by simp [ShapeSt.init, Conn.idle], by simp [ShapeSt.init],
   by simp [Conn.idle]⟩

/-- Soundness core, by induction over the call. -/
theorem sound_aux (fault : Option Nat) (auto : Bool) (db0 : α) :
    ∀ (cs : List (Cmd α)) (s s' : ShapeSt) (seen scopes : Nat) (c : Conn α),
      TInv s scopes c db0 → shapeRun s (cs.map Cmd.kind) = some s' →
      ((exec fault auto cs seen scopes c).raised = true →
          (exec fault auto cs seen scopes c).conn = Conn.idle db0) ∧
      ((exec fault auto cs seen scopes c).raised = false → s'.inTxn = false →
          (exec fault auto cs seen scopes c).conn.working = none) ∧
      (fault = none → (∀ x ∈ cs, x.total) → (exec fault auto cs seen scopes c).raised = false) := by
  intro cs
  induction cs with
  | nil =>
    intro s s' seen scopes c hinv hs
    simp [shapeRun] at hs
    subst hs
    simp [exec]
    exact hinv.closed
  | cons cmd rest ih =>
    intro s s' seen scopes c hinv hs
    simp only [List.map_cons, shapeRun] at hs
    split at hs
    · rename_i s1 hstep
      rcases step_ok fault auto db0 cmd rest s s1 seen scopes c hinv hstep with ⟨c', hinv', heq⟩ | ⟨hr, hc, hn⟩
      · have := ih s1 s' (seenAfter cmd.kind seen) (scopesAfter cmd.kind scopes) c' hinv' hs
        rw [heq]
        simp only [Outcome.cons_conn, Outcome.cons_raised]
        refine ⟨this.1, this.2.1, ?_⟩
        intro hf htot
        exact this.2.2 hf (fun x hx => htot x (List.mem_cons_of_mem _ hx))
      · refine ⟨fun _ => hc, ?_, ?_⟩
        · intro h; rw [hr] at h; cases h
        · intro hf htot
          exact absurd (htot cmd List.mem_cons_self) (hn hf)
    · cases hs

/-! ### any run: a step either continues or raises -/

theorem exec_cons_cases (fault : Option Nat) (auto : Bool) (cmd : Cmd α) (rest : List (Cmd α))
    (seen scopes : Nat) (c : Conn α) :
    (∃ c', injectedAt fault cmd.kind seen = false ∧ stepStmt c cmd = some c' ∧
      exec fault auto (cmd :: rest) seen scopes c =
        (exec fault auto rest (seenAfter cmd.kind seen) (scopesAfter cmd.kind scopes) c').cons ⟨cmd.kind, false⟩) ∨
    ((exec fault auto (cmd :: rest) seen scopes c).raised = true ∧
      (exec fault auto (cmd :: rest) seen scopes c).conn = raiseConn auto c scopes) := by
  cases hi : injectedAt fault cmd.kind seen
  · cases hs : stepStmt c cmd with
    | none => exact Or.inr (exec_cons_fail fault auto cmd rest seen scopes c (Or.inr hs))
    | some c' => exact Or.inl ⟨c', rfl, rfl, exec_cons_ok fault auto cmd rest seen scopes c c' hi hs⟩
  · exact Or.inr (exec_cons_fail fault auto cmd rest seen scopes c (Or.inl hi))

/-- Link between the C++ scope objects and the connection: holds at the start of
every public call and is kept by every successful statement. -/
def Linked (scopes : Nat) (c : Conn α) : Prop :=
  (scopes = 0 ∧ c.working = none) ∨ (scopes = 1 ∧ c.working.isSome = true)

theorem Linked.step {cmd : Cmd α} {scopes : Nat} {c c' : Conn α}
    (hl : Linked scopes c) (hs : stepStmt c cmd = some c') : Linked (scopesAfter cmd.kind scopes) c' := by
  rcases c with ⟨cm, wk⟩
  rcases hl with ⟨h0, hw⟩ | ⟨h1, hw⟩
  · simp only at hw
    subst h0 hw
    cases cmd <;> simp [stepStmt] at hs
    · subst hs; right; simp [scopesAfter, Cmd.kind]
    · subst hs; left; simp [scopesAfter, Cmd.kind]
    · rename_i f
      obtain ⟨d, _, hd⟩ := hs
      subst hd; left; simp [scopesAfter, Cmd.kind]
    · subst hs; left; simp [scopesAfter, Cmd.kind]
  · simp only at hw
    obtain ⟨w, hw⟩ := Option.isSome_iff_exists.mp hw
    subst h1 hw
    cases cmd <;> simp [stepStmt] at hs
    · subst hs; left; simp [scopesAfter, Cmd.kind]
    · subst hs; left; simp [scopesAfter, Cmd.kind]
    · rename_i f
      obtain ⟨d, _, hd⟩ := hs
      subst hd; right; simp [scopesAfter, Cmd.kind]
    · subst hs; right; simp [scopesAfter, Cmd.kind]

theorem raiseConn_working (auto : Bool) (scopes : Nat) (c : Conn α) (hl : Linked scopes c) :
    (raiseConn auto c scopes).working = none ∧ (raiseConn auto c scopes).committed = c.committed := by
  rcases hl with ⟨h0, hw⟩ | ⟨h1, _⟩
  · subst h0; cases auto <;> simp [raiseConn, unwind, hw]
  · subst h1; cases auto <;> simp [raiseConn, unwind]

/-- Whatever the call is: when it raises, no transaction is left open. -/
theorem raise_autocommit (fault : Option Nat) (auto : Bool) :
    ∀ (cs : List (Cmd α)) (seen scopes : Nat) (c : Conn α), Linked scopes c →
      (exec fault auto cs seen scopes c).raised = true →
      (exec fault auto cs seen scopes c).conn.working = none := by
  intro cs
  induction cs with
  | nil => intro seen scopes c _ h; simp [exec] at h
  | cons cmd rest ih =>
    intro seen scopes c hl h
    rcases exec_cons_cases fault auto cmd rest seen scopes c with ⟨c', _, hs, heq⟩ | ⟨_, hc⟩
    · rw [heq] at h ⊢
      exact ih _ _ c' (hl.step hs) h
    · rw [hc]; exact (raiseConn_working auto scopes c hl).1

/-! ### what a completed call has made durable -/

theorem applyAll_append (p q : List (α → Option α)) (a : α) :
    applyAll (p ++ q) a = (applyAll p a).bind (applyAll q) := by
  induction p generalizing a with
  | nil => simp [applyAll]
  | cons f p ih =>
    simp only [List.cons_append, applyAll]
    cases f a <;> simp [ih]

/-- `p` = the writes of the open scope, already applied to the working copy. -/
def PendLink (p : List (α → Option α)) (t : Bool) (c : Conn α) : Prop :=
  (t = true → ∃ w, c.working = some w ∧ applyAll p c.committed = some w) ∧
  (t = false → c.working = none)

theorem durable_aux (fault : Option Nat) (auto : Bool) :
    ∀ (cs : List (Cmd α)) (p : List (α → Option α)) (t : Bool) (seen scopes : Nat) (c : Conn α),
      PendLink p t c → (exec fault auto cs seen scopes c).raised = false →
      applyAll (effWrites cs p t) c.committed = some (exec fault auto cs seen scopes c).conn.committed := by
  intro cs
  induction cs with
  | nil => intro p t seen scopes c _ _; simp [exec, effWrites, applyAll]
  | cons cmd rest ih =>
    intro p t seen scopes c hl h
    rcases exec_cons_cases fault auto cmd rest seen scopes c with ⟨c', _, hs, heq⟩ | ⟨hr, _⟩
    · rw [heq] at h ⊢
      simp only [Outcome.cons_conn, Outcome.cons_raised] at h ⊢
      rcases c with ⟨cm, wk⟩
      obtain ⟨ht, hf⟩ := hl
      cases cmd with
      | begin =>
        cases wk <;> simp [stepStmt] at hs
        subst hs
        have := ih [] true (seenAfter .begin seen) (scopesAfter .begin scopes) ⟨cm, some cm⟩
          ⟨by intro _; exact ⟨cm, rfl, rfl⟩, by simp⟩ h
        simpa [effWrites, Cmd.kind] using this
      | commit =>
        cases wk <;> simp [stepStmt] at hs
        rename_i w
        subst hs
        cases t
        · have := hf rfl; simp at this
        · obtain ⟨w', hw', hp⟩ := ht rfl
          simp at hw'
          subst hw'
          have := ih [] false (seenAfter .commit seen) (scopesAfter .commit scopes) ⟨w, none⟩
            ⟨by simp, by simp⟩ h
          simp only [effWrites, applyAll_append, hp, Option.bind_some]
          simpa [Cmd.kind] using this
      | rollback =>
        simp [stepStmt] at hs
        subst hs
        have := ih [] false (seenAfter .rollback seen) (scopesAfter .rollback scopes) ⟨cm, none⟩
          ⟨by simp, by simp⟩ h
        simpa [effWrites, Cmd.kind] using this
      | write f =>
        cases t
        · have hw := hf rfl
          simp only at hw
          subst hw
          simp [stepStmt] at hs
          obtain ⟨d, hd, hc'⟩ := hs
          subst hc'
          have := ih p false (seenAfter .write seen) (scopesAfter .write scopes) ⟨d, none⟩
            ⟨by simp, by simp⟩ h
          simp only [effWrites, applyAll, hd, Option.bind_some]
          simpa [Cmd.kind] using this
        · obtain ⟨w, hw, hp⟩ := ht rfl
          simp only at hw hp
          subst hw
          simp [stepStmt] at hs
          obtain ⟨w', hd, hc'⟩ := hs
          subst hc'
          have := ih (p ++ [f]) true (seenAfter .write seen) (scopesAfter .write scopes) ⟨cm, some w'⟩
            ⟨by intro _; exact ⟨w', rfl, by simp [applyAll_append, hp, applyAll, hd]⟩, by simp⟩ h
          simpa [effWrites, Cmd.kind] using this
      | read =>
        simp [stepStmt] at hs
        subst hs
        have := ih p t (seenAfter .read seen) (scopesAfter .read scopes) ⟨cm, wk⟩ ⟨ht, hf⟩ h
        simpa [effWrites, Cmd.kind] using this
    · rw [hr] at h; cases h

/-! ### completeness of the monitor (counter model: every write increments) -/

theorem incCmds_kind (ks : List CmdKind) : (incCmds ks).map Cmd.kind = ks := by
  induction ks with
  | nil => rfl
  | cons k ks ih => cases k <;> simp [incCmds, Cmd.kind, ih]

/-- What makes a run a witness against atomicity. -/
def Bad (fault : Option Nat) (r : Outcome Nat) : Prop :=
  (r.raised = true ∧ r.conn.committed ≠ 0) ∨
  (fault = none ∧ r.raised = true) ∨
  (r.raised = false ∧ r.conn.working ≠ none)

/-- Monitor state vs. run state in the counter model. -/
structure CInv (s : ShapeSt) (scopes : Nat) (c : Conn Nat) : Prop where
  open_ : s.inTxn = true → ∃ w, c.working = some w ∧ (s.pending = false → w = c.committed) ∧
            (s.pending = true → w ≠ 0)
  closed : s.inTxn = false → c.working = none
  scopes_eq : scopes = if s.inTxn then 1 else 0
  untouched : s.effected = false → c.committed = 0
  touched : s.effected = true → c.committed ≠ 0

theorem cstep_ok (k : CmdKind) (ks : List CmdKind) (s s1 : ShapeSt)
    (seen scopes : Nat) (c : Conn Nat) (hinv : CInv s scopes c) (hstep : shapeStep s k = some s1) :
    ∃ c', CInv s1 (scopesAfter k scopes) c' ∧
      ∀ fault, injectedAt fault k seen = false →
      exec fault false (incCmds (k :: ks)) seen scopes c =
        (exec fault false (incCmds ks) (seenAfter k seen) (scopesAfter k scopes) c').cons ⟨k, false⟩ := by
  obtain ⟨ho, hc, hsc, hu, htc⟩ := hinv
  rcases s with ⟨t, p, e⟩
  rcases c with ⟨cm, wk⟩
  cases k with
  | begin =>
    cases e <;> cases t <;> simp [shapeStep, faultable] at hstep
    subst hstep
    simp at hc hu hsc
    subst hc hu hsc
    refine ⟨⟨0, some 0⟩, ⟨by simp, by simp, by simp [scopesAfter], by simp, by simp⟩, ?_⟩
    intro fault hi; exact exec_cons_ok fault false Cmd.begin (incCmds ks) seen 0 _ _ hi (by simp [stepStmt])
  | commit =>
    cases e <;> cases t <;> simp [shapeStep, faultable] at hstep
    subst hstep
    simp at ho hu hsc
    obtain ⟨w, hw, hp, hq⟩ := ho
    subst hw hu hsc
    refine ⟨⟨w, none⟩, ⟨by simp, by simp, by simp [scopesAfter], ?_, ?_⟩, ?_⟩
    · intro h; simp at h; simp [hp h]
    · intro h; simp at h; simpa using hq h
    · intro fault hi; exact exec_cons_ok fault false Cmd.commit (incCmds ks) seen 1 _ _ hi (by simp [stepStmt])
  | rollback =>
    simp [shapeStep, faultable] at hstep
    subst hstep
    refine ⟨⟨cm, none⟩, ⟨by simp, by simp, ?_, by simpa using hu, by simpa using htc⟩, ?_⟩
    · cases t <;> simp_all [scopesAfter]
    · intro fault hi; exact exec_cons_ok fault false Cmd.rollback (incCmds ks) seen scopes _ _ hi (by simp [stepStmt])
  | write =>
    cases e <;> simp [shapeStep, faultable] at hstep
    cases t <;> simp at hstep <;> subst hstep
    · simp at hc hu hsc
      subst hc hu hsc
      refine ⟨⟨1, none⟩, ⟨by simp, by simp, by simp [scopesAfter], by simp, by simp⟩, ?_⟩
      intro fault hi; exact exec_cons_ok fault false (Cmd.write _) (incCmds ks) seen 0 _ _ hi (by simp [stepStmt])
    · simp at ho hu hsc
      obtain ⟨w, hw, _, _⟩ := ho
      subst hw hu hsc
      refine ⟨⟨0, some (w + 1)⟩, ⟨by simp, by simp, by simp [scopesAfter], by simp, by simp⟩, ?_⟩
      intro fault hi; exact exec_cons_ok fault false (Cmd.write _) (incCmds ks) seen 1 _ _ hi (by simp [stepStmt])
  | read =>
    simp [shapeStep, faultable] at hstep
    subst hstep
    exact ⟨⟨cm, wk⟩, ⟨by simpa using ho, by simpa using hc, by simpa [scopesAfter] using hsc,
      by simpa using hu, by simpa using htc⟩,
      fun fault hi => exec_cons_ok fault false Cmd.read (incCmds ks) seen scopes _ _ hi (by simp [stepStmt])⟩

theorem seenAfter_ge (k : CmdKind) (seen : Nat) : seen ≤ seenAfter k seen := by
  unfold seenAfter; split <;> omega

theorem not_injected_of_later (fault : Option Nat) (k : CmdKind) (seen : Nat)
    (h : fault = none ∨ ∃ j, fault = some j ∧ seenAfter k seen ≤ j) :
    injectedAt fault k seen = false := by
  rcases h with h | ⟨j, hj, hle⟩
  · subst h; simp [injectedAt]
  · subst hj
    unfold injectedAt seenAfter at *
    cases hf : faultable k
    · simp
    · simp [hf] at hle ⊢; omega

/-- Completeness core: if the monitor rejects the rest of the call, some fault
plan (not touching earlier statements) makes the run a witness. -/
theorem complete_aux :
    ∀ (ks : List CmdKind) (s : ShapeSt) (seen scopes : Nat) (c : Conn Nat), CInv s scopes c →
      (shapeRun s ks = none ∨ ∃ s', shapeRun s ks = some s' ∧ s'.inTxn = true) →
      ∃ fault, (fault = none ∨ ∃ j, fault = some j ∧ seen ≤ j) ∧
        Bad fault (exec fault false (incCmds ks) seen scopes c) := by
  intro ks
  induction ks with
  | nil =>
    intro s seen scopes c hinv h
    rcases h with h | ⟨s', h, ht⟩
    · simp [shapeRun] at h
    · simp [shapeRun] at h
      subst h
      obtain ⟨w, hw, _⟩ := hinv.open_ ht
      exact ⟨none, Or.inl rfl, Or.inr (Or.inr ⟨by simp [exec, incCmds], by simp [exec, incCmds, hw]⟩)⟩
  | cons k ks ih =>
    intro s seen scopes c hinv h
    cases hstep : shapeStep s k with
    | some s1 =>
      have h' : shapeRun s1 ks = none ∨ ∃ s', shapeRun s1 ks = some s' ∧ s'.inTxn = true := by
        simpa [shapeRun, hstep] using h
      obtain ⟨c0, hinv1, hexec⟩ := cstep_ok k ks s s1 seen scopes c hinv hstep
      obtain ⟨fault, hlate, hbad⟩ := ih s1 (seenAfter k seen) (scopesAfter k scopes) c0 hinv1 h'
      have hlate' : fault = none ∨ ∃ j, fault = some j ∧ seenAfter k seen ≤ j := hlate
      have hi := not_injected_of_later fault k seen hlate'
      refine ⟨fault, ?_, ?_⟩
      · rcases hlate with h0 | ⟨j, hj, hle⟩
        · exact Or.inl h0
        · exact Or.inr ⟨j, hj, Nat.le_trans (seenAfter_ge k seen) hle⟩
      · rw [hexec fault hi]
        simpa [Bad] using hbad
    | none =>
      -- the monitor rejects this very statement
      obtain ⟨ho, hc, hsc, hu, htc⟩ := hinv
      rcases s with ⟨t, p, e⟩
      rcases c with ⟨cm, wk⟩
      cases e
      · -- nothing durable yet: the statement is ill-bracketed and fails by itself
        cases k <;> cases t <;> simp [shapeStep, faultable] at hstep
        · -- begin inside a scope
          simp at ho
          obtain ⟨w, hw, _⟩ := ho
          subst hw
          have := exec_cons_fail none false Cmd.begin (incCmds ks) seen scopes ⟨cm, some w⟩
            (Or.inr (by simp [stepStmt]))
          exact ⟨none, Or.inl rfl, Or.inr (Or.inl ⟨rfl, by simpa [incCmds] using this.1⟩)⟩
        · -- commit outside a scope
          simp at hc
          subst hc
          have := exec_cons_fail none false Cmd.commit (incCmds ks) seen scopes ⟨cm, none⟩
            (Or.inr (by simp [stepStmt]))
          exact ⟨none, Or.inl rfl, Or.inr (Or.inl ⟨rfl, by simpa [incCmds] using this.1⟩)⟩
      · -- something is durable and this statement can fail: inject the fault here
        have hk : faultable k = true := by
          cases hf : faultable k
          · cases k <;> simp [shapeStep, faultable] at hstep hf
          · rfl
        have hcm : cm ≠ 0 := by simpa using htc
        have hinj : injectedAt (some seen) k seen = true := by simp [injectedAt, hk]
        refine ⟨some seen, Or.inr ⟨seen, rfl, Nat.le_refl _⟩, Or.inl ?_⟩
        have hl : Linked scopes (⟨cm, wk⟩ : Conn Nat) := by
          cases t
          · left; simp at hc hsc; exact ⟨hsc, hc⟩
          · right; simp at ho hsc; obtain ⟨w, hw, _⟩ := ho; exact ⟨hsc, by simp [hw]⟩
        cases k <;> simp [faultable] at hk
        · have := exec_cons_fail (some seen) false Cmd.begin (incCmds ks) seen scopes ⟨cm, wk⟩ (Or.inl hinj)
          refine ⟨by simpa [incCmds] using this.1, ?_⟩
          have h2 := this.2
          simp only [incCmds]
          rw [h2, (raiseConn_working false scopes _ hl).2]
          exact hcm
        · have := exec_cons_fail (some seen) false Cmd.commit (incCmds ks) seen scopes ⟨cm, wk⟩ (Or.inl hinj)
          refine ⟨by simpa [incCmds] using this.1, ?_⟩
          have h2 := this.2
          simp only [incCmds]
          rw [h2, (raiseConn_working false scopes _ hl).2]
          exact hcm
        · have := exec_cons_fail (some seen) false (Cmd.write (fun n => some (n + 1))) (incCmds ks) seen scopes
            ⟨cm, wk⟩ (Or.inl hinj)
          refine ⟨by simpa [incCmds] using this.1, ?_⟩
          have h2 := this.2
          simp only [incCmds]
          rw [h2, (raiseConn_working false scopes _ hl).2]
          exact hcm

theorem CInv.init : CInv ShapeSt.init 0 (Conn.idle 0) :=
  ⟨by simp [ShapeSt.init], by simp [ShapeSt.init, Conn.idle], by simp [ShapeSt.init],
   by simp [Conn.idle], by simp [ShapeSt.init]⟩

theorem Linked.idle (db : α) : Linked 0 (Conn.idle db) := Or.inl ⟨rfl, rfl⟩

/-! ### calls that do not write (C16) -/

/-- A call made of reads only runs to completion and returns the connection as it was. -/
theorem readonly_exec (fault : Option Nat) (auto : Bool) :
    ∀ (cs : List (Cmd α)) (seen scopes : Nat) (c : Conn α), (∀ x ∈ cs, x.kind = .read) →
      (exec fault auto cs seen scopes c).conn = c ∧ (exec fault auto cs seen scopes c).raised = false := by
  intro cs
  induction cs with
  | nil => intro seen scopes c _; simp [exec]
  | cons cmd rest ih =>
    intro seen scopes c h
    have hk := h cmd List.mem_cons_self
    cases cmd <;> simp [Cmd.kind] at hk
    have := exec_cons_ok fault auto (Cmd.read : Cmd α) rest seen scopes c c
      (by simp [injectedAt, Cmd.kind, faultable]) (by simp [stepStmt])
    rw [this]
    simp only [Outcome.cons_conn, Outcome.cons_raised]
    exact ih _ _ c (fun x hx => h x (List.mem_cons_of_mem _ hx))

/-- A call without a writing statement — whatever its scopes, whatever fails —
leaves the committed database as it was. -/
theorem nowrite_exec (fault : Option Nat) (auto : Bool) :
    ∀ (cs : List (Cmd α)) (seen scopes : Nat) (c : Conn α), (∀ x ∈ cs, x.kind ≠ .write) →
      Linked scopes c → (c.working = none ∨ c.working = some c.committed) →
      (exec fault auto cs seen scopes c).conn.committed = c.committed := by
  intro cs
  induction cs with
  | nil => intro seen scopes c _ _ _; simp [exec]
  | cons cmd rest ih =>
    intro seen scopes c h hl hw
    rcases exec_cons_cases fault auto cmd rest seen scopes c with ⟨c', _, hs, heq⟩ | ⟨_, hc⟩
    · rw [heq]
      simp only [Outcome.cons_conn]
      have hk := h cmd List.mem_cons_self
      have hrest := fun x hx => h x (List.mem_cons_of_mem _ hx)
      have hl' := hl.step hs
      rcases c with ⟨cm, wk⟩
      cases cmd with
      | write f => simp [Cmd.kind] at hk
      | begin =>
        cases wk <;> simp [stepStmt] at hs
        subst hs
        exact ih _ _ _ hrest hl' (Or.inr rfl)
      | commit =>
        cases wk <;> simp [stepStmt] at hs
        rename_i w
        subst hs
        have : w = cm := by rcases hw with hw | hw <;> simp at hw; exact hw
        subst this
        exact ih _ _ _ hrest hl' (Or.inl rfl)
      | rollback =>
        simp [stepStmt] at hs
        subst hs
        exact ih _ _ _ hrest hl' (Or.inl rfl)
      | read =>
        simp [stepStmt] at hs
        subst hs
        exact ih _ _ _ hrest hl' hw
    · rw [hc]; exact (raiseConn_working auto scopes c hl).2

/-! ### calls that leave no scope open (C10) -/

theorem closed_aux (fault : Option Nat) (auto : Bool) :
    ∀ (cs : List (Cmd α)) (t t' : Bool) (seen scopes : Nat) (c : Conn α),
      (t = false → c.working = none) → closedRun t (cs.map Cmd.kind) = some t' →
      (exec fault auto cs seen scopes c).raised = false → t' = false →
      (exec fault auto cs seen scopes c).conn.working = none := by
  intro cs
  induction cs with
  | nil =>
    intro t t' seen scopes c hl hr _ ht
    simp [closedRun] at hr
    subst hr
    simpa [exec] using hl ht
  | cons cmd rest ih =>
    intro t t' seen scopes c hl hr h ht
    simp only [List.map_cons, closedRun] at hr
    rcases exec_cons_cases fault auto cmd rest seen scopes c with ⟨c', _, hs, heq⟩ | ⟨hraise, _⟩
    · rw [heq] at h ⊢
      simp only [Outcome.cons_conn, Outcome.cons_raised] at h ⊢
      split at hr
      · rename_i t1 hstep
        refine ih t1 t' _ _ c' ?_ hr h ht
        intro ht1
        rcases c with ⟨cm, wk⟩
        cases cmd with
        | begin => cases t <;> simp [closedStep, Cmd.kind] at hstep; subst hstep; cases ht1
        | commit => cases wk <;> simp [stepStmt] at hs; subst hs; rfl
        | rollback => simp [stepStmt] at hs; subst hs; rfl
        | write f =>
          simp [closedStep, Cmd.kind] at hstep
          subst hstep
          have := hl ht1
          simp only at this
          subst this
          simp [stepStmt] at hs
          obtain ⟨d, _, hd⟩ := hs
          subst hd; rfl
        | read =>
          simp [closedStep, Cmd.kind] at hstep
          subst hstep
          simp [stepStmt] at hs
          subst hs
          exact hl ht1
      · cases hr
    · rw [hraise] at h; cases h

/-! ### without ROLLBACK in the call, what survives is every write -/

theorem effWrites_all :
    ∀ (cs : List (Cmd α)) (p : List (α → Option α)) (t : Bool),
      closedRun t (cs.map Cmd.kind) = some false → (∀ x ∈ cs, x.kind ≠ .rollback) →
      effWrites cs p t = (if t then p else []) ++ writesOf cs := by
  intro cs
  induction cs with
  | nil =>
    intro p t h _
    simp [closedRun] at h
    subst h
    simp [effWrites, writesOf]
  | cons cmd rest ih =>
    intro p t h hnr
    have hk := hnr cmd List.mem_cons_self
    have hrest := fun x hx => hnr x (List.mem_cons_of_mem _ hx)
    simp only [List.map_cons, closedRun] at h
    cases cmd with
    | rollback => simp [Cmd.kind] at hk
    | begin =>
      cases t <;> simp [closedStep, Cmd.kind] at h
      simp [effWrites, writesOf, ih [] true h hrest]
    | commit =>
      cases t <;> simp [closedStep, Cmd.kind] at h
      simp [effWrites, writesOf, ih [] false h hrest]
    | write f =>
      cases t <;> simp [closedStep, Cmd.kind] at h
      · simp [effWrites, writesOf, ih p false h hrest]
      · simp [effWrites, writesOf, ih (p ++ [f]) true h hrest]
    | read =>
      simp [closedStep, Cmd.kind] at h
      simp [effWrites, writesOf, ih p t h hrest]

/-- An atomic shape is in particular a closed shape. -/
theorem shapeRun_closedRun :
    ∀ (ks : List CmdKind) (s s' : ShapeSt), shapeRun s ks = some s' →
      closedRun s.inTxn ks = some s'.inTxn := by
  intro ks
  induction ks with
  | nil => intro s s' h; simp [shapeRun] at h; subst h; rfl
  | cons k ks ih =>
    intro s s' h
    simp only [shapeRun] at h
    split at h
    · rename_i s1 hstep
      have := ih s1 s' h
      rcases s with ⟨t, p, e⟩
      simp only [closedRun]
      cases k <;> cases t <;> cases e <;> simp [shapeStep, faultable] at hstep <;> subst hstep <;>
        simpa [closedStep] using this
    · cases h

theorem incCmds_total (ks : List CmdKind) : ∀ x ∈ incCmds ks, x.total := by
  induction ks with
  | nil => intro x hx; simp [incCmds] at hx
  | cons k ks ih =>
    intro x hx
    cases k <;> simp only [incCmds, List.mem_cons] at hx <;> rcases hx with hx | hx
    all_goals first
      | exact ih x hx
      | (subst hx; simp [Cmd.total])

end EngineModel.Proofs.Txn
