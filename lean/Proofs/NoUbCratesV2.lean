/-
C15, schema 2.x crates: `step` never ends in `ub` (on any state); the ordered
queries never do on tables that represent lists (`R` of Proofs/Chain.lean);
the two loops the model bounds with fuel terminate within that fuel (guarded
mirrors of Api/GuardedV2.lean); removed crates are gone.
-/
import Proofs.Chain
import EngineModel.Api.GuardedV2
import EngineModel.Db.V2Wf
import Proofs.C15GuardValues
import Proofs.V2ForestRun

namespace EngineModel.Api.GuardedV2
open EngineModel EngineModel.Db.Chain EngineModel.Db.V2 EngineModel.ListAux EngineModel.Gen EngineModel.Spec

set_option linter.unusedSimpArgs false

variable {α : Type}

def Defined {β} (r : Res β) : Prop := ∀ u, r ≠ .ub u
theorem Defined.ok {β} (a : β) : Defined (Res.ok a) := fun _ h => by cases h
theorem Defined.throw {β} (e : Exn) : Defined (Res.throw e : Res β) := fun _ h => by cases h

/-! ### the mutating operations: no `ub` at all -/

theorem ensureValidName_defined (n : Bytes) : Defined (ensureValidName n) := by
  unfold ensureValidName
  split
  · exact Defined.throw _
  · split
    · exact Defined.throw _
    · exact Defined.ok _

theorem plAdd_defined (d : Db) (title : Bytes) (parent next : Int) : Defined (plAdd d title parent next).2 := by
  unfold plAdd
  cases h : ensureValidName title with
  | ok _ => exact Defined.ok _
  | throw e => exact Defined.throw _
  | ub u => exact absurd h (ensureValidName_defined title u)

theorem plUpdate_defined (d : Db) (i : Int) (title : Bytes) (parent next : Int) :
    Defined (plUpdate d i title parent next).2 := by
  unfold plUpdate
  cases h : ensureValidName title with
  | ub u => exact absurd h (ensureValidName_defined title u)
  | throw e => exact Defined.throw _
  | ok _ =>
    simp only
    cases get d.pl i with
    | none => exact Defined.throw _
    | some old =>
      simp only
      split
      · split
        · exact Defined.throw _
        · exact Defined.ok _
      · split
        · exact Defined.throw _
        · exact Defined.ok _

theorem peAddBack_defined (d : Db) (l t u : Int) (f : Bool) : Defined (peAddBack d l t u f).2 := by
  unfold peAddBack
  (repeat' split) <;> first | exact Defined.ok _ | exact Defined.throw _

/-- On a state whose Playlist table is a well-formed forest (the crates-2.x invariant; their theorem
`descendantIds_ok`: the recursive view terminates there) no operation ends in `ub`. -/
theorem step_defined (d : Db) (hW : Forest.Forest.Wf (absF d)) (op : Op) : Defined (step d op).2 := by
  cases op with
  | createRoot name =>
    simp only [step]; split
    · exact Defined.throw _
    · exact plAdd_defined _ _ _ _
  | createRootAfter name after =>
    simp only [step]; split
    · exact Defined.throw _
    · cases get d.pl after with
      | none => exact Defined.throw _
      | some a =>
        simp only; split
        · exact Defined.throw _
        · exact plAdd_defined _ _ _ _
  | createSub p name =>
    simp only [step]; split
    · exact Defined.throw _
    · split
      · exact Defined.throw _
      · exact plAdd_defined _ _ _ _
  | createSubAfter p name after =>
    simp only [step]; split
    · exact Defined.throw _
    · split
      · exact Defined.throw _
      · cases get d.pl after with
        | none => exact Defined.throw _
        | some a =>
          simp only; split
          · exact Defined.throw _
          · exact plAdd_defined _ _ _ _
  | rename c name =>
    simp only [step]
    cases get d.pl c with
    | none => exact Defined.throw _
    | some row => exact plUpdate_defined _ _ _ _ _
  | setParent c p =>
    simp only [step]; split
    · exact Defined.throw _
    · cases get d.pl c with
      | none => exact Defined.throw _
      | some row =>
        simp only
        cases p with
        | none =>
          simp only; split <;> exact plUpdate_defined _ _ _ _ _
        | some q =>
          simp only; split
          · exact Defined.throw _
          · obtain ⟨l, hl, _⟩ := descendantIds_ok hW c
            rw [hl]
            simp only
            split
            · exact Defined.throw _
            · split <;> exact plUpdate_defined _ _ _ _ _
  | removeCrate c =>
    simp only [step]; split
    · exact Defined.throw _
    · obtain ⟨l, hl, _⟩ := descendantIds_ok hW c
      rw [hl]
      exact Defined.ok _
  | createTrack => exact Defined.ok _
  | removeTrack t =>
    simp only [step]; split
    · exact Defined.ok _
    · exact Defined.throw _
  | addTrack c t =>
    simp only [step]; split
    · exact Defined.throw _
    · split
      · exact Defined.throw _
      · exact peAddBack_defined _ _ _ _ _
  | removeTrackFrom c t =>
    simp only [step]
    cases peFind d c t 0 <;> exact Defined.ok _
  | clearTracks c => exact Defined.ok _
  | peAddBack l t uu f => exact peAddBack_defined _ _ _ _ _
  | peRemove l e =>
    simp only [step]; split
    · exact Defined.throw _
    · exact Defined.ok _
  | peClear l => exact Defined.ok _

/-- The outcomes of a script, in order. -/
def outcomes (d : Db) : List Op → List (Res Out)
  | [] => []
  | op :: t => (step d op).2 :: outcomes (step d op).1 t

theorem outcomes_defined (l : List Op) : ∀ d, PlInv d → ∀ r ∈ outcomes d l, Defined r := by
  induction l with
  | nil => intro d _ r hr; cases hr
  | cons op t ih =>
    intro d hI r hr
    simp only [outcomes, List.mem_cons] at hr
    rcases hr with e | e
    · rw [e]; exact step_defined d hI.wf op
    · exact ih _ (plInv_step hI op) r e

/-! ### the backwards walk ends within `rows.length` lookups -/

/-- at the head of the list no row points to the current id -/
theorem lookup_end {A : Int → List Int} {t : Table α} (h : R A t) (k : Int) :
    lookupNext (rowsOf t k) ((A k).headD 0) = none := by
  apply lookupNext_none
  intro r hr
  obtain ⟨hrt, hrk⟩ := mem_rowsOf.mp hr
  rw [h.next r hrt, hrk]
  have hm : r.id ∈ A k := by have := h.mem r hrt; rwa [hrk] at this
  cases hA : A k with
  | nil => rw [hA] at hm; simp at hm
  | cons a l =>
    simp only [List.headD_cons]
    exact succ_ne_head (hA ▸ h.nodup k) (h.ne0 k a (by rw [hA]; simp)) r.id

/-- in the middle the lookup finds exactly the predecessor -/
theorem lookup_mid {A : Int → List Int} {t : Table α} (h : R A t) (k : Int) {pre suf : List Int} {p : Int}
    (hA : A k = pre ++ p :: suf) :
    ∃ rp, rp ∈ rowsOf t k ∧ rp.id = p ∧ lookupNext (rowsOf t k) (suf.headD 0) = some rp := by
  obtain ⟨rp, hrpt, hrpid, hrpk⟩ := h.cover k p (by rw [hA]; simp)
  have hrp : rp ∈ rowsOf t k := mem_rowsOf.mpr ⟨hrpt, hrpk⟩
  have hnext : rp.next = suf.headD 0 := by
    rw [h.next rp hrpt, hrpk, hrpid, hA]
    exact succ_mid (hA ▸ h.nodup k)
  refine ⟨rp, hrp, hrpid, ?_⟩
  apply lookupNext_unique hrp hnext
  intro r' hr' hn'
  obtain ⟨hrt', hrk'⟩ := mem_rowsOf.mp hr'
  apply eq_of_id_eq h.ids_nodup hrt' hrpt
  have e1 : succ (A k) r'.id = succ (A k) rp.id := by
    have := h.next r' hrt'; rw [hrk'] at this
    have h2 := h.next rp hrpt; rw [hrpk] at h2
    rw [← this, ← h2, hn', hnext]
  exact succ_inj (h.nodup k) (h.ne0 k) (hrk' ▸ h.mem r' hrt') (hrpk ▸ h.mem rp hrpt) e1

theorem walkFuelG_eq {A : Int → List Int} {t : Table α} (h : R A t) (k : Int) :
    ∀ (n : Nat) (pre suf : List Int) (acc : List (Row α)) (fuel : Nat),
      pre.length = n → A k = pre ++ suf → pre.length ≤ fuel →
      walkFuelG (rowsOf t k) fuel (suf.headD 0) acc = .ok (walkFuel (rowsOf t k) fuel (suf.headD 0) acc) := by
  intro n
  induction n with
  | zero =>
    intro pre suf acc fuel hlen hA _
    have hpre : pre = [] := List.length_eq_zero_iff.mp hlen
    subst hpre
    simp only [List.nil_append] at hA
    have hnone : lookupNext (rowsOf t k) (suf.headD 0) = none := hA ▸ lookup_end h k
    cases fuel with
    | zero => simp only [walkFuelG, walkFuel, hnone]
    | succ f => simp only [walkFuelG, walkFuel, hnone]
  | succ n ih =>
    intro pre suf acc fuel hlen hA hfuel
    rcases List.eq_nil_or_concat pre with hp | ⟨pre', p, hp⟩
    · subst hp; simp at hlen
    · subst hp
      simp only [List.concat_eq_append, List.length_append, List.length_cons, List.length_nil] at hlen hfuel
      have hA' : A k = pre' ++ p :: suf := by rw [hA]; simp
      obtain ⟨rp, _, hrpid, hlook⟩ := lookup_mid h k hA'
      cases fuel with
      | zero => omega
      | succ f =>
        simp only [walkFuelG, walkFuel, hlook]
        have := ih pre' (p :: suf) (rp :: acc) f (by omega) hA' (by omega)
        simpa [hrpid] using this

/-- On a table that represents lists the guarded walk is the model's walk: the tail exists and the
loop ends within `rows.length` lookups. -/
theorem walkBackG_eq {A : Int → List Int} {t : Table α} (h : R A t) (k : Int) :
    walkBackG t k = walkBack t k ∧ ∃ l, walkBack t k = .ok l := by
  obtain ⟨l, hl, hm, _⟩ := walkBack_spec h k
  refine ⟨?_, l, hl⟩
  unfold walkBackG walkBack
  simp only
  by_cases hemp : (rowsOf t k).isEmpty = true
  · simp only [hemp, if_true]
  · simp only [hemp, Bool.false_eq_true, if_false]
    have hlen : (A k).length ≤ (rowsOf t k).length := by
      have h1 : (A k).length ≤ ((rowsOf t k).map (·.id)).length := by
        apply length_le_of_nodup_subset (h.nodup k)
        intro x hx
        obtain ⟨r, hr, e1, e2⟩ := h.cover k x hx
        exact List.mem_map.mpr ⟨r, mem_rowsOf.mpr ⟨hr, e2⟩, e1⟩
      simpa using h1
    have hw := walkFuelG_eq h k (A k).length (A k) [] [] (rowsOf t k).length rfl (by simp) hlen
    simp only [List.headD_nil] at hw
    cases lookupNext (rowsOf t k) 0 with
    | none => rfl
    | some r => simp only [hw]

theorem walkBackG_defined {A : Int → List Int} {t : Table α} (h : R A t) (k : Int) : Defined (walkBackG t k) := by
  obtain ⟨e, l, hl⟩ := walkBackG_eq h k
  rw [e, hl]; exact Defined.ok _

/-! ### the guarded walks with the source's own emptiness test -/

theorem sortIdsG_eq (t : Table Bytes) (k : Int) : sortIdsG t k = walkBackG t k := by
  unfold sortIdsG walkBackG
  simp only [C15Guards.v2_pl_sort_ids_empty_eq]
  split
  · rfl
  · cases lookupNext (rowsOf t k) 0 <;> rfl
theorem getForListG_eq (t : Table Ent) (k : Int) : getForListG t k = walkBackG t k := by
  unfold getForListG walkBackG
  simp only [C15Guards.v2_pe_get_for_list_empty_eq]
  split
  · rfl
  · cases lookupNext (rowsOf t k) 0 <;> rfl

/-! ### the guarded step is the model's step on forests, and never `ub` -/

theorem withDeref_some {β : Type} (d : Db) (a : β) (k : β → Db × Res Out) : withDeref d (some a) k = k a := rfl

theorem peAddBackG_eq (d : Db) (l t u : Int) (f : Bool) : peAddBackG Guards.source d l t u f = peAddBack d l t u f := by
  unfold peAddBackG peAddBack Guards.source
  simp only [C15Guards.v2_pe_add_back_existing_eq]
  cases peFind d l t u with
  | none => rfl
  | some e => cases f <;> rfl

theorem rmTrackInG_foldl (t : Int) (L : List Int) : ∀ pe : Table Ent,
    L.foldl (rmTrackInG Guards.source t) (.ok pe) = .ok (L.foldl (rmTrackIn t) pe) := by
  induction L with
  | nil => intro pe; rfl
  | cons l L ih =>
    intro pe
    simp only [List.foldl_cons]
    have h1 : rmTrackInG Guards.source t (.ok pe) l = .ok (rmTrackIn t pe l) := by
      unfold rmTrackInG rmTrackIn Guards.source
      simp only [Res.bind, C15Guards.v2_db_remove_track_found_eq]
      cases (pe.filter (fun r => r.key == l && r.val.track == t && r.val.uuid == 0)).getLast? <;> rfl
    rw [h1]; exact ih _

theorem setParentCheckG_none (d : Db) (c : Int) : setParentCheckG Guards.source d c none = .ok none := rfl

theorem setParentCheckG_some (d : Db) (c q : Int) :
    setParentCheckG Guards.source d c (some q) =
      if !plExists d q then .ok (some (exn "crate_deleted"))
      else (descendantIds d.pl c).bind fun ds =>
        if ds.contains q then .ok (some (exn "crate_invalid_parent")) else .ok none := by
  unfold setParentCheckG Guards.source
  simp only [C15Guards.v2_crate_set_parent_given_eq, Option.isSome_some, if_true, deref, Res.bind]

/-- **The guarded step = the model's step**, on ANY state: no dereference meets an empty optional — the
C++ guards, as regenerated from the source, suffice.  (The recursive view is the package's own
`descendantIds`, `ub nontermination` on a cyclic table, in both.) -/
theorem stepG_eq (d : Db) (op : Op) : stepG d op = step d op := by
  cases op with
  | createRoot name => rfl
  | createRootAfter name after =>
    simp only [stepG, stepGW, step, Guards.source, C15Guards.v2_db_root_after_norow_eq]
    split
    · rfl
    · cases get d.pl after with
      | none => rfl
      | some a =>
        simp only [Option.isSome_some, Bool.not_true, Bool.false_eq_true, if_false, withDeref_some]
  | createSub p name => rfl
  | createSubAfter p name after =>
    simp only [stepG, stepGW, step, Guards.source, C15Guards.v2_crate_sub_after_norow_eq]
    split
    · rfl
    · split
      · rfl
      · cases get d.pl after with
        | none => rfl
        | some a =>
          simp only [Option.isSome_some, Bool.not_true, Bool.false_eq_true, if_false, withDeref_some]
  | rename c name =>
    simp only [stepG, stepGW, step, Guards.source, C15Guards.v2_crate_set_name_norow_eq]
    cases get d.pl c with
    | none => rfl
    | some r => rfl
  | setParent c p =>
    cases p with
    | none =>
      simp only [stepG, stepGW, step, setParentCheckG_none]
      simp only [Guards.source, C15Guards.v2_crate_set_parent_self_eq, C15Guards.v2_crate_set_parent_norow_eq,
        C15Guards.v2_crate_set_parent_given2_eq, Option.isSome_none, Bool.false_eq_true, if_false, Bool.false_and]
      have : (none == some c) = false := rfl
      simp only [this, Bool.false_eq_true, if_false]
      cases get d.pl c with
      | none => rfl
      | some r => rfl
    | some q =>
      simp only [stepG, stepGW, step, setParentCheckG_some d c q]
      simp only [Guards.source, C15Guards.v2_crate_set_parent_self_eq, C15Guards.v2_crate_set_parent_norow_eq,
        C15Guards.v2_crate_set_parent_given2_eq, Option.isSome_some, if_true, Bool.true_and, deref, Res.bind]
      by_cases hqc : q = c
      · subst hqc; simp
      · have h1 : (q == c) = false := by simpa using hqc
        have h2 : (some q == some c) = false := by simpa using hqc
        simp only [h1, h2, Bool.false_eq_true, if_false]
        cases get d.pl c with
        | none => rfl
        | some r =>
          simp only [Option.isSome_some, Bool.not_true, Bool.false_eq_true, if_false]
          by_cases he : plExists d q = true
          · simp only [he, Bool.not_true, Bool.false_eq_true, if_false]
            cases hds : descendantIds d.pl c with
            | ub u => rfl
            | throw e => rfl
            | ok ds =>
              simp only [Res.bind]
              by_cases hc : ds.contains q = true
              · simp only [hc, if_true]
              · have hc' : ds.contains q = false := by simpa using hc
                simp only [hc', Bool.false_eq_true, if_false, withDeref_some]
          · have he' : plExists d q = false := by simpa using he
            simp only [he', Bool.not_false, if_true]
  | removeCrate c =>
    simp only [stepG, stepGW, step]
    split
    · rfl
    · cases descendantIds d.pl c <;> rfl
  | createTrack => rfl
  | removeTrack t => simp only [stepG, stepGW, step, rmTrackInG_foldl]
  | addTrack c t => simp only [stepG, stepGW, step, peAddBackG_eq]
  | removeTrackFrom c t =>
    simp only [stepG, stepGW, step, Guards.source, C15Guards.v2_crate_remove_track_found_eq]
    cases peFind d c t 0 <;> rfl
  | clearTracks c => rfl
  | peAddBack l t uu f => simp only [stepG, stepGW, step, peAddBackG_eq]
  | peRemove l e => rfl
  | peClear l => rfl

theorem stepG_defined (d : Db) (hW : Forest.Forest.Wf (absF d)) (op : Op) : Defined (stepG d op).2 := by
  rw [stepG_eq d op]; exact step_defined d hW op

/-! ### queries -/

theorem bind_unit_defined {β} (r : Res β) (hr : Defined r) : Defined (r.bind fun _ => (Res.ok () : Res Unit)) := by
  cases h : r with
  | ok a => exact Defined.ok _
  | throw e => exact Defined.throw _
  | ub u => exact absurd h (hr u)

theorem qNameG_eq (d : Db) (c : Int) : qNameG d c = qName d c := by
  unfold qNameG qName
  simp only [C15Guards.v2_crate_name_norow_eq]
  cases get d.pl c <;> rfl

theorem qParentG_eq (d : Db) (c : Int) : qParentG d c = qParent d c := by
  unfold qParentG qParent
  simp only [C15Guards.v2_crate_parent_norow_eq]
  cases get d.pl c with
  | none => rfl
  | some r =>
    simp only [Option.isSome_some, Bool.not_true, Bool.false_eq_true, if_false, deref, Res.bind]

theorem qByParentNameG_eq (d : Db) (p : Int) (n : Bytes) : qByParentNameG d p n = .ok (qByParentName d p n) := by
  unfold qByParentNameG qByParentName
  simp only [C15Guards.v2_db_root_by_name_none_eq, C15Guards.v2_crate_sub_by_name_none_eq]
  cases findId d p n with
  | none => simp
  | some i => simp [deref, Res.bind]

theorem queryG_defined (d : Db) {A B : Int → List Int} (hpl : R A d.pl) (hpe : R B d.pe)
    (hW : Forest.Forest.Wf (absF d)) (q : Query) : Defined (queryG d q) := by
  cases q with
  | crates => exact Defined.ok _
  | roots => exact bind_unit_defined _ (sortIdsG_eq d.pl 0 ▸ walkBackG_defined hpl 0)
  | children c => exact bind_unit_defined _ (sortIdsG_eq d.pl c ▸ walkBackG_defined hpl c)
  | descendants c =>
    simp only [queryG]
    obtain ⟨l, hl, _⟩ := descendantIds_ok hW c
    rw [hl]; exact Defined.ok _
  | parent c =>
    apply bind_unit_defined
    rw [qParentG_eq]
    unfold qParent
    cases get d.pl c with
    | none => exact Defined.throw _
    | some r => simp only; split <;> exact Defined.ok _
  | name c =>
    apply bind_unit_defined
    rw [qNameG_eq]
    unfold qName
    cases get d.pl c with
    | none => exact Defined.throw _
    | some r => exact Defined.ok _
  | valid c => exact Defined.ok _
  | byName n => exact Defined.ok _
  | byParentName p n => simp only [queryG, qByParentNameG_eq]; exact Defined.ok _
  | tracks c => exact bind_unit_defined _ (getForListG_eq d.pe c ▸ walkBackG_defined hpe c)
  | entities l => exact bind_unit_defined _ (getForListG_eq d.pe l ▸ walkBackG_defined hpe l)
  | allTracks => exact Defined.ok _
  | trackById t => exact Defined.ok _
  | crateById c => exact Defined.ok _
  | dbUuid => exact Defined.ok _
  | dbVersionName => exact Defined.ok _
  | dbDirectory => exact Defined.ok _
  | dbVerify => exact Defined.ok _
  | crateDb c => exact Defined.ok _

/-! ### removed crates are gone -/

theorem ids_deleteCascade_subset (t : Table α) (i : Int) : ∀ x ∈ ids (deleteCascade t i), x ∈ ids t ∧ x ≠ i := by
  intro x hx
  unfold deleteCascade at hx
  cases hg : get t i with
  | none =>
    rw [hg] at hx
    refine ⟨hx, ?_⟩
    intro e; subst e
    exact get_none hg hx
  | some old =>
    rw [hg] at hx
    simp only [ids, List.mem_map, List.mem_filter, updNext] at hx
    obtain ⟨r, ⟨hr, _⟩, rfl⟩ := hx
    obtain ⟨r0, ⟨hr0, hne⟩, rfl⟩ := hr
    have hid : (updRow (fun r => r.next == old.id) (fun _ => old.next) r0).id = r0.id := by
      unfold updRow; split <;> rfl
    rw [hid]
    refine ⟨List.mem_map.mpr ⟨r0, hr0, rfl⟩, ?_⟩
    simpa using hne

theorem ids_foldl_deleteCascade (L : List Int) : ∀ (t : Table α) (x : Int),
    x ∈ ids (L.foldl (fun pl i => deleteCascade pl i) t) → x ∈ ids t ∧ x ∉ L := by
  induction L with
  | nil => intro t x hx; exact ⟨hx, by simp⟩
  | cons a l ih =>
    intro t x hx
    simp only [List.foldl_cons] at hx
    obtain ⟨h1, h2⟩ := ih _ x hx
    obtain ⟨h3, h4⟩ := ids_deleteCascade_subset t a x h1
    exact ⟨h3, by simp [h4, h2]⟩

theorem plExists_iff (d : Db) (i : Int) : plExists d i = true ↔ i ∈ ids d.pl := by
  unfold plExists ids
  rw [decide_eq_true_eq]
  show 0 < (d.pl.filter (·.id == i)).length ↔ _
  rw [List.length_pos_iff]
  constructor
  · intro hne
    cases hf : d.pl.filter (·.id == i) with
    | nil => exact absurd hf hne
    | cons r l =>
      have hm : r ∈ d.pl.filter (·.id == i) := by rw [hf]; exact List.mem_cons_self ..
      obtain ⟨hr, he⟩ := List.mem_filter.mp hm
      exact List.mem_map.mpr ⟨r, hr, by simpa using he⟩
  · intro hm he
    obtain ⟨r, hr, hid⟩ := List.mem_map.mp hm
    have : r ∈ d.pl.filter (·.id == i) := List.mem_filter.mpr ⟨hr, by simpa using hid⟩
    rw [he] at this; cases this

theorem removed_gone (d : Db) (c : Int) (ds : List Int) : c ∉ ids (plRemove d (c :: ds)).pl := by
  unfold plRemove
  intro h
  exact (ids_foldl_deleteCascade _ _ c h).2 (by simp)

theorem get_none_of_not_mem {t : Table α} {i : Int} (h : i ∉ ids t) : Db.Chain.get t i = none := by
  unfold Db.Chain.get
  apply List.find?_eq_none.mpr
  intro r hr he
  exact h (List.mem_map.mpr ⟨r, hr, by simpa using he⟩)

end EngineModel.Api.GuardedV2
