/-
database::remove_crate on a state satisfying `Inv`: exact outcome (for live and
for removed handles), preservation of `Inv`, and the rows that survive.
-/
import Proofs.CratesV1SetParent

namespace EngineModel.Api.CratesV1
open EngineModel.Pure.Detect EngineModel.Spec

theorem Db.ext' {a b : Db} (h1 : a.crate = b.crate) (h2 : a.cpl = b.cpl) (h3 : a.ch = b.ch) (h4 : a.ctl = b.ctl)
    (h5 : a.track = b.track) (h6 : a.trackSeq = b.trackSeq) : a = b := by
  cases a; cases b; simp_all

theorem forest_ext {f g : Forest.Forest} (h : f.crates = g.crates) : f = g := by
  cases f; cases g; simp_all

/-- `find?` does not see a filter that keeps every row the search could stop at. -/
theorem find?_filter_of_imp {α} {p q : α → Bool} : ∀ {l : List α}, (∀ x ∈ l, p x = true → q x = true) →
    (l.filter q).find? p = l.find? p := by
  intro l
  induction l with
  | nil => intro _; rfl
  | cons a l ih =>
    intro h
    have ih' := ih (fun x hx => h x (List.mem_cons_of_mem a hx))
    by_cases hq : q a = true
    · rw [List.filter_cons_of_pos hq, List.find?_cons, List.find?_cons, ih']
    · have hp : p a = false := by
        cases hpa : p a with
        | false => rfl
        | true => exact absurd (h a (by simp) hpa) hq
      rw [List.filter_cons_of_neg hq, List.find?_cons, hp, ih']

/-- One iteration of the loop of remove_crate. -/
def removeOne (s : Schema) (acc : Db) (id : Id) : Db :=
  let a1 := deleteCtl s acc (fun r => r.1 == id)
  let a2 := { a1 with ch := deletePairs s a1.ch (fun r => r.1 == id || r.2 == id) }
  let a3 := { a2 with cpl := deletePairs s a2.cpl (fun r => r.1 == id) }
  { a3 with crate := deleteCrate s a3.crate id }

/-- The rows of the listed crates are gone from all four tables. -/
def dropIds (db : Db) (L : List Id) : Db :=
  { db with crate := db.crate.filter (fun r => !L.contains r.id),
            cpl := db.cpl.filter (fun r => !L.contains r.1),
            ch := db.ch.filter (fun r => !(L.contains r.1 || L.contains r.2)),
            ctl := db.ctl.filter (fun r => !L.contains r.1) }

/-- State after remove_crate. -/
def afterRemove (db : Db) (c : Id) : Db := dropIds db (subtreeList db c)

theorem removeCrate_loop (s : Schema) (db : Db) (c : Id) :
    removeCrate s db c = ((subtreeList db c).foldl (removeOne s) db, .ok .unit) := rfl

theorem dropIds_nil (db : Db) : dropIds db [] = db := by
  apply Db.ext' <;> simp [dropIds]

theorem contains_snoc (L : List Id) (id x : Id) : (L ++ [id]).contains x = (L.contains x || x == id) := by
  by_cases h1 : x ∈ L <;> by_cases h2 : x = id <;> simp [h1, h2]

theorem removeOne_dropIds (s : Schema) {db : Db} (hctl : ∀ r ∈ db.ctl, r.1 ∈ ids db) (done : List Id) (id : Id)
    (hid : id ∉ done) : removeOne s (dropIds db done) id = dropIds db (done ++ [id]) := by
  obtain ⟨o1, o2, o3, o4, o5⟩ := deleteCtl_other s (dropIds db done) (fun r => r.1 == id)
  apply Db.ext'
  · show deleteCrate s (deleteCtl s (dropIds db done) _).crate id = _
    rw [o1, deleteCrate_eq]
    simp only [dropIds, List.filter_filter]
    apply List.filter_congr
    intro r _
    rw [contains_snoc]
    by_cases h1 : r.id ∈ done <;> by_cases h2 : r.id = id <;> simp [h1, h2]
  · show deletePairs s (deleteCtl s (dropIds db done) _).cpl _ = _
    rw [o2, deletePairs_eq]
    simp only [dropIds, List.filter_filter]
    apply List.filter_congr
    intro r _
    rw [contains_snoc]
    by_cases h1 : r.1 ∈ done <;> by_cases h2 : r.1 = id <;> simp [h1, h2]
  · show deletePairs s (deleteCtl s (dropIds db done) _).ch _ = _
    rw [o3, deletePairs_eq]
    simp only [dropIds, List.filter_filter]
    apply List.filter_congr
    intro r _
    rw [contains_snoc, contains_snoc]
    by_cases h1 : r.1 ∈ done <;> by_cases h2 : r.1 = id <;> by_cases h3 : r.2 ∈ done <;> by_cases h4 : r.2 = id <;>
      simp [h1, h2, h3, h4]
  · show (deleteCtl s (dropIds db done) _).ctl = _
    rw [deleteCtl_ctl]
    have hvis : ∀ r ∈ (dropIds db done).ctl, r.1 = id → ctlVisible s (dropIds db done) r = true := by
      intro r hr hrid
      have hr' : r ∈ db.ctl := (List.mem_filter.mp hr).1
      obtain ⟨row, hrow, hrowid⟩ := exists_row (hctl r hr')
      unfold ctlVisible crateExists
      rw [Bool.or_eq_true]
      right
      rw [List.any_eq_true]
      refine ⟨row, ?_, by simp [hrowid]⟩
      simp only [dropIds, List.mem_filter]
      refine ⟨hrow, ?_⟩
      have : row.id ∉ done := by rw [hrowid, hrid]; exact hid
      simp [this]
    have : (dropIds db done).ctl.filter (fun r => !(ctlVisible s (dropIds db done) r && (fun r => r.1 == id) r))
        = (dropIds db done).ctl.filter (fun r => !(r.1 == id)) := by
      apply List.filter_congr
      intro r hr
      by_cases h2 : r.1 = id
      · simp [hvis r hr h2, h2]
      · simp [h2]
    rw [this]
    simp only [dropIds, List.filter_filter]
    apply List.filter_congr
    intro r _
    rw [contains_snoc]
    by_cases h1 : r.1 ∈ done <;> by_cases h2 : r.1 = id <;> simp [h1, h2]
  · show (deleteCtl s (dropIds db done) _).track = _
    rw [o4]; rfl
  · show (deleteCtl s (dropIds db done) _).trackSeq = _
    rw [o5]; rfl

theorem removeLoop_eq (s : Schema) {db : Db} (hctl : ∀ r ∈ db.ctl, r.1 ∈ ids db) :
    ∀ (L done : List Id), (done ++ L).Nodup → L.foldl (removeOne s) (dropIds db done) = dropIds db (done ++ L) := by
  intro L
  induction L with
  | nil => intro done _; simp
  | cons id L ih =>
    intro done hnd
    have hid : id ∉ done := by
      intro hm
      rw [List.nodup_append] at hnd
      exact hnd.2.2 id hm id (by simp) rfl
    rw [List.foldl_cons, removeOne_dropIds s hctl done id hid, ih (done ++ [id]) (by simpa using hnd)]
    simp

variable {db : Db}

/-- remove_crate never throws; on a removed handle it changes nothing (see `afterRemove_dead`). -/
theorem removeCrate_eq (s : Schema) (h : Inv db) (c : Id) : removeCrate s db c = (afterRemove db c, .ok .unit) := by
  rw [removeCrate_loop]
  have := removeLoop_eq s (fun r hr => (h.ctlLive r hr).1) (subtreeList db c) [] (by simpa using subtreeList_nodup h.toFInv c)
  rw [dropIds_nil] at this
  rw [this]
  simp [afterRemove]

theorem subtreeList_dead (h : FInv db) {c : Id} (hc : c ∉ ids db) : subtreeList db c = [c] := by
  unfold subtreeList
  have : db.ch.filter (·.1 == c) = [] := by
    rw [List.filter_eq_nil_iff]
    intro r hr he
    simp only [beq_iff_eq] at he
    exact hc (he ▸ (h.chLive r hr).1)
  rw [this]; rfl

theorem afterRemove_dead (h : Inv db) {c : Id} (hc : c ∉ ids db) : afterRemove db c = db := by
  unfold afterRemove
  rw [subtreeList_dead h.toFInv hc]
  apply Db.ext' <;> simp only [dropIds]
  · rw [List.filter_eq_self]
    intro r hr
    have : r.id ≠ c := fun e => hc (e ▸ List.mem_map_of_mem (f := (·.id)) hr)
    simp [this]
  · rw [List.filter_eq_self]
    intro r hr
    have : r.1 ≠ c := fun e => hc (e ▸ (h.cplTotal r.1).mp (List.mem_map_of_mem (f := (·.1)) hr))
    simp [this]
  · rw [List.filter_eq_self]
    intro r hr
    have h1 : r.1 ≠ c := fun e => hc (e ▸ (h.chLive r hr).1)
    have h2 : r.2 ≠ c := fun e => hc (e ▸ (h.chLive r hr).2)
    simp [h1, h2]
  · rw [List.filter_eq_self]
    intro r hr
    have : r.1 ≠ c := fun e => hc (e ▸ (h.ctlLive r hr).1)
    simp [this]

/-! ### the surviving rows -/

theorem not_contains_subtree (db : Db) (c y : Id) : (!(subtreeList db c).contains y) = true ↔ ¬ Sub db c y := by
  simp [mem_subtreeList]

theorem mem_ids_afterRemove (db : Db) (c y : Id) : y ∈ ids (afterRemove db c) ↔ (y ∈ ids db ∧ ¬ Sub db c y) := by
  unfold ids afterRemove dropIds
  simp only [List.mem_map, List.mem_filter, not_contains_subtree]
  constructor
  · rintro ⟨r, ⟨hr, hs⟩, rfl⟩; exact ⟨⟨r, hr, rfl⟩, hs⟩
  · rintro ⟨⟨r, hr, rfl⟩, hs⟩; exact ⟨r, ⟨hr, hs⟩, rfl⟩

theorem mem_crate_afterRemove (db : Db) (c : Id) (r : CrateRow) :
    r ∈ (afterRemove db c).crate ↔ (r ∈ db.crate ∧ ¬ Sub db c r.id) := by
  unfold afterRemove dropIds
  simp only [List.mem_filter, not_contains_subtree]

theorem mem_cpl_afterRemove (db : Db) (c : Id) (r : Id × Id) :
    r ∈ (afterRemove db c).cpl ↔ (r ∈ db.cpl ∧ ¬ Sub db c r.1) := by
  unfold afterRemove dropIds
  simp only [List.mem_filter, not_contains_subtree]

theorem mem_ch_afterRemove (db : Db) (c : Id) (r : Id × Id) :
    r ∈ (afterRemove db c).ch ↔ (r ∈ db.ch ∧ ¬ Sub db c r.1 ∧ ¬ Sub db c r.2) := by
  unfold afterRemove dropIds
  simp only [List.mem_filter, Bool.not_eq_eq_eq_not, Bool.not_true, Bool.or_eq_false_iff]
  have e1 := not_contains_subtree db c r.1
  have e2 := not_contains_subtree db c r.2
  simp only [Bool.not_eq_eq_eq_not, Bool.not_true] at e1 e2
  rw [e1, e2]

theorem mem_ctl_afterRemove (db : Db) (c : Id) (r : Id × Id) :
    r ∈ (afterRemove db c).ctl ↔ (r ∈ db.ctl ∧ ¬ Sub db c r.1) := by
  unfold afterRemove dropIds
  simp only [List.mem_filter, not_contains_subtree]

theorem finv_remove (h : FInv db) (c : Id) : FInv (afterRemove db c) := by
  apply h.remove (c := c)
  · exact mem_ids_afterRemove db c
  · exact h.idsNodup.sublist (List.Sublist.map _ List.filter_sublist)
  · exact mem_cpl_afterRemove db c
  · exact h.cplNodup.sublist (List.Sublist.map _ List.filter_sublist)
  · exact mem_ch_afterRemove db c
  · exact h.chNodup.sublist List.filter_sublist

theorem rowPath_afterRemove (db : Db) (c : Id) {p : Id} (hp : ¬ Sub db c p) :
    rowPath (afterRemove db c) p = rowPath db p := by
  unfold rowPath
  have : (afterRemove db c).crate.find? (·.id == p) = db.crate.find? (·.id == p) := by
    unfold afterRemove dropIds
    apply find?_filter_of_imp
    intro x _ hx
    simp only [beq_iff_eq] at hx
    rw [not_contains_subtree, hx]; exact hp
  rw [this]

theorem parentOf_afterRemove (db : Db) (c : Id) {y : Id} (hy : ¬ Sub db c y) :
    parentOf (afterRemove db c) y = parentOf db y := by
  unfold parentOf
  have : (afterRemove db c).cpl.find? (·.1 == y) = db.cpl.find? (·.1 == y) := by
    unfold afterRemove dropIds
    apply find?_filter_of_imp
    intro x _ hx
    simp only [beq_iff_eq] at hx
    rw [not_contains_subtree, hx]; exact hy
  rw [this]

theorem inv_remove (h : Inv db) (c : Id) : Inv (afterRemove db c) := by
  refine ⟨finv_remove h.toFInv c, ?_, ?_, ?_, ?_, ?_⟩
  · intro r hr
    exact h.namesValid r ((mem_crate_afterRemove db c r).mp hr).1
  · intro r hr p hp
    obtain ⟨hr0, hs⟩ := (mem_crate_afterRemove db c r).mp hr
    obtain ⟨hp0, _⟩ := (mem_cpl_afterRemove db c _).mp hp
    rw [h.pathStep r hr0 p hp0]
    by_cases hpe : p = r.id
    · simp [hpe]
    · simp only [hpe, if_false]
      rw [rowPath_afterRemove db c (h.toFInv.not_sub_par hs (p := p) ⟨hp0, hpe⟩)]
  · exact h.ctlNodup.sublist List.filter_sublist
  · intro r hr
    obtain ⟨hr0, hs⟩ := (mem_ctl_afterRemove db c r).mp hr
    exact ⟨(mem_ids_afterRemove db c r.1).mpr ⟨(h.ctlLive r hr0).1, hs⟩, (liveTrack_congr rfl _).mpr (h.ctlLive r hr0).2⟩
  · exact h.trackNodup

/-- The abstract forest after remove_crate is the Spec's `removeSubtree`. -/
theorem abs_afterRemove (h : FInv db) (c : Id) : absForest (afterRemove db c) = Forest.removeSubtree (absForest db) c := by
  apply forest_ext
  show (absForest (afterRemove db c)).crates = (absForest db).crates.filter _
  rw [abs_crates, abs_crates, List.filter_map]
  have hpred : ∀ r : CrateRow,
      ((fun x : Forest.Crate => !(x.id == c || (absForest db).isAncestor c x.id)) ∘
        fun r : CrateRow => (⟨r.id, r.title, parentOf db r.id⟩ : Forest.Crate)) r
        = !(subtreeList db c).contains r.id := by
    intro r
    simp only [Function.comp_apply]
    rw [Bool.eq_iff_iff, not_contains_subtree]
    simp only [Bool.not_eq_eq_eq_not, Bool.not_true, Bool.or_eq_false_iff, beq_eq_false_iff_ne, ne_eq]
    unfold Sub
    rw [← isAncestor_iff h]
    constructor
    · rintro ⟨h1, h2⟩ (e | hm)
      · exact h1 e
      · rw [hm] at h2; cases h2
    · intro hn
      refine ⟨fun e => hn (Or.inl e), ?_⟩
      cases hx : (absForest db).isAncestor c r.id with
      | false => rfl
      | true => exact absurd (Or.inr hx) hn
  have hfil : db.crate.filter ((fun x : Forest.Crate => !(x.id == c || (absForest db).isAncestor c x.id)) ∘
        fun r : CrateRow => (⟨r.id, r.title, parentOf db r.id⟩ : Forest.Crate))
      = (afterRemove db c).crate := by
    unfold afterRemove dropIds
    apply List.filter_congr
    intro r _
    exact hpred r
  rw [hfil]
  apply List.map_congr_left
  intro r hr
  rw [parentOf_afterRemove db c ((mem_crate_afterRemove db c r).mp hr).2]

end EngineModel.Api.CratesV1
