/-
"Never overflow signed arithmetic" (C05): the decoders / encoders of Impl/V2.lean and
Impl/V1.lean compute every `int64_t` / `int` sum, difference and product the C++ computes with
CHECKED operations (`Chk.add64`, `Chk.mul64`, `Chk.sub32`: `ub signed_overflow` when the exact
result leaves the type).  This file proves that the guards in front of those operations keep
them in range, by showing each checked definition equal to its reading in unbounded `Int`
(`…Z`, the text of the definitions before the checked operations were put in), under the one
side condition the C++ type itself guarantees: a byte vector has fewer than 2^63 elements
(`std::vector<std::byte>::max_size()` = PTRDIFF_MAX), so that `end - ptr` plus one waveform
record still fits `int64_t`.  All later proofs go through the `…Z` forms.

Sites (the only signed arithmetic of the eleven codecs whose operands are not bounded by their
types alone):
  2.x overview waveform  `end - ptr < 3 * (num_entries_1 + 1)`            (sum, product)
  1.x waveforms          `end - ptr != w * (num_entries_1 + 1)`, w = 3, 6 (sum, product)
  1.x beat grid          `end - ptr < 24 * count`                          (product)
  1.x encode_beatgrid    `diff = beatgrid[i + 1].index - beatgrid[i].index` (`int` difference)
Elsewhere the operand types bound the result: `29 + label_length` / `22 + label_length` add a
`uint8_t` to a constant in `int`; `static_cast<int64_t>(a.index) - b.index` subtracts two `int`
values in `int64_t` (`sub64_s32`, `add32_u8` below); sizes are computed in `size_t` (unsigned).
-/
import EngineModel.Impl.V1
set_option linter.unusedSimpArgs false
set_option linter.unusedVariables false

namespace EngineModel
namespace ArithZ
open Codec Cur

/-! ### operand types that cannot overflow -/

/-- the `int64_t` difference of two `int` values is always in range -/
theorem sub64_s32 (a b : UInt32) : Chk.sub64 (Prim.s32 a) (Prim.s32 b) = .ok (Prim.s32 a - Prim.s32 b) := by
  apply Chk.sub64_ok
  have ha := a.toNat_lt; have hb := b.toNat_lt
  unfold Chk.in64 Prim.s32
  split <;> split <;> omega

/-- the `int` sum of a small constant and a `uint8_t` is always in range -/
theorem add32_u8 (k : Nat) (hk : k ≤ 1000) (b : UInt8) : Chk.add32 k b.toNat = .ok ((k : Int) + b.toNat) := by
  apply Chk.add32_ok
  have hb := b.toNat_lt
  unfold Chk.in32
  omega

/-! ### the guards of the waveform decoders -/

/-- After `n < 0 || n > rem / w` were both false, `n + 1` and `w * (n + 1)` are in `int64_t`. -/
theorem wave_guard (w : Nat) (hw : 0 < w) (hw6 : w ≤ 6) (rem : Nat) (hrem : rem + 24 < maxCount) (s : Int)
    (h0 : ¬ s < 0) (h1 : ¬ ((rem : Int) / (w : Int) < s)) :
    Chk.add64 s 1 = .ok (s + 1) ∧ Chk.mul64 (w : Int) (s + 1) = .ok ((w : Int) * (s + 1)) := by
  have hmc : maxCount = 9223372036854775808 := rfl
  have hs : s ≤ (rem : Int) / (w : Int) := by omega
  have hw' : (0 : Int) < (w : Int) := by omega
  have hmul : (w : Int) * ((rem : Int) / (w : Int)) ≤ (rem : Int) := Int.mul_ediv_self_le (by omega)
  have hws : (w : Int) * s ≤ (rem : Int) := by
    have := Int.mul_le_mul_of_nonneg_left hs (Int.le_of_lt hw')
    omega
  have hsr : s ≤ (rem : Int) := by
    have : (1 : Int) * s ≤ (w : Int) * s := Int.mul_le_mul_of_nonneg_right (by omega) (by omega)
    omega
  constructor
  · apply Chk.add64_ok; unfold Chk.in64; omega
  · apply Chk.mul64_ok
    unfold Chk.in64
    have e : (w : Int) * (s + 1) = (w : Int) * s + (w : Int) := by rw [Int.mul_add, Int.mul_one]
    have hnn : 0 ≤ (w : Int) * s := Int.mul_nonneg (by omega) (by omega)
    omega

/-! ### 2.x overview waveform -/

/-- `Impl.V2.decodeOvw` with the arithmetic of its length test read in unbounded `Int`. -/
def decodeOvwZ (bs : Bytes) : Res (V2.Ovw × Bytes) :=
  if bs.length < 27 then .throw .invalid_argument else
  (do
    let n1 ← rd u64be
    let n2 ← rd u64be
    let spp ← rd u64be
    if n1 ≠ n2 then throwC .invalid_argument else
    let rem ← remaining
    if Prim.s64 n1 < 0 ∨ (rem / 3 : Int) < Prim.s64 n1 ∨ (rem : Int) < 3 * (Prim.s64 n1 + 1)
      then throwC .invalid_argument else
    let pts ← takeN (3 * n1.toNat)
    let mx ← takeN 3
    let extra ← rest
    pure (⟨spp, pts, mx⟩, extra) : Cur (V2.Ovw × Bytes)) bs |>.bind (fun p => .ok p.1)

theorem decodeOvw_eq_Z (bs : Bytes) (hlen : bs.length < maxCount) : Impl.V2.decodeOvw bs = decodeOvwZ bs := by
  unfold Impl.V2.decodeOvw decodeOvwZ
  by_cases h27 : bs.length < 27
  · simp only [h27, if_true]
  · simp only [h27, if_false]
    congr 1
    have r1 := rd_u64be_run (bs := bs) (by omega)
    have r2 := rd_u64be_run (bs := bs.drop 8) (by simp; omega)
    have r3 := rd_u64be_run (bs := bs.drop 16) (by simp; omega)
    simp only [List.drop_drop, Nat.reduceAdd] at r2 r3
    have hl : (List.drop 24 bs).length = bs.length - 24 := by simp
    simp only [bind_run, r1, r2, r3, remaining_run, hl]
    by_cases hn : u64be.get bs = u64be.get (bs.drop 8)
    · have hn' : (u64be.get bs = u64be.get (bs.drop 8)) = True := eq_true hn
      simp only [ne_eq, hn', not_true_eq_false, if_false, bind_run, remaining_run, hl]
      by_cases hg : Prim.s64 (u64be.get bs) < 0 ∨ ((bs.length - 24 : Nat) / 3 : Int) < Prim.s64 (u64be.get bs)
      · have hg' : Prim.s64 (u64be.get bs) < 0 ∨ ((bs.length - 24 : Nat) / 3 : Int) < Prim.s64 (u64be.get bs) ∨
            ((bs.length - 24 : Nat) : Int) < 3 * (Prim.s64 (u64be.get bs) + 1) := by
          rcases hg with h | h
          · exact Or.inl h
          · exact Or.inr (Or.inl h)
        simp only [hg, hg', if_true]
      · have h0 : ¬ Prim.s64 (u64be.get bs) < 0 := fun h => hg (Or.inl h)
        have h1 : ¬ (((bs.length - 24 : Nat) : Int) / ((3 : Nat) : Int) < Prim.s64 (u64be.get bs)) :=
          fun h => hg (Or.inr h)
        obtain ⟨ha, hm⟩ := wave_guard 3 (by omega) (by omega) (bs.length - 24) (by omega) _ h0 h1
        have hm' : Chk.mul64 3 (Prim.s64 (u64be.get bs) + 1) = .ok (3 * (Prim.s64 (u64be.get bs) + 1)) := hm
        simp only [hg, if_false, ha, hm', lift_ok_run, bind_run]
        by_cases hc : ((bs.length - 24 : Nat) : Int) < 3 * (Prim.s64 (u64be.get bs) + 1)
        · have hg' : Prim.s64 (u64be.get bs) < 0 ∨ ((bs.length - 24 : Nat) / 3 : Int) < Prim.s64 (u64be.get bs) ∨
              ((bs.length - 24 : Nat) : Int) < 3 * (Prim.s64 (u64be.get bs) + 1) := Or.inr (Or.inr hc)
          rw [if_pos hc, if_pos hg']
        · have hg' : ¬ (Prim.s64 (u64be.get bs) < 0 ∨ ((bs.length - 24 : Nat) / 3 : Int) < Prim.s64 (u64be.get bs) ∨
              ((bs.length - 24 : Nat) : Int) < 3 * (Prim.s64 (u64be.get bs) + 1)) := by
            intro h; rcases h with h | h | h
            · exact h0 h
            · exact hg (Or.inr h)
            · exact hc h
          rw [if_neg hc, if_neg hg']
    · have hn' : (u64be.get bs = u64be.get (bs.drop 8)) = False := eq_false hn
      simp only [ne_eq, hn', not_false_eq_true, if_true]

/-! ### 1.x waveforms -/

/-- `Impl.V1.decodeWave` with the arithmetic of its length test read in unbounded `Int`. -/
def decodeWaveZ (minLen w : Nat) (entry : Cur Impl.V1.Entry) (bs : Bytes) : Res Impl.V1.Wave :=
  if bs.length < minLen then .throw .invalid_argument else
  (do
    let n1 ← rd u64be
    let n2 ← rd u64be
    let spe ← rd u64be
    if n1 ≠ n2 then throwC .invalid_argument else
    let rem ← remaining
    if Prim.s64 n1 < 0 ∨ (rem / w : Int) < Prim.s64 n1 ∨ (rem : Int) ≠ (w : Int) * (Prim.s64 n1 + 1)
      then throwC .invalid_argument else
    let es ← forN entry n1.toNat
    let _ ← takeN w
    let rem ← remaining
    if rem ≠ 0 then throwC .runtime_error else
    pure (⟨spe, es⟩ : Impl.V1.Wave)) bs |>.bind (fun p => .ok p.1)

theorem decodeWave_eq_Z (minLen w : Nat) (hm : 24 ≤ minLen) (hw : 0 < w) (hw6 : w ≤ 6)
    (entry : Cur Impl.V1.Entry) (bs : Bytes) (hlen : bs.length < maxCount) :
    Impl.V1.decodeWave minLen w entry bs = decodeWaveZ minLen w entry bs := by
  unfold Impl.V1.decodeWave decodeWaveZ
  by_cases hmin : bs.length < minLen
  · simp only [hmin, if_true]
  · simp only [hmin, if_false]
    congr 1
    have r1 := rd_u64be_run (bs := bs) (by omega)
    have r2 := rd_u64be_run (bs := bs.drop 8) (by simp; omega)
    have r3 := rd_u64be_run (bs := bs.drop 16) (by simp; omega)
    simp only [List.drop_drop, Nat.reduceAdd] at r2 r3
    have hl : (List.drop 24 bs).length = bs.length - 24 := by simp
    simp only [bind_run, r1, r2, r3, remaining_run, hl]
    by_cases hn : u64be.get bs = u64be.get (bs.drop 8)
    · have hn' : (u64be.get bs = u64be.get (bs.drop 8)) = True := eq_true hn
      simp only [ne_eq, hn', not_true_eq_false, if_false, bind_run, remaining_run, hl]
      by_cases hg : Prim.s64 (u64be.get bs) < 0 ∨ ((bs.length - 24 : Nat) / w : Int) < Prim.s64 (u64be.get bs)
      · have hg' : Prim.s64 (u64be.get bs) < 0 ∨ ((bs.length - 24 : Nat) / w : Int) < Prim.s64 (u64be.get bs) ∨
            ¬ ((bs.length - 24 : Nat) : Int) = (w : Int) * (Prim.s64 (u64be.get bs) + 1) := by
          rcases hg with h | h
          · exact Or.inl h
          · exact Or.inr (Or.inl h)
        rw [if_pos hg, if_pos hg']
      · have h0 : ¬ Prim.s64 (u64be.get bs) < 0 := fun h => hg (Or.inl h)
        have h1 : ¬ (((bs.length - 24 : Nat) : Int) / (w : Int) < Prim.s64 (u64be.get bs)) :=
          fun h => hg (Or.inr h)
        obtain ⟨ha, hmul⟩ := wave_guard w hw hw6 (bs.length - 24) (by omega) _ h0 h1
        rw [if_neg hg]
        simp only [ha, hmul, lift_ok_run, bind_run]
        by_cases hc : ((bs.length - 24 : Nat) : Int) = (w : Int) * (Prim.s64 (u64be.get bs) + 1)
        · have hc' : ¬ ¬ ((bs.length - 24 : Nat) : Int) = (w : Int) * (Prim.s64 (u64be.get bs) + 1) := fun h => h hc
          have hg' : ¬ (Prim.s64 (u64be.get bs) < 0 ∨ ((bs.length - 24 : Nat) / w : Int) < Prim.s64 (u64be.get bs) ∨
              ¬ ((bs.length - 24 : Nat) : Int) = (w : Int) * (Prim.s64 (u64be.get bs) + 1)) := by
            intro h; rcases h with h | h | h
            · exact h0 h
            · exact hg (Or.inr h)
            · exact h hc
          rw [if_neg hc', if_neg hg']
        · have hg' : Prim.s64 (u64be.get bs) < 0 ∨ ((bs.length - 24 : Nat) / w : Int) < Prim.s64 (u64be.get bs) ∨
              ¬ ((bs.length - 24 : Nat) : Int) = (w : Int) * (Prim.s64 (u64be.get bs) + 1) := Or.inr (Or.inr hc)
          rw [if_pos hc, if_pos hg']
    · have hn' : (u64be.get bs = u64be.get (bs.drop 8)) = False := eq_false hn
      simp only [ne_eq, hn', not_false_eq_true, if_true]

/-! ### 1.x beat grid: `24 * count` with `2 ≤ count ≤ 32768` -/

/-- `Impl.V1.decodeGrid` with `24 * count` read in unbounded `Int`. -/
def decodeGrid1Z : Cur (List Impl.V1.GMarker) := do
  let rem ← remaining
  if rem < 8 then throwC .invalid_argument else
  let count ← rd u64be
  if Prim.s64 count = 0 then pure [] else
  if Prim.s64 count < 2 then throwC .invalid_argument else
  if Prim.s64 count > 32768 then throwC .invalid_argument else
  let rem ← remaining
  if (rem : Int) < 24 * Prim.s64 count then throwC .invalid_argument else
  let wire ← forN (rd EngineModel.V2.marker) count.toNat
  fun bs => match Impl.V1.checkWire none wire with
    | .ok g => .ok (g, bs)
    | .throw e => .throw e
    | .ub u => .ub u

theorem decodeGrid1_eq_Z : Impl.V1.decodeGrid = decodeGrid1Z := by
  funext bs
  unfold Impl.V1.decodeGrid decodeGrid1Z
  simp only [bind_run, remaining_run]
  by_cases h8 : bs.length < 8
  · simp only [h8, if_true]
  · simp only [h8, if_false, bind_run]
    cases hr : rd u64be bs with
    | ok p =>
      obtain ⟨count, r⟩ := p
      simp only []
      by_cases h0 : Prim.s64 count = 0
      · simp only [h0, if_true]
      · by_cases h2 : Prim.s64 count < 2
        · simp only [h0, if_false, h2, if_true]
        · by_cases hb : Prim.s64 count > 32768
          · simp only [h0, if_false, h2, hb, if_true]
          · have hm : Chk.mul64 24 (Prim.s64 count) = .ok (24 * Prim.s64 count) := by
              apply Chk.mul64_ok; unfold Chk.in64; omega
            simp only [h0, if_false, h2, hb, bind_run, remaining_run, hm, lift_ok_run]
            rfl
    | throw e => rfl
    | ub u => rfl

/-! ### 1.x `encode_beatgrid`: the `int` difference of neighbouring indices -/

/-- `Impl.V1.encodeBeat` with the index differences read in unbounded `Int` (`toWire`). -/
def encodeBeatZ (v : Impl.V1.Beat) : Res Bytes :=
  if !Impl.V1.validGrid v.dflt || !Impl.V1.validGrid v.adj then .throw .invalid_argument else
  let w : EngineModel.V2.Beat :=
    ⟨v.sampleRate.getD 0, v.sampleCount.getD 0, 1, Impl.V1.toWire v.dflt, Impl.V1.toWire v.adj⟩
  Impl.V2.writeInto (33 + 24 * (v.dflt.length + v.adj.length)) (EngineModel.V2.beat.enc w)

theorem validGrid_go_toWireC : ∀ (g : List Impl.V1.GMarker), Impl.V1.validGrid.go g = true →
    Impl.V1.toWireC g = .ok (Impl.V1.toWire g)
  | [], _ => rfl
  | [a], _ => rfl
  | a :: b :: rest, h => by
    simp only [Impl.V1.validGrid.go, Bool.and_eq_true, decide_eq_true_eq] at h
    obtain ⟨⟨⟨h1, h2⟩, _⟩, h4⟩ := h
    have hs : Chk.sub32 (Prim.s32 b.index) (Prim.s32 a.index) = .ok (Prim.s32 b.index - Prim.s32 a.index) := by
      apply Chk.sub32_ok; unfold Chk.in32; omega
    simp only [Impl.V1.toWireC, hs, validGrid_go_toWireC (b :: rest) h4, Impl.V1.toWire]

theorem validGrid_toWireC (g : List Impl.V1.GMarker) (h : Impl.V1.validGrid g = true) :
    Impl.V1.toWireC g = .ok (Impl.V1.toWire g) := by
  match g, h with
  | [], _ => rfl
  | [a], h => simp [Impl.V1.validGrid] at h
  | a :: b :: rest, h =>
    simp only [Impl.V1.validGrid, Bool.and_eq_true] at h
    exact validGrid_go_toWireC _ h.2

/-- `validate_beatgrid` keeps every `int` difference of `encode_beatgrid` in range. -/
theorem encodeBeat_eq_Z (v : Impl.V1.Beat) : Impl.V1.encodeBeat v = encodeBeatZ v := by
  unfold Impl.V1.encodeBeat encodeBeatZ
  by_cases h : (!Impl.V1.validGrid v.dflt || !Impl.V1.validGrid v.adj) = true
  · simp only [h, if_true]
  · simp only [h, if_false]
    simp only [Bool.or_eq_true, Bool.not_eq_true', not_or, Bool.not_eq_false] at h
    rw [validGrid_toWireC _ h.1, validGrid_toWireC _ h.2]

/-- Without `validate_beatgrid` the difference does overflow: indices `−2^31` and `2^31 − 1`. -/
theorem toWireC_overflow_counterexample :
    Impl.V1.toWireC [⟨2147483648, 0⟩, ⟨2147483647, 0x3ff0000000000000⟩] = .ub .signed_overflow := by decide

/-- Without the `count > 32768` test the product overflows: `24 * 2^59`. -/
example : Chk.mul64 24 (Prim.s64 576460752303423488) = .ub .signed_overflow := by decide
/-- Without the `n > rem / w` test the sum overflows: `(2^63 − 1) + 1`. -/
example : Chk.add64 (Prim.s64 9223372036854775807) 1 = .ub .signed_overflow := by decide

end ArithZ
end EngineModel
