/-
`track_table`: the hypotheses-free forms of the accessor theorems (`get` is
defined on `TDb.Wf` states), absence of `ub` for every operation, and the
queries `exists` / `all_ids` / `find_id_by_path` (property C18, REVIEW items
(a) and (c)).
-/
import Proofs.TableTrackWf
namespace EngineModel
namespace Table

/-! ## accessor theorems without the "get is defined" hypotheses -/

/-- Per-column getter on a well-formed state: `get` is defined on the row and the
getter denotes its member. -/
theorem track_getc_wf {s : Schema2} {st : TStmts} (ha : alignedT s st = true) {d : TDb} (hwf : d.Wf) {i : Int}
    {raw : Raw TCol} (hfind : findRow .id d.rows i = some raw) {f : TField} (hf : f ≠ .id) :
    ∃ g, tGet st d i = .ok (some g) ∧
      (if f.present s then ∃ v, tGetc s st d f i = .ok v ∧ fromAcc f v = g f
       else tGetc s st d f i = .throw (.dj "unsupported_operation")) := by
  obtain ⟨g, hg⟩ := track_get_of_find ha hwf hfind
  exact ⟨g, hg, track_getc ha hfind hg hf⟩

/-- Per-column setter on a well-formed state: the row existed, `get` was defined
on it, and afterwards returns that row with the member replaced. -/
theorem track_setc_get_wf {s : Schema2} {st : TStmts} (ha : alignedT s st = true) {d d' : TDb} (hwf : d.Wf)
    {i : Int} {f : TField} (hf : f ≠ .id) {v : FVal} (hv : wtv f.accTy v = true)
    (h : tSetc s st d f i v = (d', .ok ())) :
    ∃ g0, tGet st d i = .ok (some g0)
    ∧ tGet st d' i = .ok (some (normSetT s d.uuid d.clock f v g0))
    ∧ (∀ j, j ≠ i → findRow .id d'.rows j = findRow .id d.rows j)
    ∧ d'.seq = d.seq ∧ d'.uuid = d.uuid ∧ d'.clock = d.clock := by
  obtain ⟨a, x, n, _, _, _, hu, hn⟩ := tSetc_ok h
  rcases tUpdateWhereId_ok hu with ⟨_, _, hn0⟩ | ⟨old, hold, _, _⟩
  · omega
  obtain ⟨g0, hg0⟩ := track_get_of_find ha hwf hold
  exact ⟨g0, hg0, track_setc_get ha hwf hf hv hg0 hwf.clk h⟩

/-! ## no operation has undefined behaviour on a well-formed state -/

theorem tInsert_no_ub (d : TDb) (l : List (TCol × Val)) (u : Ub) : (tInsert d l).2 ≠ .ub u := by
  unfold tInsert
  simp only
  split
  · simp
  · split <;> simp

theorem tAdd_no_ub (st : TStmts) (d : TDb) (r : Row TField) (u : Ub) : (tAdd st d r).2 ≠ .ub u := by
  unfold tAdd
  split
  · simp
  · cases he : evalParams r st.ins with
    | ok l => exact tInsert_no_ub d l u
    | throw e => simp
    | ub u' => exact absurd he (evalParams_no_ub u')

theorem tUpdate_no_ub (s : Schema2) (st : TStmts) (d : TDb) (r : Row TField) (u : Ub) :
    (tUpdate s st d r).2 ≠ .ub u := by
  unfold tUpdate
  split
  · simp
  · cases he : evalParams r st.upd with
    | throw e => simp
    | ub u' => exact absurd he (evalParams_no_ub u')
    | ok l =>
      simp only
      cases hrid : r .id with
      | int i =>
        simp only
        cases hu : tUpdateWhereId s d i l with
        | mk d2 res =>
          cases res with
          | ok n => simp
          | throw e => simp
          | ub u' =>
            exact absurd (by rw [hu]) (tUpdateWhereId_no_ub (s := s) (d := d) (i := i) (l := l) (u := u'))
      | _ => simp

theorem tSetc_no_ub (s : Schema2) (st : TStmts) (d : TDb) (f : TField) (i : Int) (v : FVal) (u : Ub) :
    (tSetc s st d f i v).2 ≠ .ub u := by
  unfold tSetc
  cases findAcc st.setters f with
  | none => simp
  | some a =>
    simp only
    split
    · simp
    · cases hw : wconv a.ty.wconv v with
      | throw e => simp
      | ub u' => exact absurd hw (wconv_no_ub _ _ _)
      | ok x =>
        simp only
        cases hu : tUpdateWhereId s d i [(a.col, x)] with
        | mk d2 res =>
          cases res with
          | ok n => simp only; split <;> simp
          | throw e => simp
          | ub u' =>
            exact absurd (by rw [hu]) (tUpdateWhereId_no_ub (s := s) (d := d) (i := i) (l := [(a.col, x)]) (u := u'))

theorem tRemove_no_ub (st : TStmts) (d : TDb) (i : Int) (u : Ub) : (tRemove st d i).2 ≠ .ub u := by
  unfold tRemove
  cases findRow .id d.rows i with
  | none => simp only; split <;> simp
  | some _ => simp

theorem tGet_no_ub {s : Schema2} {st : TStmts} (ha : alignedT s st = true) {d : TDb} (hwf : d.Wf) (i : Int) (u : Ub) :
    tGet st d i ≠ .ub u := by
  rcases track_get_defined ha hwf i with ⟨_, h⟩ | ⟨_, _, _, h⟩ <;> rw [h] <;> simp

theorem tGetc_no_ub {s : Schema2} {st : TStmts} (ha : alignedT s st = true) {d : TDb} (hwf : d.Wf)
    (f : TField) (i : Int) (u : Ub) : tGetc s st d f i ≠ .ub u := by
  by_cases hf : f = .id
  · -- there is no accessor pair for the id
    subst hf
    have ha' := ha
    simp only [alignedT, Bool.and_eq_true] at ha'
    obtain ⟨⟨⟨⟨⟨⟨_, _⟩, _⟩, _⟩, hgetters⟩, _⟩, _⟩ := ha'
    simp only [alignedAcc, Bool.and_eq_true, decide_eq_true_eq] at hgetters
    have : findAcc st.getters .id = none := by
      unfold findAcc
      rw [List.find?_eq_none]
      intro a hmem hc
      have : a.field ∈ st.getters.map (·.field) := List.mem_map_of_mem hmem
      rw [hgetters.1] at this
      have hne := (List.mem_filter.mp this).2
      simp only [decide_eq_true_eq] at hne
      exact hne (by simpa using hc)
    unfold tGetc; rw [this]; simp
  cases hfind : findRow .id d.rows i with
  | none =>
    obtain ⟨e, he⟩ := (track_missing_row ha hfind).1 f hf
    rw [he]; simp
  | some raw =>
    obtain ⟨g, _, hc⟩ := track_getc_wf ha hwf hfind hf
    split at hc
    · obtain ⟨v, hv, _⟩ := hc; rw [hv]; simp
    · rw [hc]; simp

/-! ## exists / all_ids / find_id_by_path -/

theorem findRow_isSome_iff {t : Rows TCol} {i : Int} :
    (findRow .id t i).isSome = true ↔ i ∈ rowIds .id t := by
  unfold findRow rowIds
  rw [List.find?_isSome]
  simp only [List.mem_map, beq_iff_eq]

/-- `exists(id)` is true exactly for the ids `all_ids()` lists. -/
theorem tExists_iff_ids (d : TDb) (i : Int) : tExists d i = true ↔ i ∈ tIds d := findRow_isSome_iff

/-- `exists(id)` is true exactly when `get(id)` returns a row. -/
theorem tExists_iff_get {s : Schema2} {st : TStmts} (ha : alignedT s st = true) {d : TDb} (hwf : d.Wf) (i : Int) :
    tExists d i = true ↔ ∃ g, tGet st d i = .ok (some g) := by
  unfold tExists
  rcases track_get_defined ha hwf i with ⟨hf, hg⟩ | ⟨raw, g, hf, hg⟩
  · rw [hf, hg]; simp
  · rw [hf, hg]; simp

/-- The id of the row `add` leaves. -/
theorem rowId_added {s : Schema2} {ps : List (WB TCol TField)} {r : Row TField} {l : List (TCol × Val)}
    (hins : alignedW tSpec (TField.writable s) [] ps = true) (he : evalParams r ps = .ok l) (uuid : Val) (i : Int) :
    rowId .id (applyFix uuid (assign (setCol nullRaw .id (.int i)) l)) = i := by
  have := rowId_written hins he uuid (setCol nullRaw .id (.int i)) none
  simp only [stampRow] at this
  rw [this]; simp [rowId, setCol, readInt]

/-- `all_ids()` after `add`: the ids before, and the new one. -/
theorem tIds_add {s : Schema2} {st : TStmts} (ha : alignedT s st = true) {d d' : TDb} {r : Row TField} {i : Int}
    (h : tAdd st d r = (d', .ok i)) : tIds d' = tIds d ++ [i] := by
  simp only [alignedT, Bool.and_eq_true] at ha
  obtain ⟨⟨⟨⟨⟨⟨_, hins⟩, _⟩, _⟩, _⟩, _⟩, _⟩ := ha
  obtain ⟨_, l, he, hi⟩ := tAdd_ok h
  obtain ⟨hi1, hd'⟩ := tInsert_ok hi
  subst hi1 hd'
  simp only [tIds, rowIds, List.map_append, List.map_cons, List.map_nil, rowId_added hins he]

/-- `all_ids()` after `remove`. -/
theorem tIds_remove (st : TStmts) (d : TDb) (i : Int) :
    tIds (tRemove st d i).1 = (tIds d).filter (fun j => !(j == i)) := by
  unfold tRemove
  cases hf : findRow .id d.rows i with
  | none =>
    have hnot : i ∉ tIds d := by
      intro hmem
      have := (tExists_iff_ids d i).mpr hmem
      unfold tExists at this; rw [hf] at this; cases this
    have : (tIds d).filter (fun j => !(j == i)) = tIds d := by
      rw [List.filter_eq_self]
      intro j hj
      have : j ≠ i := fun hji => hnot (hji ▸ hj)
      simpa using this
    rw [this]
    simp only
    split <;> rfl
  | some _ =>
    simp only [tIds, rowIds, delRow, List.filter_map]
    rfl

theorem rowIds_updRow (t : Rows TCol) (i : Int) (new : Raw TCol) (hnew : rowId .id new = i) :
    rowIds .id (updRow .id t i (fun _ => new)) = rowIds .id t := by
  unfold rowIds updRow
  rw [List.map_map]
  apply List.map_congr_left
  intro r _
  simp only [Function.comp]
  split
  · rename_i hri
    rw [hnew]; exact (by simpa using hri : rowId .id r = i).symm
  · rfl

/-- `UPDATE … WHERE id = ?` leaves the id list as it was. -/
theorem tIds_updateWhereId {s : Schema2} {d d' : TDb} {i : Int} {l : List (TCol × Val)} {res : Res Nat}
    (hidcol : TCol.id ∉ l.map (·.1)) (h : tUpdateWhereId s d i l = (d', res)) : tIds d' = tIds d := by
  cases res with
  | ok n =>
    rcases tUpdateWhereId_ok h with ⟨_, hd, _⟩ | ⟨old, hold, _, hd'⟩
    · rw [hd]
    · subst hd'
      obtain ⟨_, hrid⟩ := findRow_some hold
      refine rowIds_updRow d.rows i _ ?_
      unfold afterUpdate
      rw [rowId_stampRow, rowId_applyFix]
      unfold rowId
      rw [assign_not_mem _ _ _ hidcol]; exact hrid
  | throw e => rw [tUpdateWhereId_fail h]
  | ub u => exact absurd (by rw [h]) (tUpdateWhereId_no_ub (s := s) (d := d) (i := i) (l := l) (u := u))

/-- `update` and the per-column setters leave the id list as it was. -/
theorem tIds_update {s : Schema2} {st : TStmts} (ha : alignedT s st = true) (d : TDb) (r : Row TField) :
    tIds (tUpdate s st d r).1 = tIds d := by
  simp only [alignedT, Bool.and_eq_true] at ha
  obtain ⟨⟨⟨⟨⟨⟨_, _⟩, hupd⟩, _⟩, _⟩, _⟩, _⟩ := ha
  unfold tUpdate
  split
  · rfl
  · cases he : evalParams r st.upd with
    | throw e => rfl
    | ub u => rfl
    | ok l =>
      simp only
      cases hrid : r .id with
      | int i =>
        simp only
        cases hu : tUpdateWhereId s d i l with
        | mk d2 res =>
          have := tIds_updateWhereId (id_not_written hupd he) hu
          cases res <;> exact this
      | _ => rfl

theorem tIds_setc {s : Schema2} {st : TStmts} (ha : alignedT s st = true) (d : TDb) {f : TField} (hf : f ≠ .id)
    (i : Int) (v : FVal) : tIds (tSetc s st d f i v).1 = tIds d := by
  simp only [alignedT, Bool.and_eq_true] at ha
  obtain ⟨⟨⟨⟨⟨⟨_, _⟩, _⟩, _⟩, _⟩, hsetters⟩, _⟩ := ha
  obtain ⟨a, hfa, _, hcol, _, _⟩ := findAcc_aligned hsetters hf
  unfold tSetc
  rw [hfa]
  simp only
  split
  · rfl
  · cases hw : wconv a.ty.wconv v with
    | throw e => rfl
    | ub u => rfl
    | ok x =>
      simp only
      cases hu : tUpdateWhereId s d i [(a.col, x)] with
      | mk d2 res =>
        have := tIds_updateWhereId (s := s) (d := d) (i := i) (l := [(a.col, x)])
          (by
            simp only [List.map_cons, List.map_nil, List.mem_singleton, hcol]
            exact fun hc => hf (TField.col_inj (f := f) (g := .id) hc.symm)) hu
        cases res with
        | ok n => simp only; split <;> exact this
        | throw e => exact this
        | ub u => exact this

/-- The path column of the row `add` leaves holds the path written. -/
theorem path_added {s : Schema2} {ps : List (WB TCol TField)} {r : Row TField} {l : List (TCol × Val)}
    (hins : alignedW tSpec (TField.writable s) [] ps = true) (he : evalParams r ps = .ok l)
    (uuid : Val) (base : Raw TCol) {p : Bytes} (hp : r .path = .str p) :
    applyFix uuid (assign base l) .path = .text p := by
  have hw : TField.path ∈ TField.writable s := TField.mem_writable.mpr ⟨by decide, rfl⟩
  obtain ⟨x, hx, hc⟩ := assign_evalParams hins he base hw
  rw [applyFix_other _ _ (by decide) (by decide)]
  rw [show assign base l TCol.path = x from hc]
  rw [hp] at hx
  simp only [tSpec_tyOf, TField.ty, FTy.wconv, wconv, Res.ok.injEq] at hx
  exact hx.symm

/-- **find_id_by_path after add**: the path just written finds the id just assigned. -/
theorem tFind_add {s : Schema2} {st : TStmts} (ha : alignedT s st = true) {d d' : TDb} {r : Row TField} {i : Int}
    (h : tAdd st d r = (d', .ok i)) {p : Bytes} (hp : r .path = .str p) : tFindByPath d' p = some i := by
  simp only [alignedT, Bool.and_eq_true] at ha
  obtain ⟨⟨⟨⟨⟨⟨_, hins⟩, _⟩, _⟩, _⟩, _⟩, _⟩ := ha
  obtain ⟨_, l, he, hi⟩ := tAdd_ok h
  obtain ⟨hi1, hd'⟩ := tInsert_ok hi
  subst hi1 hd'
  unfold tFindByPath
  simp only [List.filter_append, List.filter_cons, List.filter_nil, path_added hins he d.uuid _ hp, beq_self_eq_true,
    if_true, List.getLast?_append, List.getLast?_singleton, Option.some_or, Option.map_some, rowId_added hins he]

/-- **find_id_by_path is sound and complete**: it answers an id exactly when some
row holds that path, and the id it answers is the id of such a row. -/
theorem tFind_spec (d : TDb) (p : Bytes) :
    (tFindByPath d p = none ↔ ∀ raw ∈ d.rows, raw .path ≠ .text p) ∧
    (∀ i, tFindByPath d p = some i → ∃ raw ∈ d.rows, rowId .id raw = i ∧ raw .path = .text p) := by
  unfold tFindByPath
  constructor
  · rw [Option.map_eq_none_iff, List.getLast?_eq_none_iff, List.filter_eq_nil_iff]
    constructor
    · intro h raw hr hc; exact h raw hr (by simp [hc])
    · intro h raw hr hc; exact h raw hr (by simpa using hc)
  · intro i hi
    rw [Option.map_eq_some_iff] at hi
    obtain ⟨raw, hl, hid⟩ := hi
    have hm := List.mem_of_getLast? hl
    rw [List.mem_filter] at hm
    exact ⟨raw, hm.1, hid, by simpa using hm.2⟩

end Table
end EngineModel
