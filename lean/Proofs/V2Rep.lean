/-
Schema 2.x crates, C09 side: the ordered lists `S : Ord` (driven through Spec.Ordered
operations by `ordStep`) are represented (`R`) by the Playlist and PlaylistEntity
tables after every operation — `ChInv` is preserved by `step` / `ordStep`.
-/
import Proofs.V2Forest

set_option linter.dupNamespace false
set_option linter.unusedSimpArgs false

namespace EngineModel.Db.Chain

open EngineModel.Spec EngineModel.ListAux

variable {α : Type}

theorem contains_cons_ne {a l : Int} {L : List Int} (h : l ≠ a) : (a :: L).contains l = L.contains l := by
  have : (l == a) = false := by simpa using h
  rw [List.contains_cons, this, Bool.false_or]

theorem contains_cons_self {a : Int} {L : List Int} : (a :: L).contains a = true := by
  simp [List.contains_cons]

theorem R_congr {A A' : Int → List Int} {t : Table α} (h : R A t) (he : ∀ k, A' k = A k) : R A' t := by
  have : A' = A := funext he
  rw [this]; exact h

theorem mem_deleteCascade_core {t : Table α} {i : Int} {r : Row α} (hr : r ∈ deleteCascade t i) :
    ∃ r0 ∈ t, core r0 = core r := by
  cases hg : get t i with
  | none => rw [deleteCascade_none hg] at hr; exact ⟨r, hr, rfl⟩
  | some old =>
    have : core r ∈ cores (deleteCascade t i) := mem_cores.mpr ⟨r, hr, rfl⟩
    rw [cores_deleteCascade hg] at this
    exact mem_cores.mp (List.mem_filter.mp this).1

theorem clearKey_fires {t : Table α} (fires : Row α → Bool) (hv : ∀ r r' : Row α, r.val = r'.val → fires r = fires r')
    (hf : ∀ r ∈ t, fires r = true) (k : Int) : ∀ r ∈ clearKey fires t k, fires r = true := by
  unfold clearKey
  generalize (rowsOf t k).map (·.id) = L
  induction L generalizing t with
  | nil => exact hf
  | cons a L ih =>
    simp only [List.foldl_cons]
    exact ih (deleteKeyed_fires fires hv hf k a)

theorem ids_deleteKeyed_sub (fires : Row α → Bool) (t : Table α) (k i : Int) :
    ∀ x ∈ ids (deleteKeyed fires t k i), x ∈ ids t := by
  intro x hx
  unfold deleteKeyed at hx
  cases hf : (rowsOf t k).find? (·.id == i) with
  | none => rw [hf] at hx; exact hx
  | some old =>
    rw [hf] at hx
    simp only [ids, List.mem_map] at hx ⊢
    obtain ⟨r, hr, e⟩ := hx
    have hr' := (List.mem_filter.mp hr).1
    split at hr'
    · obtain ⟨r0, hr0, rfl⟩ := mem_updNext.mp hr'
      exact ⟨r0, hr0, by rw [← e, updRow_id]⟩
    · exact ⟨r, hr', e⟩

theorem ids_clearKey_sub (fires : Row α → Bool) (t : Table α) (k : Int) :
    ∀ x ∈ ids (clearKey fires t k), x ∈ ids t := by
  unfold clearKey
  generalize (rowsOf t k).map (·.id) = L
  induction L generalizing t with
  | nil => intro x hx; exact hx
  | cons a L ih =>
    intro x hx
    simp only [List.foldl_cons] at hx
    exact ids_deleteKeyed_sub fires t k a x (ih _ x hx)

theorem ids_foldl_clearKey_sub (fires : Row α → Bool) (G : List Int) (t : Table α) :
    ∀ x ∈ ids (G.foldl (fun t i => clearKey fires t i) t), x ∈ ids t := by
  induction G generalizing t with
  | nil => intro x hx; exact hx
  | cons g G ih =>
    intro x hx
    simp only [List.foldl_cons] at hx
    exact ids_clearKey_sub fires t g x (ih _ x hx)

theorem mem_appendBack {t : Table α} {n k : Int} {v : α} {r : Row α} (hr : r ∈ appendBack t n k v) :
    (∃ r0 ∈ t, r.id = r0.id ∧ r.val = r0.val) ∨ (r.id = n ∧ r.val = v) := by
  unfold appendBack at hr
  obtain ⟨r0, hr0, rfl⟩ := mem_updNext.mp hr
  simp only [List.mem_append, List.mem_singleton] at hr0
  rcases hr0 with h | rfl
  · left; exact ⟨r0, h, by simp, by simp⟩
  · right; simp

/-- `DELETE FROM PlaylistEntity WHERE listId = ?` for each list of `G`: their listings are dropped. -/
theorem R_foldl_clearKey {A : Int → List Int} {t : Table α} (h : R A t) (fires : Row α → Bool)
    (hv : ∀ r r' : Row α, r.val = r'.val → fires r = fires r') (hf : ∀ r ∈ t, fires r = true) (G : List Int) :
    R (fun k => if G.contains k then [] else A k) (G.foldl (fun t i => clearKey fires t i) t) ∧
    ∀ r ∈ G.foldl (fun t i => clearKey fires t i) t, fires r = true := by
  induction G generalizing A t with
  | nil => simpa using ⟨h, hf⟩
  | cons g G ih =>
    simp only [List.foldl_cons]
    obtain ⟨h1, h2⟩ := ih (R_clearKey h fires hv hf g) (clearKey_fires fires hv hf g)
    refine ⟨R_congr h1 ?_, h2⟩
    intro k
    show (if (g :: G).contains k = true then [] else A k) = if G.contains k = true then [] else setKey A g [] k
    by_cases hk : k = g
    · subst hk
      rw [contains_cons_self, setKey_same]
      simp
    · rw [contains_cons_ne hk, setKey_other _ _ hk]

/-- `DELETE FROM Playlist WHERE id = ?` for each of `L ⊆ G`, the rows of `L` being children of members of `G`:
the listings of the keys outside `G` are untouched. -/
theorem R_foldl_deleteCascade (G : List Int) : ∀ (L : List Int) (u : Table α) (A : Int → List Int), R A u →
    (∀ a ∈ L, a ∈ G) → (∀ a ∈ L, ∀ r ∈ u, r.id = a → r.key ∈ G) →
    ∃ A', R A' (L.foldl deleteCascade u) ∧ ∀ k, k ∉ G → A' k = A k := by
  intro L
  induction L with
  | nil => intro u A h _ _; exact ⟨A, h, fun _ _ => rfl⟩
  | cons a L ih =>
    intro u A h hLG hkey
    simp only [List.foldl_cons]
    have hkey' : ∀ a' ∈ L, ∀ r ∈ deleteCascade u a, r.id = a' → r.key ∈ G := by
      intro a' ha' r hr e
      obtain ⟨r0, hr0, hc⟩ := mem_deleteCascade_core hr
      have e1 : r0.id = r.id := congrArg (·.1) hc
      have e2 : r0.key = r.key := congrArg (·.2.1) hc
      rw [← e2]
      exact hkey a' (List.mem_cons_of_mem _ ha') r0 hr0 (e1.trans e)
    cases hg : get u a with
    | none =>
      rw [deleteCascade_none hg] at hkey' ⊢
      exact ih u A h (fun a' ha' => hLG a' (List.mem_cons_of_mem _ ha')) hkey'
    | some old =>
      obtain ⟨hold, hid⟩ := get_some hg
      obtain ⟨A', h1, h2⟩ := ih _ _ (R_deleteCascade h hg) (fun a' ha' => hLG a' (List.mem_cons_of_mem _ ha')) hkey'
      refine ⟨A', h1, ?_⟩
      intro k hk
      rw [h2 k hk]
      have hka : k ≠ a := fun e => hk (e ▸ hLG a (by simp))
      have hko : k ≠ old.key := fun e => hk (e ▸ hkey a (by simp) old hold hid)
      rw [setKey_other _ _ hka, setKey_other _ _ hko]

/-- database::remove_track's loop over the lists `L` (pairwise different): in each, the entry of track `tv`
(the last such row, as playlist_entity_table::get reads it) is deleted. -/
theorem R_foldl_removeTrack (fires : Row V2.Ent → Bool)
    (hv : ∀ r r' : Row V2.Ent, r.val = r'.val → fires r = fires r')
    (tv : Int) : ∀ (L : List Int), L.Nodup → ∀ (pe : Table V2.Ent) (B : Int → List Int), R B pe → (∀ r ∈ pe, fires r = true) →
    let step := fun (pe : Table V2.Ent) (l : Int) =>
      match (pe.filter (fun r => r.key == l && r.val.track == tv)).getLast? with
      | some e => deleteKeyed fires pe l e.id
      | none => pe
    R (fun l => if L.contains l then
          (match (pe.filter (fun r => r.key == l && r.val.track == tv)).getLast? with
           | some e => (B l).erase e.id
           | none => B l)
        else B l) (L.foldl step pe) ∧
    (∀ r ∈ L.foldl step pe, fires r = true) ∧ (∀ i ∈ ids (L.foldl step pe), i ∈ ids pe) := by
  intro L
  induction L with
  | nil => intro _ pe B h hf; simpa using ⟨h, hf⟩
  | cons a L ih =>
    intro hnd pe B h hf
    have hnd' := List.nodup_cons.mp hnd
    simp only [List.foldl_cons]
    -- the first list
    have hlook : ∀ (p : Table V2.Ent) (l : Int), p.filter (fun r => r.key == l && r.val.track == tv) = (rowsOf p l).filter (fun r => r.val.track == tv) := by
      intro p l; unfold rowsOf; rw [List.filter_filter]
      apply List.filter_congr; intro r _; exact Bool.and_comm _ _
    cases hl : (pe.filter (fun r => r.key == a && r.val.track == tv)).getLast? with
    | none =>
      simp only
      obtain ⟨h1, h2, h3⟩ := ih hnd'.2 pe B h hf
      refine ⟨R_congr h1 ?_, h2, h3⟩
      intro l
      show (if (a :: L).contains l = true then _ else _) = if L.contains l = true then _ else _
      by_cases hla : l = a
      · subst hla
        have : L.contains l = false := by simpa using hnd'.1
        rw [contains_cons_self, this, hl]
        rfl
      · rw [contains_cons_ne hla]
    | some e =>
      simp only
      have hpe1 := R_deleteKeyed h fires hf a e.id
      have hf1 := deleteKeyed_fires fires hv hf a e.id
      obtain ⟨h1, h2, h3⟩ := ih hnd'.2 _ _ hpe1 hf1
      refine ⟨R_congr h1 ?_, h2, fun i hi => ids_deleteKeyed_sub fires pe a e.id i (h3 i hi)⟩
      intro l
      show (if (a :: L).contains l = true then _ else _) = if L.contains l = true then _ else _
      by_cases hla : l = a
      · subst hla
        have : L.contains l = false := by simpa using hnd'.1
        rw [contains_cons_self, this, hl, setKey_same]
        rfl
      · rw [contains_cons_ne hla, hlook (deleteKeyed fires pe a e.id) l, rowsOf_deleteKeyed_other fires h.ids_nodup hla,
          ← hlook pe l, setKey_other _ _ hla]

end EngineModel.Db.Chain

namespace EngineModel.Db.V2

open EngineModel.Db.Chain EngineModel.Spec EngineModel.Spec.Forest EngineModel.ListAux

/-- The chain invariant: the tables represent the ordered lists, the delete trigger of PlaylistEntity fires for
every row, ids are within the AUTOINCREMENT counters. -/
structure ChInv (S : Ord) (d : Db) : Prop where
  rk : R S.kids d.pl
  re : R S.ents d.pe
  fires : ∀ r ∈ d.pe, fires r = true
  plSeq : ∀ i ∈ ids d.pl, i ≤ d.plSeq
  plSeq0 : 0 ≤ d.plSeq
  peSeq : ∀ i ∈ ids d.pe, i ≤ d.peSeq
  peSeq0 : 0 ≤ d.peSeq
  trPos : ∀ t ∈ d.tracks, 0 < t
  trSeq0 : 0 ≤ d.trSeq

theorem R_empty {α : Type} : R (fun _ => []) ([] : Table α) := by
  constructor <;> simp [ids]

theorem chInv_empty : ChInv Ord.empty Db.empty := by
  constructor <;> first | exact R_empty | simp [Db.empty, ids]

theorem fires_val (r r' : Row Ent) (h : r.val = r'.val) : fires r = fires r' := by
  simp [fires, h]

theorem ordStep_throw {S : Ord} {d : Db} {op : Op} {e : Exn} (h : step d op = (d, .throw e)) :
    ordStep S d op = S := by
  unfold ordStep; rw [h]

theorem chInv_throw {S : Ord} {d : Db} {op : Op} {e : Exn} (hI : ChInv S d) (h : step d op = (d, .throw e)) :
    ChInv (ordStep S d op) (step d op).1 := by
  rw [ordStep_throw h, h]; exact hI

/-- A change of the Playlist table alone. -/
theorem ChInv.withPl {S : Ord} {d : Db} (hI : ChInv S d) {K : Int → List Int} {pl : Table Bytes} {seq : Int}
    (hk : R K pl) (hs : ∀ i ∈ ids pl, i ≤ seq) (hs0 : 0 ≤ seq) :
    ChInv { S with kids := K } { d with pl := pl, plSeq := seq } :=
  ⟨hk, hI.re, hI.fires, hs, hs0, hI.peSeq, hI.peSeq0, hI.trPos, hI.trSeq0⟩

/-- A change of the PlaylistEntity table alone. -/
theorem ChInv.withPe {S : Ord} {d : Db} (hI : ChInv S d) {E : Int → List Int} {pe : Table Ent} {seq : Int}
    (he : R E pe) (hf : ∀ r ∈ pe, V2.fires r = true) (hs : ∀ i ∈ ids pe, i ≤ seq) (hs0 : 0 ≤ seq) :
    ChInv { S with ents := E } { d with pe := pe, peSeq := seq } :=
  ⟨hI.rk, he, hf, hI.plSeq, hI.plSeq0, hs, hs0, hI.trPos, hI.trSeq0⟩

theorem ids_subset_of_cores_filter {α : Type} {t t' : Table α} {q : Int × Int × α → Bool}
    (h : cores t' = (cores t).filter q) : ∀ i ∈ ids t', i ∈ ids t := by
  intro i hi
  rw [ids_eq_cores, h] at hi
  rw [ids_eq_cores]
  obtain ⟨c, hc, e⟩ := List.mem_map.mp hi
  exact List.mem_map.mpr ⟨c, (List.mem_filter.mp hc).1, e⟩

/-! ### creation -/

theorem chInv_add {S : Ord} {d : Db} (hI : ChInv S d) {op : Op} {name : Bytes} {k b : Int} {L : List Int}
    (hstep : step d op = ({ d with pl := insertBefore d.pl (d.plSeq + 1) k b name, plSeq := d.plSeq + 1 }, .ok (some (d.plSeq + 1))))
    (hord : ordStep S d op = { S with kids := setKey S.kids k L })
    (hb : b = 0 ∨ b ∈ S.kids k) (hL : L = Ordered.insertBefore b (d.plSeq + 1) (S.kids k)) :
    ChInv (ordStep S d op) (step d op).1 := by
  rw [hord, hstep, hL]
  have hfresh : d.plSeq + 1 ∉ ids d.pl := by
    intro h; have := hI.plSeq _ h; omega
  have hpos : 0 < d.plSeq + 1 := by have := hI.plSeq0; omega
  refine hI.withPl (R_insertBefore hI.rk name hpos hfresh hb) ?_ (by omega)
  intro i hi
  rw [ids_eq_cores, cores_insertBefore] at hi
  simp only [List.map_append, List.map_cons, List.map_nil, List.mem_append, List.mem_singleton] at hi
  rcases hi with hi | hi
  · rw [← ids_eq_cores] at hi; have := hI.plSeq i hi; omega
  · omega

theorem next_zero_or_mem {α : Type} {A : Int → List Int} {t : Table α} (h : R A t) {r : Row α} (hr : r ∈ t) :
    r.next = 0 ∨ r.next ∈ A r.key := by
  rw [h.next r hr]; exact succ_mem_or_zero _ _

theorem ordStep_ok {S : Ord} {d : Db} {op : Op} {d' : Db} {out : Out} (h : step d op = (d', .ok out)) :
    ordStep S d op = ordOk S d op out := by
  unfold ordStep; rw [h]

theorem chInv_createRoot {S : Ord} {d : Db} (hI : ChInv S d) (name : Bytes) :
    ChInv (ordStep S d (.createRoot name)) (step d (.createRoot name)).1 := by
  by_cases hf : (findId d 0 name).isSome = true
  · exact chInv_throw (e := exn "crate_already_exists") hI (by simp [step, hf])
  · have hf' : (findId d 0 name).isSome = false := by simpa using hf
    have hstep : step d (.createRoot name) = plAdd d name 0 0 := by simp [step, hf']
    by_cases hv : Forest.validName name = true
    · rw [plAdd_valid d 0 0 hv] at hstep
      exact chInv_add hI hstep (ordStep_ok hstep) (Or.inl rfl) (insertBefore_zero (hI.rk.ne0 0)).symm
    · have hv' : Forest.validName name = false := by simpa using hv
      rw [plAdd_invalid d 0 0 hv'] at hstep
      exact chInv_throw hI hstep

theorem chInv_createSub {S : Ord} {d : Db} (hI : ChInv S d) (p : Int) (name : Bytes) :
    ChInv (ordStep S d (.createSub p name)) (step d (.createSub p name)).1 := by
  by_cases he : plExists d p = true
  · by_cases hf : (findId d p name).isSome = true
    · exact chInv_throw (e := exn "crate_already_exists") hI (by simp [step, he, hf])
    · have hf' : (findId d p name).isSome = false := by simpa using hf
      have hstep : step d (.createSub p name) = plAdd d name p 0 := by simp [step, he, hf']
      by_cases hv : Forest.validName name = true
      · rw [plAdd_valid d p 0 hv] at hstep
        exact chInv_add hI hstep (ordStep_ok hstep) (Or.inl rfl) (insertBefore_zero (hI.rk.ne0 p)).symm
      · have hv' : Forest.validName name = false := by simpa using hv
        rw [plAdd_invalid d p 0 hv'] at hstep
        exact chInv_throw hI hstep
  · have he' : plExists d p = false := by simpa using he
    exact chInv_throw (e := exn "crate_deleted") hI (by simp [step, he'])

/-- "after `a`" = "before the successor of `a`", which is what the row of `a` stores. -/
theorem after_eq_before {S : Ord} {d : Db} (hI : ChInv S d) {after : Int} {a : Row Bytes} (hg : get d.pl after = some a)
    (n : Int) :
    (a.next = 0 ∨ a.next ∈ S.kids a.key) ∧
    Ordered.insertAfter after n (S.kids a.key) = Ordered.insertBefore a.next n (S.kids a.key) := by
  obtain ⟨ha, hid⟩ := get_some hg
  refine ⟨next_zero_or_mem hI.rk ha, ?_⟩
  have hm : after ∈ S.kids a.key := hid ▸ hI.rk.mem a ha
  rw [insertAfter_eq_insertBefore (hI.rk.nodup _) (hI.rk.ne0 _) hm, hI.rk.next a ha, hid]

theorem chInv_createRootAfter {S : Ord} {d : Db} (hI : ChInv S d) (name : Bytes) (after : Int) :
    ChInv (ordStep S d (.createRootAfter name after)) (step d (.createRootAfter name after)).1 := by
  by_cases hf : (findId d 0 name).isSome = true
  · exact chInv_throw (e := exn "crate_already_exists") hI (by simp [step, hf])
  · have hf' : (findId d 0 name).isSome = false := by simpa using hf
    cases hg : get d.pl after with
    | none => exact chInv_throw (e := exn "crate_deleted") hI (by simp [step, hf', hg])
    | some a =>
      by_cases hk : a.key = 0
      · have hk' : (a.key != 0) = false := by simp [hk]
        have hstep : step d (.createRootAfter name after) = plAdd d name 0 a.next := by simp [step, hf', hg, hk']
        by_cases hv : Forest.validName name = true
        · rw [plAdd_valid d 0 a.next hv] at hstep
          obtain ⟨h1, h2⟩ := after_eq_before hI hg (d.plSeq + 1)
          rw [hk] at h1 h2
          exact chInv_add hI hstep (ordStep_ok hstep) h1 h2
        · have hv' : Forest.validName name = false := by simpa using hv
          rw [plAdd_invalid d 0 a.next hv'] at hstep
          exact chInv_throw hI hstep
      · have hk' : (a.key != 0) = true := by simpa using hk
        exact chInv_throw (e := exn "crate_invalid_parent") hI (by simp [step, hf', hg, hk'])

theorem chInv_createSubAfter {S : Ord} {d : Db} (hI : ChInv S d) (p : Int) (name : Bytes) (after : Int) :
    ChInv (ordStep S d (.createSubAfter p name after)) (step d (.createSubAfter p name after)).1 := by
  by_cases he : plExists d p = true
  · by_cases hf : (findId d p name).isSome = true
    · exact chInv_throw (e := exn "crate_already_exists") hI (by simp [step, he, hf])
    · have hf' : (findId d p name).isSome = false := by simpa using hf
      cases hg : get d.pl after with
      | none => exact chInv_throw (e := exn "crate_deleted") hI (by simp [step, he, hf', hg])
      | some a =>
        by_cases hk : a.key = p
        · have hk' : (a.key != p) = false := by simp [hk]
          have hstep : step d (.createSubAfter p name after) = plAdd d name p a.next := by simp [step, he, hf', hg, hk']
          by_cases hv : Forest.validName name = true
          · rw [plAdd_valid d p a.next hv] at hstep
            obtain ⟨h1, h2⟩ := after_eq_before hI hg (d.plSeq + 1)
            rw [hk] at h1 h2
            exact chInv_add hI hstep (ordStep_ok hstep) h1 h2
          · have hv' : Forest.validName name = false := by simpa using hv
            rw [plAdd_invalid d p a.next hv'] at hstep
            exact chInv_throw hI hstep
        · have hk' : (a.key != p) = true := by simpa using hk
          exact chInv_throw (e := exn "crate_invalid_parent") hI (by simp [step, he, hf', hg, hk'])
  · have he' : plExists d p = false := by simpa using he
    exact chInv_throw (e := exn "crate_deleted") hI (by simp [step, he'])

/-! ### rename, re-parent -/

theorem ids_setVal {α : Type} (t : Table α) (i : Int) (v : α) : ids (setVal t i v) = ids t := by
  rw [ids_eq_cores, cores_setVal, ids_eq_cores, List.map_map]
  apply List.map_congr_left
  intro c _
  simp only [Function.comp]
  split <;> rfl

theorem ids_move {α : Type} (t : Table α) (i ok on nk tg : Int) (v : α) : ids (move t i ok on nk tg v) = ids t := by
  rw [ids_eq_cores, cores_move, ids_eq_cores, List.map_map]
  apply List.map_congr_left
  intro c _
  simp only [Function.comp]
  by_cases h : (c.1 == i) = true
  · have : c.1 = i := by simpa using h
    simp [h, this]
  · simp [h]

theorem chInv_setVal {S : Ord} {d : Db} (hI : ChInv S d) {op : Op} {i : Int} {v : Bytes}
    (hstep : step d op = ({ d with pl := setVal d.pl i v }, .ok none)) (hord : ordStep S d op = S) :
    ChInv (ordStep S d op) (step d op).1 := by
  rw [hord, hstep]
  have := hI.withPl (K := S.kids) (seq := d.plSeq) (R_setVal hI.rk i v) (by rw [ids_setVal]; exact hI.plSeq) hI.plSeq0
  exact this

theorem chInv_rename {S : Ord} {d : Db} (hI : ChInv S d) (c : Int) (name : Bytes) :
    ChInv (ordStep S d (.rename c name)) (step d (.rename c name)).1 := by
  cases hg : get d.pl c with
  | none => exact chInv_throw (e := exn "crate_deleted") hI (by simp [step, hg])
  | some row =>
    have hstep : step d (.rename c name) = plUpdate d c name row.key row.next := by simp [step, hg]
    by_cases hv : Forest.validName name = true
    · by_cases hc : titleClash d.pl c row.key name = true
      · rw [plUpdate_clash d row.next hv hg hc] at hstep
        exact chInv_throw hI hstep
      · have hc' : titleClash d.pl c row.key name = false := by simpa using hc
        rw [plUpdate_same d hv hg hc'] at hstep
        exact chInv_setVal hI hstep (ordStep_ok hstep)
    · have hv' : Forest.validName name = false := by simpa using hv
      rw [plUpdate_invalid d c row.key row.next hv'] at hstep
      exact chInv_throw hI hstep

theorem chInv_setParentCore {S : Ord} {d : Db} (hI : ChInv S d) {c : Int} {p : Option Int} {row : Row Bytes}
    (hg : get d.pl c = some row) (hstep : step d (.setParent c p) = setParentCore d c row (keyOf p)) :
    ChInv (ordStep S d (.setParent c p)) (step d (.setParent c p)).1 := by
  obtain ⟨hrow, hid⟩ := get_some hg
  unfold setParentCore at hstep
  by_cases hv : Forest.validName row.val = true
  · by_cases hk : row.key = keyOf p
    · have hk' : (row.key != keyOf p) = false := by simp [hk]
      rw [hk'] at hstep
      simp only [Bool.false_eq_true, if_false] at hstep
      by_cases hc : titleClash d.pl c row.key row.val = true
      · rw [plUpdate_clash d row.next hv hg hc] at hstep
        exact chInv_throw hI hstep
      · have hc' : titleClash d.pl c row.key row.val = false := by simpa using hc
        rw [plUpdate_same d hv hg hc'] at hstep
        refine chInv_setVal hI hstep ?_
        rw [ordStep_ok hstep]
        simp only [ordOk, hg, hk']
        rfl
    · have hk' : (row.key != keyOf p) = true := by simpa using hk
      rw [hk'] at hstep
      simp only [if_true] at hstep
      by_cases hc : titleClash d.pl c (keyOf p) row.val = true
      · rw [plUpdate_clash d 0 hv hg hc] at hstep
        exact chInv_throw hI hstep
      · have hc' : titleClash d.pl c (keyOf p) row.val = false := by simpa using hc
        rw [plUpdate_move d 0 hv hg hk hc'] at hstep
        have hord : ordStep S d (.setParent c p) = { S with kids := moveKid S.kids row.key (keyOf p) c } := by
          rw [ordStep_ok hstep]
          simp only [ordOk, hg, hk', if_true]
        rw [hord, hstep]
        unfold moveKid
        have hm := R_move hI.rk hrow (nk := keyOf p) (target := 0) (fun e => hk e.symm) (Or.inl rfl) row.val
        rw [hid] at hm
        rw [insertBefore_zero (hI.rk.ne0 _)] at hm
        rw [setKey_other _ _ (fun e => hk e.symm)]
        exact hI.withPl hm (by rw [ids_move]; exact hI.plSeq) hI.plSeq0
  · have hv' : Forest.validName row.val = false := by simpa using hv
    by_cases hk : (row.key != keyOf p) = true
    · rw [hk] at hstep
      simp only [if_true] at hstep
      rw [plUpdate_invalid d c (keyOf p) 0 hv'] at hstep
      exact chInv_throw hI hstep
    · have hk' : (row.key != keyOf p) = false := by simpa using hk
      rw [hk'] at hstep
      simp only [Bool.false_eq_true, if_false] at hstep
      rw [plUpdate_invalid d c row.key row.next hv'] at hstep
      exact chInv_throw hI hstep

theorem chInv_setParent {S : Ord} {d : Db} (hI : ChInv S d) (c : Int) (p : Option Int) :
    ChInv (ordStep S d (.setParent c p)) (step d (.setParent c p)).1 := by
  by_cases hpc : p = some c
  · subst hpc
    exact chInv_throw (e := exn "crate_invalid_parent") hI (by simp [step])
  · have hpc' : (p == some c) = false := by simpa using hpc
    cases hg : get d.pl c with
    | none => exact chInv_throw (e := exn "crate_deleted") hI (by simp [step, hpc', hg])
    | some row =>
      cases p with
      | none =>
        refine chInv_setParentCore hI hg ?_
        simp only [step, hpc', hg, setParentCore, keyOf]
        rfl
      | some q =>
        by_cases he : plExists d q = true
        · by_cases hdesc : q ∈ descendantIds d.pl c
          · exact chInv_throw (e := exn "crate_invalid_parent") hI (by simp [step, hpc', hg, he, hdesc])
          · have hdesc' : (descendantIds d.pl c).contains q = false := by simpa using hdesc
            refine chInv_setParentCore hI hg ?_
            simp only [step, hpc', hg, he, hdesc', setParentCore, keyOf]
            rfl
        · have he' : plExists d q = false := by simpa using he
          exact chInv_throw (e := exn "crate_deleted") hI (by simp [step, hpc', hg, he'])

/-! ### remove_crate -/

theorem chInv_removeCrate {S : Ord} {d : Db} (hI : ChInv S d) (c : Int) :
    ChInv (ordStep S d (.removeCrate c)) (step d (.removeCrate c)).1 := by
  by_cases he : plExists d c = true
  · have hstep : step d (.removeCrate c) = (plRemove d c, .ok none) := by simp [step, he]
    have hc : c ∈ ids d.pl := plExists_iff.mp he
    have hn := hI.rk.ids_nodup
    have hpos := hI.rk.id_pos
    obtain ⟨row, hg⟩ : ∃ row, get d.pl c = some row := by
      cases hg : get d.pl c with
      | none => exact absurd hc (get_none hg)
      | some row => exact ⟨row, rfl⟩
    obtain ⟨hrow, hid⟩ := get_some hg
    have hord : ordStep S d (.removeCrate c) =
        { kids := clearKeys (setKey S.kids row.key ((S.kids row.key).erase c)) (c :: descendantIds d.pl c),
          ents := clearKeys S.ents (c :: descendantIds d.pl c) } := by
      rw [ordStep_ok hstep]; simp only [ordOk, hg]
    rw [hord, hstep]
    -- entries
    obtain ⟨hpe, hfires⟩ := R_foldl_clearKey hI.re fires fires_val hI.fires (c :: descendantIds d.pl c)
    -- siblings: the row itself, then the descendants
    have hclosed := gone_closed hn hpos hc
    have hcores : cores ((c :: descendantIds d.pl c).foldl deleteCascade d.pl)
        = (cores d.pl).filter (fun k => !(c :: descendantIds d.pl c).contains k.1) :=
      cores_foldl_deleteCascade _ _ hclosed
    have h1 := R_deleteCascade hI.rk hg
    have hkeys : ∀ a ∈ descendantIds d.pl c, ∀ r ∈ deleteCascade d.pl c, r.id = a → r.key ∈ c :: descendantIds d.pl c := by
      intro a ha r hr e
      obtain ⟨r0, hr0, hcore⟩ := mem_deleteCascade_core hr
      have e1 : r0.id = r.id := congrArg (·.1) hcore
      have e2 : r0.key = r.key := congrArg (·.2.1) hcore
      rw [← e2]
      have hanc := (mem_descendantIds.mp ha).2
      obtain ⟨p', hp', hor⟩ := Forest.isAncestor_step hanc
      rw [← e, ← e1, absF_parentOf_row hn hr0, parentOpt_eq_some] at hp'
      rw [hp'.1]
      rcases hor with h | h
      · rw [h]; simp
      · refine List.mem_cons_of_mem _ (mem_descendantIds.mpr ⟨?_, h⟩)
        rw [← absF_ids]; exact Forest.descendant_live h
    obtain ⟨A', hA', hA'eq⟩ := R_foldl_deleteCascade (c :: descendantIds d.pl c) (descendantIds d.pl c) _ _ h1
      (fun a ha => List.mem_cons_of_mem _ ha) hkeys
    have hfinal : (c :: descendantIds d.pl c).foldl deleteCascade d.pl
        = (descendantIds d.pl c).foldl deleteCascade (deleteCascade d.pl c) := rfl
    have hkids : R (clearKeys (setKey S.kids row.key ((S.kids row.key).erase c)) (c :: descendantIds d.pl c))
        ((c :: descendantIds d.pl c).foldl deleteCascade d.pl) := by
      rw [hfinal]
      refine R_congr hA' ?_
      intro k
      unfold clearKeys
      by_cases hk : (c :: descendantIds d.pl c).contains k = true
      · rw [if_pos hk]
        symm
        apply hA'.nil_of_no_rows
        intro r hr hrk
        rw [← hfinal] at hr
        have hcr : core r ∈ cores ((c :: descendantIds d.pl c).foldl deleteCascade d.pl) := mem_cores.mpr ⟨r, hr, rfl⟩
        rw [hcores] at hcr
        obtain ⟨h2, h3⟩ := List.mem_filter.mp hcr
        have := hclosed (core r) h2 (by simp only [core]; rw [hrk]; exact hk)
        simp only [core] at this h3
        rw [this] at h3
        exact absurd h3 (by simp)
      · rw [if_neg hk]
        have hk' : k ∉ c :: descendantIds d.pl c := fun h => hk (List.contains_iff_mem.mpr h)
        rw [hA'eq k hk']
        have hkc : k ≠ c := fun e => hk' (e ▸ List.mem_cons_self)
        rw [setKey_other _ _ hkc]
    unfold plRemove
    refine ⟨hkids, hpe, hfires, ?_, hI.plSeq0, ?_, hI.peSeq0, hI.trPos, hI.trSeq0⟩
    · intro i hi
      exact hI.plSeq i (ids_subset_of_cores_filter hcores i hi)
    · intro i hi
      exact hI.peSeq i (ids_foldl_clearKey_sub fires _ _ i hi)
  · have he' : plExists d c = false := by simpa using he
    exact chInv_throw (e := .invalid_argument) hI (by simp [step, he'])

/-! ### entries -/

theorem chInv_addBack {S : Ord} {d : Db} (hI : ChInv S d) {op : Op} {l t u : Int} {f : Bool} (ht : 0 < t)
    (hstep : step d op = peAddBack d l t u f)
    (hord : ∀ out, ordOk S d op out = (match out with
      | some e => if (peFind d l t u).isNone then { S with ents := setKey S.ents l (S.ents l ++ [e]) } else S
      | none => S)) :
    ChInv (ordStep S d op) (step d op).1 := by
  unfold peAddBack at hstep
  cases hg : peFind d l t u with
  | some e =>
    rw [hg] at hstep
    cases f with
    | true => exact chInv_throw hI hstep
    | false =>
      simp only [Bool.false_eq_true, if_false] at hstep
      rw [ordStep_ok hstep, hord, hstep]
      simp only [hg, Option.isNone_some, Bool.false_eq_true, if_false]
      exact hI
  | none =>
    rw [hg] at hstep
    simp only at hstep
    rw [ordStep_ok hstep, hord, hstep]
    simp only [hg, Option.isNone_none, if_true]
    have hfresh : d.peSeq + 1 ∉ ids d.pe := by
      intro h; have := hI.peSeq _ h; omega
    have hpos : 0 < d.peSeq + 1 := by have := hI.peSeq0; omega
    refine hI.withPe (R_appendBack hI.re ⟨t, u⟩ hpos hfresh) ?_ ?_ (by omega)
    · intro r hr
      rcases mem_appendBack hr with ⟨r0, hr0, _, e⟩ | ⟨_, e⟩
      · rw [fires_val r r0 e]; exact hI.fires r0 hr0
      · simp [fires, e, ht]
    · intro i hi
      rw [ids_eq_cores, cores_appendBack] at hi
      simp only [List.map_append, List.map_cons, List.map_nil, List.mem_append, List.mem_singleton] at hi
      rcases hi with hi | hi
      · rw [← ids_eq_cores] at hi; have := hI.peSeq i hi; omega
      · omega

theorem chInv_deleteKeyed {S : Ord} {d : Db} (hI : ChInv S d) {op : Op} {l e : Int}
    (hstep : step d op = ({ d with pe := deleteKeyed fires d.pe l e }, .ok none))
    (hord : ordStep S d op = { S with ents := setKey S.ents l ((S.ents l).erase e) }) :
    ChInv (ordStep S d op) (step d op).1 := by
  rw [hord, hstep]
  exact hI.withPe (seq := d.peSeq) (R_deleteKeyed hI.re fires hI.fires l e) (deleteKeyed_fires fires fires_val hI.fires l e)
    (fun i hi => hI.peSeq i (ids_deleteKeyed_sub fires _ _ _ i hi)) hI.peSeq0

theorem chInv_clearKey {S : Ord} {d : Db} (hI : ChInv S d) {op : Op} {l : Int}
    (hstep : step d op = ({ d with pe := clearKey fires d.pe l }, .ok none))
    (hord : ordStep S d op = { S with ents := setKey S.ents l [] }) :
    ChInv (ordStep S d op) (step d op).1 := by
  rw [hord, hstep]
  exact hI.withPe (seq := d.peSeq) (R_clearKey hI.re fires fires_val hI.fires l) (clearKey_fires fires fires_val hI.fires l)
    (fun i hi => hI.peSeq i (ids_clearKey_sub fires _ _ i hi)) hI.peSeq0

theorem chInv_removeTrack {S : Ord} {d : Db} (hI : ChInv S d) (t : Int) :
    ChInv (ordStep S d (.removeTrack t)) (step d (.removeTrack t)).1 := by
  by_cases hc : t ∈ d.tracks
  · have hstep : step d (.removeTrack t) = ({ d with
        pe := (ids d.pl).foldl (fun pe l =>
          match (pe.filter (fun r => r.key == l && r.val.track == t)).getLast? with
          | some e => deleteKeyed fires pe l e.id
          | none => pe) d.pe,
        tracks := d.tracks.filter (· != t) }, .ok none) := by
      have hct : d.tracks.contains t = true := List.contains_iff_mem.mpr hc
      show (if d.tracks.contains t then _ else _) = _
      rw [if_pos hct]
      rfl
    rw [ordStep_ok hstep, hstep]
    obtain ⟨h1, h2, h3⟩ := R_foldl_removeTrack fires fires_val t (ids d.pl) hI.rk.ids_nodup d.pe S.ents hI.re hI.fires
    refine ⟨hI.rk, h1, h2, hI.plSeq, hI.plSeq0, fun i hi => hI.peSeq i (h3 i hi), hI.peSeq0, ?_, hI.trSeq0⟩
    intro x hx
    exact hI.trPos x (List.mem_filter.mp hx).1
  · exact chInv_throw (e := .invalid_argument) hI (by simp [step, hc])

theorem chInv_step {S : Ord} {d : Db} (hI : ChInv S d) (op : Op) (hok : okOp op = true) :
    ChInv (ordStep S d op) (step d op).1 := by
  cases op with
  | createRoot n => exact chInv_createRoot hI n
  | createRootAfter n a => exact chInv_createRootAfter hI n a
  | createSub p n => exact chInv_createSub hI p n
  | createSubAfter p n a => exact chInv_createSubAfter hI p n a
  | rename c n => exact chInv_rename hI c n
  | setParent c p => exact chInv_setParent hI c p
  | removeCrate c => exact chInv_removeCrate hI c
  | createTrack =>
    have hstep : step d .createTrack = ({ d with tracks := d.tracks ++ [d.trSeq + 1], trSeq := d.trSeq + 1 }, .ok (some (d.trSeq + 1))) := rfl
    rw [ordStep_ok hstep, hstep]
    refine ⟨hI.rk, hI.re, hI.fires, hI.plSeq, hI.plSeq0, hI.peSeq, hI.peSeq0, ?_, by have := hI.trSeq0; show 0 ≤ d.trSeq + 1; omega⟩
    intro x hx
    simp only [List.mem_append, List.mem_singleton] at hx
    rcases hx with hx | hx
    · exact hI.trPos x hx
    · have := hI.trSeq0; omega
  | removeTrack t => exact chInv_removeTrack hI t
  | addTrack c t =>
    by_cases he : plExists d c = true
    · by_cases ht : t ∈ d.tracks
      · exact chInv_addBack hI (hI.trPos t ht) (l := c) (u := 0) (f := false) (by simp [step, he, ht]) (by intro out; cases out <;> rfl)
      · exact chInv_throw (e := exn "track_deleted") hI (by simp [step, he, ht])
    · have he' : plExists d c = false := by simpa using he
      exact chInv_throw (e := exn "crate_deleted") hI (by simp [step, he'])
  | removeTrackFrom c t =>
    cases hg : peGet d c t with
    | some e =>
      refine chInv_deleteKeyed hI (l := c) (e := e.id) (by simp [step, hg]) ?_
      have hstep : step d (.removeTrackFrom c t) = ({ d with pe := deleteKeyed fires d.pe c e.id }, .ok none) := by simp [step, hg]
      rw [ordStep_ok hstep]; simp only [ordOk, hg]
    | none =>
      have hstep : step d (.removeTrackFrom c t) = (d, .ok none) := by simp [step, hg]
      rw [ordStep_ok hstep, hstep]; simp only [ordOk, hg]; exact hI
  | clearTracks c =>
    refine chInv_clearKey hI (l := c) rfl ?_
    have hstep : step d (.clearTracks c) = ({ d with pe := clearKey fires d.pe c }, .ok none) := rfl
    rw [ordStep_ok hstep]; rfl
  | peAddBack l t u f =>
    have ht : 0 < t := by simpa [okOp] using hok
    exact chInv_addBack hI ht (u := u) (f := f) rfl (by intro out; cases out <;> rfl)
  | peRemove l e =>
    by_cases hc : ((rowsOf d.pe l).find? (·.id == e)).isNone = true
    · exact chInv_throw (e := .invalid_argument) hI (by simp only [step, hc, if_true])
    · have hc' : ((rowsOf d.pe l).find? (·.id == e)).isNone = false := by simpa using hc
      have hstep : step d (.peRemove l e) = ({ d with pe := deleteKeyed fires d.pe l e }, .ok none) := by
        simp only [step, hc']; rfl
      refine chInv_deleteKeyed hI hstep ?_
      rw [ordStep_ok hstep]; rfl
  | peClear l =>
    refine chInv_clearKey hI (l := l) rfl ?_
    have hstep : step d (.peClear l) = ({ d with pe := clearKey fires d.pe l }, .ok none) := rfl
    rw [ordStep_ok hstep]; rfl

theorem chInv_run {S : Ord} {d : Db} (hI : ChInv S d) (ops : List Op) (hok : ops.all okOp = true) :
    ChInv (ordRun d S ops) (run d ops) := by
  induction ops generalizing S d with
  | nil => exact hI
  | cons op ops ih =>
    simp only [List.all_cons, Bool.and_eq_true] at hok
    exact ih (chInv_step hI op hok.1) hok.2

end EngineModel.Db.V2
