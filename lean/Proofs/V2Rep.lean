/-
Schema 2.x crates, C09 side: the ordered lists `S : Ord` (driven through Spec.Ordered
operations by `ordStep`) are represented (`R`) by the Playlist and PlaylistEntity
tables after every operation — `ChInv` is preserved by `step` / `ordStep`.
-/
import Proofs.V2Pairs

set_option linter.dupNamespace false
set_option linter.unusedSimpArgs false

namespace EngineModel.Db.Chain

open EngineModel.Spec EngineModel.ListAux

variable {α : Type}

theorem contains_cons_ne {a l : Int} {L : List Int} (h : l ≠ a) : (a :: L).contains l = L.contains l := by
  have : (l == a) = false := by simpa using h
  rw [List.contains_cons, this, Bool.false_or]

theorem contains_cons_self {a : Int} {L : List Int} : (a :: L).contains a = true := by
  simp [List.contains_cons]

theorem R_congr {A A' : Int → List Int} {t : Table α} (h : R A t) (he : ∀ k, A' k = A k) : R A' t := by
  have : A' = A := funext he
  rw [this]; exact h

theorem mem_deleteCascade_core {t : Table α} {i : Int} {r : Row α} (hr : r ∈ deleteCascade t i) :
    ∃ r0 ∈ t, core r0 = core r := by
  cases hg : get t i with
  | none => rw [deleteCascade_none hg] at hr; exact ⟨r, hr, rfl⟩
  | some old =>
    have : core r ∈ cores (deleteCascade t i) := mem_cores.mpr ⟨r, hr, rfl⟩
    rw [cores_deleteCascade hg] at this
    exact mem_cores.mp (List.mem_filter.mp this).1

theorem clearKey_fires {t : Table α} (fires : Row α → Bool) (hv : ∀ r r' : Row α, r.val = r'.val → fires r = fires r')
    (hf : ∀ r ∈ t, fires r = true) (k : Int) : ∀ r ∈ clearKey fires t k, fires r = true := by
  unfold clearKey
  generalize (rowsOf t k).map (·.id) = L
  induction L generalizing t with
  | nil => exact hf
  | cons a L ih =>
    simp only [List.foldl_cons]
    exact ih (deleteKeyed_fires fires hv hf k a)

theorem ids_deleteKeyed_sub (fires : Row α → Bool) (t : Table α) (k i : Int) :
    ∀ x ∈ ids (deleteKeyed fires t k i), x ∈ ids t := by
  intro x hx
  unfold deleteKeyed at hx
  cases hf : (rowsOf t k).find? (·.id == i) with
  | none => rw [hf] at hx; exact hx
  | some old =>
    rw [hf] at hx
    simp only [ids, List.mem_map] at hx ⊢
    obtain ⟨r, hr, e⟩ := hx
    have hr' := (List.mem_filter.mp hr).1
    split at hr'
    · obtain ⟨r0, hr0, rfl⟩ := mem_updNext.mp hr'
      exact ⟨r0, hr0, by rw [← e, updRow_id]⟩
    · exact ⟨r, hr', e⟩

theorem ids_clearKey_sub (fires : Row α → Bool) (t : Table α) (k : Int) :
    ∀ x ∈ ids (clearKey fires t k), x ∈ ids t := by
  unfold clearKey
  generalize (rowsOf t k).map (·.id) = L
  induction L generalizing t with
  | nil => intro x hx; exact hx
  | cons a L ih =>
    intro x hx
    simp only [List.foldl_cons] at hx
    exact ids_deleteKeyed_sub fires t k a x (ih _ x hx)

theorem ids_foldl_clearKey_sub (fires : Row α → Bool) (G : List Int) (t : Table α) :
    ∀ x ∈ ids (G.foldl (fun t i => clearKey fires t i) t), x ∈ ids t := by
  induction G generalizing t with
  | nil => intro x hx; exact hx
  | cons g G ih =>
    intro x hx
    simp only [List.foldl_cons] at hx
    exact ids_clearKey_sub fires t g x (ih _ x hx)

theorem mem_appendBack {t : Table α} {n k : Int} {v : α} {r : Row α} (hr : r ∈ appendBack t n k v) :
    (∃ r0 ∈ t, r.id = r0.id ∧ r.val = r0.val) ∨ (r.id = n ∧ r.val = v) := by
  unfold appendBack at hr
  obtain ⟨r0, hr0, rfl⟩ := mem_updNext.mp hr
  simp only [List.mem_append, List.mem_singleton] at hr0
  rcases hr0 with h | rfl
  · left; exact ⟨r0, h, by simp, by simp⟩
  · right; simp

/-- `DELETE FROM PlaylistEntity WHERE listId = ?` for each list of `G`: their listings are dropped. -/
theorem R_foldl_clearKey {A : Int → List Int} {t : Table α} (h : R A t) (fires : Row α → Bool)
    (hv : ∀ r r' : Row α, r.val = r'.val → fires r = fires r') (hf : ∀ r ∈ t, fires r = true) (G : List Int) :
    R (fun k => if G.contains k then [] else A k) (G.foldl (fun t i => clearKey fires t i) t) ∧
    ∀ r ∈ G.foldl (fun t i => clearKey fires t i) t, fires r = true := by
  induction G generalizing A t with
  | nil => simpa using ⟨h, hf⟩
  | cons g G ih =>
    simp only [List.foldl_cons]
    obtain ⟨h1, h2⟩ := ih (R_clearKey h fires hv hf g) (clearKey_fires fires hv hf g)
    refine ⟨R_congr h1 ?_, h2⟩
    intro k
    show (if (g :: G).contains k = true then [] else A k) = if G.contains k = true then [] else setKey A g [] k
    by_cases hk : k = g
    · subst hk
      rw [contains_cons_self, setKey_same]
      simp
    · rw [contains_cons_ne hk, setKey_other _ _ hk]

/-- `DELETE FROM Playlist WHERE id = ?` for each of `L ⊆ G`, the rows of `L` being children of members of `G`:
the listings of the keys outside `G` are untouched. -/
theorem R_foldl_deleteCascade (G : List Int) : ∀ (L : List Int) (u : Table α) (A : Int → List Int), R A u →
    (∀ a ∈ L, a ∈ G) → (∀ a ∈ L, ∀ r ∈ u, r.id = a → r.key ∈ G) →
    ∃ A', R A' (L.foldl deleteCascade u) ∧ ∀ k, k ∉ G → A' k = A k := by
  intro L
  induction L with
  | nil => intro u A h _ _; exact ⟨A, h, fun _ _ => rfl⟩
  | cons a L ih =>
    intro u A h hLG hkey
    simp only [List.foldl_cons]
    have hkey' : ∀ a' ∈ L, ∀ r ∈ deleteCascade u a, r.id = a' → r.key ∈ G := by
      intro a' ha' r hr e
      obtain ⟨r0, hr0, hc⟩ := mem_deleteCascade_core hr
      have e1 : r0.id = r.id := congrArg (·.1) hc
      have e2 : r0.key = r.key := congrArg (·.2.1) hc
      rw [← e2]
      exact hkey a' (List.mem_cons_of_mem _ ha') r0 hr0 (e1.trans e)
    cases hg : get u a with
    | none =>
      rw [deleteCascade_none hg] at hkey' ⊢
      exact ih u A h (fun a' ha' => hLG a' (List.mem_cons_of_mem _ ha')) hkey'
    | some old =>
      obtain ⟨hold, hid⟩ := get_some hg
      obtain ⟨A', h1, h2⟩ := ih _ _ (R_deleteCascade h hg) (fun a' ha' => hLG a' (List.mem_cons_of_mem _ ha')) hkey'
      refine ⟨A', h1, ?_⟩
      intro k hk
      rw [h2 k hk]
      have hka : k ≠ a := fun e => hk (e ▸ hLG a (by simp))
      have hko : k ≠ old.key := fun e => hk (e ▸ hkey a (by simp) old hold hid)
      rw [setKey_other _ _ hka, setKey_other _ _ hko]

/-- database::remove_track's loop over the lists `L` (pairwise different): in each, the entry of track `tv` of
this database (the last such row, as playlist_entity_table::get reads it) is deleted. -/
theorem R_foldl_removeTrack (tv : Int) : ∀ (L : List Int), L.Nodup → ∀ (pe : Table V2.Ent) (B : Int → List Int), R B pe →
    (∀ r ∈ pe, V2.fires r = true) →
    R (fun l => if L.contains l then
          (match V2.lookup pe l tv 0 with
           | some e => (B l).erase e.id
           | none => B l)
        else B l) (L.foldl (V2.rmTrackIn tv) pe) ∧
    (∀ r ∈ L.foldl (V2.rmTrackIn tv) pe, V2.fires r = true) ∧ (∀ i ∈ ids (L.foldl (V2.rmTrackIn tv) pe), i ∈ ids pe) := by
  have hv : ∀ r r' : Row V2.Ent, r.val = r'.val → V2.fires r = V2.fires r' := by
    intro r r' h; simp [V2.fires, h]
  intro L
  induction L with
  | nil => intro _ pe B h hf; simpa using ⟨h, hf⟩
  | cons a L ih =>
    intro hnd pe B h hf
    have hnd' := List.nodup_cons.mp hnd
    simp only [List.foldl_cons]
    have hlook : ∀ (p : Table V2.Ent) (l : Int), V2.lookup p l tv 0
        = ((rowsOf p l).filter (fun r => r.val.track == tv && r.val.uuid == 0)).getLast? := by
      intro p l; unfold V2.lookup rowsOf; rw [List.filter_filter]
      congr 1
      apply List.filter_congr; intro r _
      cases (r.key == l) <;> cases (r.val.track == tv) <;> cases (r.val.uuid == 0) <;> rfl
    have hstep : V2.rmTrackIn tv pe a = (match V2.lookup pe a tv 0 with
        | some e => deleteKeyed V2.fires pe a e.id
        | none => pe) := rfl
    cases hl : V2.lookup pe a tv 0 with
    | none =>
      rw [hstep, hl]
      simp only
      obtain ⟨h1, h2, h3⟩ := ih hnd'.2 pe B h hf
      refine ⟨R_congr h1 ?_, h2, h3⟩
      intro l
      show (if (a :: L).contains l = true then _ else _) = if L.contains l = true then _ else _
      by_cases hla : l = a
      · subst hla
        have : L.contains l = false := by simpa using hnd'.1
        rw [contains_cons_self, this, hl]
        rfl
      · rw [contains_cons_ne hla]
    | some e =>
      rw [hstep, hl]
      simp only
      have hpe1 := R_deleteKeyed h V2.fires hf a e.id
      have hf1 := deleteKeyed_fires V2.fires hv hf a e.id
      obtain ⟨h1, h2, h3⟩ := ih hnd'.2 _ _ hpe1 hf1
      refine ⟨R_congr h1 ?_, h2, fun i hi => ids_deleteKeyed_sub V2.fires pe a e.id i (h3 i hi)⟩
      intro l
      show (if (a :: L).contains l = true then _ else _) = if L.contains l = true then _ else _
      by_cases hla : l = a
      · subst hla
        have : L.contains l = false := by simpa using hnd'.1
        rw [contains_cons_self, this, hl, setKey_same]
        rfl
      · rw [contains_cons_ne hla, hlook (deleteKeyed V2.fires pe a e.id) l, rowsOf_deleteKeyed_other V2.fires h.ids_nodup hla,
          ← hlook pe l, setKey_other _ _ hla]

end EngineModel.Db.Chain

namespace EngineModel.Db.V2

open EngineModel.Db.Chain EngineModel.Spec EngineModel.Spec.Forest EngineModel.ListAux

/-- The chain invariant: the tables represent the ordered lists (the entity table: the entity ids of the Spec's
entries, every row carrying the payload the Spec recorded for it), no (list, database, track) triple twice, the
delete trigger of PlaylistEntity fires for every row, ids are within the AUTOINCREMENT counters. -/
structure ChInv (S : Ord) (d : Db) : Prop where
  rk : R S.kids d.pl
  re : R S.entIds d.pe
  pay : ∀ c ∈ cores d.pe, (c.1, c.2.2) ∈ S.ents c.2.1
  pairs : PairsOk (cores d.pe)
  fires : ∀ r ∈ d.pe, fires r = true
  plSeq : ∀ i ∈ ids d.pl, i ≤ d.plSeq
  plSeq0 : 0 ≤ d.plSeq
  peSeq : ∀ i ∈ ids d.pe, i ≤ d.peSeq
  peSeq0 : 0 ≤ d.peSeq
  trPos : ∀ t ∈ d.tracks, 0 < t
  trSeq0 : 0 ≤ d.trSeq

theorem R_empty {α : Type} : R (fun _ => []) ([] : Table α) := by
  constructor <;> simp [ids]

theorem chInv_empty : ChInv Ord.empty Db.empty := by
  refine ⟨R_empty, R_empty, ?_, pairsOk_nil, ?_, ?_, ?_, ?_, ?_, ?_, ?_⟩ <;> simp [Db.empty, ids, cores]

theorem fires_val (r r' : Row Ent) (h : r.val = r'.val) : fires r = fires r' := by
  simp [fires, h]

/-- The Spec lists after `op`, the Spec forest being (by C07's refinement) the abstraction of the Playlist table. -/
def ordStep (S : Ord) (d : Db) (op : Op) : Ord := ordNext S (absF d) op (step d op).2

theorem ordStep_throw {S : Ord} {d : Db} {op : Op} {e : Exn} (h : step d op = (d, .throw e)) :
    ordStep S d op = S := by
  unfold ordStep ordNext; rw [h]

theorem chInv_throw {S : Ord} {d : Db} {op : Op} {e : Exn} (hI : ChInv S d) (h : step d op = (d, .throw e)) :
    ChInv (ordStep S d op) (step d op).1 := by
  rw [ordStep_throw h, h]; exact hI

/-- A change of the Playlist table alone. -/
theorem ChInv.withPl {S : Ord} {d : Db} (hI : ChInv S d) {K : Int → List Int} {pl : Table Bytes} {seq : Int}
    (hk : R K pl) (hs : ∀ i ∈ ids pl, i ≤ seq) (hs0 : 0 ≤ seq) :
    ChInv { S with kids := K } { d with pl := pl, plSeq := seq } :=
  ⟨hk, hI.re, hI.pay, hI.pairs, hI.fires, hs, hs0, hI.peSeq, hI.peSeq0, hI.trPos, hI.trSeq0⟩

/-- A change of the PlaylistEntity table alone. -/
theorem ChInv.withPe {S : Ord} {d : Db} (hI : ChInv S d) {E : Int → List (Int × Ent)} {pe : Table Ent} {seq : Int}
    (he : R (fun l => (E l).map (·.1)) pe) (hpay : ∀ c ∈ cores pe, (c.1, c.2.2) ∈ E c.2.1) (hp : PairsOk (cores pe))
    (hf : ∀ r ∈ pe, V2.fires r = true) (hs : ∀ i ∈ ids pe, i ≤ seq) (hs0 : 0 ≤ seq) :
    ChInv { S with ents := E } { d with pe := pe, peSeq := seq } :=
  ⟨hI.rk, he, hpay, hp, hf, hI.plSeq, hI.plSeq0, hs, hs0, hI.trPos, hI.trSeq0⟩

/-! ### the Spec's entries against the rows -/

theorem keyOf_parentOpt (k : Int) : keyOf (parentOpt k) = k := by
  unfold parentOpt; by_cases h : k = 0 <;> simp [h, keyOf]

theorem setKeyE_same (E : Int → List (Int × Ent)) (k : Int) (L : List (Int × Ent)) : setKeyE E k L k = L := by
  simp [setKeyE]

theorem setKeyE_other (E : Int → List (Int × Ent)) {k k' : Int} (L : List (Int × Ent)) (h : k' ≠ k) :
    setKeyE E k L k' = E k' := by
  simp [setKeyE, h]

theorem entIds_setKeyE (E : Int → List (Int × Ent)) (l : Int) (L : List (Int × Ent)) :
    (fun k => (setKeyE E l L k).map (·.1)) = setKey (fun k => (E k).map (·.1)) l (L.map (·.1)) := by
  funext k
  by_cases hk : k = l
  · subst hk; simp [setKeyE]
  · simp [setKeyE, setKey, hk]

theorem pair_eq_of_fst {L : List (Int × Ent)} (hn : (L.map (·.1)).Nodup) {p q : Int × Ent} (hp : p ∈ L) (hq : q ∈ L)
    (h : p.1 = q.1) : p = q := by
  induction L with
  | nil => simp at hp
  | cons a L ih =>
    simp only [List.map_cons, List.nodup_cons, List.mem_map, not_exists, not_and] at hn
    rcases List.mem_cons.mp hp with h1 | h1 <;> rcases List.mem_cons.mp hq with h2 | h2
    · rw [h1, h2]
    · subst h1; exact absurd h.symm (hn.1 q h2)
    · subst h2; exact absurd h (hn.1 p h1)
    · exact ih hn.2 h1 h2

theorem map_fst_dropEnt {L : List (Int × Ent)} (hn : (L.map (·.1)).Nodup) (e : Int) :
    (dropEnt L e).map (·.1) = (L.map (·.1)).erase e := by
  induction L with
  | nil => rfl
  | cons a L ih =>
    have hn' : a.1 ∉ L.map (·.1) ∧ (L.map (·.1)).Nodup := List.nodup_cons.mp hn
    unfold dropEnt at ih ⊢
    by_cases hae : a.1 = e
    · have h1 : (a.1 != e) = false := by simp [hae]
      rw [List.filter_cons_of_neg (by simp [hae]), List.map_cons, hae, List.erase_cons_head]
      -- no other entry carries the id e
      have : L.filter (fun p => p.1 != e) = L := by
        apply List.filter_eq_self.mpr
        intro p hp
        have : p.1 ≠ e := by
          intro e'; apply hn'.1; rw [hae, ← e']; exact List.mem_map.mpr ⟨p, hp, rfl⟩
        simpa using this
      rw [this]
    · rw [List.filter_cons_of_pos (by simpa using hae), List.map_cons, List.map_cons,
        List.erase_cons_tail (by simpa using hae), ih hn'.2]

/-- An entry of the Spec's listing has its row, with the recorded payload. -/
theorem ChInv.row_of_entry {S : Ord} {d : Db} (hI : ChInv S d) {l : Int} {p : Int × Ent} (hp : p ∈ S.ents l) :
    ∃ r ∈ d.pe, r.id = p.1 ∧ r.key = l ∧ r.val = p.2 := by
  have hm : p.1 ∈ S.entIds l := List.mem_map.mpr ⟨p, hp, rfl⟩
  obtain ⟨r, hr, e1, e2⟩ := hI.re.cover l p.1 hm
  refine ⟨r, hr, e1, e2, ?_⟩
  have h1 := hI.pay (core r) (mem_cores.mpr ⟨r, hr, rfl⟩)
  simp only [core] at h1
  rw [e2] at h1
  have := pair_eq_of_fst (hI.re.nodup l) h1 hp (by simpa using e1)
  rw [← this]

/-- The row found by the SELECT on (list, track, database) is the entry the Spec finds in its own listing. -/
theorem ChInv.find_some {S : Ord} {d : Db} (hI : ChInv S d) {l t u : Int} {e : Row Ent} (h : peFind d l t u = some e) :
    S.find l t u = some (e.id, e.val) := by
  obtain ⟨hce, hem, hel, hev⟩ := lookup_core h
  have hin : (e.id, e.val) ∈ S.ents l := by
    have := hI.pay (core e) hce; simpa [core, hel] using this
  unfold Ord.find
  apply find?_unique hin (by simp [hev])
  intro q hq hqp
  obtain ⟨r, hr, e1, e2, e3⟩ := hI.row_of_entry hq
  simp only [Bool.and_eq_true, beq_iff_eq] at hqp
  have hrv : r.val = ⟨t, u⟩ := by rw [e3]; exact ent_eq.mpr hqp
  have := hI.pairs.pair_unique (core r) (mem_cores.mpr ⟨r, hr, rfl⟩) (core e) hce (by simp [core, e2, hel])
    (by simp [core, hrv, hev])
  have hid : r.id = e.id := congrArg (·.1) this
  have hval : r.val = e.val := by rw [hrv, hev]
  cases q with
  | mk a b => simp only at e1 e3; rw [← e1, ← e3, hid, hval]

theorem ChInv.find_none {S : Ord} {d : Db} (hI : ChInv S d) {l t u : Int} (h : peFind d l t u = none) :
    S.find l t u = none := by
  unfold Ord.find
  rw [List.find?_eq_none]
  intro q hq hqp
  obtain ⟨r, hr, _, e2, e3⟩ := hI.row_of_entry hq
  simp only [Bool.and_eq_true, beq_iff_eq] at hqp
  exact lookup_none h (core r) (mem_cores.mpr ⟨r, hr, rfl⟩) ⟨e2, by simp only [core]; rw [e3]; exact ent_eq.mpr hqp⟩

theorem ids_subset_of_cores_filter {α : Type} {t t' : Table α} {q : Int × Int × α → Bool}
    (h : cores t' = (cores t).filter q) : ∀ i ∈ ids t', i ∈ ids t := by
  intro i hi
  rw [ids_eq_cores, h] at hi
  rw [ids_eq_cores]
  obtain ⟨c, hc, e⟩ := List.mem_map.mp hi
  exact List.mem_map.mpr ⟨c, (List.mem_filter.mp hc).1, e⟩

/-! ### creation -/

theorem chInv_add {S : Ord} {d : Db} (hI : ChInv S d) {op : Op} {name : Bytes} {k b : Int} {L : List Int}
    (hstep : step d op = ({ d with pl := insertBefore d.pl (d.plSeq + 1) k b name, plSeq := d.plSeq + 1 }, .ok (some (d.plSeq + 1))))
    (hord : ordStep S d op = { S with kids := setKey S.kids k L })
    (hb : b = 0 ∨ b ∈ S.kids k) (hL : L = Ordered.insertBefore b (d.plSeq + 1) (S.kids k)) :
    ChInv (ordStep S d op) (step d op).1 := by
  rw [hord, hstep, hL]
  have hfresh : d.plSeq + 1 ∉ ids d.pl := by
    intro h; have := hI.plSeq _ h; omega
  have hpos : 0 < d.plSeq + 1 := by have := hI.plSeq0; omega
  refine hI.withPl (R_insertBefore hI.rk name hpos hfresh hb) ?_ (by omega)
  intro i hi
  rw [ids_eq_cores, cores_insertBefore] at hi
  simp only [List.map_append, List.map_cons, List.map_nil, List.mem_append, List.mem_singleton] at hi
  rcases hi with hi | hi
  · rw [← ids_eq_cores] at hi; have := hI.plSeq i hi; omega
  · omega

theorem next_zero_or_mem {α : Type} {A : Int → List Int} {t : Table α} (h : R A t) {r : Row α} (hr : r ∈ t) :
    r.next = 0 ∨ r.next ∈ A r.key := by
  rw [h.next r hr]; exact succ_mem_or_zero _ _

theorem ordStep_ok {S : Ord} {d : Db} {op : Op} {d' : Db} {out : Out} (h : step d op = (d', .ok out)) :
    ordStep S d op = ordOk S (absF d) op out := by
  unfold ordStep ordNext; rw [h]

theorem ordOk_setParent {S : Ord} {d : Db} {c : Int} {p : Option Int} {row : Row Bytes} (hg : get d.pl c = some row)
    (out : Out) :
    ordOk S (absF d) (.setParent c p) out =
      if row.key != keyOf p then { S with kids := moveKid S.kids row.key (keyOf p) c } else S := by
  simp only [ordOk, live_of_get hg, absF_parentOf_get hg, keyOf_parentOpt, Bool.true_and]

theorem ordOk_removeCrate {S : Ord} {d : Db} {c : Int} {row : Row Bytes} (hg : get d.pl c = some row) (out : Out) :
    ordOk S (absF d) (.removeCrate c) out =
      { kids := clearKeys (setKey S.kids row.key ((S.kids row.key).erase c)) (c :: descSet d c),
        ents := clearKeysE S.ents (c :: descSet d c) } := by
  simp only [ordOk, live_of_get hg, absF_parentOf_get hg, keyOf_parentOpt, if_true, descSet]

theorem chInv_createRoot {S : Ord} {d : Db} (hI : ChInv S d) (name : Bytes) :
    ChInv (ordStep S d (.createRoot name)) (step d (.createRoot name)).1 := by
  by_cases hf : (findId d 0 name).isSome = true
  · exact chInv_throw (e := exn "crate_already_exists") hI (by simp [step, hf])
  · have hf' : (findId d 0 name).isSome = false := by simpa using hf
    have hstep : step d (.createRoot name) = plAdd d name 0 0 := by simp [step, hf']
    by_cases hv : Forest.validName name = true
    · rw [plAdd_valid d 0 0 hv] at hstep
      exact chInv_add hI hstep (ordStep_ok hstep) (Or.inl rfl) (insertBefore_zero (hI.rk.ne0 0)).symm
    · have hv' : Forest.validName name = false := by simpa using hv
      rw [plAdd_invalid d 0 0 hv'] at hstep
      exact chInv_throw hI hstep

theorem chInv_createSub {S : Ord} {d : Db} (hI : ChInv S d) (p : Int) (name : Bytes) :
    ChInv (ordStep S d (.createSub p name)) (step d (.createSub p name)).1 := by
  by_cases he : plExists d p = true
  · by_cases hf : (findId d p name).isSome = true
    · exact chInv_throw (e := exn "crate_already_exists") hI (by simp [step, he, hf])
    · have hf' : (findId d p name).isSome = false := by simpa using hf
      have hstep : step d (.createSub p name) = plAdd d name p 0 := by simp [step, he, hf']
      by_cases hv : Forest.validName name = true
      · rw [plAdd_valid d p 0 hv] at hstep
        exact chInv_add hI hstep (ordStep_ok hstep) (Or.inl rfl) (insertBefore_zero (hI.rk.ne0 p)).symm
      · have hv' : Forest.validName name = false := by simpa using hv
        rw [plAdd_invalid d p 0 hv'] at hstep
        exact chInv_throw hI hstep
  · have he' : plExists d p = false := by simpa using he
    exact chInv_throw (e := exn "crate_deleted") hI (by simp [step, he'])

/-- "after `a`" = "before the successor of `a`", which is what the row of `a` stores. -/
theorem after_eq_before {S : Ord} {d : Db} (hI : ChInv S d) {after : Int} {a : Row Bytes} (hg : get d.pl after = some a)
    (n : Int) :
    (a.next = 0 ∨ a.next ∈ S.kids a.key) ∧
    Ordered.insertAfter after n (S.kids a.key) = Ordered.insertBefore a.next n (S.kids a.key) := by
  obtain ⟨ha, hid⟩ := get_some hg
  refine ⟨next_zero_or_mem hI.rk ha, ?_⟩
  have hm : after ∈ S.kids a.key := hid ▸ hI.rk.mem a ha
  rw [insertAfter_eq_insertBefore (hI.rk.nodup _) (hI.rk.ne0 _) hm, hI.rk.next a ha, hid]

theorem chInv_createRootAfter {S : Ord} {d : Db} (hI : ChInv S d) (name : Bytes) (after : Int) :
    ChInv (ordStep S d (.createRootAfter name after)) (step d (.createRootAfter name after)).1 := by
  by_cases hf : (findId d 0 name).isSome = true
  · exact chInv_throw (e := exn "crate_already_exists") hI (by simp [step, hf])
  · have hf' : (findId d 0 name).isSome = false := by simpa using hf
    cases hg : get d.pl after with
    | none => exact chInv_throw (e := exn "crate_deleted") hI (by simp [step, hf', hg])
    | some a =>
      by_cases hk : a.key = 0
      · have hk' : (a.key != 0) = false := by simp [hk]
        have hstep : step d (.createRootAfter name after) = plAdd d name 0 a.next := by simp [step, hf', hg, hk']
        by_cases hv : Forest.validName name = true
        · rw [plAdd_valid d 0 a.next hv] at hstep
          obtain ⟨h1, h2⟩ := after_eq_before hI hg (d.plSeq + 1)
          rw [hk] at h1 h2
          exact chInv_add hI hstep (ordStep_ok hstep) h1 h2
        · have hv' : Forest.validName name = false := by simpa using hv
          rw [plAdd_invalid d 0 a.next hv'] at hstep
          exact chInv_throw hI hstep
      · have hk' : (a.key != 0) = true := by simpa using hk
        exact chInv_throw (e := exn "crate_invalid_parent") hI (by simp [step, hf', hg, hk'])

theorem chInv_createSubAfter {S : Ord} {d : Db} (hI : ChInv S d) (p : Int) (name : Bytes) (after : Int) :
    ChInv (ordStep S d (.createSubAfter p name after)) (step d (.createSubAfter p name after)).1 := by
  by_cases he : plExists d p = true
  · by_cases hf : (findId d p name).isSome = true
    · exact chInv_throw (e := exn "crate_already_exists") hI (by simp [step, he, hf])
    · have hf' : (findId d p name).isSome = false := by simpa using hf
      cases hg : get d.pl after with
      | none => exact chInv_throw (e := exn "crate_deleted") hI (by simp [step, he, hf', hg])
      | some a =>
        by_cases hk : a.key = p
        · have hk' : (a.key != p) = false := by simp [hk]
          have hstep : step d (.createSubAfter p name after) = plAdd d name p a.next := by simp [step, he, hf', hg, hk']
          by_cases hv : Forest.validName name = true
          · rw [plAdd_valid d p a.next hv] at hstep
            obtain ⟨h1, h2⟩ := after_eq_before hI hg (d.plSeq + 1)
            rw [hk] at h1 h2
            exact chInv_add hI hstep (ordStep_ok hstep) h1 h2
          · have hv' : Forest.validName name = false := by simpa using hv
            rw [plAdd_invalid d p a.next hv'] at hstep
            exact chInv_throw hI hstep
        · have hk' : (a.key != p) = true := by simpa using hk
          exact chInv_throw (e := exn "crate_invalid_parent") hI (by simp [step, he, hf', hg, hk'])
  · have he' : plExists d p = false := by simpa using he
    exact chInv_throw (e := exn "crate_deleted") hI (by simp [step, he'])

/-! ### rename, re-parent -/

theorem ids_setVal {α : Type} (t : Table α) (i : Int) (v : α) : ids (setVal t i v) = ids t := by
  rw [ids_eq_cores, cores_setVal, ids_eq_cores, List.map_map]
  apply List.map_congr_left
  intro c _
  simp only [Function.comp]
  split <;> rfl

theorem ids_move {α : Type} (t : Table α) (i ok on nk tg : Int) (v : α) : ids (move t i ok on nk tg v) = ids t := by
  rw [ids_eq_cores, cores_move, ids_eq_cores, List.map_map]
  apply List.map_congr_left
  intro c _
  simp only [Function.comp]
  by_cases h : (c.1 == i) = true
  · have : c.1 = i := by simpa using h
    simp [h, this]
  · simp [h]

theorem chInv_setVal {S : Ord} {d : Db} (hI : ChInv S d) {op : Op} {i : Int} {v : Bytes}
    (hstep : step d op = ({ d with pl := setVal d.pl i v }, .ok none)) (hord : ordStep S d op = S) :
    ChInv (ordStep S d op) (step d op).1 := by
  rw [hord, hstep]
  have := hI.withPl (K := S.kids) (seq := d.plSeq) (R_setVal hI.rk i v) (by rw [ids_setVal]; exact hI.plSeq) hI.plSeq0
  exact this

theorem chInv_rename {S : Ord} {d : Db} (hI : ChInv S d) (c : Int) (name : Bytes) :
    ChInv (ordStep S d (.rename c name)) (step d (.rename c name)).1 := by
  cases hg : get d.pl c with
  | none => exact chInv_throw (e := exn "crate_deleted") hI (by simp [step, hg])
  | some row =>
    have hstep : step d (.rename c name) = plUpdate d c name row.key row.next := by simp [step, hg]
    by_cases hv : Forest.validName name = true
    · by_cases hc : titleClash d.pl c row.key name = true
      · rw [plUpdate_clash d row.next hv hg hc] at hstep
        exact chInv_throw hI hstep
      · have hc' : titleClash d.pl c row.key name = false := by simpa using hc
        rw [plUpdate_same d hv hg hc'] at hstep
        exact chInv_setVal hI hstep (ordStep_ok hstep)
    · have hv' : Forest.validName name = false := by simpa using hv
      rw [plUpdate_invalid d c row.key row.next hv'] at hstep
      exact chInv_throw hI hstep

theorem chInv_setParentCore {S : Ord} {d : Db} (hI : ChInv S d) {c : Int} {p : Option Int} {row : Row Bytes}
    (hg : get d.pl c = some row) (hstep : step d (.setParent c p) = setParentCore d c row (keyOf p)) :
    ChInv (ordStep S d (.setParent c p)) (step d (.setParent c p)).1 := by
  obtain ⟨hrow, hid⟩ := get_some hg
  unfold setParentCore at hstep
  by_cases hv : Forest.validName row.val = true
  · by_cases hk : row.key = keyOf p
    · have hk' : (row.key != keyOf p) = false := by simp [hk]
      rw [hk'] at hstep
      simp only [Bool.false_eq_true, if_false] at hstep
      by_cases hc : titleClash d.pl c row.key row.val = true
      · rw [plUpdate_clash d row.next hv hg hc] at hstep
        exact chInv_throw hI hstep
      · have hc' : titleClash d.pl c row.key row.val = false := by simpa using hc
        rw [plUpdate_same d hv hg hc'] at hstep
        refine chInv_setVal hI hstep ?_
        rw [ordStep_ok hstep, ordOk_setParent hg, hk']
        rfl
    · have hk' : (row.key != keyOf p) = true := by simpa using hk
      rw [hk'] at hstep
      simp only [if_true] at hstep
      by_cases hc : titleClash d.pl c (keyOf p) row.val = true
      · rw [plUpdate_clash d 0 hv hg hc] at hstep
        exact chInv_throw hI hstep
      · have hc' : titleClash d.pl c (keyOf p) row.val = false := by simpa using hc
        rw [plUpdate_move d 0 hv hg hk hc'] at hstep
        have hord : ordStep S d (.setParent c p) = { S with kids := moveKid S.kids row.key (keyOf p) c } := by
          rw [ordStep_ok hstep, ordOk_setParent hg, hk']
          rfl
        rw [hord, hstep]
        unfold moveKid
        have hm := R_move hI.rk hrow (nk := keyOf p) (target := 0) (fun e => hk e.symm) (Or.inl rfl) row.val
        rw [hid] at hm
        rw [insertBefore_zero (hI.rk.ne0 _)] at hm
        rw [setKey_other _ _ (fun e => hk e.symm)]
        exact hI.withPl hm (by rw [ids_move]; exact hI.plSeq) hI.plSeq0
  · have hv' : Forest.validName row.val = false := by simpa using hv
    by_cases hk : (row.key != keyOf p) = true
    · rw [hk] at hstep
      simp only [if_true] at hstep
      rw [plUpdate_invalid d c (keyOf p) 0 hv'] at hstep
      exact chInv_throw hI hstep
    · have hk' : (row.key != keyOf p) = false := by simpa using hk
      rw [hk'] at hstep
      simp only [Bool.false_eq_true, if_false] at hstep
      rw [plUpdate_invalid d c row.key row.next hv'] at hstep
      exact chInv_throw hI hstep

theorem chInv_setParent {S : Ord} {d : Db} (hI : ChInv S d) (hP : PlInv d) (c : Int) (p : Option Int) :
    ChInv (ordStep S d (.setParent c p)) (step d (.setParent c p)).1 := by
  by_cases hpc : p = some c
  · subst hpc
    exact chInv_throw (e := exn "crate_invalid_parent") hI (by simp [step])
  · have hpc' : (p == some c) = false := by simpa using hpc
    cases hg : get d.pl c with
    | none => exact chInv_throw (e := exn "crate_deleted") hI (by simp [step, hpc', hg])
    | some row =>
      cases p with
      | none =>
        refine chInv_setParentCore hI hg ?_
        simp only [step, hpc', hg, setParentCore, keyOf]
        rfl
      | some q =>
        by_cases he : plExists d q = true
        · obtain ⟨ds, hds, _⟩ := descendantIds_ok hP.wf c
          by_cases hdesc : q ∈ ds
          · exact chInv_throw (e := exn "crate_invalid_parent") hI (by simp [step, hpc', hg, he, hds, hdesc])
          · have hdesc' : ds.contains q = false := by simpa using hdesc
            refine chInv_setParentCore hI hg ?_
            simp only [step, hpc', hg, he, hds, hdesc', setParentCore, keyOf]
            rfl
        · have he' : plExists d q = false := by simpa using he
          exact chInv_throw (e := exn "crate_deleted") hI (by simp [step, hpc', hg, he'])

/-! ### remove_crate -/

theorem cores_foldl_clearKey {t : Table Ent} (hn : (ids t).Nodup) (G : List Int) :
    cores (G.foldl (fun t i => clearKey fires t i) t) = (cores t).filter (fun c => !G.contains c.2.1) := by
  induction G generalizing t with
  | nil =>
    simp only [List.foldl_nil, List.contains_nil, Bool.not_false]
    exact (List.filter_eq_self.mpr (fun _ _ => rfl)).symm
  | cons g G ih =>
    simp only [List.foldl_cons]
    have h1 := cores_clearKey fires hn g
    have hn1 : (ids (clearKey fires t g)).Nodup := by
      rw [ids_eq_cores, h1]
      rw [ids_eq_cores] at hn
      exact List.Nodup.sublist (List.Sublist.map _ List.filter_sublist) hn
    rw [ih hn1, h1, List.filter_filter]
    apply List.filter_congr
    intro c _
    by_cases hcg : c.2.1 = g
    · simp [hcg, List.contains_cons]
    · have : (c.2.1 == g) = false := by simpa using hcg
      rw [contains_cons_ne hcg]
      simp [hcg]

theorem clearKeys_congr (A : Int → List Int) {G G' : List Int} (h : ∀ x, G.contains x = G'.contains x) :
    clearKeys A G = clearKeys A G' := by
  funext k; simp only [clearKeys, h k]

theorem clearKeysE_congr (E : Int → List (Int × Ent)) {G G' : List Int} (h : ∀ x, G.contains x = G'.contains x) :
    clearKeysE E G = clearKeysE E G' := by
  funext k; simp only [clearKeysE, h k]

theorem chInv_removeCrate {S : Ord} {d : Db} (hI : ChInv S d) (hP : PlInv d) (c : Int) :
    ChInv (ordStep S d (.removeCrate c)) (step d (.removeCrate c)).1 := by
  by_cases he : plExists d c = true
  · obtain ⟨ds, hds, hmem⟩ := descendantIds_ok hP.wf c
    have hG : IsGone d c (c :: ds) := isGone_cons hmem
    have hstep : step d (.removeCrate c) = (plRemove d (c :: ds), .ok none) := by simp [step, he, hds]
    have hc : c ∈ ids d.pl := plExists_iff.mp he
    have hn := hI.rk.ids_nodup
    have hpos := hI.rk.id_pos
    obtain ⟨row, hg⟩ : ∃ row, get d.pl c = some row := by
      cases hg : get d.pl c with
      | none => exact absurd hc (get_none hg)
      | some row => exact ⟨row, rfl⟩
    obtain ⟨hrow, hid⟩ := get_some hg
    have hord : ordStep S d (.removeCrate c) =
        { kids := clearKeys (setKey S.kids row.key ((S.kids row.key).erase c)) (c :: ds),
          ents := clearKeysE S.ents (c :: ds) } := by
      rw [ordStep_ok hstep, ordOk_removeCrate hg, clearKeys_congr _ hG.contains, clearKeysE_congr _ hG.contains]
    rw [hord, hstep]
    -- entries
    obtain ⟨hpe0, hfires⟩ := R_foldl_clearKey hI.re fires fires_val hI.fires (c :: ds)
    have hpe : R (fun l => (clearKeysE S.ents (c :: ds) l).map (·.1))
        ((c :: ds).foldl (fun t i => clearKey fires t i) d.pe) := by
      refine R_congr hpe0 ?_
      intro k
      unfold clearKeysE Ord.entIds
      split <;> simp
    have hcpe : cores ((c :: ds).foldl (fun t i => clearKey fires t i) d.pe)
        = (cores d.pe).filter (fun k => !(c :: ds).contains k.2.1) :=
      cores_foldl_clearKey hI.re.ids_nodup _
    -- siblings: the row itself, then the descendants
    have hclosed := gone_closed' hn hpos hc hG
    have hcores : cores ((c :: ds).foldl deleteCascade d.pl)
        = (cores d.pl).filter (fun k => !(c :: ds).contains k.1) :=
      cores_foldl_deleteCascade _ _ hclosed
    have h1 := R_deleteCascade hI.rk hg
    have hkeys : ∀ a ∈ ds, ∀ r ∈ deleteCascade d.pl c, r.id = a → r.key ∈ c :: ds := by
      intro a ha r hr e
      obtain ⟨r0, hr0, hcore⟩ := mem_deleteCascade_core hr
      have e1 : r0.id = r.id := congrArg (·.1) hcore
      have e2 : r0.key = r.key := congrArg (·.2.1) hcore
      rw [← e2]
      have hanc := (mem_descSet.mp ((hmem a).mp ha)).2
      obtain ⟨p', hp', hor⟩ := Forest.isAncestor_step hanc
      rw [← e, ← e1, absF_parentOf_row hn hr0, parentOpt_eq_some] at hp'
      rw [hp'.1]
      rcases hor with h | h
      · rw [h]; simp
      · refine List.mem_cons_of_mem _ ((hmem _).mpr (mem_descSet.mpr ⟨?_, h⟩))
        rw [← absF_ids]; exact Forest.descendant_live h
    obtain ⟨A', hA', hA'eq⟩ := R_foldl_deleteCascade (c :: ds) ds _ _ h1
      (fun a ha => List.mem_cons_of_mem _ ha) hkeys
    have hfinal : (c :: ds).foldl deleteCascade d.pl
        = ds.foldl deleteCascade (deleteCascade d.pl c) := rfl
    have hkids : R (clearKeys (setKey S.kids row.key ((S.kids row.key).erase c)) (c :: ds))
        ((c :: ds).foldl deleteCascade d.pl) := by
      rw [hfinal]
      refine R_congr hA' ?_
      intro k
      unfold clearKeys
      by_cases hk : (c :: ds).contains k = true
      · rw [if_pos hk]
        symm
        apply hA'.nil_of_no_rows
        intro r hr hrk
        rw [← hfinal] at hr
        have hcr : core r ∈ cores ((c :: ds).foldl deleteCascade d.pl) := mem_cores.mpr ⟨r, hr, rfl⟩
        rw [hcores] at hcr
        obtain ⟨h2, h3⟩ := List.mem_filter.mp hcr
        have := hclosed (core r) h2 (by simp only [core]; rw [hrk]; exact hk)
        simp only [core] at this h3
        rw [this] at h3
        exact absurd h3 (by simp)
      · rw [if_neg hk]
        have hk' : k ∉ c :: ds := fun h => hk (List.contains_iff_mem.mpr h)
        rw [hA'eq k hk']
        have hkc : k ≠ c := fun e => hk' (e ▸ List.mem_cons_self)
        rw [setKey_other _ _ hkc]
    unfold plRemove
    refine ⟨hkids, hpe, ?_, by rw [hcpe]; exact hI.pairs.filter _, hfires, ?_, hI.plSeq0, ?_, hI.peSeq0, hI.trPos, hI.trSeq0⟩
    · intro k hk
      rw [hcpe] at hk
      obtain ⟨hk1, hk2⟩ := List.mem_filter.mp hk
      have hk2' : (c :: ds).contains k.2.1 = false := by simpa using hk2
      show (k.1, k.2.2) ∈ clearKeysE S.ents (c :: ds) k.2.1
      unfold clearKeysE
      rw [hk2']
      exact hI.pay k hk1
    · intro i hi
      exact hI.plSeq i (ids_subset_of_cores_filter hcores i hi)
    · intro i hi
      exact hI.peSeq i (ids_foldl_clearKey_sub fires _ _ i hi)
  · have he' : plExists d c = false := by simpa using he
    exact chInv_throw (e := .invalid_argument) hI (by simp [step, he'])

/-! ### entries -/

theorem chInv_addBack {S : Ord} {d : Db} (hI : ChInv S d) {op : Op} {l t u : Int} {f : Bool} (ht : 0 < t)
    (hstep : step d op = peAddBack d l t u f)
    (hord : ∀ out, ordOk S (absF d) op out = (match out with
      | some e => if (S.find l t u).isNone then { S with ents := setKeyE S.ents l (S.ents l ++ [(e, ⟨t, u⟩)]) } else S
      | none => S)) :
    ChInv (ordStep S d op) (step d op).1 := by
  unfold peAddBack at hstep
  cases hg : peFind d l t u with
  | some e =>
    rw [hg] at hstep
    cases f with
    | true => exact chInv_throw hI hstep
    | false =>
      simp only [Bool.false_eq_true, if_false] at hstep
      rw [ordStep_ok hstep, hord, hstep]
      simp only [hI.find_some hg, Option.isNone_some, Bool.false_eq_true, if_false]
      exact hI
  | none =>
    rw [hg] at hstep
    simp only at hstep
    rw [ordStep_ok hstep, hord, hstep]
    simp only [hI.find_none hg, Option.isNone_none, if_true]
    have hfresh : d.peSeq + 1 ∉ ids d.pe := by
      intro h; have := hI.peSeq _ h; omega
    have hpos : 0 < d.peSeq + 1 := by have := hI.peSeq0; omega
    have hR := R_appendBack hI.re (k := l) (⟨t, u⟩ : Ent) hpos hfresh
    refine hI.withPe ?_ ?_ (pairsOk_append hI.pairs hfresh hg) ?_ ?_ (by omega)
    · rw [entIds_setKeyE]
      have : (S.ents l ++ [(d.peSeq + 1, (⟨t, u⟩ : Ent))]).map (·.1) = S.entIds l ++ [d.peSeq + 1] := by
        simp [Ord.entIds]
      rw [this]
      exact hR
    · rw [cores_appendBack]
      intro k hk
      simp only [List.mem_append, List.mem_singleton] at hk
      rcases hk with hk | rfl
      · by_cases hkl : k.2.1 = l
        · rw [hkl, setKeyE_same]; exact List.mem_append_left _ (hkl ▸ hI.pay k hk)
        · rw [setKeyE_other _ _ hkl]; exact hI.pay k hk
      · simp [setKeyE]
    · intro r hr
      rcases mem_appendBack hr with ⟨r0, hr0, _, e⟩ | ⟨_, e⟩
      · rw [fires_val r r0 e]; exact hI.fires r0 hr0
      · simp [fires, e, ht]
    · intro i hi
      rw [ids_eq_cores, cores_appendBack] at hi
      simp only [List.map_append, List.map_cons, List.map_nil, List.mem_append, List.mem_singleton] at hi
      rcases hi with hi | hi
      · rw [← ids_eq_cores] at hi; have := hI.peSeq i hi; omega
      · omega

/-- `DELETE … WHERE listId = l AND id = e` of a row that is there: the entry `e` leaves the listing of `l`. -/
theorem chInv_deleteKeyed {S : Ord} {d : Db} (hI : ChInv S d) {op : Op} {l e : Int} {row : Row Ent}
    (hrow : row ∈ d.pe) (hid : row.id = e) (hkey : row.key = l)
    (hstep : step d op = ({ d with pe := deleteKeyed fires d.pe l e }, .ok none))
    (hord : ordStep S d op = { S with ents := setKeyE S.ents l (dropEnt (S.ents l) e) }) :
    ChInv (ordStep S d op) (step d op).1 := by
  rw [hord, hstep]
  have hcores : cores (deleteKeyed fires d.pe l e) = (cores d.pe).filter (fun c => c.1 != e) := by
    apply cores_deleteKeyed
    intro r hr he
    have := eq_of_id_eq hI.re.ids_nodup hr hrow (he.trans hid.symm)
    rw [this, hkey]
  refine hI.withPe (seq := d.peSeq) ?_ ?_ (by rw [hcores]; exact hI.pairs.filter _)
    (deleteKeyed_fires fires fires_val hI.fires l e) (fun i hi => hI.peSeq i (ids_deleteKeyed_sub fires _ _ _ i hi)) hI.peSeq0
  · rw [entIds_setKeyE, map_fst_dropEnt (hI.re.nodup l)]
    exact R_deleteKeyed hI.re fires hI.fires l e
  · intro k hk
    rw [hcores] at hk
    obtain ⟨hk1, hk2⟩ := List.mem_filter.mp hk
    by_cases hkl : k.2.1 = l
    · rw [hkl, setKeyE_same]
      unfold dropEnt
      exact List.mem_filter.mpr ⟨hkl ▸ hI.pay k hk1, by simpa using hk2⟩
    · rw [setKeyE_other _ _ hkl]; exact hI.pay k hk1

theorem chInv_clearKey {S : Ord} {d : Db} (hI : ChInv S d) {op : Op} {l : Int}
    (hstep : step d op = ({ d with pe := clearKey fires d.pe l }, .ok none))
    (hord : ordStep S d op = { S with ents := setKeyE S.ents l [] }) :
    ChInv (ordStep S d op) (step d op).1 := by
  rw [hord, hstep]
  have hcores := cores_clearKey fires hI.re.ids_nodup l
  refine hI.withPe (seq := d.peSeq) ?_ ?_ (by rw [hcores]; exact hI.pairs.filter _)
    (clearKey_fires fires fires_val hI.fires l) (fun i hi => hI.peSeq i (ids_clearKey_sub fires _ _ i hi)) hI.peSeq0
  · rw [entIds_setKeyE]
    exact R_clearKey hI.re fires fires_val hI.fires l
  · intro k hk
    rw [hcores] at hk
    obtain ⟨hk1, hk2⟩ := List.mem_filter.mp hk
    have hkl : k.2.1 ≠ l := by simpa using hk2
    rw [setKeyE_other _ _ hkl]; exact hI.pay k hk1

theorem chInv_removeTrack {S : Ord} {d : Db} (hI : ChInv S d) (t : Int) :
    ChInv (ordStep S d (.removeTrack t)) (step d (.removeTrack t)).1 := by
  by_cases hc : t ∈ d.tracks
  · have hstep : step d (.removeTrack t) = ({ d with
        pe := (ids d.pl).foldl (rmTrackIn t) d.pe, tracks := d.tracks.filter (· != t) }, .ok none) := by
      have hct : d.tracks.contains t = true := List.contains_iff_mem.mpr hc
      show (if d.tracks.contains t then _ else _) = _
      rw [if_pos hct]
    rw [ordStep_ok hstep, hstep]
    obtain ⟨h1, h2, h3⟩ := R_foldl_removeTrack t (ids d.pl) hI.rk.ids_nodup d.pe S.entIds hI.re hI.fires
    have hcores := cores_foldl_removeTrack t (ids d.pl) d.pe hI.pairs
    -- what the Spec prescribes for list l, against what the loop found there
    have hent : ∀ l, ((ordOk S (absF d) (.removeTrack t) none).ents l).map (·.1) =
        (if (ids d.pl).contains l then
          (match lookup d.pe l t 0 with
           | some e => (S.entIds l).erase e.id
           | none => S.entIds l)
        else S.entIds l) := by
      intro l
      simp only [ordOk, absF_ids]
      by_cases hl : (ids d.pl).contains l = true
      · rw [if_pos hl, if_pos hl]
        cases hf : peFind d l t 0 with
        | some e =>
          have hf' : lookup d.pe l t 0 = some e := hf
          rw [hI.find_some hf, hf']
          simp only
          exact map_fst_dropEnt (hI.re.nodup l) e.id
        | none =>
          have hf' : lookup d.pe l t 0 = none := hf
          rw [hI.find_none hf, hf']
          rfl
      · rw [if_neg hl, if_neg hl]; rfl
    refine ⟨hI.rk, R_congr h1 hent, ?_, by rw [hcores]; exact hI.pairs.filter _, h2, hI.plSeq, hI.plSeq0,
      fun i hi => hI.peSeq i (h3 i hi), hI.peSeq0, ?_, hI.trSeq0⟩
    · intro k hk
      rw [hcores] at hk
      obtain ⟨hk1, hk2⟩ := List.mem_filter.mp hk
      show (k.1, k.2.2) ∈ (ordOk S (absF d) (.removeTrack t) none).ents k.2.1
      simp only [ordOk, absF_ids]
      by_cases hl : (ids d.pl).contains k.2.1 = true
      · rw [if_pos hl]
        have hval : k.2.2 ≠ (⟨t, 0⟩ : Ent) := by
          intro e; rw [hl] at hk2; simp [e] at hk2
        cases hf : S.find k.2.1 t 0 with
        | none => exact hI.pay k hk1
        | some p =>
          simp only
          unfold dropEnt
          refine List.mem_filter.mpr ⟨hI.pay k hk1, ?_⟩
          have hp1 := List.mem_of_find?_eq_some hf
          have hp2 := List.find?_some hf
          simp only [Bool.and_eq_true, beq_iff_eq] at hp2
          simp only [bne_iff_ne, ne_eq]
          intro e
          have := pair_eq_of_fst (hI.re.nodup k.2.1) (hI.pay k hk1) hp1 e
          apply hval
          have h2 : k.2.2 = p.2 := congrArg (·.2) this
          rw [h2]; exact ent_eq.mpr hp2
      · rw [if_neg hl]; exact hI.pay k hk1
    · intro x hx
      exact hI.trPos x (List.mem_filter.mp hx).1
  · exact chInv_throw (e := .invalid_argument) hI (by simp [step, hc])

theorem chInv_step {S : Ord} {d : Db} (hI : ChInv S d) (hP : PlInv d) (op : Op) (hok : okOp op = true) :
    ChInv (ordStep S d op) (step d op).1 := by
  cases op with
  | createRoot n => exact chInv_createRoot hI n
  | createRootAfter n a => exact chInv_createRootAfter hI n a
  | createSub p n => exact chInv_createSub hI p n
  | createSubAfter p n a => exact chInv_createSubAfter hI p n a
  | rename c n => exact chInv_rename hI c n
  | setParent c p => exact chInv_setParent hI hP c p
  | removeCrate c => exact chInv_removeCrate hI hP c
  | createTrack =>
    have hstep : step d .createTrack = ({ d with tracks := d.tracks ++ [d.trSeq + 1], trSeq := d.trSeq + 1 }, .ok (some (d.trSeq + 1))) := rfl
    rw [ordStep_ok hstep, hstep]
    refine ⟨hI.rk, hI.re, hI.pay, hI.pairs, hI.fires, hI.plSeq, hI.plSeq0, hI.peSeq, hI.peSeq0, ?_, by have := hI.trSeq0; show 0 ≤ d.trSeq + 1; omega⟩
    intro x hx
    simp only [List.mem_append, List.mem_singleton] at hx
    rcases hx with hx | hx
    · exact hI.trPos x hx
    · have := hI.trSeq0; omega
  | removeTrack t => exact chInv_removeTrack hI t
  | addTrack c t =>
    by_cases he : plExists d c = true
    · by_cases ht : t ∈ d.tracks
      · exact chInv_addBack hI (hI.trPos t ht) (l := c) (u := 0) (f := false) (by simp [step, he, ht]) (by intro out; cases out <;> rfl)
      · exact chInv_throw (e := exn "track_deleted") hI (by simp [step, he, ht])
    · have he' : plExists d c = false := by simpa using he
      exact chInv_throw (e := exn "crate_deleted") hI (by simp [step, he'])
  | removeTrackFrom c t =>
    cases hg : peFind d c t 0 with
    | some e =>
      obtain ⟨_, hem, hek, _⟩ := lookup_core hg
      have hstep : step d (.removeTrackFrom c t) = ({ d with pe := deleteKeyed fires d.pe c e.id }, .ok none) := by simp [step, hg]
      refine chInv_deleteKeyed hI hem rfl hek hstep ?_
      rw [ordStep_ok hstep]; simp only [ordOk, hI.find_some hg]
    | none =>
      have hstep : step d (.removeTrackFrom c t) = (d, .ok none) := by simp [step, hg]
      rw [ordStep_ok hstep, hstep]; simp only [ordOk, hI.find_none hg]; exact hI
  | clearTracks c =>
    refine chInv_clearKey hI (l := c) rfl ?_
    have hstep : step d (.clearTracks c) = ({ d with pe := clearKey fires d.pe c }, .ok none) := rfl
    rw [ordStep_ok hstep]; rfl
  | peAddBack l t u f =>
    have ht : 0 < t := by simpa [okOp] using hok
    exact chInv_addBack hI ht (u := u) (f := f) rfl (by intro out; cases out <;> rfl)
  | peRemove l e =>
    by_cases hc : ((rowsOf d.pe l).find? (·.id == e)).isNone = true
    · exact chInv_throw (e := .invalid_argument) hI (by simp only [step, hc, if_true])
    · have hc' : ((rowsOf d.pe l).find? (·.id == e)).isNone = false := by simpa using hc
      have hstep : step d (.peRemove l e) = ({ d with pe := deleteKeyed fires d.pe l e }, .ok none) := by
        simp only [step, hc']; rfl
      obtain ⟨row, hrow⟩ : ∃ row, (rowsOf d.pe l).find? (·.id == e) = some row := by
        cases hf : (rowsOf d.pe l).find? (·.id == e) with
        | none => rw [hf] at hc'; simp at hc'
        | some row => exact ⟨row, rfl⟩
      obtain ⟨h1, h2, h3⟩ := find_rowsOf hI.re hrow
      refine chInv_deleteKeyed hI h1 h2 h3 hstep ?_
      rw [ordStep_ok hstep]; rfl
  | peClear l =>
    refine chInv_clearKey hI (l := l) rfl ?_
    have hstep : step d (.peClear l) = ({ d with pe := clearKey fires d.pe l }, .ok none) := rfl
    rw [ordStep_ok hstep]; rfl

/-- The Spec run (forest by `judgeF`, lists by `ordNext`, both from the Model's answers only) never objects,
its forest is the abstraction of the Playlist table, and its lists are represented by the tables. -/
theorem chInv_run {S : Ord} {d : Db} (hI : ChInv S d) (hP : PlInv d) (ops : List Op) (hok : ops.all okOp = true) :
    ∃ S', specRunO d (absF d) S ops = some (absF (run d ops), S') ∧ ChInv S' (run d ops) := by
  induction ops generalizing S d with
  | nil => exact ⟨S, rfl, hI⟩
  | cons op ops ih =>
    simp only [List.all_cons, Bool.and_eq_true] at hok
    obtain ⟨S', h1, h2⟩ := ih (chInv_step hI hP op hok.1) (plInv_step hP op) hok.2
    refine ⟨S', ?_, h2⟩
    simp only [specRunO, run]
    rw [judgeF_of_fstep hP (fstep hP.wf op)]
    exact h1

end EngineModel.Db.V2
