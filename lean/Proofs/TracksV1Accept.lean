/-
C06 1.x, acceptance side, part 1: the decode-after-encode guard of
`set_performance_data_column`, characterised exactly — a column value passes
iff it is `stable…` (and is then stored as given); hence each single-column
update succeeds iff the value is stable and the PerformanceData row exists.
-/
import EngineModel.TracksV1.Accept
import Proofs.TracksV1HistDb

namespace EngineModel.TracksV1

open Impl.V1 (GMarker HotCue LoopV Entry Wave Beat Cues Loops)
open Fl (FOps)

set_option linter.unusedSimpArgs false
set_option linter.unusedVariables false

/-! ### reflexivity of the C++ comparisons = "not NaN" -/

theorem F64.eq_self (x : Bits) : F64.eq x x = !F64.isNaN x := by
  unfold F64.eq
  cases F64.isNaN x <;> simp

theorem all2_self {α} (eq : α → α → Bool) (p : α → Bool) (h : ∀ a, eq a a = p a) (l : List α) :
    all2 eq l l = l.all p := by
  induction l with
  | nil => rfl
  | cons a t ih => simp only [all2, List.all_cons, h a, ih]

theorem eqMarker_self (m : GMarker) : eqMarker m m = !F64.isNaN m.off := by
  unfold eqMarker
  rw [F64.eq_self]; simp

theorem all2_marker_self (g : List GMarker) : all2 eqMarker g g = gridNum g :=
  all2_self eqMarker _ eqMarker_self g

theorem eqOptF_znf (x : Option Bits) : eqOptF (zeroNoneF x) x = numOpt x := by
  cases x with
  | none => rfl
  | some a =>
    unfold zeroNoneF numOpt
    simp only [Option.bind_some, Option.all_some]
    cases hz : F64.isZero a
    · simp only [Bool.false_eq_true, if_false, eqOptF, F64.eq_self]; simp
    · simp [eqOptF]

theorem znf_of_numOpt (x : Option Bits) (h : numOpt x = true) : zeroNoneF x = x := by
  cases x with
  | none => rfl
  | some a =>
    unfold numOpt at h
    simp only [Option.all_some, Bool.and_eq_true, Bool.not_eq_true'] at h
    unfold zeroNoneF
    simp [h.2]

/-! ### the guard in general -/

theorem colGuard_ok_iff {α} (norm : α → Res α) (eq : α → α → Bool) (v v' : α) :
    colGuard norm eq v = .ok v' ↔ (norm v = .ok v' ∧ eq v' v = true) := by
  unfold colGuard
  cases hn : norm v with
  | ok w =>
    simp only
    constructor
    · intro h
      split at h
      · cases h; exact ⟨rfl, by assumption⟩
      · cases h
    · intro ⟨h1, h2⟩
      cases h1
      rw [if_pos h2]
  | throw e => simp
  | ub u => simp

theorem setCol_iff {α} (r r' : TrackRows) (norm : α → Res α) (eq : α → α → Bool) (v : α)
    (put : PerfRow → α → PerfRow) (stable : Bool)
    (hg : ∀ v', colGuard norm eq v = .ok v' ↔ (stable = true ∧ v' = v)) :
    setCol r norm eq v put = .ok r' ↔
      (stable = true ∧ ∃ p, r.perf = some p ∧ r' = { r with perf := some { put p v with isAnalyzed := 1 } }) := by
  constructor
  · intro h
    obtain ⟨v', p, h1, h2, h3⟩ := setCol_ok _ _ _ _ _ _ h
    obtain ⟨hs, he⟩ := (hg v').mp h1
    subst he
    exact ⟨hs, p, h2, h3⟩
  · intro ⟨hs, p, hp, hr⟩
    unfold setCol
    rw [(hg v).mpr ⟨hs, rfl⟩]
    simp only [hp, hr]

/-! ### track data -/

theorem eqTrack_norm (v : Impl.V1.Track) : eqTrack (normTrack v) v = stableTrack v := by
  obtain ⟨sr, sc, ld, ky⟩ := v
  unfold eqTrack normTrack stableTrack
  simp only [eqOptF_znf]
  have h1 : ((sc.bind fun n => if n = 0 then none else some n) == sc) = (sc != some 0) := by
    cases sc with
    | none => rfl
    | some n => by_cases h : n = 0 <;> simp [h]
  have h2 : ((ky.bind fun k => if k = 0 then none else some k) == ky) = (ky != some 0) := by
    cases ky with
    | none => rfl
    | some n => by_cases h : n = 0 <;> simp [h]
  rw [h1, h2]

theorem normTrack_of_stable (v : Impl.V1.Track) (h : stableTrack v = true) : normTrack v = v := by
  obtain ⟨sr, sc, ld, ky⟩ := v
  unfold stableTrack at h
  simp only [Bool.and_eq_true, bne_iff_ne, ne_eq] at h
  obtain ⟨⟨⟨h1, h2⟩, h3⟩, h4⟩ := h
  unfold normTrack
  simp only [znf_of_numOpt _ h1, znf_of_numOpt _ h3]
  congr 1
  · cases sc with
    | none => rfl
    | some n =>
      have : n ≠ 0 := fun e => h2 (by rw [e])
      simp [this]
  · cases ky with
    | none => rfl
    | some n =>
      have : n ≠ 0 := fun e => h4 (by rw [e])
      simp [this]

theorem guardTrack_iff (v v' : Impl.V1.Track) :
    colGuard (fun x => Res.ok (normTrack x)) eqTrack v = .ok v' ↔ (stableTrack v = true ∧ v' = v) := by
  rw [colGuard_ok_iff]
  constructor
  · intro ⟨h1, h2⟩
    simp only [Res.ok.injEq] at h1
    subst h1
    rw [eqTrack_norm] at h2
    exact ⟨h2, normTrack_of_stable v h2⟩
  · intro ⟨h1, h2⟩
    subst h2
    have hn := normTrack_of_stable v' h1
    have he : eqTrack v' v' = true := by
      have := eqTrack_norm v'
      rw [hn, h1] at this
      exact this
    rw [hn]
    exact ⟨rfl, he⟩

/-! ### beat data -/

theorem guardBeat_iff (v v' : Beat) :
    colGuard normBeat eqBeat v = .ok v' ↔ (stableBeat v = true ∧ v' = v) := by
  rw [colGuard_ok_iff]
  obtain ⟨sr, sc, d, a⟩ := v
  unfold normBeat stableBeat
  simp only
  cases hd : Impl.V1.validGrid d <;> cases ha : Impl.V1.validGrid a <;>
    simp only [Bool.not_true, Bool.not_false, Bool.or_true, Bool.true_or, Bool.or_false, if_true, if_false,
      Bool.false_eq_true, Bool.and_false, Bool.false_and, Bool.and_true, Bool.true_and, false_and, reduceCtorEq]
  constructor
  · intro ⟨h1, h2⟩
    simp only [Res.ok.injEq] at h1
    subst h1
    unfold eqBeat at h2
    simp only [eqOptF_znf, all2_marker_self] at h2
    refine ⟨h2, ?_⟩
    simp only [Bool.and_eq_true] at h2
    rw [znf_of_numOpt _ h2.1.1.1, znf_of_numOpt _ h2.1.1.2]
  · intro ⟨h1, h2⟩
    subst h2
    have h1' := h1
    simp only [Bool.and_eq_true] at h1'
    rw [znf_of_numOpt _ h1'.1.1.1, znf_of_numOpt _ h1'.1.1.2]
    refine ⟨rfl, ?_⟩
    have := h1
    unfold eqBeat
    simp only
    have e1 : eqOptF sr sr = numOpt sr := by
      have := eqOptF_znf sr; rw [znf_of_numOpt _ h1'.1.1.1] at this; exact this
    have e2 : eqOptF sc sc = numOpt sc := by
      have := eqOptF_znf sc; rw [znf_of_numOpt _ h1'.1.1.2] at this; exact this
    rw [e1, e2, all2_marker_self, all2_marker_self]
    exact h1

/-! ### quick cues -/

def cueNum (q : Option HotCue) : Bool := q.all fun c => !F64.isNaN c.off
def loopNum (q : Option LoopV) : Bool := q.all fun l => !F64.isNaN l.start && !F64.isNaN l.stop

theorem eqOptCue_self (q : Option HotCue) : eqOpt eqCue q q = cueNum q := by
  cases q with
  | none => rfl
  | some c => simp [eqOpt, eqCue, cueNum, F64.eq_self]

theorem eqOptLoop_self (q : Option LoopV) : eqOpt eqLoop q q = loopNum q := by
  cases q with
  | none => rfl
  | some c => simp [eqOpt, eqLoop, loopNum, F64.eq_self]

theorem eqCues_self (v : Cues) :
    eqCues v v = (v.cues.all cueNum && !F64.isNaN v.adjMain && !F64.isNaN v.defMain) := by
  unfold eqCues
  rw [all2_self (eqOpt eqCue) cueNum eqOptCue_self, F64.eq_self, F64.eq_self]

theorem eqLoops_self (v : Loops) : eqLoops v v = List.all v loopNum := by
  unfold eqLoops
  rw [all2_self (eqOpt eqLoop) loopNum eqOptLoop_self]

theorem bne_negOne (x : Bits) : (x != F64.negOne) = true ↔ x ≠ F64.negOne := by simp

theorem normCueSlot_stored (q : Option HotCue) (h : cueStored q = true) : normCueSlot q = .ok q := by
  cases q with
  | none => rfl
  | some c =>
    unfold cueStored at h
    simp only [Bool.and_eq_true, bne_iff_ne, ne_eq, Bool.not_eq_true'] at h
    obtain ⟨⟨h1, h2⟩, _⟩ := h
    have hok : Spec.cueOk (some c) = true := h1
    rw [normCueSlot_of_ok _ hok]
    unfold Spec.normCue
    simp [h2]

theorem normLoopSlot_stored (q : Option LoopV) (h : loopStored q = true) : normLoopSlot q = .ok q := by
  cases q with
  | none => rfl
  | some c =>
    unfold loopStored at h
    simp only [Bool.and_eq_true, bne_iff_ne, ne_eq, Bool.not_eq_true'] at h
    obtain ⟨⟨⟨h1, h2⟩, _⟩, _⟩ := h
    have hok : Spec.loopOk (some c) = true := h1
    rw [normLoopSlot_of_ok _ hok]
    unfold Spec.normLoop
    simp [h2]

theorem cueStored_iff (q : Option HotCue) :
    cueStored q = true ↔ (Spec.cueOk q = true ∧ Spec.normCue q = q ∧ cueNum q = true) := by
  cases q with
  | none => simp [cueStored, Spec.cueOk, Spec.normCue, cueNum]
  | some c =>
    unfold cueStored Spec.cueOk Spec.normCue cueNum
    simp only [Bool.and_eq_true, bne_iff_ne, ne_eq, Option.all_some]
    by_cases h : c.off = F64.negOne
    · simp [h]
    · simp [h]

theorem loopStored_iff (q : Option LoopV) :
    loopStored q = true ↔ (Spec.loopOk q = true ∧ Spec.normLoop q = q ∧ loopNum q = true) := by
  cases q with
  | none => simp [loopStored, Spec.loopOk, Spec.normLoop, loopNum]
  | some c =>
    unfold loopStored Spec.loopOk Spec.normLoop loopNum
    simp only [Bool.and_eq_true, bne_iff_ne, ne_eq, Option.all_some]
    by_cases h : c.start = F64.negOne
    · simp [h]
    · simp [h, and_assoc]

theorem all_stored_of {α} (stored ok num : α → Bool) (g : α → α)
    (hiff : ∀ q, stored q = true ↔ (ok q = true ∧ g q = q ∧ num q = true))
    (l : List α) (h1 : l.all ok = true) (h2 : l.map g = l) (h3 : l.all num = true) : l.all stored = true := by
  rw [List.all_eq_true] at h1 h3 ⊢
  intro q hq
  exact (hiff q).mpr ⟨h1 q hq, map_eq_self_mem g l h2 q hq, h3 q hq⟩

theorem guardCues_iff (v v' : Cues) :
    colGuard normCues eqCues v = .ok v' ↔ (stableCues v = true ∧ v' = v) := by
  constructor
  · intro h
    obtain ⟨he, h8, hall, hfix⟩ := guard_cues v v' h
    subst he
    rw [colGuard_ok_iff] at h
    have heq := h.2
    rw [eqCues_self] at heq
    simp only [Bool.and_eq_true] at heq
    refine ⟨?_, rfl⟩
    unfold stableCues
    simp only [Bool.and_eq_true, decide_eq_true_eq]
    exact ⟨⟨⟨h8, all_stored_of cueStored Spec.cueOk cueNum Spec.normCue cueStored_iff _ hall hfix heq.1.1⟩,
      heq.1.2⟩, heq.2⟩
  · intro ⟨hs, he⟩
    subst he
    unfold stableCues at hs
    simp only [Bool.and_eq_true, decide_eq_true_eq] at hs
    obtain ⟨⟨⟨h8, hall⟩, ha⟩, hd⟩ := hs
    rw [colGuard_ok_iff]
    have hn : normCues v' = .ok v' := by
      unfold normCues
      have : ¬ 8 < v'.cues.length := by omega
      rw [if_neg this]
      have hm : mapRes normCueSlot v'.cues = .ok (v'.cues.map id) :=
        mapRes_ok_map _ _ _ (fun a ha => normCueSlot_stored a (List.all_eq_true.mp hall a ha))
      rw [hm, List.map_id]
      simp only
      have : ¬ v'.cues.length < 8 := by omega
      rw [if_neg this]
    refine ⟨hn, ?_⟩
    rw [eqCues_self]
    simp only [Bool.and_eq_true]
    refine ⟨⟨?_, ha⟩, hd⟩
    rw [List.all_eq_true] at hall ⊢
    intro q hq
    exact ((cueStored_iff q).mp (hall q hq)).2.2

theorem guardLoops_iff (v v' : Loops) :
    colGuard normLoops eqLoops v = .ok v' ↔ (stableLoops v = true ∧ v' = v) := by
  constructor
  · intro h
    obtain ⟨he, hall, hfix⟩ := guard_loops v v' h
    subst he
    rw [colGuard_ok_iff] at h
    have heq := h.2
    rw [eqLoops_self] at heq
    exact ⟨all_stored_of loopStored Spec.loopOk loopNum Spec.normLoop loopStored_iff _ hall hfix heq, rfl⟩
  · intro ⟨hs, he⟩
    subst he
    unfold stableLoops at hs
    rw [colGuard_ok_iff]
    have hn : normLoops v' = .ok v' := by
      unfold normLoops
      have hm : mapRes normLoopSlot v' = .ok (List.map id v') :=
        mapRes_ok_map _ _ _ (fun a ha => normLoopSlot_stored a (List.all_eq_true.mp hs a ha))
      rw [hm, List.map_id]
    refine ⟨hn, ?_⟩
    rw [eqLoops_self]
    rw [List.all_eq_true] at hs ⊢
    intro q hq
    exact ((loopStored_iff q).mp (hs q hq)).2.2

/-! ### waveforms -/

theorem guardHires_iff (v v' : Wave) :
    colGuard (fun x => Res.ok (normHires x)) eqWave v = .ok v' ↔ (stableWave v = true ∧ v' = v) := by
  rw [colGuard_ok_iff]
  unfold normHires stableWave eqWave
  simp only [Res.ok.injEq]
  constructor
  · intro ⟨h1, h2⟩
    subst h1
    rw [F64.eq_self] at h2
    simp only [Bool.and_eq_true, beq_self_eq_true, and_true] at h2
    exact ⟨h2, rfl⟩
  · intro ⟨h1, h2⟩
    subst h2
    rw [F64.eq_self]
    simp [h1]

theorem guardOvw_iff (spe : Bits) (es : List Entry) (v' : Wave) :
    colGuard (fun x => Res.ok (normOvw x)) eqWave ⟨spe, es.map opaque255⟩ = .ok v' ↔
      ((!F64.isNaN spe) = true ∧ v' = ⟨spe, es.map opaque255⟩) := by
  rw [colGuard_ok_iff]
  have hn : normOvw ⟨spe, es.map opaque255⟩ = ⟨spe, es.map opaque255⟩ := by
    unfold normOvw
    simp only [List.map_map]
    congr 1
  rw [hn]
  unfold eqWave
  simp only [Res.ok.injEq]
  constructor
  · intro ⟨h1, h2⟩
    subst h1
    rw [F64.eq_self] at h2
    simp only [Bool.and_eq_true, beq_self_eq_true, and_true] at h2
    exact ⟨h2, rfl⟩
  · intro ⟨h1, h2⟩
    subst h2
    rw [F64.eq_self]
    simp [h1]

/-! ### the six single-column updates -/

theorem setTrackCol_iff (r r' : TrackRows) (v : Impl.V1.Track) :
    setTrackCol r v = .ok r' ↔ (stableTrack v = true ∧
      ∃ p, r.perf = some p ∧ r' = { r with perf := some { p with trackData := v, isAnalyzed := 1 } }) :=
  setCol_iff r r' _ _ v _ (stableTrack v) (guardTrack_iff v)

theorem setBeatCol_iff (r r' : TrackRows) (v : Beat) :
    setBeatCol r v = .ok r' ↔ (stableBeat v = true ∧
      ∃ p, r.perf = some p ∧ r' = { r with perf := some { p with beat := v, isAnalyzed := 1 } }) :=
  setCol_iff r r' _ _ v _ (stableBeat v) (guardBeat_iff v)

theorem setCuesCol_iff (r r' : TrackRows) (v : Cues) :
    setCuesCol r v = .ok r' ↔ (stableCues v = true ∧
      ∃ p, r.perf = some p ∧ r' = { r with perf := some { p with cues := v, isAnalyzed := 1 } }) :=
  setCol_iff r r' _ _ v _ (stableCues v) (guardCues_iff v)

theorem setLoopsCol_iff (r r' : TrackRows) (v : Loops) :
    setLoopsCol r v = .ok r' ↔ (stableLoops v = true ∧
      ∃ p, r.perf = some p ∧ r' = { r with perf := some { p with loops := v, isAnalyzed := 1 } }) :=
  setCol_iff r r' _ _ v _ (stableLoops v) (guardLoops_iff v)

theorem setHiresCol_iff (r r' : TrackRows) (v : Wave) :
    setHiresCol r v = .ok r' ↔ (stableWave v = true ∧
      ∃ p, r.perf = some p ∧ r' = { r with perf := some { p with hires := v, isAnalyzed := 1 } }) :=
  setCol_iff r r' _ _ v _ (stableWave v) (guardHires_iff v)

theorem setOvwCol_iff (r r' : TrackRows) (v : Wave) :
    setOvwCol r v = .ok r' ↔ (stableWave v = true ∧
      ∃ p, r.perf = some p ∧
        r' = { r with perf := some { p with overview := ⟨v.spe, v.entries.map opaque255⟩, isAnalyzed := 1 } }) :=
  setCol_iff r r' (fun x => Res.ok (normOvw x)) eqWave (⟨v.spe, v.entries.map opaque255⟩ : Wave)
    (fun p x => { p with overview := x }) (stableWave v) (guardOvw_iff v.spe v.entries)

end EngineModel.TracksV1
