/-
The converse of Proofs/V2WfRaw.lean: a state on which the executable predicate `wfRaw` says `true` — e.g. a
library LOADED from disk whose dump passes the check — satisfies the proof-level invariants `Inv S d` for a
Spec state `S` read off the tables.  Hence every theorem stated for `Inv` (per-operation simulation, refinement,
preservation) applies to loaded well-formed libraries, not only to histories from the empty library.
-/
import Proofs.V2Run

set_option linter.dupNamespace false
set_option linter.unusedSimpArgs false

namespace EngineModel.Db.Chain

open EngineModel.Spec EngineModel.ListAux

variable {α : Type}

/-! ### `nodupB` means `Nodup` -/

theorem eraseDups_length_le : ∀ (n : Nat) (l : List Int), l.length ≤ n → l.eraseDups.length ≤ l.length := by
  intro n
  induction n with
  | zero => intro l h; have : l = [] := List.length_eq_zero_iff.mp (by omega); subst this; simp
  | succ n ih =>
    intro l h
    cases l with
    | nil => simp
    | cons a as =>
      rw [List.eraseDups_cons]
      have h1 : (as.filter (fun b => !b == a)).length ≤ as.length := List.length_filter_le _ _
      have h2 := ih (as.filter (fun b => !b == a)) (by simp only [List.length_cons] at h; omega)
      simp only [List.length_cons]
      omega

theorem nodup_of_eraseDups_length : ∀ (n : Nat) (l : List Int), l.length ≤ n → l.eraseDups.length = l.length → l.Nodup := by
  intro n
  induction n with
  | zero => intro l h _; have : l = [] := List.length_eq_zero_iff.mp (by omega); subst this; simp
  | succ n ih =>
    intro l h he
    cases l with
    | nil => simp
    | cons a as =>
      rw [List.eraseDups_cons] at he
      simp only [List.length_cons] at he h
      have h1 : (as.filter (fun b => !b == a)).length ≤ as.length := List.length_filter_le _ _
      have h2 := eraseDups_length_le n (as.filter (fun b => !b == a)) (by omega)
      have hfl : (as.filter (fun b => !b == a)).length = as.length := by omega
      have hfe : as.filter (fun b => !b == a) = as := by
        apply List.filter_eq_self.mpr
        intro b hb
        cases hc : (!b == a) with
        | true => rfl
        | false =>
          exfalso
          have : (as.filter (fun b => !b == a)).length < as.length :=
            List.length_filter_lt_length_iff_exists.mpr ⟨b, hb, by simp [hc]⟩
          omega
      rw [hfe] at he
      refine List.nodup_cons.mpr ⟨?_, ih as (by omega) (by omega)⟩
      intro ha
      have := List.filter_eq_self.mp hfe a ha
      simp at this

theorem nodup_of_nodupB {l : List Int} (h : V2.nodupB l = true) : l.Nodup := by
  unfold V2.nodupB at h
  exact nodup_of_eraseDups_length l.length l (Nat.le_refl _) (by simpa using h)

/-! ### the backwards walk returns a linked list of rows -/

/-- Consecutive rows are linked by `next`, the last one ends with `e`. -/
def Chained : List (Row α) → Int → Prop
  | [], _ => True
  | [x], e => x.next = e
  | x :: y :: rest, e => x.next = y.id ∧ Chained (y :: rest) e

theorem lookupNext_some {rows : Table α} {c : Int} {r : Row α} (h : lookupNext rows c = some r) : r ∈ rows ∧ r.next = c := by
  unfold lookupNext at h
  have h1 := List.mem_of_find?_eq_some h
  have h2 := List.find?_some h
  exact ⟨List.mem_reverse.mp h1, by simpa using h2⟩

theorem walkFuel_chained (rows : Table α) (e : Int) : ∀ (fuel : Nat) (cur : Int) (acc : List (Row α)),
    (acc = [] ∧ cur = e ∨ ∃ h t, acc = h :: t ∧ h.id = cur ∧ Chained acc e) → (∀ r ∈ acc, r ∈ rows) →
    Chained (walkFuel rows fuel cur acc) e ∧ ∀ r ∈ walkFuel rows fuel cur acc, r ∈ rows := by
  intro fuel
  induction fuel with
  | zero =>
    intro cur acc h hm
    simp only [walkFuel]
    refine ⟨?_, hm⟩
    rcases h with ⟨rfl, _⟩ | ⟨_, _, _, _, hc⟩
    · trivial
    · exact hc
  | succ f ih =>
    intro cur acc h hm
    simp only [walkFuel]
    cases hl : lookupNext rows cur with
    | none =>
      simp only
      refine ⟨?_, hm⟩
      rcases h with ⟨rfl, _⟩ | ⟨_, _, _, _, hc⟩
      · trivial
      · exact hc
    | some r =>
      simp only
      obtain ⟨hr, hn⟩ := lookupNext_some hl
      apply ih
      · right
        refine ⟨r, acc, rfl, rfl, ?_⟩
        rcases h with ⟨rfl, hc⟩ | ⟨h0, t, rfl, hid, hc⟩
        · show r.next = e; rw [hn, hc]
        · exact ⟨by rw [hn, hid], hc⟩
      · intro x hx
        rcases List.mem_cons.mp hx with rfl | hx
        · exact hr
        · exact hm x hx

theorem chained_succ : ∀ (l : List (Row α)), Chained l 0 → (l.map (·.id)).Nodup → ∀ r ∈ l, r.next = succ (l.map (·.id)) r.id := by
  intro l
  induction l with
  | nil => intro _ _ r hr; simp at hr
  | cons x rest ih =>
    intro hc hn r hr
    have hn' : x.id ∉ rest.map (·.id) ∧ (rest.map (·.id)).Nodup := List.nodup_cons.mp hn
    cases rest with
    | nil =>
      simp only [List.mem_singleton] at hr
      subst hr
      simp only [List.map_cons, List.map_nil, succ, if_true, List.headD_nil]
      exact hc
    | cons y rest' =>
      obtain ⟨h1, h2⟩ := hc
      rcases List.mem_cons.mp hr with rfl | hr'
      · simp only [List.map_cons, succ, if_true, List.headD_cons]
        exact h1
      · have hne : x.id ≠ r.id := by
          intro e; apply hn'.1; rw [e]; exact List.mem_map.mpr ⟨r, hr', rfl⟩
        have := ih h2 hn'.2 r hr'
        simp only [List.map_cons, succ, if_neg hne] at this ⊢
        exact this

theorem subset_of_nodup_length {l m : List Int} (hl : l.Nodup) (hm : m.Nodup) (hs : ∀ x ∈ l, x ∈ m) (hlen : m.length ≤ l.length) :
    ∀ x ∈ m, x ∈ l := by
  induction l generalizing m with
  | nil =>
    intro x hx
    have : m = [] := List.length_eq_zero_iff.mp (by simpa using hlen)
    rw [this] at hx; simp at hx
  | cons a l ih =>
    have hl' := List.nodup_cons.mp hl
    intro x hx
    by_cases hxa : x = a
    · rw [hxa]; simp
    · have ham : a ∈ m := hs a (by simp)
      have : ∀ y ∈ m.erase a, y ∈ l := by
        apply ih hl'.2 (List.Nodup.erase _ hm)
        · intro y hy
          have hya : y ≠ a := fun e => hl'.1 (e ▸ hy)
          exact (List.mem_erase_of_ne hya).mpr (hs y (List.mem_cons_of_mem _ hy))
        · rw [List.length_erase_of_mem ham]
          simp only [List.length_cons] at hlen
          omega
      exact List.mem_cons_of_mem _ (this x ((List.mem_erase_of_ne hxa).mpr hx))

/-- The lists the walk reads off a table. -/
def walked (t : Table α) (k : Int) : List Int :=
  match walkIds t k with
  | .ok l => l
  | _ => []

/-- `chainsOk` (with the ids a key and positive) is `R`. -/
theorem R_of_chainsOk {t : Table α} (hn : (ids t).Nodup) (hpos : ∀ r ∈ t, 0 < r.id) (hc : V2.chainsOk t = true) :
    R (walked t) t := by
  unfold V2.chainsOk at hc
  rw [List.all_eq_true] at hc
  -- what the check says about a key that has rows
  have key : ∀ k, (∃ r ∈ t, r.key = k) → ∃ rows : List (Row α), walkBack t k = .ok rows ∧ walked t k = rows.map (·.id) ∧
      (rows.map (·.id)).Nodup ∧ rows.length = (rowsOf t k).length ∧ Chained rows 0 ∧ ∀ r ∈ rows, r ∈ rowsOf t k := by
    intro k ⟨r0, hr0, hk0⟩
    have hkm : k ∈ (t.map (·.key)).eraseDups := List.mem_eraseDups.mpr (List.mem_map.mpr ⟨r0, hr0, hk0⟩)
    have h := hc k hkm
    have hne : (rowsOf t k).isEmpty = false := by
      cases hrows : rowsOf t k with
      | nil => have : r0 ∈ rowsOf t k := mem_rowsOf.mpr ⟨hr0, hk0⟩; rw [hrows] at this; simp at this
      | cons a l => rfl
    unfold walkIds walkBack at h
    simp only [hne, Bool.false_eq_true, if_false] at h
    cases hl : lookupNext (rowsOf t k) 0 with
    | none => simp [hl, Res.bind] at h
    | some r1 =>
      simp only [hl, Res.bind, Bool.and_eq_true, beq_iff_eq, List.length_map] at h
      obtain ⟨hw1, hw2⟩ := walkFuel_chained (rowsOf t k) 0 (rowsOf t k).length 0 [] (Or.inl ⟨rfl, rfl⟩) (by simp)
      refine ⟨walkFuel (rowsOf t k) (rowsOf t k).length 0 [], ?_, ?_, nodup_of_nodupB h.2, h.1, hw1, hw2⟩
      · unfold walkBack; simp only [hne, Bool.false_eq_true, if_false, hl]
      · unfold walked walkIds walkBack; simp only [hne, Bool.false_eq_true, if_false, hl, Res.bind]
  have rowIn : ∀ r ∈ t, ∃ rows : List (Row α), walked t r.key = rows.map (·.id) ∧ (rows.map (·.id)).Nodup ∧ Chained rows 0 ∧
      (∀ x ∈ rows, x ∈ rowsOf t r.key) ∧ r ∈ rows := by
    intro r hr
    obtain ⟨rows, _, h2, h3, h4, h5, h6⟩ := key r.key ⟨r, hr, rfl⟩
    refine ⟨rows, h2, h3, h5, h6, ?_⟩
    -- every row of the key is visited: the walk lists as many different rows as there are
    have hsub : ∀ x ∈ rows.map (·.id), x ∈ ids (rowsOf t r.key) := by
      intro x hx
      obtain ⟨y, hy, rfl⟩ := List.mem_map.mp hx
      exact List.mem_map.mpr ⟨y, h6 y hy, rfl⟩
    have hall := subset_of_nodup_length h3 (nodup_ids_filter _ hn) hsub (by simp only [ids, List.length_map, rowsOf] at h4 ⊢; omega)
    have : r.id ∈ rows.map (·.id) := hall r.id (List.mem_map.mpr ⟨r, mem_rowsOf.mpr ⟨hr, rfl⟩, rfl⟩)
    obtain ⟨y, hy, e⟩ := List.mem_map.mp this
    have := eq_of_id_eq hn (mem_rowsOf.mp (h6 y hy)).1 hr e
    rw [← this]; exact hy
  constructor
  · exact hn
  · exact hpos
  · intro k
    by_cases hk : ∃ r ∈ t, r.key = k
    · obtain ⟨rows, _, h2, h3, _⟩ := key k hk
      rw [h2]; exact h3
    · -- no rows: the walk returns the empty list
      have : rowsOf t k = [] := by
        apply List.filter_eq_nil_iff.mpr
        intro r hr hrk
        exact hk ⟨r, hr, by simpa using hrk⟩
      unfold walked walkIds walkBack
      simp [this, Res.bind]
  · intro r hr
    obtain ⟨rows, h2, _, _, _, h6⟩ := rowIn r hr
    rw [h2]; exact List.mem_map.mpr ⟨r, h6, rfl⟩
  · intro r hr
    obtain ⟨rows, h2, h3, h5, _, h6⟩ := rowIn r hr
    rw [h2]; exact chained_succ rows h5 h3 r h6
  · intro k x hx
    by_cases hk : ∃ r ∈ t, r.key = k
    · obtain ⟨rows, _, h2, _, _, _, h6⟩ := key k hk
      rw [h2] at hx
      obtain ⟨y, hy, rfl⟩ := List.mem_map.mp hx
      obtain ⟨h7, h8⟩ := mem_rowsOf.mp (h6 y hy)
      exact ⟨y, h7, rfl, h8⟩
    · have : rowsOf t k = [] := by
        apply List.filter_eq_nil_iff.mpr
        intro r hr hrk
        exact hk ⟨r, hr, by simpa using hrk⟩
      unfold walked walkIds walkBack at hx
      simp [this, Res.bind] at hx

end EngineModel.Db.Chain

namespace EngineModel.Db.V2

open EngineModel.Db.Chain EngineModel.Spec EngineModel.ListAux

theorem idsOk_elim {α : Type} {t : Table α} {seq : Int} (h : idsOk t seq = true) :
    (ids t).Nodup ∧ (∀ r ∈ t, 0 < r.id) ∧ (∀ i ∈ ids t, i ≤ seq) ∧ 0 ≤ seq := by
  unfold idsOk at h
  simp only [Bool.and_eq_true, List.all_eq_true, decide_eq_true_eq] at h
  refine ⟨nodup_of_nodupB h.1.1, ?_, fun i hi => (h.1.2 i hi).2, h.2⟩
  intro r hr
  exact (h.1.2 r.id (List.mem_map.mpr ⟨r, hr, rfl⟩)).1

/-! ### the parent relation: from `forestOk` to a ranked, live forest -/

theorem reachesRoot_mono {t : Table Bytes} : ∀ (n : Nat) (x : Int), reachesRoot t n x = true → reachesRoot t (n + 1) x = true := by
  intro n
  induction n with
  | zero => intro x h; simp [reachesRoot] at h
  | succ n ih =>
    intro x h
    simp only [reachesRoot] at h ⊢
    cases hg : Chain.get t x with
    | none => rw [hg] at h; simp at h
    | some r =>
      rw [hg] at h
      simp only [Bool.or_eq_true, beq_iff_eq] at h ⊢
      rcases h with h | h
      · exact Or.inl h
      · exact Or.inr (ih r.key h)

/-- The number of steps to the root: the least fuel with which the walk succeeds (0 when it never does). -/
def rootDist (t : Table Bytes) (x : Int) : Nat :=
  ((List.range (t.length + 1)).find? (fun n => reachesRoot t n x)).getD 0

theorem rootDist_spec {t : Table Bytes} {x : Int} (h : reachesRoot t t.length x = true) :
    reachesRoot t (rootDist t x) x = true ∧ ∀ m, m < rootDist t x → reachesRoot t m x = false := by
  unfold rootDist
  cases hf : (List.range (t.length + 1)).find? (fun n => reachesRoot t n x) with
  | none =>
    have := List.find?_eq_none.mp hf t.length (List.mem_range.mpr (by omega))
    simp [h] at this
  | some n =>
    simp only [Option.getD_some]
    refine ⟨by simpa using List.find?_some hf, ?_⟩
    intro m hm
    have hmem := List.mem_range.mp (List.mem_of_find?_eq_some hf)
    -- every earlier element of the range fails the test
    cases hr : reachesRoot t m x with
    | false => rfl
    | true =>
      exfalso
      have hsplit := List.find?_eq_some_iff_append.mp hf
      obtain ⟨_, as, bs, hab, hall⟩ := hsplit
      have hmr : m ∈ List.range (t.length + 1) := List.mem_range.mpr (by omega)
      rw [hab] at hmr
      rcases List.mem_append.mp hmr with h1 | h1
      · have := hall m h1; simp [hr] at this
      · -- m sits at or after n in an increasing list: impossible for m < n
        have hsorted : (List.range (t.length + 1)).Pairwise (· < ·) := List.pairwise_lt_range
        rw [hab] at hsorted
        have := (List.pairwise_append.mp hsorted).2.1
        rcases List.mem_cons.mp h1 with e | e
        · omega
        · have := (List.pairwise_cons.mp this).1 m e
          omega

theorem wf_of_checks {d : Db} (hids : idsOk d.pl d.plSeq = true) (hf : forestOk d.pl = true) (hnm : namesOk d.pl = true) :
    Forest.Forest.Wf (absF d) := by
  obtain ⟨hn, hpos, _, _⟩ := idsOk_elim hids
  unfold forestOk at hf
  rw [List.all_eq_true] at hf
  unfold namesOk at hnm
  rw [Bool.and_eq_true, List.all_eq_true, List.all_eq_true] at hnm
  have hcr : ∀ c ∈ (absF d).crates, ∃ r ∈ d.pl, c = rowCrate r := by
    intro c hc; rw [absF_crates] at hc; obtain ⟨r, hr, e⟩ := List.mem_map.mp hc; exact ⟨r, hr, e.symm⟩
  -- a row with a parent: the parent exists and is one step nearer to the root
  have hstep : ∀ r ∈ d.pl, r.key ≠ 0 → r.key ∈ ids d.pl ∧ rootDist d.pl r.key < rootDist d.pl r.id := by
    intro r hr h0
    have hreach := hf r hr
    obtain ⟨h1, h2⟩ := rootDist_spec hreach
    have hk0 : (r.key == 0) = false := by simpa using h0
    cases hd : rootDist d.pl r.id with
    | zero => rw [hd] at h1; simp [reachesRoot] at h1
    | succ m =>
      rw [hd] at h1 h2
      simp only [reachesRoot, get_of_mem hn hr, hk0, Bool.false_or] at h1
      -- the parent reaches the root with fuel m
      have hpar : r.key ∈ ids d.pl := by
        cases m with
        | zero => simp [reachesRoot] at h1
        | succ m' =>
          simp only [reachesRoot] at h1
          cases hg : Chain.get d.pl r.key with
          | none => rw [hg] at h1; simp at h1
          | some p => exact get_isSome_iff.mp (by rw [hg]; rfl)
      refine ⟨hpar, ?_⟩
      -- minimality for the parent
      cases hlt : decide (rootDist d.pl r.key ≤ m) with
      | true => have := of_decide_eq_true hlt; omega
      | false =>
        exfalso
        have hgt : m < rootDist d.pl r.key := by have := of_decide_eq_false hlt; omega
        obtain ⟨rp, hrp, hidp⟩ : ∃ rp ∈ d.pl, rp.id = r.key := by
          simp only [ids, List.mem_map] at hpar; exact hpar
        have hreachp := hf rp hrp
        rw [hidp] at hreachp
        have := (rootDist_spec hreachp).2 m hgt
        rw [h1] at this; simp at this
  constructor
  · rw [absF_ids]; exact hn
  · intro c hc; obtain ⟨r, hr, rfl⟩ := hcr c hc; exact hpos r hr
  · intro c hc p hp
    obtain ⟨r, hr, rfl⟩ := hcr c hc
    simp only [rowCrate] at hp
    obtain ⟨e, h0⟩ := parentOpt_eq_some.mp hp
    rw [absF_ids, ← e]
    exact (hstep r hr (by rw [e]; exact h0)).1
  · refine ⟨rootDist d.pl, ?_⟩
    intro c hc p hp
    obtain ⟨r, hr, rfl⟩ := hcr c hc
    simp only [rowCrate] at hp ⊢
    obtain ⟨e, h0⟩ := parentOpt_eq_some.mp hp
    rw [← e]
    exact (hstep r hr (by rw [e]; exact h0)).2
  · intro c hc; obtain ⟨r, hr, rfl⟩ := hcr c hc; exact hnm.1 r hr
  · intro c hc c' hc' e1 e2
    obtain ⟨r, hr, rfl⟩ := hcr c hc
    obtain ⟨r', hr', rfl⟩ := hcr c' hc'
    simp only [rowCrate] at e1 e2
    have hk : r.key = r'.key := parentOpt_inj.mp e1
    by_cases hid : r.id = r'.id
    · rw [eq_of_id_eq hn hr hr' hid]
    · exfalso
      have := hnm.2 r' hr'
      rw [Bool.not_eq_true', List.any_eq_false] at this
      have := this r hr
      simp [hid, hk, e2] at this

/-- The Spec lists read off the two tables by the library's own walks. -/
def readOrd (d : Db) : Ord :=
  ⟨walked d.pl, fun l => match walkBack d.pe l with
    | .ok rows => rows.map fun r => (r.id, r.val)
    | _ => []⟩

theorem readOrd_entIds (d : Db) (l : Int) : (readOrd d).entIds l = walked d.pe l := by
  unfold Ord.entIds readOrd walked walkIds
  cases hw : walkBack d.pe l <;> simp [hw, Res.bind, List.map_map, Function.comp_def]

/-- A state the executable `wfRaw` accepts satisfies the proof-level invariants — for the Spec state read off the
tables.  (Entries of other databases are allowed; `AllOwn` is not claimed.) -/
theorem inv_of_wfRaw {d : Db} (h : wfRaw d = true) : Inv (readOrd d) d := by
  unfold wfRaw checks chainChecks at h
  simp only [List.cons_append, List.nil_append, List.all_cons, List.all_nil, Bool.and_true, Bool.and_eq_true] at h
  obtain ⟨h1, h2, h3, h4, h5, h6, h7, h8⟩ := h
  obtain ⟨hn1, hp1, hs1, hz1⟩ := idsOk_elim h1
  obtain ⟨hn3, hp3, hs3, hz3⟩ := idsOk_elim h3
  have hRk := R_of_chainsOk hn1 hp1 h2
  have hRe := R_of_chainsOk hn3 hp3 h4
  have hent := h7
  unfold entitiesOk at hent
  rw [Bool.and_eq_true, List.all_eq_true, List.all_eq_true] at hent
  have htr := h8
  unfold tracksOk at htr
  simp only [Bool.and_eq_true, List.all_eq_true, decide_eq_true_eq] at htr
  have hRe' : R (readOrd d).entIds d.pe := R_congr hRe (readOrd_entIds d)
  refine ⟨⟨hRk, hRe', ?_, ⟨by rw [← ids_eq_cores]; exact hn3, ?_⟩, ?_, hs1, hz1, hs3, hz3, ?_, htr.2⟩,
    ⟨wf_of_checks h1 h5 h6, hs1, hz1⟩, ⟨?_, nodup_of_nodupB htr.1.1, fun t ht => ⟨(htr.1.2 t ht).1, (htr.1.2 t ht).2⟩, htr.2⟩⟩
  · -- pay: every row is among the walked entries of its list, with its payload
    intro c hc
    obtain ⟨r, hr, rfl⟩ := mem_cores.mp hc
    simp only [core]
    obtain ⟨rows, hw, hm, hrows⟩ := walkBack_spec hRe r.key
    have hin : r.id ∈ rows.map (·.id) := by rw [hm]; exact hRe.mem r hr
    obtain ⟨y, hy, e⟩ := List.mem_map.mp hin
    have := eq_of_id_eq hn3 (hrows y hy).1 hr e
    show (r.id, r.val) ∈ (readOrd d).ents r.key
    simp only [readOrd, hw]
    exact List.mem_map.mpr ⟨y, hy, by rw [this]⟩
  · -- no (list, payload) twice
    intro c hc c' hc' e1 e2
    obtain ⟨r, hr, rfl⟩ := mem_cores.mp hc
    obtain ⟨r', hr', rfl⟩ := mem_cores.mp hc'
    simp only [core] at e1 e2
    by_cases hid : r.id = r'.id
    · rw [eq_of_id_eq hn3 hr hr' hid]
    · exfalso
      have := hent.2 r' hr'
      rw [Bool.not_eq_true', List.any_eq_false] at this
      have := this r hr
      simp [hid, e1, e2] at this
  · intro r hr
    have := hent.1 r hr
    simp only [Bool.and_eq_true, decide_eq_true_eq] at this
    simp [fires, this.1.2]
  · intro t ht; exact (htr.1.2 t ht).1
  · intro c hc ho
    obtain ⟨r, hr, rfl⟩ := mem_cores.mp hc
    simp only [core] at ho ⊢
    have := hent.1 r hr
    simp only [Bool.and_eq_true, decide_eq_true_eq, Bool.or_eq_true, bne_iff_ne, ne_eq] at this
    refine ⟨plExists_iff.mp this.1.1, ?_⟩
    rcases this.2 with h | h
    · exact absurd ho h
    · exact List.contains_iff_mem.mp h

end EngineModel.Db.V2
