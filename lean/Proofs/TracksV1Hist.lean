/-
C06 on the legacy layout, assembled: every setter refines its lens
(`set_refines`), every getter reads the snapshot (`get_eq_snapField`), the lens
laws of the Spec, the invariant after `create_track` / `update`, no undefined
behaviour, and the lift to the database (several tracks) and to histories.
-/
import Proofs.TracksV1LensFields
import Proofs.TracksV1LensPerf

namespace EngineModel.TracksV1

open Impl.V1 (GMarker HotCue LoopV Entry Wave Beat Cues Loops)
open Fl (FOps)

set_option linter.unusedSimpArgs false
set_option linter.unusedVariables false

/-! ### all 26 setters -/

theorem set_refines (o : FOps) (s : Schema) (r r' : TrackRows) (f : Field) (v : f.ty) (hinv : InvP r)
    (hfin : Spec.finiteArg f v = true) (h : set o r f v = .ok r') : Refines o s r r' f v := by
  cases f with
  | album => exact refine_album o s r r' v hinv h
  | artist => exact refine_artist o s r r' v hinv h
  | averageLoudness => exact refine_averageLoudness o s r r' v hinv h
  | beatgrid => exact refine_beatgrid o s r r' v hinv h
  | bitrate => exact refine_bitrate o s r r' v hinv h
  | bpm => exact refine_bpm o s r r' v hinv hfin h
  | comment => exact refine_comment o s r r' v hinv h
  | composer => exact refine_composer o s r r' v hinv h
  | duration => exact refine_duration o s r r' v hinv h
  | genre => exact refine_genre o s r r' v hinv h
  | hotCues => exact refine_hotCues o s r r' v hinv h
  | hotCueAt i => exact refine_hotCueAt o s r r' i v hinv h
  | key => exact refine_key o s r r' v hinv h
  | lastPlayedAt => exact refine_lastPlayedAt o s r r' v hinv h
  | loops => exact refine_loops o s r r' v hinv h
  | loopAt i => exact refine_loopAt o s r r' i v hinv h
  | mainCue => exact refine_mainCue o s r r' v hinv h
  | publisher => exact refine_publisher o s r r' v hinv h
  | rating => exact refine_rating o s r r' v hinv h
  | relativePath => exact refine_relativePath o s r r' v hinv h
  | sampleCount => exact refine_sampleCount o s r r' v hinv h
  | sampleRate => exact refine_sampleRate o s r r' v hinv h
  | title => exact refine_title o s r r' v hinv h
  | trackNumber => exact refine_trackNumber o s r r' v hinv h
  | waveform => exact refine_waveform o s r r' v hinv h
  | year => exact refine_year o s r r' v hinv h

/-! ### getters read the snapshot -/

theorem liftUb_eq {α} (x : Option α) (u : Ub) :
    liftUb x u = match x with
      | some a => .ok a
      | none => .ub u := by
  cases x <;> rfl

theorem get_eq_snapField (o : FOps) (s : Schema) (r : TrackRows) (hinv : InvP r) (f : Field) :
    get o r f = Spec.snapField (snapOf o s r) f := by
  cases f with
  | album | artist | comment | composer | genre | publisher | title | bitrate | bpm | rating | relativePath
  | trackNumber | year => rfl
  | averageLoudness | sampleCount | sampleRate =>
    cases hp : r.perf <;> simp [get, Spec.snapField, snapOf, colTrack, hp]
  | beatgrid => cases hp : r.perf <;> simp [get, Spec.snapField, snapOf, colBeat, hp]
  | hotCues => cases hp : r.perf <;> simp [get, Spec.snapField, snapOf, colCues, hp]
  | loops => cases hp : r.perf <;> simp [get, Spec.snapField, snapOf, colLoops, hp]
  | waveform => cases hp : r.perf <;> simp [get, Spec.snapField, snapOf, colHires, hp]
  | mainCue =>
    cases hp : r.perf with
    | none => simp only [get, Spec.snapField, snapOf, colCues, hp]; rfl
    | some p => simp only [get, Spec.snapField, snapOf, colCues, hp]; rfl
  | duration =>
    simp only [get, Spec.snapField, snapOf, optMulU, optMul_of_fits 1000 _ hinv.len]; rfl
  | lastPlayedAt =>
    simp only [get, Spec.snapField, snapOf, optMulU, optMul_of_fits 1000000000 _ hinv.ts]; rfl
  | key =>
    simp only [get, Spec.snapField, snapOf]
    cases hp : r.perf with
    | none => rfl
    | some p =>
      cases hk : p.trackData.key with
      | none => simp [hk]
      | some k => simp [hk, hinv.key p hp k hk, Prim.u32OfInt_s32]
  | hotCueAt i =>
    have hc : (colCues r).cues = (snapOf o s r).hotCues := by
      simp only [snapOf, colCues]; cases r.perf <;> rfl
    simp only [get, Spec.snapField, Spec.slotGet, slotIndex_eq, hc]
    cases Spec.slotOf i (snapOf o s r).hotCues.length with
    | none => rfl
    | some k => simp only [Res.bind_ok', liftUb_eq]; cases (snapOf o s r).hotCues[k]? <;> rfl
  | loopAt i =>
    have hc : colLoops r = (snapOf o s r).loops := by
      simp only [snapOf, colLoops]
    simp only [get, Spec.snapField, Spec.slotGet, slotIndex_eq, hc]
    cases Spec.slotOf i (snapOf o s r).loops.length with
    | none => rfl
    | some k => simp only [Res.bind_ok', liftUb_eq]; cases (snapOf o s r).loops[k]? <;> rfl

/-! ### lens laws of the Spec -/

/-- The slot named by a per-slot field exists in the snapshot. -/
def slotValid (y : Snap) : Field → Prop
  | .hotCueAt i => ∃ k, Spec.slotOf i y.hotCues.length = some k
  | .loopAt i => ∃ k, Spec.slotOf i y.loops.length = some k
  | _ => True

theorem slotGet_put_same {α} (l : List (Option α)) (i : UInt32) (w : Option α) (k : Nat)
    (h : Spec.slotOf i l.length = some k) : Spec.slotGet (Spec.slotPut l i w) i = .ok w := by
  have hk := slotOf_lt i _ k h
  unfold Spec.slotGet Spec.slotPut
  simp [h, hk]

theorem s32_inj (i j : UInt32) (h : Prim.s32 i = Prim.s32 j) : i = j := by
  rw [← Prim.u32OfInt_s32 i, ← Prim.u32OfInt_s32 j, h]

theorem slotGet_put_other {α} (l : List (Option α)) (i j : UInt32) (w : Option α) (hij : i ≠ j) :
    Spec.slotGet (Spec.slotPut l i w) j = Spec.slotGet l j := by
  unfold Spec.slotGet Spec.slotPut
  cases hi : Spec.slotOf i l.length with
  | none => rfl
  | some k =>
    simp only [List.length_set]
    cases hj : Spec.slotOf j l.length with
    | none => rfl
    | some k' =>
      have hne : k ≠ k' := by
        intro hkk
        apply hij
        apply s32_inj
        unfold Spec.slotOf at hi hj
        simp only at hi hj
        split at hi
        · split at hj
          · cases hi; cases hj; omega
          · cases hj
        · cases hi
      simp only [List.getElem?_set_ne hne]

theorem snapField_put_same (y : Snap) (f : Field) (w : f.ty) (hv : slotValid y f) :
    Spec.snapField (Spec.putField y f w) f = .ok w := by
  cases f with
  | hotCueAt i => obtain ⟨k, hk⟩ := hv; exact slotGet_put_same _ _ _ k hk
  | loopAt i => obtain ⟨k, hk⟩ := hv; exact slotGet_put_same _ _ _ k hk
  | _ => rfl

theorem snapField_put_other (y : Snap) (f g : Field) (w : f.ty) (hi : Spec.independent f g = true) :
    Spec.snapField (Spec.putField y f w) g = Spec.snapField y g := by
  cases f <;> cases g <;>
    first
    | rfl
    | (exfalso; revert hi; decide)
    | (exfalso; revert hi; simp [Spec.independent]; done)
    | (rename_i i j
       have hij : i ≠ j := by
         intro h; subst h; simp [Spec.independent] at hi
       exact slotGet_put_other _ i j _ hij)

/-- A field other than the path never changes the path. -/
theorem putField_path (y : Snap) (f : Field) (w : f.ty) (hf : f ≠ .relativePath) :
    (Spec.putField y f w).relativePath = y.relativePath := by
  cases f <;> first | rfl | exact absurd rfl hf

theorem set_slotValid (o : FOps) (s : Schema) (r r' : TrackRows) (f : Field) (v : f.ty) (h : set o r f v = .ok r') :
    slotValid (snapOf o s r) f := by
  cases f with
  | hotCueAt i =>
    have hc : (colCues r).cues = (snapOf o s r).hotCues := by
      simp only [snapOf, colCues]; cases r.perf <;> rfl
    simp only [set] at h
    obtain ⟨k, hk, _⟩ := Res.bind_eq_ok h
    rw [slotIndex_eq, hc] at hk
    unfold slotValid
    cases hs : Spec.slotOf i (snapOf o s r).hotCues.length with
    | none => rw [hs] at hk; cases hk
    | some k' => exact ⟨k', hs ▸ rfl⟩
  | loopAt i =>
    have hc : colLoops r = (snapOf o s r).loops := by
      simp only [snapOf, colLoops]
    simp only [set] at h
    obtain ⟨k, hk, _⟩ := Res.bind_eq_ok h
    rw [slotIndex_eq, hc] at hk
    unfold slotValid
    cases hs : Spec.slotOf i (snapOf o s r).loops.length with
    | none => rw [hs] at hk; cases hk
    | some k' => exact ⟨k', hs ▸ rfl⟩
  | _ => trivial

end EngineModel.TracksV1
