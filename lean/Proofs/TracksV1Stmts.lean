import EngineModel.TracksV1.Stmts
import Proofs.Stmts

namespace EngineModel
namespace TracksV1
open EngineModel.Spec.Txn EngineModel.Spec.Stmts EngineModel.Proofs.Stmts
open Fl (FOps)

theorem topBody_rw (o : FOps) (op : TOp) : ∀ x ∈ topBody o op, Cmd.rw x = true := by
  intro x hx
  simp only [topBody, List.mem_cons, List.not_mem_nil, or_false] at hx
  rcases hx with rfl | rfl <;> rfl

theorem topStmts_atomic (o : FOps) (op : TOp) : atomicShape (topShapeOf o op) = true := by
  unfold topShapeOf topStmts
  cases hs : op.scoped
  · simp only [Bool.false_eq_true, if_false]
    exact atomic_flat _ (topBody_rw o op) (by simp [topBody, Cmd.kind])
  · simp only [if_true]
    exact atomic_txn _ (topBody_rw o op)

theorem topStmts_skeleton (o : FOps) (op : TOp) : skeleton (topShapeOf o op) = op.skeleton.kinds := by
  unfold topShapeOf topStmts TOp.skeleton
  cases hs : op.scoped
  · simp only [Bool.false_eq_true, if_false]; rfl
  · simp only [if_true]
    rw [skeleton_txn _ (topBody_rw o op)]
    rfl

theorem topStmts_run (o : FOps) (d d' : Db) (op : TOp) (auto : Bool) (h : topStep o d op = .ok d') :
    (call none auto (topStmts o op) d).raised = false ∧ (call none auto (topStmts o op) d).conn = Conn.idle d' := by
  have hr : applyAll (writesOf (topBody o op)) d = some d' := by
    simp [topBody, writesOf, applyAll, h, Res.toOption, Option.bind]
  unfold topStmts
  cases hs : op.scoped
  · simp only [Bool.false_eq_true, if_false]
    exact flat_run auto _ (topBody_rw o op) d _ hr
  · simp only [if_true]
    exact txn_run auto _ (topBody_rw o op) d _ hr

end TracksV1
end EngineModel
