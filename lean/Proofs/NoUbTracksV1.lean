/-
C15, schema 1.x tracks: no getter, setter, create / update / snapshot of the
1.x track model ends in `ub`, for any argument values, on rows that satisfy
`rowsOk`; and every operation keeps `rowsOk`.
-/
import Proofs.TracksV1RoundTrip
import EngineModel.Api.C15TracksV1

namespace EngineModel.Api.C15TracksV1
open EngineModel EngineModel.TracksV1
open EngineModel.Impl.V1 (GMarker HotCue LoopV Entry Wave Beat Cues Loops)
open Fl (FOps)

set_option linter.unusedSimpArgs false

/-! ### plumbing -/

theorem defined_bind' {α β} {r : Res α} {f : α → Res β} (h : Defined r)
    (hf : ∀ a, r = .ok a → Defined (f a)) : Defined (r >>= f) := Defined.bind h hf

theorem defined_of_ok' {α} {r : Res α} (h : ∃ v, r = .ok v) : Defined r := defined_of_ok h

theorem bind_eq_ok' {α β} {r : Res α} {f : α → Res β} {b : β} (h : (r >>= f) = .ok b) :
    ∃ a, r = .ok a ∧ f a = .ok b := Res.bind_eq_ok h

/-! ### scaled seconds -/

theorem optMul_ok (k : Int) (v : Option Int) (h : mulFits k v = true) : ∃ r, optMul k v = .ok r := by
  cases v with
  | none => exact ⟨none, rfl⟩
  | some a =>
    simp only [mulFits] at h
    refine ⟨some (k * a), ?_⟩
    simp [optMul, mulI64, Cxx.I64.mul, Cxx.chk64, h, liftUb, Res.bind]

theorem optMulU_ok (k : Int) (v : Option Int) (h : mulFits k v = true) : ∃ r, optMulU k v = .ok r := by
  obtain ⟨r, hr⟩ := optMul_ok k v h
  exact ⟨r.map Prim.u64OfInt, by simp [optMulU, hr, Res.bind]⟩

theorem fits_ms (d : Option UInt64) : mulFits 1000 (d.map fun x => tdivPos (Prim.s64 x) 1000) = true := by
  cases d with
  | none => rfl
  | some x =>
    have hr := Prim.s64_range x
    simp only [Option.map_some, mulFits, Cxx.inI64, Cxx.i64Min, Cxx.i64Max]
    apply decide_eq_true
    unfold tdivPos
    split <;> omega

theorem fits_ns (t : Option UInt64) : mulFits 1000000000 (t.map toTimestamp) = true := by
  cases t with
  | none => rfl
  | some x =>
    have hr := Prim.s64_range x
    simp only [Option.map_some, mulFits, Cxx.inI64, Cxx.i64Min, Cxx.i64Max]
    apply decide_eq_true
    unfold toTimestamp tdivPos
    split <;> omega

/-! ### slot access at any index -/

theorem slot_lookup_defined {α} (i : UInt32) (l : List α) :
    Defined ((slotIndex i l).bind fun k => liftUb l[k]? .oob_index) := by
  unfold slotIndex
  simp only
  by_cases h : Prim.s32 i < 0 ∨ (l.length : Int) ≤ Prim.s32 i
  · rw [if_pos h]; exact Defined.throw _
  · rw [if_neg h]
    have hk : (Prim.s32 i).toNat < l.length := by omega
    simp only [Res.bind_ok', List.getElem?_eq_getElem hk, liftUb]
    exact Defined.ok _

/-! ### the column writers -/

theorem setCol_defined {α} (r : TrackRows) (norm : α → Res α) (eq : α → α → Bool) (v : α)
    (put : PerfRow → α → PerfRow) (h : Defined (norm v)) : Defined (setCol r norm eq v put) := by
  unfold setCol colGuard
  cases hn : norm v with
  | ub u => exact absurd hn (h u)
  | throw e => exact Defined.throw _
  | ok v' =>
    simp only
    by_cases he : eq v' v = true
    · simp only [he, if_true]
      cases r.perf with
      | none => exact Defined.throw _
      | some p => exact Defined.ok _
    · simp only [he, if_false]
      exact Defined.throw _

/-- A successful column write leaves the `Track` row and the meta-data rows alone. -/
theorem setCol_frame {α} (r r' : TrackRows) (norm : α → Res α) (eq : α → α → Bool) (v : α)
    (put : PerfRow → α → PerfRow) (h : setCol r norm eq v put = .ok r') :
    r'.track = r.track ∧ r'.mint = r.mint := by
  unfold setCol at h
  cases hg : colGuard norm eq v with
  | ub u => rw [hg] at h; cases h
  | throw e => rw [hg] at h; cases h
  | ok v' =>
    rw [hg] at h
    simp only at h
    cases hp : r.perf with
    | none => rw [hp] at h; cases h
    | some p => rw [hp] at h; cases h; exact ⟨rfl, rfl⟩

theorem setTrackCol_defined (r : TrackRows) (v : Impl.V1.Track) : Defined (setTrackCol r v) :=
  setCol_defined _ _ _ _ _ (Defined.ok _)
theorem setBeatCol_defined (r : TrackRows) (v : Beat) : Defined (setBeatCol r v) :=
  setCol_defined _ _ _ _ _ (normBeat_defined _)
theorem setCuesCol_defined (r : TrackRows) (v : Cues) : Defined (setCuesCol r v) :=
  setCol_defined _ _ _ _ _ (normCues_defined _)
theorem setLoopsCol_defined (r : TrackRows) (v : Loops) : Defined (setLoopsCol r v) :=
  setCol_defined _ _ _ _ _ (normLoops_defined _)
theorem setHiresCol_defined (r : TrackRows) (v : Wave) : Defined (setHiresCol r v) :=
  setCol_defined _ _ _ _ _ (Defined.ok _)
theorem setOvwCol_defined (r : TrackRows) (v : Wave) : Defined (setOvwCol r v) :=
  setCol_defined _ _ _ _ _ (Defined.ok _)

/-! ### getters -/

theorem get_defined (o : FOps) (r : TrackRows) (h : rowsOk r = true) (f : Field) : Defined (get o r f) := by
  simp only [rowsOk, Bool.and_eq_true] at h
  cases f <;> simp only [TracksV1.get] <;>
    first
    | exact Defined.ok _
    | exact defined_of_ok (optMulU_ok _ _ h.1)
    | exact defined_of_ok (optMulU_ok _ _ h.2)
    | exact slot_lookup_defined _ _

/-! ### setters -/

theorem ceiledBpm_defined (o : FOps) (hc : CeilBounded o) (b : Option Bits) : Defined (ceiledBpm o b) := by
  unfold ceiledBpm
  cases b with
  | none => exact Defined.ok _
  | some x =>
    simp only
    by_cases hx : Fl.absLt63 x = true
    · obtain ⟨v, hv⟩ := Fl.toI64_some_of_absLt63 _ (hc x hx)
      simp only [hx, Bool.not_true, Bool.false_eq_true, if_false, hv]
      exact Defined.ok _
    · simp only [hx, Bool.not_false, if_true]
      exact Defined.ok _

theorem set_defined (o : FOps) (hc : CeilBounded o) (r : TrackRows) (f : Field) (v : f.ty) :
    Defined (set o r f v) := by
  cases f <;> simp only [TracksV1.set]
  case album => exact Defined.ok _
  case artist => exact Defined.ok _
  case comment => exact Defined.ok _
  case composer => exact Defined.ok _
  case genre => exact Defined.ok _
  case publisher => exact Defined.ok _
  case title => exact Defined.ok _
  case averageLoudness => exact setTrackCol_defined _ _
  case beatgrid => exact setBeatCol_defined _ _
  case bitrate => exact Defined.ok _
  case bpm =>
    refine defined_bind' (ceiledBpm_defined o hc _) fun _ _ => ?_
    exact Defined.ok _
  case duration => exact Defined.ok _
  case hotCues => exact setCuesCol_defined _ _
  case hotCueAt i =>
    refine Defined.bind ?_ fun _ _ => setCuesCol_defined _ _
    unfold slotIndex; simp only; split
    · exact Defined.throw _
    · exact Defined.ok _
  case key =>
    refine Defined.bind (setTrackCol_defined _ _) fun _ _ => Defined.ok _
  case lastPlayedAt => exact Defined.ok _
  case loops =>
    split
    · exact Defined.throw _
    · exact setLoopsCol_defined _ _
  case loopAt i =>
    refine Defined.bind ?_ fun _ _ => setLoopsCol_defined _ _
    unfold slotIndex; simp only; split
    · exact Defined.throw _
    · exact Defined.ok _
  case mainCue => exact setCuesCol_defined _ _
  case rating => exact Defined.ok _
  case relativePath => exact Defined.ok _
  case sampleCount =>
    refine defined_bind' (defined_of_ok (lengthCalculated_ok _ _)) fun _ _ => ?_
    refine defined_bind' (setBeatCol_defined _ _) fun _ _ => ?_
    refine defined_bind' (setTrackCol_defined _ _) fun _ _ => ?_
    split
    · exact Defined.ok _
    · refine defined_bind' (defined_of_ok (ovwExtents_ok _ _ _)) fun _ _ => ?_
      exact setOvwCol_defined _ _
  case sampleRate =>
    refine defined_bind' (defined_of_ok (lengthCalculated_ok _ _)) fun _ _ => ?_
    refine defined_bind' (setBeatCol_defined _ _) fun _ _ => ?_
    refine defined_bind' (setTrackCol_defined _ _) fun _ _ => ?_
    refine defined_bind' ?_ fun _ _ => ?_
    · split
      · exact Defined.ok _
      · refine defined_bind' (defined_of_ok (hiresExtents_ok _ _ _)) fun _ _ => ?_
        exact setHiresCol_defined _ _
    · split
      · exact Defined.ok _
      · refine defined_bind' (defined_of_ok (ovwExtents_ok _ _ _)) fun _ _ => ?_
        exact setOvwCol_defined _ _
  case trackNumber => exact Defined.ok _
  case waveform =>
    refine defined_bind' ?_ fun _ _ => ?_
    · by_cases hw : List.isEmpty v = true
      · simp only [hw, if_true]; exact Defined.ok _
      · simp only [hw, Bool.false_eq_true, if_false]
        have hne : v ≠ [] := by
          intro e; apply hw; rw [e]; rfl
        refine defined_bind' (defined_of_ok (ovwExtents_ok _ _ _)) fun _ _ => ?_
        refine defined_bind' (defined_of_ok (resample_ok v _ hne)) fun _ _ => ?_
        refine defined_bind' (defined_of_ok (hiresExtents_ok _ _ _)) fun _ _ => ?_
        exact Defined.ok _
    · refine defined_bind' (setOvwCol_defined _ _) fun _ _ => ?_
      exact setHiresCol_defined _ _
  case year => exact Defined.ok _

/-! ### `rowsOk` is kept by every successful write -/

theorem cell_aset_other {β} (k k2 : Int) (v : Option β) (l : List (Int × Option β)) (h : k2 ≠ k) :
    cell k2 (aset k v l) = cell k2 l := by
  unfold cell; rw [aget_aset_other _ _ _ _ h]

theorem cell_aset_same {β} (k : Int) (v : Option β) (l : List (Int × Option β)) : cell k (aset k v l) = v := by
  unfold cell; rw [aget_aset_same]; rfl

/-- `b` has the same stored seconds as `a`. -/
def Same (a b : TrackRows) : Prop := b.track.length = a.track.length ∧ cell 1 b.mint = cell 1 a.mint

theorem Same.rfl' (a : TrackRows) : Same a a := ⟨rfl, rfl⟩
theorem Same.trans {a b c : TrackRows} (h1 : Same a b) (h2 : Same b c) : Same a c :=
  ⟨h2.1.trans h1.1, h2.2.trans h1.2⟩
theorem Same.of_frame {a b : TrackRows} (h : b.track = a.track ∧ b.mint = a.mint) : Same a b := by
  unfold Same; rw [h.1, h.2]; exact ⟨rfl, rfl⟩
theorem rowsOk_of_same {a b : TrackRows} (h : Same a b) (ha : rowsOk a = true) : rowsOk b = true := by
  unfold rowsOk at *; rw [h.1, h.2]; exact ha

theorem setCol_same {α} {r r' : TrackRows} {norm : α → Res α} {eq : α → α → Bool} {v : α}
    {put : PerfRow → α → PerfRow} (h : setCol r norm eq v put = .ok r') : Same r r' :=
  Same.of_frame (setCol_frame _ _ _ _ _ _ h)

theorem setBeatCol_same {r r' : TrackRows} {v : Beat} (h : setBeatCol r v = .ok r') : Same r r' := by
  unfold setBeatCol at h; exact setCol_same h
theorem setTrackCol_same {r r' : TrackRows} {v : Impl.V1.Track} (h : setTrackCol r v = .ok r') : Same r r' := by
  unfold setTrackCol at h; exact setCol_same h
theorem setOvwCol_same {r r' : TrackRows} {v : Wave} (h : setOvwCol r v = .ok r') : Same r r' := by
  unfold setOvwCol at h; exact setCol_same h
theorem setHiresCol_same {r r' : TrackRows} {v : Wave} (h : setHiresCol r v = .ok r') : Same r r' := by
  unfold setHiresCol at h; exact setCol_same h

theorem set_rowsOk (o : FOps) (r r' : TrackRows) (f : Field) (v : f.ty) (h : rowsOk r = true)
    (hs : TracksV1.set o r f v = .ok r') : rowsOk r' = true := by
  cases f <;> simp only [TracksV1.set] at hs
  case album => cases hs; exact h
  case artist => cases hs; exact h
  case comment => cases hs; exact h
  case composer => cases hs; exact h
  case genre => cases hs; exact h
  case publisher => cases hs; exact h
  case title => cases hs; exact h
  case averageLoudness => exact rowsOk_of_same (setCol_same hs) h
  case beatgrid => exact rowsOk_of_same (setCol_same hs) h
  case bitrate => cases hs; exact h
  case bpm =>
    obtain ⟨c, _, hs⟩ := bind_eq_ok' hs
    cases hs; exact h
  case duration =>
    cases hs
    simp only [rowsOk, Bool.and_eq_true] at h ⊢
    exact ⟨fits_ms _, h.2⟩
  case hotCues => exact rowsOk_of_same (setCol_same hs) h
  case hotCueAt i =>
    obtain ⟨k, _, hs⟩ := Res.bind_eq_ok hs
    exact rowsOk_of_same (setCol_same hs) h
  case key =>
    obtain ⟨r1, h1, hs⟩ := Res.bind_eq_ok hs
    cases hs
    have := rowsOk_of_same (setCol_same h1) h
    simp only [rowsOk, Bool.and_eq_true] at this ⊢
    refine ⟨this.1, ?_⟩
    rw [cell_aset_other _ _ _ _ (by decide)]
    exact this.2
  case lastPlayedAt =>
    cases hs
    simp only [rowsOk, Bool.and_eq_true] at h ⊢
    refine ⟨h.1, ?_⟩
    rw [cell_aset_same]
    exact fits_ns _
  case loops =>
    split at hs
    · cases hs
    · exact rowsOk_of_same (setCol_same hs) h
  case loopAt i =>
    obtain ⟨k, _, hs⟩ := Res.bind_eq_ok hs
    exact rowsOk_of_same (setCol_same hs) h
  case mainCue => exact rowsOk_of_same (setCol_same hs) h
  case rating =>
    cases hs
    simp only [rowsOk, Bool.and_eq_true] at h ⊢
    refine ⟨h.1, ?_⟩
    rw [cell_aset_other _ _ _ _ (by decide)]
    exact h.2
  case relativePath => cases hs; exact h
  case sampleCount =>
    obtain ⟨secs, _, hs⟩ := bind_eq_ok' hs
    obtain ⟨r2, h2, hs⟩ := bind_eq_ok' hs
    obtain ⟨r3, h3, hs⟩ := bind_eq_ok' hs
    have s2' := setBeatCol_same h2
    have s2 : Same r r2 := ⟨s2'.1, s2'.2⟩
    have s3 : Same r r3 := s2.trans (setTrackCol_same h3)
    split at hs
    · cases hs; exact rowsOk_of_same s3 h
    · obtain ⟨e, _, hs⟩ := bind_eq_ok' hs
      exact rowsOk_of_same (s3.trans (setOvwCol_same hs)) h
  case sampleRate =>
    obtain ⟨secs, _, hs⟩ := bind_eq_ok' hs
    obtain ⟨r2, h2, hs⟩ := bind_eq_ok' hs
    obtain ⟨r3, h3, hs⟩ := bind_eq_ok' hs
    obtain ⟨r4, h4, hs⟩ := bind_eq_ok' hs
    have s2' := setBeatCol_same h2
    have s2 : Same r r2 := ⟨s2'.1, s2'.2⟩
    have s3 : Same r r3 := s2.trans (setTrackCol_same h3)
    have s4 : Same r r4 := by
      split at h4
      · cases h4; exact s3
      · obtain ⟨e, _, h4⟩ := bind_eq_ok' h4
        exact s3.trans (setHiresCol_same h4)
    split at hs
    · cases hs; exact rowsOk_of_same s4 h
    · obtain ⟨e, _, hs⟩ := bind_eq_ok' hs
      exact rowsOk_of_same (s4.trans (setOvwCol_same hs)) h
  case trackNumber => cases hs; exact h
  case waveform =>
    obtain ⟨p, _, hs⟩ := bind_eq_ok' hs
    obtain ⟨r1, h1, hs⟩ := bind_eq_ok' hs
    exact rowsOk_of_same ((setOvwCol_same h1).trans (setHiresCol_same hs)) h
  case year => cases hs; exact h

theorem writeSnap_rowsOk (o : FOps) (s : Schema) (x : Snap) (prior : Option TrackRows) (rows : TrackRows)
    (h : writeSnap o s x prior = .ok rows) : rowsOk rows = true := by
  unfold writeSnap at h
  cases hp : x.relativePath with
  | none => rw [hp] at h; cases h
  | some path =>
    rw [hp] at h
    simp only at h
    obtain ⟨lc, _, h⟩ := Res.bind_eq_ok h
    obtain ⟨bi, _, h⟩ := Res.bind_eq_ok h
    obtain ⟨ov, _, h⟩ := Res.bind_eq_ok h
    obtain ⟨hi, _, h⟩ := Res.bind_eq_ok h
    obtain ⟨lo, _, h⟩ := Res.bind_eq_ok h
    obtain ⟨be, _, h⟩ := Res.bind_eq_ok h
    obtain ⟨cu, _, h⟩ := Res.bind_eq_ok h
    obtain ⟨lo', _, h⟩ := Res.bind_eq_ok h
    cases h
    simp only [rowsOk, assemble, Bool.and_eq_true, cell_mi1]
    exact ⟨fits_ms _, fits_ns _⟩

theorem readSnap_defined (o : FOps) (s : Schema) (r : TrackRows) (h : rowsOk r = true) :
    Defined (readSnap o s r) := by
  simp only [rowsOk, Bool.and_eq_true] at h
  obtain ⟨a, ha⟩ := optMul_ok _ _ h.1
  obtain ⟨b, hb⟩ := optMul_ok _ _ h.2
  simp only [readSnap, ha, hb, Res.bind_ok, Res.pure_eq]
  exact Defined.ok _

/-! ### the table of tracks -/

theorem aget_mem {β} (k : Int) (l : List (Int × β)) (v : β) (h : aget k l = some v) : (k, v) ∈ l := by
  induction l with
  | nil => cases h
  | cons hd t ih =>
    obtain ⟨k', v'⟩ := hd
    by_cases hk : k' = k
    · simp only [aget, hk, if_true] at h
      cases h; subst hk; exact List.mem_cons_self ..
    · simp only [aget, hk, if_false] at h
      exact List.mem_cons_of_mem _ (ih h)

theorem mem_aset {β} (k : Int) (v : β) (l : List (Int × β)) (e : Int × β) (h : e ∈ aset k v l) :
    e = (k, v) ∨ e ∈ l := by
  induction l with
  | nil => simp only [aset, List.mem_singleton] at h; exact Or.inl h
  | cons hd t ih =>
    obtain ⟨k', v'⟩ := hd
    by_cases hk : k' = k
    · simp only [aset, hk, if_true, List.mem_cons] at h
      rcases h with h | h
      · exact Or.inl h
      · exact Or.inr (List.mem_cons_of_mem _ h)
    · simp only [aset, hk, if_false, List.mem_cons] at h
      rcases h with h | h
      · exact Or.inr (h ▸ List.mem_cons_self ..)
      · rcases ih h with h' | h'
        · exact Or.inl h'
        · exact Or.inr (List.mem_cons_of_mem _ h')

theorem dbOk_iff (d : Db) : dbOk d = true ↔ ∀ e ∈ d.tracks, rowsOk e.2 = true := by
  unfold dbOk; rw [List.all_eq_true]

theorem dbOk_rows {d : Db} (hd : dbOk d = true) {id : Int} {r : TrackRows} (h : d.rows id = some r) :
    rowsOk r = true := ((dbOk_iff d).mp hd) (id, r) (aget_mem _ _ _ h)

theorem dbOk_aset {d : Db} (hd : dbOk d = true) (id : Int) {r : TrackRows} (hr : rowsOk r = true) :
    dbOk { d with tracks := aset id r d.tracks } = true := by
  rw [dbOk_iff] at hd ⊢
  intro e he
  rcases mem_aset _ _ _ _ he with h | h
  · rw [h]; exact hr
  · exact hd e h

theorem dbOk_append {d : Db} (hd : dbOk d = true) (id : Int) {r : TrackRows} (hr : rowsOk r = true) :
    dbOk { d with tracks := d.tracks ++ [(id, r)] } = true := by
  rw [dbOk_iff] at hd ⊢
  intro e he
  simp only [List.mem_append, List.mem_singleton] at he
  rcases he with h | h
  · exact hd e h
  · rw [h]; exact hr

theorem dbOk_remove {d : Db} (hd : dbOk d = true) (id : Int) : dbOk (remove d id) = true := by
  rw [dbOk_iff] at hd ⊢
  intro e he
  exact hd e (List.mem_filter.mp he).1

/-! ### every operation: defined, and the invariant is kept -/

theorem dbCreate_defined (o : FOps) (d : Db) (x : Snap) : Defined (dbCreate o d x) := by
  unfold dbCreate
  simp only
  cases hw : writeSnap o d.schema x none with
  | ub u => exact absurd hw (writeSnap_defined o d.schema x none u)
  | throw e =>
    simp only
    cases x.relativePath with
    | none => exact Defined.throw _
    | some p =>
      simp only
      split
      · exact Defined.throw _
      · split <;> exact Defined.throw _
  | ok rows =>
    simp only
    split
    · exact Defined.throw _
    · exact Defined.ok _

theorem dbUpdate_defined (o : FOps) (d : Db) (id : Int) (x : Snap) : Defined (dbUpdate o d id x) := by
  unfold dbUpdate
  cases d.rows id with
  | none => exact Defined.throw _
  | some prior =>
    simp only
    cases hw : writeSnap o d.schema x (some prior) with
    | ub u => exact absurd hw (writeSnap_defined o d.schema x (some prior) u)
    | throw e =>
      simp only
      cases x.relativePath with
      | none => exact Defined.throw _
      | some p =>
        simp only
        split
        · exact Defined.throw _
        · split <;> exact Defined.throw _
    | ok rows =>
      simp only
      split
      · exact Defined.throw _
      · exact Defined.ok _

theorem dbGet_defined (o : FOps) (d : Db) (hd : dbOk d = true) (id : Int) (f : Field) :
    Defined (dbGet o d id f) := by
  unfold dbGet
  cases hr : d.rows id with
  | none => exact Defined.throw _
  | some r => exact get_defined o r (dbOk_rows hd hr) f

theorem dbSnap_defined (o : FOps) (d : Db) (hd : dbOk d = true) (id : Int) : Defined (dbSnap o d id) := by
  unfold dbSnap
  cases hr : d.rows id with
  | none => exact Defined.throw _
  | some r => exact readSnap_defined o d.schema r (dbOk_rows hd hr)

/-- `UNIQUE(path)` as `set_relative_path` meets it. -/
def conflictOf (d : Db) (id : Int) (f : Field) (v : f.ty) : Bool :=
  match f, v with
  | .relativePath, p => pathTaken d id p
  | _, _ => false

theorem dbSet_eq (o : FOps) (d : Db) (id : Int) (f : Field) (v : f.ty) :
    dbSet o d id f v =
      match d.rows id with
      | none => .throw (.dj "track_deleted")
      | some r =>
        if conflictOf d id f v then .throw .sqlite_error else
        match TracksV1.set o r f v with
        | .ok r' => .ok { d with tracks := aset id r' d.tracks }
        | .throw e => .throw e
        | .ub u => .ub u := by
  unfold dbSet conflictOf; rfl

theorem dbSet_defined (o : FOps) (hc : CeilBounded o) (d : Db) (id : Int) (f : Field) (v : f.ty) :
    Defined (dbSet o d id f v) := by
  rw [dbSet_eq]
  cases d.rows id with
  | none => exact Defined.throw _
  | some r =>
    simp only
    by_cases hcf : conflictOf d id f v = true
    · rw [if_pos hcf]; exact Defined.throw _
    · rw [if_neg hcf]
      cases hs : TracksV1.set o r f v with
      | ok r' => exact Defined.ok _
      | throw e => exact Defined.throw _
      | ub u => exact absurd hs (set_defined o hc r f v u)

theorem isValid_defined (d : Db) (id : Int) : Defined (isValid d id) := by
  unfold isValid
  simp only
  split
  · exact Defined.ok _
  · split
    · exact Defined.throw _
    · exact Defined.ok _

theorem step_defined (o : FOps) (hc : CeilBounded o) (d : Db) (hd : dbOk d = true) (op : Op) :
    Defined (step o d op).2 := by
  cases op with
  | create x =>
    simp only [step]
    cases h : dbCreate o d x with
    | ok p => exact Defined.ok _
    | throw e => exact Defined.throw _
    | ub u => exact absurd h (dbCreate_defined o d x u)
  | update id x =>
    simp only [step]
    cases h : dbUpdate o d id x with
    | ok p => exact Defined.ok _
    | throw e => exact Defined.throw _
    | ub u => exact absurd h (dbUpdate_defined o d id x u)
  | snapshot id =>
    simp only [step]
    cases h : dbSnap o d id with
    | ok p => exact Defined.ok _
    | throw e => exact Defined.throw _
    | ub u => exact absurd h (dbSnap_defined o d hd id u)
  | get id f =>
    simp only [step]
    cases h : dbGet o d id f with
    | ok p => exact Defined.ok _
    | throw e => exact Defined.throw _
    | ub u => exact absurd h (dbGet_defined o d hd id f u)
  | getDerived id g =>
    simp only [step]
    cases d.rows id with
    | none => exact Defined.throw _
    | some r => exact Defined.ok _
  | set id f v =>
    simp only [step]
    cases h : dbSet o d id f v with
    | ok p => exact Defined.ok _
    | throw e => exact Defined.throw _
    | ub u => exact absurd h (dbSet_defined o hc d id f v u)
  | remove id => exact Defined.ok _
  | isValid id =>
    simp only [step]
    cases h : isValid d id with
    | ok p => exact Defined.ok _
    | throw e => exact Defined.throw _
    | ub u => exact absurd h (isValid_defined d id u)
  | handleId id => exact Defined.ok _
  | handleCopy id => exact Defined.ok _

theorem step_dbOk (o : FOps) (d : Db) (hd : dbOk d = true) (op : Op) : dbOk (step o d op).1 = true := by
  cases op with
  | create x =>
    simp only [step]
    cases h : dbCreate o d x with
    | throw e => exact hd
    | ub u => exact hd
    | ok p =>
      obtain ⟨d', id⟩ := p
      simp only
      unfold dbCreate at h
      simp only at h
      cases hw : writeSnap o d.schema x none with
      | ub u => rw [hw] at h; cases h
      | throw e =>
        rw [hw] at h
        simp only at h
        cases hp : x.relativePath with
        | none => rw [hp] at h; cases h
        | some p =>
          rw [hp] at h
          simp only at h
          split at h
          · cases h
          · split at h <;> cases h
      | ok rows =>
        rw [hw] at h
        simp only at h
        split at h
        · cases h
        · cases h
          exact dbOk_append hd _ (writeSnap_rowsOk o _ x none rows hw)
  | update id x =>
    simp only [step]
    cases h : dbUpdate o d id x with
    | throw e => exact hd
    | ub u => exact hd
    | ok d' =>
      simp only
      unfold dbUpdate at h
      cases hr : d.rows id with
      | none => rw [hr] at h; cases h
      | some prior =>
        rw [hr] at h
        simp only at h
        cases hw : writeSnap o d.schema x (some prior) with
        | ub u => rw [hw] at h; cases h
        | throw e =>
          rw [hw] at h
          simp only at h
          cases hp : x.relativePath with
          | none => rw [hp] at h; cases h
          | some p =>
            rw [hp] at h
            simp only at h
            split at h
            · cases h
            · split at h <;> cases h
        | ok rows =>
          rw [hw] at h
          simp only at h
          split at h
          · cases h
          · cases h
            exact dbOk_aset hd _ (writeSnap_rowsOk o _ x _ rows hw)
  | snapshot id => simp only [step]; split <;> exact hd
  | get id f => simp only [step]; split <;> exact hd
  | getDerived id g => simp only [step]; split <;> exact hd
  | set id f v =>
    simp only [step]
    cases h : dbSet o d id f v with
    | throw e => exact hd
    | ub u => exact hd
    | ok d' =>
      simp only
      rw [dbSet_eq] at h
      cases hr : d.rows id with
      | none => rw [hr] at h; cases h
      | some r =>
        rw [hr] at h
        simp only at h
        by_cases hcf : conflictOf d id f v = true
        · rw [if_pos hcf] at h; cases h
        · rw [if_neg hcf] at h
          cases hs : TracksV1.set o r f v with
          | throw e => rw [hs] at h; cases h
          | ub u => rw [hs] at h; cases h
          | ok r' =>
            rw [hs] at h
            cases h
            exact dbOk_aset hd _ (set_rowsOk o r r' f v (dbOk_rows hd hr) hs)
  | remove id => exact dbOk_remove hd id
  | isValid id => simp only [step]; split <;> exact hd
  | handleId id => exact hd
  | handleCopy id => exact hd

theorem run_dbOk (o : FOps) (ops : List Op) : ∀ d, dbOk d = true → dbOk (run o d ops) = true := by
  induction ops with
  | nil => intro d hd; exact hd
  | cons op t ih => intro d hd; exact ih _ (step_dbOk o d hd op)

theorem outcomes_defined (o : FOps) (hc : CeilBounded o) (ops : List Op) :
    ∀ d, dbOk d = true → ∀ r ∈ outcomes o d ops, Defined r := by
  induction ops with
  | nil => intro d _ r hr; cases hr
  | cons op t ih =>
    intro d hd r hr
    simp only [outcomes, List.mem_cons] at hr
    rcases hr with h | h
    · rw [h]; exact step_defined o hc d hd op
    · exact ih _ (step_dbOk o d hd op) r h

/-! ### removed tracks -/

theorem isValid_after_remove (d : Db) (id : Int) : isValid (remove d id) id = .ok false := by
  unfold isValid remove
  have : (List.filter (fun e => e.1 == id) (List.filter (fun e => !(e.1 == id)) d.tracks)) = [] := by
    rw [List.filter_filter]
    apply List.filter_eq_nil_iff.mpr
    intro e _
    cases e.1 == id <;> simp
  simp only [this]
  rfl

theorem rows_after_remove (d : Db) (id : Int) : (remove d id).rows id = none := by
  unfold remove Db.rows
  simp only
  induction d.tracks with
  | nil => rfl
  | cons hd t ih =>
    obtain ⟨k, v⟩ := hd
    by_cases hk : k = id
    · simp only [List.filter, hk, beq_self_eq_true, Bool.not_true]
      exact ih
    · have : (k == id) = false := by simpa using hk
      simp only [List.filter, this, Bool.not_false, aget, hk, if_false]
      exact ih

end EngineModel.Api.C15TracksV1
