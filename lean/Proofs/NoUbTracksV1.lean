/-
C15, schema 1.x tracks: no operation of `Api.C15TracksV1.step` ends in `ub`,
for any argument values, on libraries that satisfy the tracks-1.x invariant
`DbInv`; every operation keeps `DbInv`.

Built on the locked theorems of the tracks-1.x work-package (Properties/C01V1,
Properties/C06V1: `v1_C01_never_ub`, `v1_C06_never_ub`, `v1_C06_inv_db`,
`v1_C06_remove_track`, …) rather than on the bodies of its setters; what is
unfolded here are the getters (`get`, `readSnap`) and the five database-level
dispatchers (`dbCreate` … `dbSnap`), with case-shape-independent tactics.
-/
import Properties.C01V1
import Properties.C06V1
import EngineModel.Api.C15TracksV1

namespace EngineModel.Api.C15TracksV1
open EngineModel EngineModel.TracksV1
open EngineModel.Impl.V1 (GMarker HotCue LoopV Entry Wave Beat Cues Loops)
open Fl (FOps)
open EngineModel.Properties

set_option linter.unusedSimpArgs false

/-! ### what the tracks-1.x package proves, in the form used here -/

theorem writeSnap_def (o : FOps) (s : Schema) (x : Snap) (prior : Option TrackRows) :
    Defined (writeSnap o s x prior) :=
  fun u => C01V1.v1_C01_never_ub o s x prior u

theorem set_def (o : FOps) (hc : CeilInRange o) (r : TrackRows) (f : Field) (v : f.ty) :
    Defined (TracksV1.set o r f v) :=
  fun u => C06V1.v1_C06_never_ub o r f v (fun _ => hc) u

theorem ceilInRange_of_bounded {o : FOps} (h : CeilBounded o) : CeilInRange o :=
  fun b hb => Fl.toI64_some_of_absLt63 _ (h b hb)

/-! ### scaled seconds -/

theorem optMul_ok (k : Int) (v : Option Int) (h : mulFits k v = true) : ∃ r, optMul k v = .ok r := by
  cases v with
  | none => exact ⟨none, rfl⟩
  | some a =>
    simp only [mulFits] at h
    refine ⟨some (k * a), ?_⟩
    simp [optMul, mulI64, Cxx.I64.mul, Cxx.chk64, h, liftUb, Res.bind]

theorem optMulU_ok (k : Int) (v : Option Int) (h : mulFits k v = true) : ∃ r, optMulU k v = .ok r := by
  obtain ⟨r, hr⟩ := optMul_ok k v h
  exact ⟨r.map Prim.u64OfInt, by simp [optMulU, hr, Res.bind]⟩

theorem mulFits_of (k : Int) (v : Option Int)
    (h : ∀ a, v = some a → -9223372036854775808 ≤ k * a ∧ k * a ≤ 9223372036854775807) : mulFits k v = true := by
  cases v with
  | none => rfl
  | some a =>
    simp only [mulFits, Cxx.inI64, Cxx.i64Min, Cxx.i64Max]
    exact decide_eq_true (h a rfl)

/-- The package's invariant gives what the getters need. -/
theorem rowsOk_of_inv {r : TrackRows} (h : Inv r = true) : rowsOk r = true := by
  have hi := (inv_iff r).mp h
  simp only [rowsOk, Bool.and_eq_true]
  exact ⟨mulFits_of _ _ hi.len, mulFits_of _ _ hi.ts⟩

theorem rowsOk_blank : rowsOk blankRows = true := rfl

/-! ### getters: slot access at any index, scaled seconds -/

theorem slot_lookup_defined {α} (i : UInt32) (l : List α) :
    Defined ((slotIndex i l).bind fun k => liftUb l[k]? .oob_index) := by
  unfold slotIndex
  simp only
  by_cases h : Prim.s32 i < 0 ∨ (l.length : Int) ≤ Prim.s32 i
  · rw [if_pos h]; exact Defined.throw _
  · rw [if_neg h]
    have hk : (Prim.s32 i).toNat < l.length := by omega
    simp only [Res.bind_ok', List.getElem?_eq_getElem hk, liftUb]
    exact Defined.ok _

theorem get_defined (o : FOps) (r : TrackRows) (h : rowsOk r = true) (f : Field) : Defined (get o r f) := by
  simp only [rowsOk, Bool.and_eq_true] at h
  cases f <;> simp only [TracksV1.get] <;>
    first
    | exact Defined.ok _
    | exact defined_of_ok (optMulU_ok _ _ h.1)
    | exact defined_of_ok (optMulU_ok _ _ h.2)
    | exact slot_lookup_defined _ _

theorem readSnap_defined (o : FOps) (s : Schema) (r : TrackRows) (h : rowsOk r = true) :
    Defined (readSnap o s r) := by
  simp only [rowsOk, Bool.and_eq_true] at h
  obtain ⟨a, ha⟩ := optMul_ok _ _ h.1
  obtain ⟨b, hb⟩ := optMul_ok _ _ h.2
  simp only [readSnap, ha, hb, Res.bind_ok, Res.pure_eq]
  exact Defined.ok _

/-! ### the database-level calls -/

/-- closes the leaves of an unfolded dispatcher: a value, an exception, or an impossible `ub` -/
macro "leaf" o:term "," hc:term : tactic =>
  `(tactic| first
    | exact Defined.ok _
    | exact Defined.throw _
    | exact absurd (by assumption) (writeSnap_def $o _ _ _ _)
    | exact absurd (by assumption) (set_def $o $hc _ _ _ _))

theorem dbCreate_defined (o : FOps) (d : Db) (x : Snap) : Defined (dbCreate o d x) := by
  unfold dbCreate
  have hw := writeSnap_def o d.schema x none
  cases h : writeSnap o d.schema x none with
  | ub u => exact absurd h (hw u)
  | throw e => simp only; (repeat' split) <;> first | exact Defined.ok _ | exact Defined.throw _
  | ok rows => simp only; (repeat' split) <;> first | exact Defined.ok _ | exact Defined.throw _

theorem dbUpdate_defined (o : FOps) (d : Db) (id : Int) (x : Snap) : Defined (dbUpdate o d id x) := by
  unfold dbUpdate
  cases d.rows id with
  | none =>
    simp only
    have hw := writeSnap_def o d.schema x none
    cases h : writeSnap o d.schema x none with
    | ub u => exact absurd h (hw u)
    | throw e => simp only; (repeat' split) <;> first | exact Defined.ok _ | exact Defined.throw _
    | ok rows => exact Defined.throw _
  | some prior =>
    simp only
    have hw := writeSnap_def o d.schema x (some prior)
    cases h : writeSnap o d.schema x (some prior) with
    | ub u => exact absurd h (hw u)
    | throw e => simp only; (repeat' split) <;> first | exact Defined.ok _ | exact Defined.throw _
    | ok rows => simp only; (repeat' split) <;> first | exact Defined.ok _ | exact Defined.throw _

theorem dbGet_defined (o : FOps) (d : Db) (hd : DbInv d) (id : Int) (f : Field) : Defined (dbGet o d id f) := by
  unfold dbGet
  cases hr : d.rows id with
  | none =>
    simp only
    split
    · exact Defined.throw _
    · exact get_defined o blankRows rowsOk_blank f
  | some r => exact get_defined o r (rowsOk_of_inv (hd id r hr)) f

theorem dbSnap_defined (o : FOps) (d : Db) (hd : DbInv d) (id : Int) : Defined (dbSnap o d id) := by
  unfold dbSnap
  cases hr : d.rows id with
  | none => exact Defined.throw _
  | some r => exact readSnap_defined o d.schema r (rowsOk_of_inv (hd id r hr))

/-- `UNIQUE(path)` as `set_relative_path` meets it. -/
def conflictOf (d : Db) (id : Int) (f : Field) (v : f.ty) : Bool :=
  match f, v with
  | .relativePath, p => pathTaken d id p
  | _, _ => false

theorem dbSet_some (o : FOps) (d : Db) (id : Int) (f : Field) (v : f.ty) (r : TrackRows)
    (hr : d.rows id = some r) :
    dbSet o d id f v =
      if conflictOf d id f v then .throw .sqlite_error else
      match TracksV1.set o r f v with
      | .ok r' => .ok { d with tracks := aset id r' d.tracks }
      | .throw e => .throw e
      | .ub u => .ub u := by
  unfold dbSet conflictOf
  rw [hr]
  rfl

theorem dbSet_defined (o : FOps) (hc : CeilInRange o) (d : Db) (id : Int) (f : Field) (v : f.ty) :
    Defined (dbSet o d id f v) := by
  cases hr : d.rows id with
  | none =>
    obtain ⟨e, he⟩ := dbSet_absent o d id f v hr
    rw [he]; exact Defined.throw _
  | some r =>
    rw [dbSet_some o d id f v r hr]
    by_cases hcf : conflictOf d id f v = true
    · rw [if_pos hcf]; exact Defined.throw _
    · rw [if_neg hcf]
      cases hs : TracksV1.set o r f v with
      | ok r' => exact Defined.ok _
      | throw e => exact Defined.throw _
      | ub u => exact absurd hs (set_def o hc r f v u)

/-! ### every operation: defined, and the invariant is kept -/

theorem step_defined (o : FOps) (hc : CeilInRange o) (d : Db) (hd : DbInv d) (op : Op) :
    Defined (step o d op).2 := by
  cases op with
  | create x =>
    simp only [step]
    cases h : dbCreate o d x with
    | ok p => exact Defined.ok _
    | throw e => exact Defined.throw _
    | ub u => exact absurd h (dbCreate_defined o d x u)
  | update id x =>
    simp only [step]
    cases h : dbUpdate o d id x with
    | ok p => exact Defined.ok _
    | throw e => exact Defined.throw _
    | ub u => exact absurd h (dbUpdate_defined o d id x u)
  | snapshot id =>
    simp only [step]
    cases h : dbSnap o d id with
    | ok p => exact Defined.ok _
    | throw e => exact Defined.throw _
    | ub u => exact absurd h (dbSnap_defined o d hd id u)
  | get id f =>
    simp only [step]
    cases h : dbGet o d id f with
    | ok p => exact Defined.ok _
    | throw e => exact Defined.throw _
    | ub u => exact absurd h (dbGet_defined o d hd id f u)
  | getDerived id g =>
    simp only [step]
    cases d.rows id with
    | none => exact Defined.throw _
    | some r => exact Defined.ok _
  | set id f v =>
    simp only [step]
    cases h : dbSet o d id f v with
    | ok p => exact Defined.ok _
    | throw e => exact Defined.throw _
    | ub u => exact absurd h (dbSet_defined o hc d id f v u)
  | remove id => exact Defined.ok _
  | isValid id => exact Defined.ok _
  | handleId id => exact Defined.ok _
  | handleCopy id => exact Defined.ok _

theorem step_inv (o : FOps) (d : Db) (hd : DbInv d) (op : Op) : DbInv (step o d op).1 := by
  obtain ⟨_, hcreate, hupdate, hset⟩ := C06V1.v1_C06_inv_db o d hd
  cases op with
  | create x =>
    simp only [step]
    cases h : dbCreate o d x with
    | throw e => exact hd
    | ub u => exact hd
    | ok p => obtain ⟨d', id⟩ := p; exact hcreate x d' id h
  | update id x =>
    simp only [step]
    cases h : dbUpdate o d id x with
    | throw e => exact hd
    | ub u => exact hd
    | ok d' => exact hupdate x d' id h
  | snapshot id => simp only [step]; split <;> exact hd
  | get id f => simp only [step]; split <;> exact hd
  | getDerived id g => simp only [step]; split <;> exact hd
  | set id f v =>
    simp only [step]
    cases h : dbSet o d id f v with
    | throw e => exact hd
    | ub u => exact hd
    | ok d' => exact hset id f v d' h
  | remove id => exact (C06V1.v1_C06_remove_track d id).2.2.2 hd
  | isValid id => exact hd
  | handleId id => exact hd
  | handleCopy id => exact hd

theorem run_inv (o : FOps) (ops : List Op) : ∀ d, DbInv d → DbInv (run o d ops) := by
  induction ops with
  | nil => intro d hd; exact hd
  | cons op t ih => intro d hd; exact ih _ (step_inv o d hd op)

theorem outcomes_defined (o : FOps) (hc : CeilInRange o) (ops : List Op) :
    ∀ d, DbInv d → ∀ r ∈ outcomes o d ops, Defined r := by
  induction ops with
  | nil => intro d _ r hr; cases hr
  | cons op t ih =>
    intro d hd r hr
    simp only [outcomes, List.mem_cons] at hr
    rcases hr with h | h
    · rw [h]; exact step_defined o hc d hd op
    · exact ih _ (step_inv o d hd op) r h

theorem dbInv_empty (s : Schema) : DbInv ⟨s, []⟩ := fun _ _ h => by cases h

/-! ### the bit-exact `ceil` satisfies the law assumed of the hardware -/

theorem absLt63_iff (y : F64.Bits) : Fl.absLt63 y = true ↔ y.toNat % 9223372036854775808 < 4890909195324358656 := by
  have hf := Fl.fabs_toNat y
  have h63 : Fl.two63.toNat = 4890909195324358656 := by decide
  have hnan63 : F64.isNaN Fl.two63 = false := by decide
  unfold Fl.absLt63 F64.lt
  rw [hnan63]
  unfold F64.key
  rw [h63, hf]
  have hlt : y.toNat % 9223372036854775808 < 9223372036854775808 := Nat.mod_lt _ (by decide)
  simp only [hlt, if_true, show (4890909195324358656 : Nat) < 9223372036854775808 by decide, Bool.not_false,
    Bool.and_true, Bool.and_eq_true, Bool.not_eq_true', decide_eq_true_eq]
  constructor
  · intro h; omega
  · intro h
    refine ⟨?_, by omega⟩
    unfold F64.isNaN F64.expOf
    rw [hf]
    have : y.toNat % 9223372036854775808 / 4503599627370496 % 2048 ≠ 2047 := by omega
    simp [this]

theorem ceil_step (a e : Nat) (he2 : e < 1075) (he1 : 1023 ≤ e) (ha : a / 4503599627370496 = e) :
    a - a % 2 ^ (1075 - e) + 2 ^ (1075 - e) ≤ (e + 1) * 4503599627370496 := by
  have hpow : 2 ^ (1075 - e) * 2 ^ (52 - (1075 - e)) = 4503599627370496 := by
    rw [← Nat.pow_add]
    have : 1075 - e + (52 - (1075 - e)) = 52 := by omega
    rw [this]
  generalize hP : 2 ^ (1075 - e) = P at *
  generalize hQ : 2 ^ (52 - (1075 - e)) = Q at *
  have hpos : 0 < P := by rw [← hP]; exact Nat.pow_pos (by decide)
  have halt : a < (e + 1) * 4503599627370496 := by
    apply (Nat.div_lt_iff_lt_mul (by decide)).mp
    omega
  have hdiv : a / P < (e + 1) * Q := by
    apply (Nat.div_lt_iff_lt_mul hpos).mpr
    rw [Nat.mul_assoc, Nat.mul_comm Q P, hpow]
    exact halt
  have hsub : a - a % P = P * (a / P) := by
    have := Nat.div_add_mod a P
    omega
  rw [hsub]
  have h1 : P * (a / P) + P = P * (a / P + 1) := by rw [Nat.mul_succ]
  rw [h1]
  have h2 : P * (a / P + 1) ≤ P * ((e + 1) * Q) := Nat.mul_le_mul_left _ hdiv
  have h3 : P * ((e + 1) * Q) = (e + 1) * 4503599627370496 := by
    rw [Nat.mul_left_comm, hpow]
  omega

theorem ceilBits_bounded (x : F64.Bits) (h : Fl.absLt63 x = true) : Fl.absLt63 (ceilBits x) = true := by
  rw [absLt63_iff] at h ⊢
  have hx := x.toNat_lt
  unfold ceilBits
  simp only
  split
  · exact h
  · split
    · split
      · exact h
      · split
        · decide
        · decide
    · rename_i he2 he1
      split
      · exact h
      · have hstep := ceil_step (x.toNat % 9223372036854775808)
          (x.toNat % 9223372036854775808 / 4503599627370496) (by omega) (by omega) rfl
        have hfrac : x.toNat % 9223372036854775808 %
            2 ^ (1075 - x.toNat % 9223372036854775808 / 4503599627370496) ≤ x.toNat % 9223372036854775808 :=
          Nat.mod_le _ _
        split
        · rw [UInt64.toNat_ofNat']
          omega
        · rw [UInt64.toNat_ofNat']
          omega

theorem ceilBounded_exact (o : FOps) : CeilBounded (withExactCeil o) :=
  fun b h => ceilBits_bounded b h

end EngineModel.Api.C15TracksV1
