import EngineModel.Impl.Cursor
import EngineModel.Format.V2
set_option linter.unusedSimpArgs false

namespace EngineModel
open Codec Cur

/-- Lift of a Spec decoder to the outcome alphabet: rejection is an exception. -/
def liftDec {α} (c : Codec α) : Cur α := fun bs =>
  match c.dec bs with
  | some p => .ok p
  | none => .throw .invalid_argument

namespace Codec

theorem dec_run_u8 {bs : Bytes} (h : 1 ≤ bs.length) : u8.dec bs = some (u8.get bs, bs.drop 1) := by
  obtain ⟨a, ha⟩ := u8_dec_some h; simp [ha, get]
theorem dec_run_u32be {bs : Bytes} (h : 4 ≤ bs.length) : u32be.dec bs = some (u32be.get bs, bs.drop 4) := by
  obtain ⟨a, ha⟩ := u32be_dec_some h; simp [ha, get]
theorem dec_run_u32le {bs : Bytes} (h : 4 ≤ bs.length) : u32le.dec bs = some (u32le.get bs, bs.drop 4) := by
  obtain ⟨a, ha⟩ := u32le_dec_some h; simp [ha, get]
theorem dec_run_u64be {bs : Bytes} (h : 8 ≤ bs.length) : u64be.dec bs = some (u64be.get bs, bs.drop 8) := by
  obtain ⟨a, ha⟩ := u64be_dec_some h; simp [ha, get]
theorem dec_run_u64le {bs : Bytes} (h : 8 ≤ bs.length) : u64le.dec bs = some (u64le.get bs, bs.drop 8) := by
  obtain ⟨a, ha⟩ := u64le_dec_some h; simp [ha, get]

/-- A decoder whose encodings all have at least `n` bytes rejects shorter inputs. -/
theorem dec_none_of_short {α} {c : Codec α} {P} (hx : c.Exact P) {n : Nat}
    (hlen : ∀ a, P a → n ≤ (c.enc a).length) {bs : Bytes} (h : bs.length < n) : c.dec bs = none := by
  cases hd : c.dec bs with
  | none => rfl
  | some p =>
    obtain ⟨a, r⟩ := p
    have := (hx bs a r hd).2
    have h2 := hlen a (hx bs a r hd).1
    rw [this] at h
    simp at h
    omega

/-- The unchecked loop of primitive reads is the Spec's repetition, except
that running out of bytes is an out-of-bounds read. -/
theorem forN_rd_eq {α} (c : Codec α) : ∀ (n : Nat) (bs : Bytes),
    forN (rd c) n bs = match decN c n bs with
      | some p => .ok p
      | none => .ub .oob_read := by
  intro n
  induction n with
  | zero => intro bs; rfl
  | succ n ih =>
    intro bs
    simp only [forN, bind_run, decN, rd]
    cases h : c.dec bs with
    | none => simp
    | some p =>
      obtain ⟨a, r⟩ := p
      simp only [ih r]
      cases h2 : decN c n r with
      | none => simp
      | some q => obtain ⟨l, r'⟩ := q; simp

theorem encL_length_const {α} {c : Codec α} {w : Nat} (hw : ∀ a, (c.enc a).length = w) :
    ∀ l : List α, (encL c l).length = w * l.length := by
  intro l
  induction l with
  | nil => simp [encL]
  | cons a l ih => simp [encL, hw, ih, Nat.mul_succ]; omega

/-- Fixed-width element codec: `n` elements are decodable as soon as `w*n` bytes remain. -/
theorem decN_some_of_len {α} {c : Codec α} {w : Nat}
    (hs : ∀ bs : Bytes, w ≤ bs.length → ∃ a, c.dec bs = some (a, bs.drop w)) :
    ∀ (n : Nat) (bs : Bytes), w * n ≤ bs.length → ∃ l, decN c n bs = some (l, bs.drop (w * n)) := by
  intro n
  induction n with
  | zero => intro bs _; exact ⟨[], by simp [decN]⟩
  | succ n ih =>
    intro bs h
    have h1 : w ≤ bs.length := by
      have : w * (n + 1) = w * n + w := Nat.mul_succ w n
      omega
    obtain ⟨a, ha⟩ := hs bs h1
    have h2 : w * n ≤ (bs.drop w).length := by
      have : w * (n + 1) = w * n + w := Nat.mul_succ w n
      simp; omega
    obtain ⟨l, hl⟩ := ih (bs.drop w) h2
    refine ⟨a :: l, ?_⟩
    simp only [decN, ha, hl]
    have : w * (n + 1) = w + w * n := by rw [Nat.mul_succ]; omega
    simp [this, List.drop_drop]

end Codec

namespace V2
open Codec

theorem marker_dec_some (bs : Bytes) (h : 24 ≤ bs.length) :
    ∃ a, marker.dec bs = some (a, bs.drop 24) := by
  simp (disch := (first | omega | (simp; omega)))
    [marker, map, pair, dec_run_u64le, dec_run_u32le, List.drop_drop]

theorem color_dec_some (bs : Bytes) (h : 4 ≤ bs.length) :
    ∃ a, color.dec bs = some (a, bs.drop 4) := by
  simp (disch := (first | omega | (simp; omega)))
    [color, map, pair, dec_run_u8, List.drop_drop]

end V2
end EngineModel
