/-
Setter histories over several tracks: the table after any sequence of calls
shows exactly the snapshots the lens Spec computes.
-/
import Proofs.TracksV2Lens
import Proofs.TracksV2Db

namespace EngineModel
namespace TracksV2

/-- the duration column as `snapshot()` reads it, when it is readable -/
def durOf (r : Row) : Option UInt64 :=
  match readDuration r.length with
  | .ok d => d
  | _ => none

def snapOf (ops : FOps) (r : Row) : Snap := snapWith ops r (durOf r)

/-- all rows are stored rows with readable snapshots, ids are distinct -/
def DbOk (ops : FOps) (db : Db) : Prop :=
  (∀ e ∈ db.rows, RowEnc e.2 ∧ readSnap ops e.2 = .ok (snapOf ops e.2)) ∧ (db.rows.map (·.1)).Nodup

def obs (ops : FOps) (db : Db) : Spec.Obs := db.rows.map fun e => (e.1, snapOf ops e.2)

theorem snapOf_of_readSnap (ops : FOps) (r : Row) (y : Snap) (h : readSnap ops r = .ok y) : snapOf ops r = y := by
  obtain ⟨d, hd, rfl⟩ := readSnap_ok ops r y h
  simp [snapOf, durOf, hd]

theorem get_mem (db : Db) (id : Nat) (r : Row) (h : db.get id = some r) : (id, r) ∈ db.rows := by
  unfold Db.get at h
  cases hf : db.rows.find? (·.1 == id) with
  | none => simp [hf] at h
  | some e =>
    simp [hf] at h
    have h1 := List.find?_some hf
    have h2 := List.mem_of_find?_eq_some hf
    simp at h1
    cases e with
    | mk a b => simp at h h1; subst h h1; exact h2

theorem unique_of_nodup (rows : List (Nat × Row)) (hn : (rows.map (·.1)).Nodup) (a b : Nat × Row)
    (ha : a ∈ rows) (hb : b ∈ rows) (h : a.1 = b.1) : a = b := by
  induction rows with
  | nil => cases ha
  | cons x t ih =>
    simp only [List.map_cons, List.nodup_cons, List.mem_map, not_exists, not_and] at hn
    simp only [List.mem_cons] at ha hb
    rcases ha with ha | ha <;> rcases hb with hb | hb
    · rw [ha, hb]
    · subst ha; exact absurd h.symm (hn.1 b hb)
    · subst hb; exact absurd h (hn.1 a ha)
    · exact ih hn.2 ha hb

theorem get_none_forall (db : Db) (id : Nat) (h : db.get id = none) : ∀ e ∈ db.rows, (e.1 == id) = false := by
  unfold Db.get at h
  cases hf : db.rows.find? (·.1 == id) with
  | none =>
    intro e he
    have := List.find?_eq_none.mp hf e he
    simpa using this
  | some e => simp [hf] at h

theorem pathTaken_obs (ops : FOps) (db : Db) (id : Nat) (p : Bytes) :
    db.pathTaken id p = (obs ops db).any fun e => e.1 != id && e.2.relativePath == some p := by
  unfold Db.pathTaken obs
  rw [List.any_map]
  rfl

theorem clash_eq (ops : FOps) (db : Db) (id : Nat) (σ : Setter) :
    db.clash id σ = Spec.clashObs (obs ops db) id σ := by
  unfold Db.clash Spec.clashObs
  cases σ.newPath with
  | none => rfl
  | some p => exact pathTaken_obs ops db id p

/-- one call on the table = one step of the Spec on the observations -/
theorem set_step (ops : FOps) (db : Db) (hok : DbOk ops db) (id : Nat) (σ : Setter) :
    DbOk ops (db.set ops id σ).1 ∧ obs ops (db.set ops id σ).1 = Spec.stepObs (obs ops db) id σ := by
  unfold Db.set Spec.stepObs
  rw [← clash_eq ops db id σ]
  cases hget : db.get id with
  | none =>
    refine ⟨hok, ?_⟩
    have hnone := get_none_forall db id hget
    simp only []
    split
    · rfl
    · unfold obs
      rw [List.map_map]
      apply List.map_congr_left
      intro e he
      have hne : ¬ e.1 = id := by simpa using hnone e he
      simp [hne]
  | some r =>
    have hmem := get_mem db id r hget
    obtain ⟨henc, hread⟩ := hok.1 _ hmem
    have href := setter_refines ops σ r _ hread henc
    -- every entry with this id is this row
    have huniq : ∀ e ∈ db.rows, (e.1 == id) = true → e = (id, r) := by
      intro e he hid
      exact unique_of_nodup db.rows hok.2 e (id, r) he hmem (by simpa using hid)
    cases hspec : Spec.applySetter σ (snapOf ops r) with
    | none =>
      rw [hspec] at href
      obtain ⟨ex, hex⟩ := href
      simp only [hex]
      refine ⟨hok, ?_⟩
      split
      · rfl
      · unfold obs
        rw [List.map_map]
        apply List.map_congr_left
        intro e he
        simp only [Function.comp]
        cases hid : (e.1 == id) with
        | false => simp
        | true =>
          have := huniq e he hid
          subst this
          simp [hspec]
    | some y' =>
      rw [hspec] at href
      obtain ⟨r', hr', hread', henc'⟩ := href
      simp only [hr']
      split
      · exact ⟨hok, rfl⟩
      · have hsn : snapOf ops r' = y' := snapOf_of_readSnap ops r' y' hread'
        constructor
        · constructor
          · intro e he
            unfold Db.put at he
            simp only [List.mem_map] at he
            obtain ⟨e0, he0, rfl⟩ := he
            cases hid : (e0.1 == id) with
            | false => simpa [hid] using hok.1 e0 he0
            | true => simp only [hid, if_true]; exact ⟨henc', by rw [hread', hsn]⟩
          · unfold Db.put
            simp only [List.map_map]
            have : (db.rows.map ((fun e : Nat × Row => e.1) ∘ fun e => if (e.1 == id) = true then (id, r') else e))
                = db.rows.map (·.1) := by
              apply List.map_congr_left
              intro e he
              simp only [Function.comp]
              cases hid : (e.1 == id) with
              | false => simp
              | true => simp at hid; simp [hid]
            rw [this]; exact hok.2
        · unfold obs Db.put
          simp only [List.map_map]
          apply List.map_congr_left
          intro e he
          simp only [Function.comp]
          cases hid : (e.1 == id) with
          | false => simp
          | true =>
            have := huniq e he hid
            subst this
            simp [hspec, hsn]

/-- any history -/
theorem run_obs (ops : FOps) (db : Db) (hok : DbOk ops db) (h : List (Nat × Setter)) :
    DbOk ops (db.run ops h) ∧ obs ops (db.run ops h) = Spec.runObs (obs ops db) h := by
  induction h generalizing db with
  | nil => exact ⟨hok, rfl⟩
  | cons c t ih =>
    obtain ⟨h1, h2⟩ := set_step ops db hok c.1 c.2
    have := ih (db.set ops c.1 c.2).1 h1
    simp only [Db.run, Spec.runObs, List.foldl_cons] at this ⊢
    rw [← h2]
    exact this

end TracksV2
end EngineModel
