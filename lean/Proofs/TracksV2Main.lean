/-
Assembly of the field lemmas: `snapshot_to_row`, the row store and
`snapshot()` composed are `Spec.normalize`.
-/
import Proofs.TracksV2

namespace EngineModel
namespace TracksV2

open Prim

/-- one row: `create_track` / `update`, then `snapshot()` -/
def writeRead (ops : FOps) (s : Schema) (x : Snap) : Res Snap := (writeStore ops s x).bind (readSnap ops)

theorem writeRead_of_normalize (ops : FOps) (s : Schema) (x y : Snap) (h : Spec.normalize s x = some y) :
    writeRead ops s x = .ok y := by
  unfold Spec.normalize at h
  cases hp : x.relativePath with
  | none => simp [hp] at h
  | some p =>
    simp only [hp] at h
    by_cases hext : Spec.hasExtension p = true
    · simp only [hext, Bool.not_true, Bool.false_eq_true, if_false] at h
      by_cases hlen : 8 < x.hotCues.length ∨ 8 < x.loops.length
      · simp [hlen] at h
      · simp only [hlen, if_false] at h
        cases hlc : Spec.labelsOk HotCue.label x.hotCues with
        | false => simp [hlc] at h
        | true =>
        cases hll : Spec.labelsOk LoopV.label x.loops with
        | false => simp [hlc, hll] at h
        | true =>
          simp only [hlc, hll, Bool.not_true, Bool.false_eq_true, if_false] at h
          have hw := read_write_waveform ops x.waveform x.sampleCount x.sampleRate
          cases hnw : Spec.normWaveform x.waveform x.sampleCount x.sampleRate with
          | none => simp [hnw] at h
          | some wv =>
            simp only [hnw] at h hw
            obtain ⟨o, ho, hro⟩ := hw
            rw [hasExtension_iff] at hext
            obtain ⟨ft, hft⟩ := Option.isSome_iff_exists.mp hext
            have hc : ¬ 8 < x.hotCues.length := fun hh => hlen (Or.inl hh)
            have hl : ¬ 8 < x.loops.length := fun hh => hlen (Or.inr hh)
            injection h with h
            subst h
            unfold getFileExtension at hft
            simp only [writeRead, writeStore, writeSnap, hp, getFileExtension, hft, ho, writeHotCues, writeLoops, hc, hl,
              if_false, Res.bind, tablePut, putCues, putLoops, cuesEncodable_write, loopsEncodable_write, hlc, hll,
              if_true, readSnap, read_write_duration]
            simp only [readAverageLoudness, readSampleCount, readSampleRate, writeAverageLoudness, writeSampleRate,
              readMainCue, writeMainCue, zeroAbsent_getD, read_write_count, map_trunc32_sext32, read_write_bpm,
              read_write_rating, readHotCues, read_write_hotCues, readLoops, read_write_loops, read_write_grid,
              map_storeTime, writeKey, hro]
            simp only [Res.ok.injEq, Snap.mk.injEq, true_and, and_true]
            exact ⟨zeroAbsent_getD _, zeroAbsent_getD _, zeroAbsent_getD _⟩
    · simp [hext] at h


theorem writeStore_throw_of_reject (ops : FOps) (s : Schema) (x : Snap) (h : Spec.normalize s x = none) :
    ∃ e, writeStore ops s x = .throw e := by
  unfold writeStore writeSnap
  cases hp : x.relativePath with
  | none => exact ⟨_, rfl⟩
  | some p =>
    simp only []
    cases hft : getFileExtension (getFilename p) with
    | none => exact ⟨_, rfl⟩
    | some ft =>
      simp only []
      have hext : Spec.hasExtension p = true := by rw [hasExtension_iff, hft]; rfl
      have hw := read_write_waveform ops x.waveform x.sampleCount x.sampleRate
      cases hnw : Spec.normWaveform x.waveform x.sampleCount x.sampleRate with
      | none =>
        simp only [hnw] at hw
        exact ⟨_, by simp [hw, Res.bind]; rfl⟩
      | some wv =>
        simp only [hnw] at hw
        obtain ⟨o, ho, _⟩ := hw
        by_cases hc : 8 < x.hotCues.length
        · exact ⟨_, by simp [ho, Res.bind, writeHotCues, hc]; rfl⟩
        · by_cases hl : 8 < x.loops.length
          · exact ⟨_, by simp [ho, Res.bind, writeHotCues, hc, writeLoops, hl]; rfl⟩
          · cases hlc : Spec.labelsOk HotCue.label x.hotCues with
            | false =>
              exact ⟨_, by simp [ho, Res.bind, writeHotCues, hc, writeLoops, hl, tablePut, putCues,
                cuesEncodable_write, hlc]; rfl⟩
            | true =>
              cases hll : Spec.labelsOk LoopV.label x.loops with
              | false =>
                exact ⟨_, by simp [ho, Res.bind, writeHotCues, hc, writeLoops, hl, tablePut, putCues, putLoops,
                  cuesEncodable_write, loopsEncodable_write, hlc, hll]; rfl⟩
              | true =>
                exfalso
                simp [Spec.normalize, hp, hext, hc, hl, hlc, hll, hnw] at h

/-- a write is never undefined behaviour -/
theorem writeStore_total (ops : FOps) (s : Schema) (x : Snap) :
    (∃ r, writeStore ops s x = .ok r) ∨ (∃ e, writeStore ops s x = .throw e) := by
  cases h : Spec.normalize s x with
  | none => exact Or.inr (writeStore_throw_of_reject ops s x h)
  | some y =>
    left
    have := writeRead_of_normalize ops s x y h
    unfold writeRead at this
    cases hw : writeStore ops s x with
    | ok r => exact ⟨r, rfl⟩
    | throw e => rw [hw] at this; cases this
    | ub u => rw [hw] at this; cases this

end TracksV2
end EngineModel
