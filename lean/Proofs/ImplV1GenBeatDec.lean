/-
The 1.x beat-data *decoder* regenerated from the C++ sources (`Gen.ImplV1.decodeGrid`, `decodeBeat`;
tools/tr_blobs_v1.py) equals the hand-written mirror `Impl.V1.decodeGrid` / `decodeBeat`.

* `decode_beatgrid`: the C++ allocates `std::vector<beatgrid_marker> result(count)` and fills it in an indexed
  loop (`result[i].sample_offset = …`, `result[i].index = static_cast<int>(…)`), testing each marker against
  `result[i - 1]` and the carried local `beats_until_next_marker` *while reading*; the hand model reads all
  wire markers first (`forN (rd marker)`) and then runs `checkWire` over them.  Equal because the count guard
  `end - ptr < 24 * count` makes every read succeed.
* `beat_data::decode`: `try { grid; grid } catch (const std::invalid_argument&) {}` (`Cur.catchStmt`: the
  handler runs at the cursor the failing statement started from) against the hand model's nested `match`,
  and `while (ptr != end) { if (*ptr != 0) throw; ptr++; }` (`Cur.whileNotEnd`) against `allZero`.
-/
import EngineModel.Gen.ImplV1Gen
import EngineModel.Impl.V1
import Proofs.CursorCxxLemmas
import Proofs.CxxPrimsLemmas
import Proofs.CursorCxxV1Lemmas
import Proofs.CheckedArith
import Proofs.ImplV1Gen
import Proofs.ImplV1GenBeat
import Proofs.ImplV1Beat
set_option linter.unusedSimpArgs false

namespace EngineModel

namespace Cxx

theorem vecSet_append_cons {α} (pre : List α) (a : α) (rest : List α) (f : α → α) :
    vecSet (pre ++ a :: rest) pre.length f = .ok (pre ++ f a :: rest) := by
  simp [vecSet]

end Cxx

namespace Gen.ImplV1
open Codec Cur

/-- `static_cast<int>(int64_t)` stored as a bit pattern = the low 32 bits -/
theorem lowInt_eq (x : UInt64) : Prim.u32OfInt (Cxx.i32OfInt (Prim.s64 x)) = Impl.V1.lowInt x := by
  have hx := x.toNat_lt
  unfold Prim.u32OfInt Impl.V1.lowInt
  congr 1
  unfold Cxx.i32OfInt Prim.s64
  simp only []
  split <;> split <;> omega

/-- the marker the four reads of one iteration see -/
def mkAt (bs : Bytes) : V2.Marker :=
  ⟨u64le.get bs, u64le.get (bs.drop 8), u32le.get (bs.drop 16), u32le.get (bs.drop 20)⟩

theorem rd_marker_run (bs : Bytes) (h : 24 ≤ bs.length) : rd V2.marker bs = .ok (mkAt bs, bs.drop 24) := by
  have r1 := rd_u64le_run (bs := bs) (by omega)
  have r2 := rd_u64le_run (bs := bs.drop 8) (by simp; omega)
  have r3 := rd_u32le_run (bs := bs.drop 16) (by simp; omega)
  have r4 := rd_u32le_run (bs := bs.drop 20) (by simp; omega)
  simp only [List.drop_drop] at r2 r3 r4
  simp only [V2.marker, rd_map, rd_pair, bind_run, r1, r2, r3, r4, pure_run, mkAt]

def curOf (m : V2.Marker) : Impl.V1.GMarker := ⟨Impl.V1.lowInt m.beatNo, m.off⟩

/-- the three tests of one iteration (`i ≠ 0`) -/
def badB (p cur : Impl.V1.GMarker) (nb : UInt32) : Bool :=
  decide (Prim.s32 cur.index ≤ Prim.s32 p.index) || F64.le cur.off p.off ||
    decide (Prim.s32 cur.index - Prim.s32 p.index ≠ Prim.s32 nb)

/-- first iteration (`i = 0`): no test -/
theorem body_run0 (x : Impl.V1.GMarker) (tail : List Impl.V1.GMarker) (nb : UInt32) (bs : Bytes)
    (h : 24 ≤ bs.length) :
    decodeGrid_body1 0 (x :: tail, nb) bs = .ok ((curOf (mkAt bs) :: tail, (mkAt bs).nBeats), bs.drop 24) := by
  have r1 := rd_u64le_run (bs := bs) (by omega)
  have r2 := rd_u64le_run (bs := bs.drop 8) (by simp; omega)
  have r3 := rd_u32le_run (bs := bs.drop 16) (by simp; omega)
  have r4 := rd_u32le_run (bs := bs.drop 20) (by simp; omega)
  simp only [List.drop_drop] at r2 r3 r4
  have s1 := fun f => Cxx.vecSet_append_cons [] x tail f
  have s2 := fun (y : Impl.V1.GMarker) f => Cxx.vecSet_append_cons [] y tail f
  simp only [List.nil_append, List.length_nil] at s1 s2
  unfold decodeGrid_body1
  simp only [CxxPrims.decode_double_le_eq, CxxPrims.decode_int64_le_eq, CxxPrims.decode_int32_le_eq,
    bind_run, r1, r2, r3, r4, s1, s2, lift_ok_run, ne_eq, not_true_eq_false, decide_false, Bool.false_eq_true,
    if_false, pure_run, lowInt_eq, curOf, mkAt]

/-- later iterations: the tests against `result[i - 1]` and `beats_until_next_marker` -/
theorem body_runS (pre : List Impl.V1.GMarker) (k : Nat) (p x : Impl.V1.GMarker) (tail : List Impl.V1.GMarker)
    (nb : UInt32) (bs : Bytes) (h : 24 ≤ bs.length) (hpre : pre.length = k + 1) (hk : k + 1 < 18446744073709551616)
    (hp : ∀ c, Cxx.vecGet (pre ++ c :: tail) k = .ok p) :
    decodeGrid_body1 pre.length (pre ++ x :: tail, nb) bs =
      if badB p (curOf (mkAt bs)) nb then .throw .invalid_argument
      else .ok ((pre ++ curOf (mkAt bs) :: tail, (mkAt bs).nBeats), bs.drop 24) := by
  have r1 := rd_u64le_run (bs := bs) (by omega)
  have r2 := rd_u64le_run (bs := bs.drop 8) (by simp; omega)
  have r3 := rd_u32le_run (bs := bs.drop 16) (by simp; omega)
  have r4 := rd_u32le_run (bs := bs.drop 20) (by simp; omega)
  simp only [List.drop_drop] at r2 r3 r4
  have hne : pre.length ≠ 0 := by omega
  have hsub : Cxx.U64.sub pre.length 1 = k := by rw [hpre]; exact Cxx.u64_sub_one k hk
  have hA := s32_bounds (curOf (mkAt bs)).index
  have hB := s32_bounds p.index
  unfold decodeGrid_body1
  simp only [CxxPrims.decode_double_le_eq, CxxPrims.decode_int64_le_eq, CxxPrims.decode_int32_le_eq,
    bind_run, r1, r2, r3, r4, Cxx.vecSet_append_cons, lift_ok_run, ne_eq, hne, not_false_eq_true, decide_true,
    if_true, pure_run, lowInt_eq, Cxx.vecGet_append_cons, hsub, hp]
  show _ = if badB p (curOf (mkAt bs)) nb then _ else _
  unfold badB curOf mkAt at *
  simp only [] at hA ⊢
  by_cases h1 : Prim.s32 (Impl.V1.lowInt (u64le.get (List.drop 8 bs))) ≤ Prim.s32 p.index
  · simp [h1]
  · simp only [h1, decide_false, Bool.false_eq_true, if_false, Bool.false_or, bind_run, lift_ok_run]
    cases h2 : F64.le (u64le.get bs) p.off
    · simp only [Bool.false_eq_true, if_false, Bool.false_or, bind_run, lift_ok_run]
      rw [chkI64_run (by omega) (by omega)]
      simp only []
      by_cases h3 : Prim.s32 (Impl.V1.lowInt (u64le.get (List.drop 8 bs))) - Prim.s32 p.index = Prim.s32 nb
      · simp [h3, r3, r4]
      · simp [h3]
    · simp

/-! ### the loop -/

def z : Impl.V1.GMarker := ⟨(0 : UInt32), F64.zero⟩

/-- the test after the loop: `if (beats_until_next_marker != 0) throw` -/
def fin : (List Impl.V1.GMarker × UInt32) → Cur (List Impl.V1.GMarker) :=
  fun (result, nb) => if decide (Prim.s32 nb ≠ 0) then throwC .invalid_argument else pure result

theorem forIdxFrom_succ {σ} (body : Nat → σ → Cur σ) (lo n : Nat) (s : σ) :
    Cur.forIdxFrom body lo (n + 1) s = (body lo s >>= fun s' => Cur.forIdxFrom body (lo + 1) n s') := rfl

theorem forN_marker (n : Nat) (bs : Bytes) (h : 24 * n ≤ bs.length) :
    ∃ wire, forN (rd V2.marker) n bs = .ok (wire, bs.drop (24 * n)) := by
  obtain ⟨l, hl⟩ := decN_some_of_len (c := V2.marker) (w := 24) V2.marker_dec_some n _ h
  exact ⟨l, by rw [forN_rd_eq, hl]⟩

theorem drop24 (bs : Bytes) (n : Nat) : (bs.drop 24).drop (24 * n) = bs.drop (24 * (n + 1)) := by
  rw [List.drop_drop]; congr 1; omega

theorem checkWire_cons_some (p : Impl.V1.GMarker) (nb : UInt32) (m : V2.Marker) (rest : List V2.Marker) :
    Impl.V1.checkWire (some (p, nb)) (m :: rest) =
      if badB p (curOf m) nb then .throw .invalid_argument else
      match Impl.V1.checkWire (some (curOf m, m.nBeats)) rest with
      | .ok l => .ok (curOf m :: l)
      | .throw e => .throw e
      | .ub u => .ub u := by
  simp only [Impl.V1.checkWire, badB, curOf]
  rfl

theorem checkWire_cons_none (m : V2.Marker) (rest : List V2.Marker) :
    Impl.V1.checkWire none (m :: rest) =
      match Impl.V1.checkWire (some (curOf m, m.nBeats)) rest with
      | .ok l => .ok (curOf m :: l)
      | .throw e => .throw e
      | .ub u => .ub u := by
  simp only [Impl.V1.checkWire, curOf, Bool.false_eq_true, if_false]
  rfl

theorem loopS : ∀ (n : Nat) (bs : Bytes) (pre : List Impl.V1.GMarker) (k : Nat) (p : Impl.V1.GMarker) (nb : UInt32),
    24 * n ≤ bs.length → pre.length = k + 1 → k + 1 + n < 18446744073709551616 →
    (∀ tl, Cxx.vecGet (pre ++ tl) k = .ok p) →
    ∃ wire, forN (rd V2.marker) n bs = .ok (wire, bs.drop (24 * n)) ∧
      (Cur.forIdxFrom decodeGrid_body1 pre.length n (pre ++ List.replicate n z, nb) >>= fin) bs =
        match Impl.V1.checkWire (some (p, nb)) wire with
        | .ok l => .ok (pre ++ l, bs.drop (24 * n))
        | .throw e => .throw e
        | .ub u => .ub u := by
  intro n
  induction n with
  | zero =>
    intro bs pre k p nb _ _ _ _
    refine ⟨[], by simp [forN], ?_⟩
    simp only [Cur.forIdxFrom, List.replicate_zero, List.append_nil, bind_run, pure_run, fin, Impl.V1.checkWire,
      Nat.mul_zero, List.drop_zero]
    by_cases h0 : nb = 0
    · subst h0; simp [Prim.s32]
    · have : Prim.s32 nb ≠ 0 := fun hx => h0 ((s32_eq_zero nb).mp hx)
      simp [h0, this]
  | succ n ih =>
    intro bs pre k p nb hlen hpre hk hp
    have h24 : 24 ≤ bs.length := by omega
    have hp' : ∀ tl, Cxx.vecGet ((pre ++ [curOf (mkAt bs)]) ++ tl) (k + 1) = .ok (curOf (mkAt bs)) := by
      intro tl
      rw [List.append_assoc, List.singleton_append, ← hpre]
      exact Cxx.vecGet_append_cons _ _ _
    obtain ⟨wire', hw', hloop'⟩ := ih (bs.drop 24) (pre ++ [curOf (mkAt bs)]) (k + 1) (curOf (mkAt bs)) (mkAt bs).nBeats
      (by simp; omega) (by simp [hpre]) (by omega) hp'
    rw [drop24] at hw' hloop'
    refine ⟨mkAt bs :: wire', by simp only [forN, bind_run, rd_marker_run bs h24, hw', pure_run], ?_⟩
    simp only [List.replicate_succ, forIdxFrom_succ, bind_run]
    rw [body_runS pre k p z (List.replicate n z) nb bs h24 hpre (by omega) (fun c => hp (c :: _))]
    simp only [List.length_append, List.length_cons, List.length_nil, Nat.zero_add, List.append_assoc,
      List.singleton_append] at hloop'
    rw [bind_run] at hloop'
    rw [checkWire_cons_some]
    cases hb : badB p (curOf (mkAt bs)) nb
    · simp only [Bool.false_eq_true, if_false]
      rw [hloop']
      cases Impl.V1.checkWire (some (curOf (mkAt bs), (mkAt bs).nBeats)) wire' <;> rfl
    · simp only [if_true]

theorem loop0 (n : Nat) (bs : Bytes) (nb : UInt32) (hlen : 24 * (n + 1) ≤ bs.length)
    (hn : n + 1 < 18446744073709551616) :
    ∃ wire, forN (rd V2.marker) (n + 1) bs = .ok (wire, bs.drop (24 * (n + 1))) ∧
      (Cur.forIdxFrom decodeGrid_body1 0 (n + 1) (List.replicate (n + 1) z, nb) >>= fin) bs =
        match Impl.V1.checkWire none wire with
        | .ok l => .ok (l, bs.drop (24 * (n + 1)))
        | .throw e => .throw e
        | .ub u => .ub u := by
  have h24 : 24 ≤ bs.length := by omega
  obtain ⟨wire', hw', hloop'⟩ := loopS n (bs.drop 24) [curOf (mkAt bs)] 0 (curOf (mkAt bs)) (mkAt bs).nBeats
    (by simp; omega) rfl (by omega) (fun tl => by simp [Cxx.vecGet])
  rw [drop24] at hw' hloop'
  refine ⟨mkAt bs :: wire', by simp only [forN, bind_run, rd_marker_run bs h24, hw', pure_run], ?_⟩
  simp only [List.replicate_succ, forIdxFrom_succ, bind_run]
  rw [body_run0 z (List.replicate n z) nb bs h24]
  simp only [List.length_cons, List.length_nil, Nat.zero_add, List.singleton_append] at hloop'
  rw [bind_run] at hloop'
  simp only []
  rw [hloop', checkWire_cons_none]
  cases Impl.V1.checkWire (some (curOf (mkAt bs), (mkAt bs).nBeats)) wire' <;> rfl

/-- `decode_beatgrid(ptr, end)` of the 1.x format -/
theorem decodeGrid_eq : decodeGrid = Impl.V1.decodeGrid := by
  funext bs
  rw [ArithZ.decodeGrid1_eq_Z]
  unfold decodeGrid ArithZ.decodeGrid1Z
  simp only [CxxPrims.decode_int64_be_eq, bind_run, remaining_run]
  by_cases h8 : bs.length < 8
  · have : ((bs.length : Int) < 8) := by omega
    simp [h8, this]
  · have h8i : ¬ ((bs.length : Int) < 8) := by omega
    have h8' : 8 ≤ bs.length := by omega
    simp only [h8, h8i, decide_false, Bool.false_eq_true, if_false, rd_u64be_run h8', bind_run, remaining_run]
    generalize u64be.get bs = k
    generalize bs.drop 8 = r
    by_cases h0 : Prim.s64 k = 0
    · simp [h0]
    · by_cases h2 : Prim.s64 k < 2
      · simp [h0, h2]
      · by_cases hb : Prim.s64 k > 32768
        · simp [h0, h2, hb]
        · simp only [h0, h2, hb, decide_false, Bool.false_eq_true, if_false, bind_run, remaining_run]
          rw [chkI64_run (by omega) (by omega)]
          simp only []
          by_cases hr : (r.length : Int) < 24 * Prim.s64 k
          · simp [hr]
          · have hneg : ¬ Prim.s64 k < 0 := by omega
            have hk : Prim.s64 k = (k.toNat : Int) := by
              have := s64_toNat_of_nonneg hneg; omega
            have hres : k.toNat ≤ 9223372036854775807 / 16 := by omega
            simp only [hr, decide_false, Bool.false_eq_true, if_false, bind_run, u64OfInt_s64_of_nonneg hneg,
              reserve_run hres, List.length_replicate]
            obtain ⟨n, hn⟩ : ∃ n, k.toNat = n + 1 := ⟨k.toNat - 1, by omega⟩
            rw [hn]
            obtain ⟨wire, hw, hloop⟩ := loop0 n r (Prim.u32OfInt 0) (by omega) (by omega)
            erw [bind_run, hw]
            refine hloop.trans ?_
            simp only []
            cases Impl.V1.checkWire none wire <;> rfl

/-! ### `beat_data::decode` -/

theorem body1_run (b : UInt8) (r : Bytes) :
    decodeBeat_body1 (b :: r) = if b = 0 then .ok ((), r) else .throw .invalid_argument := by
  unfold decodeBeat_body1
  simp only [bind_run, Cur.peek1]
  by_cases hb : b = 0
  · subst hb; simp [Cur.advance]
  · have hb' : ¬ (b.toNat = 0) := by
      intro hx
      apply hb
      apply UInt8.toNat_inj.mp
      simp; omega
    simp [hb', hb]

theorem whileZero : ∀ (fuel : Nat) (r : Bytes), r.length < fuel →
    Cur.whileNotEndFuel decodeBeat_body1 fuel r =
      if Impl.V1.allZero r then .ok ((), []) else .throw .invalid_argument := by
  intro fuel
  induction fuel with
  | zero => intro r h; omega
  | succ f ih =>
    intro r h
    cases r with
    | nil => simp [Cur.whileNotEndFuel, Impl.V1.allZero]
    | cons b r' =>
      have hl : r'.length < f := by simp at h; omega
      unfold Impl.V1.allZero at ih ⊢
      simp only [Cur.whileNotEndFuel, List.length_cons, Nat.add_one_ne_zero, if_false, body1_run, List.all_cons]
      by_cases hb : b = 0
      · subst hb
        simp only [if_true, ih r' hl, beq_self_eq_true, Bool.true_and]
      · have : (b == 0) = false := by simp [hb]
        simp only [hb, if_false, this, Bool.false_and, Bool.false_eq_true]

theorem whileNotEnd_run (r : Bytes) :
    Cur.whileNotEnd decodeBeat_body1 r = if Impl.V1.allZero r then .ok ((), []) else .throw .invalid_argument :=
  whileZero (r.length + 1) r (by omega)

theorem decodeGrid_throw {bs : Bytes} {e : Exn} (h : Impl.V1.decodeGrid bs = .throw e) : e = .invalid_argument := by
  rw [V1Proofs.decodeGrid_gridV] at h
  exact ofOpt_throw h

/-- `beat_data::decode` -/
theorem decodeBeat_eq : decodeBeat = Impl.V1.decodeBeat := by
  funext bs
  unfold decodeBeat Impl.V1.decodeBeat Cur.fromBlob
  rw [decodeGrid_eq]
  simp only [CxxPrims.decode_double_be_eq, CxxPrims.decode_uint8_eq, bind_run, remaining_run]
  by_cases h33 : bs.length < 33
  · simp [h33, Res.bind]
  · have r1 := rd_u64be_run (bs := bs) (by omega)
    have r2 := rd_u64be_run (bs := bs.drop 8) (by simp; omega)
    have r3 := rd_u8_run (bs := bs.drop 16) (by simp; omega)
    simp only [List.drop_drop] at r2 r3
    simp only [h33, decide_false, Bool.false_eq_true, if_false, r1, r2, r3, bind_run, pure_run, Cur.catchStmt,
      ne_zero_eq]
    generalize u64be.get bs = sr
    generalize u64be.get (List.drop 8 bs) = sc
    generalize List.drop (16 + 1) bs = r0
    cases hg1 : Impl.V1.decodeGrid r0 with
    | ub u => simp [Res.bind]
    | throw e =>
      have := decodeGrid_throw hg1
      subst this
      simp only [beq_self_eq_true, if_true, pure_run, whileNotEnd_run]
      cases Impl.V1.allZero r0 <;> cases F64.isZero sr <;> cases F64.isZero sc <;> simp [Res.bind]
    | ok p =>
      obtain ⟨d, r1'⟩ := p
      simp only []
      cases hg2 : Impl.V1.decodeGrid r1' with
      | ub u => simp [Res.bind]
      | throw e =>
        have := decodeGrid_throw hg2
        subst this
        simp only [beq_self_eq_true, if_true, pure_run, whileNotEnd_run]
        cases Impl.V1.allZero r1' <;> cases F64.isZero sr <;> cases F64.isZero sc <;> simp [Res.bind]
      | ok q =>
        obtain ⟨a, r2'⟩ := q
        simp only [pure_run, whileNotEnd_run]
        cases Impl.V1.allZero r2' <;> cases F64.isZero sr <;> cases F64.isZero sc <;> simp [Res.bind]

end Gen.ImplV1
end EngineModel
