/-
The statement-level Track table projects onto the row store `Db` of the C01 /
C06 theorems: every `set_*` call of the statement-level model is, on the
projection, exactly `Db.set` — so the lens and history theorems of C06 hold of
the statement sequences, and "a failed setter writes nothing" is a theorem and
not the shape of a definition.
-/
import Proofs.TracksV2Wf

namespace EngineModel
namespace TracksV2

/-- forget the key-derived and origin columns -/
def TDb.toDb (db : TDb) : Db := ⟨db.rows.map fun t => (t.id, t.row), db.seq + 1⟩

theorem toDb_get (db : TDb) (id : Nat) : db.toDb.get id = (db.find id).map (·.row) := by
  unfold TDb.toDb Db.get TDb.find
  rw [List.find?_map, Option.map_map]
  rfl

theorem toDb_pathTaken (db : TDb) (id : Nat) (p : Bytes) : db.toDb.pathTaken id p = pathTaken' db id p := by
  unfold TDb.toDb Db.pathTaken pathTaken'
  rw [List.any_map]
  rfl

theorem toDb_rep (db : TDb) (t : TRow) (r : Row) : (db.rep t r).toDb = db.toDb.put t.id r := by
  unfold TDb.rep TDb.toDb Db.put replaceRow
  simp only [List.map_map, Db.mk.injEq, and_true]
  apply List.map_congr_left
  intro e _
  simp only [Function.comp]
  by_cases h : e.id = t.id
  · simp [h]
  · have : (e.id == t.id) = false := by simpa using h
    simp [this]

/-- **`set_*` at statement level = `Db.set` on the projection**, result and table. -/
theorem callSet_toDb (ops : FOps) (id : Nat) (σ : Setter) {db : TDb} (hs : SInv db) :
    (callSet ops id σ db).1.toDb = (db.toDb.set ops id σ).1 ∧ (callSet ops id σ db).2 = (db.toDb.set ops id σ).2 := by
  rw [callSet_atomic ops id σ hs]
  unfold atomicSet Db.set
  rw [toDb_get]
  cases hf : db.find id with
  | none => exact ⟨rfl, rfl⟩
  | some t =>
    obtain ⟨ht, hid⟩ := find_mem hf
    simp only [Option.map_some]
    cases ha : applySetter ops σ t.row with
    | throw e => exact ⟨rfl, rfl⟩
    | ub u => exact ⟨rfl, rfl⟩
    | ok r' =>
      simp only []
      have hclash : db.toDb.clash id σ = pathTaken' db id r'.path := by
        unfold Db.clash
        rcases applySetter_cols ops σ t.row r' ha with ⟨p, rfl, h1, _, _⟩ | ⟨hn, h1, _, _⟩
        · simp only [Setter.newPath, toDb_pathTaken, h1]
        · rw [hn, h1, ← hid, pathTaken_same hs ht]
      rw [hclash]
      cases pathTaken' db id r'.path with
      | true => exact ⟨rfl, rfl⟩
      | false =>
        simp [toDb_rep, hid]

end TracksV2
end EngineModel
