/-
"Every stored performance blob decodes", on the composite model.

A PerformanceData column of the model holds the codec's value-level reading `decode (encode v)`.  `PerfFix p`: every
column of the row is a FIXED POINT of its codec (`normX col = ok col`) — so the bytes `encode col` exist and decode to
exactly `col` (bridge theorems of the tracks package, which rest on the locked C03 round-trip theorems of the codecs
package).  `PerfFix` is established by `create_track` / `update` (`writeSnap`: each column is a `normX` image, and the
`normX` are idempotent) and kept by every setter (`set_performance_data_column` stores only values that pass the
decode-after-encode guard), hence holds in every reachable state of the composite.
-/
import Proofs.Lib1Inv
import Proofs.TracksV1Bridge
import Proofs.TracksV1RoundTrip

namespace EngineModel.TracksV1
open Impl.V1 (GMarker HotCue LoopV Entry Wave Beat Cues Loops)
open Fl (FOps)

def PerfFix (p : PerfRow) : Prop :=
  normTrack p.trackData = p.trackData ∧ normBeat p.beat = .ok p.beat ∧ normCues p.cues = .ok p.cues ∧
  normLoops p.loops = .ok p.loops ∧ normOvw p.overview = p.overview

def RowFix (r : TrackRows) : Prop := ∀ p, r.perf = some p → PerfFix p

theorem colGuard_norm {α} (norm : α → Res α) (eq : α → α → Bool) (v v' : α) (h : colGuard norm eq v = .ok v') :
    norm v = .ok v' := by
  unfold colGuard at h
  cases hn : norm v with
  | ok w => rw [hn] at h; simp only at h; split at h <;> cases h; rfl
  | throw e => rw [hn] at h; cases h
  | ub u => rw [hn] at h; cases h

/-! ### idempotence of the value-level codec effects -/

theorem zeroNoneF_idem (x : Option Bits) : zeroNoneF (zeroNoneF x) = zeroNoneF x := by
  rw [zeroNoneF_eq_dropZero, zeroNoneF_eq_dropZero, Spec.dropZero_idem]

theorem normTrack_idem (v : Impl.V1.Track) : normTrack (normTrack v) = normTrack v := by
  obtain ⟨sr, sc, ld, ky⟩ := v
  unfold normTrack
  simp only [zeroNoneF_idem]
  congr 1
  · cases sc with
    | none => rfl
    | some n => by_cases h : n = 0 <;> simp [h]
  · cases ky with
    | none => rfl
    | some n => by_cases h : n = 0 <;> simp [h]

theorem normBeat_idem (v v' : Beat) (h : normBeat v = .ok v') : normBeat v' = .ok v' := by
  unfold normBeat at h
  split at h
  · cases h
  · rename_i hv
    cases h
    unfold normBeat
    simp only at hv ⊢
    rw [if_neg hv, zeroNoneF_idem, zeroNoneF_idem]

theorem normCues_idem (v v' : Cues) (h : normCues v = .ok v') : normCues v' = .ok v' := by
  unfold normCues at h
  split at h
  · cases h
  · rename_i hlen
    cases hm : mapRes normCueSlot v.cues with
    | throw e => rw [hm] at h; cases h
    | ub u => rw [hm] at h; cases h
    | ok cs =>
      rw [hm] at h
      simp only at h
      split at h
      · cases h
      · rename_i hlt
        cases h
        obtain ⟨hall, hcs⟩ := mapRes_ok_spec normCueSlot Spec.normCue Spec.cueOk normCueSlot_cases _ _ hm
        have hl : cs.length = v.cues.length := mapRes_length _ _ _ hm
        have hm2 : mapRes normCueSlot cs = .ok cs := by
          have := mapRes_ok_map normCueSlot Spec.normCue cs (by
            intro a ha
            rw [hcs] at ha
            obtain ⟨q, hq, rfl⟩ := List.mem_map.mp ha
            have hok := Spec.cueOk_normCue q (List.all_eq_true.mp hall q hq)
            rcases normCueSlot_cases (Spec.normCue q) with ⟨_, e⟩ | ⟨hf, _⟩
            · exact e
            · rw [hok] at hf; cases hf)
          rw [this]
          congr 1
          rw [hcs, List.map_map]
          apply List.map_congr_left
          intro q _
          exact Spec.normCue_idem q
        unfold normCues
        simp only
        rw [if_neg (by omega), hm2]
        simp only
        rw [if_neg (by omega)]

theorem normLoops_idem (v v' : Loops) (h : normLoops v = .ok v') : normLoops v' = .ok v' := by
  unfold normLoops at h ⊢
  obtain ⟨hall, hcs⟩ := mapRes_ok_spec normLoopSlot Spec.normLoop Spec.loopOk normLoopSlot_cases _ _ h
  have := mapRes_ok_map normLoopSlot Spec.normLoop v' (by
    intro a ha
    rw [hcs] at ha
    obtain ⟨q, hq, rfl⟩ := List.mem_map.mp ha
    have hok := Spec.loopOk_normLoop q (List.all_eq_true.mp hall q hq)
    rcases normLoopSlot_cases (Spec.normLoop q) with ⟨_, e⟩ | ⟨hf, _⟩
    · exact e
    · rw [hok] at hf; cases hf)
  rw [this]
  congr 1
  rw [hcs, List.map_map]
  apply List.map_congr_left
  intro q _
  exact Spec.normLoop_idem q

theorem normOvw_idem (w : Wave) : normOvw (normOvw w) = normOvw w := by
  unfold normOvw
  simp only [List.map_map]
  congr 1

/-! ### `create_track` / `update` establish the fixed points -/

theorem writeSnap_fix (o : FOps) (s : Schema) (x : Snap) (prior : Option TrackRows) (rows : TrackRows)
    (h : writeSnap o s x prior = .ok rows) : RowFix rows := by
  unfold writeSnap at h
  split at h
  · cases h
  · obtain ⟨_, _, h⟩ := Res.bind_eq_ok h
    obtain ⟨_, _, h⟩ := Res.bind_eq_ok h
    obtain ⟨ovw, _, h⟩ := Res.bind_eq_ok h
    obtain ⟨hires, _, h⟩ := Res.bind_eq_ok h
    obtain ⟨loops, _, h⟩ := Res.bind_eq_ok h
    obtain ⟨beat', hb, h⟩ := Res.bind_eq_ok h
    obtain ⟨cues', hc, h⟩ := Res.bind_eq_ok h
    obtain ⟨loops', hl, h⟩ := Res.bind_eq_ok h
    simp only [Res.ok.injEq] at h
    subst h
    intro p hp
    unfold assemble at hp
    simp only [Option.some.injEq] at hp
    subst hp
    exact ⟨normTrack_idem _, normBeat_idem _ _ hb, normCues_idem _ _ hc, normLoops_idem _ _ hl, normOvw_idem _⟩

/-! ### the setters keep them -/

theorem RowFix.of_perf {r r' : TrackRows} (h : RowFix r) (e : r'.perf = r.perf) : RowFix r' := by
  intro p hp; rw [e] at hp; exact h p hp

theorem setTrackCol_fix (r r' : TrackRows) (v : Impl.V1.Track) (hf : RowFix r) (h : setTrackCol r v = .ok r') : RowFix r' := by
  obtain ⟨v', p, hg, hp, hr⟩ := setCol_ok _ _ _ _ _ _ h
  have hn := colGuard_norm _ _ _ _ hg
  have he := guard_track v v' hg
  subst he
  simp only [Res.ok.injEq] at hn
  subst hr
  intro q hq
  simp only [Option.some.injEq] at hq
  subst hq
  obtain ⟨_, h2, h3, h4, h5⟩ := hf p hp
  exact ⟨hn, h2, h3, h4, h5⟩

theorem setBeatCol_fix (r r' : TrackRows) (v : Beat) (hf : RowFix r) (h : setBeatCol r v = .ok r') : RowFix r' := by
  obtain ⟨v', p, hg, hp, hr⟩ := setCol_ok _ _ _ _ _ _ h
  have hn := colGuard_norm _ _ _ _ hg
  have he := (guard_beat v v' hg).1
  subst he
  subst hr
  intro q hq
  simp only [Option.some.injEq] at hq
  subst hq
  obtain ⟨h1, _, h3, h4, h5⟩ := hf p hp
  exact ⟨h1, hn, h3, h4, h5⟩

theorem setCuesCol_fix (r r' : TrackRows) (v : Cues) (hf : RowFix r) (h : setCuesCol r v = .ok r') : RowFix r' := by
  obtain ⟨v', p, hg, hp, hr⟩ := setCol_ok _ _ _ _ _ _ h
  have hn := colGuard_norm _ _ _ _ hg
  have he := (guard_cues v v' hg).1
  subst he
  subst hr
  intro q hq
  simp only [Option.some.injEq] at hq
  subst hq
  obtain ⟨h1, h2, _, h4, h5⟩ := hf p hp
  exact ⟨h1, h2, hn, h4, h5⟩

theorem setLoopsCol_fix (r r' : TrackRows) (v : Loops) (hf : RowFix r) (h : setLoopsCol r v = .ok r') : RowFix r' := by
  obtain ⟨v', p, hg, hp, hr⟩ := setCol_ok _ _ _ _ _ _ h
  have hn := colGuard_norm _ _ _ _ hg
  have he := (guard_loops v v' hg).1
  subst he
  subst hr
  intro q hq
  simp only [Option.some.injEq] at hq
  subst hq
  obtain ⟨h1, h2, h3, _, h5⟩ := hf p hp
  exact ⟨h1, h2, h3, hn, h5⟩

theorem setHiresCol_fix (r r' : TrackRows) (v : Wave) (hf : RowFix r) (h : setHiresCol r v = .ok r') : RowFix r' := by
  obtain ⟨p, hp, hr⟩ := setHiresCol_ok r r' v h
  subst hr
  intro q hq
  simp only [Option.some.injEq] at hq
  subst hq
  exact hf p hp

theorem setOvwCol_fix (r r' : TrackRows) (v : Wave) (hf : RowFix r) (h : setOvwCol r v = .ok r') : RowFix r' := by
  obtain ⟨p, hp, hr⟩ := setOvwCol_ok r r' v h
  subst hr
  intro q hq
  simp only [Option.some.injEq] at hq
  subst hq
  obtain ⟨h1, h2, h3, h4, _⟩ := hf p hp
  refine ⟨h1, h2, h3, h4, ?_⟩
  show normOvw ⟨v.spe, v.entries.map opaque255⟩ = ⟨v.spe, v.entries.map opaque255⟩
  exact normOvw_idem ⟨v.spe, v.entries⟩

theorem set_fix (o : FOps) (r r' : TrackRows) (f : Field) (v : f.ty) (hf : RowFix r) (h : TracksV1.set o r f v = .ok r') :
    RowFix r' := by
  cases f with
  | relativePath => simp only [TracksV1.set, Res.ok.injEq] at h; subst h; exact hf.of_perf rfl
  | album => simp only [TracksV1.set, Res.ok.injEq] at h; subst h; exact hf.of_perf rfl
  | artist => simp only [TracksV1.set, Res.ok.injEq] at h; subst h; exact hf.of_perf rfl
  | comment => simp only [TracksV1.set, Res.ok.injEq] at h; subst h; exact hf.of_perf rfl
  | composer => simp only [TracksV1.set, Res.ok.injEq] at h; subst h; exact hf.of_perf rfl
  | genre => simp only [TracksV1.set, Res.ok.injEq] at h; subst h; exact hf.of_perf rfl
  | publisher => simp only [TracksV1.set, Res.ok.injEq] at h; subst h; exact hf.of_perf rfl
  | title => simp only [TracksV1.set, Res.ok.injEq] at h; subst h; exact hf.of_perf rfl
  | averageLoudness => simp only [TracksV1.set] at h; exact setTrackCol_fix _ _ _ hf h
  | beatgrid => simp only [TracksV1.set] at h; exact setBeatCol_fix _ _ _ hf h
  | bitrate => simp only [TracksV1.set, Res.ok.injEq] at h; subst h; exact hf.of_perf rfl
  | bpm =>
    simp only [TracksV1.set] at h
    obtain ⟨c, _, h⟩ := bind_ok_inv h
    simp only [Res.pure_eq, pure, Res.ok.injEq] at h
    subst h; exact hf.of_perf rfl
  | duration => simp only [TracksV1.set, Res.ok.injEq] at h; subst h; exact hf.of_perf rfl
  | hotCues => simp only [TracksV1.set] at h; exact setCuesCol_fix _ _ _ hf h
  | hotCueAt i =>
    simp only [TracksV1.set] at h
    obtain ⟨k, _, h⟩ := Res.bind_eq_ok h
    exact setCuesCol_fix _ _ _ hf h
  | key =>
    simp only [TracksV1.set] at h
    obtain ⟨r1, h1, h⟩ := Res.bind_eq_ok h
    simp only [Res.ok.injEq] at h; subst h
    exact (setTrackCol_fix _ _ _ hf h1).of_perf rfl
  | lastPlayedAt => simp only [TracksV1.set, Res.ok.injEq] at h; subst h; exact hf.of_perf rfl
  | loops =>
    simp only [TracksV1.set] at h
    split at h
    · cases h
    · exact setLoopsCol_fix _ _ _ hf h
  | loopAt i =>
    simp only [TracksV1.set] at h
    obtain ⟨k, _, h⟩ := Res.bind_eq_ok h
    exact setLoopsCol_fix _ _ _ hf h
  | mainCue => simp only [TracksV1.set] at h; exact setCuesCol_fix _ _ _ hf h
  | rating => simp only [TracksV1.set, Res.ok.injEq] at h; subst h; exact hf.of_perf rfl
  | sampleCount =>
    simp only [TracksV1.set] at h
    obtain ⟨secs, _, h⟩ := bind_ok_inv h
    obtain ⟨r2, h2, h⟩ := bind_ok_inv h
    obtain ⟨r3, h3, h⟩ := bind_ok_inv h
    have k2 : RowFix r2 := setBeatCol_fix _ _ _ (RowFix.of_perf (r' := { r with track := { r.track with lengthCalculated := secs } }) hf rfl) h2
    have k3 : RowFix r3 := setTrackCol_fix _ _ _ k2 h3
    split at h
    · simp only [Res.pure_eq, pure, Res.ok.injEq] at h; subst h; exact k3
    · obtain ⟨e, _, h⟩ := bind_ok_inv h
      exact setOvwCol_fix _ _ _ k3 h
  | sampleRate =>
    simp only [TracksV1.set] at h
    obtain ⟨secs, _, h⟩ := bind_ok_inv h
    obtain ⟨r2, h2, h⟩ := bind_ok_inv h
    obtain ⟨r3, h3, h⟩ := bind_ok_inv h
    obtain ⟨r4, h4, h⟩ := bind_ok_inv h
    have k2 : RowFix r2 := setBeatCol_fix _ _ _ (RowFix.of_perf (r' := { r with track := { r.track with lengthCalculated := secs } }) hf rfl) h2
    have k3 : RowFix r3 := setTrackCol_fix _ _ _ k2 h3
    have k4 : RowFix r4 := by
      split at h4
      · simp only [Res.pure_eq, pure, Res.ok.injEq] at h4; subst h4; exact k3
      · obtain ⟨e, _, h4⟩ := bind_ok_inv h4
        exact setHiresCol_fix _ _ _ k3 h4
    split at h
    · simp only [Res.pure_eq, pure, Res.ok.injEq] at h; subst h; exact k4
    · obtain ⟨e, _, h⟩ := bind_ok_inv h
      exact setOvwCol_fix _ _ _ k4 h
  | trackNumber => simp only [TracksV1.set, Res.ok.injEq] at h; subst h; exact hf.of_perf rfl
  | waveform =>
    simp only [TracksV1.set] at h
    obtain ⟨w, _, h⟩ := bind_ok_inv h
    obtain ⟨r1, h1, h⟩ := bind_ok_inv h
    exact setHiresCol_fix _ _ _ (setOvwCol_fix _ _ _ hf h1) h
  | year => simp only [TracksV1.set, Res.ok.injEq] at h; subst h; exact hf.of_perf rfl

end EngineModel.TracksV1

namespace EngineModel.Lib.V1
open EngineModel.Api
open EngineModel.TracksV1 (Snap Field TrackRows PerfRow aget aset RowFix PerfFix dbCreate dbUpdate dbSet)
open EngineModel.TracksV1.Fl (FOps)

/-- Every stored PerformanceData row consists of codec fixed points. -/
def BlobsFix (L : Lib1) : Prop := ∀ id r, L.tr.rows id = some r → RowFix r

theorem blobsFix_empty (s : VSchema) (um up dir : Bytes) : BlobsFix (Lib1.empty s um up dir) := by
  intro id r h; cases h

theorem blobsFix_replace {L : Lib1} (h : BlobsFix L) (id : Int) (r' : TrackRows) (hr : RowFix r') :
    BlobsFix { L with tr := { L.tr with tracks := aset id r' L.tr.tracks } } := by
  intro id' r'' h''
  by_cases hx : id' = id
  · subst hx
    have : aget id' (aset id' r' L.tr.tracks) = some r'' := h''
    rw [TracksV1.aget_aset_same] at this
    cases this; exact hr
  · have : aget id' (aset id r' L.tr.tracks) = some r'' := h''
    rw [TracksV1.aget_aset_other _ _ _ _ hx] at this
    exact h id' r'' this

theorem blobsFix_step (o : FOps) {s : VSchema} {L : Lib1} (hi : LibInv s L) (h : BlobsFix L) (c : Call) :
    BlobsFix (step o s L c).1 := by
  by_cases hc : c.isObserver = true
  · rw [step_observer o s L c hc]; exact h
  · cases c with
    | createTrack x =>
      obtain ⟨id, seq, hcr, hmax⟩ := CratesV1.createTrack_spec (toDetect s) L.cr
      show BlobsFix (createTrack o s L x).1
      unfold createTrack
      rw [hcr]
      simp only
      cases hd : dbCreate o L.tr x with
      | throw e => exact h
      | ub u => exact h
      | ok p =>
        obtain ⟨d', id0⟩ := p
        simp only
        obtain ⟨rows, hw, hd'⟩ := TracksV1.dbCreate_rows o L.tr d' x id0 hd
        have hid0 := dbCreate_id o L.tr d' x id0 hd
        have h0 : ∀ e ∈ L.tr.tracks, e.1 ≠ id0 := by
          intro e he; rw [hid0]; have := TracksV1.nextId_fresh L.tr e he; omega
        have h1 := fresh_of_maxId hi hmax
        have hnone1 : aget id L.tr.tracks = none := by
          cases hh : aget id L.tr.tracks with
          | none => rfl
          | some r => exact absurd rfl (h1 _ (TracksV1.aget_mem _ _ _ hh))
        subst hd'
        rw [relabel_append L.tr id0 id rows h0]
        intro id' r hr
        have hr' : aget id' (L.tr.tracks ++ [(id, rows)]) = some r := hr
        by_cases hy : id' = id
        · subst hy
          rw [TracksV1.aget_append_fresh _ _ _ hnone1] at hr'
          cases hr'
          exact TracksV1.writeSnap_fix o _ x none rows hw
        · rw [TracksV1.aget_append_other _ _ _ _ hy] at hr'
          exact h id' r hr'
    | removeTrack t =>
      intro id r hr
      have hr : (TracksV1.dbRemove L.tr t).rows id = some r := hr
      by_cases hx : id = t
      · subst hx
        have : (TracksV1.dbRemove L.tr id).rows id = none := TracksV1.aget_filter_ne _ _
        rw [this] at hr; cases hr
      · have : (TracksV1.dbRemove L.tr t).rows id = L.tr.rows id := TracksV1.aget_filter_other _ _ _ hx
        rw [this] at hr
        exact h id r hr
    | update t x =>
      show BlobsFix (viaTracks L (dbUpdate o L.tr t x)).1
      cases hu : dbUpdate o L.tr t x with
      | throw e => exact h
      | ub u => exact h
      | ok d' =>
        obtain ⟨prior, rows, hp, hw, hd'⟩ := TracksV1.dbUpdate_rows o L.tr d' x t hu
        subst hd'
        exact blobsFix_replace h t rows (TracksV1.writeSnap_fix o _ x _ rows hw)
    | set t f v =>
      show BlobsFix (viaTracks L (dbSet o L.tr t f v)).1
      cases hu : dbSet o L.tr t f v with
      | throw e => exact h
      | ub u => exact h
      | ok d' =>
        obtain ⟨r, r', hr, hs, hd'⟩ := TracksV1.dbSet_ok o L.tr d' t f v hu
        subst hd'
        exact blobsFix_replace h t r' (TracksV1.set_fix o r r' f v (h t r hr) hs)
    | createRootCrate n => exact h
    | createRootCrateAfter n a => exact h
    | removeCrate c => exact h
    | addTrack c u => exact h
    | crateRemoveTrack c u => exact h
    | clearTracks c => exact h
    | createSubCrate c n => exact h
    | createSubCrateAfter c n a => exact h
    | setName c n => exact h
    | setParent c p => exact h
    | _ => exact absurd rfl hc

theorem blobsFix_run (o : FOps) {s : VSchema} : ∀ (cs : List Call) {L : Lib1}, LibInv s L → BlobsFix L →
    BlobsFix (run o s L cs) := by
  intro cs
  induction cs with
  | nil => intro L _ h; exact h
  | cons c cs ih => intro L hi h; rw [run_cons]; exact ih (libInv_step o hi c) (blobsFix_step o hi h c)

end EngineModel.Lib.V1
