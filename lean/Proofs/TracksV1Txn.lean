/-
C01 1.x, database level at statement granularity: the value-level `dbCreate` / `dbUpdate` of
Accessors.lean are the fault-free run of the statement sequence of Txn.lean; a run that raises — a
statement failing by itself or a fault injected at any position — leaves the committed database as it was.
-/
import EngineModel.TracksV1.Txn
import Proofs.TracksV1Table
import Proofs.TracksV1AcceptHist
import Proofs.Txn

namespace EngineModel.TracksV1

open Impl.V1 (GMarker HotCue LoopV Entry Wave Beat Cues Loops)
open Fl (FOps)
open Spec.Txn
open EngineModel.Proofs.Txn (sound_aux durable_aux TInv.init effWrites_all shapeRun_closedRun)

set_option linter.unusedSimpArgs false
set_option linter.unusedVariables false

/-! ### `writeSnap` = prepare, encode, assemble -/

theorem writeSnap_eq (o : FOps) (s : Schema) (x : Snap) (prior : Option TrackRows) :
    writeSnap o s x prior = (prepare o x).bind fun pr => (perfCols o x pr).bind fun c =>
      .ok (assemble s x prior pr.path pr.lenCalc pr.bpmI pr.ovw pr.hires c.1 c.2.1 c.2.2) := by
  unfold writeSnap prepare perfCols
  cases x.relativePath with
  | none => rfl
  | some path =>
    simp only
    cases lengthCalculated x.sampleCount x.sampleRate <;> simp only [Res.bind]
    cases roundedBpm x.bpm <;> simp only [Res.bind]
    cases toOverview o x.sampleCount x.sampleRate x.waveform <;> simp only [Res.bind]
    cases toHires o x.sampleCount x.sampleRate x.waveform <;> simp only [Res.bind]
    cases toLoops x.loops <;> simp only [Res.bind]
    cases normBeat ⟨x.sampleRate, x.sampleCount.map (fun n => o.ofU64 n.toNat), x.beatgrid, x.beatgrid⟩ <;>
      simp only [Res.bind]
    cases normCues (toCues x.hotCues x.mainCue) <;> simp only [Res.bind]
    rename_i ls _ _
    cases normLoops ls <;> simp only [Res.bind]

theorem prepare_defined (o : FOps) (x : Snap) : Defined (prepare o x) := by
  unfold prepare
  cases x.relativePath with
  | none => exact Defined.throw _
  | some path =>
    simp only
    refine Defined.bind (defined_of_ok (lengthCalculated_ok _ _)) fun _ _ => ?_
    refine Defined.bind (defined_of_ok (roundedBpm_ok _)) fun _ _ => ?_
    refine Defined.bind (defined_of_ok (toOverview_ok o _ _ _)) fun _ _ => ?_
    refine Defined.bind ?_ fun _ _ => ?_
    · rcases toHires_cases o x.sampleCount x.sampleRate x.waveform with ⟨v, h, _⟩ | ⟨h, _⟩ <;> rw [h]
      · exact Defined.ok _
      · exact Defined.throw _
    refine Defined.bind ?_ fun _ _ => Defined.ok _
    rcases toLoops_cases x.loops with ⟨_, h⟩ | ⟨_, h⟩ <;> rw [h]
    · exact Defined.ok _
    · exact Defined.throw _

theorem prepare_path (o : FOps) (x : Snap) (pr : Prep) (h : prepare o x = .ok pr) : x.relativePath = some pr.path := by
  unfold prepare at h
  cases hp : x.relativePath with
  | none => rw [hp] at h; cases h
  | some path =>
    rw [hp] at h
    simp only at h
    obtain ⟨_, _, h⟩ := Res.bind_eq_ok h
    obtain ⟨_, _, h⟩ := Res.bind_eq_ok h
    obtain ⟨_, _, h⟩ := Res.bind_eq_ok h
    obtain ⟨_, _, h⟩ := Res.bind_eq_ok h
    obtain ⟨_, _, h⟩ := Res.bind_eq_ok h
    cases h; rfl

/-- An exception raised while preparing is one of the two thrown before any statement. -/
theorem prepare_throw (o : FOps) (x : Snap) (e : Exn) (h : prepare o x = .throw e) :
    e = .dj "invalid_track_snapshot" ∨ e = .dj "loops_overflow" := by
  unfold prepare at h
  cases hp : x.relativePath with
  | none => rw [hp] at h; cases h; exact Or.inl rfl
  | some path =>
    rw [hp] at h
    simp only at h
    obtain ⟨lc, hlc⟩ := lengthCalculated_ok x.sampleCount x.sampleRate
    obtain ⟨bi, hbi⟩ := roundedBpm_ok x.bpm
    obtain ⟨ov, hov⟩ := toOverview_ok o x.sampleCount x.sampleRate x.waveform
    rw [hlc, hbi, hov] at h
    simp only [Res.bind] at h
    rcases toHires_cases o x.sampleCount x.sampleRate x.waveform with ⟨v, hh, _⟩ | ⟨hh, _⟩
    · rw [hh] at h
      simp only [Res.bind] at h
      rcases toLoops_cases x.loops with ⟨_, hl⟩ | ⟨_, hl⟩
      · rw [hl] at h; cases h
      · rw [hl] at h; cases h; exact Or.inr rfl
    · rw [hh] at h; cases h; exact Or.inl rfl

/-! ### sizes of the waveform blobs built by `prepare` -/

theorem toHires_entries (o : FOps) (c : Option UInt64) (r : Option Bits) (w : List Entry) (v : Wave)
    (h : toHires o c r w = .ok v) : v.entries.length = w.length ∨ v.entries.length = 0 := by
  unfold toHires at h
  cases c with
  | none =>
    simp only at h
    split at h
    · simp only [Res.ok.injEq] at h; subst h; exact Or.inr rfl
    · cases h
  | some n =>
    cases r with
    | none =>
      simp only at h
      split at h
      · simp only [Res.ok.injEq] at h; subst h; exact Or.inr rfl
      · cases h
    | some rr =>
      simp only at h
      split at h
      · split at h
        · simp only [Res.ok.injEq] at h; subst h; exact Or.inr rfl
        · cases h
      · cases he : hiresExtents o n rr with
        | throw e => rw [he] at h; cases h
        | ub u => rw [he] at h; cases h
        | ok e =>
          rw [he] at h
          simp only [Res.ok.injEq] at h
          subst h; exact Or.inl rfl

theorem ovwExtents_size (o : FOps) (n : UInt64) (r : Bits) (e : Nat × Bits) (h : ovwExtents o n r = .ok e) :
    e.1 ≤ 1024 := by
  obtain ⟨v, hv⟩ := extentsRate_toI64 r
  obtain ⟨q, hq, hin⟩ := qn_some o (extentsRate r) v hv
  unfold ovwExtents Gen.TrackUtils.calculate_overview_waveform_extents at h
  rw [hq] at h
  simp only [Option.bind_eq_bind, Option.bind_some, Option.pure_def] at h
  by_cases hz : (decide (n.toNat = Cxx.u64OfInt 0) || decide (q = 0)) = true
  · simp [hz, liftUb] at h
    rw [← h]
    show Cxx.u64OfInt 0 ≤ 1024
    decide
  · have hq0 : q ≠ 0 := by
      intro h; apply hz; simp [h]
    have hu := u64OfInt_ne_zero q hq0 hin
    simp [hz, liftUb, Cxx.U64.div, hu] at h
    rw [← h]
    exact Nat.le_refl _

theorem toOverview_entries (o : FOps) (c : Option UInt64) (r : Option Bits) (w : List Entry) (v : Wave)
    (h : toOverview o c r w = .ok v) : v.entries.length ≤ 1024 := by
  unfold toOverview at h
  cases c with
  | none => simp only [Res.ok.injEq] at h; subst h; exact Nat.zero_le _
  | some n =>
    cases r with
    | none => simp only [Res.ok.injEq] at h; subst h; exact Nat.zero_le _
    | some rr =>
      simp only at h
      cases he : ovwExtents o n rr with
      | throw e => rw [he] at h; cases h
      | ub u => rw [he] at h; cases h
      | ok e =>
        obtain ⟨size, spe⟩ := e
        have hs := ovwExtents_size o n rr _ he
        rw [he] at h
        simp only at h
        split at h
        · simp only [Res.ok.injEq] at h; subst h; exact Nat.zero_le _
        · cases hr : resample w size with
          | ok es =>
            rw [hr] at h
            simp only [Res.ok.injEq] at h
            subst h
            unfold resample at hr
            rw [mapRes_length _ _ _ hr, List.length_range]
            exact hs
          | throw e => rw [hr] at h; cases h
          | ub u => rw [hr] at h; cases h

/-! ### association lists: a fresh key at the end -/

theorem aget_append_fresh {β} (l : List (Int × β)) (k : Int) (v : β) (h : aget k l = none) :
    aget k (l ++ [(k, v)]) = some v := by
  induction l with
  | nil => simp [aget]
  | cons hd t ih =>
    obtain ⟨k', v'⟩ := hd
    simp only [aget] at h
    by_cases hk : k' = k
    · rw [if_pos hk] at h; cases h
    · rw [if_neg hk] at h
      simp only [List.cons_append, aget, if_neg hk]
      exact ih h

theorem aget_append_other {β} (l : List (Int × β)) (k k' : Int) (v : β) (h : k' ≠ k) :
    aget k' (l ++ [(k, v)]) = aget k' l := by
  induction l with
  | nil =>
    have : ¬ k = k' := fun e => h e.symm
    simp [aget, this]
  | cons hd t ih =>
    obtain ⟨k0, w⟩ := hd
    simp only [List.cons_append, aget]
    by_cases hk : k0 = k'
    · simp [hk]
    · simp [hk, ih]

theorem aset_append_fresh {β} (l : List (Int × β)) (k : Int) (v v' : β) (h : aget k l = none) :
    aset k v' (l ++ [(k, v)]) = l ++ [(k, v')] := by
  induction l with
  | nil => simp [aset]
  | cons hd t ih =>
    obtain ⟨k', w⟩ := hd
    simp only [aget] at h
    by_cases hk : k' = k
    · rw [if_pos hk] at h; cases h
    · rw [if_neg hk] at h
      simp only [List.cons_append, aset, if_neg hk]
      rw [ih h]

theorem aset_aset {β} (l : List (Int × β)) (k : Int) (v v' : β) : aset k v' (aset k v l) = aset k v' l := by
  induction l with
  | nil => simp [aset]
  | cons hd t ih =>
    obtain ⟨k', w⟩ := hd
    by_cases hk : k' = k
    · simp [aset, hk]
    · simp [aset, hk, ih]

theorem aget_nextId (d : Db) : aget (nextId d) d.tracks = none := by
  cases h : aget (nextId d) d.tracks with
  | none => rfl
  | some r =>
    have hm := aget_mem _ _ _ h
    have := nextId_fresh d _ hm
    simp only at this
    omega

/-! ### the four writes in sequence -/

theorem modRows_some (d : Db) (id : Int) (g : TrackRows → Option TrackRows) (r : TrackRows) (hr : d.rows id = some r) :
    modRows d id g = (g r).map fun r' => { d with tracks := aset id r' d.tracks } := by
  unfold modRows; rw [hr]

theorem modRows_none (d : Db) (id : Int) (g : TrackRows → Option TrackRows) (hr : d.rows id = none) :
    modRows d id g = none := by
  unfold modRows; rw [hr]

/-- The rows that the four statements leave for the track, when the encoders succeed. -/
def finalRows (s : Schema) (x : Snap) (prior : Option TrackRows) (pr : Prep) (c : Beat × Cues × Loops) : TrackRows :=
  assemble s x prior pr.path pr.lenCalc pr.bpmI pr.ovw pr.hires c.1 c.2.1 c.2.2

theorem modRows_fresh (s : Schema) (l : List (Int × TrackRows)) (id : Int) (r : TrackRows)
    (g : TrackRows → Option TrackRows) (h : aget id l = none) :
    modRows ⟨s, l ++ [(id, r)]⟩ id g = (g r).map fun r' => ⟨s, l ++ [(id, r')]⟩ := by
  have hr : (Db.mk s (l ++ [(id, r)])).rows id = some r := aget_append_fresh _ _ _ h
  rw [modRows_some _ _ _ r hr]
  simp only [aset_append_fresh _ _ _ _ h]

theorem modRows_aset (s : Schema) (l : List (Int × TrackRows)) (id : Int) (r : TrackRows)
    (g : TrackRows → Option TrackRows) :
    modRows ⟨s, aset id r l⟩ id g = (g r).map fun r' => ⟨s, aset id r' l⟩ := by
  have hr : (Db.mk s (aset id r l)).rows id = some r := aget_aset_same _ _ _
  rw [modRows_some _ _ _ r hr]
  simp only [aset_aset]

theorem applyAll_create (o : FOps) (d : Db) (x : Snap) (pr : Prep) (id : Int) (hfresh : aget id d.tracks = none) :
    applyAll (writesOf (writeCmds o d.schema x pr id false)) d =
      if pathTaken d id pr.path = true then none else
      match perfCols o x pr with
      | .ok c => some { d with tracks := d.tracks ++ [(id, finalRows d.schema x none pr c)] }
      | _ => none := by
  simp only [writeCmds, writesOf, applyAll, Bool.false_eq_true, if_false]
  unfold stTrackInsert
  by_cases hpt : pathTaken d id pr.path = true
  · simp [hpt]
  · simp only [hpt, Bool.false_eq_true, if_false, Option.bind_some]
    unfold stMeta
    simp only
    rw [modRows_fresh _ _ _ _ _ hfresh]
    simp only [Option.map_some, Option.bind_some]
    unfold stMetaInt
    simp only
    rw [modRows_fresh _ _ _ _ _ hfresh]
    simp only [Option.map_some, Option.bind_some]
    unfold stPerf
    rw [modRows_fresh _ _ _ _ _ hfresh]
    cases hc : perfCols o x pr with
    | ok c => simp only [Option.map_some, Option.bind_some]; rfl
    | throw e => rfl
    | ub u => rfl

theorem applyAll_update (o : FOps) (d : Db) (x : Snap) (pr : Prep) (id : Int) :
    applyAll (writesOf (writeCmds o d.schema x pr id true)) d =
      if pathTaken d id pr.path = true then none else
      match d.rows id with
      | none => none
      | some prior =>
        match perfCols o x pr with
        | .ok c => some { d with tracks := aset id (finalRows d.schema x (some prior) pr c) d.tracks }
        | _ => none := by
  simp only [writeCmds, writesOf, applyAll, if_true]
  unfold stTrackUpdate
  by_cases hpt : pathTaken d id pr.path = true
  · simp [hpt]
  · simp only [hpt, Bool.false_eq_true, if_false]
    cases hr : d.rows id with
    | none => rw [modRows_none _ _ _ hr]; rfl
    | some prior =>
      rw [modRows_some _ _ _ _ hr]
      simp only [Option.map_some, Option.bind_some]
      unfold stMeta
      simp only
      rw [modRows_aset]
      simp only [Option.map_some, Option.bind_some]
      unfold stMetaInt
      simp only
      rw [modRows_aset]
      simp only [Option.map_some, Option.bind_some]
      unfold stPerf
      rw [modRows_aset]
      cases hc : perfCols o x pr with
      | ok c => simp only [Option.map_some, Option.bind_some]; rfl
      | throw e => rfl
      | ub u => rfl

/-! ### the value-level calls are the fault-free statement runs -/

theorem perfCols_defined (o : FOps) (x : Snap) (pr : Prep) : Defined (perfCols o x pr) := by
  unfold perfCols
  refine Defined.bind (normBeat_defined _) fun _ _ => ?_
  refine Defined.bind (normCues_defined _) fun _ _ => ?_
  exact Defined.bind (normLoops_defined _) fun _ _ => Defined.ok _

theorem finalRows_path (s : Schema) (x : Snap) (prior : Option TrackRows) (pr : Prep) (c : Beat × Cues × Loops) :
    (finalRows s x prior pr c).track.path.getD [] = pr.path := rfl

theorem dbCreate_prepare_throw (o : FOps) (d : Db) (x : Snap) (e : Exn) (h : prepare o x = .throw e) :
    dbCreate o d x = .throw e := by
  have he := prepare_throw o x e h
  unfold dbCreate
  rw [writeSnap_eq, h]
  simp only [Res.bind]
  cases x.relativePath with
  | none => rfl
  | some p => simp only [he, if_true]

theorem dbCreate_statements (o : FOps) (d : Db) (x : Snap) (pr : Prep) (h : prepare o x = .ok pr) :
    (∀ d', applyAll (writesOf (writeCmds o d.schema x pr (nextId d) false)) d = some d' ↔
      dbCreate o d x = .ok (d', nextId d)) ∧
    (applyAll (writesOf (writeCmds o d.schema x pr (nextId d) false)) d = none ↔ ∃ e, dbCreate o d x = .throw e) := by
  rw [applyAll_create o d x pr (nextId d) (aget_nextId d)]
  have hpath := prepare_path o x pr h
  unfold dbCreate
  rw [writeSnap_eq, h]
  simp only [Res.bind]
  cases hc : perfCols o x pr with
  | ub u => exact absurd hc (perfCols_defined o x pr u)
  | ok c =>
    simp only [Res.bind]
    change _ ∧ _
    rw [show ((assemble d.schema x none pr.path pr.lenCalc pr.bpmI pr.ovw pr.hires c.1 c.2.1 c.2.2).track.path.getD []) =
      pr.path from rfl]
    by_cases hpt : pathTaken d (nextId d) pr.path = true
    · simp [hpt]
    · simp only [hpt, Bool.false_eq_true, if_false]
      constructor
      · intro d'
        constructor
        · intro hh; cases hh; rfl
        · intro hh; cases hh; rfl
      · constructor
        · intro hh; cases hh
        · intro ⟨e, he⟩; cases he
  | throw e =>
    simp only [Res.bind, hpath]
    constructor
    · intro d'
      constructor
      · intro hh; split at hh <;> cases hh
      · intro hh
        split at hh
        · cases hh
        · split at hh <;> cases hh
    · constructor
      · intro _
        split
        · exact ⟨_, rfl⟩
        · split <;> exact ⟨_, rfl⟩
      · intro _; split <;> rfl

theorem dbUpdate_prepare_throw (o : FOps) (d : Db) (id : Int) (x : Snap) (e : Exn) (h : prepare o x = .throw e) :
    dbUpdate o d id x = .throw e := by
  have he := prepare_throw o x e h
  unfold dbUpdate
  cases d.rows id with
  | none =>
    simp only
    rw [writeSnap_eq, h]
    simp only [Res.bind]
    rw [if_pos (Or.inr he)]
  | some prior =>
    simp only
    rw [writeSnap_eq, h]
    simp only [Res.bind]
    cases x.relativePath with
    | none => rfl
    | some p => simp only [he, if_true]

theorem dbUpdate_statements (o : FOps) (d : Db) (id : Int) (x : Snap) (pr : Prep) (h : prepare o x = .ok pr) :
    (∀ d', applyAll (writesOf (writeCmds o d.schema x pr id true)) d = some d' ↔ dbUpdate o d id x = .ok d') ∧
    (applyAll (writesOf (writeCmds o d.schema x pr id true)) d = none ↔ ∃ e, dbUpdate o d id x = .throw e) := by
  rw [applyAll_update o d x pr id]
  have hpath := prepare_path o x pr h
  unfold dbUpdate
  cases hr : d.rows id with
  | none =>
    simp only
    rw [writeSnap_eq, h]
    simp only [Res.bind]
    have hnone : (if pathTaken d id pr.path = true then (none : Option Db) else none) = none := by split <;> rfl
    rw [hnone]
    cases hc : perfCols o x pr with
    | ub u => exact absurd hc (perfCols_defined o x pr u)
    | ok c =>
      simp only [Res.bind]
      constructor
      · intro d'
        constructor
        · intro hh; cases hh
        · intro hh; cases hh
      · constructor
        · intro _; exact ⟨_, rfl⟩
        · intro _; trivial
    | throw e =>
      simp only [Res.bind]
      constructor
      · intro d'
        constructor
        · intro hh; cases hh
        · intro hh; split at hh <;> cases hh
      · constructor
        · intro _; split <;> exact ⟨_, rfl⟩
        · intro _; trivial
  | some prior =>
    simp only
    rw [writeSnap_eq, h]
    simp only [Res.bind]
    cases hc : perfCols o x pr with
    | ub u => exact absurd hc (perfCols_defined o x pr u)
    | ok c =>
      simp only [Res.bind]
      change _ ∧ _
      rw [show ((assemble d.schema x (some prior) pr.path pr.lenCalc pr.bpmI pr.ovw pr.hires c.1 c.2.1 c.2.2).track.path.getD []) =
        pr.path from rfl]
      by_cases hpt : pathTaken d id pr.path = true
      · simp [hpt]
      · simp only [hpt, Bool.false_eq_true, if_false]
        constructor
        · intro d'
          constructor
          · intro hh; cases hh; rfl
          · intro hh; cases hh; rfl
        · constructor
          · intro hh; cases hh
          · intro ⟨e, he⟩; cases he
    | throw e =>
      simp only [Res.bind, hpath]
      constructor
      · intro d'
        constructor
        · intro hh; split at hh <;> cases hh
        · intro hh
          split at hh
          · cases hh
          · split at hh <;> cases hh
      · constructor
        · intro _
          split
          · exact ⟨_, rfl⟩
          · split <;> exact ⟨_, rfl⟩
        · intro _; split <;> rfl

/-! ### the statement run: six commands, fault at any position

The two facts about an atomic shape, derived from the lemmas of `Proofs/Txn.lean` exactly as the registered
`C14_shape_sound` / `C14_all_writes` are (restated here so that this file depends on the transaction theory
only, not on the concrete operation tables that C14's property file imports). -/

theorem txn_shape_sound {α : Type} (cs : List (Cmd α)) (h : atomicShape (cs.map Cmd.kind) = true)
    (fault : Option Nat) (auto : Bool) (db : α) :
    ((call fault auto cs db).raised = true → (call fault auto cs db).conn = Conn.idle db) ∧
    ((call fault auto cs db).raised = false →
      (call fault auto cs db).conn.working = none ∧
      applyAll (effWrites cs [] false) db = some (call fault auto cs db).conn.committed) := by
  unfold atomicShape at h
  split at h
  · rename_i s' hs
    have hin : s'.inTxn = false := by simpa using h
    have := sound_aux fault auto db cs ShapeSt.init s' 0 0 (Conn.idle db) (TInv.init db) hs
    refine ⟨this.1, fun hr => ⟨this.2.1 hr hin, ?_⟩⟩
    exact durable_aux fault auto cs [] false 0 0 (Conn.idle db) ⟨by simp, by simp [Conn.idle]⟩ hr
  · cases h

theorem txn_all_writes {α : Type} (cs : List (Cmd α)) (h : atomicShape (cs.map Cmd.kind) = true)
    (hnr : ∀ x ∈ cs, x.kind ≠ .rollback) (fault : Option Nat) (auto : Bool) (db : α)
    (hr : (call fault auto cs db).raised = false) :
    applyAll (writesOf cs) db = some (call fault auto cs db).conn.committed := by
  have h1 := (txn_shape_sound cs h fault auto db).2 hr
  have hc : closedRun false (cs.map Cmd.kind) = some false := by
    unfold atomicShape at h
    split at h
    · rename_i s' hs
      have := shapeRun_closedRun _ _ _ hs
      simpa [ShapeSt.init, show s'.inTxn = false by simpa using h] using this
    · cases h
  have := effWrites_all cs [] false hc hnr
  rw [this] at h1
  simpa using h1.2

theorem writeCmds_shape (o : FOps) (s : Schema) (x : Snap) (pr : Prep) (id : Int) (upd : Bool) :
    atomicShape ((writeCmds o s x pr id upd).map Cmd.kind) = true := by
  simp only [writeCmds, List.map, Cmd.kind]
  decide

theorem writeCmds_noRollback (o : FOps) (s : Schema) (x : Snap) (pr : Prep) (id : Int) (upd : Bool) :
    ∀ c ∈ writeCmds o s x pr id upd, c.kind ≠ .rollback := by
  unfold writeCmds
  intro c hc
  simp only [List.mem_cons, List.mem_nil_iff, or_false] at hc
  rcases hc with h | h | h | h | h | h <;> subst h <;> simp [Cmd.kind]

/-! fault-free small steps of `exec` -/

theorem exec_begin {α : Type} (auto : Bool) (rest : List (Cmd α)) (seen : Nat) (c : α) :
    exec none auto (.begin :: rest) seen 0 ⟨c, none⟩ =
      (exec none auto rest (seen + 1) 1 ⟨c, some c⟩).cons ⟨.begin, false⟩ := by
  simp [exec, Cmd.kind, faultable, stepStmt, scopesAfter]

theorem exec_write_some {α : Type} (auto : Bool) (f : α → Option α) (rest : List (Cmd α)) (seen scopes : Nat)
    (c w w' : α) (h : f w = some w') :
    exec none auto (.write f :: rest) seen scopes ⟨c, some w⟩ =
      (exec none auto rest (seen + 1) scopes ⟨c, some w'⟩).cons ⟨.write, false⟩ := by
  simp [exec, Cmd.kind, faultable, stepStmt, scopesAfter, h]

theorem exec_write_none {α : Type} (auto : Bool) (f : α → Option α) (rest : List (Cmd α)) (seen scopes : Nat)
    (c w : α) (h : f w = none) :
    (exec none auto (.write f :: rest) seen scopes ⟨c, some w⟩).raised = true := by
  simp [exec, Cmd.kind, faultable, stepStmt, h]

theorem exec_commit_end {α : Type} (auto : Bool) (seen scopes : Nat) (c w : α) :
    (exec none auto [.commit] seen scopes ⟨c, some w⟩).raised = false := by
  simp [exec, Cmd.kind, faultable, stepStmt, scopesAfter]

/-- Without an injected fault the call raises exactly when one of its writes fails by itself. -/
theorem call_none_raised {α : Type} (f1 f2 f3 f4 : α → Option α) (auto : Bool) (d : α) :
    (call none auto [.begin, .write f1, .write f2, .write f3, .write f4, .commit] d).raised =
      (applyAll [f1, f2, f3, f4] d).isNone := by
  unfold call Conn.idle
  rw [exec_begin, Outcome.cons_raised]
  simp only [applyAll]
  cases h1 : f1 d with
  | none => rw [exec_write_none _ _ _ _ _ _ _ h1]; rfl
  | some d1 =>
    rw [exec_write_some _ _ _ _ _ _ _ _ h1, Outcome.cons_raised]
    simp only [Option.bind_some]
    cases h2 : f2 d1 with
    | none => rw [exec_write_none _ _ _ _ _ _ _ h2]; rfl
    | some d2 =>
      rw [exec_write_some _ _ _ _ _ _ _ _ h2, Outcome.cons_raised]
      simp only [Option.bind_some]
      cases h3 : f3 d2 with
      | none => rw [exec_write_none _ _ _ _ _ _ _ h3]; rfl
      | some d3 =>
        rw [exec_write_some _ _ _ _ _ _ _ _ h3, Outcome.cons_raised]
        simp only [Option.bind_some]
        cases h4 : f4 d3 with
        | none => rw [exec_write_none _ _ _ _ _ _ _ h4]; rfl
        | some d4 =>
          rw [exec_write_some _ _ _ _ _ _ _ _ h4, Outcome.cons_raised, exec_commit_end]
          rfl

end EngineModel.TracksV1
