import EngineModel.Pure.Waveform
import EngineModel.Gen.TrackUtilsGen

namespace EngineModel.Pure.Waveform
open EngineModel

theorem qn_eq_zero_iff (r : Nat) : qn r = 0 ↔ r < 210 := by
  unfold qn; omega

theorem qn_even (r : Nat) : qn r % 2 = 0 := by unfold qn; omega

theorem qn_le (r : Nat) : qn r ≤ r / 105 := by unfold qn; omega

/-- Ceiling division: `q * ceil(n/q)` is the least multiple of `q` that is `≥ n`. -/
theorem ceil_div_spec (n q : Nat) (hq : 0 < q) (hn : 0 < n) :
    n ≤ (n + q - 1) / q * q ∧ ((n + q - 1) / q - 1) * q < n ∧ 1 ≤ (n + q - 1) / q := by
  have h1 : (n + q - 1) / q * q ≤ n + q - 1 := Nat.div_mul_le_self _ _
  have h2 : n + q - 1 < ((n + q - 1) / q + 1) * q := by
    have := Nat.lt_mul_div_succ (n + q - 1) hq
    rw [Nat.mul_comm] at this
    exact this
  have h3 : 1 ≤ (n + q - 1) / q := by
    apply (Nat.le_div_iff_mul_le hq).mpr
    omega
  rw [Nat.add_mul] at h2
  rw [Nat.sub_mul]
  omega

end EngineModel.Pure.Waveform
