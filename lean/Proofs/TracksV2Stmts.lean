/-
`TracksV2/Stmts.lean`: the statement programs of the 2.x track calls are what
the statement-level table model (`TracksV2/Table.lean`) computes, and each is
an atomic shape.
-/
import EngineModel.TracksV2.Stmts
import Proofs.Stmts

namespace EngineModel
namespace TracksV2
open EngineModel.Spec.Txn EngineModel.Spec.Stmts EngineModel.Proofs.Stmts

theorem okTable_ok {α} (r : TDb × Res α) (a : α) (h : r.2 = .ok a) : okTable r = some r.1 := by
  unfold okTable; rw [h]

theorem okTable_bind {α β} (m : M α) (f : α → M β) (db : TDb) :
    okTable ((m >>= f) db) = match m db with
      | (d1, .ok a) => okTable (f a d1)
      | _ => none := by
  show okTable (M.bind m f db) = _
  unfold M.bind
  rcases m db with ⟨d1, r⟩
  cases r <;> simp [okTable]

theorem okTable_sel_bind {β} (id : Nat) (f : Row → M β) (db : TDb) :
    okTable ((selectRow id >>= f) db) = match db.find id with
      | some t => okTable (f t.row db)
      | none => none := by
  rw [okTable_bind]
  unfold selectRow
  cases db.find id <;> simp

theorem okTable_txn {α} (body : M α) (db : TDb) : okTable (M.transaction body db) = okTable (body db) := by
  unfold M.transaction
  rcases body db with ⟨d1, r⟩
  cases r <;> simp [okTable]

/-- two UPDATEs in a scope -/
theorem replay2 (id : Nat) (f1 f2 : Row → Row) (db d' : TDb)
    (h : okTable ((setCol id f1 >>= fun _ => setCol id f2) db) = some d') :
    applyAll (writesOf [wSetCol id f1, wSetCol id f2]) db = some d' := by
  rw [okTable_bind] at h
  simp only [writesOf, applyAll, wSetCol]
  rcases h1 : setCol id f1 db with ⟨d1, r1⟩
  rw [h1] at h
  cases r1 with
  | ok u => simp only [okTable, Option.bind] at h ⊢; rw [h]
  | throw e => simp at h
  | ub u => simp at h

theorem replay3 (id : Nat) (f1 f2 f3 : Row → Row) (db d' : TDb)
    (h : okTable ((setCol id f1 >>= fun _ => setCol id f2 >>= fun _ => setCol id f3) db) = some d') :
    applyAll (writesOf [wSetCol id f1, wSetCol id f2, wSetCol id f3]) db = some d' := by
  rw [okTable_bind] at h
  simp only [writesOf, applyAll, wSetCol]
  rcases h1 : setCol id f1 db with ⟨d1, r1⟩
  rw [h1] at h
  cases r1 with
  | ok u =>
    simp only [okTable_bind] at h
    rcases h2 : setCol id f2 d1 with ⟨d2, r2⟩
    rw [h2] at h
    cases r2 with
    | ok u2 => simp only [okTable, Option.bind, h2] at h ⊢; rw [h]
    | throw e => simp at h
    | ub u => simp at h
  | throw e => simp at h
  | ub u => simp at h

theorem single_replay (f : TDb → Option TDb) (db d' : TDb) (h : f db = some d') :
    applyAll (writesOf [Cmd.read, Cmd.write f]) db = some d' := by
  simp [writesOf, applyAll, h, Option.bind]

theorem setBody_replay (ops : FOps) (db : TDb) (id : Nat) (σ : Setter) (d' : TDb)
    (h : okTable (callSet ops id σ db) = some d') :
    applyAll (writesOf (setBody ops db id σ)) db = some d' := by
  cases σ with
  | bpm v => exact replay2 id _ _ db d' (by simpa only [callSet, okTable_txn] using h)
  | relativePath p => exact replay3 id _ _ _ db d' (by simpa only [callSet, okTable_txn] using h)
  | key v =>
    simp only [callSet] at h
    rw [okTable_txn, okTable_bind] at h
    simp only [setBody, writesOf, applyAll, wSetCol, wSelSetCol]
    rcases h1 : setCol id (fun r => { r with key := (writeKey v).1 }) db with ⟨d1, r1⟩
    rw [h1] at h
    cases r1 with
    | ok u => simp only [okTable, Option.bind] at h ⊢; rw [h]
    | throw e => simp at h
    | ub u => simp at h
  | sampleCount v =>
    simp only [callSet] at h
    rw [okTable_txn, okTable_sel_bind] at h
    cases hf : db.find id with
    | none => simp [hf] at h
    | some t =>
      simp only [hf] at h
      rw [okTable_sel_bind] at h
      simp only [hf] at h
      have := replay2 id _ _ db d' h
      simpa [setBody, hf, writesOf] using this
  | sampleRate v =>
    simp only [callSet] at h
    rw [okTable_txn, okTable_sel_bind] at h
    cases hf : db.find id with
    | none => simp [hf] at h
    | some t =>
      simp only [hf] at h
      rw [okTable_sel_bind] at h
      simp only [hf] at h
      have := replay2 id _ _ db d' h
      simpa [setBody, hf, writesOf] using this
  | album v => exact single_replay _ db d' h
  | artist v => exact single_replay _ db d' h
  | averageLoudness v => exact single_replay _ db d' h
  | beatgrid v => exact single_replay _ db d' h
  | bitrate v => exact single_replay _ db d' h
  | comment v => exact single_replay _ db d' h
  | composer v => exact single_replay _ db d' h
  | duration v => exact single_replay _ db d' h
  | genre v => exact single_replay _ db d' h
  | hotCueAt i v => exact single_replay _ db d' h
  | hotCues v => exact single_replay _ db d' h
  | lastPlayedAt v => exact single_replay _ db d' h
  | loopAt i v => exact single_replay _ db d' h
  | loops v => exact single_replay _ db d' h
  | mainCue v => exact single_replay _ db d' h
  | publisher v => exact single_replay _ db d' h
  | rating v => exact single_replay _ db d' h
  | title v => exact single_replay _ db d' h
  | trackNumber v => exact single_replay _ db d' h
  | waveform v => exact single_replay _ db d' h
  | year v => exact single_replay _ db d' h

theorem setBody_rw (ops : FOps) (db : TDb) (id : Nat) (σ : Setter) : ∀ x ∈ setBody ops db id σ, Cmd.rw x = true := by
  intro x hx
  cases σ <;> simp only [setBody] at hx <;> (try split at hx) <;>
    simp only [List.mem_cons, List.not_mem_nil, or_false] at hx <;>
    (first
      | (rcases hx with rfl | rfl | rfl | rfl <;> rfl)
      | (rcases hx with rfl | rfl | rfl <;> rfl)
      | (rcases hx with rfl | rfl <;> rfl)
      | (subst hx; rfl))

theorem topBody_rw (ops : FOps) (s : Schema) (db : TDb) (op : TOp) : ∀ x ∈ topBody ops s db op, Cmd.rw x = true := by
  cases op with
  | set id σ => exact setBody_rw ops db id σ
  | create x => intro y hy; simp only [topBody, List.mem_cons, List.not_mem_nil, or_false] at hy; subst hy; rfl
  | update id x => intro y hy; simp only [topBody, List.mem_cons, List.not_mem_nil, or_false] at hy; subst hy; rfl
  | remove id => intro y hy; simp only [topBody, List.mem_cons, List.not_mem_nil, or_false] at hy; subst hy; rfl

theorem step_set_ok (ops : FOps) (s : Schema) (db : TDb) (id : Nat) (σ : Setter) (n : Nat)
    (h : (db.step ops s (.set id σ)).2 = .ok n) : okTable (callSet ops id σ db) = some (db.step ops s (.set id σ)).1 := by
  simp only [TDb.step] at h ⊢
  show okTable (callSet ops id σ db) = some (M.bind (callSet ops id σ) (fun _ => (pure 0 : M Nat)) db).1
  have h' : (M.bind (callSet ops id σ) (fun _ => (pure 0 : M Nat)) db).2 = .ok n := h
  unfold M.bind at h' ⊢
  rcases hc : callSet ops id σ db with ⟨d1, r1⟩
  rw [hc] at h'
  cases r1 with
  | ok u => simp [okTable]; rfl
  | throw e => simp at h'
  | ub u => simp at h'

/-- **The statement program is the modelled call**: whenever the call returns normally, applying the writes of the
program in order to the prior table gives exactly the table the statement-level model returns. -/
theorem topBody_replay (ops : FOps) (s : Schema) (db : TDb) (op : TOp) (n : Nat) (h : (db.step ops s op).2 = .ok n) :
    applyAll (writesOf (topBody ops s db op)) db = some (db.step ops s op).1 := by
  cases op with
  | set id σ => exact setBody_replay ops db id σ _ (step_set_ok ops s db id σ n h)
  | create x =>
    simp only [TDb.step] at h ⊢
    simp [topBody, writesOf, applyAll, Option.bind, okTable, h]
  | update id x =>
    simp only [TDb.step] at h ⊢
    have h' : (M.bind (callUpdate ops s id x) (fun _ => (pure 0 : M Nat)) db).2 = .ok n := h
    show _ = some (M.bind (callUpdate ops s id x) (fun _ => (pure 0 : M Nat)) db).1
    unfold M.bind at h' ⊢
    rcases hc : callUpdate ops s id x db with ⟨d1, r1⟩
    rw [hc] at h'
    cases r1 with
    | ok u => simp [topBody, writesOf, applyAll, Option.bind, okTable, hc]; rfl
    | throw e => simp at h'
    | ub u => simp at h'
  | remove id =>
    have key : callRemove id db =
        if (db.rows.filter fun e => e.id == id).length = 0 then (db, .throw .invalid_argument)
        else ({ db with rows := db.rows.filter fun e => !(e.id == id) }, .ok ()) := by
      simp only [callRemove, M.transaction, Bind.bind, M.bind, M.stmt, TDb.deleteStmt, M.throw, Pure.pure, M.pure]
      by_cases hz : (db.rows.filter fun e => e.id == id).length = 0 <;> simp [hz, M.throw, M.pure]
    have hstep : db.step ops s (.remove id) = M.bind (callRemove id) (fun _ => (pure 0 : M Nat)) db := rfl
    rw [hstep] at h ⊢
    unfold M.bind at h ⊢
    rw [key] at h ⊢
    by_cases hz : (db.rows.filter fun e => e.id == id).length = 0
    · simp [hz] at h
    · simp [hz, topBody, writesOf, applyAll, Option.bind, okTable, M.stmt, TDb.deleteStmt]
      rfl

theorem topBody_one_write (ops : FOps) (s : Schema) (db : TDb) (op : TOp) (h : op.scoped = false) :
    ((topBody ops s db op).filter (·.kind == .write)).length ≤ 1 := by
  cases op with
  | create x => simp [topBody, Cmd.kind]
  | update id x => simp [topBody, Cmd.kind]
  | remove id => simp [TOp.scoped] at h
  | set id σ => cases σ <;> simp [TOp.scoped, Setter.scoped] at h <;> simp [topBody, setBody, Cmd.kind]

theorem topBody_hasWrite (ops : FOps) (s : Schema) (db : TDb) (op : TOp) (n : Nat) (h : (db.step ops s op).2 = .ok n) :
    hasWrite (topBody ops s db op) = true := by
  cases op with
  | create x => simp [topBody, hasWrite, Cmd.kind]
  | update id x => simp [topBody, hasWrite, Cmd.kind]
  | remove id => simp [topBody, hasWrite, Cmd.kind]
  | set id σ =>
    have hk := step_set_ok ops s db id σ n h
    cases σ <;> simp only [topBody, setBody] <;> (try simp [hasWrite, Cmd.kind, wSetCol, wSelSetCol])
    all_goals
      cases hf : db.find id with
      | some t => simp [hasWrite, Cmd.kind, wSetCol]
      | none =>
        exfalso
        simp only [callSet, okTable_txn, okTable_sel_bind, hf] at hk
        simp at hk

/-- every public track call of the 2.x code issues an atomic shape, on every prior table -/
theorem topStmts_atomic (ops : FOps) (s : Schema) (db : TDb) (op : TOp) : atomicShape (topShapeOf ops s op db) = true := by
  unfold topShapeOf topStmts
  cases hs : op.scoped
  · simp only [Bool.false_eq_true, if_false]
    exact atomic_flat _ (topBody_rw ops s db op) (topBody_one_write ops s db op hs)
  · simp only [if_true]
    exact atomic_txn _ (topBody_rw ops s db op)

theorem topStmts_run (ops : FOps) (s : Schema) (db : TDb) (op : TOp) (n : Nat) (auto : Bool)
    (h : (db.step ops s op).2 = .ok n) :
    (call none auto (topStmts ops s db op) db).raised = false ∧
    (call none auto (topStmts ops s db op) db).conn = Conn.idle (db.step ops s op).1 := by
  unfold topStmts
  cases hs : op.scoped
  · simp only [Bool.false_eq_true, if_false]
    exact flat_run auto _ (topBody_rw ops s db op) db _ (topBody_replay ops s db op n h)
  · simp only [if_true]
    exact txn_run auto _ (topBody_rw ops s db op) db _ (topBody_replay ops s db op n h)

theorem topStmts_skeleton (ops : FOps) (s : Schema) (db : TDb) (op : TOp) (n : Nat) (h : (db.step ops s op).2 = .ok n) :
    skeleton (topShapeOf ops s op db) = op.skeleton.kinds := by
  unfold topShapeOf topStmts TOp.skeleton
  cases hs : op.scoped
  · simp only [Bool.false_eq_true, if_false]
    unfold skeleton
    rw [skel_flat _ (topBody_rw ops s db op)]
    cases op with
    | create x => simp [topBody, Cmd.kind, Skeleton.kinds]
    | update id x => simp [topBody, Cmd.kind, Skeleton.kinds]
    | remove id => simp [TOp.scoped] at hs
    | set id σ => cases σ <;> simp [TOp.scoped, Setter.scoped] at hs <;> simp [topBody, setBody, Cmd.kind, Skeleton.kinds]
  · simp only [if_true]
    rw [skeleton_txn _ (topBody_rw ops s db op), topBody_hasWrite ops s db op n h]
    rfl

end TracksV2
end EngineModel
