/-
C15, schema 2.x tracks: no getter, setter, create / update / snapshot of the
2.x track model ends in `ub`, for any argument values, on rows whose `length`
column is readable (`rowOk`); and every operation keeps `rowOk`.
-/
import Proofs.TracksV2Main
import Proofs.TracksV2Lens
import EngineModel.Api.C15TracksV2

namespace EngineModel.Api.C15TracksV2
open EngineModel EngineModel.TracksV2

set_option linter.unusedSimpArgs false

/-- "ok or throw": never undefined behaviour. -/
def Defined {α} (r : Res α) : Prop := ∀ u, r ≠ .ub u

theorem Defined.ok {α} (a : α) : Defined (Res.ok a) := fun _ h => by cases h
theorem Defined.throw {α} (e : Exn) : Defined (Res.throw e : Res α) := fun _ h => by cases h

theorem Defined.bind {α β} {r : Res α} {f : α → Res β} (h : Defined r) (hf : ∀ a, r = .ok a → Defined (f a)) :
    Defined (r.bind f) := by
  cases r with
  | ok a => exact hf a rfl
  | throw e => exact Defined.throw e
  | ub u => exact absurd rfl (h u)

theorem bind_eq_ok {α β} {r : Res α} {f : α → Res β} {b : β} (h : r.bind f = .ok b) :
    ∃ a, r = .ok a ∧ f a = .ok b := by
  cases r with
  | ok a => exact ⟨a, rfl, h⟩
  | throw e => cases h
  | ub u => cases h

theorem defined_of_total {α} {r : Res α} (h : (∃ a, r = .ok a) ∨ (∃ e, r = .throw e)) : Defined r := by
  rcases h with ⟨a, h⟩ | ⟨e, h⟩ <;> rw [h]
  · exact Defined.ok _
  · exact Defined.throw _

/-! ### duration -/

theorem rowOk_iff (r : Row) : rowOk r = true ↔ Defined (readDuration r.length) := by
  unfold rowOk Defined
  cases readDuration r.length with
  | ok a => simp [Res.isUb]
  | throw e => simp [Res.isUb]
  | ub u => simp [Res.isUb]

theorem rowOk_of_length {r r' : Row} (h : r'.length = r.length) (hr : rowOk r = true) : rowOk r' = true := by
  unfold rowOk at *; rw [h]; exact hr

theorem rowOk_writeDuration {r : Row} (d : Option UInt64) (h : r.length = writeDuration d) : rowOk r = true := by
  unfold rowOk; rw [h, read_write_duration]; rfl

/-! ### slots at any index -/

theorem slotIndex_lt {i : UInt32} {n k : Nat} (h : slotIndex i n = .ok k) : k < n := by
  rw [slotIndex_eq] at h
  cases hs : Spec.slot i n with
  | none => rw [hs] at h; cases h
  | some k' => rw [hs] at h; cases h; exact slot_lt _ _ _ hs

theorem slotIndex_defined (i : UInt32) (n : Nat) : Defined (slotIndex i n) := by
  unfold slotIndex; split
  · exact Defined.throw _
  · exact Defined.ok _

theorem getHotCueAt_defined (r : Row) (i : UInt32) : Defined (getHotCueAt r i) := by
  unfold getHotCueAt
  refine Defined.bind (slotIndex_defined _ _) fun k hk => ?_
  rw [List.getElem?_eq_getElem (slotIndex_lt hk)]
  exact Defined.ok _

theorem getLoopAt_defined (r : Row) (i : UInt32) : Defined (getLoopAt r i) := by
  unfold getLoopAt
  refine Defined.bind (slotIndex_defined _ _) fun k hk => ?_
  rw [List.getElem?_eq_getElem (slotIndex_lt hk)]
  exact Defined.ok _

/-! ### getters -/

theorem getRow_defined (ops : FOps) (r : Row) (h : rowOk r = true) (g : Getter) : Defined (getRow ops r g) := by
  cases g <;> simp only [getRow] <;>
    first
    | exact Defined.ok _
    | exact Defined.bind ((rowOk_iff r).mp h) fun _ _ => Defined.ok _
    | exact Defined.bind (getHotCueAt_defined _ _) fun _ _ => Defined.ok _
    | exact Defined.bind (getLoopAt_defined _ _) fun _ _ => Defined.ok _

/-! ### setters -/

theorem writeWaveform_defined (ops : FOps) (w : List WEntry) (c : Option UInt64) (r : Option F) :
    Defined (writeWaveform ops w c r) := by
  have := read_write_waveform ops w c r
  split at this
  · obtain ⟨o, ho, _⟩ := this; rw [ho]; exact Defined.ok _
  · rw [this]; exact Defined.throw _

theorem putCues_defined (q : V2.Cues × Bytes) : Defined (putCues q) := by
  unfold putCues; split
  · exact Defined.ok _
  · exact Defined.throw _

theorem putLoops_defined (q : V2.Loops × Bytes) : Defined (putLoops q) := by
  unfold putLoops; split
  · exact Defined.ok _
  · exact Defined.throw _

theorem writeHotCues_defined (v : List (Option HotCue)) : Defined (writeHotCues v) := by
  unfold writeHotCues; split
  · exact Defined.throw _
  · exact Defined.ok _

theorem writeLoops_defined (v : List (Option LoopV)) : Defined (writeLoops v) := by
  unfold writeLoops; split
  · exact Defined.throw _
  · exact Defined.ok _

theorem applySetter_defined (ops : FOps) (σ : Setter) (r : Row) : Defined (applySetter ops σ r) := by
  cases σ <;> simp only [applySetter] <;>
    first
    | exact Defined.ok _
    | exact Defined.bind (slotIndex_defined _ _) fun _ _ =>
        Defined.bind (putCues_defined _) fun _ _ => Defined.ok _
    | exact Defined.bind (slotIndex_defined _ _) fun _ _ =>
        Defined.bind (putLoops_defined _) fun _ _ => Defined.ok _
    | exact Defined.bind (writeHotCues_defined _) fun _ _ =>
        Defined.bind (putCues_defined _) fun _ _ => Defined.ok _
    | exact Defined.bind (writeLoops_defined _) fun _ _ =>
        Defined.bind (putLoops_defined _) fun _ _ => Defined.ok _
    | exact Defined.bind (writeWaveform_defined _ _ _ _) fun _ _ => Defined.ok _

theorem applySetter_rowOk (ops : FOps) (σ : Setter) (r r' : Row) (h : rowOk r = true)
    (hs : applySetter ops σ r = .ok r') : rowOk r' = true := by
  cases σ <;> simp only [applySetter] at hs
  case duration v => cases hs; exact rowOk_writeDuration v rfl
  case hotCueAt i v =>
    obtain ⟨_, _, hs⟩ := bind_eq_ok hs
    obtain ⟨_, _, hs⟩ := bind_eq_ok hs
    cases hs; exact h
  case hotCues v =>
    obtain ⟨_, _, hs⟩ := bind_eq_ok hs
    obtain ⟨_, _, hs⟩ := bind_eq_ok hs
    cases hs; exact h
  case loopAt i v =>
    obtain ⟨_, _, hs⟩ := bind_eq_ok hs
    obtain ⟨_, _, hs⟩ := bind_eq_ok hs
    cases hs; exact h
  case loops v =>
    obtain ⟨_, _, hs⟩ := bind_eq_ok hs
    obtain ⟨_, _, hs⟩ := bind_eq_ok hs
    cases hs; exact h
  case waveform v =>
    obtain ⟨_, _, hs⟩ := bind_eq_ok hs
    cases hs; exact h
  all_goals (cases hs; exact h)

/-! ### create / update -/

theorem writeStore_defined (ops : FOps) (s : Schema) (x : Snap) : Defined (writeStore ops s x) :=
  defined_of_total (writeStore_total ops s x)

theorem writeStore_rowOk (ops : FOps) (s : Schema) (x : Snap) (r : Row) (h : writeStore ops s x = .ok r) :
    rowOk r = true := by
  cases hn : Spec.normalize s x with
  | none =>
    obtain ⟨e, he⟩ := writeStore_throw_of_reject ops s x hn
    rw [he] at h; cases h
  | some y =>
    have := writeRead_of_normalize ops s x y hn
    unfold writeRead at this
    rw [h] at this
    obtain ⟨d, hd, _⟩ := readSnap_ok ops r y this
    unfold rowOk; rw [hd]; rfl

/-! ### the table -/

theorem dbOk_iff (db : Db) : dbOk db = true ↔ ∀ e ∈ db.rows, rowOk e.2 = true := by
  unfold dbOk; rw [List.all_eq_true]

theorem get_mem' (db : Db) (id : Nat) (r : Row) (h : db.get id = some r) : ∃ e ∈ db.rows, e.2 = r := by
  unfold Db.get at h
  cases hf : db.rows.find? (·.1 == id) with
  | none => rw [hf] at h; cases h
  | some e =>
    rw [hf] at h
    simp only [Option.map_some, Option.some.injEq] at h
    exact ⟨e, List.mem_of_find?_eq_some hf, h⟩

theorem dbOk_get {db : Db} (hd : dbOk db = true) {id : Nat} {r : Row} (h : db.get id = some r) :
    rowOk r = true := by
  obtain ⟨e, he, rfl⟩ := get_mem' db id r h
  exact (dbOk_iff db).mp hd e he

theorem dbOk_put {db : Db} (hd : dbOk db = true) (id : Nat) {r : Row} (hr : rowOk r = true) :
    dbOk (db.put id r) = true := by
  rw [dbOk_iff] at hd ⊢
  intro e he
  unfold Db.put at he
  simp only [List.mem_map] at he
  obtain ⟨e0, he0, rfl⟩ := he
  split
  · exact hr
  · exact hd e0 he0

theorem create_defined (ops : FOps) (s : Schema) (db : Db) (x : Snap) : Defined (db.create ops s x).2 := by
  unfold Db.create
  cases hw : writeStore ops s x with
  | ok r => simp only; split <;> first | exact Defined.throw _ | exact Defined.ok _
  | throw e => exact Defined.throw _
  | ub u => exact absurd hw (writeStore_defined ops s x u)

theorem create_dbOk (ops : FOps) (s : Schema) (db : Db) (hd : dbOk db = true) (x : Snap) :
    dbOk (db.create ops s x).1 = true := by
  unfold Db.create
  cases hw : writeStore ops s x with
  | ok r =>
    simp only
    split
    · exact hd
    · rw [dbOk_iff] at hd ⊢
      intro e he
      simp only [List.mem_append, List.mem_singleton] at he
      rcases he with he | he
      · exact hd e he
      · rw [he]; exact writeStore_rowOk ops s x r hw
  | throw e => exact hd
  | ub u => exact hd

theorem update_defined (ops : FOps) (s : Schema) (db : Db) (id : Nat) (x : Snap) :
    Defined (db.update ops s id x).2 := by
  unfold Db.update
  cases hw : writeStore ops s x with
  | ok r => simp only; split <;> (try split) <;> first | exact Defined.throw _ | exact Defined.ok _
  | throw e => exact Defined.throw _
  | ub u => exact absurd hw (writeStore_defined ops s x u)

theorem update_dbOk (ops : FOps) (s : Schema) (db : Db) (hd : dbOk db = true) (id : Nat) (x : Snap) :
    dbOk (db.update ops s id x).1 = true := by
  unfold Db.update
  cases hw : writeStore ops s x with
  | ok r =>
    simp only
    split
    · exact hd
    · split
      · exact hd
      · exact dbOk_put hd id (writeStore_rowOk ops s x r hw)
  | throw e => exact hd
  | ub u => exact hd

theorem set_defined (ops : FOps) (db : Db) (id : Nat) (σ : Setter) : Defined (db.set ops id σ).2 := by
  unfold Db.set
  cases db.get id with
  | none => exact Defined.throw _
  | some r =>
    simp only
    cases hs : applySetter ops σ r with
    | ok r' => simp only; split <;> first | exact Defined.throw _ | exact Defined.ok _
    | throw e => exact Defined.throw _
    | ub u => exact absurd hs (applySetter_defined ops σ r u)

theorem set_dbOk (ops : FOps) (db : Db) (hd : dbOk db = true) (id : Nat) (σ : Setter) :
    dbOk (db.set ops id σ).1 = true := by
  unfold Db.set
  cases hg : db.get id with
  | none => exact hd
  | some r =>
    simp only
    cases hs : applySetter ops σ r with
    | ok r' =>
      simp only
      split
      · exact hd
      · exact dbOk_put hd id (applySetter_rowOk ops σ r r' (dbOk_get hd hg) hs)
    | throw e => exact hd
    | ub u => exact hd

theorem snapshot_defined (ops : FOps) (db : Db) (hd : dbOk db = true) (id : Nat) :
    Defined (db.snapshot ops id) := by
  unfold Db.snapshot
  cases hg : db.get id with
  | none => exact Defined.throw _
  | some r =>
    simp only
    rw [readSnap_eq]
    exact Defined.bind ((rowOk_iff r).mp (dbOk_get hd hg)) fun _ _ => Defined.ok _

theorem lift_defined {α} (db : Db) (r : Res α) (f : α → Out) (h : Defined r) : Defined (lift db r f).2 := by
  unfold lift
  cases hr : r with
  | ok a => exact Defined.ok _
  | throw e => exact Defined.throw _
  | ub u => exact absurd hr (h u)

theorem lift_fst {α} (db : Db) (r : Res α) (f : α → Out) : (lift db r f).1 = db := by
  unfold lift; cases r <;> rfl

theorem remove_defined (db : Db) (id : Nat) : Defined (remove db id).2 := by
  unfold remove; split
  · exact Defined.ok _
  · exact Defined.throw _

theorem remove_dbOk (db : Db) (hd : dbOk db = true) (id : Nat) : dbOk (remove db id).1 = true := by
  unfold remove; split
  · rw [dbOk_iff] at hd ⊢
    intro e he
    exact hd e (List.mem_filter.mp he).1
  · exact hd

theorem step_defined (ops : FOps) (s : Schema) (db : Db) (hd : dbOk db = true) (op : Op) :
    Defined (step ops s db op).2 := by
  cases op with
  | create x => exact lift_defined _ _ _ (create_defined ops s db x)
  | update id x =>
    simp only [step]
    cases db.get id with
    | some r => exact lift_defined _ _ _ (update_defined ops s db id x)
    | none => exact lift_defined _ _ _ (update_defined ops s db id x)
  | snapshot id => exact lift_defined _ _ _ (snapshot_defined ops db hd id)
  | get id g =>
    simp only [step]
    cases hg : db.get id with
    | some r => exact lift_defined _ _ _ (getRow_defined ops r (dbOk_get hd hg) g)
    | none => exact Defined.throw _
  | set id σ => exact lift_defined _ _ _ (set_defined ops db id σ)
  | remove id => exact lift_defined _ _ _ (remove_defined db id)
  | isValid id => exact Defined.ok _
  | handleId id => exact Defined.ok _
  | handleCopy id => exact Defined.ok _

theorem step_dbOk (ops : FOps) (s : Schema) (db : Db) (hd : dbOk db = true) (op : Op) :
    dbOk (step ops s db op).1 = true := by
  cases op with
  | create x => simp only [step, lift_fst]; exact create_dbOk ops s db hd x
  | update id x =>
    simp only [step]
    cases db.get id with
    | some r => simp only [lift_fst]; exact update_dbOk ops s db hd id x
    | none => simp only [lift_fst]; exact update_dbOk ops s db hd id x
  | snapshot id => simp only [step, lift_fst]; exact hd
  | get id g =>
    simp only [step]
    cases db.get id with
    | some r => simp only [lift_fst]; exact hd
    | none => exact hd
  | set id σ => simp only [step, lift_fst]; exact set_dbOk ops db hd id σ
  | remove id => simp only [step, lift_fst]; exact remove_dbOk db hd id
  | isValid id => exact hd
  | handleId id => exact hd
  | handleCopy id => exact hd

theorem outcomes_defined (ops : FOps) (s : Schema) (l : List Op) :
    ∀ db, dbOk db = true → ∀ r ∈ outcomes ops s db l, Defined r := by
  induction l with
  | nil => intro db _ r hr; cases hr
  | cons op t ih =>
    intro db hd r hr
    simp only [outcomes, List.mem_cons] at hr
    rcases hr with h | h
    · rw [h]; exact step_defined ops s db hd op
    · exact ih _ (step_dbOk ops s db hd op) r h

/-! ### removed tracks -/

theorem get_after_remove (db : Db) (id : Nat) : (remove db id).1.get id = none := by
  unfold remove
  split
  · unfold Db.get
    rw [List.find?_filter]
    have : ∀ (p : Nat × Row → Bool), (∀ e, p e = false) → db.rows.find? p = none := by
      intro p hp
      apply List.find?_eq_none.mpr
      intro e _
      rw [hp e]; exact Bool.false_ne_true
    rw [this]
    · rfl
    · intro e
      cases e.1 == id <;> simp
  · rename_i h
    unfold isValid at h
    cases hg : db.get id with
    | none => rfl
    | some r => rw [hg] at h; simp at h

end EngineModel.Api.C15TracksV2
