/-
The INPUT-chunking decision of `zlib_compress` (encode_decode_utils.cpp): which
`deflate()` call gets which window and which flush mode, as a function of the
payload length and the chunk size alone.

    if (ptr + chunk_size < end) { avail_in = chunk_size; flush = Z_NO_FLUSH; }
    else                        { avail_in = end - ptr;  flush = Z_FINISH;   }
    …
    } while (flush != Z_FINISH);

`chunkPlan n` is that decision written out as the list of windows of the outer
loop for a payload of `n` bytes.  `compress_sched` proves — for EVERY oracle,
every payload and every fuel, no contract needed, this is control flow only —
that whenever the Model of the loops returns, its call log is exactly that plan,
window by window: a non-empty run of calls per window, each run carrying the
window's flush mode, the first call of a run seeing the whole window, every call
but the last of a run having filled the output buffer.  Consequences:

 * the `Z_FINISH` calls are exactly the calls of the LAST window, for every
   payload length — 0, 1, exact multiples of the chunk size included
   (`compress_finish_only_last`);
 * the last window holds `finalChunkLen n` bytes: `n` itself up to one chunk,
   and a FULL chunk when `n` is a non-zero exact multiple of the chunk size
   (`finalChunkLen_mul`) — the case in which "a chunk is final iff it is short"
   is wrong;
 * the variant of the loops that keeps a `remaining` byte counter, marks a chunk
   final only when it is shorter than the chunk size and leaves on
   `remaining > 0` (`cloopRem`) never issues `Z_FINISH` for such a payload
   (`compress_remaining_counter_counterexample`).
-/
import Proofs.ZlibCompressLoop
set_option linter.unusedVariables false

namespace EngineModel.Impl.Zlib

/-! ### the plan -/

/-- The windows of the outer loop for `n` payload bytes still ahead of `ptr`:
`(flush, avail_in)` per iteration. -/
def chunkPlan (n : Nat) : List (Flush × Nat) :=
  if h : chunk < n then (Flush.noFlush, chunk) :: chunkPlan (n - chunk) else [(Flush.finish, n)]
termination_by n
decreasing_by
  have : 0 < chunk := by decide
  omega

theorem chunkPlan_more {n : Nat} (h : chunk < n) :
    chunkPlan n = (Flush.noFlush, chunk) :: chunkPlan (n - chunk) := by
  rw [chunkPlan]; simp [h]

theorem chunkPlan_last {n : Nat} (h : ¬ chunk < n) : chunkPlan n = [(Flush.finish, n)] := by
  rw [chunkPlan]; simp [h]

/-- Bytes in the final (`Z_FINISH`) window of an `n`-byte payload. -/
def finalChunkLen (n : Nat) : Nat := n - chunk * ((n - 1) / chunk)

/-- Number of full `Z_NO_FLUSH` windows before the final one. -/
def fullChunks (n : Nat) : Nat := (n - 1) / chunk

/-- The plan in closed form: `(n − 1) / chunk` full `Z_NO_FLUSH` windows, then one `Z_FINISH`
window holding the rest. -/
theorem chunkPlan_eq (n : Nat) :
    chunkPlan n = List.replicate (fullChunks n) (Flush.noFlush, chunk) ++ [(Flush.finish, finalChunkLen n)] := by
  have hc : chunk = 16384 := rfl
  induction n using Nat.strongRecOn with
  | _ n ih =>
    by_cases h : chunk < n
    · rw [chunkPlan_more h, ih (n - chunk) (by omega)]
      have h1 : fullChunks n = fullChunks (n - chunk) + 1 := by
        unfold fullChunks
        have : n - 1 = (n - chunk - 1) + chunk := by omega
        rw [this, Nat.add_div_right _ (by omega)]
      have h2 : finalChunkLen n = finalChunkLen (n - chunk) := by
        unfold finalChunkLen
        have h1' : (n - 1) / chunk = (n - chunk - 1) / chunk + 1 := h1
        rw [h1', Nat.mul_add]
        have := Nat.div_mul_le_self (n - chunk - 1) chunk
        rw [Nat.mul_comm] at this
        omega
      rw [h1, h2, List.replicate_succ, List.cons_append]
    · rw [chunkPlan_last h]
      have h1 : fullChunks n = 0 := by
        unfold fullChunks
        exact Nat.div_eq_of_lt (by omega)
      have h2 : finalChunkLen n = n := by
        unfold finalChunkLen
        have : (n - 1) / chunk = 0 := h1
        rw [this]; omega
      rw [h1, h2]; rfl

/-- The final window of a non-zero exact multiple of the chunk size is a FULL chunk. -/
theorem finalChunkLen_mul (k : Nat) (hk : 0 < k) : finalChunkLen (k * chunk) = chunk := by
  have hc : chunk = 16384 := rfl
  unfold finalChunkLen
  obtain ⟨j, rfl⟩ : ∃ j, k = j + 1 := ⟨k - 1, by omega⟩
  have : ((j + 1) * chunk - 1) / chunk = j := by
    have h1 : (j + 1) * chunk - 1 = j * chunk + (chunk - 1) := by
      rw [Nat.succ_mul]; omega
    rw [h1, Nat.add_comm, Nat.add_mul_div_right _ _ (by omega), Nat.div_eq_of_lt (by omega)]
    omega
  rw [this, Nat.succ_mul, Nat.mul_comm chunk]
  omega

theorem fullChunks_mul (k : Nat) (hk : 0 < k) : fullChunks (k * chunk) = k - 1 := by
  have hc : chunk = 16384 := rfl
  unfold fullChunks
  obtain ⟨j, rfl⟩ : ∃ j, k = j + 1 := ⟨k - 1, by omega⟩
  have h1 : (j + 1) * chunk - 1 = j * chunk + (chunk - 1) := by
    rw [Nat.succ_mul]; omega
  rw [h1, Nat.add_comm, Nat.add_mul_div_right _ _ (by omega), Nat.div_eq_of_lt (by omega)]
  omega

/-- … so an exact multiple `k · chunk` (k ≥ 1) is `k − 1` `Z_NO_FLUSH` windows and a full
`Z_FINISH` window; one byte more makes it `k` and a 1-byte window; one byte less leaves a
window one byte short. -/
theorem chunkPlan_mul (k : Nat) (hk : 0 < k) :
    chunkPlan (k * chunk) = List.replicate (k - 1) (Flush.noFlush, chunk) ++ [(Flush.finish, chunk)] := by
  rw [chunkPlan_eq, fullChunks_mul k hk, finalChunkLen_mul k hk]

theorem chunkPlan_mul_succ (k : Nat) (hk : 0 < k) :
    chunkPlan (k * chunk + 1) = List.replicate k (Flush.noFlush, chunk) ++ [(Flush.finish, 1)] := by
  have hc : chunk = 16384 := rfl
  rw [chunkPlan_eq]
  have h1 : fullChunks (k * chunk + 1) = k := by
    unfold fullChunks
    simp only [Nat.add_sub_cancel]
    exact Nat.mul_div_cancel k (by omega)
  have h2 : finalChunkLen (k * chunk + 1) = 1 := by
    unfold finalChunkLen
    have : (k * chunk + 1 - 1) / chunk = k := h1
    rw [this, Nat.mul_comm]; omega
  rw [h1, h2]

theorem chunkPlan_mul_pred (k : Nat) (hk : 0 < k) :
    chunkPlan (k * chunk - 1) =
      List.replicate (k - 1) (Flush.noFlush, chunk) ++ [(Flush.finish, chunk - 1)] := by
  have hc : chunk = 16384 := rfl
  rw [chunkPlan_eq]
  have hk' : k * chunk = (k - 1) * chunk + chunk := by
    have : k = (k - 1) + 1 := by omega
    rw [this, Nat.add_mul]; simp
  have h1 : fullChunks (k * chunk - 1) = k - 1 := by
    unfold fullChunks
    have : k * chunk - 1 - 1 = (k - 1) * chunk + (chunk - 2) := by omega
    rw [this, Nat.add_comm, Nat.add_mul_div_right _ _ (by omega), Nat.div_eq_of_lt (by omega)]
    omega
  have h2 : finalChunkLen (k * chunk - 1) = chunk - 1 := by
    unfold finalChunkLen
    have : (k * chunk - 1 - 1) / chunk = k - 1 := h1
    rw [this, Nat.mul_comm chunk]; omega
  rw [h1, h2]

example : chunkPlan 0 = [(.finish, 0)] := by rw [chunkPlan_last (by decide)]
example : chunkPlan 1 = [(.finish, 1)] := by rw [chunkPlan_last (by decide)]
example : chunkPlan 16384 = [(.finish, 16384)] := by rw [chunkPlan_last (by decide)]
example : chunkPlan 16385 = [(.noFlush, 16384), (.finish, 1)] := by
  rw [chunkPlan_more (by decide), chunkPlan_last (by decide)]; rfl
example : chunkPlan 32768 = [(.noFlush, 16384), (.finish, 16384)] := by
  rw [chunkPlan_more (by decide), chunkPlan_last (by decide)]; rfl

/-- The plan hands out every payload byte exactly once. -/
theorem chunkPlan_sum (n : Nat) : ((chunkPlan n).map (·.2)).sum = n := by
  induction n using Nat.strongRecOn with
  | _ n ih =>
    by_cases h : chunk < n
    · rw [chunkPlan_more h, List.map_cons, List.sum_cons, ih (n - chunk) (by
        have : 0 < chunk := by decide
        omega)]
      show chunk + (n - chunk) = n
      omega
    · rw [chunkPlan_last h]; simp

/-! ### the log follows the plan -/

/-- The calls of one inner loop over a window of `a` bytes with flush mode `f`: at least one
call; each carries `f`; the first sees `a` bytes, each next one what the previous left; every
call but the last filled the output buffer, the last did not. -/
inductive Run (f : Flush) : Nat → List DCall → Prop
  | last (a : Nat) (d : DCall) :
      d.flush = f → d.availIn = a → d.out.length ≠ chunk → Run f a [d]
  | more (a : Nat) (d : DCall) (rest : List DCall) :
      d.flush = f → d.availIn = a → d.out.length = chunk → Run f (a - d.consumed) rest →
      Run f a (d :: rest)

/-- A call log that follows a plan window by window. -/
inductive Sched : List (Flush × Nat) → List DCall → Prop
  | nil : Sched [] []
  | window (f : Flush) (a : Nat) (plan : List (Flush × Nat)) (run rest : List DCall) :
      Run f a run → Sched plan rest → Sched ((f, a) :: plan) (run ++ rest)

theorem Run.ne_nil {f a l} (h : Run f a l) : l ≠ [] := by cases h <;> simp

theorem Run.all_flush {f a l} (h : Run f a l) : ∀ d ∈ l, d.flush = f := by
  induction h with
  | last a d hf _ _ => intro x hx; simp at hx; subst hx; exact hf
  | more a d rest hf _ _ _ ih =>
    intro x hx
    simp only [List.mem_cons] at hx
    rcases hx with rfl | hx
    · exact hf
    · exact ih x hx

theorem Run.head_availIn {f a l} (h : Run f a l) : ∃ d, l.head? = some d ∧ d.availIn = a := by
  cases h with
  | last a d _ ha _ => exact ⟨d, rfl, ha⟩
  | more a d rest _ ha _ _ => exact ⟨d, rfl, ha⟩

/-- Position of the loops → the plan still ahead. -/
def planAhead (len ptr : Nat) : CPhase → List (Flush × Nat)
  | .outer => chunkPlan (len - ptr)
  | .inner _ .noFlush => chunkPlan (len - ptr)
  | .inner _ .finish => []

/-- Control flow only: from any position, whatever the oracle answers, if the loops return
then the calls they made from here on are the rest of the current window's run followed by a
log that follows the plan for the bytes still ahead. -/
theorem cloop_sched {σ} (o : DOracle σ) (buf : Bytes) :
    ∀ (fuel : Nat) (s : σ) (ptr : Nat) (ph : CPhase) (acc : Bytes) (log : List DCall)
      (acc' : Bytes) (log' : List DCall),
      cloop o buf fuel s ptr ph acc log = .ok (acc', log') →
      ∃ calls, log' = log.reverse ++ calls ∧
        match ph with
        | .outer => Sched (chunkPlan (buf.length - ptr)) calls
        | .inner win f => ∃ run rest, calls = run ++ rest ∧ Run f win.length run ∧
            Sched (planAhead buf.length ptr (.inner win f)) rest := by
  intro fuel
  induction fuel with
  | zero => intro s ptr ph acc log acc' log' h; simp [cloop] at h
  | succ fuel ih =>
    intro s ptr ph acc log acc' log' h
    cases ph with
    | outer =>
      simp only [cloop] at h
      by_cases hmore : ptr + chunk < buf.length
      · simp only [hmore, decide_true, if_true] at h
        obtain ⟨calls, h1, run, rest, h2, h3, h4⟩ := ih _ _ _ _ _ _ _ h
        refine ⟨calls, h1, ?_⟩
        have hwl : ((buf.drop ptr).take chunk).length = chunk := by
          simp only [List.length_take, List.length_drop]; omega
        rw [chunkPlan_more (by omega), h2]
        rw [hwl] at h3
        refine Sched.window _ _ _ _ _ h3 ?_
        simp only [planAhead] at h4
        have : buf.length - (ptr + chunk) = buf.length - ptr - chunk := by omega
        rw [this] at h4
        exact h4
      · simp only [hmore, decide_false, if_false, Bool.false_eq_true] at h
        obtain ⟨calls, h1, run, rest, h2, h3, h4⟩ := ih _ _ _ _ _ _ _ h
        refine ⟨calls, h1, ?_⟩
        have hwl : ((buf.drop ptr).take (buf.length - ptr)).length = buf.length - ptr := by
          simp only [List.length_take, List.length_drop]; omega
        rw [chunkPlan_last (by omega), h2]
        rw [hwl] at h3
        exact Sched.window _ _ _ _ _ h3 h4
    | inner win flush =>
      rw [cloop] at h
      generalize hr : o.step s win chunk flush = r at h
      obtain ⟨ret, consumed, out, s'⟩ := r
      dsimp only at h
      by_cases hfull : out.length = chunk
      · simp only [hfull, if_true] at h
        obtain ⟨calls, h1, run, rest, h2, h3, h4⟩ := ih _ _ _ _ _ _ _ h
        refine ⟨⟨flush, win.length, consumed, out, ret⟩ :: calls, ?_, ?_⟩
        · rw [h1]; simp
        · refine ⟨⟨flush, win.length, consumed, out, ret⟩ :: run, rest, by rw [h2]; rfl, ?_, ?_⟩
          · refine Run.more _ _ _ rfl rfl hfull ?_
            simpa [List.length_drop] using h3
          · cases flush <;> simpa [planAhead] using h4
      · simp only [hfull, if_false] at h
        cases flush with
        | finish =>
          simp only [if_true, Res.ok.injEq, Prod.mk.injEq] at h
          obtain ⟨_, h⟩ := h
          refine ⟨[⟨.finish, win.length, consumed, out, ret⟩], ?_, ?_⟩
          · rw [← h]; simp
          · exact ⟨[_], [], rfl, Run.last _ _ rfl rfl hfull, Sched.nil⟩
        | noFlush =>
          simp only [reduceCtorEq, if_false] at h
          obtain ⟨calls, h1, h2⟩ := ih _ _ _ _ _ _ _ h
          refine ⟨⟨.noFlush, win.length, consumed, out, ret⟩ :: calls, ?_, ?_⟩
          · rw [h1]; simp
          · exact ⟨[_], calls, rfl, Run.last _ _ rfl rfl hfull, h2⟩

/-- `zlib_compress`, every oracle, every payload length, every fuel: if the Model returns,
the recorded calls follow `chunkPlan (payload length)`. -/
theorem compress_sched {σ} (o : DOracle σ) (s0 : σ) (fuel : Nat) (buf : Bytes)
    (blob : Bytes) (log : List DCall) (h : compress o s0 fuel buf = .ok (blob, log)) :
    Sched (chunkPlan buf.length) log := by
  unfold compress at h
  split at h
  · simp at h
  cases hc : cloop o buf fuel s0 0 .outer [] [] with
  | ok p =>
    obtain ⟨acc, lg⟩ := p
    rw [hc] at h
    simp only [Res.ok.injEq, Prod.mk.injEq] at h
    obtain ⟨_, rfl⟩ := h
    obtain ⟨calls, h1, h2⟩ := cloop_sched o buf fuel s0 0 .outer [] [] acc lg hc
    simp only [List.reverse_nil, List.nil_append] at h1
    subst h1
    simpa using h2
  | throw e => rw [hc] at h; simp at h
  | ub u => rw [hc] at h; simp at h

/-! ### consequences -/

theorem Sched.append_last {plan : List (Flush × Nat)} {f a} {log : List DCall}
    (h : Sched (plan ++ [(f, a)]) log) :
    ∃ pre fin, log = pre ++ fin ∧ Sched plan pre ∧ Run f a fin := by
  induction plan generalizing log with
  | nil =>
    cases h with
    | window f a plan run rest hr hs =>
      cases hs
      exact ⟨[], run, by simp, Sched.nil, hr⟩
  | cons p plan ih =>
    obtain ⟨pf, pa⟩ := p
    cases h with
    | window f' a' plan' run rest hr hs =>
      obtain ⟨pre, fin, h1, h2, h3⟩ := ih hs
      exact ⟨run ++ pre, fin, by rw [h1, List.append_assoc], Sched.window _ _ _ _ _ hr h2, h3⟩

theorem Sched.all_flush_replicate {k : Nat} {f : Flush} {a : Nat} {log : List DCall}
    (h : Sched (List.replicate k (f, a)) log) : ∀ d ∈ log, d.flush = f := by
  induction k generalizing log with
  | zero => cases h; simp
  | succ k ih =>
    rw [List.replicate_succ] at h
    cases h with
    | window f' a' plan run rest hr hs =>
      intro d hd
      rcases List.mem_append.mp hd with hd | hd
      · exact hr.all_flush d hd
      · exact ih hs d hd

/-- **The last window, and only the last window, carries `Z_FINISH` — for every payload
length.**  If `zlib_compress` returns, its call log splits as `pre ++ fin`: every call of
`pre` is a `Z_NO_FLUSH` call, `fin` is the (non-empty) run of `Z_FINISH` calls over the final
window, whose first call is handed exactly `finalChunkLen n` bytes — `n` for `n ≤ chunk`
(0 and 1 included), a full chunk for a non-zero exact multiple of the chunk size. -/
theorem compress_finish_only_last {σ} (o : DOracle σ) (s0 : σ) (fuel : Nat) (buf : Bytes)
    (blob : Bytes) (log : List DCall) (h : compress o s0 fuel buf = .ok (blob, log)) :
    ∃ pre fin, log = pre ++ fin ∧
      (∀ d ∈ pre, d.flush = .noFlush) ∧ (∀ d ∈ fin, d.flush = .finish) ∧ fin ≠ [] ∧
      Sched (List.replicate (fullChunks buf.length) (.noFlush, chunk)) pre ∧
      Run .finish (finalChunkLen buf.length) fin ∧
      ∃ d, fin.head? = some d ∧ d.availIn = finalChunkLen buf.length := by
  have hs := compress_sched o s0 fuel buf blob log h
  rw [chunkPlan_eq] at hs
  obtain ⟨pre, fin, h1, h2, h3⟩ := hs.append_last
  exact ⟨pre, fin, h1, h2.all_flush_replicate, h3.all_flush, h3.ne_nil, h2, h3, h3.head_availIn⟩

/-- In particular the very last call is a `Z_FINISH` call and no `Z_FINISH` call is followed
by a `Z_NO_FLUSH` call (control flow only; that it answers `Z_STREAM_END` needs the contract:
`compress_complete`). -/
theorem compress_last_is_finish {σ} (o : DOracle σ) (s0 : σ) (fuel : Nat) (buf : Bytes)
    (blob : Bytes) (log : List DCall) (h : compress o s0 fuel buf = .ok (blob, log)) :
    ∃ d, log.getLast? = some d ∧ d.flush = .finish := by
  obtain ⟨pre, fin, h1, _, h3, h4, _⟩ := compress_finish_only_last o s0 fuel buf blob log h
  subst h1
  obtain ⟨d, hd⟩ : ∃ d, fin.getLast? = some d := by
    cases hf : fin.getLast? with
    | none => rw [List.getLast?_eq_none_iff] at hf; exact absurd hf h4
    | some d => exact ⟨d, rfl⟩
  refine ⟨d, ?_, h3 d (List.mem_of_getLast? hd)⟩
  rw [List.getLast?_append, hd]; rfl

/-! ### "a chunk is final iff it is short" is the wrong decision -/

/-- The loops with a `remaining` byte counter: `avail_in = min(remaining, chunk)`, the chunk is
final (`Z_FINISH`) only when it is SHORTER than the chunk size, and the outer loop repeats
`while (remaining > 0)`. -/
def cloopRem {σ} (o : DOracle σ) (buf : Bytes) :
    Nat → σ → Nat → CPhase → Bytes → List DCall → Res (Bytes × List DCall)
  | 0, _, _, _, _, _ => .ub .nontermination
  | fuel + 1, s, ptr, .outer, acc, log =>
    let remaining := buf.length - ptr
    let avail := if remaining < chunk then remaining else chunk
    let flush := if avail < chunk then Flush.finish else Flush.noFlush
    cloopRem o buf fuel s (ptr + avail) (.inner ((buf.drop ptr).take avail) flush) acc log
  | fuel + 1, s, ptr, .inner win flush, acc, log =>
    match o.step s win chunk flush with
    | (ret, consumed, out, s') =>
      let acc' := acc ++ out
      let log' := (⟨flush, win.length, consumed, out, ret⟩ : DCall) :: log
      if out.length = chunk then cloopRem o buf fuel s' ptr (.inner (win.drop consumed) flush) acc' log'
      else if buf.length - ptr > 0 then cloopRem o buf fuel s' ptr .outer acc' log'   -- while (remaining > 0)
      else .ok (acc', log'.reverse)

/-- On a payload of exactly one chunk, with an oracle honouring the whole contract
(`storeContract`), the changed loops return without a single `Z_FINISH` call: the one full
chunk is deflated with `Z_NO_FLUSH`, `remaining` reaches 0 and the loop leaves.  (The unchanged
loops issue `Z_FINISH` on the same input: `compress_finish_only_last`, `chunkPlan_mul`.) -/
theorem compress_remaining_counter_counterexample (fuel : Nat) :
    ∃ acc log, cloopRem storeOracle (List.replicate chunk 0) (fuel + 3) () 0 .outer [] []
        = .ok (acc, log) ∧
      (∀ d ∈ log, d.flush = .noFlush) ∧ (log.map (·.consumed)).sum = chunk ∧
      ∀ d ∈ log, d.ret ≠ .streamEnd := by
  refine ⟨List.replicate chunk 0,
    [⟨.noFlush, chunk, chunk, List.replicate chunk 0, .ok⟩, ⟨.noFlush, 0, 0, [], .ok⟩], ?_, ?_, ?_, ?_⟩
  · have h0 : chunk ≠ 0 := by decide
    have h1 : ¬ (0 = chunk) := by decide
    simp [cloopRem, storeOracle, h1]
  · intro d hd; simp at hd; rcases hd with rfl | rfl <;> rfl
  · simp
  · intro d hd; simp at hd; rcases hd with rfl | rfl <;> simp

/-- … whereas one byte less or one byte more takes the same path as the unchanged loops (the
last chunk is short), which is why only exact multiples expose the change. -/
example : (if (1 : Nat) < chunk then Flush.finish else Flush.noFlush) = .finish := by decide

end EngineModel.Impl.Zlib
