/-
C11, per-track derived columns of schema 1.x: whatever `create_track` / `track::update`
(model `TracksV1.writeSnap`, the only statements that write `Track.path`) store,
`Track.filename` is the file-name part of `Track.path` and the MetaData text row of
type 13 (file extension) is the extension of that file name.
-/
import EngineModel.TracksV1.Model

namespace EngineModel.TracksV1
open Fl (FOps)

theorem Res.bind_eq_ok {α β} {x : Res α} {f : α → Res β} {b : β} (h : x.bind f = .ok b) :
    ∃ a, x = .ok a ∧ f a = .ok b := by
  cases x with
  | ok a => exact ⟨a, rfl, h⟩
  | throw e => cases h
  | ub u => cases h

theorem aget_asetMany_other {β} (k : Int) : ∀ (kvs l : List (Int × β)), (∀ kv ∈ kvs, kv.1 ≠ k) →
    aget k (asetMany kvs l) = aget k l := by
  intro kvs
  induction kvs with
  | nil => intro l _; rfl
  | cons kv kvs ih =>
    intro l h
    show aget k (asetMany kvs (aset kv.1 kv.2 l)) = _
    rw [ih _ (fun x hx => h x (List.mem_cons_of_mem _ hx))]
    exact aget_aset_other kv.1 k kv.2 l (fun e => h kv (by simp) e.symm)

theorem asetMany_append {β} (a b l : List (Int × β)) : asetMany (a ++ b) l = asetMany b (asetMany a l) := by
  unfold asetMany; rw [List.foldl_append]

theorem aget_asetMany_mid {β} (k : Int) (v : β) (pre post l : List (Int × β)) (hpost : ∀ kv ∈ post, kv.1 ≠ k) :
    aget k (asetMany (pre ++ (k, v) :: post) l) = some v := by
  rw [asetMany_append]
  show aget k (asetMany post (aset k v (asetMany pre l))) = some v
  rw [aget_asetMany_other k post _ hpost, aget_aset_same]

theorem aget_ext_metaBulk (s : Schema) (x : Snap) (mm ep ext : Option Bytes) (l : List (Int × Option Bytes)) :
    aget 13 (asetMany (metaBulk s x mm ep ext) l) = some ext := by
  have e : metaBulk s x mm ep ext =
      [(1, x.title), (2, x.artist), (3, x.album), (4, x.genre), (5, x.comment), (6, x.publisher),
       (7, x.composer), (8, none), (9, none), (10, mm), (12, ep)] ++
      (13, ext) :: ([(15, oneText), (16, oneText)] ++ (if s.ge .s1_15_0 then [(17, none)] else [])) := by
    unfold metaBulk; simp
  rw [e]
  apply aget_asetMany_mid
  intro kv hkv
  rw [List.mem_append] at hkv
  rcases hkv with hkv | hkv
  · simp only [List.mem_cons, List.mem_nil_iff, or_false] at hkv
    rcases hkv with rfl | rfl <;> decide
  · split at hkv
    · simp only [List.mem_cons, List.mem_nil_iff, or_false] at hkv
      subst hkv; decide
    · cases hkv

/-- Every successful `create_track` / `update` leaves filename and extension in agreement with the path. -/
theorem writeSnap_derived_columns (o : FOps) (s : Schema) (x : Snap) (prior : Option TrackRows) (rows : TrackRows)
    (h : writeSnap o s x prior = .ok rows) :
    ∃ p, x.relativePath = some p ∧ rows.track.path = some p ∧ rows.track.filename = some (getFilename p) ∧
      aget 13 rows.mstr = some (getExtension (getFilename p)) := by
  unfold writeSnap at h
  cases hp : x.relativePath with
  | none => rw [hp] at h; cases h
  | some p =>
    rw [hp] at h
    simp only at h
    obtain ⟨a1, _, h⟩ := Res.bind_eq_ok h
    obtain ⟨a2, _, h⟩ := Res.bind_eq_ok h
    obtain ⟨a3, _, h⟩ := Res.bind_eq_ok h
    obtain ⟨a4, _, h⟩ := Res.bind_eq_ok h
    obtain ⟨a5, _, h⟩ := Res.bind_eq_ok h
    obtain ⟨a6, _, h⟩ := Res.bind_eq_ok h
    obtain ⟨a7, _, h⟩ := Res.bind_eq_ok h
    obtain ⟨a8, _, h⟩ := Res.bind_eq_ok h
    injection h with h
    subst h
    refine ⟨p, rfl, rfl, rfl, ?_⟩
    unfold assemble
    simp only
    apply aget_ext_metaBulk

end EngineModel.TracksV1
