/-
The beat-grid normalisation REGENERATED from the C++ source (`Gen.Beatgrid.normalize`,
tools/tr_beatgrid.py, rewritten on every run) is the hand model `Pure.Beatgrid.normalize` —
for EVERY arithmetic `Num α` (so for the hardware-`Float` instance the driver runs and for the
exact rationals of the C20 theorems at once).

The regenerated function is more literal than the hand model in two places, hence the two
hypotheses of `normalizeGen_eq_partial` (both explicit and decidable on concrete grids):
  * `Idx32 g`  — `beatgrid[last].index = static_cast<int32_t>(last_index)` is a modular
    conversion in the source; it is the identity because `last_index ≤ INT32_MAX` (the guard
    before it) and `last_index >` an `int` index of the grid;
  * `g.length ≤ 2^31` — `int32_t last = static_cast<int32_t>(beatgrid.size() - 1)`.
The full statement (no hypotheses) is false only for grids no caller can build (beat indices
that are not `int` values, 2^31 + 1 markers of 16 bytes each): the regenerated function then
indexes with a wrapped `last` (`ub oob_index`) where the hand model carries on.

The proofs unfold the regenerated blocks; a change of the C++ that changes the translation
breaks them (that is their purpose).  No Mathlib.
-/
import EngineModel.Gen.BeatgridGen
import Proofs.BeatgridGen

namespace EngineModel.Pure.Beatgrid
open EngineModel EngineModel.Gen.Beatgrid

variable {α : Type}

set_option linter.unusedSimpArgs false

-- the modular conversions are only ever rewritten by explicit lemmas below; keeping the unifier from
-- unfolding them (`% 2^64` on symbolic lengths) makes a proof that no longer applies fail in seconds
attribute [local irreducible] Cxx.U64.sub Cxx.U64.add Cxx.U64.mul Cxx.u64OfInt Cxx.i64OfU64 Vec.wrapI32

-- a proof that no longer goes through must fail quickly (the check reports it), not after minutes
set_option maxHeartbeats 16000

/-- Close a goal between two `Res` computations that differ by monad steps only.  Deliberately
weak (no definitional unfolding): when the regenerated code differs, it fails at once. -/
macro "res_rfl" : tactic =>
  `(tactic| first | with_reducible rfl
                  | (simp only [Res.bind_ok, Res.bind_throw, Res.bind_ub, Res.pure_eq]; done))

/-! ### vocabulary lemmas -/

theorem Vec.get_of_getElem? {v : List (Marker α)} {i : Nat} {m : Marker α} (h : v[i]? = some m) :
    Vec.get v i = .ok m := by
  unfold Vec.get; rw [h]

theorem Vec.setOff_of_getElem? {v : List (Marker α)} {i : Nat} {m : Marker α} (x : α)
    (h : v[i]? = some m) : Vec.setOff v i x = .ok (v.set i { m with off := x }) := by
  unfold Vec.setOff; rw [h]

theorem Vec.setIndex_of_getElem? {v : List (Marker α)} {i : Nat} {m : Marker α} (x : Int)
    (h : v[i]? = some m) : Vec.setIndex v i x = .ok (v.set i { m with index := x }) := by
  unfold Vec.setIndex; rw [h]

theorem Vec.wrapI32_of_in32 {x : Int} (h : In32 x) : Vec.wrapI32 x = x := by
  unfold In32 at h; unfold Vec.wrapI32; omega

theorem Vec.chk32_of_in32 {x : Int} (h : In32 x) : Vec.chk32 x = .ok x := by
  unfold In32 at h; unfold Vec.chk32; rw [if_pos h]

theorem Vec.iterAdd_ok {v : List (Marker α)} {it : Nat} {k : Int}
    (h : 0 ≤ (it : Int) + k ∧ (it : Int) + k ≤ (v.length : Int)) :
    Vec.iterAdd v it k = .ok ((it : Int) + k).toNat := by
  unfold Vec.iterAdd; rw [if_pos h]

theorem Vec.erase_ok {v : List (Marker α)} {a b : Nat} (h : a ≤ b ∧ b ≤ v.length) :
    Vec.erase v a b = .ok (v.take a ++ v.drop b) := by
  unfold Vec.erase; rw [if_pos h]

/-! ### the two trimming blocks -/

/-- `if (it != v.end()) v.erase(it + 1, v.end());` keeps the first `it + 1` elements. -/
theorem eraseAfter_eq (g : List (Marker α)) (j : Nat) (hle : j ≤ g.length) :
    (if decide (j ≠ Vec.iend g) = true then (do
        let t ← Vec.iterAdd g j (1 : Int)
        Vec.erase g t (Vec.iend g)) else pure g) = Res.ok (if j < g.length then g.take (j + 1) else g) := by
  unfold Vec.iend
  by_cases h : j = g.length
  · simp [h]
  · have hlt : j < g.length := by omega
    rw [Vec.iterAdd_ok (by omega)]
    simp only [Res.bind_ok]
    rw [Vec.erase_ok (by omega)]
    simp [h, hlt]

/-- `if (it != v.begin()) v.erase(v.begin(), it - 1);` drops the first `it - 1` elements. -/
theorem eraseBefore_eq (g : List (Marker α)) (j : Nat) (hle : j ≤ g.length) :
    (if decide (j ≠ Vec.ibegin g) = true then (do
        let t ← Vec.iterSub g j (1 : Int)
        Vec.erase g (Vec.ibegin g) t) else pure g) = Res.ok (if j = 0 then g else g.drop (j - 1)) := by
  unfold Vec.ibegin Vec.iterSub
  by_cases h : j = 0
  · simp [h]
  · rw [Vec.iterAdd_ok (by omega)]
    simp only [Res.bind_ok]
    rw [Vec.erase_ok (by omega)]
    simp [h]
    congr 1; omega

theorem block1_eq (num : Num α) (g : List (Marker α)) (n : Int) :
    normalize_block1 num g n = .ok (trimEnd num g n) := by
  unfold normalize_block1
  refine (eraseAfter_eq g _ List.findIdx_le_length).trans ?_
  unfold trimEnd
  rw [List.findIdx?_eq_guard_findIdx_lt]
  by_cases h : List.findIdx (fun m : Marker α => num.le (num.ofInt n) m.off) g < g.length
  · simp [h, Option.guard]
  · simp [h, Option.guard]

theorem block2_eq (num : Num α) (g : List (Marker α)) (n : Int) :
    normalize_block2 num g n = .ok (trimStart num g) := by
  unfold normalize_block2
  exact eraseBefore_eq g _ List.findIdx_le_length

/-! ### the two moves -/

theorem block3_eq (num : Num α) (a b : Marker α) (rest : List (Marker α)) (n : Int) :
    normalize_block3 num (a :: b :: rest) n = fixFirst num (a :: b :: rest) := by
  unfold normalize_block3 fixFirst
  -- (`frontPos`: the same block written with `front()` for `[0]` translates differently, same proof)
  simp only [Vec.get, Vec.setOff, Vec.setIndex, Vec.frontPos, List.isEmpty_cons, Bool.false_eq_true, if_false,
    List.getElem?_cons_zero, List.getElem?_cons_succ, Res.bind_ok, List.set_cons_zero]
  cases chk64 (b.index - a.index) with
  | ok di =>
    simp only [Res.bind_ok]
    cases chk64 (4 + a.index) with
    | ok k => res_rfl
    | throw e => res_rfl
    | ub u => res_rfl
  | throw e => res_rfl
  | ub u => res_rfl

theorem block4_eq (num : Num α) (pre : List (Marker α)) (p l : Marker α) (n : Int)
    (hp : In32 p.index) (hlen : (pre ++ [p, l]).length ≤ 2147483648) :
    normalize_block4 num (pre ++ [p, l]) n = fixLast num (pre ++ [p, l]) n := by
  have hr : (pre ++ [p, l]).reverse = l :: p :: pre.reverse := by simp
  have hL : (pre ++ [p, l]).length = pre.length + 2 := by simp
  have hlast : Vec.wrapI32 (Int.ofNat (Cxx.U64.sub (pre ++ [p, l]).length 1)) = (pre.length + 1 : Nat) := by
    rw [hL] at hlen ⊢
    have : Cxx.U64.sub (pre.length + 2) 1 = pre.length + 1 := by
      unfold Cxx.U64.sub Cxx.two64; omega
    rw [this]
    exact Vec.wrapI32_of_in32 (by unfold In32; simp only [Int.ofNat_eq_natCast]; omega)
  have hu1 : Cxx.u64OfInt ((pre.length + 1 : Nat) : Int) = pre.length + 1 := by
    rw [hL] at hlen; unfold Cxx.u64OfInt Cxx.two64; omega
  have hu0 : Cxx.u64OfInt (((pre.length + 1 : Nat) : Int) - 1) = pre.length := by
    rw [hL] at hlen; unfold Cxx.u64OfInt Cxx.two64; omega
  have hc : Vec.chk32 (((pre.length + 1 : Nat) : Int) - 1) = .ok (((pre.length + 1 : Nat) : Int) - 1) :=
    Vec.chk32_of_in32 (by rw [hL] at hlen; unfold In32; omega)
  have hgl : (pre ++ [p, l])[pre.length + 1]? = some l := by simp
  have hgp : (pre ++ [p, l])[pre.length]? = some p := by simp
  -- (`back()` for `[last]`)
  have hback : ∀ x : Marker α, Vec.backPos (pre ++ [p, x]) = .ok (pre.length + 1) := by
    intro x; unfold Vec.backPos; simp
  unfold normalize_block4 fixLast
  rw [hr]
  simp only [hlast, hu1, hc, Res.bind_ok, hu0, hback, Vec.get_of_getElem? hgl, Vec.get_of_getElem? hgp]
  cases chk64 (l.index - p.index) with
  | throw e => res_rfl
  | ub u => res_rfl
  | ok di =>
    simp only [Res.bind_ok]
    cases hce : num.ceil32 (num.div (num.sub (num.ofInt n) l.off)
        (num.div (num.sub l.off p.off) (num.ofInt di))) with
    | none => simp
    | some adj =>
      dsimp only
      cases hil : chk64 (l.index + adj) with
      | throw e => res_rfl
      | ub u => res_rfl
      | ok il =>
        simp only [Res.bind_ok]
        by_cases h1 : il ≤ p.index
        · simp [h1]
        · by_cases h2 : 2147483647 < il
          · simp [h1, h2]
          · have hw : Vec.wrapI32 il = il :=
              Vec.wrapI32_of_in32 (by unfold In32 at hp ⊢; omega)
            simp [h1, h2, hw, hback, Vec.setOff, Vec.setIndex]

/-! ### the whole function -/

theorem trim_length_le (num : Num α) (g : List (Marker α)) (n : Int) :
    (trim num g n).length ≤ g.length := (trim_infix num g n).length_le

/-- Shape of the regenerated function, block by block (the counterpart of `normalize_eq`). -/
theorem normalizeGen_shape (num : Num α) {g : List (Marker α)} (hne : g ≠ []) (n : Int) :
    Gen.Beatgrid.normalize num g n = match trim num g n with
      | a :: b :: rest => if b.index ≤ -4 then .throw .invalid_argument
          else normalize_block3 num (a :: b :: rest) n >>= fun f => normalize_block4 num f n
      | _ => .throw .invalid_argument := by
  unfold Gen.Beatgrid.normalize
  have he : g.isEmpty = false := by cases g <;> simp_all
  rw [he]
  simp only [Bool.false_eq_true, if_false, block1_eq, block2_eq, Res.bind_ok]
  show _ = match trim num g n with
      | a :: b :: rest => _
      | _ => _
  unfold trim
  generalize trimStart num (trimEnd num g n) = t
  rcases t with _ | ⟨a, _ | ⟨b, rest⟩⟩
  · rfl
  · rfl
  · simp only [Vec.orElse, Vec.get, List.length_cons, List.getElem?_cons_succ, List.getElem?_cons_zero]
    have h2 : ¬ (rest.length + 1 + 1 < 2) := by omega
    by_cases h : b.index ≤ -4
    · simp [h, h2]
    · simp [h, h2]

/-- **The regenerated function is the hand model**, for every arithmetic, on every grid whose beat
indices are `int` values and that has at most 2^31 markers, for every sample count.

Full statement (`∀ g n`, no hypotheses): false only outside what the C++ types can hold — see the
header of this file. -/
theorem normalizeGen_eq_partial (num : Num α) (g : List (Marker α)) (n : Int)
    (hi : Idx32 g) (hl : g.length ≤ 2147483648) :
    Gen.Beatgrid.normalize num g n = normalize num g n := by
  by_cases hne : g = []
  · subst hne; rfl
  rw [normalizeGen_shape num hne, normalize_eq num hne]
  have hit : Idx32 (trim num g n) := hi.trim
  have hlt := trim_length_le num g n
  generalize trim num g n = t at hit hlt
  rcases t with _ | ⟨a, _ | ⟨b, rest⟩⟩
  · rfl
  · rfl
  · dsimp only
    split
    · rfl
    · rw [block3_eq, fixFirst_eq num a b rest (hit a (by simp)) (hit b (by simp))]
      -- (`rw`, not `simp`: a definitional unfolding of the block by the kernel is very slow)
      rw [Res.bind_ok, Res.bind_ok]
      obtain ⟨pre, p, l, hpl⟩ := exists_append_two (firstOf num a b) b rest
      have hif : Idx32 (firstOf num a b :: b :: rest) := by
        intro m hm
        rcases List.mem_cons.mp hm with rfl | hm
        · exact in32_neg_four
        · exact hit m (List.mem_cons_of_mem _ hm)
      have hlen : (firstOf num a b :: b :: rest).length ≤ 2147483648 := by
        simp only [List.length_cons] at hlt ⊢; omega
      rw [hpl] at hif hlen ⊢
      exact block4_eq num pre p l n (hif p (by simp)) hlen

end EngineModel.Pure.Beatgrid
