import EngineModel.Impl.V2
import Proofs.CursorLemmas
import Proofs.CheckedArith
set_option linter.unusedSimpArgs false
namespace EngineModel.Impl.V2
open Codec Cur EngineModel.V2

theorem writeInto_exact {size : Nat} {out : Bytes} (h : out.length = size) :
    writeInto size out = .ok out := by
  simp [writeInto, h]

theorem encodeTrack_ok (v : Track) (extra : Bytes) :
    encodeTrack v extra = .ok (track.enc v ++ extra) := by
  apply writeInto_exact
  simp [track_enc_length]

theorem decodeTrack_safe (bs : Bytes) (u : Ub) : decodeTrack bs ≠ .ub u := by
  unfold decodeTrack
  split
  · simp
  · rename_i h
    have h : 44 ≤ bs.length := by omega
    simp (disch := (first | omega | (simp; omega))) [rd_u64be_run, rd_u32be_run, Res.bind]

theorem decodeTrack_eq (bs : Bytes) : decodeTrack bs = liftDec track bs := by
  unfold decodeTrack liftDec
  split
  · rename_i h
    rw [dec_none_of_short track_exact (n := 44) (fun a _ => by simp [track_enc_length]) h]
  · rename_i h
    have h : 44 ≤ bs.length := by omega
    simp (disch := (first | omega | (simp; omega)))
      [rd_u64be_run, rd_u32be_run, Res.bind, track, map, pair, dec_run_u64be, dec_run_u32be,
       List.drop_drop]

/-! ### beat data -/

theorem liftDec_never_ub {α} (c : Codec α) (bs : Bytes) (u : Ub) : liftDec c bs ≠ .ub u := by
  unfold liftDec; split <;> simp

theorem s64_nonneg_iff (k : UInt64) : ¬ Prim.s64 k < 0 ↔ k.toNat < maxCount := by
  have := k.toNat_lt
  unfold Prim.s64 maxCount
  split <;> omega

theorem s64_of_lt (k : UInt64) (h : k.toNat < maxCount) : Prim.s64 k = k.toNat := by
  unfold Prim.s64 maxCount at *
  simp [h]

theorem decN_marker_length {n : Nat} {bs : Bytes} {l r} (h : decN marker n bs = some (l, r)) :
    bs.length = 24 * n + r.length := by
  obtain ⟨hl, _, e⟩ := decN_exact marker_exact n bs l r h
  rw [e, List.length_append, encL_length_const (w := 24) marker_enc_length, hl]

theorem decodeGrid_eq (bs : Bytes) : decodeGrid bs = liftDec grid bs := by
  unfold decodeGrid liftDec grid counted
  simp only [bind_run, remaining_run]
  by_cases h8 : bs.length < 8
  · simp [h8, u64be_dec_none h8]
  · have h8' : 8 ≤ bs.length := by omega
    simp only [h8, if_false, rd_u64be_run h8', dec_run_u64be h8', bind_run, remaining_run]
    generalize u64be.get bs = k
    by_cases hk : k.toNat < maxCount
    · have hs := s64_of_lt k hk
      simp only [hk, if_true, hs]
      by_cases hr : ((bs.drop 8).length / 24 : Int) < (k.toNat : Int)
      · simp only [hr, or_true, if_true, throwC_run]
        cases hd : decN marker k.toNat (bs.drop 8) with
        | none => rfl
        | some p =>
          exfalso
          have := decN_marker_length hd
          omega
      · have hlen : 24 * k.toNat ≤ (bs.drop 8).length := by omega
        have hneg : ¬ ((k.toNat : Int) < 0) := by omega
        simp only [hr, hneg, or_self, if_false]
        rw [forN_rd_eq]
        obtain ⟨l, hl⟩ := decN_some_of_len (c := marker) (w := 24) marker_dec_some k.toNat _ hlen
        simp [hl]
    · have hneg : Prim.s64 k < 0 := by
        have := k.toNat_lt
        unfold Prim.s64
        unfold maxCount at hk
        split <;> omega
      simp [hk, hneg]

theorem u64be_enc_length (x : UInt64) : (u64be.enc x).length = 8 := rfl
theorem u64le_enc_length (x : UInt64) : (u64le.enc x).length = 8 := rfl

theorem grid_enc_length (g : List Marker) : (grid.enc g).length = 8 + 24 * g.length := by
  simp [grid, counted, u64be_enc_length, encL_length_const (w := 24) marker_enc_length]

theorem beat_enc_length (v : Beat) :
    (beat.enc v).length = 33 + 24 * (v.dflt.length + v.adj.length) := by
  simp [beat, map, pair, u64be_enc_length, grid_enc_length, u8]
  omega

theorem encodeBeat_ok (v : Beat) (extra : Bytes) :
    encodeBeat v extra = .ok (beat.enc v ++ extra) := by
  apply writeInto_exact
  simp [beat_enc_length]

theorem decodeGrid_fun : decodeGrid = liftDec grid := funext decodeGrid_eq

theorem decodeBeat_eq (bs : Bytes) : decodeBeat bs = liftDec beat bs := by
  unfold decodeBeat
  split
  · rename_i h
    unfold liftDec
    rw [dec_none_of_short beat_exact (n := 33) (fun a _ => by rw [beat_enc_length]; omega) h]
  · rename_i h
    have h : 33 ≤ bs.length := by omega
    rw [decodeGrid_fun]
    simp (disch := (first | omega | (simp; omega)))
      [rd_u64be_run, rd_u8_run, Res.bind, List.drop_drop]
    unfold liftDec
    simp (disch := (first | omega | (simp; omega)))
      [beat, map, pair, dec_run_u64be, dec_run_u8, List.drop_drop]
    cases h1 : grid.dec (List.drop 17 bs) with
    | none => simp
    | some p =>
      obtain ⟨d, r1⟩ := p
      simp only []
      cases h2 : grid.dec r1 with
      | none => simp
      | some q => obtain ⟨a, r2⟩ := q; simp

/-! ### overview waveform -/

theorem ovw_enc_length (v : Ovw) : (ovw.enc v).length = 24 + v.points.length + v.maxPt.length := by
  simp [ovw, dep, filter, ovwBody, map, pair, expect, bytesN, u64be_enc_length]
  omega

theorem encodeOvw_ok (v : Ovw) (hv : v.Valid) (extra : Bytes) :
    encodeOvw v extra = .ok (ovw.enc v ++ extra) := by
  apply writeInto_exact
  obtain ⟨h1, _, h3⟩ := hv
  simp [ovw_enc_length, h3]
  omega

theorem decodeOvw_eq (bs : Bytes) (hlen : bs.length < maxCount) : decodeOvw bs = liftDec ovw bs := by
  rw [ArithZ.decodeOvw_eq_Z bs hlen]
  unfold ArithZ.decodeOvwZ
  split
  · rename_i h
    unfold liftDec
    rw [dec_none_of_short ovw_exact (n := 27)
      (fun a ha => by rw [ovw_enc_length, ha.2.2]; omega) h]
  · rename_i h
    have h : 27 ≤ bs.length := by omega
    unfold liftDec
    have e1 := dec_run_u64be (bs := bs) (by omega)
    have e2 := dec_run_u64be (bs := bs.drop 8) (by simp; omega)
    have e3 := dec_run_u64be (bs := bs.drop 16) (by simp; omega)
    have r1 := rd_u64be_run (bs := bs) (by omega)
    have r2 := rd_u64be_run (bs := bs.drop 8) (by simp; omega)
    have r3 := rd_u64be_run (bs := bs.drop 16) (by simp; omega)
    simp only [List.drop_drop] at e2 e3 r2 r3
    generalize u64be.get bs = n1 at e1 r1
    generalize u64be.get (List.drop 8 bs) = n2 at e2 r2
    generalize u64be.get (List.drop 16 bs) = spp at e3 r3
    have hl : (List.drop (16 + 8) bs).length = bs.length - 24 := by simp
    by_cases hk : n1.toNat < maxCount
    · have hs := s64_of_lt n1 hk
      have hneg : ¬ ((n1.toNat : Int) < 0) := by omega
      by_cases hn : n1 = n2
      · subst hn
        by_cases hr : (((bs.length - 24 : Nat) : Int) / 3 < (n1.toNat : Int)) ∨
            (((bs.length - 24 : Nat) : Int) < 3 * ((n1.toNat : Int) + 1))
        · by_cases h3 : 3 * n1.toNat ≤ bs.length - 24
          · have h4 : ¬ (3 ≤ bs.length - 24 - 3 * n1.toNat) := by omega
            have h4' : ¬ (3 ≤ bs.length - (24 + 3 * n1.toNat)) := by omega
            simp [h4', bind_run, r1, r2, r3, ovw, dep, filter, ovwBody, map, pair, expect, e1, e2, e3,
              remaining_run, Res.bind, hk, hs, hl, hneg, hr, bytesN, h3, h4]
          · simp [bind_run, r1, r2, r3, ovw, dep, filter, ovwBody, map, pair, expect, e1, e2, e3,
              remaining_run, Res.bind, hk, hs, hl, hneg, hr, bytesN, h3]
        · have h3 : 3 * n1.toNat ≤ bs.length - 24 := by omega
          have h4 : 3 ≤ bs.length - 24 - 3 * n1.toNat := by omega
          have h4' : 3 ≤ bs.length - (24 + 3 * n1.toNat) := by omega
          simp (disch := (first | omega | (simp; omega)))
            [h4', bind_run, r1, r2, r3, ovw, dep, filter, ovwBody, map, pair, expect, e1, e2, e3,
              remaining_run, Res.bind, hk, hs, hl, hneg, hr, bytesN, h3, h4, takeN_run,
              List.drop_drop]
      · have hn' : ¬ n2 = n1 := fun h => hn h.symm
        simp [bind_run, r1, r2, r3, ovw, dep, filter, ovwBody, map, pair, expect, e1, e2, e3,
              remaining_run, Res.bind, hk, hn, hn']
    · have hneg : Prim.s64 n1 < 0 := by
        have := n1.toNat_lt
        unfold Prim.s64
        unfold maxCount at hk
        split <;> omega
      by_cases hn : n1 = n2
      · subst hn
        simp [bind_run, r1, r2, r3, ovw, dep, filter, ovwBody, map, pair, expect, e1, e2, e3,
              remaining_run, Res.bind, hk, hneg]
      · simp [bind_run, r1, r2, r3, ovw, dep, filter, ovwBody, map, pair, expect, e1, e2, e3,
              remaining_run, Res.bind, hk, hn, hneg]

end EngineModel.Impl.V2
