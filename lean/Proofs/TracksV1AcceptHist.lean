/-
C06 1.x, acceptance side, part 4:

  * `writeSnap_clean`, `dbCreate_clean`, `dbUpdate_clean` — `create_track` / `update` from a snapshot
    without NaN build `Clean` rows (under the float law), so every database reachable through the
    modelled calls from NaN-free input is `DbClean`;
  * `value_last_set` — the headline clause of C06 on histories.
-/
import Proofs.TracksV1AcceptDb

namespace EngineModel.TracksV1

open Impl.V1 (GMarker HotCue LoopV Entry Wave Beat Cues Loops)
open Fl (FOps)

set_option linter.unusedSimpArgs false
set_option linter.unusedVariables false

/-! ### waveform blobs written by the bulk path carry a numeric samples-per-entry -/

theorem isNaN_zero' : F64.isNaN F64.zero = false := by decide

theorem toOverview_num (o : FOps) (hl : FloatLaw o) (c : Option UInt64) (r : Option Bits) (w : List Entry) (v : Wave)
    (h : toOverview o c r w = .ok v) : F64.isNaN v.spe = false := by
  unfold toOverview at h
  cases c with
  | none => simp only [Res.ok.injEq] at h; subst h; exact isNaN_zero'
  | some n =>
    cases r with
    | none => simp only [Res.ok.injEq] at h; subst h; exact isNaN_zero'
    | some rr =>
      simp only at h
      cases he : ovwExtents o n rr with
      | throw e => rw [he] at h; cases h
      | ub u => rw [he] at h; cases h
      | ok e =>
        obtain ⟨size, spe⟩ := e
        have hnum := ovwExtents_num o hl n rr _ he
        rw [he] at h
        simp only at h
        split at h
        · simp only [Res.ok.injEq] at h; subst h; exact hnum
        · cases hr : resample w size with
          | ok es => rw [hr] at h; simp only [Res.ok.injEq] at h; subst h; exact hnum
          | throw e => rw [hr] at h; cases h
          | ub u => rw [hr] at h; cases h

theorem toHires_num (o : FOps) (hl : FloatLaw o) (c : Option UInt64) (r : Option Bits) (w : List Entry) (v : Wave)
    (h : toHires o c r w = .ok v) : F64.isNaN v.spe = false := by
  unfold toHires at h
  cases c with
  | none =>
    simp only at h
    split at h
    · simp only [Res.ok.injEq] at h; subst h; exact isNaN_zero'
    · cases h
  | some n =>
    cases r with
    | none =>
      simp only at h
      split at h
      · simp only [Res.ok.injEq] at h; subst h; exact isNaN_zero'
      · cases h
    | some rr =>
      simp only at h
      split at h
      · split at h
        · simp only [Res.ok.injEq] at h; subst h; exact isNaN_zero'
        · cases h
      · cases he : hiresExtents o n rr with
        | throw e => rw [he] at h; cases h
        | ub u => rw [he] at h; cases h
        | ok e =>
          have hnum := hiresExtents_num o hl n rr _ he
          rw [he] at h
          simp only [Res.ok.injEq] at h
          subst h; exact hnum

/-! ### `NoNaN`, unpacked -/

structure NoNaNP (x : Snap) : Prop where
  loud : finOpt x.averageLoudness = true
  main : finOpt x.mainCue = true
  rate : finOpt x.sampleRate = true
  grid : gridNum x.beatgrid = true
  cues : x.hotCues.all cueNum = true
  loops : x.loops.all loopNum = true

theorem noNaN_unpack (x : Snap) (h : Spec.NoNaN x = true) : NoNaNP x := by
  unfold Spec.NoNaN at h
  simp only [Bool.and_eq_true] at h
  obtain ⟨⟨⟨⟨⟨⟨h1, _⟩, h3⟩, h4⟩, h5⟩, h6⟩, h7⟩ := h
  exact ⟨h1, h3, h4, h5, h6, h7⟩

theorem cueStored_norm (q : Option HotCue) (hok : Spec.cueOk q = true) (hn : cueNum q = true) :
    cueStored (Spec.normCue q) = true := by
  rw [cueStored_iff]
  refine ⟨Spec.cueOk_normCue q hok, Spec.normCue_idem q, ?_⟩
  cases q with
  | none => rfl
  | some c =>
    unfold Spec.normCue
    simp only
    split
    · rfl
    · exact hn

theorem loopStored_norm (q : Option LoopV) (hok : Spec.loopOk q = true) (hn : loopNum q = true) :
    loopStored (Spec.normLoop q) = true := by
  rw [loopStored_iff]
  refine ⟨Spec.loopOk_normLoop q hok, Spec.normLoop_idem q, ?_⟩
  cases q with
  | none => rfl
  | some c =>
    unfold Spec.normLoop
    simp only
    split
    · rfl
    · exact hn

theorem all_pad8_map {α} (stored : Option α → Bool) (g : Option α → Option α) (hnone : stored none = true)
    (l : List (Option α)) (h : ∀ q ∈ l, stored (g q) = true) : (Spec.pad8 (l.map g)).all stored = true := by
  rw [List.all_eq_true]
  intro a ha
  rcases mem_pad8 _ a ha with hm | hm
  · obtain ⟨q, hq, rfl⟩ := List.mem_map.mp hm
    exact h q hq
  · subst hm; exact hnone

/-- **`create_track` / `update` from a snapshot without NaN build `Clean` rows.** -/
theorem writeSnap_clean (o : FOps) (hl : FloatLaw o) (s : Schema) (x : Snap) (prior : Option TrackRows)
    (rows : TrackRows) (hn : Spec.NoNaN x = true) (h : writeSnap o s x prior = .ok rows) : CleanP rows := by
  refine ⟨writeSnap_inv o s x prior rows h, ?_⟩
  have nn := noNaN_unpack x hn
  unfold writeSnap at h
  cases hp : x.relativePath with
  | none => rw [hp] at h; cases h
  | some path =>
    rw [hp] at h
    simp only at h
    obtain ⟨lc, _, h⟩ := Res.bind_eq_ok h
    obtain ⟨bi, _, h⟩ := Res.bind_eq_ok h
    obtain ⟨ov, hov, h⟩ := Res.bind_eq_ok h
    obtain ⟨hi, hhi, h⟩ := Res.bind_eq_ok h
    obtain ⟨ls, hls, h⟩ := Res.bind_eq_ok h
    obtain ⟨bt, hbt, h⟩ := Res.bind_eq_ok h
    obtain ⟨cs, hcs, h⟩ := Res.bind_eq_ok h
    obtain ⟨lp, hlp, h⟩ := Res.bind_eq_ok h
    cases h
    intro p hp'
    simp only [assemble, Option.some.injEq] at hp'
    subst hp'
    rw [stablePerf_iff]
    refine ⟨?_, ?_, ?_, ?_, ?_, ?_⟩
    · -- track data
      unfold stableTrack normTrack
      simp only [numOpt_znf, nn.rate, nn.loud, Bool.true_and, Bool.and_true, Bool.and_eq_true]
      constructor
      · cases x.sampleCount with
        | none => rfl
        | some n => by_cases hn0 : n = 0 <;> simp [hn0]
      · cases x.key with
        | none => rfl
        | some n => by_cases hn0 : n = 0 <;> simp [hn0]
    · -- beat data
      rw [normBeat_same] at hbt
      cases hv : Impl.V1.validGrid x.beatgrid with
      | false => rw [hv] at hbt; simp at hbt
      | true =>
        rw [hv] at hbt
        simp only [if_true, Res.ok.injEq] at hbt
        subst hbt
        unfold stableBeat
        simp only [numOpt_znf, nn.rate, hv, nn.grid, Bool.true_and, Bool.and_true]
        cases x.sampleCount with
        | none => rfl
        | some n => simp [finOpt, hl.ofU64_num]
    · -- quick cues
      rcases normCues_toCues_cases x.hotCues x.mainCue with ⟨h8, hok⟩ | ⟨e, he⟩
      · rw [normCues_toCues_ok x.hotCues x.mainCue h8 hok] at hcs
        cases hcs
        unfold stableCues
        simp only [Bool.and_eq_true, decide_eq_true_eq, isNaN_getD, nn.main, and_true]
        refine ⟨?_, ?_⟩
        · rw [Spec.pad8_length]
          rw [List.length_map]; exact h8
        · apply all_pad8_map cueStored Spec.normCue rfl
          intro q hq
          exact cueStored_norm q (List.all_eq_true.mp hok q hq) (List.all_eq_true.mp nn.cues q hq)
      · rw [he] at hcs; cases hcs
    · -- loops
      have hl8 : ls = padTo8 x.loops := by
        rcases toLoops_cases x.loops with ⟨_, ht⟩ | ⟨_, ht⟩
        · rw [ht] at hls; cases hls; rfl
        · rw [ht] at hls; cases hls
      subst hl8
      rcases normLoops_pad_cases x.loops with hok | ⟨e, he⟩
      · rw [normLoops_pad_ok x.loops hok] at hlp
        cases hlp
        unfold stableLoops
        apply all_pad8_map loopStored Spec.normLoop rfl
        intro q hq
        exact loopStored_norm q (List.all_eq_true.mp hok q hq) (List.all_eq_true.mp nn.loops q hq)
      · rw [he] at hlp; cases hlp
    · unfold stableWave normHires
      simp only [toHires_num o hl _ _ _ _ hhi, Bool.not_false]
    · unfold stableWave normOvw
      simp only [toOverview_num o hl _ _ _ _ hov, Bool.not_false]

theorem dbCreate_rows (o : FOps) (d d' : Db) (x : Snap) (id : Int) (h : dbCreate o d x = .ok (d', id)) :
    ∃ rows, writeSnap o d.schema x none = .ok rows ∧ d' = { d with tracks := d.tracks ++ [(id, rows)] } := by
  unfold dbCreate at h
  cases hw : writeSnap o d.schema x none with
  | ub u => rw [hw] at h; cases h
  | throw e =>
    rw [hw] at h
    simp only at h
    split at h
    · cases h
    · split at h
      · cases h
      · split at h <;> cases h
  | ok rows =>
    rw [hw] at h
    simp only at h
    split at h
    · cases h
    · simp only [Res.ok.injEq, Prod.mk.injEq] at h
      exact ⟨rows, rfl, by rw [← h.1, ← h.2]⟩

theorem dbUpdate_rows (o : FOps) (d d' : Db) (x : Snap) (id : Int) (h : dbUpdate o d id x = .ok d') :
    ∃ prior rows, d.rows id = some prior ∧ writeSnap o d.schema x (some prior) = .ok rows ∧
      d' = { d with tracks := aset id rows d.tracks } := by
  unfold dbUpdate at h
  cases hp : d.rows id with
  | none =>
    rw [hp] at h
    simp only at h
    split at h
    · cases h
    · split at h <;> cases h
    · cases h
  | some prior =>
    rw [hp] at h
    simp only at h
    cases hw : writeSnap o d.schema x (some prior) with
    | ub u => rw [hw] at h; cases h
    | throw e =>
      rw [hw] at h
      simp only at h
      split at h
      · cases h
      · split at h
        · cases h
        · split at h <;> cases h
    | ok rows =>
      rw [hw] at h
      simp only at h
      split at h
      · cases h
      · simp only [Res.ok.injEq] at h
        exact ⟨prior, rows, rfl, hw, h.symm⟩

theorem dbCreate_clean (o : FOps) (hl : FloatLaw o) (d d' : Db) (x : Snap) (id : Int) (hc : DbClean d)
    (hn : Spec.NoNaN x = true) (h : dbCreate o d x = .ok (d', id)) : DbClean d' := by
  obtain ⟨rows, hw, hd'⟩ := dbCreate_rows o d d' x id h
  subst hd'
  intro id' r hr
  unfold Db.rows at hr
  simp only at hr
  rcases aget_append_singleton _ _ _ _ _ hr with h1 | h1
  · exact hc id' r h1
  · subst h1
    exact (clean_iff _).mpr (writeSnap_clean o hl _ x none _ hn hw)

theorem dbUpdate_clean (o : FOps) (hl : FloatLaw o) (d d' : Db) (x : Snap) (id : Int) (hc : DbClean d)
    (hn : Spec.NoNaN x = true) (h : dbUpdate o d id x = .ok d') : DbClean d' := by
  obtain ⟨prior, rows, hp, hw, hd'⟩ := dbUpdate_rows o d d' x id h
  subst hd'
  intro id' r hr
  unfold Db.rows at hr
  simp only at hr
  by_cases hid : id' = id
  · subst hid
    rw [aget_aset_same] at hr
    cases hr
    exact (clean_iff _).mpr (writeSnap_clean o hl _ x (some prior) _ hn hw)
  · rw [aget_aset_other _ _ _ _ hid] at hr
    exact hc id' r hr

theorem dbRemove_clean (d : Db) (id : Int) (hc : DbClean d) : DbClean (dbRemove d id) := by
  intro id' r hr
  by_cases hid : id' = id
  · subst hid
    have : (dbRemove d id').rows id' = none := aget_filter_ne _ _
    rw [this] at hr; cases hr
  · have : (dbRemove d id).rows id' = d.rows id' := aget_filter_other _ _ _ hid
    rw [this] at hr
    exact hc _ _ hr

/-! ### the value last set -/

/-- After an accepted call `set_f(v)` on track `id`, any further history in which no accepted call on that
track targets `f` (or a field overlapping it) leaves getter `f` of track `id` at the normalised `v`. -/
theorem later_keeps (o : FOps) (h2 : List SetOp) (d : Db) (id : Int) (f : Field) (w : f.ty) (hinv : DbInv d)
    (hfin : ∀ op ∈ h2, Spec.finiteArg op.f op.v = true) (hg : dbGet o d id f = .ok w)
    (hlater : ∀ e ∈ (dbRun o d h2).2, e.2 = true → e.1.id = id → Spec.independent e.1.f f = true) :
    dbGet o (dbRun o d h2).1 id f = .ok w := by
  induction h2 generalizing d with
  | nil => exact hg
  | cons op t ih =>
    simp only [dbRun] at hlater ⊢
    have hfin' : ∀ op' ∈ t, Spec.finiteArg op'.f op'.v = true := fun op' h' => hfin op' (List.mem_cons_of_mem _ h')
    have hop := hfin op (List.mem_cons_self ..)
    obtain ⟨s1, _, _, _, _⟩ := dbStep_spec o d hinv op hop
    apply ih (dbStep o d op).1 s1 hfin'
    · cases hok : (dbStep o d op).2 with
      | false => rw [dbStep_fail o d op hok]; exact hg
      | true =>
        have hset := dbStep_ok o d op hok
        by_cases hid : op.id = id
        · have hind := hlater (op, (dbStep o d op).2) (List.mem_cons_self ..) hok hid
          obtain ⟨r, r', hr, hs, hr', _⟩ := dbSet_rows_same o d _ op.id op.f op.v hset
          have hfr : get o r' f = get o r f := by
            have hi := (inv_iff r).mp (hinv _ _ hr)
            obtain ⟨w', _, hsn, hi'⟩ := set_refines o .s1_6_0 r r' op.f op.v hi hop hs
            rw [get_eq_snapField o .s1_6_0 r' hi' f, get_eq_snapField o .s1_6_0 r hi f, hsn]
            exact snapField_put_other _ op.f f w' hind
          rw [hid] at hr hr'
          unfold dbGet at hg ⊢
          rw [hr] at hg
          rw [hr']
          simp only at hg ⊢
          rw [hfr]; exact hg
        · have hne : id ≠ op.id := fun e => hid e.symm
          have := dbSet_rows_other o d _ op.id id op.f op.v hne hset
          unfold dbGet at hg ⊢
          rw [this]; exact hg
    · intro e he
      exact hlater e (List.mem_cons_of_mem _ he)

/-- **Each getter returns the value last set for its field.** -/
theorem value_last_set (o : FOps) (d : Db) (h1 h2 : List SetOp) (id : Int) (f : Field) (v : f.ty) (hinv : DbInv d)
    (hfin1 : ∀ op ∈ h1, Spec.finiteArg op.f op.v = true) (hfinv : Spec.finiteArg f v = true)
    (hfin2 : ∀ op ∈ h2, Spec.finiteArg op.f op.v = true)
    (d2 : Db) (hacc : dbSet o (dbRun o d h1).1 id f v = .ok d2)
    (hlater : ∀ e ∈ (dbRun o d2 h2).2, e.2 = true → e.1.id = id → Spec.independent e.1.f f = true) :
    ∃ w, Spec.normField f v = some w ∧ dbGet o (dbRun o d (h1 ++ ⟨id, f, v⟩ :: h2)).1 id f = .ok w := by
  obtain ⟨i1, _⟩ := dbRun_spec o h1 d hinv hfin1
  obtain ⟨w, hw, hg, _⟩ :
      ∃ w, Spec.normField f v = some w ∧ dbGet o d2 id f = .ok w ∧
        ∀ g, Spec.independent f g = true → dbGet o d2 id g = dbGet o (dbRun o d h1).1 id g := by
    obtain ⟨r, r', hr, hs, hr', _⟩ := dbSet_rows_same o _ d2 id f v hacc
    have hi := (inv_iff r).mp (i1 _ _ hr)
    obtain ⟨w, hw, hsn, hi'⟩ := set_refines o .s1_6_0 r r' f v hi hfinv hs
    refine ⟨w, hw, ?_, ?_⟩
    · unfold dbGet; rw [hr']; simp only
      rw [get_eq_snapField o .s1_6_0 r' hi' f, hsn]
      exact snapField_put_same _ f w (set_slotValid o .s1_6_0 r r' f v hs)
    · intro g hfg
      unfold dbGet; rw [hr', hr]; simp only
      rw [get_eq_snapField o .s1_6_0 r' hi' g, get_eq_snapField o .s1_6_0 r hi g, hsn]
      exact snapField_put_other _ f g w hfg
  refine ⟨w, hw, ?_⟩
  have hinv2 : DbInv d2 := by
    intro id' r hr
    obtain ⟨r0, r0', h0, hs, h0', _⟩ := dbSet_rows_same o _ d2 id f v hacc
    by_cases hid : id' = id
    · subst hid
      rw [h0'] at hr; cases hr
      exact (inv_iff _).mpr (set_inv o .s1_6_0 r0 r f v ((inv_iff r0).mp (i1 _ _ h0)) hs)
    · rw [dbSet_rows_other o _ d2 id id' f v hid hacc] at hr
      exact i1 _ _ hr
  rw [dbRun_append]
  simp only [dbRun]
  have hstep : dbStep o (dbRun o d h1).1 ⟨id, f, v⟩ = (d2, true) := by
    unfold dbStep; simp only; rw [hacc]
  rw [hstep]
  exact later_keeps o h2 d2 id f w hinv2 hfin2 hg hlater

end EngineModel.TracksV1
