/-
Helper lemmas for Properties/C15FaultsTracks.lean, schema 1.x tracks: a call executed as its statement program under
any fault plan ends on the prior tables or on `C15TracksV1.step`'s (C14's all-or-nothing), so `DbInv` survives every
history with failures.
-/
import EngineModel.Api.FaultsTracksV1
import Properties.C14
import Proofs.NoUbGuardsV1

namespace EngineModel.Proofs.C15FaultsTracksV1
open EngineModel EngineModel.TracksV1 EngineModel.Api.C15TracksV1 EngineModel.Api.GuardedTracksV1
open EngineModel.Api.FaultsTracksV1 EngineModel.Spec.Txn EngineModel.Spec.Stmts EngineModel.Properties.C14
open Fl (FOps)

theorem raised_restores (o : FOps) (d : Db) (op : TOp) (fault : Option Nat) (auto : Bool)
    (hr : (call fault auto (topStmts o op) d).raised = true) : (call fault auto (topStmts o op) d).conn = Conn.idle d :=
  (C14_shape_sound (topStmts o op) (topStmts_atomic o op) fault auto d).1 hr

theorem callF_state (o : FOps) (hc : CeilInRange o) (d : Db) (op : TOp) (plan : Option Plan) :
    (callF o d op plan).1 = d ∨ (callF o d op plan).1 = (step o d (toOp op)).1 := by
  cases plan with
  | none => right; simp only [callF, stepG_eq o hc]
  | some p =>
    simp only [callF]
    split
    · right; rw [stepG_eq o hc]
    · split
      · rename_i hr
        left
        have := raised_restores o d op (some p.k) p.auto hr
        show (progRun o d op p).conn.view = d
        unfold progRun; rw [this]; rfl
      · right; rw [stepG_eq o hc]

theorem callF_outcome (o : FOps) (hc : CeilInRange o) (d : Db) (op : TOp) (plan : Option Plan) :
    (callF o d op plan).2 = (step o d (toOp op)).2 ∨ (callF o d op plan).2 = .throw .sqlite_error := by
  cases plan with
  | none => left; simp only [callF, stepG_eq o hc]
  | some p =>
    simp only [callF]
    split
    · left; rw [stepG_eq o hc]
    · split
      · right; rfl
      · left; rw [stepG_eq o hc]

theorem callF_fault_inside (o : FOps) (d : Db) (op : TOp) (p : Plan) (hk : p.k < positions o op)
    (hu : ∀ u, (stepG o d (toOp op)).2 ≠ .ub u) : callF o d op (some p) = (d, .throw .sqlite_error) := by
  have h := C14_tracks_v1_all_or_nothing o d op p.k p.auto hk
  have hr : (progRun o d op p).raised = true := h.1
  have hcn : (progRun o d op p).conn = Conn.idle d := h.2
  unfold callF
  cases hs : (stepG o d (toOp op)).2 with
  | ub u' => exact absurd hs (hu u')
  | ok v => simp only [hr, if_true, hcn]; rfl
  | throw e => simp only [hr, if_true, hcn]; rfl

/-- a mutating call of the API model that does not return normally leaves the tables as they were -/
theorem step_failed_unchanged (o : FOps) (d : Db) (op : TOp) (h : ¬ ∃ v, (step o d (toOp op)).2 = .ok v) :
    (step o d (toOp op)).1 = d := by
  cases op with
  | create x =>
    simp only [toOp, step] at h ⊢
    cases hx : dbCreate o d x with
    | ok r => simp [hx] at h
    | throw e => rfl
    | ub u => rfl
  | update id x =>
    simp only [toOp, step] at h ⊢
    cases hx : dbUpdate o d id x with
    | ok r => simp [hx] at h
    | throw e => rfl
    | ub u => rfl
  | set id f v =>
    simp only [toOp, step] at h ⊢
    cases hx : dbSet o d id f v with
    | ok r => simp [hx] at h
    | throw e => rfl
    | ub u => rfl
  | remove id => simp [toOp, step] at h

theorem callF_failed_unchanged (o : FOps) (hc : CeilInRange o) (d : Db) (op : TOp) (plan : Option Plan)
    (hfail : ¬ ∃ v, (callF o d op plan).2 = .ok v) : (callF o d op plan).1 = d := by
  cases plan with
  | none =>
    simp only [callF, stepG_eq o hc] at hfail ⊢
    exact step_failed_unchanged o d op hfail
  | some p =>
    simp only [callF] at hfail ⊢
    split
    · rename_i u hu
      rw [stepG_eq o hc] at hu ⊢
      exact step_failed_unchanged o d op fun ⟨v, hv⟩ => by rw [hv] at hu; cases hu
    · split
      · rename_i hr
        have := raised_restores o d op (some p.k) p.auto hr
        show (progRun o d op p).conn.view = d
        unfold progRun; rw [this]; rfl
      · rename_i hnu hr
        rw [stepG_eq o hc] at hnu ⊢
        refine step_failed_unchanged o d op fun hv => hfail ?_
        split
        · rename_i u hu; rw [stepG_eq o hc] at hu; exact absurd hu (hnu u)
        · simp only [hr]; rw [stepG_eq o hc]; exact hv

theorem inv_callF (o : FOps) (hc : CeilInRange o) {d : Db} (hd : DbInv d) (op : TOp) (plan : Option Plan) :
    DbInv (callF o d op plan).1 := by
  rcases callF_state o hc d op plan with e | e
  · rw [e]; exact hd
  · rw [e]; exact step_inv o d hd _

theorem inv_runF (o : FOps) (hc : CeilInRange o) (hist : List FCall) : ∀ {d : Db}, DbInv d → DbInv (runF o d hist) := by
  induction hist with
  | nil => intro d h; exact h
  | cons c t ih => intro d h; exact ih (inv_callF o hc h c.1 c.2)

theorem callF_defined (o : FOps) (hc : CeilInRange o) {d : Db} (hd : DbInv d) (op : TOp) (plan : Option Plan) (u : Ub) :
    (callF o d op plan).2 ≠ .ub u := by
  rcases callF_outcome o hc d op plan with e | e
  · rw [e]; exact step_defined o hc d hd _ u
  · rw [e]; intro hh; cases hh

theorem outcomesF_defined (o : FOps) (hc : CeilInRange o) (hist : List FCall) :
    ∀ {d : Db}, DbInv d → ∀ r ∈ outcomesF o d hist, ∀ u, r ≠ .ub u := by
  induction hist with
  | nil => intro d _ r hr; cases hr
  | cons c t ih =>
    intro d h r hr u
    simp only [outcomesF, List.mem_cons] at hr
    rcases hr with e | e
    · rw [e]; exact callF_defined o hc h c.1 c.2 u
    · exact ih (inv_callF o hc h c.1 c.2) r e u

/-- **reachability**: the tables after any history with failures are the tables the fault-free C15 model reaches by a
sub-list of the history (the calls that took effect) -/
theorem runF_reachable (o : FOps) (hc : CeilInRange o) (hist : List FCall) :
    ∀ d : Db, ∃ l : List Op, l.Sublist (hist.map fun c => toOp c.1) ∧ runF o d hist = run o d l := by
  induction hist with
  | nil => intro d; exact ⟨[], List.Sublist.slnil, rfl⟩
  | cons c t ih =>
    intro d
    obtain ⟨l, hl, he⟩ := ih (callF o d c.1 c.2).1
    rcases callF_state o hc d c.1 c.2 with e | e
    · refine ⟨l, List.Sublist.cons _ hl, ?_⟩
      simp only [runF]; rw [he, e]
    · refine ⟨toOp c.1 :: l, List.Sublist.cons_cons _ hl, ?_⟩
      simp only [runF, run]; rw [he, e]

end EngineModel.Proofs.C15FaultsTracksV1
