/-
Preservation of the structural invariant `FInv` by the four shapes of change the
schema-1.x crate code makes to (ids, CrateParentList, CrateHierarchy):
adding a root, adding a leaf, re-parenting a sub-tree, removing a sub-tree.
-/
import Proofs.CratesV1Forest

namespace EngineModel.Api.CratesV1
open EngineModel.Pure.Detect EngineModel.Spec

theorem eraseDups_of_nodup {α} [BEq α] [LawfulBEq α] : ∀ (l : List α), l.Nodup → l.eraseDups = l := by
  intro l
  induction l with
  | nil => intro _; simp
  | cons a l ih =>
    intro h
    rw [List.nodup_cons] at h
    rw [List.eraseDups_cons]
    have : l.filter (fun b => !b == a) = l := by
      rw [List.filter_eq_self]
      intro b hb
      simp only [Bool.not_eq_eq_eq_not, Bool.not_true, beq_eq_false_iff_ne, ne_eq]
      intro e; exact h.1 (e ▸ hb)
    rw [this, ih h.2]

variable {db : Db}

/-- create_root_crate -/
theorem FInv.add_root (h : FInv db) {db' : Db} {n : Id} (hn : n ∉ ids db)
    (h1 : ids db' = ids db ++ [n]) (h2 : db'.cpl = db.cpl ++ [(n, n)]) (h3 : db'.ch = db.ch) : FInv db' := by
  have hpar : ∀ c p, Par db' c p ↔ Par db c p := by
    intro c p
    unfold Par
    rw [h2, List.mem_append, List.mem_singleton]
    constructor
    · rintro ⟨hm | he, hne⟩
      · exact ⟨hm, hne⟩
      · cases he; exact absurd rfl hne
    · rintro ⟨hm, hne⟩; exact ⟨Or.inl hm, hne⟩
  constructor
  · rw [h1, List.nodup_append]
    refine ⟨h.idsNodup, by simp, ?_⟩
    intro a ha b hb
    rw [List.mem_singleton] at hb
    rintro rfl; exact hn (hb ▸ ha)
  · rw [h2, List.map_append, List.nodup_append]
    refine ⟨h.cplNodup, by simp, ?_⟩
    intro a ha b hb
    simp only [List.map_cons, List.map_nil, List.mem_singleton] at hb
    rintro rfl; exact hn (hb ▸ (h.cplTotal _).mp ha)
  · intro c
    rw [h1, h2, List.map_append, List.mem_append, List.mem_append, h.cplTotal c]
    simp
  · intro r hr
    rw [h2, List.mem_append, List.mem_singleton] at hr
    rw [h1, List.mem_append]
    rcases hr with hr | rfl
    · exact Or.inl (h.cplParentLive r hr)
    · simp
  · rw [h3]; exact h.chNodup
  · intro r hr
    rw [h3] at hr
    rw [h1]
    simp only [List.mem_append]
    exact ⟨Or.inl (h.chLive r hr).1, Or.inl (h.chLive r hr).2⟩
  · intro a c
    rw [h3]
    simp only [hpar]
    exact h.chStep a c
  · rw [h3]; exact h.chIrrefl

/-- The rows create_sub_crate adds to the hierarchy. -/
theorem hierarchyRowsFor_eq (h : FInv db) (n q : Id) :
    hierarchyRowsFor db.ch n q = (anc db q).map (fun a => (a, n)) ++ [(q, n)] := by
  unfold hierarchyRowsFor
  have : (db.ch.filter (·.2 == q)).map (fun r => (r.1, n)) = (anc db q).map (fun a => (a, n)) := by
    unfold anc; rw [List.map_map]; rfl
  rw [this]
  apply eraseDups_of_nodup
  rw [List.nodup_append]
  refine ⟨?_, by simp, ?_⟩
  · apply List.Nodup.map_on _ (h.anc_nodup q)
    intro x _ y _ hxy
    exact (Prod.mk.inj hxy).1
  · intro a ha b hb
    rw [List.mem_singleton] at hb
    rw [List.mem_map] at ha
    obtain ⟨x, hx, rfl⟩ := ha
    rintro rfl
    have : x = q := (Prod.mk.inj hb).1
    exact h.chIrrefl q (FInv.mem_anc.mp (this ▸ hx))

theorem mem_hierarchyRowsFor (h : FInv db) (n q : Id) (x : Id × Id) :
    x ∈ hierarchyRowsFor db.ch n q ↔ x.2 = n ∧ (x.1 = q ∨ (x.1, q) ∈ db.ch) := by
  rw [hierarchyRowsFor_eq h, List.mem_append, List.mem_map, List.mem_singleton]
  constructor
  · rintro (⟨a, ha, rfl⟩ | rfl)
    · exact ⟨rfl, Or.inr (FInv.mem_anc.mp ha)⟩
    · exact ⟨rfl, Or.inl rfl⟩
  · rintro ⟨h2, h1 | h1⟩
    · right; exact Prod.ext h1 h2
    · left; exact ⟨x.1, FInv.mem_anc.mpr h1, Prod.ext rfl h2.symm⟩

/-- create_sub_crate -/
theorem FInv.add_leaf (h : FInv db) {db' : Db} {n q : Id} (hn : n ∉ ids db) (hq : q ∈ ids db)
    (h1 : ids db' = ids db ++ [n]) (h2 : db'.cpl = db.cpl ++ [(n, q)])
    (h3 : db'.ch = db.ch ++ hierarchyRowsFor db.ch n q) : FInv db' := by
  have hqn : q ≠ n := fun e => hn (e ▸ hq)
  have hpar : ∀ c p, Par db' c p ↔ (Par db c p ∨ (c = n ∧ p = q)) := by
    intro c p
    unfold Par
    rw [h2, List.mem_append, List.mem_singleton]
    constructor
    · rintro ⟨hm | he, hne⟩
      · exact Or.inl ⟨hm, hne⟩
      · cases he; exact Or.inr ⟨rfl, rfl⟩
    · rintro (⟨hm, hne⟩ | ⟨rfl, rfl⟩)
      · exact ⟨Or.inl hm, hne⟩
      · exact ⟨Or.inr rfl, hqn⟩
  have hmem : ∀ a c, (a, c) ∈ db'.ch ↔ ((a, c) ∈ db.ch ∨ (c = n ∧ (a = q ∨ (a, q) ∈ db.ch))) := by
    intro a c
    rw [h3, List.mem_append, mem_hierarchyRowsFor h]
  have hold_n : ∀ a, (a, n) ∉ db.ch := fun a hm => hn (h.chLive _ hm).2
  have hold_n' : ∀ a, (n, a) ∉ db.ch := fun a hm => hn (h.chLive _ hm).1
  constructor
  · rw [h1, List.nodup_append]
    refine ⟨h.idsNodup, by simp, ?_⟩
    intro a ha b hb
    rw [List.mem_singleton] at hb
    rintro rfl; exact hn (hb ▸ ha)
  · rw [h2, List.map_append, List.nodup_append]
    refine ⟨h.cplNodup, by simp, ?_⟩
    intro a ha b hb
    simp only [List.map_cons, List.map_nil, List.mem_singleton] at hb
    rintro rfl; exact hn (hb ▸ (h.cplTotal _).mp ha)
  · intro c
    rw [h1, h2, List.map_append, List.mem_append, List.mem_append, h.cplTotal c]
    simp
  · intro r hr
    rw [h2, List.mem_append, List.mem_singleton] at hr
    rw [h1, List.mem_append]
    rcases hr with hr | rfl
    · exact Or.inl (h.cplParentLive r hr)
    · exact Or.inl hq
  · rw [h3, List.nodup_append]
    refine ⟨h.chNodup, ?_, ?_⟩
    · rw [hierarchyRowsFor_eq h]
      rw [List.nodup_append]
      refine ⟨?_, by simp, ?_⟩
      · apply List.Nodup.map_on _ (h.anc_nodup q)
        intro x _ y _ hxy
        exact (Prod.mk.inj hxy).1
      · intro a ha b hb
        rw [List.mem_singleton] at hb
        rw [List.mem_map] at ha
        obtain ⟨x, hx, rfl⟩ := ha
        rintro rfl
        have : x = q := (Prod.mk.inj hb).1
        exact h.chIrrefl q (FInv.mem_anc.mp (this ▸ hx))
    · intro a ha b hb
      rw [mem_hierarchyRowsFor h] at hb
      rintro rfl
      exact hold_n a.1 (by rw [← hb.1]; exact ha)
  · intro r hr
    rw [h1]
    simp only [List.mem_append, List.mem_singleton]
    have := (hmem r.1 r.2).mp hr
    rcases this with hm | ⟨hc, ha | ha⟩
    · exact ⟨Or.inl (h.chLive _ hm).1, Or.inl (h.chLive _ hm).2⟩
    · exact ⟨Or.inl (ha ▸ hq), Or.inr hc⟩
    · exact ⟨Or.inl (h.chLive _ ha).1, Or.inr hc⟩
  · intro a c
    rw [hmem]
    by_cases hc : c = n
    · subst hc
      constructor
      · rintro (hm | ⟨_, hor⟩)
        · exact absurd hm (hold_n a)
        · refine ⟨q, (hpar _ _).mpr (Or.inr ⟨rfl, rfl⟩), ?_⟩
          rcases hor with rfl | hm
          · exact Or.inl rfl
          · exact Or.inr ((hmem _ _).mpr (Or.inl hm))
      · rintro ⟨p, hp, hor⟩
        rcases (hpar _ _).mp hp with hp | ⟨_, rfl⟩
        · exact absurd (h.par_live hp).1 hn
        · right
          refine ⟨rfl, ?_⟩
          rcases hor with rfl | hm
          · exact Or.inl rfl
          · rcases (hmem _ _).mp hm with hm | ⟨e, _⟩
            · exact Or.inr hm
            · exact absurd e hqn
    · constructor
      · rintro (hm | ⟨e, _⟩)
        · obtain ⟨p, hp, hor⟩ := (h.chStep a c).mp hm
          refine ⟨p, (hpar _ _).mpr (Or.inl hp), ?_⟩
          rcases hor with rfl | hm
          · exact Or.inl rfl
          · exact Or.inr ((hmem _ _).mpr (Or.inl hm))
        · exact absurd e hc
      · rintro ⟨p, hp, hor⟩
        rcases (hpar _ _).mp hp with hp | ⟨e, _⟩
        · left
          rw [h.chStep a c]
          refine ⟨p, hp, ?_⟩
          rcases hor with rfl | hm
          · exact Or.inl rfl
          · rcases (hmem _ _).mp hm with hm | ⟨e, _⟩
            · exact Or.inr hm
            · exact absurd (e ▸ (h.par_live hp).2) hn
        · exact absurd e hc
  · intro c hm
    rcases (hmem _ _).mp hm with hm | ⟨rfl, rfl | hm⟩
    · exact h.chIrrefl c hm
    · exact hqn rfl
    · exact hold_n' _ hm

/-! ### sub-trees -/

/-- `y` is `c` or a descendant of `c`. -/
def Sub (db : Db) (c y : Id) : Prop := y = c ∨ (c, y) ∈ db.ch

namespace FInv

theorem anc_not_sub (h : FInv db) {c a : Id} (ha : (a, c) ∈ db.ch) : ¬ Sub db c a := by
  rintro (rfl | hm)
  · exact h.chIrrefl _ ha
  · exact h.chIrrefl c (h.ch_trans c c a hm ha)

theorem sub_par (h : FInv db) {c y p : Id} (hs : Sub db c y) (hyc : y ≠ c) (hp : Par db y p) : Sub db c p := by
  rcases hs with rfl | hm
  · exact absurd rfl hyc
  · rcases (h.ch_up hp).mp hm with rfl | hm
    · exact Or.inl rfl
    · exact Or.inr hm

theorem not_sub_par (h : FInv db) {c y p : Id} (hs : ¬ Sub db c y) (hp : Par db y p) : ¬ Sub db c p := by
  rintro (rfl | hm)
  · exact hs (Or.inr (h.ch_of_par hp))
  · exact hs (Or.inr ((h.ch_up hp).mpr (Or.inr hm)))

theorem not_sub_anc (h : FInv db) {c y a : Id} (hs : ¬ Sub db c y) (ha : (a, y) ∈ db.ch) : ¬ Sub db c a := by
  rintro (rfl | hm)
  · exact hs (Or.inr ha)
  · exact hs (Or.inr (h.ch_trans y c a hm ha))

/-- An ancestor of a member of the sub-tree of `c` is in the sub-tree or above `c`. -/
theorem sub_anc (h : FInv db) (c a : Id) : ∀ y, Sub db c y → (a, y) ∈ db.ch → Sub db c a ∨ (a, c) ∈ db.ch := by
  apply h.par_induction (P := fun y => Sub db c y → (a, y) ∈ db.ch → Sub db c a ∨ (a, c) ∈ db.ch)
  intro y ih hs ha
  by_cases hyc : y = c
  · subst hyc; exact Or.inr ha
  · obtain ⟨p, hp, hor⟩ := (h.chStep a y).mp ha
    have hsp := h.sub_par hs hyc hp
    rcases hor with rfl | hm
    · exact Or.inl hsp
    · exact ih p hp hsp hm

theorem sub_live (h : FInv db) {c y : Id} (hc : c ∈ ids db) (hs : Sub db c y) : y ∈ ids db := by
  rcases hs with rfl | hm
  · exact hc
  · exact (h.chLive _ hm).2

end FInv

/-- set_parent (after the cycle check): the sub-tree of `c` is detached from the old
ancestors of `c` and attached below `parent` and its ancestors. -/
theorem FInv.reparent (h : FInv db) {db' : Db} {c : Id} (parent : Option Id) (hc : c ∈ ids db)
    (hq : ∀ q, parent = some q → q ∈ ids db ∧ q ≠ c ∧ (c, q) ∉ db.ch)
    (h1 : ids db' = ids db)
    (h2 : db'.cpl = db.cpl.filter (fun r => !(r.1 == c)) ++ [(c, parent.getD c)])
    (hmem : ∀ a y, (a, y) ∈ db'.ch ↔
      (((a, y) ∈ db.ch ∧ ¬ ((a, c) ∈ db.ch ∧ Sub db c y)) ∨
       (∃ q, parent = some q ∧ (a = q ∨ (a, q) ∈ db.ch) ∧ Sub db c y)))
    (hnd : db'.ch.Nodup) : FInv db' := by
  have hpar : ∀ y p, Par db' y p ↔ ((y ≠ c ∧ Par db y p) ∨ (y = c ∧ parent = some p)) := by
    intro y p
    unfold Par
    rw [h2, List.mem_append, List.mem_filter, List.mem_singleton]
    simp only [Bool.not_eq_eq_eq_not, Bool.not_true, beq_eq_false_iff_ne, ne_eq, Prod.mk.injEq]
    constructor
    · rintro ⟨⟨hm, hyc⟩ | ⟨rfl, hpe⟩, hne⟩
      · exact Or.inl ⟨hyc, hm, hne⟩
      · right
        refine ⟨rfl, ?_⟩
        cases parent with
        | none => exact absurd hpe hne
        | some q => simp only [Option.getD_some] at hpe; rw [hpe]
    · rintro (⟨hyc, hm, hne⟩ | ⟨rfl, hpe⟩)
      · exact ⟨Or.inl ⟨hm, hyc⟩, hne⟩
      · subst hpe
        exact ⟨Or.inr ⟨rfl, rfl⟩, (hq p rfl).2.1⟩
  -- the new ancestors are outside the moved sub-tree
  have hnew : ∀ a q, parent = some q → (a = q ∨ (a, q) ∈ db.ch) → ¬ Sub db c a := by
    intro a q hpq hor hs
    obtain ⟨_, hqc, hcq⟩ := hq q hpq
    rcases hor with rfl | hm
    · rcases hs with rfl | hs
      · exact hqc rfl
      · exact hcq hs
    · rcases hs with rfl | hs
      · exact hcq hm
      · exact hcq (h.ch_trans q c a hs hm)
  constructor
  · rw [h1]; exact h.idsNodup
  · rw [h2, List.map_append, List.nodup_append]
    refine ⟨(h.cplNodup.sublist (List.Sublist.map _ List.filter_sublist)), by simp, ?_⟩
    intro a ha b hb
    simp only [List.map_cons, List.map_nil, List.mem_singleton] at hb
    rw [List.mem_map] at ha
    obtain ⟨r, hr, rfl⟩ := ha
    rw [List.mem_filter] at hr
    rintro rfl
    simp [hb] at hr
  · intro y
    rw [h1, h2, List.map_append, List.mem_append, ← h.cplTotal y]
    simp only [List.mem_map, List.mem_filter, List.map_cons, List.map_nil, List.mem_singleton]
    constructor
    · rintro (⟨r, ⟨hr, _⟩, rfl⟩ | rfl)
      · exact ⟨r, hr, rfl⟩
      · exact List.mem_map.mp ((h.cplTotal y).mpr hc)
    · rintro ⟨r, hr, rfl⟩
      by_cases hrc : r.1 = c
      · exact Or.inr hrc
      · exact Or.inl ⟨r, ⟨hr, by simpa using hrc⟩, rfl⟩
  · intro r hr
    rw [h1]
    rw [h2, List.mem_append, List.mem_filter, List.mem_singleton] at hr
    rcases hr with ⟨hr, _⟩ | rfl
    · exact h.cplParentLive r hr
    · cases hp : parent with
      | none => simpa using hc
      | some q => simpa using (hq q hp).1
  · exact hnd
  · intro r hr
    rw [h1]
    rcases (hmem r.1 r.2).mp hr with ⟨hm, _⟩ | ⟨q, hpq, hor, hs⟩
    · exact h.chLive _ hm
    · refine ⟨?_, h.sub_live hc hs⟩
      rcases hor with e | hm
      · rw [e]; exact (hq q hpq).1
      · exact (h.chLive _ hm).1
  · intro a y
    rw [hmem]
    by_cases hyc : y = c
    · subst hyc
      have hsy : Sub db y y := Or.inl rfl
      constructor
      · rintro (⟨hm, hn⟩ | ⟨q, hpq, hor, _⟩)
        · exact absurd ⟨hm, hsy⟩ hn
        · refine ⟨q, (hpar _ _).mpr (Or.inr ⟨rfl, hpq⟩), ?_⟩
          rcases hor with rfl | hm
          · exact Or.inl rfl
          · right
            rw [hmem]
            left
            exact ⟨hm, fun hh => (hq q hpq).2.2 (by
              rcases hh.2 with e | hs
              · exact absurd e (hq q hpq).2.1
              · exact hs)⟩
      · rintro ⟨p, hp, hor⟩
        rcases (hpar _ _).mp hp with ⟨hne, _⟩ | ⟨_, hpq⟩
        · exact absurd rfl hne
        · right
          refine ⟨p, hpq, ?_, hsy⟩
          rcases hor with rfl | hm
          · exact Or.inl rfl
          · rcases (hmem _ _).mp hm with ⟨hm, _⟩ | ⟨q', hpq', _, hs⟩
            · exact Or.inr hm
            · exact absurd hs (hnew p p hpq (Or.inl rfl))
    · by_cases hs : Sub db c y
      · -- inside the moved sub-tree, below its top
        have hcy : (c, y) ∈ db.ch := by
          rcases hs with e | hm
          · exact absurd e hyc
          · exact hm
        obtain ⟨p, hp, _⟩ := (h.chStep c y).mp hcy
        have hsp := h.sub_par hs hyc hp
        have hp' : Par db' y p := (hpar _ _).mpr (Or.inl ⟨hyc, hp⟩)
        constructor
        · rintro (⟨hm, hn⟩ | ⟨q, hpq, hor, _⟩)
          · refine ⟨p, hp', ?_⟩
            rcases (h.ch_up hp).mp hm with rfl | hm'
            · exact Or.inl rfl
            · right
              rw [hmem]
              left
              exact ⟨hm', fun hh => hn ⟨hh.1, hs⟩⟩
          · refine ⟨p, hp', Or.inr ?_⟩
            rw [hmem]
            right
            exact ⟨q, hpq, hor, hsp⟩
        · rintro ⟨p2, hp2, hor⟩
          rcases (hpar _ _).mp hp2 with ⟨_, hp2⟩ | ⟨e, _⟩
          · have : p2 = p := h.par_unique hp2 hp
            subst this
            rcases hor with rfl | hm
            · left
              exact ⟨h.ch_of_par hp, fun hh => h.anc_not_sub hh.1 hsp⟩
            · rcases (hmem _ _).mp hm with ⟨hm, hn⟩ | ⟨q, hpq, hor, _⟩
              · left
                exact ⟨(h.ch_up hp).mpr (Or.inr hm), fun hh => hn ⟨hh.1, hsp⟩⟩
              · right
                exact ⟨q, hpq, hor, hs⟩
          · exact absurd e hyc
      · -- outside the moved sub-tree nothing changes
        constructor
        · rintro (⟨hm, _⟩ | ⟨_, _, _, hs'⟩)
          · obtain ⟨p, hp, hor⟩ := (h.chStep a y).mp hm
            refine ⟨p, (hpar _ _).mpr (Or.inl ⟨hyc, hp⟩), ?_⟩
            rcases hor with rfl | hm'
            · exact Or.inl rfl
            · right
              rw [hmem]
              left
              exact ⟨hm', fun hh => h.not_sub_par hs hp hh.2⟩
          · exact absurd hs' hs
        · rintro ⟨p, hp, hor⟩
          rcases (hpar _ _).mp hp with ⟨_, hp⟩ | ⟨e, _⟩
          · left
            refine ⟨(h.chStep a y).mpr ⟨p, hp, ?_⟩, fun hh => hs hh.2⟩
            rcases hor with rfl | hm
            · exact Or.inl rfl
            · rcases (hmem _ _).mp hm with ⟨hm, _⟩ | ⟨_, _, _, hs'⟩
              · exact Or.inr hm
              · exact absurd hs' (h.not_sub_par hs hp)
          · exact absurd e hyc
  · intro y hm
    rcases (hmem _ _).mp hm with ⟨hm, _⟩ | ⟨q, hpq, hor, hs⟩
    · exact h.chIrrefl y hm
    · exact hnew y q hpq hor hs

/-- remove_crate: the crate and its whole sub-tree disappear from all three relations. -/
theorem FInv.remove (h : FInv db) {db' : Db} {c : Id}
    (h1 : ∀ y, y ∈ ids db' ↔ (y ∈ ids db ∧ ¬ Sub db c y)) (hnd1 : (ids db').Nodup)
    (h2 : ∀ r, r ∈ db'.cpl ↔ (r ∈ db.cpl ∧ ¬ Sub db c r.1)) (hnd2 : (db'.cpl.map (·.1)).Nodup)
    (h3 : ∀ r, r ∈ db'.ch ↔ (r ∈ db.ch ∧ ¬ Sub db c r.1 ∧ ¬ Sub db c r.2)) (hnd3 : db'.ch.Nodup) : FInv db' := by
  have hpar : ∀ y p, Par db' y p ↔ (Par db y p ∧ ¬ Sub db c y) := by
    intro y p
    unfold Par
    rw [h2]
    constructor
    · rintro ⟨⟨hm, hs⟩, hne⟩; exact ⟨⟨hm, hne⟩, hs⟩
    · rintro ⟨⟨hm, hne⟩, hs⟩; exact ⟨⟨hm, hs⟩, hne⟩
  constructor
  · exact hnd1
  · exact hnd2
  · intro y
    rw [h1, ← h.cplTotal y]
    simp only [List.mem_map]
    constructor
    · rintro ⟨r, hr, rfl⟩
      rw [h2] at hr
      exact ⟨⟨r, hr.1, rfl⟩, hr.2⟩
    · rintro ⟨⟨r, hr, rfl⟩, hs⟩
      exact ⟨r, (h2 r).mpr ⟨hr, hs⟩, rfl⟩
  · intro r hr
    rw [h2] at hr
    rw [h1]
    refine ⟨h.cplParentLive r hr.1, ?_⟩
    by_cases he : r.2 = r.1
    · rw [he]; exact hr.2
    · exact h.not_sub_par hr.2 (p := r.2) ⟨hr.1, he⟩
  · exact hnd3
  · intro r hr
    rw [h3] at hr
    rw [h1, h1]
    exact ⟨⟨(h.chLive r hr.1).1, hr.2.1⟩, ⟨(h.chLive r hr.1).2, hr.2.2⟩⟩
  · intro a y
    rw [h3]
    constructor
    · rintro ⟨hm, hsa, hsy⟩
      obtain ⟨p, hp, hor⟩ := (h.chStep a y).mp hm
      refine ⟨p, (hpar _ _).mpr ⟨hp, hsy⟩, ?_⟩
      rcases hor with rfl | hm'
      · exact Or.inl rfl
      · right
        rw [h3]
        exact ⟨hm', hsa, h.not_sub_par hsy hp⟩
    · rintro ⟨p, hp, hor⟩
      obtain ⟨hp, hsy⟩ := (hpar _ _).mp hp
      rcases hor with rfl | hm
      · exact ⟨h.ch_of_par hp, h.not_sub_par hsy hp, hsy⟩
      · rw [h3] at hm
        exact ⟨(h.ch_up hp).mpr (Or.inr hm.1), hm.2.1, hsy⟩
  · intro y hm
    rw [h3] at hm
    exact h.chIrrefl y hm.1

end EngineModel.Api.CratesV1
