/-
Schema 2.x crate contents: crate::tracks against Spec.Members, and the frame property of the Spec judge.
-/
import Proofs.V2Members

set_option linter.dupNamespace false
set_option linter.unusedSimpArgs false

namespace EngineModel.Db.V2

open EngineModel.Db.Chain EngineModel.Spec EngineModel.ListAux

theorem nodup_map_of_inj_on {β γ δ : Type} {l : List β} (f : β → γ) (g : β → δ) (h : (l.map f).Nodup)
    (hinj : ∀ x ∈ l, ∀ y ∈ l, g x = g y → f x = f y) : (l.map g).Nodup := by
  induction l with
  | nil => simp
  | cons a l ih =>
    simp only [List.map_cons, List.nodup_cons, List.mem_map, not_exists, not_and] at h ⊢
    refine ⟨?_, ih h.2 (fun x hx y hy => hinj x (List.mem_cons_of_mem _ hx) y (List.mem_cons_of_mem _ hy))⟩
    intro y hy e
    exact h.1 y hy (hinj y (List.mem_cons_of_mem _ hy) a (by simp) e)

theorem mem_tracksOf {s : Members.State} {c t : Int} : t ∈ Members.tracksOf s c ↔ (c, t) ∈ s.pairs := by
  simp only [Members.tracksOf, List.mem_map, List.mem_filter, beq_iff_eq]
  constructor
  · rintro ⟨p, ⟨hp, h1⟩, h2⟩
    have : p = (c, t) := by cases p; simp_all
    rw [← this]; exact hp
  · intro h; exact ⟨(c, t), ⟨h, rfl⟩, rfl⟩

theorem mem_pairs_iff {d : Db} {c t : Int} :
    (c, t) ∈ (absM d).pairs ↔ ∃ r ∈ d.pe, r.key = c ∧ r.val.track = t ∧ r.val.uuid = 0 := by
  rw [absM_pairs]
  simp only [List.mem_map, List.mem_filter, pairOf, Prod.mk.injEq]
  constructor
  · rintro ⟨k, ⟨hk, ho⟩, e1, e2⟩
    obtain ⟨r, hr, rfl⟩ := mem_cores.mp hk
    exact ⟨r, hr, e1, e2, own_iff.mp ho⟩
  · rintro ⟨r, hr, e1, e2, e3⟩
    exact ⟨core r, ⟨mem_cores.mpr ⟨r, hr, rfl⟩, own_iff.mpr e3⟩, e1, e2⟩

/-- crate::tracks lists exactly the Spec's contents of the crate: each track once, only live tracks — whatever
entries of other databases the list holds besides. -/
theorem qTracks_spec {S : Ord} {d : Db} (hC : ChInv S d) (hM : MemInv d) (c : Int) :
    ∃ l, qTracks d c = .ok l ∧ l.Nodup ∧ (∀ t, t ∈ l ↔ t ∈ Members.tracksOf (absM d) c) ∧ ∀ t ∈ l, t ∈ qAllTracks d := by
  obtain ⟨rows, hw, hm, hr⟩ := walkBack_spec hC.re c
  have hmemiff : ∀ t, t ∈ (rows.filter (·.val.uuid == 0)).map (·.val.track) ↔ (c, t) ∈ (absM d).pairs := by
    intro t
    rw [mem_pairs_iff]
    constructor
    · intro h
      obtain ⟨r, hrm, rfl⟩ := List.mem_map.mp h
      obtain ⟨hr1, hr2⟩ := List.mem_filter.mp hrm
      exact ⟨r, (hr r hr1).1, (hr r hr1).2, rfl, by simpa using hr2⟩
    · rintro ⟨r, hrt, hk, hv, hu⟩
      have h1 : r.id ∈ S.entIds c := hk ▸ hC.re.mem r hrt
      rw [← hm] at h1
      obtain ⟨r', hr', e⟩ := List.mem_map.mp h1
      have := eq_of_id_eq hC.re.ids_nodup (hr r' hr').1 hrt e
      rw [← hv]
      exact List.mem_map.mpr ⟨r', List.mem_filter.mpr ⟨hr', by rw [this]; simpa using hu⟩, by rw [this]⟩
  refine ⟨(rows.filter (·.val.uuid == 0)).map (·.val.track), by simp [qTracks, hw, Res.bind], ?_, ?_, ?_⟩
  · have hnd : ((rows.filter (·.val.uuid == 0)).map (fun r : Row Ent => r.id)).Nodup :=
      List.Nodup.sublist (List.Sublist.map _ List.filter_sublist) (hm ▸ hC.re.nodup c)
    apply nodup_map_of_inj_on (l := rows.filter (·.val.uuid == 0)) (fun r : Row Ent => r.id) (fun r : Row Ent => r.val.track) hnd
    intro x hx y hy e
    obtain ⟨hx1, hx2⟩ := List.mem_filter.mp hx
    obtain ⟨hy1, hy2⟩ := List.mem_filter.mp hy
    have hxv : x.val = y.val := by
      have h1 : x.val.uuid = 0 := by simpa using hx2
      have h2 : y.val.uuid = 0 := by simpa using hy2
      cases hx' : x.val; cases hy' : y.val
      simp_all
    have := hC.pairs.pair_unique (core x) (mem_cores.mpr ⟨x, (hr x hx1).1, rfl⟩) (core y) (mem_cores.mpr ⟨y, (hr y hy1).1, rfl⟩)
      (by simp [core, (hr x hx1).2, (hr y hy1).2]) (by simp [core, hxv])
    exact congrArg (·.1) this
  · intro t; rw [hmemiff, mem_tracksOf]
  · intro t ht
    obtain ⟨r, hrt, _, hv, hu⟩ := mem_pairs_iff.mp ((hmemiff t).mp ht)
    exact hv ▸ (hM.live (core r) (mem_cores.mpr ⟨r, hrt, rfl⟩) hu).2

/-! ### frame -/

/-- The pairs an operation of the membership Spec is about. -/
def touches : Members.Op → Int × Int → Prop
  | .add c t, p => p = (c, t)
  | .remove c t, p => p = (c, t)
  | .clear c, p => p.1 = c
  | .dropTrack t, p => p.2 = t
  | .dropCrates cs, p => p.1 ∈ cs
  | .newCrate _, _ => False
  | .newTrack _, _ => False

theorem next_cases {v : Members.Verdict} {s s' : Members.State} {ok : Bool} (h : v.next s ok = some s') :
    s' = s ∨ v = .accept s' ∨ v = .either s' := by
  cases v <;> cases ok <;> simp [Members.Verdict.next] at h <;> simp [h]

theorem spec_frame {s s' : Members.State} {mop : Members.Op} {ok : Bool} (h : judgeM1 s mop ok = some s')
    (p : Int × Int) (hp : ¬ touches mop p) : p ∈ s'.pairs ↔ p ∈ s.pairs := by
  have key : ∀ v : Members.Verdict, v.next s ok = some s' →
      (∀ s'' : Members.State, (v = .accept s'' ∨ v = .either s'') → (p ∈ s''.pairs ↔ p ∈ s.pairs)) →
      (p ∈ s'.pairs ↔ p ∈ s.pairs) := by
    intro v hv hall
    rcases next_cases hv with e | e | e
    · rw [e]
    · exact hall s' (Or.inl e)
    · exact hall s' (Or.inr e)
  cases mop with
  | newCrate c =>
    apply key _ h
    intro s'' hs
    simp only [Members.step] at hs
    rcases hs with hs | hs <;> simp at hs <;> rw [← hs]
  | newTrack t =>
    simp only [judgeM1] at h
    split at h
    · simp at h
    · apply key _ h
      intro s'' hs
      simp only [Members.step] at hs
      rcases hs with hs | hs <;> simp at hs <;> rw [← hs]
  | dropCrates cs =>
    apply key _ h
    intro s'' hs
    simp only [Members.step] at hs
    have hpc : p.1 ∉ cs := hp
    rcases hs with hs | hs <;> simp at hs
    rw [← hs]
    simp [List.mem_filter, hpc]
  | dropTrack t =>
    apply key _ h
    intro s'' hs
    simp only [Members.step] at hs
    have hpt : p.2 ≠ t := hp
    split at hs
    · rcases hs with hs | hs <;> simp at hs; rw [← hs]
    · rcases hs with hs | hs <;> simp at hs
      rw [← hs]
      simp [List.mem_filter, hpt]
  | add c t =>
    apply key _ h
    intro s'' hs
    simp only [Members.step] at hs
    have hpt : p ≠ (c, t) := hp
    split at hs
    · rcases hs with hs | hs <;> simp at hs
    · split at hs
      · rcases hs with hs | hs <;> simp at hs; rw [← hs]
      · split at hs
        · rcases hs with hs | hs <;> simp at hs; rw [← hs]
        · rcases hs with hs | hs <;> simp at hs
          rw [← hs]
          simp [hpt]
  | remove c t =>
    apply key _ h
    intro s'' hs
    simp only [Members.step] at hs
    have hpt : p ≠ (c, t) := hp
    split at hs
    · rcases hs with hs | hs <;> simp at hs; rw [← hs]
    · rcases hs with hs | hs <;> simp at hs
      rw [← hs]
      simp [List.mem_filter, hpt]
  | clear c =>
    apply key _ h
    intro s'' hs
    simp only [Members.step] at hs
    have hpc : p.1 ≠ c := hp
    split at hs
    · rcases hs with hs | hs <;> simp at hs; rw [← hs]
    · rcases hs with hs | hs <;> simp at hs
      rw [← hs]
      simp [List.mem_filter, hpc]

theorem foldlM_frame (ok : Bool) (p : Int × Int) : ∀ (mops : List Members.Op) (s s' : Members.State),
    mops.foldlM (fun s mop => judgeM1 s mop ok) s = some s' → (∀ mop ∈ mops, ¬ touches mop p) →
    (p ∈ s'.pairs ↔ p ∈ s.pairs) := by
  intro mops
  induction mops with
  | nil => intro s s' h _; simp at h; rw [h]
  | cons m mops ih =>
    intro s s' h hp
    simp only [List.foldlM_cons] at h
    cases h1 : judgeM1 s m ok with
    | none => rw [h1] at h; simp at h
    | some s1 =>
      rw [h1] at h
      simp only [Option.bind_eq_bind, Option.bind_some] at h
      rw [ih s1 s' h (fun mop hm => hp mop (List.mem_cons_of_mem _ hm)), spec_frame h1 p (hp m (by simp))]

/-- Frame: an operation leaves untouched every (crate, track) pair it is not about. -/
theorem step_frame {S : Ord} {d : Db} (hI : Inv S d) (op : Op) (hm : memOp op = true) (p : Int × Int)
    (hp : ∀ mop ∈ membersOps (absF d) op (step d op).2, ¬ touches mop p) :
    p ∈ (absM (step d op).1).pairs ↔ p ∈ (absM d).pairs := by
  have hj := (mstep hI.mem hI.pl hI.ch op hm).judge
  unfold judgeM at hj
  cases ho : outcome (step d op).2 with
  | none => rw [ho] at hj; simp at hj
  | some ok =>
    rw [ho] at hj
    exact foldlM_frame ok p _ _ _ hj hp

end EngineModel.Db.V2
