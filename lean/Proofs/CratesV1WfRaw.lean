/-
`Inv db → WfRaw db = true`: the executable well-formedness predicate of C11
(what the tie evaluates on the raw rows of the real database) follows from the
invariant that every operation of the schema-1.x model preserves.
-/
import Proofs.CratesV1Frame

namespace EngineModel.Api.CratesV1
open EngineModel.Pure.Detect EngineModel.Spec

variable {db : Db}

theorem nodupB_iff {α} [BEq α] [LawfulBEq α] (l : List α) : nodupB l = true ↔ l.Nodup := by
  induction l with
  | nil => simp [nodupB]
  | cons a l ih => simp [nodupB, ih]

/-- Every stored path is the names from the root down to the crate, each followed by ';'. -/
theorem path_eq_pathFuel (h : Inv db) : ∀ n, ∀ r ∈ db.crate, depth db r.id < n →
    r.path = pathFuel (absForest db) n r.id := by
  have hf := h.toFInv
  intro n
  induction n with
  | zero => intro r _ hd; omega
  | succ n ih =>
    intro r hr hd
    unfold pathFuel
    rw [abs_find_of_mem hf hr]
    simp only
    obtain ⟨p0, hp0⟩ := hf.live_has_row (List.mem_map_of_mem (f := (·.id)) hr)
    cases hp : parentOf db r.id with
    | none =>
      have hroot : (r.id, r.id) ∈ db.cpl := (root_row_iff hf hr).mp hp
      rw [h.pathStep r hr r.id hroot]
      simp
    | some p =>
      have hpar : Par db r.id p := (parentOf_eq_some hf).mp hp
      rw [h.pathStep r hr p hpar.1]
      simp only [hpar.2, if_false]
      obtain ⟨rp, hrp, hrpid⟩ := exists_row (hf.par_live hpar).2
      have hdp := hf.depth_par hpar
      rw [← hrpid, rowPath_of_mem hf.idsNodup hrp, ih rp hrp (by rw [hrpid]; omega)]

theorem path_eq_pathOf (h : Inv db) : ∀ r ∈ db.crate, r.path = pathOf (absForest db) r.id := by
  intro r hr
  unfold pathOf
  rw [abs_length]
  exact path_eq_pathFuel h _ r hr (h.toFInv.depth_lt (List.mem_map_of_mem (f := (·.id)) hr))

theorem wfRaw_of_inv (h : Inv db) : WfRaw db = true := by
  have hf := h.toFInv
  have hids : ∀ r ∈ db.crate, r.id ∈ ids db := fun r hr => List.mem_map_of_mem (f := (·.id)) hr
  unfold WfRaw wfChecks
  simp only [List.all_cons, List.all_nil, Bool.and_true, Bool.and_eq_true]
  refine ⟨?_, ?_, ?_, ?_, ?_, ?_, ?_, ?_, ?_, ?_, ?_, ?_, ?_, ?_⟩
  · exact (nodupB_iff _).mpr hf.idsNodup
  · rw [List.all_eq_true]; exact h.namesValid
  · exact (nodupB_iff _).mpr hf.cplNodup
  · rw [List.all_eq_true]
    intro c hc
    rw [contains_iff]
    exact (hf.cplTotal c).mpr hc
  · rw [List.all_eq_true]
    intro r hr
    rw [Bool.and_eq_true, contains_iff, contains_iff]
    exact ⟨(hf.cplTotal r.1).mp (List.mem_map_of_mem (f := (·.1)) hr), hf.cplParentLive r hr⟩
  · rw [List.all_eq_true]
    intro c _
    simp only [Bool.not_eq_eq_eq_not, Bool.not_true]
    rw [← Bool.not_eq_true, isAncestor_iff hf]
    exact hf.chIrrefl c
  · exact (nodupB_iff _).mpr hf.chNodup
  · rw [List.all_eq_true]
    intro r hr
    rw [Bool.and_eq_true, contains_iff, contains_iff]
    exact hf.chLive r hr
  · rw [List.all_eq_true]
    intro a _
    rw [List.all_eq_true]
    intro c _
    rw [beq_iff_eq, Bool.eq_iff_iff, contains_iff, isAncestor_iff hf]
  · rw [List.all_eq_true]
    intro r hr
    rw [beq_iff_eq]
    exact path_eq_pathOf h r hr
  · exact (nodupB_iff _).mpr h.ctlNodup
  · rw [List.all_eq_true]
    intro r hr
    rw [contains_iff]
    exact (h.ctlLive r hr).1
  · rw [List.all_eq_true]
    intro r hr
    rw [contains_iff, mem_liveIds]
    exact (h.ctlLive r hr).2
  · exact (nodupB_iff _).mpr h.trackNodup

theorem wfFailures_of_inv (h : Inv db) : wfFailures db = [] := by
  unfold wfFailures
  have := wfRaw_of_inv h
  unfold WfRaw at this
  rw [List.all_eq_true] at this
  rw [List.map_eq_nil_iff, List.filter_eq_nil_iff]
  intro c hc
  rw [this c hc]; simp

end EngineModel.Api.CratesV1
