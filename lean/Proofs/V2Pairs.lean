/-
Schema 2.x PlaylistEntity: what survives in `cores` (id, list, (track, uuid)) across the deletions of the
crate API — ids are a key and no (list, database, track) triple occurs twice (`PairsOk`, the schema's
UNIQUE (listId, databaseUuid, trackId)); the row found by `WHERE listId = ? AND trackId = ? AND databaseUuid = ?`
read off `cores`; the loop of database::remove_track.
-/
import Proofs.V2ForestRun

set_option linter.dupNamespace false
set_option linter.unusedSimpArgs false

namespace EngineModel.Db.V2

open EngineModel.Db.Chain EngineModel.Spec EngineModel.ListAux

theorem contains_cons_ne' {a l : Int} {L : List Int} (h : l ≠ a) : (a :: L).contains l = L.contains l := by
  have : (l == a) = false := by simpa using h
  rw [List.contains_cons, this, Bool.false_or]

/-- ids are a key, and no (list, (track, uuid)) occurs twice. -/
structure PairsOk (cs : List (Int × Int × Ent)) : Prop where
  ids_nodup : (cs.map (·.1)).Nodup
  pair_unique : ∀ c ∈ cs, ∀ c' ∈ cs, c.2.1 = c'.2.1 → c.2.2 = c'.2.2 → c = c'

theorem PairsOk.filter {cs : List (Int × Int × Ent)} (h : PairsOk cs) (q : Int × Int × Ent → Bool) : PairsOk (cs.filter q) :=
  ⟨List.Nodup.sublist (List.Sublist.map _ List.filter_sublist) h.ids_nodup,
   fun c hc c' hc' => h.pair_unique c (List.mem_filter.mp hc).1 c' (List.mem_filter.mp hc').1⟩

theorem pairsOk_nil : PairsOk ([] : List (Int × Int × Ent)) := ⟨by simp, by simp⟩

theorem core_eq_of_id {cs : List (Int × Int × Ent)} (hn : (cs.map (·.1)).Nodup) {c c' : Int × Int × Ent}
    (hc : c ∈ cs) (hc' : c' ∈ cs) (h : c.1 = c'.1) : c = c' := by
  induction cs with
  | nil => simp at hc
  | cons a l ih =>
    simp only [List.map_cons, List.nodup_cons, List.mem_map, not_exists, not_and] at hn
    rcases List.mem_cons.mp hc with h1 | h1 <;> rcases List.mem_cons.mp hc' with h2 | h2
    · rw [h1, h2]
    · subst h1; exact absurd h.symm (hn.1 c' h2)
    · subst h2; exact absurd h (hn.1 c h1)
    · exact ih hn.2 h1 h2

/-- The SELECT `WHERE listId = l AND trackId = t AND databaseUuid = u` over a table. -/
def lookup (pe : Table Ent) (l t u : Int) : Option (Row Ent) :=
  (pe.filter (fun r => r.key == l && r.val.track == t && r.val.uuid == u)).getLast?

theorem peFind_eq_lookup (d : Db) (l t u : Int) : peFind d l t u = lookup d.pe l t u := rfl

theorem ent_eq {v : Ent} {t u : Int} : v = ⟨t, u⟩ ↔ v.track = t ∧ v.uuid = u := by
  cases v; simp

theorem lookup_core {pe : Table Ent} {l t u : Int} {e : Row Ent} (h : lookup pe l t u = some e) :
    core e ∈ cores pe ∧ e ∈ pe ∧ e.key = l ∧ e.val = ⟨t, u⟩ := by
  have hm := List.mem_of_getLast? h
  obtain ⟨h1, h2⟩ := List.mem_filter.mp hm
  simp only [Bool.and_eq_true, beq_iff_eq] at h2
  exact ⟨mem_cores.mpr ⟨e, h1, rfl⟩, h1, h2.1.1, ent_eq.mpr ⟨h2.1.2, h2.2⟩⟩

theorem lookup_none {pe : Table Ent} {l t u : Int} (h : lookup pe l t u = none) :
    ∀ c ∈ cores pe, ¬ (c.2.1 = l ∧ c.2.2 = ⟨t, u⟩) := by
  intro c hc hh
  obtain ⟨r, hr, rfl⟩ := mem_cores.mp hc
  have := List.getLast?_eq_none_iff.mp h
  rw [List.filter_eq_nil_iff] at this
  simp only [core] at hh
  obtain ⟨h1, h2⟩ := ent_eq.mp hh.2
  exact this r hr (by simp [hh.1, h1, h2])

/-- Deleting the row found for (l, t, u) removes exactly the rows of that triple. -/
theorem cores_delete_pair {pe : Table Ent} (hp : PairsOk (cores pe)) {l t u : Int} {e : Row Ent}
    (h : lookup pe l t u = some e) :
    cores (deleteKeyed fires pe l e.id) = (cores pe).filter (fun c => !(c.2.1 == l && c.2.2 == (⟨t, u⟩ : Ent))) := by
  obtain ⟨hce, _, hel, het⟩ := lookup_core h
  rw [cores_deleteKeyed]
  · apply List.filter_congr
    intro c hc
    by_cases hid : c.1 = e.id
    · have : c = core e := core_eq_of_id hp.ids_nodup hc hce hid
      subst this
      simp [core, hel, het]
    · have : ¬ (c.2.1 = l ∧ c.2.2 = ⟨t, u⟩) := by
        intro hh
        have := hp.pair_unique c hc (core e) hce (by simp [core, hh.1, hel]) (by simp [core, hh.2, het])
        exact hid (by rw [this]; rfl)
      have e1 : (c.1 != e.id) = true := by simpa using hid
      by_cases h1 : c.2.1 = l
      · have h2 : c.2.2 ≠ ⟨t, u⟩ := fun e' => this ⟨h1, e'⟩
        have e2 : (c.2.1 == l) = true := by simpa using h1
        have e3 : (c.2.2 == (⟨t, u⟩ : Ent)) = false := by simpa using h2
        rw [e1, e2, e3]; rfl
      · have e2 : (c.2.1 == l) = false := by simpa using h1
        rw [e1, e2]; rfl
  · intro r hr hid
    have : core r = core e := core_eq_of_id hp.ids_nodup (mem_cores.mpr ⟨r, hr, rfl⟩) hce hid
    have : r.key = e.key := congrArg (·.2.1) this
    rw [this, hel]

theorem filter_pair_none {cs : List (Int × Int × Ent)} {l : Int} {v : Ent} (h : ∀ c ∈ cs, ¬ (c.2.1 = l ∧ c.2.2 = v)) :
    cs.filter (fun c => !(c.2.1 == l && c.2.2 == v)) = cs := by
  apply List.filter_eq_self.mpr
  intro c hc
  have := h c hc
  by_cases h1 : c.2.1 = l
  · have h2 : c.2.2 ≠ v := fun e' => this ⟨h1, e'⟩
    simp [h1, h2]
  · simp [h1]

/-- database::remove_track's loop over the lists `L`: the rows (l, (tv, own uuid)) with l among the visited lists go. -/
theorem cores_foldl_removeTrack (tv : Int) (L : List Int) (pe : Table Ent) (hp : PairsOk (cores pe)) :
    cores (L.foldl (rmTrackIn tv) pe) = (cores pe).filter (fun c => !(L.contains c.2.1 && c.2.2 == (⟨tv, 0⟩ : Ent))) := by
  induction L generalizing pe with
  | nil => simp only [List.foldl_nil, List.contains_nil, Bool.false_and, Bool.not_false]
           exact (List.filter_eq_self.mpr (fun _ _ => rfl)).symm
  | cons a L ih =>
    simp only [List.foldl_cons]
    have hstep : ∀ pe1 : Table Ent, cores pe1 = (cores pe).filter (fun c => !(c.2.1 == a && c.2.2 == (⟨tv, 0⟩ : Ent))) →
        cores (L.foldl (rmTrackIn tv) pe1) = (cores pe).filter (fun c => !((a :: L).contains c.2.1 && c.2.2 == (⟨tv, 0⟩ : Ent))) := by
      intro pe1 h1
      rw [ih pe1 (h1 ▸ hp.filter _), h1, List.filter_filter]
      apply List.filter_congr
      intro c _
      by_cases hca : c.2.1 = a
      · by_cases ht : c.2.2 = (⟨tv, 0⟩ : Ent) <;> simp [hca, ht, List.contains_cons]
      · have : (c.2.1 == a) = false := by simpa using hca
        rw [contains_cons_ne' hca, this]
        simp
    unfold rmTrackIn
    cases hl : (pe.filter (fun r => r.key == a && r.val.track == tv && r.val.uuid == 0)).getLast? with
    | none =>
      simp only
      exact hstep pe (filter_pair_none (lookup_none (l := a) (t := tv) (u := 0) hl)).symm
    | some e =>
      simp only
      exact hstep _ (cores_delete_pair hp (l := a) (t := tv) (u := 0) hl)

/-- add_back of a triple that is not there keeps `PairsOk`. -/
theorem pairsOk_append {pe : Table Ent} (hp : PairsOk (cores pe)) {n l t u : Int} (hfresh : n ∉ ids pe)
    (hnone : lookup pe l t u = none) : PairsOk (cores (appendBack pe n l ⟨t, u⟩)) := by
  rw [cores_appendBack]
  constructor
  · rw [List.map_append]
    refine List.nodup_append.mpr ⟨hp.ids_nodup, by simp, ?_⟩
    intro a ha b hb
    simp only [List.map_cons, List.map_nil, List.mem_singleton] at hb
    subst hb
    intro e; subst e
    rw [ids_eq_cores] at hfresh; exact hfresh ha
  · intro x hx y hy e1 e2
    simp only [List.mem_append, List.mem_singleton] at hx hy
    rcases hx with hx | rfl <;> rcases hy with hy | rfl
    · exact hp.pair_unique x hx y hy e1 e2
    · exact absurd ⟨e1, e2⟩ (lookup_none hnone x hx)
    · exact absurd ⟨e1.symm, e2.symm⟩ (lookup_none hnone y hy)
    · rfl

end EngineModel.Db.V2
