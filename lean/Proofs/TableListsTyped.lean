/-
`playlist_table::get` is defined on every state reachable through well-typed
operations (property C18, REVIEW item (a), list-table half).

The only member of `playlist_row` whose read can fail is `last_edit_time`
(`parse_ft` of the stored text converts seconds to nanoseconds: signed
overflow).  `leTyped`: every stored `lastEditTime` is a text whose whole seconds
fit a time point.  It is kept by every operation whose row argument is
well-typed (`wtRowP`, which for the last-edit time includes that its floor is
representable — the complement is the recorded finding
playlist-last-edit-floor-overflow), because no trigger and no other statement
writes that column.
-/
import Proofs.TableListsWf
import Proofs.TableTrackTyped
namespace EngineModel
namespace Table

/-- Every stored `lastEditTime` reads back without overflow. -/
def leTyped (t : Rows PCol) : Prop := ∀ r ∈ t, colTyped .timeText (r .lastEditTime) = true

theorem leTyped_updWhere {t : Rows PCol} (h : leTyped t) (p : Raw PCol → Bool) (f : Raw PCol → Raw PCol)
    (hf : ∀ r, f r .lastEditTime = r .lastEditTime) : leTyped (updWhere t p f) := by
  intro x hx
  unfold updWhere at hx
  obtain ⟨o, ho, hxo⟩ := List.mem_map.mp hx
  rw [← hxo]
  split
  · rw [hf]; exact h o ho
  · exact h o ho

theorem leTyped_filter {t : Rows PCol} (h : leTyped t) (p : Raw PCol → Bool) : leTyped (t.filter p) :=
  fun r hr => h r (List.mem_filter.mp hr).1

theorem leTyped_setCol_next (r : Raw PCol) (v : Val) : setCol r .nextListId v .lastEditTime = r .lastEditTime :=
  setCol_other _ _ (by decide)

theorem leTyped_setCol_persist (r : Raw PCol) (v : Val) : setCol r .isPersisted v .lastEditTime = r .lastEditTime :=
  setCol_other _ _ (by decide)

theorem persistTriggers_le {t t' : Rows PCol} {old : Option (Raw PCol)} {new : Raw PCol}
    (hwf : leTyped t) (h : persistTriggers t old new = .ok t') : leTyped t' := by
  have hsp : ∀ ids v, leTyped (setPersist t ids v) := fun ids v =>
    leTyped_updWhere hwf _ _ (fun r => leTyped_setCol_persist r _)
  unfold persistTriggers at h
  by_cases hup : persistUp old new = true
  · simp only [hup, if_true] at h
    by_cases hac : (!acyclic t) = true
    · simp only [hac, if_true] at h; cases h
    · simp only [hac, Bool.false_eq_true, ↓reduceIte] at h
      cases ha : ancestors t (rowId .id new) with
      | none => rw [ha] at h; cases h
      | some a => rw [ha] at h; simp only [Res.ok.injEq] at h; subst h; exact hsp _ _
  · simp only [hup, Bool.false_eq_true, ↓reduceIte] at h
    by_cases hdown : persistDown old new = true
    · simp only [hdown, if_true] at h
      by_cases hac : (!acyclic t) = true
      · simp only [hac, if_true] at h; cases h
      · simp only [hac, Bool.false_eq_true, ↓reduceIte] at h
        cases hd : descendants t (rowId .id new) with
        | none => rw [hd] at h; cases h
        | some ds => rw [hd] at h; simp only [Res.ok.injEq] at h; subst h; exact hsp _ _
    · simp only [hdown, Bool.false_eq_true, ↓reduceIte, Res.ok.injEq] at h
      subst h; exact hwf

theorem pInsertRow_le {t t' : Rows PCol} (hwf : leTyped t) {raw : Raw PCol}
    (hraw : colTyped .timeText (raw .lastEditTime) = true) (h : pInsertRow t raw = .ok (some t')) : leTyped t' := by
  unfold pInsertRow at h
  simp only at h
  split at h
  · cases h
  · split at h
    · cases h
    · split at h
      · cases h
      · have h3 : leTyped
            (updWhere
              (updWhere t (fun r => r .nextListId == raw .nextListId && r .parentListId == raw .parentListId)
                (fun r => setCol r .nextListId (.int (-(1 + readInt (r .nextListId))))) ++ [raw])
              (fun r => r .nextListId == .int (-(1 + readInt (raw .nextListId))) && r .parentListId == raw .parentListId)
              (fun r => setCol r .nextListId (.int (rowId .id raw)))) := by
          apply leTyped_updWhere _ _ _ (fun r => leTyped_setCol_next r _)
          intro x hx
          simp only [List.mem_append, List.mem_singleton] at hx
          rcases hx with hx | hx
          · exact leTyped_updWhere hwf _ _ (fun r => leTyped_setCol_next r _) x hx
          · subst hx; exact hraw
        cases hp : persistTriggers _ none raw with
        | ok t4 =>
          rw [hp] at h
          simp only [Res.ok.injEq, Option.some.injEq] at h
          subst h
          exact persistTriggers_le h3 hp
        | throw e => rw [hp] at h; cases h
        | ub u => rw [hp] at h; cases h

theorem pUpdNext_le {t t' : Rows PCol} (hwf : leTyped t) {p : Raw PCol → Bool} {v : Raw PCol → Val}
    (h : pUpdNext t p (fun x => setCol x .nextListId (v x)) = some t') : leTyped t' := by
  unfold pUpdNext at h
  simp only at h
  split at h
  · cases h
    exact leTyped_updWhere hwf _ _ (fun r => leTyped_setCol_next r _)
  · cases h

theorem pUpdRow_le {t t' : Rows PCol} (hwf : leTyped t) {i : Int} {ps : List (PCol × Val)}
    (hnew : ∀ old ∈ t, colTyped .timeText (assign old ps .lastEditTime) = true)
    (h : pUpdRow t i ps = .ok (some t')) : leTyped t' := by
  unfold pUpdRow at h
  cases hf : findRow .id t i with
  | none => rw [hf] at h; simp only [Res.ok.injEq, Option.some.injEq] at h; subst h; exact hwf
  | some old =>
    rw [hf] at h
    simp only at h
    split at h
    · cases h
    · have h1 : leTyped (updRow .id t i (fun _ => assign old ps)) := by
        intro x hx
        unfold updRow at hx
        obtain ⟨o, ho, hxo⟩ := List.mem_map.mp hx
        rw [← hxo]
        split
        · exact hnew old (findRow_some hf).1
        · exact hwf o ho
      cases hp : persistTriggers (updRow .id t i (fun _ => assign old ps)) (some old) (assign old ps) with
      | ok t2 =>
        rw [hp] at h
        simp only [Res.ok.injEq, Option.some.injEq] at h
        subst h
        exact persistTriggers_le h1 hp
      | throw e => rw [hp] at h; cases h
      | ub u => rw [hp] at h; cases h

theorem pDeleteRow_le {t t' : Rows PCol} (hwf : leTyped t) {i : Int}
    (h : pDeleteRow t i = some t') : leTyped t' := by
  unfold pDeleteRow at h
  cases hf : findRow .id t i with
  | none => rw [hf] at h; cases h; exact hwf
  | some old =>
    rw [hf] at h
    simp only at h
    split at h
    · cases h
    · cases h
      unfold delWhere
      apply leTyped_filter
      apply leTyped_updWhere _ _ _ (fun r => leTyped_setCol_next r _)
      unfold delRow
      exact leTyped_filter hwf _

theorem foldlM_pDelete_le (l : List Int) {t t' : Rows PCol} (hwf : leTyped t)
    (h : l.foldlM (fun t j => pDeleteRow t j) t = some t') : leTyped t' := by
  induction l generalizing t with
  | nil => simp only [List.foldlM_nil, Option.pure_def, Option.some.injEq] at h; subst h; exact hwf
  | cons j js ih =>
    simp only [List.foldlM_cons, Option.bind_eq_bind] at h
    cases hd : pDeleteRow t j with
    | none => rw [hd] at h; cases h
    | some t1 => rw [hd] at h; exact ih (pDeleteRow_le hwf hd) h

/-- The last-edit column an aligned playlist write stores is typed. -/
theorem written_le {need : List PField} (hneed : PField.last_edit_time ∈ need)
    {ps : List (WB PCol PField)} {r : Row PField} {l : List (PCol × Val)}
    (hps : alignedW pSpec need [] ps = true) (he : evalParams r ps = .ok l) (hr : wtRowP r) (base : Raw PCol) :
    colTyped .timeText (assign base l .lastEditTime) = true := by
  obtain ⟨x, hx, hc⟩ := assign_evalParams hps he base hneed
  rw [show assign base l PCol.lastEditTime = x from hc]
  have hv := hr .last_edit_time
  -- wtv .timeText (.time ns) = in64 ns && in64 (floorSec ns * 10^9); the stored text holds floorSec ns
  simp only [pSpec_tyOf, PField.ty, FTy.wconv] at hx
  cases hval : r .last_edit_time <;> rw [hval] at hv hx <;> simp only [PField.ty, wtv, Bool.false_eq_true] at hv
  case time ns =>
    simp only [wconv, Res.ok.injEq] at hx
    subst hx
    simp only [Bool.and_eq_true] at hv
    exact hv.2

/-- A `playlist_table::add` that does not succeed leaves the state as it was. -/
theorem pAdd_fail_unchanged {st : LStmts} {d d' : LDb} {r : Row PField} {res : Res Int}
    (hres : pAdd st d r = (d', res)) (hne : ∀ i, res ≠ .ok i) : d' = d := by
  unfold pAdd at hres
  split at hres
  · simp only [Prod.mk.injEq] at hres; exact hres.1.symm
  · split at hres
    · split at hres
      · simp only [Prod.mk.injEq] at hres; exact hres.1.symm
      · cases he : evalParams r st.pIns with
        | ok ps =>
          rw [he] at hres
          simp only at hres
          cases hins : pInsertRow d.pl (assign (setCol nullRaw .id (.int (d.plSeq + 1))) ps) with
          | ok o =>
            rw [hins] at hres
            cases o with
            | some t => simp only [Prod.mk.injEq] at hres; exact absurd hres.2.symm (hne _)
            | none => simp only [Prod.mk.injEq] at hres; exact hres.1.symm
          | throw e' => rw [hins] at hres; simp only [Prod.mk.injEq] at hres; exact hres.1.symm
          | ub u => rw [hins] at hres; simp only [Prod.mk.injEq] at hres; exact hres.1.symm
        | throw e' => rw [he] at hres; simp only [Prod.mk.injEq] at hres; exact hres.1.symm
        | ub u => rw [he] at hres; simp only [Prod.mk.injEq] at hres; exact hres.1.symm
    · simp only [Prod.mk.injEq] at hres; exact hres.1.symm

theorem le_pAdd {st : LStmts} (ha : alignedL st = true) {d : LDb} (hwf : leTyped d.pl) {r : Row PField}
    (hr : wtRowP r) : leTyped (pAdd st d r).1.pl := by
  cases hres : pAdd st d r with
  | mk d' res =>
    cases res with
    | ok i =>
      replace ha := alignedL_core ha
      simp only [alignedLcore, Bool.and_eq_true] at ha
      obtain ⟨⟨⟨⟨⟨⟨⟨⟨⟨_, _⟩, hpins⟩, _⟩, _⟩, _⟩, _⟩, _⟩, _⟩, _⟩ := ha
      obtain ⟨ps, t, _, he, hi, hins, hd'⟩ := pAdd_ok hres
      subst hi hd'
      exact pInsertRow_le hwf (written_le (PField.mem_writable.mpr (by decide)) hpins he hr _) hins
    | throw e => rw [pAdd_fail_unchanged hres (by intro i; simp)]; exact hwf
    | ub u => rw [pAdd_fail_unchanged hres (by intro i; simp)]; exact hwf

theorem le_pUpdate {st : LStmts} (ha : alignedL st = true) {d : LDb} (hwf : leTyped d.pl) {r : Row PField}
    (hr : wtRowP r) : leTyped (pUpdate st d r).1.pl := by
  replace ha := alignedL_core ha
  simp only [alignedLcore, Bool.and_eq_true] at ha
  obtain ⟨⟨⟨⟨⟨⟨⟨⟨⟨_, _⟩, _⟩, hfull⟩, hsimple⟩, _⟩, _⟩, _⟩, _⟩, _⟩ := ha
  unfold pUpdate
  split
  · exact hwf
  · split
    · rename_i i title parent next _ _ _ _
      split
      · exact hwf
      · cases hfo : findRow .id d.pl i with
        | none => exact hwf
        | some old =>
          simp only
          split
          · cases he : evalParams r st.pUpdSimple with
            | throw e => exact hwf
            | ub u => exact hwf
            | ok ps =>
              simp only
              cases hu : pUpdRow d.pl i ps with
              | ok o =>
                cases o with
                | none => exact hwf
                | some t => exact pUpdRow_le hwf (fun o _ => written_le (by decide) hsimple he hr o) hu
              | throw e => exact hwf
              | ub u => exact hwf
          · cases h1 : pUpdNext d.pl (fun x => rowId .id x == i)
                (fun x => setCol x .nextListId (.int (-(1 + readInt (x .nextListId))))) with
            | none => exact hwf
            | some t1 =>
              simp only
              cases h2 : pUpdNext t1 (fun x => x .nextListId == .int i && x .parentListId == .int (readInt (old .parentListId)))
                  (fun x => setCol x .nextListId (.int (readInt (old .nextListId)))) with
              | none => exact hwf
              | some t2 =>
                simp only
                cases h3 : pUpdNext t2 (fun x => x .nextListId == .int next && x .parentListId == .int parent)
                    (fun x => setCol x .nextListId (.int i)) with
                | none => exact hwf
                | some t3 =>
                  simp only
                  cases he : evalParams r st.pUpdFull with
                  | throw e => exact hwf
                  | ub u => exact hwf
                  | ok ps =>
                    simp only
                    have w3 := pUpdNext_le (pUpdNext_le (pUpdNext_le hwf h1) h2) h3
                    cases hu : pUpdRow t3 i ps with
                    | ok o =>
                      cases o with
                      | none => exact hwf
                      | some t =>
                        exact pUpdRow_le w3
                          (fun o _ => written_le (PField.mem_writable.mpr (by decide)) hfull he hr o) hu
                    | throw e => exact hwf
                    | ub u => exact hwf
    · exact hwf

theorem le_pRemove {st : LStmts} {d : LDb} (hwf : leTyped d.pl) (i : Int) : leTyped (pRemove st d i).1.pl := by
  unfold pRemove
  split
  · split <;> exact hwf
  · split
    · exact hwf
    · cases hd : descendants d.pl i with
      | none => exact hwf
      | some ds =>
        simp only
        cases hf : List.foldlM (fun t j => pDeleteRow t j) d.pl (i :: ds) with
        | none => exact hwf
        | some pl => exact foldlM_pDelete_le _ hwf hf

theorem pl_eAddBack {st : LStmts} (d : LDb) (r : Row EField) (f : Bool) : (eAddBack st d r f).1.pl = d.pl := by
  unfold eAddBack
  split
  · rfl
  · split
    · split
      · split <;> rfl
      · cases evalParams r st.eIns with
        | throw e => rfl
        | ub u => rfl
        | ok ps => simp only; split <;> rfl
    · rfl

theorem pl_eRemove {st : LStmts} (d : LDb) (l e : Int) : (eRemove st d l e).1.pl = d.pl := by
  unfold eRemove
  split
  · split <;> rfl
  · rfl

/-- The operation's row argument has its declared C++ types (`wtRowP`). -/
def wtLOp : LOp → Prop
  | .pAdd r => wtRowP r
  | .pUpdate r => wtRowP r
  | _ => True

theorem le_lStep {st : LStmts} (ha : alignedL st = true) {d : LDb} (hwf : leTyped d.pl) {op : LOp} (hop : wtLOp op) :
    leTyped (lStep st d op).pl := by
  cases op with
  | pAdd r => exact le_pAdd ha hwf hop
  | pUpdate r => exact le_pUpdate ha hwf hop
  | pRemove i => exact le_pRemove hwf i
  | eAddBack r f => show leTyped (eAddBack st d r f).1.pl; rw [pl_eAddBack]; exact hwf
  | eRemove l e => show leTyped (eRemove st d l e).1.pl; rw [pl_eRemove]; exact hwf
  | eClear l => exact hwf

theorem le_lRun {st : LStmts} (ha : alignedL st = true) {d : LDb} (hwf : leTyped d.pl) (ops : List LOp)
    (hops : ∀ op ∈ ops, wtLOp op) : leTyped (lRun st d ops).pl := by
  induction ops generalizing d with
  | nil => exact hwf
  | cons op ops ih =>
    exact ih (le_lStep ha hwf (hops op List.mem_cons_self)) (fun o ho => hops o (List.mem_cons_of_mem _ ho))

/-- **`playlist_table::get` is defined** on a table whose stored last-edit times
are typed: `nullopt` for an id with no row, a row otherwise. -/
theorem playlist_get_defined {st : LStmts} (ha : alignedL st = true) {d : LDb} (hwf : leTyped d.pl) (i : Int) :
    pGet st d i = .ok none ∨ ∃ g, pGet st d i = .ok (some g) := by
  replace ha := alignedL_core ha
  simp only [alignedLcore, Bool.and_eq_true] at ha
  obtain ⟨⟨⟨⟨⟨⟨⟨⟨⟨_, _⟩, _⟩, _⟩, _⟩, hpsel⟩, _⟩, _⟩, _⟩, _⟩ := ha
  unfold pGet
  cases hf : findRow .id d.pl i with
  | none => left; rfl
  | some raw =>
    right
    have hall : ∀ b ∈ st.pSel, ∃ v, readSrc raw b.src = .ok v := by
      intro b hb
      rw [alignedR_src hpsel hb]
      simp only [expectedSrc, if_true, readSrc, pSpec_colOf, pSpec_tyOf]
      cases hbf : b.field <;> first
        | exact ⟨_, rfl⟩
        | exact rconv_colTyped (ty := .timeText) (hwf raw (findRow_some hf).1)
    obtain ⟨g, hg⟩ := readRow_of_all hall
    exact ⟨g, by simp only [hg]⟩

end Table
end EngineModel
