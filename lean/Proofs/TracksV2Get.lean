/-
C06 on the Model's own setters and getters (not on the Spec): get ∘ set, the
frame law, per-slot frames, the derived getters, eight slots, and "the value
last set" over histories.
-/
import Proofs.TracksV2Hist

namespace EngineModel
namespace TracksV2

open Prim

/-- the answer of the getter of field `f` on the row (each case is the C++
getter: the columns it reads, the conversion it applies); the duration getter
can fail (`length * 1000`) -/
def getField (ops : FOps) (r : Row) : Spec.Field → Res Spec.Val
  | .album => .ok (.str (getAlbum r)) | .artist => .ok (.str (getArtist r))
  | .averageLoudness => .ok (.dbl (getAverageLoudness r)) | .beatgrid => .ok (.grid (getBeatgrid r))
  | .bitrate => .ok (.int (getBitrate r)) | .bpm => .ok (.dbl (getBpm ops r)) | .comment => .ok (.str (getComment r))
  | .composer => .ok (.str (getComposer r)) | .duration => (getDuration r).bind fun d => .ok (.u64 d)
  | .fileBytes => .ok (.u64 r.fileBytes)
  | .genre => .ok (.str (getGenre r)) | .hotCues => .ok (.cues (getHotCues r)) | .key => .ok (.int (getKey r))
  | .lastPlayedAt => .ok (.u64 (getLastPlayedAt r)) | .loops => .ok (.loops (getLoops r))
  | .mainCue => .ok (.dbl (getMainCue r)) | .publisher => .ok (.str (getPublisher r)) | .rating => .ok (.int (getRating r))
  | .relativePath => .ok (.str (some (getRelativePath r))) | .sampleCount => .ok (.u64 (getSampleCount r))
  | .sampleRate => .ok (.dbl (getSampleRate r)) | .title => .ok (.str (getTitle r))
  | .trackNumber => .ok (.int (getTrackNumber r)) | .waveform => .ok (.wave (getWaveform r))
  | .year => .ok (.int (getYear r))

/-- getter = snapshot field, for every field -/
theorem getField_snapshot (ops : FOps) (r : Row) (y : Snap) (h : readSnap ops r = .ok y) (f : Spec.Field) :
    getField ops r f = .ok (Spec.fieldOf y f) := by
  obtain ⟨d, hd, rfl⟩ := readSnap_ok ops r y h
  cases f <;> first | rfl | (simp only [getField, getDuration, hd, Res.bind]; rfl)

/-- a setter the Model accepts is one the Spec accepts -/
theorem spec_of_model_ok (ops : FOps) (σ : Setter) (r r' : Row) (y : Snap) (hr : readSnap ops r = .ok y)
    (henc : RowEnc r) (hs : applySetter ops σ r = .ok r') :
    ∃ y', Spec.applySetter σ y = some y' ∧ readSnap ops r' = .ok y' ∧ RowEnc r' := by
  have := setter_refines ops σ r y hr henc
  cases hsp : Spec.applySetter σ y with
  | none =>
    rw [hsp] at this
    obtain ⟨e, he⟩ := this
    rw [he] at hs; cases hs
  | some y' =>
    rw [hsp] at this
    obtain ⟨r'', h1, h2, h3⟩ := this
    rw [h1] at hs
    cases hs
    exact ⟨y', rfl, h2, h3⟩

/-! ### slots -/

theorem getHotCueAt_set_other (r : Row) (k : Nat) (q : V2.Cue) (j : UInt32) (hj : j.toNat ≠ k) :
    getHotCueAt { r with cues := ({ r.cues.1 with cues := r.cues.1.cues.set k q }, r.cues.2) } j = getHotCueAt r j := by
  unfold getHotCueAt
  simp only [List.length_set]
  cases hs : slotIndex j r.cues.1.cues.length with
  | throw e => rfl
  | ub u => rfl
  | ok m =>
    have : m = j.toNat := by
      unfold slotIndex at hs
      split at hs
      · cases hs
      · cases hs; rfl
    subst this
    simp only [Res.bind]
    rw [List.getElem?_set_ne (fun e => hj e.symm)]

theorem getLoopAt_set_other (r : Row) (k : Nat) (q : V2.Loop) (j : UInt32) (hj : j.toNat ≠ k) :
    getLoopAt { r with loops := (r.loops.1.set k q, r.loops.2) } j = getLoopAt r j := by
  unfold getLoopAt
  simp only [List.length_set]
  cases hs : slotIndex j r.loops.1.length with
  | throw e => rfl
  | ub u => rfl
  | ok m =>
    have : m = j.toNat := by
      unfold slotIndex at hs
      split at hs
      · cases hs
      · cases hs; rfl
    subst this
    simp only [Res.bind]
    rw [List.getElem?_set_ne (fun e => hj e.symm)]

theorem slotIndex_ok' {i : UInt32} {n k : Nat} (h : slotIndex i n = .ok k) : k = i.toNat ∧ i.toNat < n := by
  unfold slotIndex at h
  split at h
  · cases h
  · rename_i hc
    cases h
    exact ⟨rfl, by omega⟩

/-- what an accepted `set_hot_cue_at` did to the row -/
theorem hotCueAt_row {ops : FOps} {i : UInt32} {v : Option HotCue} {r r' : Row}
    (h : applySetter ops (.hotCueAt i v) r = .ok r') :
    i.toNat < r.cues.1.cues.length ∧ slotIndex i r.cues.1.cues.length = .ok i.toNat ∧
      r' = { r with cues := ({ r.cues.1 with cues := r.cues.1.cues.set i.toNat (writeHotCue v) }, r.cues.2) } := by
  simp only [applySetter] at h
  cases hs : slotIndex i r.cues.1.cues.length with
  | throw e => rw [hs] at h; cases h
  | ub u => rw [hs] at h; cases h
  | ok k =>
    obtain ⟨rfl, hk⟩ := slotIndex_ok' hs
    rw [hs] at h
    simp only [putCues] at h
    by_cases he : cuesEncodable { r.cues.1 with cues := r.cues.1.cues.set i.toNat (writeHotCue v) } = true
    · simp only [he, if_true, Res.bind, Res.ok.injEq] at h
      exact ⟨hk, rfl, h.symm⟩
    · simp [he, Res.bind] at h

theorem loopAt_row {ops : FOps} {i : UInt32} {v : Option LoopV} {r r' : Row}
    (h : applySetter ops (.loopAt i v) r = .ok r') :
    i.toNat < r.loops.1.length ∧ slotIndex i r.loops.1.length = .ok i.toNat ∧
      r' = { r with loops := (r.loops.1.set i.toNat (writeLoop v), r.loops.2) } := by
  simp only [applySetter] at h
  cases hs : slotIndex i r.loops.1.length with
  | throw e => rw [hs] at h; cases h
  | ub u => rw [hs] at h; cases h
  | ok k =>
    obtain ⟨rfl, hk⟩ := slotIndex_ok' hs
    rw [hs] at h
    simp only [putLoops] at h
    by_cases he : loopsEncodable (r.loops.1.set i.toNat (writeLoop v)) = true
    · simp only [he, if_true, Res.bind, Res.ok.injEq] at h
      exact ⟨hk, rfl, h.symm⟩
    · simp [he, Res.bind] at h

/-! ### eight slots -/

def Slots8 (r : Row) : Prop := r.cues.1.cues.length = 8 ∧ r.loops.1.length = 8

theorem padTo_length {α} (n : Nat) (e : α) (l : List α) (h : l.length ≤ n) : (padTo n e l).length = n := by
  unfold padTo; simp; omega

theorem bind_ok_iff {α β} {x : Res α} {f : α → Res β} {b : β} :
    x.bind f = .ok b ↔ ∃ a, x = .ok a ∧ f a = .ok b := by
  cases x <;> simp [Res.bind]

theorem writeHotCues_length (v : List (Option HotCue)) (cs : List V2.Cue) (h : writeHotCues v = .ok cs) :
    cs.length = 8 := by
  unfold writeHotCues at h
  split at h
  · cases h
  · cases h; exact padTo_length _ _ _ (by simp; omega)

theorem writeLoops_length (v : List (Option LoopV)) (ls : V2.Loops) (h : writeLoops v = .ok ls) :
    ls.length = 8 := by
  unfold writeLoops at h
  split at h
  · cases h
  · cases h; exact padTo_length _ _ _ (by simp; omega)

theorem slots8_written (ops : FOps) (s : Schema) (x : Snap) (r : Row) (h : writeStore ops s x = .ok r) : Slots8 r := by
  unfold writeStore at h
  rw [bind_ok_iff] at h
  obtain ⟨r0, h0, h1⟩ := h
  have e : r.cues = r0.cues ∧ r.loops = r0.loops := by
    simp only [tablePut, bind_ok_iff, Res.ok.injEq] at h1
    obtain ⟨_, _, _, _, rfl⟩ := h1
    exact ⟨rfl, rfl⟩
  unfold Slots8
  rw [e.1, e.2]
  unfold writeSnap at h0
  cases hp : x.relativePath with
  | none => simp [hp] at h0
  | some path =>
    simp only [hp] at h0
    cases he : getFileExtension (getFilename path) with
    | none => simp [he] at h0
    | some ft =>
      simp only [he, bind_ok_iff, Res.ok.injEq] at h0
      obtain ⟨_, _, cs, hc, ls, hl, rfl⟩ := h0
      exact ⟨writeHotCues_length _ _ hc, writeLoops_length _ _ hl⟩

theorem slots8_set (ops : FOps) (σ : Setter) (r r' : Row) (h : applySetter ops σ r = .ok r') (h8 : Slots8 r) :
    Slots8 r' := by
  cases σ
  case hotCueAt i v =>
    obtain ⟨_, _, rfl⟩ := hotCueAt_row h
    exact ⟨by simp [h8.1], h8.2⟩
  case loopAt i v =>
    obtain ⟨_, _, rfl⟩ := loopAt_row h
    exact ⟨h8.1, by simp [h8.2]⟩
  case hotCues v =>
    simp only [applySetter, bind_ok_iff, putCues, Res.ok.injEq] at h
    obtain ⟨cs, hc, q, hq, rfl⟩ := h
    split at hq
    · cases hq; exact ⟨writeHotCues_length _ _ hc, h8.2⟩
    · cases hq
  case loops v =>
    simp only [applySetter, bind_ok_iff, putLoops, Res.ok.injEq] at h
    obtain ⟨ls, hl, q, hq, rfl⟩ := h
    split at hq
    · cases hq; exact ⟨h8.1, writeLoops_length _ _ hl⟩
    · cases hq
  all_goals
    simp only [applySetter, bind_ok_iff, Res.ok.injEq] at h
    first
      | (subst h; exact h8)
      | (obtain ⟨_, _, rfl⟩ := h; exact h8)

/-! ### the value last set, on the Spec's observations -/

namespace Spec

/-- the snapshot the observations hold for track `id` -/
def lookup (o : Obs) (id : Nat) : Option Snap := (o.find? (·.1 == id)).map (·.2)

theorem lookup_map (o : Obs) (id id' : Nat) (g : Snap → Snap) :
    lookup (o.map fun e => if e.1 == id then (e.1, g e.2) else e) id' =
      if id' = id then (lookup o id').map g else lookup o id' := by
  unfold lookup
  rw [List.find?_map]
  have hk : ((fun x : Nat × Snap => x.1 == id') ∘ fun e : Nat × Snap => if e.1 == id then (e.1, g e.2) else e) =
      (fun x => x.1 == id') := by
    funext e
    simp only [Function.comp]
    split <;> rfl
  rw [hk, Option.map_map]
  cases hf : o.find? (fun x => x.1 == id') with
  | none => simp
  | some e =>
    have he : e.1 = id' := by simpa using List.find?_some hf
    by_cases h : id' = id
    · simp [h, he ▸ h]
    · have : ¬ e.1 = id := by rw [he]; exact h
      simp [h, this]

theorem stepObs_noclash (o : Obs) (id : Nat) (σ : Setter) (hc : ¬ clashObs o id σ = true) :
    stepObs o id σ = o.map fun e => if e.1 == id then (e.1, (applySetter σ e.2).getD e.2) else e := by
  unfold stepObs
  rw [if_neg hc]
  apply List.map_congr_left
  intro e _
  split
  · cases applySetter σ e.2 <;> rfl
  · rfl

/-- one call, seen from track `id'` -/
theorem lookup_stepObs (o : Obs) (id id' : Nat) (σ : Setter) :
    lookup (stepObs o id σ) id' =
      if clashObs o id σ = true ∨ id' ≠ id then lookup o id'
      else (lookup o id').map fun y => (applySetter σ y).getD y := by
  by_cases hc : clashObs o id σ = true
  · unfold stepObs; simp [hc]
  · rw [stepObs_noclash o id σ hc, lookup_map o id id' (fun y => (applySetter σ y).getD y)]
    by_cases h : id' = id <;> simp [h, hc]

/-- a later call keeps field `g` of track `id` unless it is an accepted call on `id` naming `g` -/
theorem field_kept (o : Obs) (id : Nat) (g : Field) (c : Nat × Setter) (hc : c.1 = id → fieldOfSetter c.2 ≠ g) :
    (lookup (stepObs o c.1 c.2) id).map (fieldOf · g) = (lookup o id).map (fieldOf · g) := by
  rw [lookup_stepObs]
  split
  · rfl
  · rename_i hn
    have hid : id = c.1 := by
      by_cases h : id = c.1
      · exact h
      · exact absurd (Or.inr h) hn
    cases hl : lookup o id with
    | none => rfl
    | some y =>
      simp only [Option.map_some, Option.some.injEq]
      cases ha : applySetter c.2 y with
      | none => rfl
      | some y' => exact v2_frame c.2 y y' ha g (fun e => hc hid.symm e.symm)
where
  v2_frame (σ : Setter) (y y' : Snap) (h : applySetter σ y = some y') (g : Field) (hg : g ≠ fieldOfSetter σ) :
      fieldOf y' g = fieldOf y g := by
    cases σ <;> simp only [applySetter] at h <;>
      first
      | (cases h; cases g <;> first | rfl | exact absurd rfl hg)
      | (split at h
         · cases h
         · split at h
           · cases h; cases g <;> first | rfl | exact absurd rfl hg
           · cases h)
      | (split at h
         · cases h
         · cases h; cases g <;> first | rfl | exact absurd rfl hg)

theorem field_kept_run (o : Obs) (id : Nat) (g : Field) (h : List (Nat × Setter))
    (hh : ∀ c ∈ h, c.1 = id → fieldOfSetter c.2 ≠ g) :
    (lookup (runObs o h) id).map (fieldOf · g) = (lookup o id).map (fieldOf · g) := by
  induction h generalizing o with
  | nil => rfl
  | cons c t ih =>
    show (lookup (runObs (stepObs o c.1 c.2) t) id).map (fieldOf · g) = _
    rw [ih (stepObs o c.1 c.2) fun c' hc' => hh c' (List.mem_cons_of_mem _ hc')]
    exact field_kept o id g c (hh c (List.mem_cons_self ..))

theorem runObs_append (o : Obs) (h₁ h₂ : List (Nat × Setter)) : runObs o (h₁ ++ h₂) = runObs (runObs o h₁) h₂ := by
  unfold runObs; rw [List.foldl_append]

end Spec

theorem lookup_obs (ops : FOps) (db : Db) (id : Nat) : Spec.lookup (obs ops db) id = (db.get id).map (snapOf ops) := by
  unfold Spec.lookup obs Db.get
  rw [List.find?_map, Option.map_map, Option.map_map]
  rfl

theorem Db.run_append (ops : FOps) (db : Db) (h₁ h₂ : List (Nat × Setter)) :
    db.run ops (h₁ ++ h₂) = (db.run ops h₁).run ops h₂ := by
  unfold Db.run; rw [List.foldl_append]

end TracksV2
end EngineModel
