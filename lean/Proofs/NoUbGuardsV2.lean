/-
C15, schema 2.x tracks: the guarded dispatcher `GuardedTracksV2.stepG` (every index / optional
dereference / double→int conversion / division of track_impl.cpp and convert_*.hpp as a possible `ub`
behind the C++ guard regenerated from the source) IS the dispatcher `C15TracksV2.step`, and never
answers `ub` on a table that satisfies the invariant.
-/
import EngineModel.Api.GuardedTracksV2
import Proofs.NoUbGuardsGen
import Proofs.C15GuardValues
import Proofs.NoUbTracksV2

namespace EngineModel.Api.GuardedTracksV2
open EngineModel EngineModel.TracksV2 EngineModel.Api.C15TracksV2 EngineModel.Gen EngineModel.Prim

set_option linter.unusedSimpArgs false

/-! ### the index guard -/

theorem s32_bounds (i : UInt32) : -2147483648 ≤ s32 i ∧ s32 i < 2147483648 := by
  have := i.toNat_lt
  unfold s32; split <;> omega

theorem s32_wrap (i : UInt32) : s32 i % 4294967296 % 18446744073709551616 = (i.toNat : Int) := by
  have := i.toNat_lt
  unfold s32; split <;> omega

theorem s32_toNat_of_nonneg (i : UInt32) (h : 0 ≤ s32 i) : (s32 i).toNat = i.toNat := by
  have := i.toNat_lt
  unfold s32 at h ⊢; split at h <;> split <;> omega

/-- what each regenerated range test of the four 2.x slot accessors says about an `int` argument -/
theorem range_of (guard : Int → Nat → Bool) (hg : C15Guards.IsRange guard) (i : UInt32) (n : Nat) :
    guard (s32 i) n = true ↔ (s32 i < 0 ∨ n ≤ i.toNat) := by
  obtain ⟨h1, h2⟩ := s32_bounds i
  rw [hg (s32 i) n h1 h2]
  have := i.toNat_lt
  unfold s32; split <;> omega

theorem hotCueAt_iff (i : UInt32) (n : Nat) : Guards.source.hotCueAt (s32 i) n = true ↔ (s32 i < 0 ∨ n ≤ i.toNat) :=
  range_of _ C15Guards.v2_track_hot_cue_at_range_isRange i n
theorem setHotCueAt_iff (i : UInt32) (n : Nat) : Guards.source.setHotCueAt (s32 i) n = true ↔ (s32 i < 0 ∨ n ≤ i.toNat) :=
  range_of _ C15Guards.v2_track_set_hot_cue_at_range_isRange i n
theorem loopAt_iff (i : UInt32) (n : Nat) : Guards.source.loopAt (s32 i) n = true ↔ (s32 i < 0 ∨ n ≤ i.toNat) :=
  range_of _ C15Guards.v2_track_loop_at_range_isRange i n
theorem setLoopAt_iff (i : UInt32) (n : Nat) : Guards.source.setLoopAt (s32 i) n = true ↔ (s32 i < 0 ∨ n ≤ i.toNat) :=
  range_of _ C15Guards.v2_track_set_loop_at_range_isRange i n

theorem indexAt_of_lt {α : Type} (l : List α) (i : UInt32) (h0 : ¬ s32 i < 0) (hlt : i.toNat < l.length) :
    indexAt l (s32 i) = .ok (l[i.toNat]'hlt) := by
  unfold indexAt
  have h0' : 0 ≤ s32 i := by omega
  rw [if_pos h0', s32_toNat_of_nonneg i h0']
  simp [List.getElem?_eq_getElem hlt]

theorem getHotCueAtG_eq (r : Row) (i : UInt32) : getHotCueAtG Guards.source r i = getHotCueAt r i := by
  unfold getHotCueAtG getHotCueAt slotIndex
  cases hg : Guards.source.hotCueAt (s32 i) r.cues.1.cues.length with
  | true =>
    have h := (hotCueAt_iff i _).mp hg
    rw [if_pos h]; rfl
  | false =>
    have h : ¬ (s32 i < 0 ∨ r.cues.1.cues.length ≤ i.toNat) := by
      intro hh; rw [(hotCueAt_iff i _).mpr hh] at hg; cases hg
    rw [if_neg h]
    have hlt : i.toNat < r.cues.1.cues.length := by omega
    simp only [Bool.false_eq_true, if_false]
    rw [indexAt_of_lt _ i (by omega) hlt]
    simp [Res.bind, List.getElem?_eq_getElem hlt]

theorem getLoopAtG_eq (r : Row) (i : UInt32) : getLoopAtG Guards.source r i = getLoopAt r i := by
  unfold getLoopAtG getLoopAt slotIndex
  cases hg : Guards.source.loopAt (s32 i) r.loops.1.length with
  | true =>
    have h := (loopAt_iff i _).mp hg
    rw [if_pos h]; rfl
  | false =>
    have h : ¬ (s32 i < 0 ∨ r.loops.1.length ≤ i.toNat) := by
      intro hh; rw [(loopAt_iff i _).mpr hh] at hg; cases hg
    rw [if_neg h]
    have hlt : i.toNat < r.loops.1.length := by omega
    simp only [Bool.false_eq_true, if_false]
    rw [indexAt_of_lt _ i (by omega) hlt]
    simp [Res.bind, List.getElem?_eq_getElem hlt]

theorem setSiteG_ok (r : Row) (σ : Setter) : setSiteG Guards.source r σ = .ok () := by
  cases σ with
  | hotCueAt i v =>
    simp only [setSiteG]
    cases hg : Guards.source.setHotCueAt (s32 i) r.cues.1.cues.length with
    | true => rfl
    | false =>
      have h : ¬ (s32 i < 0 ∨ r.cues.1.cues.length ≤ i.toNat) := by
        intro hh; rw [(setHotCueAt_iff i _).mpr hh] at hg; cases hg
      have hlt : i.toNat < r.cues.1.cues.length := by omega
      simp only [Bool.false_eq_true, if_false]
      rw [indexAt_of_lt _ i (by omega) hlt]; rfl
  | loopAt i v =>
    simp only [setSiteG]
    cases hg : Guards.source.setLoopAt (s32 i) r.loops.1.length with
    | true => rfl
    | false =>
      have h : ¬ (s32 i < 0 ∨ r.loops.1.length ≤ i.toNat) := by
        intro hh; rw [(setLoopAt_iff i _).mpr hh] at hg; cases hg
      have hlt : i.toNat < r.loops.1.length := by omega
      simp only [Bool.false_eq_true, if_false]
      rw [indexAt_of_lt _ i (by omega) hlt]; rfl
  | _ => rfl

/-! ### the waveform conversion -/

theorem toI64_inI64 (x : F) (v : Int) (h : toI64 x = some v) : Cxx.inI64 v = true := by
  unfold Cxx.inI64 Cxx.i64Min Cxx.i64Max
  simp only [decide_eq_true_eq]
  unfold toI64 at h
  simp only at h
  by_cases h1 : F64.expOf x ≥ 1087
  · rw [if_pos h1] at h; cases h
  · rw [if_neg h1] at h
    by_cases h2 : F64.expOf x < 1023
    · rw [if_pos h2] at h; cases h; omega
    · rw [if_neg h2] at h
      generalize (if F64.signOf x = true then
          -((if F64.expOf x ≥ 1075 then (F64.manOf x + 4503599627370496) * 2 ^ (F64.expOf x - 1075)
            else (F64.manOf x + 4503599627370496) / 2 ^ (1075 - F64.expOf x) : Nat) : Int)
        else ((if F64.expOf x ≥ 1075 then (F64.manOf x + 4503599627370496) * 2 ^ (F64.expOf x - 1075)
            else (F64.manOf x + 4503599627370496) / 2 ^ (1075 - F64.expOf x) : Nat) : Int)) = w at h
      by_cases h3 : w < -9223372036854775808 ∨ 9223372036854775807 < w
      · rw [if_pos h3] at h; cases h
      · rw [if_neg h3] at h; cases h; omega

theorem waveLoop_iff (i size : Nat) : Guards.source.waveLoop i size = true ↔ i < size := C15Guards.v2_wave_loop_iff i size
theorem waveEmpty_eq (b : Bool) : Guards.source.waveEmpty b = b := C15Guards.v2_wave_empty_eq b
theorem waveAbsent_eq (a b : Bool) : Guards.source.waveAbsent a b = ((!a) || (!b)) := C15Guards.v2_wave_absent_eq a b
theorem waveRange_eq (b : Bool) : Guards.source.waveRange b = (!b) := C15Guards.v2_wave_range_eq b
theorem waveNonEmpty_eq (b : Bool) : Guards.source.waveNonEmpty b = (!b) := C15Guards.v2_wave_nonempty_eq b
theorem waveNoExtent_iff (n : Nat) : Guards.source.waveNoExtent n = true ↔ n = 0 := C15Guards.v2_wave_noextent_iff n
theorem bpmInRange_eq (a b c : Bool) : Guards.source.bpmInRange a b c = ((a && b) && c) := C15Guards.v2_bpm_inrange_eq a b c

theorem waveLoopG_ok (w : List WEntry) (hw : w ≠ []) (size : Nat) (hs : size ≤ 1024) :
    ∀ (fuel i : Nat), size - i < fuel → waveLoopG Guards.source w size fuel i = .ok () := by
  intro fuel
  induction fuel with
  | zero => intro i h; omega
  | succ f ih =>
    intro i h
    unfold waveLoopG
    cases hg : Guards.source.waveLoop i size with
    | false => rfl
    | true =>
      have hi : i < size := (waveLoop_iff i size).mp hg
      simp only [if_true]
      have hlen : 0 < w.length := List.length_pos_iff.mpr hw
      have hidx : w.length * (2 * i + 1) / 2048 < w.length := by
        apply Nat.div_lt_of_lt_mul
        have : 2 * i + 1 < 2048 := by omega
        calc w.length * (2 * i + 1) < w.length * 2048 := Nat.mul_lt_mul_of_pos_left this hlen
          _ = 2048 * w.length := Nat.mul_comm _ _
      unfold indexAt
      simp only [Int.natCast_nonneg, if_true, Int.toNat_natCast, List.getElem?_eq_getElem hidx, Res.bind]
      exact ih (i + 1) (by omega)

theorem waveSiteG_ok (ops : FOps) (w : List WEntry) (c : Option UInt64) (r : Option F) :
    waveSiteG Guards.source ops w c r = .ok () := by
  unfold waveSiteG
  rw [waveEmpty_eq, waveAbsent_eq, waveNonEmpty_eq]
  by_cases hw : w.isEmpty = true
  · rw [if_pos hw]
  · rw [if_neg hw]
    cases c with
    | none => simp
    | some n =>
      cases r with
      | none => simp
      | some x =>
        simp only [Option.isSome_some, Bool.not_true, Bool.or_self, Bool.false_eq_true, if_false, deref, Res.bind]
        rw [waveRange_eq]
        cases ht : toI64 x with
        | none => simp
        | some t =>
          simp only [Option.isSome_some, Bool.not_true, Bool.false_eq_true, if_false]
          have hu : GuardedUtils.extentsSiteG Guards.source.utilOvwZero toI64 n.toNat x = .ok () :=
            TrackUtils.extentsSiteG_ok _ (fun n qn r h => (C15Guards.util_ovw_zero_iff n qn r).mpr (Or.inr h))
              toI64 n.toNat x t ht (toI64_inI64 x t ht)
          rw [hu]
          simp only [Res.bind]
          obtain ⟨size, spe, hg, hsz⟩ := TrackUtils.gen_ovw_some (cxxOps ops) n.toNat x t ht (toI64_inI64 x t ht)
          rw [hg]
          simp only
          cases hne0 : Guards.source.waveNoExtent size with
          | true => rfl
          | false =>
            simp only [Bool.false_eq_true, if_false]
            have hw' : (!w.isEmpty) = true := by simpa using hw
            rw [if_pos hw']
            have hne : w ≠ [] := by
              intro e; apply hw; rw [e]; rfl
            exact waveLoopG_ok w hne size (by rcases hsz with h | h <;> omega) (size + 1) 0 (by omega)

/-! ### the BPM conversion: inside `-2^63 <= x < 2^63` the cast is defined -/

theorem pow_le_1024 (k : Nat) (h : k ≤ 10) : 2 ^ k ≤ 1024 := by
  have : 2 ^ k ≤ 2 ^ 10 := Nat.pow_le_pow_right (by decide) h
  simpa using this

theorem toI64_some_of_range (b : F) (hge : F64.le minI64 b = true) (hlt : F64.lt b two63 = true) :
    ∃ t, toI64 b = some t := by
  unfold F64.le at hge
  unfold F64.lt at hlt
  simp only [Bool.and_eq_true, Bool.not_eq_true', decide_eq_true_eq] at hge hlt
  obtain ⟨⟨_, hnan⟩, hk1⟩ := hge
  obtain ⟨_, hk2⟩ := hlt
  have hx : b.toNat < 18446744073709551616 := b.toNat_lt
  have hmin : F64.key minI64 = -4890909195324358656 := by decide
  have h63 : F64.key two63 = 4890909195324358656 := by decide
  rw [hmin] at hk1
  rw [h63] at hk2
  have hm : F64.manOf b < 4503599627370496 := by unfold F64.manOf; exact Nat.mod_lt _ (by decide)
  unfold toI64
  simp only
  by_cases hpos : b.toNat < 9223372036854775808
  · -- non-negative: below 2^63, the exponent is at most 1085
    have hkx : F64.key b = (b.toNat : Int) := by unfold F64.key; rw [if_pos hpos]
    rw [hkx] at hk2
    have hehi : F64.expOf b ≤ 1085 := by unfold F64.expOf; omega
    have hsign : F64.signOf b = false := by unfold F64.signOf; simp; omega
    rw [if_neg (by omega)]
    split
    · exact ⟨_, rfl⟩
    · try rw [hsign]
      try simp only [Bool.false_eq_true, if_false]
      have hmag : (if F64.expOf b ≥ 1075 then (F64.manOf b + 4503599627370496) * 2 ^ (F64.expOf b - 1075)
          else (F64.manOf b + 4503599627370496) / 2 ^ (1075 - F64.expOf b)) < 9223372036854775808 := by
        split
        · have hp : 2 ^ (F64.expOf b - 1075) ≤ 1024 := pow_le_1024 _ (by omega)
          have h1 := Nat.mul_le_mul_left (F64.manOf b + 4503599627370496) hp
          omega
        · have := Nat.div_le_self (F64.manOf b + 4503599627370496) (2 ^ (1075 - F64.expOf b))
          omega
      rw [if_neg (by omega)]
      exact ⟨_, rfl⟩
  · -- negative: at least -2^63, so the exponent is at most 1086, and 1086 only with mantissa 0
    have hkx : F64.key b = -((b.toNat : Int) - 9223372036854775808) := by unfold F64.key; rw [if_neg hpos]
    rw [hkx] at hk1
    have hsign : F64.signOf b = true := by unfold F64.signOf; simp; omega
    have hehi : F64.expOf b ≤ 1086 := by unfold F64.expOf; omega
    rw [if_neg (by omega)]
    split
    · exact ⟨_, rfl⟩
    · try rw [hsign]
      try simp only [if_true]
      have hmag : (if F64.expOf b ≥ 1075 then (F64.manOf b + 4503599627370496) * 2 ^ (F64.expOf b - 1075)
          else (F64.manOf b + 4503599627370496) / 2 ^ (1075 - F64.expOf b)) ≤ 9223372036854775808 := by
        split
        · by_cases h86 : F64.expOf b = 1086
          · have hm0 : F64.manOf b = 0 := by unfold F64.manOf F64.expOf at *; omega
            have hp : 2 ^ (F64.expOf b - 1075) ≤ 2048 := by
              have : 2 ^ (F64.expOf b - 1075) ≤ 2 ^ 11 := Nat.pow_le_pow_right (by decide) (by omega)
              simpa using this
            have h1 := Nat.mul_le_mul_left (F64.manOf b + 4503599627370496) hp
            simp only [hm0] at h1 ⊢
            omega
          · have he85 : F64.expOf b - 1075 ≤ 10 := by omega
            have hp : 2 ^ (F64.expOf b - 1075) ≤ 1024 := pow_le_1024 _ he85
            have h1 := Nat.mul_le_mul_left (F64.manOf b + 4503599627370496) hp
            have hlt : (F64.manOf b + 4503599627370496) * 2 ^ (F64.expOf b - 1075) < 9223372036854775808 := by omega
            exact Nat.le_of_lt hlt
        · have := Nat.div_le_self (F64.manOf b + 4503599627370496) (2 ^ (1075 - F64.expOf b))
          have hlt : (F64.manOf b + 4503599627370496) / 2 ^ (1075 - F64.expOf b) < 9223372036854775808 := by omega
          exact Nat.le_of_lt hlt
      rw [if_neg (by omega)]
      exact ⟨_, rfl⟩

theorem bpmSiteG_ok (bpm : Option F) : bpmSiteG Guards.source bpm = .ok () := by
  unfold bpmSiteG
  simp only [bpmInRange_eq]
  cases bpm with
  | none => simp
  | some b =>
    simp only [Option.isSome_some, Bool.true_and]
    by_cases h : (F64.le minI64 b && F64.lt b two63) = true
    · rw [if_pos h]
      simp only [Bool.and_eq_true] at h
      obtain ⟨t, ht⟩ := toI64_some_of_range b h.1 h.2
      simp [deref, Res.bind, ht]
    · rw [if_neg h]

theorem snapSiteG_ok (ops : FOps) (x : Snap) : snapSiteG Guards.source ops x = .ok () := by
  unfold snapSiteG
  cases x.relativePath with
  | none => rfl
  | some p =>
    simp only
    cases getFileExtension (getFilename p) with
    | none => rfl
    | some e => simp only [bpmSiteG_ok, waveSiteG_ok, Res.bind]

/-! ### the dispatcher -/

/-- **The guarded dispatcher is the dispatcher**: with the guards the source has today no index, optional
dereference, cast or division of the 2.x track call paths is reached outside its domain. -/
theorem stepG_eq (ops : FOps) (s : Schema) (db : Db) (op : Op) : stepG ops s db op = step ops s db op := by
  cases op with
  | get id g =>
    cases g with
    | hotCueAt i =>
      simp only [stepG, stepGW, step]
      cases db.get id with
      | none => rfl
      | some r =>
        simp only [getHotCueAtG_eq, getRow]
        cases getHotCueAt r i <;> rfl
    | loopAt i =>
      simp only [stepG, stepGW, step]
      cases db.get id with
      | none => rfl
      | some r =>
        simp only [getLoopAtG_eq, getRow]
        cases getLoopAt r i <;> rfl
    | _ => rfl
  | set id σ =>
    simp only [stepG, stepGW]
    cases db.get id with
    | none => rfl
    | some r => simp only [setSiteG_ok]
  | create x => simp only [stepG, stepGW, snapSiteG_ok]
  | update id x => simp only [stepG, stepGW, snapSiteG_ok]
  | snapshot id => rfl
  | remove id => rfl
  | isValid id => rfl
  | handleId id => rfl
  | handleCopy id => rfl

theorem stepG_defined (ops : FOps) (s : Schema) (db : Db) (hd : dbOk db = true) (op : Op) (u : Ub) :
    (stepG ops s db op).2 ≠ .ub u := by
  rw [stepG_eq]; exact step_defined ops s db hd op u

theorem outcomesG_eq (ops : FOps) (s : Schema) (l : List Op) : ∀ db, outcomesG ops s db l = outcomes ops s db l := by
  induction l with
  | nil => intro db; rfl
  | cons op t ih => intro db; simp only [outcomesG, outcomes, stepG_eq, ih]

/-! ### the whole public alphabet -/

theorem tracksByPathG_ok (db : Db) (p : Bytes) : ∃ l, tracksByPathG Guards.source db p = .ok l := by
  unfold tracksByPathG
  have hg : ∀ b, Guards.source.tracksByPathFound b = b := C15Guards.v2_db_tracks_by_path_found_eq
  simp only [hg]
  cases findIdByPath db p with
  | none => exact ⟨[], rfl⟩
  | some i => exact ⟨[i], rfl⟩

theorem callG_fst (ops : FOps) (s : Schema) (db : Db) (c : Call) :
    (callG ops s db c).1 = match c with | .op o => (step ops s db o).1 | _ => db := by
  cases c with
  | op o => simp only [callG, callGW]; exact congrArg Prod.fst (stepG_eq ops s db o)
  | _ => rfl

theorem callG_defined (ops : FOps) (s : Schema) (db : Db) (hd : dbOk db = true) (c : Call) (u : Ub) :
    (callG ops s db c).2 ≠ .ub u := by
  cases c with
  | op o =>
    simp only [callG, callGW]
    have h := stepG_defined ops s db hd o
    unfold stepG at h
    cases hr : (stepGW Guards.source ops s db o).2 with
    | ok a => intro hh; cases hh
    | throw e => intro hh; cases hh
    | ub u' => exact absurd hr (h u')
  | dbTracksByPath p =>
    simp only [callG, callGW]
    obtain ⟨l, hl⟩ := tracksByPathG_ok db p
    rw [hl]; intro hh; cases hh
  | dbTracks => intro hh; cases hh
  | dbTrackById id => intro hh; cases hh
  | dbUuid => intro hh; cases hh
  | dbVersionName => intro hh; cases hh
  | dbDirectory => intro hh; cases hh
  | dbVerify => intro hh; cases hh

theorem callG_dbOk (ops : FOps) (s : Schema) (db : Db) (hd : dbOk db = true) (c : Call) :
    dbOk (callG ops s db c).1 = true := by
  rw [callG_fst]
  cases c with
  | op o => exact step_dbOk ops s db hd o
  | _ => exact hd

theorem callOutcomes_defined (ops : FOps) (s : Schema) (l : List Call) :
    ∀ db, dbOk db = true → ∀ r ∈ callOutcomes ops s db l, ∀ u, r ≠ .ub u := by
  induction l with
  | nil => intro db _ r hr; cases hr
  | cons c t ih =>
    intro db hd r hr u
    simp only [callOutcomes, List.mem_cons] at hr
    rcases hr with e | e
    · rw [e]; exact callG_defined ops s db hd c u
    · exact ih _ (callG_dbOk ops s db hd c) r e u

end EngineModel.Api.GuardedTracksV2
