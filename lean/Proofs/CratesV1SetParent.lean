/-
crate::set_parent on a state satisfying `Inv`: exact outcome and preservation.
-/
import Proofs.CratesV1SetName

namespace EngineModel.Api.CratesV1
open EngineModel.Pure.Detect EngineModel.Spec

variable {db : Db}

/-- `c` followed by its descendants, as set_parent / remove_crate read them. -/
def subtreeList (db : Db) (c : Id) : List Id := c :: (db.ch.filter (·.1 == c)).map (·.2)

theorem mem_subtreeList (db : Db) (c y : Id) : y ∈ subtreeList db c ↔ Sub db c y := by
  unfold subtreeList Sub
  simp only [List.mem_cons, List.mem_map, List.mem_filter, beq_iff_eq]
  constructor
  · rintro (e | ⟨r, ⟨hr, h1⟩, rfl⟩)
    · exact Or.inl e
    · right
      have : r = (c, r.2) := Prod.ext h1 rfl
      rw [← this]; exact hr
  · rintro (e | hm)
    · exact Or.inl e
    · exact Or.inr ⟨(c, y), ⟨hm, rfl⟩, rfl⟩

theorem subtreeList_nodup (h : FInv db) (c : Id) : (subtreeList db c).Nodup := by
  unfold subtreeList
  rw [List.nodup_cons]
  constructor
  · intro hm
    simp only [List.mem_map, List.mem_filter, beq_iff_eq] at hm
    obtain ⟨r, ⟨hr, h1⟩, h2⟩ := hm
    have : r = (c, c) := Prod.ext h1 h2
    exact h.chIrrefl c (this ▸ hr)
  · apply List.Nodup.map_on _ (h.chNodup.filter _)
    intro x hx y hy hxy
    simp only [List.mem_filter, beq_iff_eq] at hx hy
    exact Prod.ext (hx.2.trans hy.2.symm) hxy

theorem deleteHierarchyLinks_eq (s : Schema) (ch : List (Id × Id)) (A M : List Id) :
    deleteHierarchyLinks s ch A M = ch.filter (fun r => !(A.contains r.1 && M.contains r.2)) := by
  unfold deleteHierarchyLinks
  have inner : ∀ (a : Id) (M : List Id) (acc : List (Id × Id)),
      M.foldl (fun acc m => deletePairs s acc (fun r => r.1 == a && r.2 == m)) acc
        = acc.filter (fun r => !(r.1 == a && M.contains r.2)) := by
    intro a M
    induction M with
    | nil => intro acc; simp
    | cons m M ih =>
      intro acc
      rw [List.foldl_cons, deletePairs_eq, ih, List.filter_filter]
      apply List.filter_congr
      intro r _
      by_cases h1 : r.1 = a <;> by_cases h2 : r.2 = m <;> simp [h1, h2]
  induction A generalizing ch with
  | nil => simp
  | cons a A ih =>
    rw [List.foldl_cons, inner, ih, List.filter_filter]
    apply List.filter_congr
    intro r _
    by_cases h1 : r.1 = a <;> by_cases h2 : r.2 ∈ M <;> simp [h1, h2, Bool.and_comm]

theorem hierarchyLinks_mem (A M : List Id) (x : Id × Id) : x ∈ hierarchyLinks A M ↔ x.1 ∈ A ∧ x.2 ∈ M := by
  unfold hierarchyLinks
  simp only [List.mem_flatMap, List.mem_map]
  constructor
  · rintro ⟨a, ha, m, hm, rfl⟩; exact ⟨ha, hm⟩
  · rintro ⟨ha, hm⟩; exact ⟨x.1, ha, x.2, hm, rfl⟩

theorem hierarchyLinks_nodup {A M : List Id} (hA : A.Nodup) (hM : M.Nodup) : (hierarchyLinks A M).Nodup := by
  unfold hierarchyLinks
  induction A with
  | nil => simp
  | cons a A ih =>
    rw [List.nodup_cons] at hA
    rw [List.flatMap_cons, List.nodup_append]
    refine ⟨?_, ih hA.2, ?_⟩
    · apply List.Nodup.map_on _ hM
      intro x _ y _ hxy
      exact (Prod.mk.inj hxy).2
    · intro x hx y hy
      rw [List.mem_map] at hx
      obtain ⟨m, _, rfl⟩ := hx
      have := (hierarchyLinks_mem A M y).mp hy
      rintro rfl
      exact hA.1 this.1

/-- The hierarchy rows that survive the detaching of the sub-tree of `c` from the ancestors of `c`. -/
def detachCh (db : Db) (c : Id) : List (Id × Id) :=
  db.ch.filter (fun r => !((anc db c).contains r.1 && (subtreeList db c).contains r.2))

/-- The hierarchy table after set_parent. -/
def reparentCh (db : Db) (c : Id) (parent : Option Id) : List (Id × Id) :=
  match parent with
  | some q => detachCh db c ++ hierarchyLinks (q :: ((detachCh db c).filter (·.2 == q)).map (·.1)) (subtreeList db c)
  | none => detachCh db c

def dbReparent (db : Db) (c : Id) (parent : Option Id) : Db :=
  { db with cpl := db.cpl.filter (fun r => !(r.1 == c)) ++ [(c, parent.getD c)], ch := reparentCh db c parent }

/-- What set_parent demands of its arguments once both crates are known to exist. -/
def ReparentOk (db : Db) (c : Id) (parent : Option Id) : Prop :=
  c ∈ ids db ∧ ∀ q, parent = some q → q ∈ ids db ∧ q ≠ c ∧ (c, q) ∉ db.ch

theorem mem_ch1 (db : Db) (c : Id) (x : Id × Id) :
    x ∈ detachCh db c ↔ x ∈ db.ch ∧ ¬ ((x.1, c) ∈ db.ch ∧ Sub db c x.2) := by
  unfold detachCh
  simp only [List.mem_filter, Bool.not_eq_eq_eq_not, Bool.not_true, Bool.and_eq_false_imp, List.contains_eq_mem,
    decide_eq_true_eq, decide_eq_false_iff_not, FInv.mem_anc, mem_subtreeList]
  constructor
  · rintro ⟨hm, hn⟩; exact ⟨hm, fun hh => hn hh.1 hh.2⟩
  · rintro ⟨hm, hn⟩; exact ⟨hm, fun h1 h2 => hn ⟨h1, h2⟩⟩

theorem mem_reparentCh (h : FInv db) {c : Id} {parent : Option Id} (hok : ReparentOk db c parent) (a y : Id) :
    (a, y) ∈ reparentCh db c parent ↔
      (((a, y) ∈ db.ch ∧ ¬ ((a, c) ∈ db.ch ∧ Sub db c y)) ∨
       (∃ q, parent = some q ∧ (a = q ∨ (a, q) ∈ db.ch) ∧ Sub db c y)) := by
  unfold reparentCh
  cases parent with
  | none =>
    simp only [mem_ch1]
    constructor
    · intro hm; exact Or.inl hm
    · rintro (hm | ⟨q, hq, _⟩)
      · exact hm
      · cases hq
  | some q =>
    obtain ⟨_, hqc, hcq⟩ := hok.2 q rfl
    have hnsq : ¬ Sub db c q := by
      rintro (e | hm)
      · exact hqc e
      · exact hcq hm
    simp only [List.mem_append, mem_ch1, hierarchyLinks_mem, List.mem_cons, List.mem_map, List.mem_filter,
      beq_iff_eq, mem_subtreeList]
    constructor
    · rintro (hm | ⟨ha, hs⟩)
      · exact Or.inl hm
      · right
        refine ⟨q, rfl, ?_, hs⟩
        rcases ha with e | ⟨r, ⟨hr, h2⟩, h1⟩
        · exact Or.inl e
        · right
          have : r = (a, q) := Prod.ext h1 h2
          rw [← this]; exact hr.1
    · rintro (hm | ⟨q', hq', hor, hs⟩)
      · exact Or.inl hm
      · cases hq'
        right
        refine ⟨?_, hs⟩
        rcases hor with e | hm
        · exact Or.inl e
        · exact Or.inr ⟨(a, q), ⟨⟨hm, fun hh => hnsq hh.2⟩, rfl⟩, rfl⟩

theorem new_anc_not_sub (h : FInv db) {c : Id} {parent : Option Id} (hok : ReparentOk db c parent) :
    ∀ a q, parent = some q → (a = q ∨ (a, q) ∈ db.ch) → ¬ Sub db c a := by
  intro a q hpq hor hs
  obtain ⟨_, hqc, hcq⟩ := hok.2 q hpq
  rcases hor with rfl | hm
  · rcases hs with rfl | hs
    · exact hqc rfl
    · exact hcq hs
  · rcases hs with rfl | hs
    · exact hcq hm
    · exact hcq (h.ch_trans q c a hs hm)

theorem reparentCh_nodup (h : FInv db) {c : Id} {parent : Option Id} (hok : ReparentOk db c parent) :
    (reparentCh db c parent).Nodup := by
  unfold reparentCh
  cases parent with
  | none => exact h.chNodup.filter _
  | some q =>
    have hch1 : (detachCh db c).Nodup := h.chNodup.filter _
    simp only
    rw [List.nodup_append]
    refine ⟨hch1, ?_, ?_⟩
    · apply hierarchyLinks_nodup _ (subtreeList_nodup h c)
      rw [List.nodup_cons]
      constructor
      · intro hm
        simp only [List.mem_map, List.mem_filter, beq_iff_eq] at hm
        obtain ⟨r, ⟨hr, h2⟩, h1⟩ := hm
        rw [mem_ch1] at hr
        have : r = (q, q) := Prod.ext h1 h2
        exact h.chIrrefl q (this ▸ hr.1)
      · apply List.Nodup.map_on _ (hch1.filter _)
        intro x hx y hy hxy
        simp only [List.mem_filter, beq_iff_eq] at hx hy
        exact Prod.ext hxy (hx.2.trans hy.2.symm)
    · intro x hx y hy
      rintro rfl
      rw [mem_ch1] at hx
      rw [hierarchyLinks_mem, mem_subtreeList] at hy
      have ha : x.1 = q ∨ (x.1, q) ∈ db.ch := by
        have := hy.1
        simp only [List.mem_cons, List.mem_map, List.mem_filter, beq_iff_eq] at this
        rcases this with e | ⟨r, ⟨hr, h2⟩, h1⟩
        · exact Or.inl e
        · right
          rw [mem_ch1] at hr
          have : r = (x.1, q) := Prod.ext h1 h2
          rw [← this]; exact hr.1
      rcases h.sub_anc c x.1 x.2 hy.2 hx.1 with hs | hm
      · exact new_anc_not_sub h hok x.1 q rfl ha hs
      · exact hx.2 ⟨hm, hy.2⟩

theorem finv_reparent (h : FInv db) {c : Id} {parent : Option Id} (hok : ReparentOk db c parent) :
    FInv (dbReparent db c parent) :=
  h.reparent parent hok.1 hok.2 rfl rfl (mem_reparentCh h hok) (reparentCh_nodup h hok)

theorem sub_reparent (h : FInv db) {c : Id} {parent : Option Id} (hok : ReparentOk db c parent) (y : Id) :
    Sub (dbReparent db c parent) c y ↔ Sub db c y := by
  unfold Sub
  show (y = c ∨ (c, y) ∈ reparentCh db c parent) ↔ _
  rw [mem_reparentCh h hok]
  constructor
  · rintro (e | ⟨hm, _⟩ | ⟨q, hpq, hor, _⟩)
    · exact Or.inl e
    · exact Or.inr hm
    · exact absurd (Or.inl rfl) (new_anc_not_sub h hok c q hpq hor)
  · rintro (e | hm)
    · exact Or.inl e
    · exact Or.inr (Or.inl ⟨hm, fun hh => h.chIrrefl c hh.1⟩)

/-- Title of the row with id `c`. -/
def titleOfD (db : Db) (c : Id) : Name := ((db.crate.find? (·.id == c)).map (·.title)).getD []

def parentPathOpt (db : Db) : Option Id → Name
  | some q => rowPath db q
  | none => []

/-- State after a successful `set_parent`. -/
def afterSetParent (db : Db) (c : Id) (parent : Option Id) : Db :=
  { dbReparent db c parent with
    crate := setPaths (subB (dbReparent db c parent) c)
      (tgtPath (dbReparent db c parent) c (parentPathOpt db parent ++ titleOfD db c ++ [semicolon])) db.crate }

theorem setParent_self (s : Schema) (db : Db) (c : Id) : setParent s db c (some c) = (db, .throw exInvalidParent) := by
  unfold setParent; simp

theorem setParent_dead (s : Schema) (db : Db) {c : Id} {parent : Option Id} (hne : parent ≠ some c) (hc : c ∉ ids db) :
    setParent s db c parent = (db, .throw exCrateDeleted) := by
  unfold setParent
  have : (parent == some c) = false := by simpa using hne
  simp [this, transaction, requireValid_dead hc]

theorem setParent_dead_parent (s : Schema) (h : (ids db).Nodup) {c q : Id} (hne : q ≠ c) (hc : c ∈ ids db)
    (hq : q ∉ ids db) : setParent s db c (some q) = (db, .throw exCrateDeleted) := by
  unfold setParent
  have : (some q == some c) = false := by simpa using hne
  simp [this, transaction, requireValid_live h hc, requireValid_dead hq]

theorem setParent_cycle (s : Schema) (h : (ids db).Nodup) {c q : Id} (hne : q ≠ c) (hc : c ∈ ids db)
    (hq : q ∈ ids db) (hcyc : (c, q) ∈ db.ch) : setParent s db c (some q) = (db, .throw exInvalidParent) := by
  unfold setParent
  have : (some q == some c) = false := by simpa using hne
  have hlen : (db.ch.filter (fun r => r.1 == c && r.2 == q)).length > 0 := by
    apply List.length_pos_of_mem (a := (c, q))
    simp [List.mem_filter, hcyc]
  simp [this, transaction, requireValid_live h hc, requireValid_live h hq, hlen]

theorem setParent_ok (s : Schema) (h : FInv db) {c : Id} {parent : Option Id} (hok : ReparentOk db c parent) :
    setParent s db c parent = (afterSetParent db c parent, .ok .unit) := by
  have hc := hok.1
  obtain ⟨rc, hrc, hrcid⟩ := exists_row hc
  have hT := finv_reparent h hok
  have hcT : c ∈ ids (dbReparent db c parent) := hc
  have htitle : titleOfD db c = rc.title := by
    unfold titleOfD; rw [← hrcid, find_of_mem h.idsNodup hrc]; rfl
  have hne : (parent == some c) = false := by
    cases hp : parent with
    | none => rfl
    | some q => simpa using (hok.2 q hp).2.1
  -- the statements up to the path rewrite
  have hpre : ∀ (pp : Name),
      updatePath s ((dbReparent db c parent).cpl.length + 1) (dbReparent db c parent) c pp
        = .ok { dbReparent db c parent with
            crate := (setPaths (subB (dbReparent db c parent) c)
              (tgtPath (dbReparent db c parent) c (pp ++ titleOfD db c ++ [semicolon]))
              (dbReparent db c parent).crate) } := by
    intro pp
    apply updatePath_eq s hT c _ (tgtPath_hstep hT c _) _ _ c pp (Skel.refl _) hcT (Or.inl rfl) (by omega)
    intro rx hrx hrxid
    have : rx = rc := List.inj_on_of_nodup_map h.idsNodup hrx hrc (hrxid.trans hrcid.symm)
    rw [tgtPath_top _ hcT, htitle, this]
  unfold setParent
  rw [hne]
  simp only [Bool.false_eq_true, if_false, transaction, requireValid_live h.idsNodup hc, Res.bind_ok]
  cases hp : parent with
  | none =>
    subst hp
    simp only [Res.pure_eq, Res.bind_ok, deletePairs_eq, deleteHierarchyLinks_eq, Option.getD_none]
    have := hpre []
    unfold dbReparent reparentCh detachCh at this
    simp only [Option.getD_none] at this
    unfold subtreeList anc at this
    rw [this]
    simp only [Res.bind_ok, Res.pure_eq]
    rfl
  | some q =>
    subst hp
    obtain ⟨hq, hqc, hcq⟩ := hok.2 q rfl
    have hlen : ¬ (db.ch.filter (fun r => r.1 == c && r.2 == q)).length > 0 := by
      intro hl
      obtain ⟨x, hx⟩ := List.exists_mem_of_length_pos hl
      simp only [List.mem_filter, Bool.and_eq_true, beq_iff_eq] at hx
      have : x = (c, q) := Prod.ext hx.2.1 hx.2.2
      exact hcq (this ▸ hx.1)
    obtain ⟨rq, hrq, hrqid⟩ := exists_row hq
    have hpath : (((db.crate.filter (·.id == q)).map (·.path)).getLast?).getD [] = rowPath db q := by
      rw [← hrqid, filter_of_mem h.idsNodup hrq, rowPath_of_mem h.idsNodup hrq]; rfl
    simp only [requireValid_live h.idsNodup hq, Res.bind_ok, hlen, if_false, Res.pure_eq, deletePairs_eq,
      deleteHierarchyLinks_eq, Option.getD_some, hpath]
    have := hpre (rowPath db q)
    unfold dbReparent reparentCh detachCh at this
    simp only [Option.getD_some] at this
    unfold subtreeList anc at this
    rw [this]
    simp only [Res.bind_ok, Res.pure_eq]
    rfl

theorem inv_setParent (h : Inv db) {c : Id} {parent : Option Id} (hok : ReparentOk db c parent) :
    Inv (afterSetParent db c parent) := by
  have hc := hok.1
  have hT := finv_reparent h.toFInv hok
  have hcT : c ∈ ids (dbReparent db c parent) := hc
  obtain ⟨rc, hrc, hrcid⟩ := exists_row hc
  have htitle : titleOfD db c = rc.title := by
    unfold titleOfD; rw [← hrcid, find_of_mem h.idsNodup hrc]; rfl
  have hidsA : ids (afterSetParent db c parent) = ids (dbReparent db c parent) :=
    ids_of_keys (setPaths_keys _ _ _)
  refine ⟨hT.congr hidsA rfl rfl, ?_, ?_, h.ctlNodup, ?_, h.trackNodup⟩
  · intro r hr
    have hr' : r ∈ setPaths (subB (dbReparent db c parent) c)
        (tgtPath (dbReparent db c parent) c (parentPathOpt db parent ++ titleOfD db c ++ [semicolon])) db.crate := hr
    unfold setPaths at hr'
    rw [List.mem_map] at hr'
    obtain ⟨r0, hr0, rfl⟩ := hr'
    have := h.namesValid r0 hr0
    split <;> exact this
  · apply pathStep_repath hT hcT
    · intro r hr hs p hp
      have hr0 : r ∈ db.crate := hr
      have hrc' : r.id ≠ c := fun e => hs (Or.inl e)
      have hp' : (r.id, p) ∈ db.cpl := by
        have : (r.id, p) ∈ db.cpl.filter (fun r => !(r.1 == c)) ++ [(c, parent.getD c)] := hp
        rw [List.mem_append, List.mem_filter, List.mem_singleton] at this
        rcases this with ⟨hm, _⟩ | e
        · exact hm
        · exact absurd (Prod.mk.inj e).1 hrc'
      exact h.pathStep r hr0 p hp'
    · intro r hr hrid p hp
      have hr0 : r ∈ db.crate := hr
      have : r = rc := List.inj_on_of_nodup_map h.idsNodup hr0 hrc (hrid.trans hrcid.symm)
      subst this
      have hp' : (c, p) ∈ db.cpl.filter (fun r => !(r.1 == c)) ++ [(c, parent.getD c)] := hp
      rw [List.mem_append, List.mem_filter, List.mem_singleton] at hp'
      have hpe : p = parent.getD c := by
        rcases hp' with ⟨_, hn⟩ | e
        · simp at hn
        · exact (Prod.mk.inj e).2
      rw [htitle]
      cases hpar : parent with
      | none =>
        simp [hpar] at hpe
        simp [hpe, parentPathOpt]
      | some q =>
        simp [hpar] at hpe
        have hqc := (hok.2 q hpar).2.1
        subst hpe
        simp only [hqc, if_false, parentPathOpt]
        rfl
  · intro r hr
    have := h.ctlLive r hr
    rw [hidsA]
    exact ⟨this.1, (liveTrack_congr rfl _).mpr this.2⟩

end EngineModel.Api.CratesV1
