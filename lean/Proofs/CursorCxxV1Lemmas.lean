/-
Run-lemmas for the combinators of Impl/CursorCxxV1.lean, used to relate the generated 1.x
codecs (Gen/ImplV1Gen.lean) to the hand model Impl/V1.lean.
-/
import EngineModel.Impl.CursorCxxV1
import Proofs.WrLemmas
import Proofs.CursorCxxLemmas
set_option linter.unusedSimpArgs false

namespace EngineModel
namespace Wr

/-- `m` appends exactly `w`, which fills the buffer to its end. -/
def WritesTo (m : Wr Unit) (w : Bytes) : Prop :=
  ∀ size out, out.length + w.length = size → m size out = .ok ((), out ++ w)

/-- `if (ptr != end) throw …;` at the end of an encoder whose writes filled the buffer -/
theorem WritesTo.endCheck (e : Exn) :
    WritesTo (notAtEnd >>= fun t => if t = true then throwW e else pure ()) [] := by
  intro size out h
  simp only [List.length_nil, Nat.add_zero] at h
  simp [notAtEnd, h]

theorem Writes.bindTo {m n : Wr Unit} {a b : Bytes} (hm : Writes m a) (hn : WritesTo n b) :
    WritesTo (m >>= fun _ => n) (a ++ b) := by
  intro size out h
  simp only [List.length_append] at h
  simp only [bind_run, hm size out (by omega)]
  rw [hn size (out ++ a) (by simp; omega)]
  simp

theorem WritesTo.congr {m : Wr Unit} {a b : Bytes} (hm : WritesTo m a) (e : a = b) : WritesTo m b := e ▸ hm

theorem run_of_writesTo {m : Wr Unit} {w : Bytes} {size : Nat} (h : WritesTo m w) (hs : w.length = size)
    (hm : size ≤ 9223372036854775807) : run size m = .ok w := by
  have := h size [] (by simp; omega)
  have hnot : ¬ (9223372036854775807 < size) := by omega
  simp [run, this, hs, hnot]

end Wr
end EngineModel
