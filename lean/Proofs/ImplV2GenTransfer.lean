/-
Transfer of the C02 / C05 statements about the 2.x payload decoders from the
hand model `Impl.V2.*` to the model regenerated from the C++ sources
(`Gen.ImplV2.*`), through the equalities of Proofs/ImplV2Gen.lean:

* `gen_*_spec`  (C02): the regenerated decoder returns exactly the verdict of the
  independent Spec decoder (`liftDec c` = the Spec's value and remainder, or
  `invalid_argument`);
* `gen_*_safe`  (C05): no byte string makes the regenerated decoder produce an
  undefined-behaviour outcome — including the signed overflow and the
  out-of-bounds cursor moves that the generated code checks explicitly.

The size hypotheses are those of the equalities (see Proofs/ImplV2Gen.lean).
-/
import Proofs.ImplV2Gen
import Proofs.ImplV2Lists

namespace EngineModel.Gen.ImplV2
open Codec Cur EngineModel.V2

theorem gen_track_spec (bs : Bytes) : decodeTrack bs = liftDec track bs := by
  rw [decodeTrack_eq, Impl.V2.decodeTrack_eq]
theorem gen_grid_spec (bs : Bytes) : decodeGrid bs = liftDec grid bs := by
  rw [decodeGrid_eq, Impl.V2.decodeGrid_eq]
theorem gen_beat_spec (bs : Bytes) : decodeBeat bs = liftDec beat bs := by
  rw [decodeBeat_eq, Impl.V2.decodeBeat_eq]
theorem gen_ovw_spec_partial (bs : Bytes) (hb : bs.length < 9223372036854775808) :
    decodeOvw bs = liftDec ovw bs := by
  rw [decodeOvw_eq_partial bs hb, Impl.V2.decodeOvw_eq]
theorem gen_cues_spec_partial (bs : Bytes) (hb : bs.length < 2305843009213693952) :
    decodeCues bs = liftDec cues bs := by
  rw [decodeCues_eq_partial bs hb, Impl.V2.decodeCues_eq]
theorem gen_loops_spec_partial (bs : Bytes) (hb : bs.length < 2305843009213693952) :
    decodeLoops bs = liftDec loops bs := by
  rw [decodeLoops_eq_partial bs hb, Impl.V2.decodeLoops_eq]

theorem gen_track_safe (bs : Bytes) (u : Ub) : decodeTrack bs ≠ .ub u := by
  rw [gen_track_spec]; exact Impl.V2.liftDec_never_ub _ _ _
theorem gen_beat_safe (bs : Bytes) (u : Ub) : decodeBeat bs ≠ .ub u := by
  rw [gen_beat_spec]; exact Impl.V2.liftDec_never_ub _ _ _
theorem gen_ovw_safe_partial (bs : Bytes) (hb : bs.length < 9223372036854775808) (u : Ub) :
    decodeOvw bs ≠ .ub u := by
  rw [gen_ovw_spec_partial bs hb]; exact Impl.V2.liftDec_never_ub _ _ _
theorem gen_cues_safe_partial (bs : Bytes) (hb : bs.length < 2305843009213693952) (u : Ub) :
    decodeCues bs ≠ .ub u := by
  rw [gen_cues_spec_partial bs hb]; exact Impl.V2.liftDec_never_ub _ _ _
theorem gen_loops_safe_partial (bs : Bytes) (hb : bs.length < 2305843009213693952) (u : Ub) :
    decodeLoops bs ≠ .ub u := by
  rw [gen_loops_spec_partial bs hb]; exact Impl.V2.liftDec_never_ub _ _ _

end EngineModel.Gen.ImplV2
