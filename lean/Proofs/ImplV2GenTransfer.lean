/-
Transfer of the C02 / C05 statements about the 2.x payload decoders from the
hand model `Impl.V2.*` to the model regenerated from the C++ sources
(`Gen.ImplV2.*`), through the equalities of Proofs/ImplV2Gen.lean:

* `gen_*_spec`  (C02): the regenerated decoder returns exactly the verdict of the
  independent Spec decoder (`liftDec c` = the Spec's value and remainder, or
  `invalid_argument`);
* `gen_*_safe`  (C05): no byte string makes the regenerated decoder produce an
  undefined-behaviour outcome — including the signed overflow and the
  out-of-bounds cursor moves that the generated code checks explicitly.

* `gen_*_roundtrip_partial` (C03): on the *regenerated pair* — encoder and decoder both
  translated from the C++, both through the C++-style primitives of Impl/CxxPrims.lean — the
  decoder returns exactly the value and extra bytes the encoder was given;
* `gen_encode*_eq_hand_partial`: the regenerated encoder returns what the hand model
  `Impl.V2.encode*` returns (so the C04 statements on the hand model transfer).

The size hypotheses are those of the equalities (see Proofs/ImplV2Gen.lean, ImplV2GenEnc.lean).
-/
import Proofs.ImplV2Gen
import Proofs.ImplV2GenEnc
import Proofs.ImplV2Lists

namespace EngineModel.Gen.ImplV2
open Codec Cur EngineModel.V2

theorem gen_track_spec (bs : Bytes) : decodeTrack bs = liftDec track bs := by
  rw [decodeTrack_eq, Impl.V2.decodeTrack_eq]
theorem gen_grid_spec (bs : Bytes) : decodeGrid bs = liftDec grid bs := by
  rw [decodeGrid_eq, Impl.V2.decodeGrid_eq]
theorem gen_beat_spec (bs : Bytes) : decodeBeat bs = liftDec beat bs := by
  rw [decodeBeat_eq, Impl.V2.decodeBeat_eq]
theorem gen_ovw_spec_partial (bs : Bytes) (hb : bs.length < 9223372036854775808) :
    decodeOvw bs = liftDec ovw bs := by
  rw [decodeOvw_eq_partial bs hb, Impl.V2.decodeOvw_eq bs (by unfold maxCount; exact hb)]
theorem gen_cues_spec_partial (bs : Bytes) (hb : bs.length < 2305843009213693952) :
    decodeCues bs = liftDec cues bs := by
  rw [decodeCues_eq_partial bs hb, Impl.V2.decodeCues_eq]
theorem gen_loops_spec_partial (bs : Bytes) (hb : bs.length < 2305843009213693952) :
    decodeLoops bs = liftDec loops bs := by
  rw [decodeLoops_eq_partial bs hb, Impl.V2.decodeLoops_eq]

theorem gen_track_safe (bs : Bytes) (u : Ub) : decodeTrack bs ≠ .ub u := by
  rw [gen_track_spec]; exact Impl.V2.liftDec_never_ub _ _ _
theorem gen_beat_safe (bs : Bytes) (u : Ub) : decodeBeat bs ≠ .ub u := by
  rw [gen_beat_spec]; exact Impl.V2.liftDec_never_ub _ _ _
theorem gen_ovw_safe_partial (bs : Bytes) (hb : bs.length < 9223372036854775808) (u : Ub) :
    decodeOvw bs ≠ .ub u := by
  rw [gen_ovw_spec_partial bs hb]; exact Impl.V2.liftDec_never_ub _ _ _
theorem gen_cues_safe_partial (bs : Bytes) (hb : bs.length < 2305843009213693952) (u : Ub) :
    decodeCues bs ≠ .ub u := by
  rw [gen_cues_spec_partial bs hb]; exact Impl.V2.liftDec_never_ub _ _ _
theorem gen_loops_safe_partial (bs : Bytes) (hb : bs.length < 2305843009213693952) (u : Ub) :
    decodeLoops bs ≠ .ub u := by
  rw [gen_loops_spec_partial bs hb]; exact Impl.V2.liftDec_never_ub _ _ _

/-! ### encoders: regenerated = hand model -/

theorem gen_encodeTrack_eq_hand_partial (v : Track) (extra : Bytes)
    (h : (track.enc v ++ extra).length < 9223372036854775808) :
    encodeTrack v extra = Impl.V2.encodeTrack v extra := by
  rw [encodeTrack_spec_partial v extra h, Impl.V2.encodeTrack_ok]
theorem gen_encodeBeat_eq_hand_partial (v : Beat) (extra : Bytes)
    (h : (beat.enc v ++ extra).length < 9223372036854775808) :
    encodeBeat v extra = Impl.V2.encodeBeat v extra := by
  rw [encodeBeat_spec_partial v extra h, Impl.V2.encodeBeat_ok]
theorem gen_encodeOvw_eq_hand_partial (v : Ovw) (hv : v.Valid) (extra : Bytes)
    (h : (ovw.enc v ++ extra).length < 9223372036854775808) :
    encodeOvw v extra = Impl.V2.encodeOvw v extra := by
  rw [encodeOvw_spec_partial v hv extra h, Impl.V2.encodeOvw_ok v hv]
theorem gen_encodeCues_eq_hand_partial (v : Cues) (extra : Bytes)
    (h : (cues.enc v ++ extra).length < 9223372036854775808) :
    encodeCues v extra = Impl.V2.encodeCues v extra := by
  by_cases hf : Impl.V2.CuesFit v
  · rw [encodeCues_ok_partial v hf extra h, Impl.V2.encodeCues_ok v hf]
  · rw [Impl.V2.encodeCues_reject v hf]
    apply encodeCues_reject_partial v _ extra h
    apply Classical.byContradiction
    intro hne
    apply hf
    intro q hq
    apply Classical.byContradiction
    intro hlen
    exact hne ⟨q, hq, by omega⟩
theorem gen_encodeLoops_eq_hand_partial (v : Loops) (extra : Bytes)
    (h : (loops.enc v ++ extra).length < 9223372036854775808) :
    encodeLoops v extra = Impl.V2.encodeLoops v extra := by
  by_cases hf : Impl.V2.LoopsFit v
  · rw [encodeLoops_ok_partial v hf extra h, Impl.V2.encodeLoops_ok v hf]
  · rw [Impl.V2.encodeLoops_reject v hf]
    apply encodeLoops_reject_partial v _ extra h
    apply Classical.byContradiction
    intro hne
    apply hf
    intro q hq
    apply Classical.byContradiction
    intro hlen
    exact hne ⟨q, hq, by omega⟩

/-! ### the regenerated pair round-trips (C03 on the code as it is now) -/

theorem liftDec_of_sound {α} {c : Codec α} {P} (hs : c.Sound P) (a : α) (ha : P a) (r : Bytes) :
    liftDec c (c.enc a ++ r) = .ok (a, r) := by
  unfold liftDec; rw [hs a ha r]

theorem gen_track_roundtrip_partial (v : Track) (extra : Bytes)
    (h : (track.enc v ++ extra).length < 9223372036854775808) :
    ∃ b, encodeTrack v extra = .ok b ∧ decodeTrack b = .ok (v, extra) :=
  ⟨_, encodeTrack_spec_partial v extra h, by rw [gen_track_spec, liftDec_of_sound track_sound v trivial]⟩

theorem gen_beat_roundtrip_partial (v : Beat) (extra : Bytes)
    (h : (beat.enc v ++ extra).length < 9223372036854775808) :
    ∃ b, encodeBeat v extra = .ok b ∧ decodeBeat b = .ok (v, extra) := by
  refine ⟨_, encodeBeat_spec_partial v extra h, ?_⟩
  have hv : v.Valid := by
    simp only [List.length_append, Impl.V2.beat_enc_length] at h
    unfold Beat.Valid maxCount; omega
  rw [gen_beat_spec, liftDec_of_sound beat_sound v hv]

theorem gen_ovw_roundtrip_partial (v : Ovw) (hv : v.Valid) (extra : Bytes)
    (h : (ovw.enc v ++ extra).length < 9223372036854775808) :
    ∃ b, encodeOvw v extra = .ok b ∧ decodeOvw b = .ok (v, extra) :=
  ⟨_, encodeOvw_spec_partial v hv extra h, by rw [gen_ovw_spec_partial _ h, liftDec_of_sound ovw_sound v hv]⟩

theorem gen_cues_roundtrip_partial (v : Cues) (hf : ∀ q ∈ v.cues, q.label.length ≤ 255) (extra : Bytes)
    (h : (cues.enc v ++ extra).length < 2305843009213693952) :
    ∃ b, encodeCues v extra = .ok b ∧ decodeCues b = .ok (v, extra) := by
  refine ⟨_, encodeCues_ok_partial v hf extra (by omega), ?_⟩
  have hv : v.Valid := by
    refine ⟨?_, hf⟩
    simp only [List.length_append, Impl.V2.cues_enc_length] at h
    unfold maxCount; omega
  rw [gen_cues_spec_partial _ h, liftDec_of_sound cues_sound v hv]

theorem gen_loops_roundtrip_partial (v : Loops) (hf : ∀ l ∈ v, l.label.length ≤ 255) (extra : Bytes)
    (h : (loops.enc v ++ extra).length < 2305843009213693952) :
    ∃ b, encodeLoops v extra = .ok b ∧ decodeLoops b = .ok (v, extra) := by
  refine ⟨_, encodeLoops_ok_partial v hf extra (by omega), ?_⟩
  have hv : LoopsValid v := by
    refine ⟨?_, hf⟩
    simp only [List.length_append, Impl.V2.loops_enc_length] at h
    unfold maxCount; omega
  rw [gen_loops_spec_partial _ h, liftDec_of_sound loops_sound v hv]

end EngineModel.Gen.ImplV2
