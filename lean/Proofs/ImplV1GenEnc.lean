/-
The 1.x waveform encoders regenerated from the C++ sources (`Gen.ImplV1.encodeOvw`, `encodeHires`,
tools/tr_blobs_v1.py) equal the hand-written mirror `Impl.V1.encodeOvw` / `encodeHires`.

The regenerated code is the C++ statement by statement: a header of three primitive writes, a range-`for`
that writes the entry bytes *and* keeps the running maxima in locals of the function (`Wr.foldS` with
the locals as state), the maxima, and the closing `if (ptr != end) throw`.  The hand model is *defined*
as `writeInto size (header ++ flatMap … ++ [maxOf …])`; so the equality carries "same field order, same
widths, the maxima are the maxima of the right members, exact buffer size".

Hypothesis (`_partial`): the payload fits in a `std::vector<std::byte>` (`< 2^63` bytes) — the
regenerated code computes the size in wrapping `size_t` and the vector constructor throws
`length_error` above `max_size()`; the hand model uses unbounded naturals.
-/
import EngineModel.Gen.ImplV1Gen
import EngineModel.Impl.V1
import Proofs.WrLemmas
import Proofs.CxxPrimsLemmas
import Proofs.CursorCxxV1Lemmas
import Proofs.ImplV2
set_option linter.unusedSimpArgs false

namespace EngineModel
namespace Wr

/-- A range-`for` with carried locals whose body appends `g x` and steps the locals by `step`. -/
theorem foldS_run {α σ} {body : α → σ → Wr σ} {g : α → Bytes} {step : σ → α → σ}
    (h : ∀ x s size out, out.length + (g x).length ≤ size → body x s size out = .ok (step s x, out ++ g x)) :
    ∀ (xs : List α) (s : σ) (size : Nat) (out : Bytes), out.length + (xs.flatMap g).length ≤ size →
      foldS xs s body size out = .ok (xs.foldl step s, out ++ xs.flatMap g) := by
  intro xs
  induction xs with
  | nil => intro s size out _; simp [foldS]
  | cons x r ih =>
    intro s size out hroom
    simp only [List.flatMap_cons, List.length_append] at hroom
    simp only [foldS, bind_run]
    rw [h x s size out (by omega)]
    simp only []
    rw [ih (step s x) size (out ++ g x) (by rw [List.length_append]; omega)]
    simp [List.flatMap_cons]

/-- … followed by writes that fill the buffer. -/
theorem foldS_bindTo {α σ} {body : α → σ → Wr σ} {g : α → Bytes} {step : σ → α → σ} {k : σ → Wr Unit} {w : Bytes}
    (h : ∀ x s size out, out.length + (g x).length ≤ size → body x s size out = .ok (step s x, out ++ g x))
    (xs : List α) (s : σ) (hk : WritesTo (k (xs.foldl step s)) w) :
    WritesTo (foldS xs s body >>= k) (xs.flatMap g ++ w) := by
  intro size out hs
  simp only [List.length_append] at hs
  simp only [bind_run]
  rw [foldS_run h xs s size out (by omega)]
  simp only []
  rw [hk size (out ++ xs.flatMap g) (by rw [List.length_append]; omega)]
  simp

theorem foldl_prod {α σ τ} (f : σ → α → σ) (g : τ → α → τ) :
    ∀ (xs : List α) (a : σ) (b : τ),
      xs.foldl (fun (s : σ × τ) x => (f s.1 x, g s.2 x)) (a, b) = (xs.foldl f a, xs.foldl g b) := by
  intro xs
  induction xs with
  | nil => intro a b; rfl
  | cons x r ih => intro a b; simp only [List.foldl_cons, ih]

end Wr

namespace Gen.ImplV1
open Codec Wr

/-- `std::max(m, x)` on `uint8_t` as the translator writes it -/
def mx (f : Impl.V1.Entry → UInt8) (m : UInt8) (e : Impl.V1.Entry) : UInt8 := if m < f e then f e else m

theorem maxOf_foldl (f : Impl.V1.Entry → UInt8) (es : List Impl.V1.Entry) :
    Impl.V1.maxOf f es = es.foldl (mx f) 0 := rfl

/-! ### overview waveform -/

def ovwStep (s : UInt8 × UInt8 × UInt8) (e : Impl.V1.Entry) : UInt8 × UInt8 × UInt8 :=
  (mx (·.lv) s.1 e, mx (·.mv) s.2.1 e, mx (·.hv) s.2.2 e)

theorem encodeOvw_body1_run (e : Impl.V1.Entry) (s : UInt8 × UInt8 × UInt8) (size : Nat) (out : Bytes)
    (h : out.length + [e.lv, e.mv, e.hv].length ≤ size) :
    encodeOvw_body1 e s size out = .ok (ovwStep s e, out ++ [e.lv, e.mv, e.hv]) := by
  obtain ⟨a, b, c⟩ := s
  simp only [List.length_cons, List.length_nil] at h
  unfold encodeOvw_body1
  simp only [CxxPrims.encode_uint8_eq, bind_run, pure_run]
  rw [Writes.put _ size out (by simp [u8]; omega)]
  simp only []
  rw [Writes.put _ size _ (by simp [u8]; omega)]
  simp only []
  rw [Writes.put _ size _ (by simp [u8]; omega)]
  simp [u8, ovwStep, mx]

theorem ovwStep_foldl (es : List Impl.V1.Entry) :
    es.foldl ovwStep (0, 0, 0) =
      (Impl.V1.maxOf (·.lv) es, Impl.V1.maxOf (·.mv) es, Impl.V1.maxOf (·.hv) es) := by
  simp only [maxOf_foldl]
  rw [← foldl_prod (mx (·.mv)) (mx (·.hv)), ← foldl_prod (mx (·.lv))]
  rfl

/-- `overview_waveform_data::encode`.
Full statement: `encodeOvw = Impl.V1.encodeOvw` — false only for waveforms of 2^63 bytes and more (no machine holds
one): the buffer size `27 + 3 * n` is computed in wrapping `size_t` and `std::vector<std::byte>(size)` throws
`length_error` above `max_size()`; the hand model has unbounded naturals. -/
theorem encodeOvw_eq_partial (v : Impl.V1.Wave) (h : 27 + 3 * v.entries.length < 9223372036854775808) :
    encodeOvw v = Impl.V1.encodeOvw v := by
  have hfl : (v.entries.flatMap (fun e => [e.lv, e.mv, e.hv])).length = 3 * v.entries.length := by
    induction v.entries with
    | nil => rfl
    | cons e es ih => simp only [List.flatMap_cons, List.length_append, ih, List.length_cons, List.length_nil]; omega
  have hl : (u64be.enc (UInt64.ofNat v.entries.length) ++ u64be.enc (UInt64.ofNat v.entries.length) ++
      u64be.enc v.spe ++ v.entries.flatMap (fun e => [e.lv, e.mv, e.hv]) ++
      [Impl.V1.maxOf (·.lv) v.entries, Impl.V1.maxOf (·.mv) v.entries, Impl.V1.maxOf (·.hv) v.entries]).length =
      27 + 3 * v.entries.length := by
    simp only [List.length_append, Impl.V2.u64be_enc_length, hfl, List.length_cons, List.length_nil]
    omega
  unfold encodeOvw Impl.V1.encodeOvw
  simp only []
  rw [Impl.V2.writeInto_exact hl]
  simp (disch := omega) only [u64_add_small, u64_mul_small]
  refine run_of_writesTo ?_ hl (by omega)
  simp only [CxxPrims.encode_double_be_eq, CxxPrims.encode_int64_be_eq, count_bits]
  refine WritesTo.congr
    ((Writes.put _).bindTo <| (Writes.put _).bindTo <| (Writes.put _).bindTo <|
      foldS_bindTo (g := fun e => [e.lv, e.mv, e.hv]) (step := ovwStep) (w := [Impl.V1.maxOf (·.lv) v.entries,
          Impl.V1.maxOf (·.mv) v.entries, Impl.V1.maxOf (·.hv) v.entries])
        encodeOvw_body1_run v.entries (0, 0, 0) ?_) ?_
  · rw [ovwStep_foldl]
    simp only [CxxPrims.encode_uint8_eq]
    exact WritesTo.congr
      ((Writes.put _).bindTo <| (Writes.put _).bindTo <| (Writes.put _).bindTo <| WritesTo.endCheck _) (by simp [u8])
  · simp only [List.append_assoc]

/-! ### high-resolution waveform -/

abbrev S6 := UInt8 × UInt8 × UInt8 × UInt8 × UInt8 × UInt8

def hiresStep (s : S6) (e : Impl.V1.Entry) : S6 :=
  (mx (·.lv) s.1 e, mx (·.mv) s.2.1 e, mx (·.hv) s.2.2.1 e, mx (·.lo) s.2.2.2.1 e, mx (·.mo) s.2.2.2.2.1 e,
    mx (·.ho) s.2.2.2.2.2 e)

theorem encodeHires_body1_run (e : Impl.V1.Entry) (s : S6) (size : Nat) (out : Bytes)
    (h : out.length + [e.lv, e.mv, e.hv, e.lo, e.mo, e.ho].length ≤ size) :
    encodeHires_body1 e s size out = .ok (hiresStep s e, out ++ [e.lv, e.mv, e.hv, e.lo, e.mo, e.ho]) := by
  obtain ⟨a, b, c, d, f, g⟩ := s
  simp only [List.length_cons, List.length_nil] at h
  unfold encodeHires_body1
  simp only [CxxPrims.encode_uint8_eq, bind_run, pure_run]
  rw [Writes.put _ size out (by simp [u8]; omega)]
  simp only []
  rw [Writes.put _ size _ (by simp [u8]; omega)]
  simp only []
  rw [Writes.put _ size _ (by simp [u8]; omega)]
  simp only []
  rw [Writes.put _ size _ (by simp [u8]; omega)]
  simp only []
  rw [Writes.put _ size _ (by simp [u8]; omega)]
  simp only []
  rw [Writes.put _ size _ (by simp [u8]; omega)]
  simp [u8, hiresStep, mx]

theorem hiresStep_foldl (es : List Impl.V1.Entry) :
    es.foldl hiresStep (0, 0, 0, 0, 0, 0) =
      (Impl.V1.maxOf (·.lv) es, Impl.V1.maxOf (·.mv) es, Impl.V1.maxOf (·.hv) es,
        Impl.V1.maxOf (·.lo) es, Impl.V1.maxOf (·.mo) es, Impl.V1.maxOf (·.ho) es) := by
  simp only [maxOf_foldl]
  rw [← foldl_prod (mx (·.mo)) (mx (·.ho)), ← foldl_prod (mx (·.lo)), ← foldl_prod (mx (·.hv)),
    ← foldl_prod (mx (·.mv)), ← foldl_prod (mx (·.lv))]
  rfl

/-- `high_res_waveform_data::encode`.
Full statement: `encodeHires = Impl.V1.encodeHires`; false only for waveforms of 2^63 bytes and more (see
`encodeOvw_eq_partial`). -/
theorem encodeHires_eq_partial (v : Impl.V1.Wave) (h : 30 + 6 * v.entries.length < 9223372036854775808) :
    encodeHires v = Impl.V1.encodeHires v := by
  have hfl : (v.entries.flatMap (fun e => [e.lv, e.mv, e.hv, e.lo, e.mo, e.ho])).length = 6 * v.entries.length := by
    induction v.entries with
    | nil => rfl
    | cons e es ih => simp only [List.flatMap_cons, List.length_append, ih, List.length_cons, List.length_nil]; omega
  have hl : (u64be.enc (UInt64.ofNat v.entries.length) ++ u64be.enc (UInt64.ofNat v.entries.length) ++
      u64be.enc v.spe ++ v.entries.flatMap (fun e => [e.lv, e.mv, e.hv, e.lo, e.mo, e.ho]) ++
      [Impl.V1.maxOf (·.lv) v.entries, Impl.V1.maxOf (·.mv) v.entries, Impl.V1.maxOf (·.hv) v.entries,
       Impl.V1.maxOf (·.lo) v.entries, Impl.V1.maxOf (·.mo) v.entries, Impl.V1.maxOf (·.ho) v.entries]).length =
      30 + 6 * v.entries.length := by
    simp only [List.length_append, Impl.V2.u64be_enc_length, hfl, List.length_cons, List.length_nil]
    omega
  unfold encodeHires Impl.V1.encodeHires
  simp only []
  rw [Impl.V2.writeInto_exact hl]
  simp (disch := omega) only [u64_add_small, u64_mul_small]
  refine run_of_writesTo ?_ hl (by omega)
  simp only [CxxPrims.encode_double_be_eq, CxxPrims.encode_int64_be_eq, count_bits]
  refine WritesTo.congr
    ((Writes.put _).bindTo <| (Writes.put _).bindTo <| (Writes.put _).bindTo <|
      foldS_bindTo (g := fun e => [e.lv, e.mv, e.hv, e.lo, e.mo, e.ho]) (step := hiresStep)
        (w := [Impl.V1.maxOf (·.lv) v.entries, Impl.V1.maxOf (·.mv) v.entries, Impl.V1.maxOf (·.hv) v.entries,
          Impl.V1.maxOf (·.lo) v.entries, Impl.V1.maxOf (·.mo) v.entries, Impl.V1.maxOf (·.ho) v.entries])
        encodeHires_body1_run v.entries (0, 0, 0, 0, 0, 0) ?_) ?_
  · rw [hiresStep_foldl]
    simp only [CxxPrims.encode_uint8_eq]
    exact WritesTo.congr
      ((Writes.put _).bindTo <| (Writes.put _).bindTo <| (Writes.put _).bindTo <| (Writes.put _).bindTo <|
        (Writes.put _).bindTo <| (Writes.put _).bindTo <| WritesTo.endCheck _) (by simp [u8])
  · simp only [List.append_assoc]

end Gen.ImplV1
end EngineModel
