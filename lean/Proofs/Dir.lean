/-
Helper lemmas about the directory model `EngineModel.Spec.Dir` (C10 iii, C16).
-/
import EngineModel.Spec.Dir

namespace EngineModel.Proofs.Dir
open EngineModel EngineModel.Spec.Dir EngineModel.Pure.Detect

/-- all 4·4·2·4·2 shapes -/
macro "dir_cases" d:ident : tactic =>
  `(tactic| (rcases $d:ident with ⟨dir, m, p, d2, dm, stL, stD⟩; cases dir <;> cases m <;> cases p <;> cases d2 <;> cases dm))

theorem notFound_ne_inconsistency : notFound ≠ inconsistency := by decide
theorem notFound_ne_unsupported : notFound ≠ unsupported := by decide
theorem notFound_ne_sqlite : notFound ≠ Exn.sqlite_error := by decide

theorem detectFile_ne_notFound (f : FileSt) (st : Stamp) : detectFile f st ≠ .throw notFound := by
  unfold detectFile
  cases f <;> simp [notFound, inconsistency]
  split <;> simp [unsupported, notFound]

theorem loadLegacySqlite_dir (d : Dir) : (loadLegacySqlite d).1 = d := by
  dir_cases d <;> simp [loadLegacySqlite, openCreate, FileSt.present]

theorem loadDb2Sqlite_dir (d : Dir) : (loadDb2Sqlite d).1 = d := by
  dir_cases d <;> simp [loadDb2Sqlite, openCreate, db2Exists, FileSt.present]

theorem loadLegacyWith_dir (d : Dir) : (loadLegacyWith loadLegacySqlite d).1 = d := loadLegacySqlite_dir d

theorem v2Load_dir (d : Dir) : (v2Load d).1 = d := loadDb2Sqlite_dir d

theorem loadDatabase_dir (d : Dir) : (loadDatabase d).1 = d := by
  unfold loadDatabase loadDatabaseWith
  split
  · rfl
  · rfl
  · exact loadLegacyWith_dir d
  · exact v2Load_dir d

theorem databaseExists_dir (d : Dir) : (databaseExists d).1 = d := loadDatabase_dir d

theorem loadDatabase_eq (d : Dir) : loadDatabase d = (d, (loadDatabase d).2) :=
  Prod.ext (loadDatabase_dir d) rfl

theorem bind_detect_ne_notFound (r : Res Unit) (f : FileSt) (st : Stamp) (h : r ≠ .throw notFound) :
    (r.bind fun _ => detectFile f st) ≠ .throw notFound := by
  cases r with
  | ok u => exact detectFile_ne_notFound f st
  | throw e => simpa [Res.bind] using h
  | ub u => simp [Res.bind]

theorem requireDb2_ne_notFound (r : Res Schema) (h : r ≠ .throw notFound) : requireDb2Schema r ≠ .throw notFound := by
  cases r with
  | ok s => by_cases hle : Schema.schema_2_18_0.ord ≤ s.ord <;> simp [requireDb2Schema, hle, notFound, inconsistency]
  | throw e => exact h
  | ub u => simp [requireDb2Schema]

/-- the loader answers "not found" exactly when neither or both of m.db / Database2/m.db exist -/
theorem load_notFound_iff (d : Dir) :
    (loadDatabase d).2 = .throw notFound ↔ legacyExists d = db2Exists d := by
  obtain ⟨dir, m, p, d2, dm, stL, stD⟩ := d
  cases dir <;> cases m <;> cases p <;> cases d2 <;> cases dm <;>
    simp [loadDatabase, loadDatabaseWith, detectIsDb2, legacyExists, db2Exists, loadLegacyWith, loadLegacySqlite,
      v2LoadWith, loadDb2Sqlite, openCreate, FileSt.present, Res.bind, notFound_ne_inconsistency, notFound_ne_sqlite,
      detectFile_ne_notFound, notFound_ne_inconsistency.symm, notFound_ne_sqlite.symm]
  all_goals first
    | exact requireDb2_ne_notFound _ (detectFile_ne_notFound _ _)
    | exact requireDb2_ne_notFound _ (by simp [notFound])

end EngineModel.Proofs.Dir

namespace EngineModel.Proofs.Dir
open EngineModel EngineModel.Spec.Dir EngineModel.Pure.Detect

theorem detect_stampOf (s : Schema) (f : FileSt) (h : f = .valid) : detectFile f (stampOf s) = .ok s := by
  subst h
  cases s <;> rfl

theorem createOrLoadAt_created_iff (d : Dir) (req : Schema) :
    (createOrLoadAt d req).created = true ↔ (legacyExists d = false ∧ db2Exists d = false) := by
  unfold createOrLoadAt createOrLoadAtWith
  simp only [loadDatabase_dir]
  by_cases h : (loadDatabase d).2 = .throw notFound
  · have hi := (load_notFound_iff d).1 h
    simp only [h, if_true]
    cases hl : legacyExists d <;> simp_all
  · have hi := mt (load_notFound_iff d).2 h
    simp only [h, if_false]
    cases hl : legacyExists d <;> cases h2 : db2Exists d <;> simp_all

theorem createOrLoadAt_not_created (d : Dir) (req : Schema) (h : (createOrLoadAt d req).created = false) :
    (createOrLoadAt d req).dir = d ∧ (createOrLoadAt d req).res = (loadDatabase d).2 := by
  unfold createOrLoadAt createOrLoadAtWith at *
  simp only [loadDatabase_dir] at *
  by_cases hn : (loadDatabase d).2 = .throw notFound
  · simp only [hn, if_true] at *
    split at h
    · simp_all
    · simp at h
  · simp only [hn, if_false]; simp

end EngineModel.Proofs.Dir
