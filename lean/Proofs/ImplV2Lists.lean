/-
Agreement of the Model's 2.x quick-cue and loop codecs with the Spec layouts
(`decodeCues_eq`, `decodeLoops_eq`, `encodeCues_ok/_reject`,
`encodeLoops_ok/_reject`).  Completes Proofs/ImplV2.lean.
-/
import Proofs.ImplV2
set_option linter.unusedSimpArgs false
set_option linter.unusedVariables false

namespace EngineModel
open Codec Cur

/-! ### generic facts about `decN`, `forN`, `liftDec` -/
namespace Codec

/-- `n` elements of at least `w` bytes each need `w * n` bytes. -/
theorem decN_min_length {α} {c : Codec α} {P} (hx : c.Exact P) {w : Nat}
    (hw : ∀ a, P a → w ≤ (c.enc a).length) :
    ∀ (n : Nat) (bs : Bytes) (l : List α) (r : Bytes), decN c n bs = some (l, r) →
      w * n + r.length ≤ bs.length := by
  intro n
  induction n with
  | zero =>
    intro bs l r h
    simp [decN] at h
    obtain ⟨_, rfl⟩ := h
    simp
  | succ n ih =>
    intro bs l r h
    simp only [decN] at h
    split at h
    · simp at h
    · rename_i a r1 h1
      split at h
      · simp at h
      · rename_i l' r2 h2
        simp at h
        obtain ⟨_, rfl⟩ := h
        obtain ⟨pa, e1⟩ := hx _ _ _ h1
        have h3 := ih _ _ _ h2
        have h4 := hw a pa
        rw [e1, List.length_append]
        have : w * (n + 1) = w * n + w := Nat.mul_succ w n
        omega

theorem decN_rest_le {α} {c : Codec α} {P} (hx : c.Exact P)
    {n : Nat} {bs : Bytes} {l : List α} {r : Bytes} (h : decN c n bs = some (l, r)) :
    r.length ≤ bs.length := by
  have := decN_min_length hx (w := 0) (fun _ _ => Nat.zero_le _) n bs l r h
  omega

theorem forN_liftDec {α} (c : Codec α) : ∀ (n : Nat) (bs : Bytes),
    forN (liftDec c) n bs = match decN c n bs with
      | some p => .ok p
      | none => .throw .invalid_argument := by
  intro n
  induction n with
  | zero => intro bs; rfl
  | succ n ih =>
    intro bs
    simp only [forN, bind_run, decN]
    have hl : liftDec c bs = (match c.dec bs with
      | some p => .ok p | none => .throw .invalid_argument) := rfl
    rw [hl]
    cases h : c.dec bs with
    | none => simp
    | some p =>
      obtain ⟨a, r⟩ := p
      simp only []
      rw [ih r]
      cases h2 : decN c n r with
      | none => simp
      | some q => obtain ⟨l, r'⟩ := q; simp

theorem cur_bind_assoc {α β γ} (m : Cur α) (f : α → Cur β) (g : β → Cur γ) :
    (m >>= f) >>= g = m >>= fun a => f a >>= g := by
  funext bs
  simp only [bind_run]
  cases m bs with
  | ok p => obtain ⟨a, r⟩ := p; rfl
  | throw e => rfl
  | ub u => rfl

theorem cur_pure_bind {α β} (a : α) (f : α → Cur β) : (pure a >>= f) = f a := by
  funext bs; rfl

theorem lp8_enc_length (s : Bytes) : (lp8.enc s).length = 1 + s.length := by
  simp [lp8]; omega

theorem liftDec_of_dec {α} {c : Codec α} {bs : Bytes} {p} (h : c.dec bs = some p) :
    liftDec c bs = .ok p := by unfold liftDec; rw [h]

theorem liftDec_ok_iff {α} {c : Codec α} {bs : Bytes} {p} :
    liftDec c bs = .ok p ↔ c.dec bs = some p := by
  unfold liftDec
  cases c.dec bs with
  | none => simp
  | some q => simp

theorem rd_u8_cons (n : UInt8) (r : Bytes) : Cur.rd u8 (n :: r) = .ok (n, r) := rfl

theorem lp8_dec_cons (n : UInt8) (r : Bytes) :
    lp8.dec (n :: r) = if n.toNat ≤ r.length then some (r.take n.toNat, r.drop n.toNat) else none := rfl

end Codec

namespace Impl.V2
open EngineModel.V2

/-! ### loops -/

def loopTail : Codec (UInt64 × UInt64 × UInt8 × UInt8 × Color) :=
  pair u64le (pair u64le (pair u8 (pair u8 color)))

theorem loopTail_exact : loopTail.Exact (fun _ => True) :=
  (pair_exact u64le_exact (pair_exact u64le_exact (pair_exact u8_exact
    (pair_exact u8_exact color_exact)))).mono (fun _ _ => trivial)

theorem loopTail_enc_length (t) : (loopTail.enc t).length = 22 := rfl

theorem loopTail_dec_some (bs : Bytes) (h : 22 ≤ bs.length) :
    ∃ t, loopTail.dec bs = some (t, bs.drop 22) := by
  obtain ⟨c, hc⟩ := color_dec_some (bs.drop 18) (by simp; omega)
  simp (disch := (first | omega | (simp; omega)))
    [loopTail, pair, dec_run_u64le, dec_run_u8, List.drop_drop, hc] at hc ⊢

theorem loop_dec_eq (bs : Bytes) : loop.dec bs =
    match lp8.dec bs with
    | none => none
    | some (lab, r) =>
      match loopTail.dec r with
      | none => none
      | some (t, r') => some (⟨lab, t.1, t.2.1, t.2.2.1, t.2.2.2.1, t.2.2.2.2⟩, r') := by
  show (map _ _ (pair lp8 loopTail)).dec bs = _
  simp only [map, pair]
  cases lp8.dec bs with
  | none => rfl
  | some p =>
    obtain ⟨lab, r⟩ := p
    simp only []
    cases loopTail.dec r with
    | none => rfl
    | some p => rfl

/-- The statements of `decodeLoop` after the label, as one cursor action. -/
def loopTailRd : Cur (UInt64 × UInt64 × UInt8 × UInt8 × Color) := do
  let s ← rd u64le
  let e ← rd u64le
  let f1 ← rd u8
  let f2 ← rd u8
  let col ← rd color
  pure (s, e, f1, f2, col)

theorem loopTailRd_run (bs : Bytes) (h : 22 ≤ bs.length) :
    ∃ t, loopTail.dec bs = some (t, bs.drop 22) ∧ loopTailRd bs = .ok (t, bs.drop 22) := by
  obtain ⟨c, hc⟩ := color_dec_some (bs.drop 18) (by simp; omega)
  have hr : rd color (bs.drop 18) = .ok (c, (bs.drop 18).drop 4) := rd_of_dec hc
  simp only [List.drop_drop] at hc hr
  refine ⟨(u64le.get bs, u64le.get (bs.drop 8), u8.get (bs.drop 16), u8.get (bs.drop 17), c), ?_, ?_⟩
  · simp (disch := (first | omega | (simp; omega)))
      [loopTail, pair, dec_run_u64le, dec_run_u8, List.drop_drop, hc]
  · simp (disch := (first | omega | (simp; omega)))
      [loopTailRd, bind_run, rd_u64le_run, rd_u8_run, List.drop_drop, hr]

theorem decodeLoop_split : decodeLoop = (do
    let rem ← remaining
    if rem < 23 then throwC .invalid_argument else
    let len ← rd u8
    let rem ← remaining
    if rem < 22 + len.toNat then throwC .invalid_argument else
    let label ← takeN len.toNat
    let t ← loopTailRd
    pure ⟨label, t.1, t.2.1, t.2.2.1, t.2.2.2.1, t.2.2.2.2⟩ : Cur Loop) := by
  simp only [decodeLoop, loopTailRd, cur_bind_assoc, cur_pure_bind]

theorem loop_enc_length (l : Loop) : (loop.enc l).length = 23 + l.label.length := by
  show (lp8.enc l.label ++ loopTail.enc _).length = _
  rw [List.length_append, lp8_enc_length, loopTail_enc_length]; omega

theorem decodeLoop_eq (bs : Bytes) : decodeLoop bs = liftDec loop bs := by
  rw [decodeLoop_split]
  unfold liftDec
  rw [loop_dec_eq]
  simp only [bind_run, remaining_run]
  by_cases h23 : bs.length < 23
  · simp only [h23, if_true, throwC_run]
    have : loop.dec bs = none :=
      dec_none_of_short loop_exact (n := 23) (fun a _ => by rw [loop_enc_length]; omega) h23
    rw [loop_dec_eq] at this
    rw [this]
  · simp only [h23, if_false]
    cases bs with
    | nil => simp at h23
    | cons n r =>
      have hr : 22 ≤ r.length := by simp at h23; omega
      simp only [bind_run, rd_u8_cons, lp8_dec_cons, remaining_run]
      by_cases hl : r.length < 22 + n.toNat
      · simp only [hl, if_true, throwC_run]
        by_cases hn : n.toNat ≤ r.length
        · simp only [hn, if_true]
          have : loopTail.dec (r.drop n.toNat) = none :=
            dec_none_of_short loopTail_exact (n := 22) (fun a _ => by rw [loopTail_enc_length]; omega)
              (by simp; omega)
          rw [this]
        · simp only [hn, if_false]
      · have hn : n.toNat ≤ r.length := by omega
        simp only [hl, if_false, hn, if_true, takeN, bind_run]
        obtain ⟨t, h1, h2⟩ := loopTailRd_run (r.drop n.toNat) (by simp; omega)
        simp only [h1, h2, pure_run]

theorem decodeLoop_fun : decodeLoop = liftDec loop := funext decodeLoop_eq

theorem decodeLoops_eq (bs : Bytes) : decodeLoops bs = liftDec loops bs := by
  unfold decodeLoops liftDec loops counted
  by_cases h8 : bs.length < 8
  · simp [h8, u64le_dec_none h8]
  · have h8' : 8 ≤ bs.length := by omega
    simp only [h8, if_false, bind_run, rd_u64le_run h8', dec_run_u64le h8', remaining_run]
    generalize u64le.get bs = k
    by_cases hk : k.toNat < maxCount
    · have hs := s64_of_lt k hk
      simp only [hk, if_true, hs]
      have hneg : ¬ ((k.toNat : Int) < 0) := by omega
      by_cases hr : ((bs.drop 8).length / 23 : Int) < (k.toNat : Int)
      · simp only [hr, or_true, if_true, throwC_run, Res.bind]
        cases hd : decN loop k.toNat (bs.drop 8) with
        | none => rfl
        | some p =>
          exfalso
          obtain ⟨l, r⟩ := p
          have := decN_min_length loop_exact (w := 23)
            (fun a _ => by rw [loop_enc_length]; omega) _ _ _ _ hd
          omega
      · simp only [hr, hneg, or_self, if_false, bind_run]
        rw [decodeLoop_fun, forN_liftDec]
        cases hd : decN loop k.toNat (bs.drop 8) with
        | none => simp [Res.bind]
        | some p => obtain ⟨l, r⟩ := p; simp [Res.bind]
    · have hneg : Prim.s64 k < 0 := by
        have := k.toNat_lt
        unfold Prim.s64
        unfold maxCount at hk
        split <;> omega
      simp [hk, hneg, Res.bind]

/-! ### quick cues -/

def cueTail : Codec (UInt64 × Color) := pair u64be color

theorem cueTail_exact : cueTail.Exact (fun _ => True) :=
  (pair_exact u64be_exact color_exact).mono (fun _ _ => trivial)

theorem cueTail_enc_length (t) : (cueTail.enc t).length = 12 := rfl

theorem cue_dec_eq (bs : Bytes) : cue.dec bs =
    match lp8.dec bs with
    | none => none
    | some (lab, r) =>
      match cueTail.dec r with
      | none => none
      | some (t, r') => some (⟨lab, t.1, t.2⟩, r') := by
  show (map _ _ (pair lp8 cueTail)).dec bs = _
  simp only [map, pair]
  cases lp8.dec bs with
  | none => rfl
  | some p =>
    obtain ⟨lab, r⟩ := p
    simp only []
    cases cueTail.dec r with
    | none => rfl
    | some p => rfl

theorem cue_enc_length (q : Cue) : (cue.enc q).length = 13 + q.label.length := by
  show (lp8.enc q.label ++ cueTail.enc _).length = _
  rw [List.length_append, lp8_enc_length, cueTail_enc_length]; omega

def cueTailRd : Cur (UInt64 × Color) := do
  let off ← rd u64be
  let col ← rd color
  pure (off, col)

theorem cueTailRd_run (bs : Bytes) (h : 12 ≤ bs.length) :
    ∃ t, cueTail.dec bs = some (t, bs.drop 12) ∧ cueTailRd bs = .ok (t, bs.drop 12) := by
  obtain ⟨c, hc⟩ := color_dec_some (bs.drop 8) (by simp; omega)
  have hr : rd color (bs.drop 8) = .ok (c, (bs.drop 8).drop 4) := rd_of_dec hc
  simp only [List.drop_drop] at hc hr
  refine ⟨(u64be.get bs, c), ?_, ?_⟩
  · simp (disch := (first | omega | (simp; omega)))
      [cueTail, pair, dec_run_u64be, List.drop_drop, hc]
  · simp (disch := (first | omega | (simp; omega)))
      [cueTailRd, bind_run, rd_u64be_run, List.drop_drop, hr]

theorem decodeCue_split : decodeCue = (do
    let len ← rd u8
    let rem ← remaining
    if rem < 29 + len.toNat then throwC .invalid_argument else
    let label ← takeN len.toNat
    let t ← cueTailRd
    pure ⟨label, t.1, t.2⟩ : Cur Cue) := by
  simp only [decodeCue, cueTailRd, cur_bind_assoc, cur_pure_bind]

/-- One iteration of the quick-cue loop, entered with at least one byte left:
the Spec's cue followed by the requirement that the 17 trailing bytes remain. -/
theorem decodeCue_run (bs : Bytes) (h : 1 ≤ bs.length) :
    decodeCue bs = match cue.dec bs with
      | some (q, r) => if 17 ≤ r.length then .ok (q, r) else .throw .invalid_argument
      | none => .throw .invalid_argument := by
  rw [decodeCue_split, cue_dec_eq]
  cases bs with
  | nil => simp at h
  | cons n r =>
    simp only [bind_run, rd_u8_cons, lp8_dec_cons, remaining_run]
    by_cases hl : r.length < 29 + n.toNat
    · simp only [hl, if_true, throwC_run]
      by_cases hn : n.toNat ≤ r.length
      · simp only [hn, if_true]
        cases hd : cueTail.dec (r.drop n.toNat) with
        | none => rfl
        | some p =>
          obtain ⟨t, r'⟩ := p
          simp only []
          have e := (cueTail_exact _ _ _ hd).2
          have : (r.drop n.toNat).length = 12 + r'.length := by
            rw [e, List.length_append, cueTail_enc_length]
          have h17 : ¬ (17 ≤ r'.length) := by simp at this; omega
          simp only [h17, if_false]
      · simp only [hn, if_false]
    · have hn : n.toNat ≤ r.length := by omega
      simp only [hl, if_false, hn, if_true, takeN, bind_run]
      obtain ⟨t, h1, h2⟩ := cueTailRd_run (r.drop n.toNat) (by simp; omega)
      have h17 : 17 ≤ ((r.drop n.toNat).drop 12).length := by simp; omega
      simp only [h1, h2, pure_run, h17, if_true]

theorem forN_decodeCue : ∀ (n : Nat) (bs : Bytes), 17 ≤ bs.length →
    forN decodeCue n bs = match decN cue n bs with
      | some (l, r) => if 17 ≤ r.length then .ok (l, r) else .throw .invalid_argument
      | none => .throw .invalid_argument := by
  intro n
  induction n with
  | zero => intro bs h; simp [forN, decN, h]
  | succ n ih =>
    intro bs h
    simp only [forN, bind_run, decN]
    rw [decodeCue_run bs (by omega)]
    cases hd : cue.dec bs with
    | none => rfl
    | some p =>
      obtain ⟨q, r⟩ := p
      simp only []
      by_cases h17 : 17 ≤ r.length
      · simp only [h17, if_true]
        rw [ih r h17]
        cases hd2 : decN cue n r with
        | none => rfl
        | some p2 =>
          obtain ⟨l, r'⟩ := p2
          simp only []
          by_cases h17' : 17 ≤ r'.length <;> simp [h17']
      · simp only [h17, if_false]
        cases hd2 : decN cue n r with
        | none => rfl
        | some p2 =>
          obtain ⟨l, r'⟩ := p2
          simp only []
          have := decN_rest_le cue_exact hd2
          have h17' : ¬ (17 ≤ r'.length) := by omega
          simp [h17']

def cuesTail : Codec (UInt64 × UInt8 × UInt64) := pair u64be (pair u8 u64be)

theorem cuesTail_exact : cuesTail.Exact (fun _ => True) :=
  (pair_exact u64be_exact (pair_exact u8_exact u64be_exact)).mono (fun _ _ => trivial)

theorem cuesTail_enc_length (t) : (cuesTail.enc t).length = 17 := rfl

theorem cues_dec_eq (bs : Bytes) : cues.dec bs =
    match (counted u64be cue).dec bs with
    | none => none
    | some (l, r) =>
      match cuesTail.dec r with
      | none => none
      | some (t, r') => some (⟨l, t.1, t.2.1 != 0, t.2.2⟩, r') := by
  show (map CuesRaw.toCues Cues.toRaw (map _ _ (pair (counted u64be cue) cuesTail))).dec bs = _
  simp only [map, pair]
  cases (counted u64be cue).dec bs with
  | none => rfl
  | some p =>
    obtain ⟨l, r⟩ := p
    simp only []
    cases cuesTail.dec r with
    | none => rfl
    | some p => rfl

theorem decodeCues_eq (bs : Bytes) : decodeCues bs = liftDec cues bs := by
  unfold decodeCues liftDec
  rw [cues_dec_eq]
  simp only [counted]
  by_cases h25 : bs.length < 25
  · simp only [h25, if_true]
    by_cases h8 : bs.length < 8
    · simp [u64be_dec_none h8]
    · have h8' : 8 ≤ bs.length := by omega
      simp only [dec_run_u64be h8']
      by_cases hk : (u64be.get bs).toNat < maxCount
      · simp only [hk, if_true]
        cases hd : decN cue (u64be.get bs).toNat (bs.drop 8) with
        | none => rfl
        | some p =>
          obtain ⟨l, r⟩ := p
          simp only []
          have := decN_rest_le cue_exact hd
          have : cuesTail.dec r = none :=
            dec_none_of_short cuesTail_exact (n := 17)
              (fun a _ => by rw [cuesTail_enc_length]; omega) (by simp at this; omega)
          rw [this]
      · simp only [hk, if_false]
  · have h8' : 8 ≤ bs.length := by omega
    simp only [h25, if_false, bind_run, rd_u64be_run h8', dec_run_u64be h8', remaining_run]
    generalize u64be.get bs = k
    by_cases hk : k.toNat < maxCount
    · have hs := s64_of_lt k hk
      simp only [hk, if_true, hs]
      have hneg : ¬ ((k.toNat : Int) < 0) := by omega
      by_cases hr : ((bs.drop 8).length / 13 : Int) < (k.toNat : Int)
      · simp only [hr, or_true, if_true, throwC_run, Res.bind]
        cases hd : decN cue k.toNat (bs.drop 8) with
        | none => rfl
        | some p =>
          exfalso
          obtain ⟨l, r⟩ := p
          have := decN_min_length cue_exact (w := 13)
            (fun a _ => by rw [cue_enc_length]; omega) _ _ _ _ hd
          omega
      · simp only [hr, hneg, or_self, if_false, bind_run]
        rw [forN_decodeCue _ _ (by simp; omega)]
        cases hd : decN cue k.toNat (bs.drop 8) with
        | none => simp [Res.bind]
        | some p =>
          obtain ⟨l, r⟩ := p
          simp only []
          by_cases h17 : 17 ≤ r.length
          · simp only [h17, if_true]
            have e1 := dec_run_u64be (bs := r) (by omega)
            have e2 := dec_run_u8 (bs := r.drop 8) (by simp; omega)
            have e3 := dec_run_u64be (bs := r.drop 9) (by simp; omega)
            have r1 := rd_u64be_run (bs := r) (by omega)
            have r2 := rd_u8_run (bs := r.drop 8) (by simp; omega)
            have r3 := rd_u64be_run (bs := r.drop 9) (by simp; omega)
            simp only [List.drop_drop] at e2 e3 r2 r3
            simp [cuesTail, pair, e1, e2, e3, r1, r2, r3, Res.bind, List.drop_drop]
          · simp only [h17, if_false]
            have : cuesTail.dec r = none :=
              dec_none_of_short cuesTail_exact (n := 17)
                (fun a _ => by rw [cuesTail_enc_length]; omega) (by omega)
            simp [this, Res.bind]
    · have hneg : Prim.s64 k < 0 := by
        have := k.toNat_lt
        unfold Prim.s64
        unfold maxCount at hk
        split <;> omega
      simp [hk, hneg, Res.bind]

/-! ### encoders -/

theorem encL_cue_length (l : List Cue) :
    (encL cue l).length = 13 * l.length + labelsLen (l.map (·.label)) := by
  induction l with
  | nil => simp [encL, labelsLen]
  | cons a l ih =>
    simp only [encL, List.length_append, cue_enc_length, ih, List.length_cons, List.map_cons, labelsLen,
      List.sum_cons]
    simp only [labelsLen] at ih
    omega

theorem encL_loop_length (l : List Loop) :
    (encL loop l).length = 23 * l.length + labelsLen (l.map (·.label)) := by
  induction l with
  | nil => simp [encL, labelsLen]
  | cons a l ih =>
    simp only [encL, List.length_append, loop_enc_length, ih, List.length_cons, List.map_cons, labelsLen,
      List.sum_cons]
    simp only [labelsLen] at ih
    omega

theorem cues_enc_length (v : Cues) :
    (cues.enc v).length = 25 + 13 * v.cues.length + labelsLen (v.cues.map (·.label)) := by
  show ((counted u64be cue).enc v.cues ++ cuesTail.enc _).length = _
  simp only [counted, List.length_append, u64be_enc_length, encL_cue_length, cuesTail_enc_length]
  omega

theorem loops_enc_length (v : Loops) :
    (loops.enc v).length = 8 + 23 * v.length + labelsLen (v.map (·.label)) := by
  simp only [loops, counted, List.length_append, u64le_enc_length, encL_loop_length]
  omega

/-- The encoder's label test, as a proposition. -/
def CuesFit (v : Cues) : Prop := ∀ q ∈ v.cues, q.label.length ≤ 255
def LoopsFit (v : Loops) : Prop := ∀ l ∈ v, l.label.length ≤ 255

instance (v : Cues) : Decidable (CuesFit v) := by unfold CuesFit; infer_instance
instance (v : Loops) : Decidable (LoopsFit v) := by unfold LoopsFit; infer_instance

theorem encodeCues_ok (v : Cues) (h : CuesFit v) (extra : Bytes) :
    encodeCues v extra = .ok (cues.enc v ++ extra) := by
  unfold encodeCues
  have : v.cues.any (fun q => decide (255 < q.label.length)) = false := by
    simp only [List.any_eq_false, decide_eq_true_eq]
    intro q hq; have := h q hq; omega
  simp only [this, Bool.false_eq_true, if_false]
  apply writeInto_exact
  simp [cues_enc_length]

theorem encodeCues_reject (v : Cues) (h : ¬ CuesFit v) (extra : Bytes) :
    encodeCues v extra = .throw .invalid_argument := by
  unfold encodeCues
  have : v.cues.any (fun q => decide (255 < q.label.length)) = true := by
    simp only [List.any_eq_true, decide_eq_true_eq]
    unfold CuesFit at h
    apply Classical.byContradiction
    intro hc
    apply h
    intro q hq
    apply Classical.byContradiction
    intro hl
    exact hc ⟨q, hq, by omega⟩
  simp [this]

theorem encodeLoops_ok (v : Loops) (h : LoopsFit v) (extra : Bytes) :
    encodeLoops v extra = .ok (loops.enc v ++ extra) := by
  unfold encodeLoops
  have : v.any (fun q => decide (255 < q.label.length)) = false := by
    simp only [List.any_eq_false, decide_eq_true_eq]
    intro q hq; have := h q hq; omega
  simp only [this, Bool.false_eq_true, if_false]
  apply writeInto_exact
  simp [loops_enc_length]

theorem encodeLoops_reject (v : Loops) (h : ¬ LoopsFit v) (extra : Bytes) :
    encodeLoops v extra = .throw .invalid_argument := by
  unfold encodeLoops
  have : v.any (fun q => decide (255 < q.label.length)) = true := by
    simp only [List.any_eq_true, decide_eq_true_eq]
    unfold LoopsFit at h
    apply Classical.byContradiction
    intro hc
    apply h
    intro q hq
    apply Classical.byContradiction
    intro hl
    exact hc ⟨q, hq, by omega⟩
  simp [this]

end Impl.V2
end EngineModel
