/-
(1) "A removed crate is never again returned" in its honest form for schema 1.x: an invalid id stays
    invalid along every continuation in which no creation reports that very id.
(2) The history theorems from ANY state satisfying the invariant (e.g. a loaded library whose raw rows
    pass `WfRaw`), not only from the empty library.
(3) `PRAGMA foreign_key_check` on the modelled tables is clean under the invariant.
-/
import Proofs.CratesV1Closure

namespace EngineModel.Api.CratesV1
open EngineModel.Pure.Detect EngineModel.Spec

variable {db : Db}

theorem dead_step (s : Schema) (h : Inv db) {op : Op} {y : Id} (hy : y ∉ ids db)
    (hop : ¬ ((step s db op).2 = .ok (.id y) ∧ forestOp op ≠ none)) : y ∉ ids (step s db op).1 := by
  rcases ids_step s h op with h0 | ⟨k, hcr, hk, _, hids⟩ | ⟨c, _, hmem⟩
  · have h0' : ids (step s db op).1 = ids db := h0
    rw [h0']; exact hy
  · have hids' : ids (step s db op).1 = ids db ++ [k] := hids
    rw [hids', List.mem_append, List.mem_singleton]
    rintro (hm | rfl)
    · exact hy hm
    · apply hop
      refine ⟨hk, ?_⟩
      cases op <;> simp [isCreate] at hcr <;> simp [forestOp]
  · rw [hmem]
    exact fun hm => hy hm.1

theorem dead_suffix (s : Schema) (y : Id) : ∀ (ops : List Op) {db : Db}, Inv db → y ∉ ids db →
    reissues s db ops y = false → y ∉ ids (run s db ops) := by
  intro ops
  induction ops with
  | nil => intro db _ hy _; exact hy
  | cons op ops ih =>
    intro db h hy hr
    unfold reissues at hr
    rw [Bool.or_eq_false_iff, decide_eq_false_iff_not] at hr
    rw [run_cons]
    exact ih (step_ok s h op).1 (dead_step s h hy hr.1) hr.2

/-- Every prefix of the continuation: the id is invalid after each of its steps. -/
theorem dead_suffix_prefix (s : Schema) (y : Id) (ops ops' : List Op) {db : Db} (h : Inv db) (hy : y ∉ ids db)
    (hr : reissues s db (ops ++ ops') y = false) : y ∉ ids (run s db ops) := by
  apply dead_suffix s y ops h hy
  induction ops generalizing db with
  | nil => rfl
  | cons op ops ih =>
    simp only [List.cons_append] at hr
    unfold reissues at hr ⊢
    rw [Bool.or_eq_false_iff] at hr ⊢
    exact ⟨hr.1, ih (step_ok s h op).1 (dead_step s h hy (by simpa using hr.1)) hr.2⟩

theorem fk_clean (h : Inv db) : fkViolations db = [] := by
  unfold fkViolations
  have hidsdef : db.crate.map (·.id) = ids db := rfl
  simp only [hidsdef]
  have e1 : db.cpl.filter (fun r => !((ids db).contains r.1 && (ids db).contains r.2)) = [] := by
    rw [List.filter_eq_nil_iff]
    intro r hr
    have h1 : r.1 ∈ ids db := (h.cplTotal r.1).mp (List.mem_map_of_mem (f := (·.1)) hr)
    have h2 : r.2 ∈ ids db := h.cplParentLive r hr
    simp [h1, h2]
  have e2 : db.ch.filter (fun r => !((ids db).contains r.1 && (ids db).contains r.2)) = [] := by
    rw [List.filter_eq_nil_iff]
    intro r hr
    have := h.chLive r hr
    simp [this.1, this.2]
  have e3 : db.ctl.filter (fun r => !((ids db).contains r.1 && (db.track.map (·.id)).contains r.2)) = [] := by
    rw [List.filter_eq_nil_iff]
    intro r hr
    have := h.ctlLive r hr
    obtain ⟨t, ht, hid, _⟩ := this.2
    have h2 : r.2 ∈ db.track.map (·.id) := hid ▸ List.mem_map_of_mem (f := (·.id)) ht
    simp [this.1, h2]
  rw [e1, e2, e3]; rfl

theorem memRel_abs (h : Inv db) : MemRel (absMembers db) db := by
  refine ⟨fun _ => Iff.rfl, fun t => mem_liveIds db t, fun _ => Iff.rfl, h.ctlNodup, ?_, h.idsNodup⟩
  exact h.trackNodup.sublist (List.Sublist.map _ List.filter_sublist)

end EngineModel.Api.CratesV1
