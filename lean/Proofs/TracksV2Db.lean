/-
The Track table as a keyed list: lookups after `put` / append.
-/
import EngineModel.TracksV2.Lens

namespace EngineModel
namespace TracksV2

/-- every stored id is below the next id to be allocated (AUTOINCREMENT) -/
def Db.Fresh (db : Db) : Prop := ∀ e ∈ db.rows, e.1 < db.nextId

theorem find_put (rows : List (Nat × Row)) (id id' : Nat) (r : Row) :
    ((rows.map fun e => if e.1 == id then (id, r) else e).find? (·.1 == id')).map (·.2) =
      if id' = id then ((rows.find? (·.1 == id)).map fun _ => r) else (rows.find? (·.1 == id')).map (·.2) := by
  induction rows with
  | nil => simp
  | cons e t ih =>
    simp only [List.map_cons, List.find?_cons]
    by_cases h1 : e.1 = id
    · by_cases h2 : id' = id
      · subst h2; simp [h1]
      · have : ¬ id = id' := fun h => h2 h.symm
        simp only [h1, beq_self_eq_true, if_true, h2, if_false]
        have h3 : (id == id') = false := by simp [this]
        have h4 : (e.1 == id') = false := by simp [h1, this]
        simp only [h3, h4]
        simpa [h2] using ih
    · have hb : (e.1 == id) = false := by simp [h1]
      simp only [hb, Bool.false_eq_true, if_false]
      by_cases h2 : id' = id
      · subst h2
        simp only [hb, if_true]
        simpa using ih
      · simp only [h2, if_false]
        cases h5 : (e.1 == id')
        · simpa [h2] using ih
        · rfl

theorem Db.get_put (db : Db) (id id' : Nat) (r : Row) :
    (db.put id r).get id' = if id' = id then (db.get id).map (fun _ => r) else db.get id' := by
  unfold Db.put Db.get
  show (((db.rows.map fun e => if e.1 == id then (id, r) else e).find? (·.1 == id')).map (·.2)) = _
  rw [find_put]
  split <;> simp [Option.map_map, Function.comp_def]

theorem Db.get_put_same (db : Db) (id : Nat) (r r0 : Row) (h : db.get id = some r0) :
    (db.put id r).get id = some r := by
  rw [Db.get_put]; simp [h]

theorem Db.get_put_other (db : Db) (id id' : Nat) (r : Row) (h : id' ≠ id) :
    (db.put id r).get id' = db.get id' := by
  rw [Db.get_put]; simp [h]

theorem Db.get_append_new (db : Db) (hf : db.Fresh) (r : Row) (id' : Nat) :
    (Db.get ⟨db.rows ++ [(db.nextId, r)], db.nextId + 1⟩ id') =
      if id' = db.nextId then some r else db.get id' := by
  unfold Db.get
  simp only [List.find?_append]
  by_cases h : id' = db.nextId
  · subst h
    have : db.rows.find? (·.1 == db.nextId) = none := by
      rw [List.find?_eq_none]
      intro e he
      have := hf e he
      simp; omega
    simp [this]
  · have hb : (db.nextId == id') = false := by simp; omega
    cases hfnd : db.rows.find? (·.1 == id') <;> simp [h, hb]

theorem Db.get_none_of_fresh (db : Db) (hf : db.Fresh) (id : Nat) (h : db.nextId ≤ id) : db.get id = none := by
  unfold Db.get
  have : db.rows.find? (·.1 == id) = none := by
    rw [List.find?_eq_none]
    intro e he
    have := hf e he
    simp; omega
  simp [this]

end TracksV2
end EngineModel
