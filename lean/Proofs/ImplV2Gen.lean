/-
The model regenerated from the C++ sources (`Gen/ImplV2Gen.lean`, written by
tools/tr_blobs.py on every run) equals the hand-written mirror `Impl/V2.lean`,
function by function.  The C02/C03/C04/C05 theorems are stated on `Impl.V2.*`;
through these equalities they are theorems about the code as it is in /repo
now — a change of the C++ that changes the translation breaks the proofs below
(`lake build` fails, the check turns red, the differential tie of C02/C05
supplies the failing bytes).

`decodeTrack_eq`, `decodeGrid_eq`, `decodeBeat_eq` hold on every byte string.
`decodeOvw_eq_partial` assumes the payload is shorter than 2^63 bytes (the
`max_size()` of the vector it arrives in), `decodeCues_eq_partial` /
`decodeLoops_eq_partial` that it is shorter than 2^61 bytes: the generated model
checks `vector::reserve` / `resize` against `max_size()` (the hand model has no
`reserve`) and signed arithmetic against the `int64_t` range.
-/
import EngineModel.Gen.ImplV2Gen
import EngineModel.Impl.V2
import Proofs.CursorCxxLemmas
import Proofs.CxxPrimsLemmas
import Proofs.ImplV2
set_option linter.unusedSimpArgs false

namespace EngineModel.Gen.ImplV2
open Codec Cur

/-- The C++ primitive readers are the unchecked reads of the Spec's primitive decoders
(Proofs/CxxPrimsLemmas.lean: byte order and widths agree). -/
theorem prims :
    CxxPrims.decode_uint8 = rd u8 ∧ CxxPrims.decode_int32_le = rd u32le ∧ CxxPrims.decode_int32_be = rd u32be ∧
    CxxPrims.decode_int64_le = rd u64le ∧ CxxPrims.decode_int64_be = rd u64be ∧
    CxxPrims.decode_double_le = rd u64le ∧ CxxPrims.decode_double_be = rd u64be :=
  ⟨CxxPrims.decode_uint8_eq, CxxPrims.decode_int32_le_eq, CxxPrims.decode_int32_be_eq,
   CxxPrims.decode_int64_le_eq, CxxPrims.decode_int64_be_eq, CxxPrims.decode_double_le_eq,
   CxxPrims.decode_double_be_eq⟩

/-- `track_data_blob::from_blob` -/
theorem decodeTrack_eq : decodeTrack = Impl.V2.decodeTrack := by
  funext bs
  unfold decodeTrack Impl.V2.decodeTrack Cur.fromBlob
  simp only [CxxPrims.decode_uint8_eq, CxxPrims.decode_int32_le_eq, CxxPrims.decode_int32_be_eq,
    CxxPrims.decode_int64_le_eq, CxxPrims.decode_int64_be_eq, CxxPrims.decode_double_le_eq,
    CxxPrims.decode_double_be_eq]
  -- (both readings of the length test are discharged: `buf.size() < 44` and `end - ptr < 44`)
  by_cases h : bs.length < 44
  · have hi : (bs.length : Int) < 44 := by omega
    simp [h, hi, Res.bind]
  · have hi : ¬ ((bs.length : Int) < 44) := by omega
    simp [h, hi, Res.bind]

/-! ### beat data -/

/-- the marker loop body of `decode_beatgrid` reads one Spec marker -/
theorem decodeGrid_body1_eq : decodeGrid_body1 = rd V2.marker := by
  unfold decodeGrid_body1
  simp only [CxxPrims.decode_uint8_eq, CxxPrims.decode_int32_le_eq, CxxPrims.decode_int32_be_eq,
    CxxPrims.decode_int64_le_eq, CxxPrims.decode_int64_be_eq, CxxPrims.decode_double_le_eq,
    CxxPrims.decode_double_be_eq]
  simp only [V2.marker, rd_map, rd_pair, bind_assoc', pure_bind']

/-- `decode_beatgrid(ptr, end)` (anonymous namespace of beat_data_blob.cpp) -/
theorem decodeGrid_eq : decodeGrid = Impl.V2.decodeGrid := by
  funext bs
  unfold decodeGrid Impl.V2.decodeGrid
  simp only [CxxPrims.decode_uint8_eq, CxxPrims.decode_int32_le_eq, CxxPrims.decode_int32_be_eq,
    CxxPrims.decode_int64_le_eq, CxxPrims.decode_int64_be_eq, CxxPrims.decode_double_le_eq,
    CxxPrims.decode_double_be_eq]
  rw [decodeGrid_body1_eq]
  simp only [bind_run, remaining_run]
  by_cases h8 : bs.length < 8
  · have : ((bs.length : Int) < 8) := by omega
    simp [h8, this]
  · have h8i : ¬ ((bs.length : Int) < 8) := by omega
    have h8' : 8 ≤ bs.length := by omega
    simp only [h8, h8i, decide_false, decide_true, if_false, Bool.false_eq_true, rd_u64be_run h8', bind_run, remaining_run, orElse_pure_run]
    generalize u64be.get bs = k
    generalize bs.drop 8 = r
    by_cases hneg : Prim.s64 k < 0
    · simp [hneg]
    · by_cases hr : Int.tdiv (r.length : Int) 24 < Prim.s64 k
      · have hr' : ((r.length : Int) / 24 : Int) < Prim.s64 k := by
          rwa [Int.tdiv_eq_ediv_of_nonneg (by omega)] at hr
        simp [hneg, hr, hr']
      · have hr' : ¬ (((r.length : Int) / 24 : Int) < Prim.s64 k) := by
          rwa [Int.tdiv_eq_ediv_of_nonneg (by omega)] at hr
        simp only [hneg, hr, hr', decide_false, decide_true, if_false, Bool.false_eq_true, pure_run, or_self, forCount_eq, s64_toNat_of_nonneg hneg]
/-- `beat_data_blob::from_blob` -/
theorem decodeBeat_eq : decodeBeat = Impl.V2.decodeBeat := by
  funext bs
  unfold decodeBeat Impl.V2.decodeBeat Cur.fromBlob
  simp only [CxxPrims.decode_uint8_eq, CxxPrims.decode_int32_le_eq, CxxPrims.decode_int32_be_eq,
    CxxPrims.decode_int64_le_eq, CxxPrims.decode_int64_be_eq, CxxPrims.decode_double_le_eq,
    CxxPrims.decode_double_be_eq]
  rw [decodeGrid_eq]
  by_cases h : bs.length < 33
  · have hi : (bs.length : Int) < 33 := by omega
    simp [h, hi, Res.bind]
  · have hi : ¬ ((bs.length : Int) < 33) := by omega
    simp [h, hi, Res.bind]

/-! ### loops -/

theorem assign_if_pos (n : Nat) :
    (if (decide ((n : Int) > (0 : Int))) then (do
          let l ← Cur.peekN n
          Cur.advance n
          pure l) else pure ([] : Bytes)) = takeN n := by
  funext bs
  by_cases h : n = 0
  · subst h; simp [takeN]
  · have : (n : Int) > 0 := by omega
    simp only [this, decide_true, if_true]
    have := peek_advance n (fun s => (pure s : Cur Bytes))
    rw [bind_pure'] at this
    exact congrFun this bs

/-- the per-loop body of `loops_blob::from_blob` -/
theorem decodeLoops_body1_eq : decodeLoops_body1 = Impl.V2.decodeLoop := by
  unfold decodeLoops_body1 Impl.V2.decodeLoop
  simp only [CxxPrims.decode_uint8_eq, CxxPrims.decode_int32_le_eq, CxxPrims.decode_int32_be_eq,
    CxxPrims.decode_int64_le_eq, CxxPrims.decode_int64_be_eq, CxxPrims.decode_double_le_eq,
    CxxPrims.decode_double_be_eq]
  simp only [assign_if_pos, V2.color, rd_map, rd_pair, bind_assoc', pure_bind']
  funext bs
  simp only [bind_run, remaining_run]
  by_cases h23 : bs.length < 23
  · have : ((bs.length : Int) < 23) := by omega
    simp [h23, this]
  · have h23i : ¬ ((bs.length : Int) < 23) := by omega
    have h1 : 1 ≤ bs.length := by omega
    simp only [h23, h23i, decide_false, if_false, Bool.false_eq_true, rd_u8_run h1, bind_run, remaining_run]
    generalize u8.get bs = len
    generalize bs.drop 1 = r
    have hl := len.toNat_lt
    rw [chkI32_run (by omega) (by omega)]
    simp only []
    by_cases hg : r.length < 22 + len.toNat
    · have : ((r.length : Int) < 22 + (len.toNat : Int)) := by omega
      simp [hg, this]
    · have : ¬ ((r.length : Int) < 22 + (len.toNat : Int)) := by omega
      simp only [hg, this, decide_false, if_false, Bool.false_eq_true]
      by_cases hz : len.toNat = 0
      · simp [hz, takeN]
      · have hp : ((len.toNat : Int) > 0) := by omega
        simp only [hp, decide_true, if_true, peek_advance]

/-- `loops_blob::from_blob`.
Full statement (false of the code for payloads of 2^61 bytes and more, which no machine can hold):
  `decodeLoops = Impl.V2.decodeLoops`.
The C++ calls `result.loops.reserve(num_loops)` after the count guard `num_loops <= (end - ptr) / 23`;
`reserve` throws `std::length_error` above `max_size() = (2^63 - 1) / sizeof(loop_blob)` (= / 56), which
the guard excludes only when the payload is shorter than 23 * 2^63 / 56 bytes.  The hand model has no
`reserve`.  `2^61` is a round bound below that threshold (and below the one of the quick cues). -/
theorem decodeLoops_eq_partial (bs : Bytes) (hb : bs.length < 2305843009213693952) :
    decodeLoops bs = Impl.V2.decodeLoops bs := by
  unfold decodeLoops Impl.V2.decodeLoops Cur.fromBlob
  simp only [CxxPrims.decode_uint8_eq, CxxPrims.decode_int32_le_eq, CxxPrims.decode_int32_be_eq,
    CxxPrims.decode_int64_le_eq, CxxPrims.decode_int64_be_eq, CxxPrims.decode_double_le_eq,
    CxxPrims.decode_double_be_eq]
  rw [decodeLoops_body1_eq]
  simp only [bind_run, remaining_run]
  by_cases h8 : bs.length < 8
  · simp [h8, Res.bind]
  · have h8' : 8 ≤ bs.length := by omega
    simp only [h8, decide_false, if_false, Bool.false_eq_true, rd_u64le_run h8', bind_run, remaining_run, orElse_pure_run]
    generalize u64le.get bs = k
    have hr : (bs.drop 8).length < 2305843009213693952 := by simp; omega
    generalize bs.drop 8 = r at hr
    by_cases hneg : Prim.s64 k < 0
    · simp [hneg, Res.bind]
    · by_cases hc : Prim.s64 k > Int.tdiv (r.length : Int) 23
      · have hc' : ((r.length : Int) / 23 : Int) < Prim.s64 k := by
          rwa [Int.tdiv_eq_ediv_of_nonneg (by omega)] at hc
        simp [hneg, hc, hc', Res.bind]
      · have hc' : ¬ (((r.length : Int) / 23 : Int) < Prim.s64 k) := by
          rwa [Int.tdiv_eq_ediv_of_nonneg (by omega)] at hc
        have hk : Prim.s64 k = (k.toNat : Int) := by
          have := s64_toNat_of_nonneg hneg; omega
        have hres : k.toNat ≤ 9223372036854775807 / 56 := by omega
        simp only [hneg, hc, hc', decide_false, if_false, Bool.false_eq_true, pure_run, or_self,
          forCount_eq, s64_toNat_of_nonneg hneg, u64OfInt_s64_of_nonneg hneg]
        simp only [bind_run, reserve_run hres]

/-! ### quick cues -/

/-- the per-cue body of `quick_cues_blob::from_blob` -/
theorem decodeCues_body1_eq : decodeCues_body1 = Impl.V2.decodeCue := by
  unfold decodeCues_body1 Impl.V2.decodeCue
  simp only [CxxPrims.decode_uint8_eq, CxxPrims.decode_int32_le_eq, CxxPrims.decode_int32_be_eq,
    CxxPrims.decode_int64_le_eq, CxxPrims.decode_int64_be_eq, CxxPrims.decode_double_le_eq,
    CxxPrims.decode_double_be_eq]
  simp only [V2.color, rd_map, rd_pair, bind_assoc', pure_bind']
  congr 1
  funext len
  funext r
  simp only [bind_run, remaining_run]
  have hl := len.toNat_lt
  rw [chkI32_run (by omega) (by omega)]
  simp only []
  by_cases hg : r.length < 29 + len.toNat
  · have : ((r.length : Int) < 29 + (len.toNat : Int)) := by omega
    simp [hg, this]
  · have : ¬ ((r.length : Int) < 29 + (len.toNat : Int)) := by omega
    simp only [hg, this, decide_false, if_false, Bool.false_eq_true]
    by_cases hz : len.toNat = 0
    · simp [hz, takeN]
    · have hp : ((len.toNat : Int) > 0) := by omega
      simp only [hp, decide_true, if_true, peek_advance]

/-- `quick_cues_blob::from_blob`.
Full statement (false of the code only for payloads of 2^61 bytes and more): `decodeCues = Impl.V2.decodeCues`;
see `decodeLoops_eq_partial` (`reserve(num_hot_cues)`, `sizeof(quick_cue_blob) = 48`, guard `/ 13`). -/
theorem decodeCues_eq_partial (bs : Bytes) (hb : bs.length < 2305843009213693952) :
    decodeCues bs = Impl.V2.decodeCues bs := by
  unfold decodeCues Impl.V2.decodeCues Cur.fromBlob
  simp only [CxxPrims.decode_uint8_eq, CxxPrims.decode_int32_le_eq, CxxPrims.decode_int32_be_eq,
    CxxPrims.decode_int64_le_eq, CxxPrims.decode_int64_be_eq, CxxPrims.decode_double_le_eq,
    CxxPrims.decode_double_be_eq]
  rw [decodeCues_body1_eq]
  simp only [bind_run, remaining_run]
  by_cases h8 : bs.length < 25
  · simp [h8, Res.bind]
  · have h8' : 8 ≤ bs.length := by omega
    simp only [h8, decide_false, if_false, Bool.false_eq_true, rd_u64be_run h8', bind_run, remaining_run, orElse_pure_run]
    generalize u64be.get bs = k
    have hr : (bs.drop 8).length < 2305843009213693952 := by simp; omega
    generalize bs.drop 8 = r at hr
    by_cases hneg : Prim.s64 k < 0
    · simp [hneg, Res.bind]
    · by_cases hc : Prim.s64 k > Int.tdiv (r.length : Int) 13
      · have hc' : ((r.length : Int) / 13 : Int) < Prim.s64 k := by
          rwa [Int.tdiv_eq_ediv_of_nonneg (by omega)] at hc
        simp [hneg, hc, hc', Res.bind]
      · have hc' : ¬ (((r.length : Int) / 13 : Int) < Prim.s64 k) := by
          rwa [Int.tdiv_eq_ediv_of_nonneg (by omega)] at hc
        have hk : Prim.s64 k = (k.toNat : Int) := by
          have := s64_toNat_of_nonneg hneg; omega
        have hres : k.toNat ≤ 9223372036854775807 / 48 := by omega
        simp only [hneg, hc, hc', decide_false, if_false, Bool.false_eq_true, pure_run, or_self,
          forCount_eq, s64_toNat_of_nonneg hneg, u64OfInt_s64_of_nonneg hneg]
        simp only [bind_run, reserve_run hres]

/-! ### overview waveform -/

theorem decodeOvw_body1_run (a b c : UInt8) (t : Bytes) :
    decodeOvw_body1 (a :: b :: c :: t) = .ok ([a, b, c], t) := rfl

/-- The range-`for` over the resized point vector reads `3 * n` bytes. -/
theorem forN_ovwBody : ∀ (n : Nat) (bs : Bytes), 3 * n ≤ bs.length →
    ∃ l, forN decodeOvw_body1 n bs = .ok (l, bs.drop (3 * n)) ∧ l.flatten = bs.take (3 * n) := by
  intro n
  induction n with
  | zero => intro bs _; exact ⟨[], rfl, by simp⟩
  | succ n ih =>
    intro bs h
    match bs, h with
    | a :: b :: c :: t, h =>
      have h' : 3 * n ≤ t.length := by simp at h; omega
      obtain ⟨l, hl, hf⟩ := ih t h'
      refine ⟨[a, b, c] :: l, ?_, ?_⟩
      · simp only [forN, bind_run, decodeOvw_body1_run, hl]
        have : 3 * (n + 1) = 3 * n + 3 := by omega
        simp [this]
      · have : 3 * (n + 1) = 3 * n + 3 := by omega
        simp [this, hf]

theorem rd3_run (a b c : UInt8) (t : Bytes) {β} (f : UInt8 → UInt8 → UInt8 → Cur β) :
    (rd u8 >>= fun x => rd u8 >>= fun y => rd u8 >>= fun z => f x y z) (a :: b :: c :: t) = f a b c t := rfl


/-- `overview_waveform_data_blob::from_blob`.
Full statement: `decodeOvw = Impl.V2.decodeOvw`.  The hypothesis is `std::vector<std::byte>::max_size()`:
every payload the C++ function can be handed satisfies it.  It is needed because `resize(num_entries_1)` must stay below `max_size()` and because the third
disjunct of the length guard computes `3 * (num_entries_1 + 1)` in `int64_t` (checked in the generated model:
`chkI64`; checked in the hand model too: `Chk.add64`, `Chk.mul64`), which is in range because
`num_entries_1 <= (end - ptr) / 3` was tested first and `end - ptr < 2^63`. -/
theorem decodeOvw_eq_partial (bs : Bytes) (hb : bs.length < 9223372036854775808) :
    decodeOvw bs = Impl.V2.decodeOvw bs := by
  unfold decodeOvw Impl.V2.decodeOvw Cur.fromBlob
  simp only [CxxPrims.decode_uint8_eq, CxxPrims.decode_int32_le_eq, CxxPrims.decode_int32_be_eq,
    CxxPrims.decode_int64_le_eq, CxxPrims.decode_int64_be_eq, CxxPrims.decode_double_le_eq,
    CxxPrims.decode_double_be_eq]
  simp only [bind_run, remaining_run]
  by_cases h27 : bs.length < 27
  · simp [h27, Res.bind]
  · have r1 := rd_u64be_run (bs := bs) (by omega)
    have r2 := rd_u64be_run (bs := bs.drop 8) (by simp; omega)
    have r3 := rd_u64be_run (bs := bs.drop 16) (by simp; omega)
    simp only [List.drop_drop] at r2 r3
    simp only [h27, decide_false, if_false, Bool.false_eq_true, r1, r2, r3, bind_run, remaining_run,
      orElse_pure_run]
    generalize u64be.get bs = n1
    generalize u64be.get (List.drop 8 bs) = n2
    generalize u64be.get (List.drop 16 bs) = spp
    have hr : (bs.drop (16 + 8)).length + 24 < 9223372036854775808 ∧ 3 ≤ (bs.drop (16 + 8)).length := by
      simp; omega
    generalize bs.drop (16 + 8) = r at hr
    by_cases hn : n1 = n2
    · subst hn
      simp only [ne_eq, not_true_eq_false, decide_false, if_false, Bool.false_eq_true]
      by_cases hneg : Prim.s64 n1 < 0
      · simp [hneg, Res.bind]
      · have hk : Prim.s64 n1 = (n1.toNat : Int) := by
          have := s64_toNat_of_nonneg hneg; omega
        by_cases hc : Prim.s64 n1 > Int.tdiv (r.length : Int) 3
        · have hc' : ((r.length : Int) / 3 : Int) < Prim.s64 n1 := by
            rwa [Int.tdiv_eq_ediv_of_nonneg (by omega)] at hc
          simp [hneg, hc, hc', Res.bind]
        · have hc' : ¬ (((r.length : Int) / 3 : Int) < Prim.s64 n1) := by
            rwa [Int.tdiv_eq_ediv_of_nonneg (by omega)] at hc
          simp only [hneg, hc, hc', decide_false, if_false, Bool.false_eq_true, pure_run, false_or,
            bind_run, orElse_pure_run, remaining_run]
          rw [chkI64_run (by omega) (by omega)]
          simp only []
          rw [chkI64_run (by omega) (by omega)]
          simp only []
          -- the hand model checks the same two `int64_t` operations (`Chk.add64`, `Chk.mul64`)
          have ha : Chk.add64 (Prim.s64 n1) 1 = .ok (Prim.s64 n1 + 1) :=
            Chk.add64_ok (by unfold Chk.in64; omega)
          have hm : Chk.mul64 3 (Prim.s64 n1 + 1) = .ok (3 * (Prim.s64 n1 + 1)) :=
            Chk.mul64_ok (by unfold Chk.in64; omega)
          simp only [ha, hm, lift_ok_run]
          by_cases h3 : (r.length : Int) < 3 * (Prim.s64 n1 + 1)
          · simp [h3, Res.bind]
          · simp only [h3, decide_false, if_false, Bool.false_eq_true]
            have hres : n1.toNat ≤ 9223372036854775807 / 3 := by omega
            have hlen : 3 * n1.toNat ≤ r.length := by omega
            obtain ⟨l, hl, hf⟩ := forN_ovwBody n1.toNat r hlen
            have h3' : 3 ≤ (r.drop (3 * n1.toNat)).length := by simp; omega
            simp only [bind_run, u64OfInt_s64_of_nonneg hneg, reserve_run hres, forEach_eq, hl,
              takeN_run hlen, takeN_run h3', hf]
            match hd : r.drop (3 * n1.toNat), h3' with
            | a :: b :: c :: t, _ => rfl
    · have : Prim.s64 n1 ≠ Prim.s64 n2 := fun h => hn (s64_inj.mp h)
      simp [hn, this, Res.bind]

/-! ### non-vacuity of the size hypotheses -/

example : ([0, 0, 0, 0, 0, 0, 0, 0] : Bytes).length < 2305843009213693952 := by decide
example : decodeLoops [0, 0, 0, 0, 0, 0, 0, 0] = .ok ([], []) := by decide
example : (List.replicate 27 (0 : UInt8)).length < 9223372036854775808 := by decide

end EngineModel.Gen.ImplV2
