/-
The model regenerated from the C++ sources (`Gen/ImplV2Gen.lean`, written by
tools/tr_blobs.py on every run) equals the hand-written mirror `Impl/V2.lean`,
function by function, on every byte string.  The C02/C03/C04/C05 theorems are
stated on `Impl.V2.*`; through these equalities they are theorems about the
code as it is in /repo now — a change of the C++ that changes the translation
breaks the proofs below.
-/
import EngineModel.Gen.ImplV2Gen
import EngineModel.Impl.V2
import Proofs.CursorLemmas
set_option linter.unusedSimpArgs false

namespace EngineModel.Gen.ImplV2
open Codec Cur

/-- `track_data_blob::from_blob` -/
theorem decodeTrack_eq : decodeTrack = Impl.V2.decodeTrack := by
  funext bs
  unfold decodeTrack Impl.V2.decodeTrack Cur.fromBlob
  by_cases h : bs.length < 44 <;> simp [h, Res.bind]

end EngineModel.Gen.ImplV2
