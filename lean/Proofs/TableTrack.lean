/-
Lemmas about the `track_table` model (Table/Track.lean) for property C18:
row-store facts (`findRow` after append / replace / delete), facts about the
Spec tables of `Table/Names.lean` (each member has its own column), and the
round trip `get ∘ add`, `get ∘ update`, the per-column accessors.
-/
import EngineModel.Table.Track
import Proofs.TableCore

namespace EngineModel
namespace Table

set_option linter.unusedSectionVars false

/-! ## row store -/

section Store
variable {C : Type} [DecidableEq C]

theorem findRow_append_fresh (idc : C) (t : Rows C) (new : Raw C) (i : Int)
    (hfresh : ∀ r ∈ t, rowId idc r ≠ i) (hnew : rowId idc new = i) :
    findRow idc (t ++ [new]) i = some new := by
  unfold findRow
  rw [List.find?_append]
  have : t.find? (fun r => rowId idc r == i) = none := by
    rw [List.find?_eq_none]
    intro r hr
    simp [hfresh r hr]
  rw [this]
  simp [hnew]

theorem findRow_some {idc : C} {t : Rows C} {i : Int} {raw : Raw C}
    (h : findRow idc t i = some raw) : raw ∈ t ∧ rowId idc raw = i := by
  unfold findRow at h
  have h1 := List.mem_of_find?_eq_some h
  have h2 := List.find?_some h
  exact ⟨h1, by simpa using h2⟩

theorem findRow_none {idc : C} {t : Rows C} {i : Int}
    (h : findRow idc t i = none) : ∀ r ∈ t, rowId idc r ≠ i := by
  unfold findRow at h
  rw [List.find?_eq_none] at h
  intro r hr
  simpa using h r hr

/-- After `UPDATE … WHERE id = i` (by a function that keeps the id) the row
with id `i` is the updated old row. -/
theorem findRow_updRow_same (idc : C) (t : Rows C) (i : Int) (f : Raw C → Raw C) {old : Raw C}
    (h : findRow idc t i = some old) (hid : rowId idc (f old) = i) :
    findRow idc (updRow idc t i f) i = some (f old) := by
  unfold findRow updRow at *
  induction t with
  | nil => simp at h
  | cons r rs ih =>
    simp only [List.map_cons, List.find?_cons] at *
    by_cases hr : rowId idc r = i
    · simp only [hr, beq_self_eq_true, if_true] at h ⊢
      cases h
      simp [hid]
    · have hr' : (rowId idc r == i) = false := by simp [hr]
      simp only [hr', if_false, Bool.false_eq_true] at h ⊢
      exact ih h

/-- `UPDATE … WHERE id = i` leaves the row with another id alone. -/
theorem findRow_updRow_other (idc : C) (t : Rows C) (i j : Int) (f : Raw C → Raw C)
    (hij : j ≠ i) (hid : ∀ r ∈ t, rowId idc r = i → rowId idc (f r) = i) :
    findRow idc (updRow idc t i f) j = findRow idc t j := by
  unfold findRow updRow
  induction t with
  | nil => rfl
  | cons r rs ih =>
    simp only [List.map_cons, List.find?_cons]
    have ih' := ih (fun r hr => hid r (List.mem_cons_of_mem _ hr))
    by_cases hr : rowId idc r = i
    · have h1 : rowId idc (f r) = i := hid r List.mem_cons_self hr
      have h2 : (i == j) = false := by simp; omega
      have h3 : (rowId idc (f r) == j) = false := by simp [h1]; omega
      simp only [hr, beq_self_eq_true, if_true, h3, h2]
      exact ih'
    · have hr' : (rowId idc r == i) = false := by simp [hr]
      simp only [hr', if_false, Bool.false_eq_true]
      rw [ih']

theorem findRow_delRow_same (idc : C) (t : Rows C) (i : Int) :
    findRow idc (delRow idc t i) i = none := by
  unfold findRow delRow
  rw [List.find?_eq_none]
  intro r hr
  have := (List.mem_filter.mp hr).2
  simpa using this

theorem findRow_delRow_other (idc : C) (t : Rows C) (i j : Int) (hij : j ≠ i) :
    findRow idc (delRow idc t i) j = findRow idc t j := by
  unfold findRow delRow
  induction t with
  | nil => rfl
  | cons r rs ih =>
    simp only [List.filter_cons, List.find?_cons]
    by_cases hr : rowId idc r = i
    · have h2 : (i == j) = false := by simp; omega
      simp only [hr, beq_self_eq_true, Bool.not_true, Bool.false_eq_true, if_false, h2]
      exact ih
    · have hr' : (rowId idc r == i) = false := by simp [hr]
      simp only [hr', Bool.not_false, if_true, List.find?_cons]
      rw [ih]

theorem setCol_same (raw : Raw C) (c : C) (v : Val) : setCol raw c v c = v := by simp [setCol]
theorem setCol_other (raw : Raw C) {c c' : C} (v : Val) (h : c' ≠ c) : setCol raw c v c' = raw c' := by
  simp [setCol, h]

end Store

/-! ## the Spec tables of the Track table -/

theorem TField.mem_all (f : TField) : f ∈ TField.all := by cases f <;> decide

theorem TField.nodup_all : nodupB TField.all = true := by decide

theorem TField.col_inj {f g : TField} (h : f.col = g.col) : f = g := by
  cases f <;> cases g <;> first | rfl | (exact absurd h (by decide))

theorem TField.mem_writable {s : Schema2} {f : TField} :
    f ∈ TField.writable s ↔ (f ≠ .id ∧ f.present s = true) := by
  unfold TField.writable
  simp [List.mem_filter, TField.mem_all]

theorem tSpec_fields : tSpec.fields = TField.all := rfl
theorem tSpec_colOf (f : TField) : tSpec.colOf f = f.col := rfl
theorem tSpec_tyOf (f : TField) : tSpec.tyOf f = f.ty := rfl

/-- The id column is not among the columns an aligned write names. -/
theorem id_not_written {s : Schema2} {ps : List (WB TCol TField)} {r : Row TField} {l : List (TCol × Val)}
    (ha : alignedW tSpec (TField.writable s) [] ps = true) (he : evalParams r ps = .ok l) :
    TCol.id ∉ l.map (·.1) := by
  intro hc
  have := evalParams_cols_need ha he hc
  obtain ⟨f, hf, hcol⟩ := List.mem_map.mp this
  have : f = .id := TField.col_inj (f := f) (g := .id) hcol
  exact (TField.mem_writable.mp hf).1 this

/-! ## origin fix-up -/

theorem rowId_applyFix (uuid : Val) (raw : Raw TCol) : rowId .id (applyFix uuid raw) = rowId .id raw := by
  unfold applyFix
  split
  · simp [fixOrigin, rowId, setCol]
  · rfl

theorem applyFix_other (uuid : Val) (raw : Raw TCol) {c : TCol}
    (h1 : c ≠ .originTrackId) (h2 : c ≠ .originDatabaseUuid) : applyFix uuid raw c = raw c := by
  unfold applyFix
  split
  · simp [fixOrigin, setCol, h1, h2]
  · rfl

/-- A member written through its own column, as the raw row holds it. -/
theorem written_i64 {k : WConv} {v : FVal} {x : Val} (hv : wtv .i64 v = true) (hk : k = FTy.wconv .i64)
    (hw : wconv k v = .ok x) : ∃ i, v = .int i ∧ x = .int i := by
  subst hk
  cases v <;> simp only [wtv, Bool.false_eq_true] at hv
  case int i =>
    simp only [FTy.wconv, wconv, Res.ok.injEq] at hw
    exact ⟨i, rfl, hw.symm⟩

theorem written_str {k : WConv} {v : FVal} {x : Val} (hv : wtv .str v = true) (hk : k = FTy.wconv .str)
    (hw : wconv k v = .ok x) : ∃ b, v = .str b ∧ x = .text b := by
  subst hk
  cases v <;> simp only [wtv, Bool.false_eq_true] at hv
  case str b =>
    simp only [FTy.wconv, wconv, Res.ok.injEq] at hw
    exact ⟨b, rfl, hw.symm⟩

/-- The trigger condition on the stored row says what `originUnset` says of the written one. -/
theorem needsFix_iff {raw : Raw TCol} {r : Row TField} {k : Int} {u : Bytes}
    (h1 : r .origin_track_id = .int k) (h2 : raw .originTrackId = .int k)
    (h3 : r .origin_database_uuid = .str u) (h4 : raw .originDatabaseUuid = .text u) :
    needsFix raw = originUnset r := by
  unfold needsFix originUnset
  rw [h1, h2, h3, h4]
  simp only [isZeroOrNull, isEmptyOrNull]
  congr 1
  · by_cases hk : k = 0
    · subst hk; rfl
    · have : (FVal.int k == FVal.int 0) = false := by
        simp only [beq_eq_false_iff_ne, ne_eq, FVal.int.injEq]; exact hk
      rw [this]; simp [hk]
  · cases u with
    | nil => rfl
    | cons a t =>
      have : (FVal.str (a :: t) == FVal.str []) = false := by
        simp only [beq_eq_false_iff_ne, ne_eq, FVal.str.injEq]; exact List.cons_ne_nil a t
      rw [this]; rfl

/-! ## add / get -/

theorem tInsert_ok {d d' : TDb} {l : List (TCol × Val)} {i : Int} (h : tInsert d l = (d', .ok i)) :
    i = d.seq + 1 ∧
    d' = { d with rows := d.rows ++ [applyFix d.uuid (assign (setCol nullRaw .id (.int (d.seq + 1))) l)], seq := d.seq + 1 } := by
  unfold tInsert at h
  simp only at h
  split at h
  · cases h
  · split at h
    · cases h
    · simp only [Prod.mk.injEq, Res.ok.injEq] at h
      exact ⟨h.2.symm, h.1.symm⟩

theorem tAdd_ok {st : TStmts} {d d' : TDb} {r : Row TField} {i : Int} (h : tAdd st d r = (d', .ok i)) :
    r .id = .int 0 ∧ ∃ l, evalParams r st.ins = .ok l ∧ tInsert d l = (d', .ok i) := by
  unfold tAdd at h
  split at h
  · cases h
  · rename_i hid
    refine ⟨by simpa using hid, ?_⟩
    cases he : evalParams r st.ins with
    | ok l => rw [he] at h; exact ⟨l, rfl, h⟩
    | throw e => rw [he] at h; cases h
    | ub u => rw [he] at h; cases h


theorem normRowT_other {s : Schema2} {u : Val} {le : Option Int} {i : Int} {r : Row TField} {f : TField}
    (h1 : f ≠ .id) (h2 : f ≠ .origin_track_id) (h3 : f ≠ .origin_database_uuid) (h4 : f ≠ .last_edit_time) :
    normRowT s u le i r f = if f.present s then normV f.ty (r f) else absentVal f.ty := by
  cases f <;> first | rfl | contradiction

theorem absentVal_read (raw : Raw TCol) (ty : FTy) :
    readSrc raw (absentSrc ty : RSrc TCol) = .ok (absentVal ty) := by
  cases ty <;> rfl

/-- What an aligned SELECT reads, member by member, from the row an aligned
INSERT stored (after the origin fix-up trigger). -/
theorem read_inserted {s : Schema2} {ins : List (WB TCol TField)} {r : Row TField} {l : List (TCol × Val)}
    (hins : alignedW tSpec (TField.writable s) [] ins = true) (he : evalParams r ins = .ok l)
    (hr : wtRowT r) (uuid : Val) (i : Int) (f : TField) :
    readSrc (applyFix uuid (assign (setCol nullRaw .id (.int i)) l)) (expectedSrc tSpec (TField.present s) f)
      = .ok (normRowT s uuid none i r f) := by
  let base : Raw TCol := setCol nullRaw .id (.int i)
  let raw0 := assign base l
  have hid0 : raw0 .id = .int i := by
    show assign base l .id = _
    rw [assign_not_mem _ _ _ (id_not_written hins he)]
    exact setCol_same _ _ _
  have hrid : rowId .id raw0 = i := by simp [rowId, hid0, readInt]
  -- the origin pair as stored
  have hot : TField.origin_track_id ∈ TField.writable s := TField.mem_writable.mpr ⟨by decide, rfl⟩
  have hou : TField.origin_database_uuid ∈ TField.writable s := TField.mem_writable.mpr ⟨by decide, rfl⟩
  obtain ⟨x1, hx1, hc1⟩ := assign_evalParams hins he base hot
  obtain ⟨x2, hx2, hc2⟩ := assign_evalParams hins he base hou
  obtain ⟨k, hk1, hk2⟩ := written_i64 (hr .origin_track_id) rfl hx1
  obtain ⟨u, hu1, hu2⟩ := written_str (hr .origin_database_uuid) rfl hx2
  subst hk2 hu2
  have hfix : needsFix raw0 = originUnset r := needsFix_iff hk1 hc1 hu1 hc2
  by_cases hfid : f = .id
  · subst hfid
    have : (applyFix uuid raw0) .id = .int i := by
      rw [applyFix_other _ _ (by decide) (by decide)]; exact hid0
    simp only [expectedSrc, TField.present, if_true, readSrc, tSpec_colOf, tSpec_tyOf, TField.col, TField.ty]
    show rconv _ _ ((applyFix uuid raw0) .id) = _
    rw [this]; rfl
  by_cases hf1 : f = .origin_track_id
  · subst hf1
    simp only [expectedSrc, TField.present, if_true, readSrc, tSpec_colOf, tSpec_tyOf, TField.col, TField.ty]
    show rconv _ _ ((applyFix uuid raw0) .originTrackId) = _
    unfold applyFix
    rw [hfix]
    by_cases hun : originUnset r = true
    · simp only [hun, if_true, normRowT, fixOrigin]
      rw [setCol_other _ _ (by decide), setCol_same, hrid]; rfl
    · simp only [hun, Bool.false_eq_true, if_false, normRowT]
      rw [show raw0 .originTrackId = .int k from hc1, hk1]; rfl
  by_cases hf2 : f = .origin_database_uuid
  · subst hf2
    simp only [expectedSrc, TField.present, if_true, readSrc, tSpec_colOf, tSpec_tyOf, TField.col, TField.ty]
    show rconv _ _ ((applyFix uuid raw0) .originDatabaseUuid) = _
    unfold applyFix
    rw [hfix]
    by_cases hun : originUnset r = true
    · simp only [hun, if_true, normRowT, fixOrigin]
      rw [setCol_same]; rfl
    · simp only [hun, Bool.false_eq_true, if_false, normRowT]
      rw [show raw0 .originDatabaseUuid = .text u from hc2, hu1]; rfl
  -- every other member
  have hnorm : normRowT s uuid none i r f = if f.present s then normV f.ty (r f) else absentVal f.ty := by
    by_cases h4 : f = .last_edit_time
    · subst h4; simp only [normRowT]
    · exact normRowT_other hfid hf1 hf2 h4
  rw [hnorm]
  by_cases hp : f.present s = true
  · simp only [expectedSrc, hp, if_true]
    have hfw : f ∈ TField.writable s := TField.mem_writable.mpr ⟨hfid, hp⟩
    have hc : (applyFix uuid raw0) (tSpec.colOf f) = assign base l (tSpec.colOf f) := by
      rw [tSpec_colOf]
      exact applyFix_other _ _ (fun h => hf1 (TField.col_inj (g := .origin_track_id) h))
        (fun h => hf2 (TField.col_inj (g := .origin_database_uuid) h))
    exact read_after_write hins he base _ hfw (hr f) hc
  · simp only [expectedSrc, hp, Bool.false_eq_true, if_false]
    exact absentVal_read _ _


theorem rowId_inserted {s : Schema2} {ins : List (WB TCol TField)} {r : Row TField} {l : List (TCol × Val)}
    (hins : alignedW tSpec (TField.writable s) [] ins = true) (he : evalParams r ins = .ok l)
    (uuid : Val) (i : Int) :
    rowId .id (applyFix uuid (assign (setCol nullRaw .id (.int i)) l)) = i := by
  rw [rowId_applyFix]
  unfold rowId
  rw [assign_not_mem _ _ _ (id_not_written hins he), setCol_same]; rfl

/-- `get` after `add`: the row written, in normal form, with the assigned id
and the origin pair fixed up. -/
theorem track_add_get {s : Schema2} {st : TStmts} (ha : alignedT s st = true)
    {d d' : TDb} (hwf : idsBelow .id d.rows d.seq) {r : Row TField} (hr : wtRowT r) {i : Int}
    (h : tAdd st d r = (d', .ok i)) :
    tGet st d' i = .ok (some (normRowT s d.uuid none i r)) := by
  simp only [alignedT, Bool.and_eq_true] at ha
  obtain ⟨⟨⟨⟨⟨⟨_, hins⟩, _⟩, hsel⟩, _⟩, _⟩, _⟩ := ha
  obtain ⟨_, l, he, hi⟩ := tAdd_ok h
  obtain ⟨hi1, hd'⟩ := tInsert_ok hi
  subst hi1 hd'
  unfold tGet
  simp only
  rw [findRow_append_fresh .id d.rows _ (d.seq + 1)
    (fun r hr => by have := hwf r hr; omega) (rowId_inserted hins he _ _)]
  simp only
  rw [readRow_aligned (normRowT s d.uuid none (d.seq + 1) r) hsel TField.nodup_all TField.mem_all
    (read_inserted hins he hr d.uuid (d.seq + 1))]

end Table
end EngineModel
