/-
Lemmas about the `track_table` model (Table/Track.lean) for property C18:
row-store facts (`findRow` after append / replace / delete), facts about the
Spec tables of `Table/Names.lean` (each member has its own column), and the
round trip `get ∘ add`, `get ∘ update`, the per-column accessors.
-/
import EngineModel.Table.Track
import Proofs.TableCore

namespace EngineModel
namespace Table

set_option linter.unusedSectionVars false

/-! ## row store -/

section Store
variable {C : Type} [DecidableEq C]

theorem findRow_append_fresh (idc : C) (t : Rows C) (new : Raw C) (i : Int)
    (hfresh : ∀ r ∈ t, rowId idc r ≠ i) (hnew : rowId idc new = i) :
    findRow idc (t ++ [new]) i = some new := by
  unfold findRow
  rw [List.find?_append]
  have : t.find? (fun r => rowId idc r == i) = none := by
    rw [List.find?_eq_none]
    intro r hr
    simp [hfresh r hr]
  rw [this]
  simp [hnew]

theorem findRow_some {idc : C} {t : Rows C} {i : Int} {raw : Raw C}
    (h : findRow idc t i = some raw) : raw ∈ t ∧ rowId idc raw = i := by
  unfold findRow at h
  have h1 := List.mem_of_find?_eq_some h
  have h2 := List.find?_some h
  exact ⟨h1, by simpa using h2⟩

theorem findRow_none {idc : C} {t : Rows C} {i : Int}
    (h : findRow idc t i = none) : ∀ r ∈ t, rowId idc r ≠ i := by
  unfold findRow at h
  rw [List.find?_eq_none] at h
  intro r hr
  simpa using h r hr

/-- After `UPDATE … WHERE id = i` (by a function that keeps the id) the row
with id `i` is the updated old row. -/
theorem findRow_updRow_same (idc : C) (t : Rows C) (i : Int) (f : Raw C → Raw C) {old : Raw C}
    (h : findRow idc t i = some old) (hid : rowId idc (f old) = i) :
    findRow idc (updRow idc t i f) i = some (f old) := by
  unfold findRow updRow at *
  induction t with
  | nil => simp at h
  | cons r rs ih =>
    simp only [List.map_cons, List.find?_cons] at *
    by_cases hr : rowId idc r = i
    · simp only [hr, beq_self_eq_true, if_true] at h ⊢
      cases h
      simp [hid]
    · have hr' : (rowId idc r == i) = false := by simp [hr]
      simp only [hr', if_false, Bool.false_eq_true] at h ⊢
      exact ih h

/-- `UPDATE … WHERE id = i` leaves the row with another id alone. -/
theorem findRow_updRow_other (idc : C) (t : Rows C) (i j : Int) (f : Raw C → Raw C)
    (hij : j ≠ i) (hid : ∀ r ∈ t, rowId idc r = i → rowId idc (f r) = i) :
    findRow idc (updRow idc t i f) j = findRow idc t j := by
  unfold findRow updRow
  induction t with
  | nil => rfl
  | cons r rs ih =>
    simp only [List.map_cons, List.find?_cons]
    have ih' := ih (fun r hr => hid r (List.mem_cons_of_mem _ hr))
    by_cases hr : rowId idc r = i
    · have h1 : rowId idc (f r) = i := hid r List.mem_cons_self hr
      have h2 : (i == j) = false := by simp; omega
      have h3 : (rowId idc (f r) == j) = false := by simp [h1]; omega
      simp only [hr, beq_self_eq_true, if_true, h3, h2]
      exact ih'
    · have hr' : (rowId idc r == i) = false := by simp [hr]
      simp only [hr', if_false, Bool.false_eq_true]
      rw [ih']

theorem findRow_delRow_same (idc : C) (t : Rows C) (i : Int) :
    findRow idc (delRow idc t i) i = none := by
  unfold findRow delRow
  rw [List.find?_eq_none]
  intro r hr
  have := (List.mem_filter.mp hr).2
  simpa using this

theorem findRow_delRow_other (idc : C) (t : Rows C) (i j : Int) (hij : j ≠ i) :
    findRow idc (delRow idc t i) j = findRow idc t j := by
  unfold findRow delRow
  induction t with
  | nil => rfl
  | cons r rs ih =>
    simp only [List.filter_cons, List.find?_cons]
    by_cases hr : rowId idc r = i
    · have h2 : (i == j) = false := by simp; omega
      simp only [hr, beq_self_eq_true, Bool.not_true, Bool.false_eq_true, if_false, h2]
      exact ih
    · have hr' : (rowId idc r == i) = false := by simp [hr]
      simp only [hr', Bool.not_false, if_true, List.find?_cons]
      rw [ih]

theorem setCol_same (raw : Raw C) (c : C) (v : Val) : setCol raw c v c = v := by simp [setCol]
theorem setCol_other (raw : Raw C) {c c' : C} (v : Val) (h : c' ≠ c) : setCol raw c v c' = raw c' := by
  simp [setCol, h]

end Store

/-! ## the Spec tables of the Track table -/

theorem TField.mem_all (f : TField) : f ∈ TField.all := by cases f <;> decide

theorem TField.nodup_all : nodupB TField.all = true := by decide

theorem TField.col_inj {f g : TField} (h : f.col = g.col) : f = g := by
  cases f <;> cases g <;> first | rfl | (exact absurd h (by decide))

theorem TField.mem_writable {s : Schema2} {f : TField} :
    f ∈ TField.writable s ↔ (f ≠ .id ∧ f.present s = true) := by
  unfold TField.writable
  simp [List.mem_filter, TField.mem_all]

theorem tSpec_fields : tSpec.fields = TField.all := rfl
theorem tSpec_colOf (f : TField) : tSpec.colOf f = f.col := rfl
theorem tSpec_tyOf (f : TField) : tSpec.tyOf f = f.ty := rfl

/-- The id column is not among the columns an aligned write names. -/
theorem id_not_written {s : Schema2} {ps : List (WB TCol TField)} {r : Row TField} {l : List (TCol × Val)}
    (ha : alignedW tSpec (TField.writable s) [] ps = true) (he : evalParams r ps = .ok l) :
    TCol.id ∉ l.map (·.1) := by
  intro hc
  have := evalParams_cols_need ha he hc
  obtain ⟨f, hf, hcol⟩ := List.mem_map.mp this
  have : f = .id := TField.col_inj (f := f) (g := .id) hcol
  exact (TField.mem_writable.mp hf).1 this

/-! ## origin fix-up -/

theorem rowId_applyFix (uuid : Val) (raw : Raw TCol) : rowId .id (applyFix uuid raw) = rowId .id raw := by
  unfold applyFix
  split
  · simp [fixOrigin, rowId, setCol]
  · rfl

theorem applyFix_other (uuid : Val) (raw : Raw TCol) {c : TCol}
    (h1 : c ≠ .originTrackId) (h2 : c ≠ .originDatabaseUuid) : applyFix uuid raw c = raw c := by
  unfold applyFix
  split
  · simp [fixOrigin, setCol, h1, h2]
  · rfl

/-- A member written through its own column, as the raw row holds it. -/
theorem written_i64 {k : WConv} {v : FVal} {x : Val} (hv : wtv .i64 v = true) (hk : k = FTy.wconv .i64)
    (hw : wconv k v = .ok x) : ∃ i, v = .int i ∧ x = .int i := by
  subst hk
  cases v <;> simp only [wtv, Bool.false_eq_true] at hv
  case int i =>
    simp only [FTy.wconv, wconv, Res.ok.injEq] at hw
    exact ⟨i, rfl, hw.symm⟩

theorem written_str {k : WConv} {v : FVal} {x : Val} (hv : wtv .str v = true) (hk : k = FTy.wconv .str)
    (hw : wconv k v = .ok x) : ∃ b, v = .str b ∧ x = .text b := by
  subst hk
  cases v <;> simp only [wtv, Bool.false_eq_true] at hv
  case str b =>
    simp only [FTy.wconv, wconv, Res.ok.injEq] at hw
    exact ⟨b, rfl, hw.symm⟩

/-- The trigger condition on the stored row says what `originUnset` says of the written one. -/
theorem needsFix_iff {raw : Raw TCol} {r : Row TField} {k : Int} {u : Bytes}
    (h1 : r .origin_track_id = .int k) (h2 : raw .originTrackId = .int k)
    (h3 : r .origin_database_uuid = .str u) (h4 : raw .originDatabaseUuid = .text u) :
    needsFix raw = originUnset r := by
  unfold needsFix originUnset
  rw [h1, h2, h3, h4]
  simp only [isZeroOrNull, isEmptyOrNull]
  congr 1
  · by_cases hk : k = 0
    · subst hk; rfl
    · have : (FVal.int k == FVal.int 0) = false := by
        simp only [beq_eq_false_iff_ne, ne_eq, FVal.int.injEq]; exact hk
      rw [this]; simp [hk]
  · cases u with
    | nil => rfl
    | cons a t =>
      have : (FVal.str (a :: t) == FVal.str []) = false := by
        simp only [beq_eq_false_iff_ne, ne_eq, FVal.str.injEq]; exact List.cons_ne_nil a t
      rw [this]; rfl

/-! ## what an aligned SELECT reads from a row an aligned write stored -/

theorem tInsert_ok {d d' : TDb} {l : List (TCol × Val)} {i : Int} (h : tInsert d l = (d', .ok i)) :
    i = d.seq + 1 ∧
    d' = { d with rows := d.rows ++ [applyFix d.uuid (assign (setCol nullRaw .id (.int (d.seq + 1))) l)], seq := d.seq + 1 } := by
  unfold tInsert at h
  simp only at h
  split at h
  · cases h
  · split at h
    · cases h
    · simp only [Prod.mk.injEq, Res.ok.injEq] at h
      exact ⟨h.2.symm, h.1.symm⟩

theorem tAdd_ok {st : TStmts} {d d' : TDb} {r : Row TField} {i : Int} (h : tAdd st d r = (d', .ok i)) :
    r .id = .int 0 ∧ ∃ l, evalParams r st.ins = .ok l ∧ tInsert d l = (d', .ok i) := by
  unfold tAdd at h
  split at h
  · cases h
  · rename_i hid
    refine ⟨by simpa using hid, ?_⟩
    cases he : evalParams r st.ins with
    | ok l => rw [he] at h; exact ⟨l, rfl, h⟩
    | throw e => rw [he] at h; cases h
    | ub u => rw [he] at h; cases h

theorem normRowT_other {s : Schema2} {u : Val} {le : Option Int} {i : Int} {r : Row TField} {f : TField}
    (h1 : f ≠ .id) (h2 : f ≠ .origin_track_id) (h3 : f ≠ .origin_database_uuid) (h4 : f ≠ .last_edit_time) :
    normRowT s u le i r f = if f.present s then normV f.ty (r f) else absentVal f.ty := by
  cases f <;> first | rfl | contradiction

theorem absentVal_read (raw : Raw TCol) (ty : FTy) :
    readSrc raw (absentSrc ty : RSrc TCol) = .ok (absentVal ty) := by
  cases ty <;> rfl

theorem stampRow_other (st : Option Int) (raw : Raw TCol) {c : TCol} (h : c ≠ .lastEditTime) :
    stampRow st raw c = raw c := by
  cases st with
  | none => rfl
  | some t => exact setCol_other _ _ h

theorem rowId_stampRow (st : Option Int) (raw : Raw TCol) : rowId .id (stampRow st raw) = rowId .id raw := by
  unfold rowId; rw [stampRow_other _ _ (by decide)]

/-- What an aligned SELECT reads, member by member, from the row an aligned
INSERT / UPDATE stored over `base` (whose id is `i`), after the origin fix-up
trigger and — when `stamp` is `some t` — the timestamp trigger. -/
theorem read_written {s : Schema2} {ps : List (WB TCol TField)} {r : Row TField} {l : List (TCol × Val)}
    (hps : alignedW tSpec (TField.writable s) [] ps = true) (he : evalParams r ps = .ok l)
    (hr : wtRowT r) (uuid : Val) (base : Raw TCol) (i : Int) (hbase : rowId .id base = i)
    (stamp : Option Int)
    (hst : ∀ t, stamp = some t → in64 (t * 1000000000) = true ∧ TField.present s .last_edit_time = true)
    (f : TField) :
    readSrc (stampRow stamp (applyFix uuid (assign base l))) (expectedSrc tSpec (TField.present s) f)
      = .ok (normRowT s uuid stamp i r f) := by
  let raw0 := assign base l
  have hid0 : raw0 .id = base .id := by
    show assign base l .id = _
    rw [assign_not_mem _ _ _ (id_not_written hps he)]
  have hrid : rowId .id raw0 = i := by rw [← hbase]; unfold rowId; rw [hid0]
  -- the origin pair as stored
  have hot : TField.origin_track_id ∈ TField.writable s := TField.mem_writable.mpr ⟨by decide, rfl⟩
  have hou : TField.origin_database_uuid ∈ TField.writable s := TField.mem_writable.mpr ⟨by decide, rfl⟩
  obtain ⟨x1, hx1, hc1⟩ := assign_evalParams hps he base hot
  obtain ⟨x2, hx2, hc2⟩ := assign_evalParams hps he base hou
  obtain ⟨k, hk1, hk2⟩ := written_i64 (hr .origin_track_id) rfl hx1
  obtain ⟨u, hu1, hu2⟩ := written_str (hr .origin_database_uuid) rfl hx2
  subst hk2 hu2
  have hfix : needsFix raw0 = originUnset r := needsFix_iff hk1 hc1 hu1 hc2
  by_cases hfid : f = .id
  · subst hfid
    have : (stampRow stamp (applyFix uuid raw0)) .id = raw0 .id := by
      rw [stampRow_other _ _ (by decide), applyFix_other _ _ (by decide) (by decide)]
    simp only [expectedSrc, TField.present, if_true, readSrc, tSpec_colOf, tSpec_tyOf, TField.col, TField.ty]
    show rconv _ _ ((stampRow stamp (applyFix uuid raw0)) .id) = _
    rw [this]
    show Res.ok (FVal.int (readInt (raw0 .id))) = _
    rw [show readInt (raw0 .id) = i from hrid]; rfl
  by_cases hf1 : f = .origin_track_id
  · subst hf1
    simp only [expectedSrc, TField.present, if_true, readSrc, tSpec_colOf, tSpec_tyOf, TField.col, TField.ty]
    show rconv _ _ ((stampRow stamp (applyFix uuid raw0)) .originTrackId) = _
    rw [stampRow_other _ _ (by decide)]
    unfold applyFix
    rw [hfix]
    by_cases hun : originUnset r = true
    · simp only [hun, if_true, normRowT, fixOrigin]
      rw [setCol_other _ _ (by decide), setCol_same, hrid]; rfl
    · simp only [hun, Bool.false_eq_true, if_false, normRowT]
      rw [show raw0 .originTrackId = .int k from hc1, hk1]; rfl
  by_cases hf2 : f = .origin_database_uuid
  · subst hf2
    simp only [expectedSrc, TField.present, if_true, readSrc, tSpec_colOf, tSpec_tyOf, TField.col, TField.ty]
    show rconv _ _ ((stampRow stamp (applyFix uuid raw0)) .originDatabaseUuid) = _
    rw [stampRow_other _ _ (by decide)]
    unfold applyFix
    rw [hfix]
    by_cases hun : originUnset r = true
    · simp only [hun, if_true, normRowT, fixOrigin]
      rw [setCol_same]; rfl
    · simp only [hun, Bool.false_eq_true, if_false, normRowT]
      rw [show raw0 .originDatabaseUuid = .text u from hc2, hu1]; rfl
  -- the stamped last-edit time
  by_cases hstamped : f = .last_edit_time ∧ stamp.isSome
  · obtain ⟨hfl, hsome⟩ := hstamped
    subst hfl
    obtain ⟨t, rfl⟩ := Option.isSome_iff_exists.mp hsome
    obtain ⟨ht, hpres⟩ := hst t rfl
    simp only [expectedSrc, hpres, if_true, readSrc, tSpec_colOf, tSpec_tyOf, TField.col, TField.ty, normRowT,
      stampRow, setCol_same, FTy.pty, FTy.rconv, rconv, readInt, toTimePoint, ht]
    rfl
  -- every other member
  have hnorm : normRowT s uuid stamp i r f = if f.present s then normV f.ty (r f) else absentVal f.ty := by
    by_cases h4 : f = .last_edit_time
    · subst h4
      have : stamp = none := by
        cases stamp with
        | none => rfl
        | some t => exact absurd ⟨rfl, rfl⟩ hstamped
      subst this
      simp only [normRowT]
    · exact normRowT_other hfid hf1 hf2 h4
  rw [hnorm]
  by_cases hp : f.present s = true
  · simp only [expectedSrc, hp, if_true]
    have hfw : f ∈ TField.writable s := TField.mem_writable.mpr ⟨hfid, hp⟩
    have hc : (stampRow stamp (applyFix uuid raw0)) (tSpec.colOf f) = assign base l (tSpec.colOf f) := by
      rw [tSpec_colOf]
      have hne : f.col ≠ .lastEditTime ∨ stamp = none := by
        by_cases h4 : f = .last_edit_time
        · right
          cases stamp with
          | none => rfl
          | some t => exact absurd ⟨h4, rfl⟩ hstamped
        · left; exact fun h => h4 (TField.col_inj (g := .last_edit_time) h)
      have h1 : (stampRow stamp (applyFix uuid raw0)) f.col = (applyFix uuid raw0) f.col := by
        rcases hne with h | h
        · exact stampRow_other _ _ h
        · subst h; rfl
      rw [h1]
      exact applyFix_other _ _ (fun h => hf1 (TField.col_inj (g := .origin_track_id) h))
        (fun h => hf2 (TField.col_inj (g := .origin_database_uuid) h))
    exact read_after_write hps he base _ hfw (hr f) hc
  · simp only [expectedSrc, hp, Bool.false_eq_true, if_false]
    exact absentVal_read _ _

theorem rowId_written {s : Schema2} {ps : List (WB TCol TField)} {r : Row TField} {l : List (TCol × Val)}
    (hps : alignedW tSpec (TField.writable s) [] ps = true) (he : evalParams r ps = .ok l)
    (uuid : Val) (base : Raw TCol) (stamp : Option Int) :
    rowId .id (stampRow stamp (applyFix uuid (assign base l))) = rowId .id base := by
  rw [rowId_stampRow, rowId_applyFix]
  unfold rowId
  rw [assign_not_mem _ _ _ (id_not_written hps he)]

/-! ## add / get -/

/-- `get` after `add`: the row written, in normal form, with the assigned id
and the origin pair fixed up. -/
theorem track_add_get {s : Schema2} {st : TStmts} (ha : alignedT s st = true)
    {d d' : TDb} (hwf : idsBelow .id d.rows d.seq) {r : Row TField} (hr : wtRowT r) {i : Int}
    (h : tAdd st d r = (d', .ok i)) :
    tGet st d' i = .ok (some (normRowT s d.uuid none i r)) := by
  simp only [alignedT, Bool.and_eq_true] at ha
  obtain ⟨⟨⟨⟨⟨⟨_, hins⟩, _⟩, hsel⟩, _⟩, _⟩, _⟩ := ha
  obtain ⟨_, l, he, hi⟩ := tAdd_ok h
  obtain ⟨hi1, hd'⟩ := tInsert_ok hi
  subst hi1 hd'
  unfold tGet
  simp only
  have hid : rowId .id (applyFix d.uuid (assign (setCol nullRaw .id (.int (d.seq + 1))) l)) = d.seq + 1 := by
    have := rowId_written hins he d.uuid (setCol nullRaw .id (.int (d.seq + 1))) none
    simp only [stampRow] at this
    rw [this]; simp [rowId, setCol, readInt]
  rw [findRow_append_fresh .id d.rows _ (d.seq + 1) (fun r hr => by have := hwf r hr; omega) hid]
  simp only
  have := read_written hins he hr d.uuid (setCol nullRaw .id (.int (d.seq + 1))) (d.seq + 1)
    (by simp [rowId, setCol, readInt]) none (fun t ht => by cases ht)
  simp only [stampRow] at this
  rw [readRow_aligned (normRowT s d.uuid none (d.seq + 1) r) hsel TField.nodup_all TField.mem_all this]

/-! ## update / get -/

theorem tUpdateWhereId_ok {s : Schema2} {d d' : TDb} {i : Int} {l : List (TCol × Val)} {n : Nat}
    (h : tUpdateWhereId s d i l = (d', .ok n)) :
    (findRow .id d.rows i = none ∧ d' = d ∧ n = 0) ∨
    (∃ old, findRow .id d.rows i = some old ∧ n = 1 ∧
      d' = { d with rows := updRow .id d.rows i (fun _ => afterUpdate s d (l.map (·.1)) (assign old l)) }) := by
  unfold tUpdateWhereId at h
  cases hf : findRow .id d.rows i with
  | none =>
    rw [hf] at h
    simp only [Prod.mk.injEq, Res.ok.injEq] at h
    exact Or.inl ⟨rfl, h.1.symm, h.2.symm⟩
  | some old =>
    rw [hf] at h
    simp only at h
    split at h
    · cases h
    · split at h
      · cases h
      · simp only [Prod.mk.injEq, Res.ok.injEq] at h
        exact Or.inr ⟨old, rfl, h.2.symm, h.1.symm⟩

/-- A failed `UPDATE … WHERE id = ?` leaves the table as it was. -/
theorem tUpdateWhereId_fail {s : Schema2} {d d' : TDb} {i : Int} {l : List (TCol × Val)} {e : Exn}
    (h : tUpdateWhereId s d i l = (d', .throw e)) : d' = d := by
  unfold tUpdateWhereId at h
  cases hf : findRow .id d.rows i with
  | none => rw [hf] at h; cases h
  | some old =>
    rw [hf] at h
    simp only at h
    split at h
    · simp only [Prod.mk.injEq] at h; exact h.1.symm
    · split at h
      · simp only [Prod.mk.injEq] at h; exact h.1.symm
      · cases h

theorem tUpdateWhereId_no_ub {s : Schema2} {d : TDb} {i : Int} {l : List (TCol × Val)} {u : Ub} :
    (tUpdateWhereId s d i l).2 ≠ .ub u := by
  unfold tUpdateWhereId
  cases findRow .id d.rows i with
  | none => simp
  | some old =>
    simp only
    split
    · simp
    · split <;> simp

theorem tUpdate_ok {s : Schema2} {st : TStmts} {d d' : TDb} {r : Row TField}
    (h : tUpdate s st d r = (d', .ok ())) :
    ∃ i l n, r .id = .int i ∧ i ≠ 0 ∧ evalParams r st.upd = .ok l ∧ tUpdateWhereId s d i l = (d', .ok n) := by
  unfold tUpdate at h
  split at h
  · cases h
  · rename_i hid
    cases he : evalParams r st.upd with
    | throw e => rw [he] at h; cases h
    | ub u => rw [he] at h; cases h
    | ok l =>
      rw [he] at h
      simp only at h
      cases hrid : r .id with
      | int i =>
        rw [hrid] at h
        simp only at h
        have hi0 : i ≠ 0 := by
          intro h0; subst h0; exact hid hrid
        cases hu : tUpdateWhereId s d i l with
        | mk d2 res =>
          rw [hu] at h
          cases res with
          | ok n =>
            simp only [Prod.mk.injEq] at h
            exact ⟨i, l, n, rfl, hi0, rfl, by rw [hu, h.1]⟩
          | throw e => simp only [Prod.mk.injEq] at h; exact absurd h.2 (by simp)
          | ub u => simp only [Prod.mk.injEq] at h; exact absurd h.2 (by simp)
      | _ => rw [hrid] at h; simp only [Prod.mk.injEq] at h; exact absurd h.2 (by simp)

/-- The full `UPDATE` names a stamped column, so on 2.20.3+ the database stamps the row. -/
theorem stampOf_full {s : Schema2} {ps : List (WB TCol TField)} {r : Row TField} {l : List (TCol × Val)}
    (hps : alignedW tSpec (TField.writable s) [] ps = true) (he : evalParams r ps = .ok l) (clock : Int) :
    stampOf s clock (l.map (·.1)) = if s.ge .s2_20_3 then some clock else none := by
  have hlen : TCol.length ∈ l.map (·.1) := by
    rw [(evalParams_ok he).1]
    exact alignedW_mem hps (f := .length) (TField.mem_writable.mpr ⟨by decide, rfl⟩)
  have : (l.map (·.1)).any (fun c => tsCols.contains c) = true := by
    rw [List.any_eq_true]
    exact ⟨_, hlen, by decide⟩
  unfold stampOf stamps
  rw [this, Bool.and_true]

theorem present_lastEdit (s : Schema2) : TField.present s .last_edit_time = s.ge .s2_20_3 := rfl

/-- `get` after `update` of an existing row: the row written, in normal form;
the origin pair fixed up, the last-edit time stamped by the database on
2.20.3+; every other row is untouched. -/
theorem track_update_get {s : Schema2} {st : TStmts} (ha : alignedT s st = true)
    {d d' : TDb} {r : Row TField} (hr : wtRowT r) {i : Int} (hid : r .id = .int i)
    {old : Raw TCol} (hex : findRow .id d.rows i = some old)
    (hclk : in64 (d.clock * 1000000000) = true)
    (h : tUpdate s st d r = (d', .ok ())) :
    tGet st d' i = .ok (some (normRowT s d.uuid (if s.ge .s2_20_3 then some d.clock else none) i r))
    ∧ (∀ j, j ≠ i → findRow .id d'.rows j = findRow .id d.rows j)
    ∧ d'.seq = d.seq ∧ d'.uuid = d.uuid ∧ d'.clock = d.clock := by
  simp only [alignedT, Bool.and_eq_true] at ha
  obtain ⟨⟨⟨⟨⟨⟨_, _⟩, hupd⟩, hsel⟩, _⟩, _⟩, _⟩ := ha
  obtain ⟨i', l, n, hid', _, he, hu⟩ := tUpdate_ok h
  rw [hid] at hid'
  cases hid'
  rcases tUpdateWhereId_ok hu with ⟨hnone, _, _⟩ | ⟨old', hold, _, hd'⟩
  · rw [hex] at hnone; cases hnone
  · rw [hex] at hold; cases hold
    subst hd'
    obtain ⟨_, hrid⟩ := findRow_some hex
    have hstamp := stampOf_full hupd he d.clock
    have hnew : rowId .id (afterUpdate s d (l.map (·.1)) (assign old l)) = i := by
      unfold afterUpdate
      rw [rowId_written hupd he]; exact hrid
    refine ⟨?_, ?_, rfl, rfl, rfl⟩
    · unfold tGet
      simp only
      rw [findRow_updRow_same .id d.rows i _ hex hnew]
      simp only
      have := read_written hupd he hr d.uuid old i hrid (stampOf s d.clock (l.map (·.1)))
        (by
          intro t ht
          rw [hstamp] at ht
          split at ht
          · rename_i hge
            cases ht
            exact ⟨hclk, by rw [present_lastEdit]; exact hge⟩
          · cases ht)
      rw [hstamp] at this
      unfold afterUpdate
      rw [hstamp]
      rw [readRow_aligned _ hsel TField.nodup_all TField.mem_all this]
    · intro j hj
      exact findRow_updRow_other .id d.rows i j _ hj (fun _ _ _ => hnew)

/-! ## per-column accessors, missing rows -/

theorem findAcc_aligned {l : List (Acc TCol TField Schema2)} (ha : alignedAcc l = true) {f : TField}
    (hf : f ≠ .id) :
    ∃ a, findAcc l f = some a ∧ a.field = f ∧ a.col = f.col ∧ a.ty = f.accTy ∧ a.minSchema = f.accGuard := by
  simp only [alignedAcc, Bool.and_eq_true, decide_eq_true_eq, List.all_eq_true] at ha
  obtain ⟨hfields, hall⟩ := ha
  have hmem : f ∈ l.map (·.field) := by
    rw [hfields]; simp [List.mem_filter, TField.mem_all, hf]
  unfold findAcc
  cases hfa : l.find? (fun a => a.field == f) with
  | none =>
    rw [List.find?_eq_none] at hfa
    obtain ⟨a, ha1, ha2⟩ := List.mem_map.mp hmem
    exact absurd (by simp [ha2]) (hfa a ha1)
  | some a =>
    have h1 := List.find?_some hfa
    have h2 := List.mem_of_find?_eq_some hfa
    have hfield : a.field = f := by simpa using h1
    have := hall a h2
    rw [hfield] at this
    exact ⟨a, rfl, hfield, this.1.1, this.1.2, this.2⟩

theorem guard_present {s : Schema2} {f : TField} (hf : f ≠ .id) :
    guardFails s f.accGuard = !f.present s := by
  cases f <;> first | rfl | (cases s <;> rfl)

theorem fromAcc_same {f : TField} (h : f.accTy = f.ty) (v : FVal) : fromAcc f v = v := by
  cases f <;> first | rfl | (exact absurd h (by decide))

/-- An accessor read denotes what the row's SELECT reads from the same column. -/
theorem acc_read (f : TField) (x : Val) {w : FVal} (h : rconv f.ty.pty f.ty.rconv x = .ok w) :
    ∃ v, rconv f.accTy.pty f.accTy.rconv x = .ok v ∧ fromAcc f v = w := by
  by_cases hsame : f.accTy = f.ty
  · exact ⟨w, by rw [hsame]; exact h, fromAcc_same hsame w⟩
  · -- the two creation dates
    have hty : f.ty = .time ∧ f.accTy = .otime := by
      cases f <;> first | (exact absurd rfl hsame) | exact ⟨rfl, rfl⟩
    obtain ⟨h1, h2⟩ := hty
    rw [h1] at h
    rw [h2]
    simp only [FTy.pty, FTy.rconv, rconv] at h ⊢
    cases x with
    | null =>
      simp only [readInt, readOptInt] at h ⊢
      refine ⟨_, rfl, ?_⟩
      have : toTimePoint 0 = .ok 0 := by decide
      rw [this] at h
      simp only [Res.bind, Res.ok.injEq] at h
      subst h
      simp only [fromAcc, h1, h2]
    | _ =>
      simp only [readOptInt]
      cases ht : toTimePoint (readInt _) with
      | ok t =>
        rw [ht] at h
        simp only [Res.bind, Res.ok.injEq] at h
        subst h
        exact ⟨_, rfl, by simp only [fromAcc, h1, h2]⟩
      | throw e => rw [ht] at h; cases h
      | ub u => rw [ht] at h; cases h


theorem tGet_found {st : TStmts} {d : TDb} {i : Int} {raw : Raw TCol} {g : Row TField}
    (hfind : findRow .id d.rows i = some raw) (hget : tGet st d i = .ok (some g)) :
    readRow raw st.sel = .ok g := by
  unfold tGet at hget
  rw [hfind] at hget
  simp only at hget
  cases hr : readRow raw st.sel with
  | ok g' => rw [hr] at hget; simp only [Res.ok.injEq, Option.some.injEq] at hget; rw [hget]
  | throw e => rw [hr] at hget; cases hget
  | ub u => rw [hr] at hget; cases hget

/-- **Per-column getter.**  On an existing row the getter of a member the schema
has a column for denotes the member of the row `get` returns; on a schema
without the column it reports `unsupported_operation`. -/
theorem track_getc {s : Schema2} {st : TStmts} (ha : alignedT s st = true) {d : TDb} {i : Int}
    {raw : Raw TCol} (hfind : findRow .id d.rows i = some raw) {g : Row TField}
    (hget : tGet st d i = .ok (some g)) {f : TField} (hf : f ≠ .id) :
    if f.present s then ∃ v, tGetc s st d f i = .ok v ∧ fromAcc f v = g f
    else tGetc s st d f i = .throw (.dj "unsupported_operation") := by
  simp only [alignedT, Bool.and_eq_true] at ha
  obtain ⟨⟨⟨⟨⟨⟨_, _⟩, _⟩, hsel⟩, hgetters⟩, _⟩, _⟩ := ha
  obtain ⟨a, hfa, _, hcol, hty, hguard⟩ := findAcc_aligned hgetters hf
  unfold tGetc
  rw [hfa]
  simp only
  rw [hguard, guard_present hf]
  by_cases hp : f.present s = true
  · simp only [hp, if_true, Bool.not_true, Bool.false_eq_true, if_false, hfind]
    have hread := readRow_aligned_inv hsel TField.nodup_all (tGet_found hfind hget) (f := f) (TField.mem_all f)
    simp only [expectedSrc, hp, if_true, readSrc, tSpec_colOf, tSpec_tyOf] at hread
    rw [hcol, hty]
    exact acc_read f _ hread
  · simp only [hp, Bool.false_eq_true, if_false, Bool.not_false, if_true]

/-- **Missing rows.**  Every column accessor and `remove` naming an id with no
row reports an error and changes nothing. -/
theorem track_missing_row {s : Schema2} {st : TStmts} (ha : alignedT s st = true) {d : TDb} {i : Int}
    (hmiss : findRow .id d.rows i = none) :
    (∀ f, f ≠ .id → ∃ e, tGetc s st d f i = .throw e) ∧
    (∀ f v, f ≠ .id → ∃ e, tSetc s st d f i v = (d, .throw e)) ∧
    tRemove st d i = (d, .throw .invalid_argument) := by
  simp only [alignedT, Bool.and_eq_true] at ha
  obtain ⟨⟨⟨⟨⟨⟨_, _⟩, _⟩, _⟩, hgetters⟩, hsetters⟩, hrm⟩ := ha
  refine ⟨?_, ?_, ?_⟩
  · intro f hf
    obtain ⟨a, hfa, _, _, _, _⟩ := findAcc_aligned hgetters hf
    unfold tGetc
    rw [hfa]
    simp only
    split
    · exact ⟨_, rfl⟩
    · rw [hmiss]; exact ⟨_, rfl⟩
  · intro f v hf
    obtain ⟨a, hfa, _, _, _, _⟩ := findAcc_aligned hsetters hf
    unfold tSetc
    rw [hfa]
    simp only
    split
    · exact ⟨_, rfl⟩
    · cases hw : wconv a.ty.wconv v with
      | throw e => exact ⟨_, rfl⟩
      | ub u => exact absurd hw (wconv_no_ub _ _ _)
      | ok x =>
        simp only
        unfold tUpdateWhereId
        rw [hmiss]
        exact ⟨_, rfl⟩
  · unfold tRemove
    rw [hmiss, hrm]
    rfl


/-- A value written through the setter of `f` reads back, through the row's
SELECT, as the member it denotes in normal form. -/
theorem acc_write_read (f : TField) {v : FVal} {x : Val} (hv : wtv f.accTy v = true)
    (hw : wconv f.accTy.wconv v = .ok x) :
    rconv f.ty.pty f.ty.rconv x = .ok (normV f.ty (fromAcc f v)) := by
  by_cases hsame : f.accTy = f.ty
  · rw [fromAcc_same hsame]
    rw [hsame] at hv hw
    exact conv_roundtrip hv hw
  · have hty : f.ty = .time ∧ f.accTy = .otime := by
      cases f <;> first | (exact absurd rfl hsame) | exact ⟨rfl, rfl⟩
    obtain ⟨h1, h2⟩ := hty
    rw [h2] at hv hw
    rw [h1]
    cases v <;> simp only [wtv, Bool.false_eq_true] at hv
    case otime o =>
      cases o with
      | none =>
        simp only [FTy.wconv, wconv, Res.ok.injEq] at hw
        subst hw
        simp only [fromAcc, h1, h2]
        rfl
      | some ns =>
        simp only [FTy.wconv, wconv, Res.ok.injEq] at hw
        subst hw
        simp only [fromAcc, h1, h2, FTy.pty, FTy.rconv, rconv, readInt, toTimePoint_truncSec hv, normV]
        rfl

theorem tSetc_ok {s : Schema2} {st : TStmts} {d d' : TDb} {f : TField} {i : Int} {v : FVal}
    (h : tSetc s st d f i v = (d', .ok ())) :
    ∃ a x n, findAcc st.setters f = some a ∧ guardFails s a.minSchema = false ∧
      wconv a.ty.wconv v = .ok x ∧ tUpdateWhereId s d i [(a.col, x)] = (d', .ok n) ∧ n > 0 := by
  unfold tSetc at h
  cases hfa : findAcc st.setters f with
  | none => rw [hfa] at h; cases h
  | some a =>
    rw [hfa] at h
    simp only at h
    split at h
    · cases h
    · rename_i hg
      cases hw : wconv a.ty.wconv v with
      | throw e => rw [hw] at h; cases h
      | ub u => rw [hw] at h; cases h
      | ok x =>
        rw [hw] at h
        simp only at h
        cases hu : tUpdateWhereId s d i [(a.col, x)] with
        | mk d2 res =>
          rw [hu] at h
          cases res with
          | ok n =>
            simp only at h
            split at h
            · rename_i hn
              simp only [Prod.mk.injEq] at h
              exact ⟨a, x, n, rfl, by simpa using hg, hw, by rw [hu, h.1], hn⟩
            · cases h
          | throw e => cases h
          | ub u => cases h

theorem typed_zero {c : Val} (h : (match c with | .null | .int _ => true | _ => false) = true) :
    isZeroOrNull c = (FVal.int (readInt c) == FVal.int 0) := by
  cases c <;> simp only [Bool.false_eq_true] at h
  · rfl
  · rename_i k
    simp only [isZeroOrNull, readInt]
    by_cases hk : k = 0
    · subst hk; rfl
    · have : (FVal.int k == FVal.int 0) = false := by
        simp only [beq_eq_false_iff_ne, ne_eq, FVal.int.injEq]; exact hk
      rw [this]; simp [hk]

theorem typed_empty {c : Val} (h : (match c with | .null | .text _ => true | _ => false) = true) :
    isEmptyOrNull c = (FVal.str (readStr c) == FVal.str []) := by
  cases c <;> simp only [Bool.false_eq_true] at h
  · rfl
  · rename_i u
    simp only [isEmptyOrNull, readStr]
    cases u with
    | nil => rfl
    | cons a t =>
      have : (FVal.str (a :: t) == FVal.str []) = false := by
        simp only [beq_eq_false_iff_ne, ne_eq, FVal.str.injEq]; exact List.cons_ne_nil a t
      rw [this]; rfl


theorem fixRowT_other (uuid : Val) (r : Row TField) {g : TField}
    (h1 : g ≠ .origin_track_id) (h2 : g ≠ .origin_database_uuid) : fixRowT uuid r g = r g := by
  cases g <;> first | rfl | contradiction

theorem stampRowT_other (t : Option Int) (r : Row TField) {g : TField}
    (h : g ≠ .last_edit_time ∨ t = none) : stampRowT t r g = r g := by
  rcases h with h | h
  · cases g <;> first | rfl | contradiction
  · subst h; cases g <;> rfl

/-- Reading, member by member, the row the AFTER UPDATE triggers leave, given
what the SELECT reads from the row before them (`r1`). -/
theorem read_afterUpdate {s : Schema2} {uuid : Val} {raw0 : Raw TCol} {r1 : Row TField} {i : Int}
    (hA : ∀ g, readSrc raw0 (expectedSrc tSpec (TField.present s) g) = .ok (r1 g))
    (htyped : originTyped raw0 = true) (hrid : rowId .id raw0 = i)
    (stamp : Option Int)
    (hst : ∀ t, stamp = some t → in64 (t * 1000000000) = true ∧ TField.present s .last_edit_time = true)
    (g : TField) :
    readSrc (stampRow stamp (applyFix uuid raw0)) (expectedSrc tSpec (TField.present s) g)
      = .ok (stampRowT stamp (fixRowT uuid r1) g) := by
  simp only [originTyped, Bool.and_eq_true] at htyped
  have hAid := hA .id
  have hAot := hA .origin_track_id
  have hAou := hA .origin_database_uuid
  simp only [expectedSrc, TField.present, if_true, readSrc, tSpec_colOf, tSpec_tyOf, TField.col, TField.ty,
    FTy.pty, FTy.rconv, rconv, Res.ok.injEq] at hAid hAot hAou
  have hfix : needsFix raw0 = originUnset r1 := by
    unfold needsFix originUnset
    rw [typed_zero htyped.1, typed_empty htyped.2, hAot, hAou]
  -- stamped last-edit time
  by_cases hstamped : g = .last_edit_time ∧ stamp.isSome
  · obtain ⟨hgl, hsome⟩ := hstamped
    subst hgl
    obtain ⟨t, rfl⟩ := Option.isSome_iff_exists.mp hsome
    obtain ⟨ht, hpres⟩ := hst t rfl
    simp only [expectedSrc, hpres, if_true, readSrc, tSpec_colOf, tSpec_tyOf, TField.col, TField.ty,
      stampRow, setCol_same, FTy.pty, FTy.rconv, rconv, readInt, toTimePoint, ht, stampRowT]
    rfl
  have hns : g ≠ .last_edit_time ∨ stamp = none := by
    by_cases h4 : g = .last_edit_time
    · right
      cases stamp with
      | none => rfl
      | some t => exact absurd ⟨h4, rfl⟩ hstamped
    · left; exact h4
  rw [stampRowT_other _ _ hns]
  have h1 : readSrc (stampRow stamp (applyFix uuid raw0)) (expectedSrc tSpec (TField.present s) g)
      = readSrc (applyFix uuid raw0) (expectedSrc tSpec (TField.present s) g) := by
    apply readSrc_congr
    rw [tSpec_colOf]
    rcases hns with h | h
    · exact stampRow_other _ _ (fun hc => h (TField.col_inj (g := .last_edit_time) hc))
    · subst h; rfl
  rw [h1]
  by_cases hg1 : g = .origin_track_id
  · subst hg1
    simp only [expectedSrc, TField.present, if_true, readSrc, tSpec_colOf, tSpec_tyOf, TField.col, TField.ty,
      FTy.pty, FTy.rconv, rconv, fixRowT]
    unfold applyFix
    rw [hfix]
    by_cases hun : originUnset r1 = true
    · simp only [hun, if_true, fixOrigin]
      rw [setCol_other _ _ (by decide), setCol_same, ← hAid, hrid]
      show Res.ok (FVal.int i) = _
      rw [← hrid]; rfl
    · simp only [hun, Bool.false_eq_true, if_false]
      rw [← hAot]
  by_cases hg2 : g = .origin_database_uuid
  · subst hg2
    simp only [expectedSrc, TField.present, if_true, readSrc, tSpec_colOf, tSpec_tyOf, TField.col, TField.ty,
      FTy.pty, FTy.rconv, rconv, fixRowT]
    unfold applyFix
    rw [hfix]
    by_cases hun : originUnset r1 = true
    · simp only [hun, if_true, fixOrigin]
      rw [setCol_same]
    · simp only [hun, Bool.false_eq_true, if_false]
      rw [← hAou]
  rw [fixRowT_other _ _ hg1 hg2, ← hA g]
  apply readSrc_congr
  rw [tSpec_colOf]
  exact applyFix_other _ _ (fun h => hg1 (TField.col_inj (g := .origin_track_id) h))
    (fun h => hg2 (TField.col_inj (g := .origin_database_uuid) h))


theorem lastEdit_not_stamped : (tsCols.contains TCol.lastEditTime) = false := by decide

theorem stampsField_present {s : Schema2} {f : TField} (h : stampsField s f = true) :
    TField.present s .last_edit_time = true ∧ f ≠ .last_edit_time := by
  unfold stampsField stamps at h
  simp only [Bool.and_eq_true, List.any_cons, List.any_nil, Bool.or_false] at h
  refine ⟨h.1, ?_⟩
  intro hf; subst hf
  have := h.2
  rw [show TField.last_edit_time.col = TCol.lastEditTime from rfl, lastEdit_not_stamped] at this
  cases this

/-- The origin columns stay typed when a typed value is written through a setter. -/
theorem originTyped_setCol {old : Raw TCol} (hold : originTyped old = true) {f : TField} {v : FVal} {x : Val}
    (hv : wtv f.accTy v = true) (hw : wconv f.accTy.wconv v = .ok x) :
    originTyped (setCol old f.col x) = true := by
  simp only [originTyped, Bool.and_eq_true] at hold ⊢
  constructor
  · by_cases hf : f = .origin_track_id
    · subst hf
      obtain ⟨k, _, hk⟩ := written_i64 (v := v) hv rfl hw
      subst hk
      rw [show TField.origin_track_id.col = TCol.originTrackId from rfl, setCol_same]
    · rw [setCol_other (c' := TCol.originTrackId) old x
        (fun h => hf (TField.col_inj (f := f) (g := .origin_track_id) h.symm))]
      exact hold.1
  · by_cases hf : f = .origin_database_uuid
    · subst hf
      obtain ⟨u, _, hu⟩ := written_str (v := v) hv rfl hw
      subst hu
      rw [show TField.origin_database_uuid.col = TCol.originDatabaseUuid from rfl, setCol_same]
    · rw [setCol_other (c' := TCol.originDatabaseUuid) old x
        (fun h => hf (TField.col_inj (f := f) (g := .origin_database_uuid) h.symm))]
      exact hold.2

/-- **Per-column setter.**  After `set_<f>(i, v)` on an existing row, `get i`
returns the row it returned before with member `f` replaced by `v` (and the
database-maintained members re-derived: `normSetT`); every other row is untouched. -/
theorem track_setc_get {s : Schema2} {st : TStmts} (ha : alignedT s st = true) {d d' : TDb} (hwf : d.Wf)
    {i : Int} {f : TField} (hf : f ≠ .id) {v : FVal} (hv : wtv f.accTy v = true)
    {g0 : Row TField} (hget0 : tGet st d i = .ok (some g0))
    (hclk : in64 (d.clock * 1000000000) = true)
    (h : tSetc s st d f i v = (d', .ok ())) :
    tGet st d' i = .ok (some (normSetT s d.uuid d.clock f v g0))
    ∧ (∀ j, j ≠ i → findRow .id d'.rows j = findRow .id d.rows j)
    ∧ d'.seq = d.seq ∧ d'.uuid = d.uuid ∧ d'.clock = d.clock := by
  have ha' := ha
  simp only [alignedT, Bool.and_eq_true] at ha'
  obtain ⟨⟨⟨⟨⟨⟨_, _⟩, _⟩, hsel⟩, _⟩, hsetters⟩, _⟩ := ha'
  obtain ⟨a, x, n, hfa, hg, hw, hu, hn⟩ := tSetc_ok h
  obtain ⟨a', hfa', _, hcol, hty, hguard⟩ := findAcc_aligned hsetters hf
  rw [hfa] at hfa'
  cases hfa'
  rw [hty] at hw
  rw [hcol] at hu
  rw [hguard, guard_present hf] at hg
  have hpres : f.present s = true := by simpa using hg
  rcases tUpdateWhereId_ok hu with ⟨_, _, hn0⟩ | ⟨old, hold, _, hd'⟩
  · omega
  subst hd'
  obtain ⟨hmem, hrid⟩ := findRow_some hold
  have hinv : ∀ g, readSrc old (expectedSrc tSpec (TField.present s) g) = .ok (g0 g) :=
    fun g => readRow_aligned_inv hsel TField.nodup_all (tGet_found hold hget0) (TField.mem_all g)
  -- the row after the SET, before the triggers
  have hraw0 : assign old [(f.col, x)] = setCol old f.col x := rfl
  have hA : ∀ g, readSrc (setCol old f.col x) (expectedSrc tSpec (TField.present s) g) = .ok (setMember f v g0 g) := by
    intro g
    unfold setMember
    by_cases hgf : g = f
    · subst hgf
      simp only [if_true, expectedSrc, hpres, readSrc, tSpec_colOf, tSpec_tyOf, setCol_same]
      exact acc_write_read g hv hw
    · simp only [hgf, if_false]
      rw [← hinv g]
      apply readSrc_congr
      rw [tSpec_colOf]
      exact setCol_other _ _ (fun hc => hgf (TField.col_inj hc))
  have htyped : originTyped (setCol old f.col x) = true := originTyped_setCol (hwf.typed old hmem) hv hw
  have hrid0 : rowId .id (setCol old f.col x) = i := by
    unfold rowId
    rw [setCol_other (c' := TCol.id) old x (fun hc => hf (TField.col_inj (f := f) (g := .id) hc.symm))]
    exact hrid
  have hstampEq : stampOf s d.clock (List.map (fun x => x.1) [(f.col, x)]) = (if stampsField s f then some d.clock else none) := rfl
  have hst : ∀ t, (if stampsField s f then some d.clock else none) = some t →
      in64 (t * 1000000000) = true ∧ TField.present s .last_edit_time = true := by
    intro t ht
    split at ht
    · rename_i hs
      cases ht
      exact ⟨hclk, (stampsField_present hs).1⟩
    · cases ht
  have hnew : rowId .id (afterUpdate s d (List.map (fun x => x.1) [(f.col, x)]) (assign old [(f.col, x)])) = i := by
    unfold afterUpdate
    rw [rowId_stampRow, rowId_applyFix, hraw0]; exact hrid0
  refine ⟨?_, ?_, rfl, rfl, rfl⟩
  · unfold tGet
    simp only
    rw [findRow_updRow_same .id d.rows i _ hold hnew]
    simp only
    unfold afterUpdate
    rw [hstampEq, hraw0]
    rw [readRow_aligned _ hsel TField.nodup_all TField.mem_all
      (read_afterUpdate hA htyped hrid0 _ hst)]
    rfl
  · intro j hj
    exact findRow_updRow_other .id d.rows i j _ hj (fun _ _ _ => hnew)

end Table
end EngineModel
