/-
Composite 2.x library: the whole-library invariant `LibInv` = the package invariants (track package `Inv` on
the real Track table; crate package `Inv` + `AllOwn` on the crate tables seen with the real Track ids) + the
cross-table clauses (ChangeLog → Track, Track → AlbumArt, PreparelistEntity → Track, Information), and its
preservation by EVERY call of the composite alphabet, whatever the call answers (failed calls included).
The package invariants are transported, not re-proved: every composite call is shown to act on the crate view
exactly as a call of the crate package (`crates_step`), and on the Track table exactly as a call of the track
package (`TStep`).
-/
import Proofs.Lib2Track
import Proofs.Lib2Crate
import Proofs.V2Run
import Proofs.V2WfConv
import Proofs.V2WfRaw

namespace EngineModel.Lib.V2
open EngineModel EngineModel.Db.Chain EngineModel.TracksV2
open EngineModel.Table (Schema2)

/-! ### the statement monad -/

theorem m2_bind_apply {α β} (m : M2 α) (f : α → M2 β) (L : Lib2) :
    (m >>= f) L = match m L with
      | (L', .ok a) => f a L'
      | (L', .throw e) => (L', .throw e)
      | (L', .ub u) => (L', .ub u) := rfl

theorem m2_bind_pure_fst {α β} (m : M2 α) (f : α → β) (L : Lib2) :
    ((m >>= fun a => (pure (f a) : M2 β)) L).1 = (m L).1 := by
  rw [m2_bind_apply]
  rcases m L with ⟨L', r⟩
  cases r <;> rfl

theorem m2_bind_pure_snd {α β} (m : M2 α) (f : α → β) (L : Lib2) :
    ((m >>= fun a => (pure (f a) : M2 β)) L).2 = (m L).2.bind fun a => .ok (f a) := by
  rw [m2_bind_apply]
  rcases m L with ⟨L', r⟩
  cases r <;> rfl

/-! ### `database::remove_track` in closed form -/

/-- the library after a `remove_track` that went through -/
def removed (s : Schema2) (t : Nat) (L : Lib2) : Lib2 :=
  { L with
    pe := (ids L.pl).foldl (EngineModel.Db.V2.rmTrackIn (t : Int)) L.pe
    log := if hasChangeLog s then (L.logNullify t).log else L.log
    prep := L.prep.filter fun r => r.track != some t
    tdb := { L.tdb with rows := L.tdb.rows.filter fun e => !(e.id == t) } }

theorem removeTrack_eq (s : Schema2) (t : Nat) (L : Lib2) :
    removeTrack s t L =
      if (L.tdb.rows.filter fun e => e.id == t).length = 0 then (L, .throw .invalid_argument)
      else (removed s t L, .ok ()) := by
  unfold removeTrack M2.transaction
  simp only [bind, M2.bind, M2.modify]
  cases hc : hasChangeLog s
  · simp only [Bool.false_eq_true, if_false, pure, M2.pure, M2.bind, M2.modify, M2.track, callRemove_eq]
    by_cases hz : (L.tdb.rows.filter fun e => e.id == t).length = 0
    · simp only [hz, if_true]
    · simp only [hz, if_false, removed, hc, Bool.false_eq_true]
  · simp only [if_true, M2.bind, M2.modify, M2.track, callRemove_eq, Lib2.logNullify]
    by_cases hz : (L.tdb.rows.filter fun e => e.id == t).length = 0
    · simp only [hz, if_true]
    · simp only [hz, if_false, removed, hc, if_true, Lib2.logNullify]

/-! ### the crate view -/

theorem crates_withCrates (L : Lib2) (d : CDb) (h1 : d.tracks = L.crates.tracks) (h2 : d.trSeq = L.crates.trSeq) :
    (L.withCrates d).crates = d := by
  cases d
  simp only [Lib2.crates, Lib2.withCrates] at *
  subst h1 h2
  rfl

/-- calls of the crate package the composite hands through: the crate / membership API … -/
def crateApi : COp → Bool
  | .createTrack | .removeTrack _ | .peAddBack _ _ _ _ | .peRemove _ _ | .peClear _ => false
  | _ => true

/-- … and, besides, an entry of another database being added to a list (`foreignEntry`) -/
def crateMem : COp → Bool
  | .createTrack | .removeTrack _ | .peRemove _ _ | .peClear _ => false
  | .peAddBack _ t u _ => decide (u ≠ 0) && decide (0 < t)
  | _ => true

theorem crateApi_apiOp {op : COp} (h : crateApi op = true) : EngineModel.Db.V2.apiOp op = true := by
  cases op <;> simp [crateApi] at h <;> rfl

theorem crateMem_memOp {op : COp} (h : crateMem op = true) : EngineModel.Db.V2.memOp op = true := by
  cases op <;> simp [crateMem] at h <;> simp [EngineModel.Db.V2.memOp, h]

theorem crateMem_of_api {op : COp} (h : crateApi op = true) : crateMem op = true := by
  cases op <;> simp [crateApi] at h <;> rfl

/-- a call of the crate package through the composite acts on the view as the package's own step -/
theorem crateCall_crates (L : Lib2) (op : COp) (h : crateMem op = true) :
    (crateCall op L).1.crates = (EngineModel.Db.V2.step L.crates op).1 := by
  unfold crateCall
  obtain ⟨h1, h2⟩ := cstep_tracks L.crates op (by intro e; subst e; simp [crateMem] at h)
    (by intro t e; subst e; simp [crateMem] at h)
  exact crates_withCrates L _ h1 h2

theorem crateCall_rest (L : Lib2) (op : COp) :
    (crateCall op L).1.tdb = L.tdb ∧ (crateCall op L).1.log = L.log ∧ (crateCall op L).1.logSeq = L.logSeq ∧
    (crateCall op L).1.art = L.art ∧ (crateCall op L).1.prep = L.prep ∧ (crateCall op L).1.ver = L.ver :=
  ⟨rfl, rfl, rfl, rfl, rfl, rfl⟩

theorem cast_filter (rows : List TRow) (t : Nat) :
    (rows.filter fun e => !(e.id == t)).map (fun e => (e.id : Int)) =
      (rows.map fun e => (e.id : Int)).filter (· != (t : Int)) := by
  rw [List.filter_map]
  congr 1
  apply List.filter_congr
  intro e _
  show (!(e.id == t)) = ((e.id : Int) != (t : Int))
  by_cases h : e.id = t
  · simp [h]
  · have h1 : (e.id == t) = false := by simpa using h
    have h2 : ((e.id : Int) != (t : Int)) = true := by simp; omega
    rw [h1, h2]; rfl

theorem contains_cast (rows : List TRow) (t : Nat) :
    (rows.map fun e => (e.id : Int)).contains (t : Int) = !((rows.filter fun e => e.id == t).length == 0) := by
  induction rows with
  | nil => rfl
  | cons a l ih =>
    simp only [List.map_cons, List.contains_cons, List.filter_cons]
    by_cases h : a.id = t
    · simp [h]
    · have h1 : (a.id == t) = false := by simpa using h
      have h2 : ((t : Int) == (a.id : Int)) = false := by simp; omega
      simp only [h1, h2, Bool.false_or, ih, Bool.false_eq_true, if_false]

/-- `database::remove_track` acts on the crate view as the crate package's `removeTrack` -/
theorem removeTrack_crates (s : Schema2) (t : Nat) (L : Lib2) :
    (removeTrack s t L).1.crates = (EngineModel.Db.V2.step L.crates (.removeTrack (t : Int))).1 := by
  rw [removeTrack_eq]
  simp only [EngineModel.Db.V2.step]
  have hc := contains_cast L.tdb.rows t
  by_cases hz : (L.tdb.rows.filter fun e => e.id == t).length = 0
  · have : L.crates.tracks.contains (t : Int) = false := by
      show (L.tdb.rows.map fun e => (e.id : Int)).contains (t : Int) = false
      rw [hc, hz]; rfl
    simp only [hz, if_true, this, Bool.false_eq_true, if_false]
  · have : L.crates.tracks.contains (t : Int) = true := by
      show (L.tdb.rows.map fun e => (e.id : Int)).contains (t : Int) = true
      rw [hc]; simp [hz]
    simp only [hz, if_false, this, if_true]
    simp only [removed, Lib2.crates]
    rw [cast_filter]

/-! ### the invariant -/

/-- everything but "every entry is the library's own": what is kept also when other software adds entries of
other databases -/
structure LibCore (s : Schema2) (L : Lib2) : Prop where
  /-- the track package's invariant on the real Track table (ids / paths keys, origin columns =
  (Information.uuid, id), derived columns, id range) -/
  tr : Inv L.tdb
  /-- the crate package's invariants (chains, forest, names; memberships of this database reference live
  playlists and live tracks — live in the REAL Track table) -/
  cr : ∃ S, EngineModel.Db.V2.Inv S L.crates
  /-- ChangeLog: no rows where it is a view; ids a key within the counter; rows reference live tracks or NULL -/
  logNone : hasChangeLog s = false → L.log = []
  logIds : (L.log.map (·.id)).Nodup ∧ ∀ r ∈ L.log, 1 ≤ r.id ∧ r.id ≤ L.logSeq
  logLive : ∀ r ∈ L.log, ∀ t, r.track = some t → t ∈ L.tdb.rows.map (·.id)
  /-- the default album art row exists and every Track.albumArtId references an AlbumArt row -/
  art : 1 ∈ L.art ∧ ∀ t ∈ L.tdb.rows, t.row.albumArtId.toNat ∈ L.art
  /-- every PreparelistEntity row (Engine's prepare list; the library only ever deletes from it) references a live track or NULL -/
  prep : ∀ r ∈ L.prep, ∀ t, r.track = some t → t ∈ L.tdb.rows.map (·.id)
  ver : L.ver = s.version

structure LibInv (s : Schema2) (L : Lib2) : Prop extends LibCore s L where
  /-- every entry carries the library's own database uuid -/
  own : EngineModel.Db.V2.AllOwn L.crates

theorem libInv_empty (s : Schema2) (uuid : Bytes) : LibInv s (Lib2.empty s uuid) where
  tr := inv_empty uuid
  cr := ⟨_, EngineModel.Db.V2.inv_empty⟩
  own := EngineModel.Db.V2.allOwn_empty
  logNone := fun _ => rfl
  logIds := ⟨List.nodup_nil, fun r hr => by cases hr⟩
  logLive := fun r hr => by cases hr
  art := ⟨by simp [Lib2.empty], fun t ht => by cases ht⟩
  prep := fun r hr => by cases hr
  ver := rfl

/-! ### ChangeLog bookkeeping -/

theorem logAppend_tdb (L : Lib2) (t n : Nat) :
    (L.logAppend t n).tdb = L.tdb ∧ (L.logAppend t n).pl = L.pl ∧ (L.logAppend t n).plSeq = L.plSeq ∧
    (L.logAppend t n).pe = L.pe ∧ (L.logAppend t n).peSeq = L.peSeq ∧ (L.logAppend t n).art = L.art ∧
    (L.logAppend t n).prep = L.prep ∧ (L.logAppend t n).ver = L.ver := by
  induction n generalizing L with
  | zero => exact ⟨rfl, rfl, rfl, rfl, rfl, rfl, rfl, rfl⟩
  | succ n ih =>
    unfold Lib2.logAppend
    obtain ⟨a, b, c, d, e, f, g, h⟩ := ih { L with log := L.log ++ [⟨L.logSeq + 1, some t⟩], logSeq := L.logSeq + 1 }
    exact ⟨a, b, c, d, e, f, g, h⟩

theorem logAppend_crates (L : Lib2) (t n : Nat) : (L.logAppend t n).crates = L.crates := by
  obtain ⟨a, b, c, d, e, _⟩ := logAppend_tdb L t n
  simp only [Lib2.crates, a, b, c, d, e]

/-- the ChangeLog after `n` firings: the old rows, then rows for `t` with the next ids -/
theorem logAppend_log (L : Lib2) (t n : Nat) :
    (L.logAppend t n).logSeq = L.logSeq + n ∧
    ∃ new, (L.logAppend t n).log = L.log ++ new ∧ (new.map (·.id)) = (List.range' (L.logSeq + 1) n) ∧
      ∀ r ∈ new, r.track = some t := by
  induction n generalizing L with
  | zero => exact ⟨rfl, [], by simp [Lib2.logAppend], rfl, fun r hr => by cases hr⟩
  | succ n ih =>
    unfold Lib2.logAppend
    obtain ⟨h1, new, h2, h3, h4⟩ := ih { L with log := L.log ++ [⟨L.logSeq + 1, some t⟩], logSeq := L.logSeq + 1 }
    refine ⟨by rw [h1]; simp only []; omega, ⟨L.logSeq + 1, some t⟩ :: new, ?_, ?_, ?_⟩
    · rw [h2]; simp
    · simp only [List.map_cons, h3, List.range'_succ]
    · intro r hr
      rcases List.mem_cons.mp hr with rfl | hr
      · rfl
      · exact h4 r hr

theorem logIds_append {L : Lib2} (h : (L.log.map (·.id)).Nodup ∧ ∀ r ∈ L.log, 1 ≤ r.id ∧ r.id ≤ L.logSeq) (t n : Nat) :
    ((L.logAppend t n).log.map (·.id)).Nodup ∧ ∀ r ∈ (L.logAppend t n).log, 1 ≤ r.id ∧ r.id ≤ (L.logAppend t n).logSeq := by
  obtain ⟨h1, new, h2, h3, _⟩ := logAppend_log L t n
  rw [h1, h2]
  constructor
  · rw [List.map_append, h3]
    refine List.nodup_append.mpr ⟨h.1, (List.nodup_range' 1 (by omega)), ?_⟩
    intro a ha b hb
    obtain ⟨r, hr, rfl⟩ := List.mem_map.mp ha
    have := (h.2 r hr).2
    have hb' := List.mem_range'_1.mp hb
    omega
  · intro r hr
    rcases List.mem_append.mp hr with hr | hr
    · have := h.2 r hr; omega
    · have : r.id ∈ new.map (·.id) := List.mem_map_of_mem hr
      rw [h3] at this
      have := List.mem_range'_1.mp this
      omega

/-! ### preservation, call class by call class -/

/-- a call of the crate package (crate creation / renaming / re-parenting / removal, add / remove / clear tracks;
an entry of another database being added) -/
theorem libCore_crateCall {s : Schema2} {L : Lib2} (h : LibCore s L) (op : COp) (ha : crateMem op = true) :
    LibCore s (crateCall op L).1 := by
  obtain ⟨S, hS⟩ := h.cr
  have hv := crateCall_crates L op ha
  obtain ⟨e1, e2, e3, e4, e5, e6⟩ := crateCall_rest L op
  exact {
    tr := by rw [e1]; exact h.tr
    cr := ⟨_, by rw [hv]; exact EngineModel.Db.V2.inv_step hS op (crateMem_memOp ha)⟩
    logNone := by rw [e2]; exact h.logNone
    logIds := by rw [e2, e3]; exact h.logIds
    logLive := by rw [e2, e1]; exact h.logLive
    art := by rw [e4, e1]; exact h.art
    prep := by rw [e5, e1]; exact h.prep
    ver := by rw [e6]; exact h.ver }

theorem libInv_crateCall {s : Schema2} {L : Lib2} (h : LibInv s L) (op : COp) (ha : crateApi op = true) :
    LibInv s (crateCall op L).1 := by
  obtain ⟨S, hS⟩ := h.cr
  refine { toLibCore := libCore_crateCall h.toLibCore op (crateMem_of_api ha), own := ?_ }
  rw [crateCall_crates L op (crateMem_of_api ha)]
  exact EngineModel.Db.V2.allOwn_step hS h.own op (crateApi_apiOp ha)

theorem withTdb_self (L : Lib2) : { L with tdb := L.tdb } = L := rfl

/-- how a track call that returned normally shows in the crate view: not at all, or as the crate package's
`createTrack` -/
def ViewStep (L : Lib2) (tdb' : TDb) : Prop :=
  ({ L with tdb := tdb' } : Lib2).crates = L.crates ∨
  ({ L with tdb := tdb' } : Lib2).crates = (EngineModel.Db.V2.step L.crates .createTrack).1

/-- the library after a track call that returned normally with `n` firings of the ChangeLog trigger -/
theorem libCore_track_ok {s : Schema2} {L : Lib2} (h : LibCore s L) (tdb' : TDb) (hI' : Inv tdb')
    (subject n : Nat) (hview : ViewStep L tdb')
    (hids : ∀ i ∈ L.tdb.rows.map (·.id), i ∈ tdb'.rows.map (·.id))
    (hsub : subject ∈ tdb'.rows.map (·.id))
    (hart : ∀ t ∈ tdb'.rows, t.row.albumArtId.toNat ∈ L.art) :
    LibCore s (if hasChangeLog s then ({ L with tdb := tdb' } : Lib2).logAppend subject n else { L with tdb := tdb' }) := by
  obtain ⟨S, hS⟩ := h.cr
  have base : LibCore s ({ L with tdb := tdb' } : Lib2) := {
    tr := hI'
    cr := by
      rcases hview with e | e
      · exact ⟨S, by rw [e]; exact hS⟩
      · exact ⟨_, by rw [e]; exact EngineModel.Db.V2.inv_step hS .createTrack rfl⟩
    logNone := h.logNone
    logIds := h.logIds
    logLive := fun r hr t ht => hids t (h.logLive r hr t ht)
    art := ⟨h.art.1, hart⟩
    prep := fun r hr t ht => hids t (h.prep r hr t ht)
    ver := h.ver }
  cases hc : hasChangeLog s
  · simpa using base
  · simp only [if_true]
    obtain ⟨a, b, c, d, e, f, g, hh⟩ := logAppend_tdb ({ L with tdb := tdb' } : Lib2) subject n
    obtain ⟨h1, new, h2, h3, h4⟩ := logAppend_log ({ L with tdb := tdb' } : Lib2) subject n
    exact {
      tr := by rw [a]; exact hI'
      cr := by rw [logAppend_crates]; exact base.cr
      logNone := fun hn => by rw [hc] at hn; cases hn
      logIds := logIds_append base.logIds subject n
      logLive := by
        intro r hr t ht
        rw [a]
        rw [h2] at hr
        rcases List.mem_append.mp hr with hr | hr
        · exact base.logLive r hr t ht
        · have := h4 r hr; rw [this] at ht; cases ht; exact hsub
      art := by rw [f, a]; exact base.art
      prep := by rw [g, a]; exact base.prep
      ver := by rw [hh]; exact base.ver }

theorem own_track_ok {s : Schema2} {L : Lib2} (h : LibInv s L) (tdb' : TDb) (subject n : Nat) (hview : ViewStep L tdb') :
    EngineModel.Db.V2.AllOwn
      (if hasChangeLog s then ({ L with tdb := tdb' } : Lib2).logAppend subject n else { L with tdb := tdb' }).crates := by
  obtain ⟨S, hS⟩ := h.cr
  have base : EngineModel.Db.V2.AllOwn ({ L with tdb := tdb' } : Lib2).crates := by
    rcases hview with e | e
    · rw [e]; exact h.own
    · rw [e]; exact EngineModel.Db.V2.allOwn_step hS h.own .createTrack rfl
  cases hasChangeLog s
  · simpa using base
  · simp only [if_true]; rw [logAppend_crates]; exact base

theorem created_crates (L : Lib2) (row : Row) :
    ({ L with tdb := { L.tdb with rows := L.tdb.rows ++ [L.tdb.created row], seq := L.tdb.seq + 1 } } : Lib2).crates
      = (EngineModel.Db.V2.step L.crates .createTrack).1 := by
  simp only [Lib2.crates, EngineModel.Db.V2.step, List.map_append, List.map_cons, List.map_nil, TDb.created]
  congr 1

theorem rep_crates (L : Lib2) (t : TRow) (row : Row) :
    ({ L with tdb := L.tdb.rep t row } : Lib2).crates = L.crates := by
  simp only [Lib2.crates]
  have := rep_ids L.tdb t row
  have e : (L.tdb.rep t row).rows.map (fun x => (x.id : Int)) = L.tdb.rows.map (fun x => (x.id : Int)) := by
    have h2 := congrArg (List.map (fun (n : Nat) => (n : Int))) this
    simpa [List.map_map, Function.comp_def] using h2
  rw [e]; rfl

theorem mem_rep_art {db : TDb} {t : TRow} {row : Row} {art : List Nat} (h : ∀ x ∈ db.rows, x.row.albumArtId.toNat ∈ art)
    (hr : row.albumArtId.toNat ∈ art) : ∀ x ∈ (db.rep t row).rows, x.row.albumArtId.toNat ∈ art := by
  intro x hx
  rcases mem_replace hx with h1 | h1
  · rw [h1.1]; exact hr
  · exact h x h1.1

/-- create_track / update / any setter: `P` is kept whenever it is kept by "nothing happened" and by the three
shapes of a successful call -/
theorem trackCall_shape {s : Schema2} {L : Lib2} (h : LibCore s L) (ops : FOps) (op : TOp)
    (hop : ∀ id, op ≠ .remove id) (P : Lib2 → Prop) (hP : P L)
    (hok : ∀ tdb' subject n, TracksV2.Inv tdb' → ViewStep L tdb' → (∀ i ∈ L.tdb.rows.map (·.id), i ∈ tdb'.rows.map (·.id)) →
      subject ∈ tdb'.rows.map (·.id) → (∀ t ∈ tdb'.rows, t.row.albumArtId.toNat ∈ L.art) →
      P (if hasChangeLog s then ({ L with tdb := tdb' } : Lib2).logAppend subject n else { L with tdb := tdb' })) :
    P (trackCall ops s op L).1 := by
  unfold trackCall
  simp only []
  have hI' := inv_step ops (toT s) op h.tr
  have hs := tstep ops (toT s) h.tr op
  revert hs hI'
  generalize (L.tdb.step ops (toT s) op).1 = tdb'
  generalize (L.tdb.step ops (toT s) op).2 = res
  intro hI' hs
  cases hs with
  | failed _ _ hf =>
    cases res with
    | ok v => exact absurd rfl (hf v)
    | throw e => exact hP
    | ub u => exact hP
  | created x row hw =>
    simp only []
    refine hok _ _ _ hI' (Or.inr (created_crates L row)) ?_ ?_ ?_
    · intro i hi; simp only [List.map_append]; exact List.mem_append_left _ hi
    · simp [TOp.subject, TDb.created]
    · intro t ht
      rcases List.mem_append.mp ht with ht | ht
      · exact h.art.2 t ht
      · simp only [List.mem_singleton] at ht; rw [ht]; simp only [TDb.created]; rw [writeStore_art ops _ x row hw]; exact h.art.1
  | updated id x t row hf hw =>
    simp only []
    refine hok _ _ _ hI' (Or.inl (rep_crates L t row)) ?_ ?_ ?_
    · intro i hi; rw [rep_ids]; exact hi
    · rw [rep_ids]; simp only [TOp.subject]
      exact (find_isSome_iff L.tdb id).mp (by rw [hf]; rfl)
    · exact mem_rep_art h.art.2 (by rw [writeStore_art ops _ x row hw]; exact h.art.1)
  | set id σ t row hf ha =>
    simp only []
    refine hok _ _ _ hI' (Or.inl (rep_crates L t row)) ?_ ?_ ?_
    · intro i hi; rw [rep_ids]; exact hi
    · rw [rep_ids]; simp only [TOp.subject]
      exact (find_isSome_iff L.tdb id).mp (by rw [hf]; rfl)
    · refine mem_rep_art h.art.2 ?_
      rw [applySetter_art ops σ _ _ ha]
      exact h.art.2 t (find_mem hf).1
  | removed id t hf => exact absurd rfl (hop id)

theorem libCore_trackCall {s : Schema2} {L : Lib2} (h : LibCore s L) (ops : FOps) (op : TOp)
    (hop : ∀ id, op ≠ .remove id) : LibCore s (trackCall ops s op L).1 :=
  trackCall_shape h ops op hop (LibCore s) h fun tdb' subject n hI' hv hids hsub hart =>
    libCore_track_ok h tdb' hI' subject n hv hids hsub hart

theorem libInv_trackCall {s : Schema2} {L : Lib2} (h : LibInv s L) (ops : FOps) (op : TOp)
    (hop : ∀ id, op ≠ .remove id) : LibInv s (trackCall ops s op L).1 :=
  trackCall_shape h.toLibCore ops op hop (LibInv s) h fun tdb' subject n hI' hv hids hsub hart =>
    { toLibCore := libCore_track_ok h.toLibCore tdb' hI' subject n hv hids hsub hart
      own := own_track_ok h tdb' subject n hv }

/-- database::remove_track -/
theorem libCore_removeTrack {s : Schema2} {L : Lib2} (h : LibCore s L) (t : Nat) : LibCore s (removeTrack s t L).1 := by
  obtain ⟨S, hS⟩ := h.cr
  have hv := removeTrack_crates s t L
  have hcr : ∃ S', EngineModel.Db.V2.Inv S' (removeTrack s t L).1.crates :=
    ⟨_, by rw [hv]; exact EngineModel.Db.V2.inv_step hS (.removeTrack (t : Int)) rfl⟩
  rw [removeTrack_eq] at hcr ⊢
  by_cases hz : (L.tdb.rows.filter fun e => e.id == t).length = 0
  · simp only [hz, if_true]; exact h
  · simp only [hz, if_false] at hcr ⊢
    have hsub : ∀ x ∈ (removed s t L).tdb.rows, x ∈ L.tdb.rows := fun x hx => (List.mem_filter.mp hx).1
    have hlog : ∀ r ∈ (removed s t L).log, (r.track = none ∨ ∃ r0 ∈ L.log, r0.id = r.id ∧ r0.track = r.track ∧ r.track ≠ some t) := by
      intro r hr
      cases hc : hasChangeLog s
      · simp only [removed, hc, Bool.false_eq_true, if_false] at hr
        rw [h.logNone hc] at hr; cases hr
      · simp only [removed, hc, if_true, Lib2.logNullify, List.mem_map] at hr
        obtain ⟨r0, hr0, rfl⟩ := hr
        by_cases he : r0.track = some t
        · left; simp [he]
        · right; refine ⟨r0, hr0, ?_⟩; simp [he]
    have hlogids : (removed s t L).log.map (·.id) = L.log.map (·.id) := by
      simp only [removed]
      cases hc : hasChangeLog s
      · simp
      · simp only [if_true, Lib2.logNullify, List.map_map]
        apply List.map_congr_left
        intro r _
        simp only [Function.comp]
        split <;> rfl
    exact {
      tr := inv_filter h.tr _
      cr := hcr
      logNone := fun hn => by simp only [removed, hn, Bool.false_eq_true, if_false]; exact h.logNone hn
      logIds := by
        refine ⟨by rw [hlogids]; exact h.logIds.1, ?_⟩
        intro r hr
        have : r.id ∈ (removed s t L).log.map (·.id) := List.mem_map_of_mem hr
        rw [hlogids] at this
        obtain ⟨r0, hr0, e⟩ := List.mem_map.mp this
        have := h.logIds.2 r0 hr0
        rw [← e]; exact this
      logLive := by
        intro r hr t' ht'
        rcases hlog r hr with hn | ⟨r0, hr0, _, e2, hne⟩
        · rw [hn] at ht'; cases ht'
        · have hl := h.logLive r0 hr0 t' (by rw [e2]; exact ht')
          obtain ⟨x, hx, hxid⟩ := List.mem_map.mp hl
          refine List.mem_map.mpr ⟨x, ?_, hxid⟩
          simp only [removed]
          refine List.mem_filter.mpr ⟨hx, ?_⟩
          have : x.id ≠ t := by rw [hxid]; intro e; apply hne; rw [ht', e]
          simpa using this
      art := ⟨h.art.1, fun x hx => h.art.2 x (hsub x hx)⟩
      prep := by
        intro r hr t' ht'
        simp only [removed] at hr
        obtain ⟨hr1, hr2⟩ := List.mem_filter.mp hr
        obtain ⟨x, hx, hxid⟩ := List.mem_map.mp (h.prep r hr1 t' ht')
        refine List.mem_map.mpr ⟨x, ?_, hxid⟩
        simp only [removed]
        refine List.mem_filter.mpr ⟨hx, ?_⟩
        have : x.id ≠ t := by
          rw [hxid]; intro e
          rw [ht', e] at hr2; simp at hr2
        simpa using this
      ver := h.ver }

theorem libInv_removeTrack {s : Schema2} {L : Lib2} (h : LibInv s L) (t : Nat) : LibInv s (removeTrack s t L).1 := by
  obtain ⟨S, hS⟩ := h.cr
  refine { toLibCore := libCore_removeTrack h.toLibCore t, own := ?_ }
  rw [removeTrack_crates s t L]
  exact EngineModel.Db.V2.allOwn_step hS h.own (.removeTrack (t : Int)) rfl

end EngineModel.Lib.V2
