/-
The invariant of the list-table model (playlist ids bounded by the
AUTOINCREMENT counter) is kept by every playlist / entity operation, hence
holds after every history (property C18).
-/
import Proofs.TableLists
namespace EngineModel
namespace Table
set_option linter.unusedSectionVars false

theorem idsBelow_mono {C : Type} [DecidableEq C] {idc : C} {t : Rows C} {a b : Int} (h : idsBelow idc t a) (hab : a ≤ b) :
    idsBelow idc t b := fun r hr => by have := h r hr; omega

theorem idsBelow_filter {C : Type} [DecidableEq C] {idc : C} {t : Rows C} {a : Int} (h : idsBelow idc t a)
    (p : Raw C → Bool) : idsBelow idc (t.filter p) a := fun r hr => h r (List.mem_filter.mp hr).1

theorem persistTriggers_ids {t t' : Rows PCol} {old : Option (Raw PCol)} {new : Raw PCol} {seq : Int}
    (hwf : idsBelow .id t seq) (h : persistTriggers t old new = .ok t') : idsBelow .id t' seq := by
  have hsp : ∀ ids v, idsBelow .id (setPersist t ids v) seq := fun ids v =>
    idsBelow_updWhere hwf _ _ (fun r => rowId_setCol (C := PCol) .id r (c := .isPersisted) _ (by decide))
  unfold persistTriggers at h
  by_cases hup : persistUp old new = true
  · simp only [hup, if_true] at h
    by_cases hac : (!acyclic t) = true
    · simp only [hac, if_true] at h; cases h
    · simp only [hac, Bool.false_eq_true, ↓reduceIte] at h
      cases ha : ancestors t (rowId .id new) with
      | none => rw [ha] at h; cases h
      | some a => rw [ha] at h; simp only [Res.ok.injEq] at h; subst h; exact hsp _ _
  · simp only [hup, Bool.false_eq_true, ↓reduceIte] at h
    by_cases hdown : persistDown old new = true
    · simp only [hdown, if_true] at h
      by_cases hac : (!acyclic t) = true
      · simp only [hac, if_true] at h; cases h
      · simp only [hac, Bool.false_eq_true, ↓reduceIte] at h
        cases hd : descendants t (rowId .id new) with
        | none => rw [hd] at h; cases h
        | some ds => rw [hd] at h; simp only [Res.ok.injEq] at h; subst h; exact hsp _ _
    · simp only [hdown, Bool.false_eq_true, ↓reduceIte, Res.ok.injEq] at h
      subst h; exact hwf

theorem pInsertRow_ids {t t' : Rows PCol} {seq : Int} (hwf : idsBelow .id t seq) {raw : Raw PCol}
    (hrid : rowId .id raw = seq + 1) (h : pInsertRow t raw = .ok (some t')) : idsBelow .id t' (seq + 1) := by
  unfold pInsertRow at h
  simp only at h
  split at h
  · cases h
  · split at h
    · cases h
    · split at h
      · cases h
      · have h3 : idsBelow .id
            (updWhere
              (updWhere t (fun r => r .nextListId == raw .nextListId && r .parentListId == raw .parentListId)
                (fun r => setCol r .nextListId (.int (-(1 + readInt (r .nextListId))))) ++ [raw])
              (fun r => r .nextListId == .int (-(1 + readInt (raw .nextListId))) && r .parentListId == raw .parentListId)
              (fun r => setCol r .nextListId (.int (rowId .id raw)))) (seq + 1) := by
          apply idsBelow_updWhere _ _ _ (fun r => rowId_setCol (C := PCol) .id r (c := .nextListId) _ (by decide))
          intro x hx
          simp only [List.mem_append, List.mem_singleton] at hx
          rcases hx with hx | hx
          · have := idsBelow_updWhere hwf _ _ (fun r => rowId_setCol (C := PCol) .id r (c := .nextListId) _ (by decide)) x hx
            omega
          · subst hx; omega
        cases hp : persistTriggers _ none raw with
        | ok t4 =>
          rw [hp] at h
          simp only [Res.ok.injEq, Option.some.injEq] at h
          subst h
          exact persistTriggers_ids h3 hp
        | throw e => rw [hp] at h; cases h
        | ub u => rw [hp] at h; cases h

theorem pUpdNext_ids {t t' : Rows PCol} {seq : Int} (hwf : idsBelow .id t seq) {p : Raw PCol → Bool} {v : Raw PCol → Val}
    (h : pUpdNext t p (fun x => setCol x .nextListId (v x)) = some t') : idsBelow .id t' seq := by
  unfold pUpdNext at h
  simp only at h
  split at h
  · cases h
    exact idsBelow_updWhere hwf _ _ (fun r => rowId_setCol (C := PCol) .id r (c := .nextListId) _ (by decide))
  · cases h

theorem pUpdRow_ids {t t' : Rows PCol} {seq : Int} (hwf : idsBelow .id t seq) {i : Int} {ps : List (PCol × Val)}
    (hidcol : PCol.id ∉ ps.map (·.1)) (h : pUpdRow t i ps = .ok (some t')) : idsBelow .id t' seq := by
  unfold pUpdRow at h
  cases hf : findRow .id t i with
  | none => rw [hf] at h; simp only [Res.ok.injEq, Option.some.injEq] at h; subst h; exact hwf
  | some old =>
    rw [hf] at h
    simp only at h
    split at h
    · cases h
    · have h1 : idsBelow .id (updRow .id t i (fun _ => assign old ps)) seq := by
        intro x hx
        unfold updRow at hx
        obtain ⟨o, ho, hxo⟩ := List.mem_map.mp hx
        rw [← hxo]
        split
        · rename_i hi
          show readInt (assign old ps .id) ≤ seq
          rw [assign_not_mem _ _ _ hidcol]
          have := hwf old (findRow_some hf).1
          exact this
        · exact hwf o ho
      cases hp : persistTriggers (updRow .id t i (fun _ => assign old ps)) (some old) (assign old ps) with
      | ok t2 =>
        rw [hp] at h
        simp only [Res.ok.injEq, Option.some.injEq] at h
        subst h
        exact persistTriggers_ids h1 hp
      | throw e => rw [hp] at h; cases h
      | ub u => rw [hp] at h; cases h

theorem pDeleteRow_ids {t t' : Rows PCol} {seq : Int} (hwf : idsBelow .id t seq) {i : Int}
    (h : pDeleteRow t i = some t') : idsBelow .id t' seq := by
  unfold pDeleteRow at h
  cases hf : findRow .id t i with
  | none => rw [hf] at h; cases h; exact hwf
  | some old =>
    rw [hf] at h
    simp only at h
    split at h
    · cases h
    · cases h
      unfold delWhere
      apply idsBelow_filter
      apply idsBelow_updWhere _ _ _ (fun r => rowId_setCol (C := PCol) .id r (c := .nextListId) _ (by decide))
      unfold delRow
      exact idsBelow_filter hwf _

theorem foldlM_pDelete_ids {seq : Int} (l : List Int) {t t' : Rows PCol} (hwf : idsBelow .id t seq)
    (h : l.foldlM (fun t j => pDeleteRow t j) t = some t') : idsBelow .id t' seq := by
  induction l generalizing t with
  | nil => simp only [List.foldlM_nil, Option.pure_def, Option.some.injEq] at h; subst h; exact hwf
  | cons j js ih =>
    simp only [List.foldlM_cons, Option.bind_eq_bind] at h
    cases hd : pDeleteRow t j with
    | none => rw [hd] at h; cases h
    | some t1 => rw [hd] at h; exact ih (pDeleteRow_ids hwf hd) h


theorem wf_pAdd {st : LStmts} (ha : alignedL st = true) {d : LDb} (hwf : d.Wf) (r : Row PField) :
    (pAdd st d r).1.Wf := by
  cases hres : pAdd st d r with
  | mk d' res =>
    cases res with
    | ok i =>
      replace ha := alignedL_core ha
      simp only [alignedLcore, Bool.and_eq_true] at ha
      obtain ⟨⟨⟨⟨⟨⟨⟨⟨⟨_, _⟩, hpins⟩, _⟩, _⟩, _⟩, _⟩, _⟩, _⟩, _⟩ := ha
      obtain ⟨ps, t, _, he, hi, hins, hd'⟩ := pAdd_ok hres
      subst hi hd'
      have hnid : PField.id ∉ PField.writable := fun h => (PField.mem_writable.mp h) rfl
      have hrid : rowId .id (assign (setCol nullRaw .id (.int (d.plSeq + 1))) ps) = d.plSeq + 1 := by
        show readInt (assign (setCol nullRaw .id (.int (d.plSeq + 1))) ps .id) = _
        rw [assign_not_mem _ _ _ (pid_not_written hnid hpins he), setCol_same]; rfl
      exact pInsertRow_ids hwf hrid hins
    | throw e =>
      have : d' = d := by
        unfold pAdd at hres
        split at hres
        · simp only [Prod.mk.injEq] at hres; exact hres.1.symm
        · split at hres
          · split at hres
            · simp only [Prod.mk.injEq] at hres; exact hres.1.symm
            · cases he : evalParams r st.pIns with
              | ok ps =>
                rw [he] at hres
                simp only at hres
                cases hins : pInsertRow d.pl (assign (setCol nullRaw .id (.int (d.plSeq + 1))) ps) with
                | ok o =>
                  rw [hins] at hres
                  cases o with
                  | some t => simp only [Prod.mk.injEq] at hres; exact absurd hres.2 (by simp)
                  | none => simp only [Prod.mk.injEq] at hres; exact hres.1.symm
                | throw e' => rw [hins] at hres; simp only [Prod.mk.injEq] at hres; exact hres.1.symm
                | ub u => rw [hins] at hres; simp only [Prod.mk.injEq] at hres; exact hres.1.symm
              | throw e' => rw [he] at hres; simp only [Prod.mk.injEq] at hres; exact hres.1.symm
              | ub u => rw [he] at hres; simp only [Prod.mk.injEq] at hres; exact hres.1.symm
          · simp only [Prod.mk.injEq] at hres; exact hres.1.symm
      subst this; exact hwf
    | ub u =>
      have : d' = d := by
        unfold pAdd at hres
        split at hres
        · simp only [Prod.mk.injEq] at hres; exact hres.1.symm
        · split at hres
          · split at hres
            · simp only [Prod.mk.injEq] at hres; exact hres.1.symm
            · cases he : evalParams r st.pIns with
              | ok ps =>
                rw [he] at hres
                simp only at hres
                cases hins : pInsertRow d.pl (assign (setCol nullRaw .id (.int (d.plSeq + 1))) ps) with
                | ok o =>
                  rw [hins] at hres
                  cases o with
                  | some t => simp only [Prod.mk.injEq] at hres; exact absurd hres.2 (by simp)
                  | none => simp only [Prod.mk.injEq] at hres; exact hres.1.symm
                | throw e' => rw [hins] at hres; simp only [Prod.mk.injEq] at hres; exact hres.1.symm
                | ub u => rw [hins] at hres; simp only [Prod.mk.injEq] at hres; exact hres.1.symm
              | throw e' => rw [he] at hres; simp only [Prod.mk.injEq] at hres; exact hres.1.symm
              | ub u => rw [he] at hres; simp only [Prod.mk.injEq] at hres; exact hres.1.symm
          · simp only [Prod.mk.injEq] at hres; exact hres.1.symm
      subst this; exact hwf

/-- Every result of `pUpdate` is the old state or the old state with a table whose ids are still bounded. -/
theorem wf_pUpdate {st : LStmts} (ha : alignedL st = true) {d : LDb} (hwf : d.Wf) (r : Row PField) :
    (pUpdate st d r).1.Wf := by
  replace ha := alignedL_core ha
  simp only [alignedLcore, Bool.and_eq_true] at ha
  obtain ⟨⟨⟨⟨⟨⟨⟨⟨⟨_, _⟩, _⟩, hfull⟩, hsimple⟩, _⟩, _⟩, _⟩, _⟩, _⟩ := ha
  have hnidw : PField.id ∉ PField.writable := fun h => (PField.mem_writable.mp h) rfl
  have hnids : PField.id ∉ [PField.title, PField.is_persisted, PField.last_edit_time, PField.is_explicitly_exported] := by decide
  unfold pUpdate
  split
  · exact hwf
  · split
    · rename_i i title parent next _ _ _ _
      split
      · exact hwf
      · cases hfo : findRow .id d.pl i with
        | none => exact hwf
        | some old =>
          simp only
          split
          · cases he : evalParams r st.pUpdSimple with
            | throw e => exact hwf
            | ub u => exact hwf
            | ok ps =>
              simp only
              cases hu : pUpdRow d.pl i ps with
              | ok o =>
                cases o with
                | none => exact hwf
                | some t => exact pUpdRow_ids hwf (pid_not_written hnids hsimple he) hu
              | throw e => exact hwf
              | ub u => exact hwf
          · cases h1 : pUpdNext d.pl (fun x => rowId .id x == i)
                (fun x => setCol x .nextListId (.int (-(1 + readInt (x .nextListId))))) with
            | none => exact hwf
            | some t1 =>
              simp only
              cases h2 : pUpdNext t1 (fun x => x .nextListId == .int i && x .parentListId == .int (readInt (old .parentListId)))
                  (fun x => setCol x .nextListId (.int (readInt (old .nextListId)))) with
              | none => exact hwf
              | some t2 =>
                simp only
                cases h3 : pUpdNext t2 (fun x => x .nextListId == .int next && x .parentListId == .int parent)
                    (fun x => setCol x .nextListId (.int i)) with
                | none => exact hwf
                | some t3 =>
                  simp only
                  cases he : evalParams r st.pUpdFull with
                  | throw e => exact hwf
                  | ub u => exact hwf
                  | ok ps =>
                    simp only
                    have w3 := pUpdNext_ids (pUpdNext_ids (pUpdNext_ids hwf h1) h2) h3
                    cases hu : pUpdRow t3 i ps with
                    | ok o =>
                      cases o with
                      | none => exact hwf
                      | some t => exact pUpdRow_ids w3 (pid_not_written hnidw hfull he) hu
                    | throw e => exact hwf
                    | ub u => exact hwf
    · exact hwf

theorem wf_pRemove {st : LStmts} {d : LDb} (hwf : d.Wf) (i : Int) : (pRemove st d i).1.Wf := by
  unfold pRemove
  split
  · split <;> exact hwf
  · split
    · exact hwf
    · cases hd : descendants d.pl i with
      | none => exact hwf
      | some ds =>
        simp only
        cases hf : List.foldlM (fun t j => pDeleteRow t j) d.pl (i :: ds) with
        | none => exact hwf
        | some pl => exact foldlM_pDelete_ids _ hwf hf

theorem wf_eAddBack {st : LStmts} {d : LDb} (hwf : d.Wf) (r : Row EField) (f : Bool) : (eAddBack st d r f).1.Wf := by
  unfold eAddBack
  split
  · exact hwf
  · split
    · split
      · split <;> exact hwf
      · cases evalParams r st.eIns with
        | throw e => exact hwf
        | ub u => exact hwf
        | ok ps =>
          simp only
          split
          · exact hwf
          · exact hwf
    · exact hwf

theorem wf_eRemove {st : LStmts} {d : LDb} (hwf : d.Wf) (l e : Int) : (eRemove st d l e).1.Wf := by
  unfold eRemove
  split
  · split <;> exact hwf
  · exact hwf

/-- **Histories (list tables).**  The invariant the playlist round trip assumes
holds after every sequence of playlist / entity operations. -/
theorem wf_lRun {st : LStmts} (ha : alignedL st = true) {d : LDb} (hwf : d.Wf) (ops : List LOp) :
    (lRun st d ops).Wf := by
  induction ops generalizing d with
  | nil => exact hwf
  | cons op ops ih =>
    apply ih
    cases op with
    | pAdd r => exact wf_pAdd ha hwf r
    | pUpdate r => exact wf_pUpdate ha hwf r
    | pRemove i => exact wf_pRemove hwf i
    | eAddBack r f => exact wf_eAddBack hwf r f
    | eRemove l e => exact wf_eRemove hwf l e
    | eClear l => exact hwf

theorem LDb.empty_wf : LDb.empty.Wf := fun _ h => by cases h

end Table
end EngineModel
