/-
Generic facts about statement programs (`Spec/Stmts.lean`) over the connection
model of `Spec/Txn.lean`: a fault position inside the call always raises; the
skeleton decides `atomicShape`; `txn body` / a flat body with at most one write
are atomic shapes; their fault-free run makes exactly the composition of the
writes durable.
-/
import EngineModel.Spec.Stmts
import Proofs.Txn

namespace EngineModel.Proofs.Stmts
open EngineModel.Spec.Txn EngineModel.Spec.Stmts EngineModel.Proofs.Txn

variable {α : Type}

/-! ### a fault position inside the call raises -/

theorem countFaultable_cons (k : CmdKind) (ks : List CmdKind) :
    countFaultable (k :: ks) = (if faultable k then 1 else 0) + countFaultable ks := by
  unfold countFaultable
  by_cases h : faultable k <;> simp [List.filter_cons, h]; omega

theorem raised_of_fault_aux (k : Nat) (auto : Bool) :
    ∀ (cs : List (Cmd α)) (seen scopes : Nat) (c : Conn α), seen ≤ k →
      k < seen + countFaultable (cs.map Cmd.kind) → (exec (some k) auto cs seen scopes c).raised = true := by
  intro cs
  induction cs with
  | nil => intro seen scopes c h1 h2; simp [countFaultable] at h2; omega
  | cons cmd rest ih =>
    intro seen scopes c h1 h2
    rcases exec_cons_cases (some k) auto cmd rest seen scopes c with ⟨c', hi, _, he⟩ | ⟨hr, _⟩
    · rw [he, Outcome.cons_raised]
      simp only [List.map_cons, countFaultable_cons] at h2
      apply ih
      · simp only [seenAfter]
        by_cases hf : faultable cmd.kind
        · simp only [hf, if_true]
          have : seen ≠ k := by
            intro hsk
            simp [injectedAt, hf, hsk] at hi
          omega
        · rw [if_neg hf]; exact h1
      · simp only [seenAfter]
        by_cases hf : faultable cmd.kind
        · rw [if_pos hf] at h2 ⊢; omega
        · rw [if_neg hf] at h2 ⊢; omega
    · exact hr

/-- **The failing statement is reported**: whenever the fault position lies inside the call (`k` below the
number of faultable statements it would issue), the call raises — whatever its statements are. -/
theorem raised_of_fault (cs : List (Cmd α)) (k : Nat) (auto : Bool) (db : α)
    (hk : k < countFaultable (cs.map Cmd.kind)) : (call (some k) auto cs db).raised = true :=
  raised_of_fault_aux k auto cs 0 0 (Conn.idle db) (Nat.zero_le _) (by omega)

/-! ### the skeleton decides the monitor -/

structure SkInv (s : ShapeSt) (t w : Bool) : Prop where
  txn : s.inTxn = t
  pend : w = true → s.pending = true ∧ s.inTxn = true
  noeff : s.inTxn = true → s.effected = false

theorem shapeRun_skel : ∀ (ks : List CmdKind) (s : ShapeSt) (t w : Bool), SkInv s t w →
    shapeRun s (skel t w ks) = shapeRun s ks := by
  intro ks
  induction ks with
  | nil => intro s t w _; rfl
  | cons k ks ih =>
    intro s t w hinv
    obtain ⟨ht, hp, he⟩ := hinv
    rcases s with ⟨it, pd, ef⟩
    simp only at ht hp he
    subst ht
    cases k with
    | read =>
      simp only [skel, shapeRun, shapeStep, faultable, Bool.and_false]
      exact ih _ _ _ ⟨rfl, hp, he⟩
    | write =>
      simp only [skel]
      by_cases hw : (it && w) = true
      · simp only [hw, if_true]
        have hit : it = true := by simp_all
        have hww : w = true := by simp_all
        obtain ⟨hpd, _⟩ := hp hww
        have hef := he hit
        subst hit; subst hpd; subst hef
        rw [ih _ _ _ ⟨rfl, hp, he⟩]
        simp [shapeRun, shapeStep, faultable]
      · rw [if_neg hw]
        simp only [shapeRun, shapeStep, faultable, Bool.and_true]
        cases ef
        · cases it
          · simp only [Bool.false_eq_true, if_false]
            exact ih _ _ _ ⟨rfl, by simp, by simp⟩
          · simp only [if_true]
            exact ih _ _ _ ⟨rfl, fun _ => ⟨rfl, rfl⟩, fun _ => rfl⟩
        · simp
    | begin =>
      simp only [skel, shapeRun, shapeStep, faultable, Bool.and_true]
      cases ef
      · cases it
        · simp only [Bool.false_eq_true, if_false]
          exact ih _ _ _ ⟨rfl, by simp, fun _ => rfl⟩
        · simp
      · simp
    | commit =>
      simp only [skel, shapeRun, shapeStep, faultable, Bool.and_true]
      cases ef
      · cases it
        · simp
        · simp only [if_true, Bool.false_eq_true, if_false]
          exact ih _ _ _ ⟨rfl, by simp, by simp⟩
      · simp
    | rollback =>
      simp only [skel, shapeRun, shapeStep, faultable, Bool.and_false]
      exact ih _ _ _ ⟨rfl, by simp, by simp⟩

/-- Dropping reads and collapsing the writes of a scope does not change the monitor's verdict. -/
theorem atomicShape_skeleton (ks : List CmdKind) : atomicShape (skeleton ks) = atomicShape ks := by
  unfold atomicShape skeleton
  rw [shapeRun_skel ks ShapeSt.init false false ⟨rfl, by simp, by simp [ShapeSt.init]⟩]

/-! ### skeletons of the two program forms -/

theorem read_beq_write : (CmdKind.read == CmdKind.write) = false := by decide

theorem skel_body (body : List (Cmd α)) (hb : ∀ c ∈ body, Cmd.rw c = true) (rest : List CmdKind) (w : Bool) :
    skel true w (body.map Cmd.kind ++ rest) =
      (if !w && hasWrite body then [CmdKind.write] else []) ++ skel true (w || hasWrite body) rest := by
  induction body generalizing w with
  | nil => simp [hasWrite]
  | cons c body ih =>
    have hc := hb c List.mem_cons_self
    have ih' := fun w => ih (fun x hx => hb x (List.mem_cons_of_mem _ hx)) w
    simp only [Cmd.rw, Bool.or_eq_true, beq_iff_eq] at hc
    rcases hc with hc | hc
    · simp only [List.map_cons, List.cons_append, hc, skel, hasWrite, List.any_cons]
      rw [ih' w]
      simp [hasWrite, read_beq_write]
    · simp only [List.map_cons, List.cons_append, hc, skel, hasWrite, List.any_cons, Bool.true_and]
      cases w
      · simp only [Bool.false_eq_true, if_false]
        rw [ih' true]
        simp
      · simp only [if_true]
        rw [ih' true]
        simp

theorem skeleton_txn (body : List (Cmd α)) (hb : ∀ c ∈ body, Cmd.rw c = true) :
    skeleton ((txn body).map Cmd.kind) = if hasWrite body then [.begin, .write, .commit] else [.begin, .commit] := by
  have e : (txn body).map Cmd.kind = CmdKind.begin :: (body.map Cmd.kind ++ [CmdKind.commit]) := by
    simp [txn, Cmd.kind]
  rw [e]
  unfold skeleton
  rw [skel, skel_body body hb]
  cases hasWrite body <;> simp [skel, Cmd.kind]

theorem skel_flat (body : List (Cmd α)) (hb : ∀ c ∈ body, Cmd.rw c = true) :
    skel false false (body.map Cmd.kind) = (body.filter (·.kind == .write)).map (fun _ => CmdKind.write) := by
  induction body with
  | nil => rfl
  | cons c body ih =>
    have hc := hb c List.mem_cons_self
    have ih' := ih (fun x hx => hb x (List.mem_cons_of_mem _ hx))
    simp only [Cmd.rw, Bool.or_eq_true, beq_iff_eq] at hc
    rcases hc with hc | hc
    · simp [List.map_cons, hc, skel, ih', List.filter_cons]
    · simp [List.map_cons, hc, skel, ih', List.filter_cons]

/-- `txn body` is an atomic shape. -/
theorem atomic_txn (body : List (Cmd α)) (hb : ∀ c ∈ body, Cmd.rw c = true) :
    atomicShape ((txn body).map Cmd.kind) = true := by
  rw [← atomicShape_skeleton, skeleton_txn body hb]
  cases hasWrite body <;> decide

/-- a flat body with at most one write is an atomic shape -/
theorem atomic_flat (body : List (Cmd α)) (hb : ∀ c ∈ body, Cmd.rw c = true)
    (h1 : (body.filter (·.kind == .write)).length ≤ 1) : atomicShape (body.map Cmd.kind) = true := by
  rw [← atomicShape_skeleton]
  unfold skeleton
  rw [skel_flat body hb]
  generalize body.filter (·.kind == .write) = l at h1
  match l, h1 with
  | [], _ => rfl
  | [_], _ => rfl
  | _ :: _ :: _, h1 => simp at h1

/-! ### fault-free runs -/

theorem injectedAt_none (k : CmdKind) (seen : Nat) : injectedAt none k seen = false := by
  simp [injectedAt]

/-- reads and writes inside an open transaction: the working copy evolves by the writes -/
theorem exec_body_txn (auto : Bool) (body : List (Cmd α)) (hb : ∀ c ∈ body, Cmd.rw c = true) :
    ∀ (rest : List (Cmd α)) (seen scopes : Nat) (cm w w' : α), applyAll (writesOf body) w = some w' →
      ∃ seen', (exec none auto (body ++ rest) seen scopes ⟨cm, some w⟩).conn
          = (exec none auto rest seen' scopes ⟨cm, some w'⟩).conn ∧
        (exec none auto (body ++ rest) seen scopes ⟨cm, some w⟩).raised
          = (exec none auto rest seen' scopes ⟨cm, some w'⟩).raised := by
  induction body with
  | nil => intro rest seen scopes cm w w' h; simp [applyAll, writesOf] at h; subst h; exact ⟨seen, rfl, rfl⟩
  | cons c body ih =>
    intro rest seen scopes cm w w' h
    have hc := hb c List.mem_cons_self
    have ih' := ih (fun x hx => hb x (List.mem_cons_of_mem _ hx))
    cases c with
    | read =>
      simp only [writesOf] at h
      obtain ⟨s', h1, h2⟩ := ih' rest (seenAfter .read seen) scopes cm w w' h
      refine ⟨s', ?_, ?_⟩
      · rw [List.cons_append, exec_cons_ok none auto .read _ seen scopes _ ⟨cm, some w⟩ (injectedAt_none _ _) rfl]
        simpa [scopesAfter, Cmd.kind] using h1
      · rw [List.cons_append, exec_cons_ok none auto .read _ seen scopes _ ⟨cm, some w⟩ (injectedAt_none _ _) rfl]
        simpa [scopesAfter, Cmd.kind] using h2
    | write f =>
      simp only [writesOf, applyAll] at h
      cases hf : f w with
      | none => simp [hf, Option.bind] at h
      | some w1 =>
        simp only [hf, Option.bind] at h
        obtain ⟨s', h1, h2⟩ := ih' rest (seenAfter .write seen) scopes cm w1 w' h
        have hs : stepStmt ⟨cm, some w⟩ (.write f) = some ⟨cm, some w1⟩ := by simp [stepStmt, hf]
        refine ⟨s', ?_, ?_⟩
        · rw [List.cons_append, exec_cons_ok none auto (.write f) _ seen scopes _ _ (injectedAt_none _ _) hs]
          simpa [scopesAfter, Cmd.kind] using h1
        · rw [List.cons_append, exec_cons_ok none auto (.write f) _ seen scopes _ _ (injectedAt_none _ _) hs]
          simpa [scopesAfter, Cmd.kind] using h2
    | begin => simp [Cmd.rw, Cmd.kind] at hc
    | commit => simp [Cmd.rw, Cmd.kind] at hc
    | rollback => simp [Cmd.rw, Cmd.kind] at hc

/-- the fault-free run of `txn body`: completes and makes the composition of the writes durable -/
theorem txn_run (auto : Bool) (body : List (Cmd α)) (hb : ∀ c ∈ body, Cmd.rw c = true) (db db' : α)
    (h : applyAll (writesOf body) db = some db') :
    (call none auto (txn body) db).raised = false ∧ (call none auto (txn body) db).conn = Conn.idle db' := by
  unfold call
  show (exec none auto (Cmd.begin :: (body ++ [Cmd.commit])) 0 0 (Conn.idle db)).raised = false ∧
    (exec none auto (Cmd.begin :: (body ++ [Cmd.commit])) 0 0 (Conn.idle db)).conn = Conn.idle db'
  rw [exec_cons_ok none auto Cmd.begin (body ++ [Cmd.commit]) 0 0 (Conn.idle db) ⟨db, some db⟩ (injectedAt_none _ _) rfl]
  obtain ⟨s', h1, h2⟩ := exec_body_txn auto body hb [.commit] (seenAfter .begin 0) (scopesAfter .begin 0) db db db' h
  simp only [Cmd.kind, Outcome.cons_raised, Outcome.cons_conn]
  rw [h1, h2]
  rw [exec_cons_ok none auto .commit [] s' _ ⟨db, some db'⟩ ⟨db', none⟩ (injectedAt_none _ _) rfl]
  simp [exec, Conn.idle]

/-- reads and writes in autocommit mode -/
theorem flat_run_aux (auto : Bool) (body : List (Cmd α)) (hb : ∀ c ∈ body, Cmd.rw c = true) :
    ∀ (seen : Nat) (db db' : α), applyAll (writesOf body) db = some db' →
      (exec none auto body seen 0 (Conn.idle db)).raised = false ∧
      (exec none auto body seen 0 (Conn.idle db)).conn = Conn.idle db' := by
  induction body with
  | nil => intro seen db db' h; simp [applyAll, writesOf] at h; subst h; simp [exec]
  | cons c body ih =>
    intro seen db db' h
    have hc := hb c List.mem_cons_self
    have ih' := ih (fun x hx => hb x (List.mem_cons_of_mem _ hx))
    cases c with
    | read =>
      simp only [writesOf] at h
      rw [exec_cons_ok none auto .read _ seen 0 _ (Conn.idle db) (injectedAt_none _ _) rfl]
      simpa [scopesAfter, Cmd.kind] using ih' _ db db' h
    | write f =>
      simp only [writesOf, applyAll] at h
      cases hf : f db with
      | none => simp [hf, Option.bind] at h
      | some d1 =>
        simp only [hf, Option.bind] at h
        have hs : stepStmt (Conn.idle db) (.write f) = some (Conn.idle d1) := by simp [stepStmt, Conn.idle, hf]
        rw [exec_cons_ok none auto (.write f) _ seen 0 _ _ (injectedAt_none _ _) hs]
        simpa [scopesAfter, Cmd.kind] using ih' _ d1 db' h
    | begin => simp [Cmd.rw, Cmd.kind] at hc
    | commit => simp [Cmd.rw, Cmd.kind] at hc
    | rollback => simp [Cmd.rw, Cmd.kind] at hc

theorem flat_run (auto : Bool) (body : List (Cmd α)) (hb : ∀ c ∈ body, Cmd.rw c = true) (db db' : α)
    (h : applyAll (writesOf body) db = some db') :
    (call none auto body db).raised = false ∧ (call none auto body db).conn = Conn.idle db' :=
  flat_run_aux auto body hb 0 db db' h

/-! ### all or nothing -/

/-- A call whose statements form an atomic shape, with a fault injected at any position inside it: it raises,
and the connection is at rest on exactly the database it started from. -/
theorem all_or_nothing (cs : List (Cmd α)) (h : atomicShape (cs.map Cmd.kind) = true) (k : Nat) (auto : Bool) (db : α)
    (hk : k < countFaultable (cs.map Cmd.kind)) :
    (call (some k) auto cs db).raised = true ∧ (call (some k) auto cs db).conn = Conn.idle db := by
  have hr := raised_of_fault cs k auto db hk
  unfold atomicShape at h
  split at h
  · rename_i s' hs
    exact ⟨hr, (sound_aux (some k) auto db cs ShapeSt.init s' 0 0 (Conn.idle db) (TInv.init db) hs).1 hr⟩
  · cases h

/-! ### composing write lists -/

theorem applyAll_tot_foldl {β : Type} (xs : List β) (g : β → α → α) (a : α) :
    applyAll (xs.map fun x => fun d => some (g x d)) a = some (xs.foldl (fun acc x => g x acc) a) := by
  induction xs generalizing a with
  | nil => rfl
  | cons x xs ih => simp [applyAll, Option.bind, ih]

theorem writesOf_append (p q : List (Cmd α)) : writesOf (p ++ q) = writesOf p ++ writesOf q := by
  induction p with
  | nil => rfl
  | cons c p ih => cases c <;> simp [writesOf, ih]

end EngineModel.Proofs.Stmts
