/-
The statement-level Track table of schema 2.x (EngineModel/TracksV2/Table.lean):
list lemmas, what a single statement does on a table that satisfies the
structural invariant, and the invariant itself.
-/
import EngineModel.TracksV2.Table

namespace EngineModel
namespace TracksV2

open Prim

/-! ### the invariant -/

/-- structure: ids are a key, positive, within the AUTOINCREMENT counter; paths are a
key; the origin columns name this database and the row itself -/
structure SInv (db : TDb) : Prop where
  ids : (db.rows.map (·.id)).Nodup
  paths : ∀ a ∈ db.rows, ∀ b ∈ db.rows, a.row.path = b.row.path → a.id = b.id
  origin : ∀ t ∈ db.rows, t.originUuid = db.uuid ∧ t.originId = t.id
  pos : ∀ t ∈ db.rows, 1 ≤ t.id ∧ t.id ≤ db.seq

/-- the derived columns, as the code computes them -/
def RowDerived (r : Row) : Prop :=
  r.filename = getFilename r.path ∧ r.fileType = (getFileExtension r.filename).getD []

def DInv (db : TDb) : Prop := ∀ t ∈ db.rows, RowDerived t.row

/-- some other row has the path (`CONSTRAINT C_path UNIQUE (path)`) -/
def pathTaken' (db : TDb) (id : Nat) (p : Bytes) : Bool := db.rows.any fun e => e.id != id && e.row.path == p

/-- the table with the row `t` given the columns `r` -/
def TDb.rep (db : TDb) (t : TRow) (r : Row) : TDb := { db with rows := replaceRow db.rows { t with row := r } }

/-! ### lists -/

theorem any_congr' {α} {l : List α} {p q : α → Bool} (h : ∀ a ∈ l, p a = q a) : l.any p = l.any q := by
  induction l with
  | nil => rfl
  | cons x t ih =>
    simp only [List.any_cons]
    rw [h x (List.mem_cons_self ..), ih (fun a ha => h a (List.mem_cons_of_mem _ ha))]

theorem find_mem {db : TDb} {id : Nat} {t : TRow} (h : db.find id = some t) : t ∈ db.rows ∧ t.id = id := by
  unfold TDb.find at h
  exact ⟨List.mem_of_find?_eq_some h, by simpa using List.find?_some h⟩

theorem find_none {db : TDb} {id : Nat} (h : db.find id = none) : ∀ e ∈ db.rows, e.id ≠ id := by
  unfold TDb.find at h
  intro e he
  have := List.find?_eq_none.mp h e he
  simpa using this

theorem find_of_mem {db : TDb} (hn : (db.rows.map (·.id)).Nodup) {t : TRow} (ht : t ∈ db.rows) :
    db.find t.id = some t := by
  unfold TDb.find
  generalize db.rows = rows at hn ht
  induction rows with
  | nil => cases ht
  | cons x l ih =>
    simp only [List.map_cons, List.nodup_cons, List.mem_map, not_exists, not_and] at hn
    simp only [List.mem_cons] at ht
    simp only [List.find?_cons]
    rcases ht with rfl | ht
    · simp
    · have : x.id ≠ t.id := fun h => hn.1 t ht h.symm
      have hb : (x.id == t.id) = false := by simpa using this
      simp only [hb]
      exact ih hn.2 ht

theorem map_id_replace (rows : List TRow) (n : TRow) : (replaceRow rows n).map (·.id) = rows.map (·.id) := by
  unfold replaceRow
  rw [List.map_map]
  apply List.map_congr_left
  intro e _
  simp only [Function.comp]
  by_cases h : e.id = n.id
  · simp [h]
  · have : (e.id == n.id) = false := by simpa using h
    simp [this]

theorem mem_replace {rows : List TRow} {n x : TRow} (h : x ∈ replaceRow rows n) :
    (x = n ∧ ∃ e ∈ rows, e.id = n.id) ∨ (x ∈ rows ∧ x.id ≠ n.id) := by
  unfold replaceRow at h
  obtain ⟨e, he, rfl⟩ := List.mem_map.mp h
  by_cases hid : e.id = n.id
  · left; simp [hid]; exact ⟨e, he, hid⟩
  · right
    have : (e.id == n.id) = false := by simpa using hid
    simp [this, he, hid]

theorem mem_replace_of_mem {rows : List TRow} {n e : TRow} (he : e ∈ rows) :
    (if e.id = n.id then n else e) ∈ replaceRow rows n := by
  unfold replaceRow
  refine List.mem_map.mpr ⟨e, he, ?_⟩
  by_cases h : e.id = n.id <;> simp [h]

theorem find_replace (rows : List TRow) (n : TRow) (id : Nat) :
    (replaceRow rows n).find? (·.id == id) =
      if id = n.id then (rows.find? (·.id == id)).map (fun _ => n) else rows.find? (·.id == id) := by
  unfold replaceRow
  induction rows with
  | nil => simp
  | cons e t ih =>
    simp only [List.map_cons, List.find?_cons]
    by_cases h1 : e.id = n.id
    · by_cases h2 : id = n.id
      · subst h2; simp [h1]
      · have h3 : (n.id == id) = false := by simpa using fun h => h2 h.symm
        have h4 : (e.id == id) = false := by rw [h1]; exact h3
        simp only [h1, beq_self_eq_true, if_true, h3, h4, h2, if_false]
        simpa [h2] using ih
    · have hb : (e.id == n.id) = false := by simpa using h1
      simp only [hb, Bool.false_eq_true, if_false]
      by_cases h2 : id = n.id
      · subst h2
        simp only [hb, if_true]
        simpa using ih
      · simp only [h2, if_false]
        cases h5 : (e.id == id)
        · simpa [h2] using ih
        · rfl

theorem find_rep (db : TDb) (t : TRow) (r : Row) (id : Nat) :
    (db.rep t r).find id = if id = t.id then (db.find id).map (fun _ => { t with row := r }) else db.find id := by
  unfold TDb.rep TDb.find
  exact find_replace db.rows { t with row := r } id

theorem replace_replace (rows : List TRow) (n n' : TRow) (h : n.id = n'.id) :
    replaceRow (replaceRow rows n) n' = replaceRow rows n' := by
  unfold replaceRow
  rw [List.map_map]
  apply List.map_congr_left
  intro e _
  simp only [Function.comp]
  by_cases he : e.id = n.id
  · simp [he, h]
  · have h1 : (e.id == n.id) = false := by simpa using he
    simp [h1]

theorem rep_rep (db : TDb) (t : TRow) (r r' : Row) : (db.rep t r).rep { t with row := r } r' = db.rep t r' := by
  unfold TDb.rep
  show ({ db with rows := replaceRow (replaceRow db.rows { t with row := r }) { t with row := r' } } : TDb) = _
  rw [replace_replace db.rows { t with row := r } { t with row := r' } rfl]

theorem replace_self {rows : List TRow} (hn : (rows.map (·.id)).Nodup) {t : TRow} (ht : t ∈ rows) :
    replaceRow rows t = rows := by
  unfold replaceRow
  conv => rhs; rw [← List.map_id rows]
  apply List.map_congr_left
  intro e he
  by_cases h : e.id = t.id
  · have : e = t := by
      have h1 := find_of_mem (db := ⟨[], 0, rows⟩) hn he
      have h2 := find_of_mem (db := ⟨[], 0, rows⟩) hn ht
      rw [h] at h1
      rw [h1] at h2
      exact Option.some.inj h2
    simp [this]
  · have : (e.id == t.id) = false := by simpa using h
    simp [this]

theorem conflicts_replace (rows : List TRow) (m n : TRow) (h : m.id = n.id) :
    conflicts (replaceRow rows m) n = conflicts rows n := by
  unfold conflicts replaceRow
  rw [List.any_map]
  apply any_congr'
  intro e _
  simp only [Function.comp]
  by_cases he : e.id = m.id
  · have h1 : (e.id != n.id) = false := by rw [he, h]; simp
    simp [he, h, h1]
  · have h1 : (e.id == m.id) = false := by simpa using he
    simp [h1]

/-! ### one statement on a table that satisfies `SInv` -/

/-- for a row image that keeps its own origin columns the constraint check is the path check -/
theorem conflicts_row {db : TDb} (hs : SInv db) {t : TRow} (ht : t ∈ db.rows) (r : Row) :
    conflicts db.rows { t with row := r } = pathTaken' db t.id r.path := by
  unfold conflicts pathTaken'
  apply any_congr'
  intro e he
  by_cases hid : e.id = t.id
  · simp [hid]
  · have h1 : (e.id != t.id) = true := by simpa using hid
    have ho : (e.originUuid == t.originUuid && e.originId == t.originId) = false := by
      have := (hs.origin e he).2
      have := (hs.origin t ht).2
      have : ¬ e.originId = t.originId := by omega
      simp [this]
    simp only [h1, ho, Bool.or_false, Bool.true_and]

theorem pathTaken_same {db : TDb} (hs : SInv db) {t : TRow} (ht : t ∈ db.rows) :
    pathTaken' db t.id t.row.path = false := by
  unfold pathTaken'
  rw [List.any_eq_false]
  intro e he
  by_cases hp : e.row.path = t.row.path
  · have := hs.paths e he t ht hp
    simp [this]
  · simp [hp]

theorem fixOrigin_noop {db : TDb} (hs : SInv db) {t : TRow} (ht : t ∈ db.rows) (r : Row)
    (hc : pathTaken' db t.id r.path = false) :
    fixOrigin db.uuid (replaceRow db.rows { t with row := r }) { t with row := r } =
      .ok (replaceRow db.rows { t with row := r }) := by
  unfold fixOrigin
  split
  · obtain ⟨h1, h2⟩ := hs.origin t ht
    have e : ({ { t with row := r } with originId := t.id, originUuid := db.uuid } : TRow) = { t with row := r } := by
      cases t; simp_all
    simp only [e]
    rw [conflicts_replace _ _ _ rfl, conflicts_row hs ht, hc]
    simp only [Bool.false_eq_true, if_false]
    rw [replace_replace _ _ _ rfl]
  · rfl

/-- `UPDATE Track SET <columns of Row> WHERE id = ?` on a row that exists -/
theorem updateStmt_row {db : TDb} (hs : SInv db) {id : Nat} {t : TRow} (hf : db.find id = some t) (f : Row → Row) :
    db.updateStmt id (fun x => { x with row := f x.row }) =
      if pathTaken' db id (f t.row).path then .throw .sqlite_error else .ok (db.rep t (f t.row), 1) := by
  obtain ⟨ht, hid⟩ := find_mem hf
  subst hid
  unfold TDb.updateStmt
  simp only [hf, bne_self_eq_false, Bool.false_eq_true, if_false]
  rw [conflicts_row hs ht]
  cases hc : pathTaken' db t.id (f t.row).path with
  | true => simp
  | false =>
    simp only [Bool.false_eq_true, if_false]
    rw [fixOrigin_noop hs ht _ hc]
    rfl

theorem updateStmt_none {db : TDb} {id : Nat} (hf : db.find id = none) (f : TRow → TRow) :
    db.updateStmt id f = .ok (db, 0) := by
  unfold TDb.updateStmt
  simp [hf]

/-- replacing the columns of a row keeps the structure, provided the path stays a key -/
theorem SInv_rep {db : TDb} (hs : SInv db) {t : TRow} (ht : t ∈ db.rows) (r : Row)
    (hc : pathTaken' db t.id r.path = false) : SInv (db.rep t r) := by
  have hfree : ∀ e ∈ db.rows, e.id ≠ t.id → e.row.path ≠ r.path := by
    intro e he hid hp
    unfold pathTaken' at hc
    rw [List.any_eq_false] at hc
    have := hc e he
    simp [hid, hp] at this
  refine ⟨?_, ?_, ?_, ?_⟩
  · show ((replaceRow db.rows { t with row := r }).map (·.id)).Nodup
    rw [map_id_replace]; exact hs.ids
  · intro a ha b hb hp
    rcases mem_replace ha with ⟨rfl, _⟩ | ⟨ha', hai⟩ <;> rcases mem_replace hb with ⟨rfl, _⟩ | ⟨hb', hbi⟩
    · rfl
    · exact absurd hp.symm (hfree b hb' hbi)
    · exact absurd hp (hfree a ha' hai)
    · exact hs.paths a ha' b hb' hp
  · intro x hx
    rcases mem_replace hx with ⟨rfl, _⟩ | ⟨hx', _⟩
    · exact hs.origin t ht
    · exact hs.origin x hx'
  · intro x hx
    rcases mem_replace hx with ⟨rfl, _⟩ | ⟨hx', _⟩
    · exact hs.pos t ht
    · exact hs.pos x hx'

theorem DInv_rep {db : TDb} (hd : DInv db) (t : TRow) (r : Row) (hr : RowDerived r) : DInv (db.rep t r) := by
  intro x hx
  rcases mem_replace hx with ⟨rfl, _⟩ | ⟨hx', _⟩
  · exact hr
  · exact hd x hx'

/-! ### the monad -/

theorem M.bind_apply {α β} (m : M α) (f : α → M β) (db : TDb) :
    (m >>= f) db = match m db with
      | (db', .ok a) => f a db'
      | (db', .throw e) => (db', .throw e)
      | (db', .ub u) => (db', .ub u) := rfl

theorem M.pure_apply {α} (a : α) (db : TDb) : (pure a : M α) db = (db, .ok a) := rfl

theorem M.lift_bind {α β} (r : Res α) (f : α → M β) (db : TDb) :
    (M.lift r >>= f) db = match r with
      | .ok a => f a db
      | .throw e => (db, .throw e)
      | .ub u => (db, .ub u) := by
  rw [M.bind_apply]; unfold M.lift; cases r <;> rfl

theorem selectRow_some {db : TDb} {id : Nat} {t : TRow} (hf : db.find id = some t) :
    selectRow id db = (db, .ok t.row) := by
  unfold selectRow; simp [hf]

theorem selectRow_none {db : TDb} {id : Nat} (hf : db.find id = none) :
    selectRow id db = (db, .throw .runtime_error) := by
  unfold selectRow; simp [hf]

/-- `set_column` on a row that exists -/
theorem setCol_some {db : TDb} (hs : SInv db) {id : Nat} {t : TRow} (hf : db.find id = some t) (f : Row → Row) :
    setCol id f db =
      if pathTaken' db id (f t.row).path then (db, .throw .sqlite_error) else (db.rep t (f t.row), .ok ()) := by
  unfold setCol
  rw [M.bind_apply]
  unfold M.stmt
  simp only [updateStmt_row hs hf f]
  cases pathTaken' db id (f t.row).path with
  | true => rfl
  | false => rfl

/-- … that keeps the path: always succeeds -/
theorem setCol_keep {db : TDb} (hs : SInv db) {id : Nat} {t : TRow} (hf : db.find id = some t) (f : Row → Row)
    (hp : (f t.row).path = t.row.path) : setCol id f db = (db.rep t (f t.row), .ok ()) := by
  obtain ⟨ht, hid⟩ := find_mem hf
  rw [setCol_some hs hf, hp, ← hid, pathTaken_same hs ht]
  rfl

theorem setCol_none {db : TDb} {id : Nat} (hf : db.find id = none) (f : Row → Row) :
    setCol id f db = (db, .throw .runtime_error) := by
  unfold setCol
  rw [M.bind_apply]
  unfold M.stmt
  simp only [updateStmt_none hf]
  rfl

end TracksV2
end EngineModel
