/-
`Api/CratesV1Stmts.lean`: the statement programs are what `Api.CratesV1.step`
computes, and each is an atomic shape.
-/
import EngineModel.Api.CratesV1Stmts
import Proofs.Stmts

namespace EngineModel.Proofs.CratesV1Stmts
open EngineModel EngineModel.Api.CratesV1 EngineModel.Pure.Detect EngineModel.Spec.Txn EngineModel.Spec.Stmts
open EngineModel.Proofs.Stmts

/-- what a traced run promises: the program replays to the state reached and consists of reads and writes -/
def Replays (db0 : Db) (r : Db × Prog) : Prop :=
  applyAll (writesOf r.2) db0 = some r.1 ∧ ∀ c ∈ r.2, Cmd.rw c = true

theorem removeTrack_eq (s : Schema) (db : Db) (t : Id) :
    removeTrack s db t = (deleteTrackRow s (deleteCtl s db (fun r => r.2 == t)) t, .ok .unit) := by
  unfold removeTrack deleteTrackRow
  split <;> rfl

/-- traced and untraced `update_path` agree, and the trace replays -/
def Agree (db0 : Db) (r : Res Db) (t : Res (Db × Prog)) : Prop :=
  match r, t with
  | .ok d, .ok p => p.1 = d ∧ Replays db0 p
  | .throw e, .throw e' => e = e'
  | .ub u, .ub u' => u = u'
  | _, _ => False

theorem applyAll_append' {α : Type} (p q : List (α → Option α)) (a b : α) (h : applyAll p a = some b) :
    applyAll (p ++ q) a = applyAll q b := by
  rw [EngineModel.Proofs.Txn.applyAll_append, h]; rfl

theorem foldl_agree (s : Schema) (fuel : Nat) (path : Name)
    (ih : ∀ (db : Db) (c : Id), Agree db (updatePath s fuel db c path) (updatePathS s fuel db c path)) :
    ∀ (ks : List Id) (d0 acc : Db) (p : Prog), Replays d0 (acc, p) →
      Agree d0 (ks.foldlM (fun a k => updatePath s fuel a k path) acc)
        (ks.foldlM (fun (a : Db × Prog) k => do
          let r ← updatePathS s fuel a.1 k path
          pure (r.1, a.2 ++ r.2)) (acc, p)) := by
  intro ks
  induction ks with
  | nil => intro d0 acc p h; exact ⟨rfl, h⟩
  | cons k ks ihk =>
    intro d0 acc p h
    simp only [List.foldlM_cons]
    have hk := ih acc k
    cases h1 : updatePath s fuel acc k path with
    | ok d1 =>
      cases h2 : updatePathS s fuel acc k path with
      | ok r =>
        rw [h1, h2] at hk
        obtain ⟨hk1, hk2, hk3⟩ := hk
        simp only [Res.bind_ok, Res.pure_eq]
        rw [← hk1]
        apply ihk
        refine ⟨?_, ?_⟩
        · simp only [writesOf_append]
          rw [applyAll_append' _ _ _ _ h.1]; exact hk2
        · intro c hc
          rcases List.mem_append.1 hc with hc | hc
          · exact h.2 c hc
          · exact hk3 c hc
      | throw e => rw [h1, h2] at hk; exact hk.elim
      | ub u => rw [h1, h2] at hk; exact hk.elim
    | throw e =>
      cases h2 : updatePathS s fuel acc k path with
      | ok r => rw [h1, h2] at hk; exact hk.elim
      | throw e' => rw [h1, h2] at hk; simp only [Res.bind_throw]; exact hk
      | ub u => rw [h1, h2] at hk; exact hk.elim
    | ub u =>
      cases h2 : updatePathS s fuel acc k path with
      | ok r => rw [h1, h2] at hk; exact hk.elim
      | throw e' => rw [h1, h2] at hk; exact hk.elim
      | ub u' => rw [h1, h2] at hk; simp only [Res.bind_ub]; exact hk

theorem updatePath_agree (s : Schema) : ∀ (fuel : Nat) (db : Db) (c : Id) (pp : Name),
    Agree db (updatePath s fuel db c pp) (updatePathS s fuel db c pp) := by
  intro fuel
  induction fuel with
  | zero => intro db c pp; simp [updatePath, updatePathS, Agree]
  | succ fuel ih =>
    intro db c pp
    unfold updatePath updatePathS
    cases hn : crateName db c with
    | ok name =>
      simp only [Res.bind_ok]
      have hf := foldl_agree s fuel (pp ++ name ++ [semicolon]) (fun d k => ih d k _)
        (crateChildren { db with crate := updateCratePath s db.crate c (pp ++ name ++ [semicolon]) } c)
        { db with crate := updateCratePath s db.crate c (pp ++ name ++ [semicolon]) }
        { db with crate := updateCratePath s db.crate c (pp ++ name ++ [semicolon]) } []
        ⟨rfl, by simp⟩
      revert hf
      generalize (crateChildren { db with crate := updateCratePath s db.crate c (pp ++ name ++ [semicolon]) } c).foldlM
        (fun a k => updatePath s fuel a k (pp ++ name ++ [semicolon])) _ = r1
      generalize (crateChildren { db with crate := updateCratePath s db.crate c (pp ++ name ++ [semicolon]) } c).foldlM
        (fun (a : Db × Prog) k => do
          let r ← updatePathS s fuel a.1 k (pp ++ name ++ [semicolon])
          pure (r.1, a.2 ++ r.2)) _ = r2
      intro hf
      cases r1 <;> cases r2 <;> simp only [Agree] at hf ⊢ <;> try exact hf.elim
      · rename_i d r
        obtain ⟨h1, h2, h3⟩ := hf
        simp only [Res.bind_ok, Res.pure_eq]
        refine ⟨h1, ?_, ?_⟩
        · simpa [writesOf, applyAll, wCratePath, tot, Option.bind] using h2
        · intro x hx
          simp only [List.mem_cons] at hx
          rcases hx with rfl | rfl | rfl | hx
          · rfl
          · rfl
          · rfl
          · exact h3 x hx
      · exact hf
      · exact hf
    | throw e => simp [Agree]
    | ub u => simp [Agree]

theorem progOf_rw (db0 : Db) (r : Res Db) (t : Res (Db × Prog)) (h : Agree db0 r t) : ∀ x ∈ progOf t, Cmd.rw x = true := by
  cases t with
  | ok p =>
    cases r <;> simp only [Agree] at h <;> try exact h.elim
    exact h.2.2
  | throw e => simp [progOf]
  | ub u => simp [progOf]

theorem progOf_replay (db0 d : Db) (t : Res (Db × Prog)) (h : Agree db0 (.ok d) t) :
    applyAll (writesOf (progOf t)) db0 = some d := by
  cases t with
  | ok p => simp only [Agree] at h; rw [← h.1]; exact h.2.1
  | throw e => exact h.elim
  | ub u => exact h.elim

theorem rw_read : Cmd.rw (Cmd.read : Cmd Db) = true := rfl
theorem rw_write (f : Db → Option Db) : Cmd.rw (Cmd.write f) = true := rfl
theorem rw_tot (f : Db → Db) : Cmd.rw (tot f) = true := rfl

/-- every statement between BEGIN and COMMIT (or in autocommit mode) is a read or a write -/
theorem body_rw (s : Schema) (db : Db) (op : Op) : ∀ x ∈ body s db op, Cmd.rw x = true := by
  intro x hx
  cases op with
  | createRoot n =>
    simp only [body, List.mem_cons, List.not_mem_nil, or_false] at hx
    rcases hx with rfl | rfl | rfl | rfl <;> rfl
  | createSub c n =>
    simp only [body, List.mem_cons, List.not_mem_nil, or_false] at hx
    rcases hx with rfl | rfl | rfl | rfl | rfl | rfl <;> rfl
  | rename c n =>
    simp only [body, List.mem_cons] at hx
    rcases hx with rfl | rfl | rfl | rfl | hx
    · rfl
    · rfl
    · rfl
    · rfl
    · refine progOf_rw _ _ _ (foldl_agree s _ _ (fun d k => updatePath_agree s _ d k _) _ _ _ [] ⟨rfl, by simp⟩) x hx
  | setParent c p =>
    simp only [body, List.mem_append, List.mem_cons, List.not_mem_nil, or_false, List.mem_flatMap, List.mem_map] at hx
    rcases hx with ((((hx | hx) | hx) | hx) | hx) | hx
    · rcases hx with rfl | rfl | rfl | rfl | rfl | rfl | rfl <;> rfl
    · obtain ⟨a, _, m, _, rfl⟩ := hx; rfl
    · subst hx; rfl
    · obtain ⟨a, _, rfl⟩ := hx; rfl
    · subst hx; rfl
    · exact progOf_rw _ _ _ (updatePath_agree s _ _ _ _) x hx
  | removeCrate c =>
    simp only [body, List.mem_cons, List.mem_flatMap, List.not_mem_nil, or_false] at hx
    rcases hx with rfl | ⟨a, _, hx⟩
    · rfl
    · rcases hx with rfl | rfl | rfl | rfl <;> rfl
  | addTrack c t =>
    simp only [body, List.mem_cons, List.not_mem_nil, or_false] at hx
    rcases hx with rfl | rfl | rfl | rfl <;> rfl
  | removeTrackFrom c t =>
    simp only [body, List.mem_cons, List.not_mem_nil, or_false] at hx
    subst hx; rfl
  | clearTracks c =>
    simp only [body, List.mem_cons, List.not_mem_nil, or_false] at hx
    subst hx; rfl
  | createTrack =>
    simp only [body, List.mem_cons, List.not_mem_nil, or_false] at hx
    subst hx; rfl
  | removeTrack t =>
    simp only [body, List.mem_cons, List.not_mem_nil, or_false] at hx
    rcases hx with rfl | rfl <;> rfl

theorem toOption_ok {α} (r : Res α) (a : α) (h : r = .ok a) : r.toOption = some a := by subst h; rfl

theorem replay_createRoot (s : Schema) (db : Db) (n : Name) (out : Out) (h : (step s db (.createRoot n)).2 = .ok out) :
    applyAll (writesOf (body s db (.createRoot n))) db = some (step s db (.createRoot n)).1 := by
  simp only [step, createRootCrate] at h ⊢
  cases hv : ensureValidName n with
  | ok u =>
    simp only [hv, transaction] at h ⊢
    by_cases hd : (rootCrateByName db n).isSome = true
    · simp [hd] at h
    · simp only [hd, Bool.false_eq_true, if_false] at h ⊢
      cases hi : insertCrate s db ⟨newCrateId s db, n, n ++ [semicolon]⟩ with
      | ok d1 =>
        simp [hi, body, writesOf, applyAll, wInsertCrate, wInsertCpl, tot, Option.bind, Res.toOption]
      | throw e => simp [hi] at h
      | ub u => simp [hi] at h
  | throw e => simp [hv] at h
  | ub u => simp [hv] at h

theorem replay_createSub (s : Schema) (db : Db) (c : Id) (n : Name) (out : Out)
    (h : (step s db (.createSub c n)).2 = .ok out) :
    applyAll (writesOf (body s db (.createSub c n))) db = some (step s db (.createSub c n)).1 := by
  simp only [step, createSubCrate] at h ⊢
  cases hv : ensureValidName n with
  | ok u =>
    simp only [hv, transaction] at h ⊢
    by_cases hd : (subCrateByName db c n).isSome = true
    · simp [hd] at h
    · simp only [hd, Bool.false_eq_true, if_false] at h ⊢
      cases hp : selectOwnPath db c with
      | ok path =>
        simp only [hp, Res.bind_ok] at h ⊢
        cases hi : insertCrate s db ⟨newCrateId s db, n, path ++ n ++ [semicolon]⟩ with
        | ok d1 =>
          simp only [hi, hp, resD, body, writesOf, applyAll, wInsertCrate, wInsertCpl, wInsertSubHierarchy, tot,
            Option.bind, Res.toOption, Res.bind_ok, Res.pure_eq]
        | throw e => rw [hi] at h; simp at h
        | ub u => rw [hi] at h; simp at h
      | throw e => simp [hp] at h
      | ub u => simp [hp] at h
  | throw e => simp [hv] at h
  | ub u => simp [hv] at h

theorem replay_addTrack (s : Schema) (db : Db) (c t : Id) (out : Out) (h : (step s db (.addTrack c t)).2 = .ok out) :
    applyAll (writesOf (body s db (.addTrack c t))) db = some (step s db (.addTrack c t)).1 := by
  simp only [step, addTrack, transaction] at h ⊢
  cases hv : requireValid db c with
  | ok u =>
    simp only [hv, Res.bind_ok] at h ⊢
    by_cases ht : (db.track.filter (fun r => r.id == t && r.hasPath)).length > 0
    · simp [ht, body, writesOf, applyAll, wDeleteCtl, wInsertCtl, tot, Option.bind]
    · simp [ht] at h
  | throw e => simp [hv] at h
  | ub u => simp [hv] at h

theorem replay_simple (s : Schema) (db : Db) :
    (∀ c t, applyAll (writesOf (body s db (.removeTrackFrom c t))) db = some (step s db (.removeTrackFrom c t)).1) ∧
    (∀ c, applyAll (writesOf (body s db (.clearTracks c))) db = some (step s db (.clearTracks c)).1) ∧
    (applyAll (writesOf (body s db .createTrack)) db = some (step s db .createTrack).1) ∧
    (∀ t, applyAll (writesOf (body s db (.removeTrack t))) db = some (step s db (.removeTrack t)).1) := by
  refine ⟨fun c t => ?_, fun c => ?_, ?_, fun t => ?_⟩
  · simp [step, removeTrackFrom, body, writesOf, applyAll, wDeleteCtl, tot, Option.bind]
  · simp [step, clearTracks, body, writesOf, applyAll, wDeleteCtl, tot, Option.bind]
  · simp [step, body, writesOf, applyAll, tot, Option.bind]
  · simp [step, removeTrack_eq, body, writesOf, applyAll, wDeleteCtl, tot, Option.bind]

theorem writesOf_flatMap_tot {β : Type} (xs : List β) (g : β → List (Db → Db)) :
    writesOf (xs.flatMap fun x => (g x).map tot) = (xs.flatMap g).map fun f => fun d => some (f d) := by
  induction xs with
  | nil => rfl
  | cons x xs ih =>
    simp only [List.flatMap_cons, writesOf_append, ih, List.map_append]
    congr 1
    generalize g x = l
    induction l with
    | nil => rfl
    | cons f l ihl => simp [writesOf, tot, ihl]

theorem applyAll_tots (fs : List (Db → Db)) (d : Db) :
    applyAll (fs.map fun f => fun d => some (f d)) d = some (fs.foldl (fun acc f => f acc) d) := by
  induction fs generalizing d with
  | nil => rfl
  | cons f fs ih => simp [applyAll, Option.bind, ih]

theorem foldl_flatMap {β : Type} (xs : List β) (g : β → List (Db → Db)) (h : β → Db → Db)
    (hg : ∀ x d, (g x).foldl (fun acc f => f acc) d = h x d) (d : Db) :
    (xs.flatMap g).foldl (fun acc f => f acc) d = xs.foldl (fun acc x => h x acc) d := by
  induction xs generalizing d with
  | nil => rfl
  | cons x xs ih => simp only [List.flatMap_cons, List.foldl_append, List.foldl_cons, hg, ih]

theorem replay_removeCrate (s : Schema) (db : Db) (c : Id) :
    applyAll (writesOf (body s db (.removeCrate c))) db = some (step s db (.removeCrate c)).1 := by
  simp only [step, removeCrate, transaction, Res.pure_eq, body, writesOf]
  have e : ((c :: (db.ch.filter (·.1 == c)).map (·.2)).flatMap fun id =>
      [wDeleteCtl s (fun r => r.1 == id), wDeleteCh s (fun r => r.1 == id || r.2 == id),
       wDeleteCpl s (fun r => r.1 == id), wDeleteCrate s id]) =
      ((c :: (db.ch.filter (·.1 == c)).map (·.2)).flatMap fun id =>
        ([fun d => deleteCtl s d (fun r => r.1 == id),
          fun d => { d with ch := deletePairs s d.ch (fun r => r.1 == id || r.2 == id) },
          fun d => { d with cpl := deletePairs s d.cpl (fun r => r.1 == id) },
          fun d => { d with crate := deleteCrate s d.crate id }] : List (Db → Db)).map tot) := by
    rfl
  rw [e, writesOf_flatMap_tot, applyAll_tots]
  congr 1
  exact foldl_flatMap _ _ _ (fun x d => rfl) db

theorem replay_rename (s : Schema) (db : Db) (c : Id) (n : Name) (out : Out) (h : (step s db (.rename c n)).2 = .ok out) :
    applyAll (writesOf (body s db (.rename c n))) db = some (step s db (.rename c n)).1 := by
  simp only [step, setName] at h ⊢
  cases hv : ensureValidName n with
  | ok u =>
    simp only [hv, transaction] at h ⊢
    cases hq : requireValid db c with
    | ok u2 =>
      simp only [hq, Res.bind_ok] at h ⊢
      cases hp : firstNonEmptyOrThrow ((db.cpl.filter (fun r => r.1 == c && r.1 != r.2)).flatMap fun r =>
          (db.crate.filter (·.id == r.2)).map (·.path)) with
      | ok pp =>
        simp only [hp, Res.bind_ok] at h ⊢
        have hag := foldl_agree s ({ db with crate := updateCrateTitlePath s db.crate c n (pp ++ n ++ [semicolon]) }.cpl.length + 1)
          (pp ++ n ++ [semicolon]) (fun d k => updatePath_agree s _ d k _)
          (crateChildren { db with crate := updateCrateTitlePath s db.crate c n (pp ++ n ++ [semicolon]) } c)
          { db with crate := updateCrateTitlePath s db.crate c n (pp ++ n ++ [semicolon]) }
          { db with crate := updateCrateTitlePath s db.crate c n (pp ++ n ++ [semicolon]) } [] ⟨rfl, by simp⟩
        cases hf : (crateChildren { db with crate := updateCrateTitlePath s db.crate c n (pp ++ n ++ [semicolon]) } c).foldlM
            (fun acc k => updatePath s ({ db with crate := updateCrateTitlePath s db.crate c n (pp ++ n ++ [semicolon]) }.cpl.length + 1)
              acc k (pp ++ n ++ [semicolon]))
            { db with crate := updateCrateTitlePath s db.crate c n (pp ++ n ++ [semicolon]) } with
        | ok d2 =>
          rw [hf] at hag
          have hr := progOf_replay _ _ _ hag
          simp only [hf, Res.bind_ok, Res.pure_eq]
          simp only [body, hp, resD, writesOf, applyAll, wCrateTitlePath, tot, Option.bind]
          exact hr
        | throw e => rw [hf] at h; simp at h
        | ub u => rw [hf] at h; simp at h
      | throw e => simp [hp] at h
      | ub u => simp [hp] at h
    | throw e => simp [hq] at h
    | ub u => simp [hq] at h
  | throw e => simp [hv] at h
  | ub u => simp [hv] at h

theorem writesOf_map_tot {β : Type} (xs : List β) (g : β → Db → Db) :
    writesOf (xs.map fun x => tot (g x)) = xs.map fun x => fun d => some (g x d) := by
  induction xs with
  | nil => rfl
  | cons x xs ih =>
    show (fun d => some (g x d)) :: writesOf (xs.map fun x => tot (g x)) = _
    rw [ih]; rfl

/-- the DELETEs of set_parent on `CrateHierarchy`, one per (old ancestor, member) -/
theorem replay_deleteLinks (s : Schema) (anc mem : List Id) (d : Db) :
    applyAll (writesOf (anc.flatMap fun a => mem.map fun m => wDeleteCh s (fun r => r.1 == a && r.2 == m))) d
      = some { d with ch := deleteHierarchyLinks s d.ch anc mem } := by
  have e : (anc.flatMap fun a => mem.map fun m => wDeleteCh s (fun r => r.1 == a && r.2 == m)) =
      (anc.flatMap fun a => (mem.map fun m => (fun d : Db => { d with ch := deletePairs s d.ch (fun r => r.1 == a && r.2 == m) })).map tot) := by
    simp [wDeleteCh, List.map_map, Function.comp_def]
  rw [e, writesOf_flatMap_tot, applyAll_tots]
  clear e
  congr 1
  unfold deleteHierarchyLinks
  induction anc generalizing d with
  | nil => rfl
  | cons a anc ih =>
    simp only [List.flatMap_cons, List.foldl_append, List.foldl_cons]
    have hm : ∀ (mem : List Id) (d : Db), (mem.map fun m => (fun d : Db => { d with ch := deletePairs s d.ch (fun r => r.1 == a && r.2 == m) })).foldl
        (fun acc f => f acc) d = { d with ch := mem.foldl (fun acc m => deletePairs s acc (fun r => r.1 == a && r.2 == m)) d.ch } := by
      intro mem
      induction mem with
      | nil => intro d; rfl
      | cons m mem ihm => intro d; simp only [List.map_cons, List.foldl_cons]; rw [ihm]
    rw [hm, ih]

/-- the INSERTs of set_parent into `CrateHierarchy`, one per (new ancestor, member) -/
theorem replay_insertLinks (links : List (Id × Id)) (d : Db) :
    applyAll (writesOf (links.map wInsertCh)) d = some { d with ch := d.ch ++ links } := by
  have e : links.map wInsertCh = links.map fun r => tot (fun d : Db => { d with ch := d.ch ++ [r] }) := rfl
  rw [e, writesOf_map_tot]
  clear e
  induction links generalizing d with
  | nil => simp [applyAll]
  | cons r links ih => simp [applyAll, Option.bind, ih, List.append_assoc]

/-- `set_parent` once its guards have passed -/
theorem setParent_eq (s : Schema) (db : Db) (c : Id) (p : Option Id) (out : Out) (h : (setParent s db c p).2 = .ok out) :
    ∃ d2, updatePath s ((spDb1 s db c p).cpl.length + 1) (spDb1 s db c p) c (spParentPath db p) = .ok d2 ∧
      (setParent s db c p).1 = d2 := by
  unfold setParent at h ⊢
  by_cases hself : (p == some c) = true
  · simp [hself] at h
  · simp only [hself, Bool.false_eq_true, if_false, transaction] at h ⊢
    cases hq : requireValid db c with
    | ok u2 =>
      simp only [hq, Res.bind_ok] at h ⊢
      cases p with
      | none =>
        simp only [Res.pure_eq, Res.bind_ok, Option.getD_none] at h ⊢
        simp only [spDb1, spCh1, spLinks, spOldAncestors, spSubtree, spParentPath, List.append_nil, Option.getD_none]
        revert h
        generalize updatePath s _ _ c [] = r
        intro h
        cases r with
        | ok d2 => exact ⟨d2, rfl, rfl⟩
        | throw e => simp at h
        | ub u => simp at h
      | some q =>
        cases hq2 : requireValid db q with
        | ok u3 =>
          simp only [hq2, Res.bind_ok, Option.getD_some] at h ⊢
          by_cases hcyc : (db.ch.filter (fun r => r.1 == c && r.2 == q)).length > 0
          · simp [hcyc] at h
          · simp only [hcyc, if_false, Res.pure_eq, Res.bind_ok] at h ⊢
            simp only [spDb1, spCh1, spLinks, spOldAncestors, spSubtree, spParentPath, Option.getD_some]
            revert h
            generalize updatePath s _ _ c _ = r
            intro h
            cases r with
            | ok d2 => exact ⟨d2, rfl, rfl⟩
            | throw e => simp at h
            | ub u => simp at h
        | throw e => simp [hq2] at h
        | ub u => simp [hq2] at h
    | throw e => simp [hq] at h
    | ub u => simp [hq] at h

theorem replay_setParent (s : Schema) (db : Db) (c : Id) (p : Option Id) (out : Out)
    (h : (step s db (.setParent c p)).2 = .ok out) :
    applyAll (writesOf (body s db (.setParent c p))) db = some (step s db (.setParent c p)).1 := by
  obtain ⟨d2, hf, hd⟩ := setParent_eq s db c p out h
  show _ = some (setParent s db c p).1
  rw [hd]
  have hag := updatePath_agree s ((spDb1 s db c p).cpl.length + 1) (spDb1 s db c p) c (spParentPath db p)
  rw [hf] at hag
  have hr := progOf_replay _ _ _ hag
  have wr : writesOf ([Cmd.read] : Prog) = [] := rfl
  simp only [body, writesOf_append, List.append_assoc, wr, List.nil_append]
  rw [applyAll_append' _ _ db { db with cpl := deletePairs s db.cpl (fun r => r.1 == c) ++ [(c, p.getD c)] }
    (by simp [writesOf, applyAll, wDeleteCpl, wInsertCpl, tot, Option.bind])]
  rw [applyAll_append' _ _ _ _ (replay_deleteLinks s _ _ _)]
  rw [applyAll_append' _ _ _ _ (replay_insertLinks _ _)]
  exact hr

/-- **The statement program is the model's call**: whenever `step` returns normally, applying the writes of the
program in order to the prior tables gives exactly the tables `step` returns. -/
theorem body_replay (s : Schema) (db : Db) (op : Op) (out : Out) (h : (step s db op).2 = .ok out) :
    applyAll (writesOf (body s db op)) db = some (step s db op).1 := by
  cases op with
  | createRoot n => exact replay_createRoot s db n out h
  | createSub c n => exact replay_createSub s db c n out h
  | rename c n => exact replay_rename s db c n out h
  | setParent c p => exact replay_setParent s db c p out h
  | removeCrate c => exact replay_removeCrate s db c
  | addTrack c t => exact replay_addTrack s db c t out h
  | removeTrackFrom c t => exact (replay_simple s db).1 c t
  | clearTracks c => exact (replay_simple s db).2.1 c
  | createTrack => exact (replay_simple s db).2.2.1
  | removeTrack t => exact (replay_simple s db).2.2.2 t

theorem body_hasWrite (s : Schema) (db : Db) (op : Op) : hasWrite (body s db op) = true := by
  cases op <;> simp [hasWrite, body, Cmd.kind, wInsertCrate, wInsertCpl, wDeleteCpl, wDeleteCtl, wCrateTitlePath, tot]

theorem flat_one_write (s : Schema) (db : Db) (op : Op) (h : scopedOp op = false) :
    ((body s db op).filter (·.kind == .write)).length ≤ 1 := by
  cases op <;> simp [scopedOp] at h <;> simp [body, wDeleteCtl, tot, Cmd.kind]

/-- every public mutating call of the 1.x crate code issues an atomic shape, on every prior state -/
theorem stmts_atomic (s : Schema) (db : Db) (op : Op) : atomicShape (shapeOf s op db) = true := by
  unfold shapeOf stmts
  cases hs : scopedOp op
  · simp only [Bool.false_eq_true, if_false]
    exact atomic_flat _ (body_rw s db op) (flat_one_write s db op hs)
  · simp only [if_true]
    exact atomic_txn _ (body_rw s db op)

theorem stmts_skeleton (s : Schema) (db : Db) (op : Op) : skeleton (shapeOf s op db) = (skeletonOf op).kinds := by
  unfold shapeOf stmts skeletonOf
  cases hs : scopedOp op
  · simp only [Bool.false_eq_true, if_false]
    cases op <;> simp [scopedOp] at hs <;> rfl
  · simp only [if_true]
    rw [skeleton_txn _ (body_rw s db op), body_hasWrite]
    rfl

/-- the fault-free run of the program makes exactly `step`'s result durable -/
theorem stmts_run (s : Schema) (db : Db) (op : Op) (out : Out) (auto : Bool) (h : (step s db op).2 = .ok out) :
    (call none auto (stmts s db op) db).raised = false ∧
    (call none auto (stmts s db op) db).conn = Conn.idle (step s db op).1 := by
  unfold stmts
  cases hs : scopedOp op
  · simp only [Bool.false_eq_true, if_false]
    exact flat_run auto _ (body_rw s db op) db _ (body_replay s db op out h)
  · simp only [if_true]
    exact txn_run auto _ (body_rw s db op) db _ (body_replay s db op out h)

end EngineModel.Proofs.CratesV1Stmts
