/-
The converse of `wfRaw_of_inv`: a raw dump that passes the executable predicate
`WfRaw` satisfies the invariant `Inv`.  Hence `WfRaw db = true ↔ Inv db`: what the
tie evaluates on the rows of the real database after every step is exactly the
invariant from which the query agreements of C07 / C08 follow.
-/
import Proofs.CratesV1WfRaw
import Proofs.SpecForest

namespace EngineModel.Api.CratesV1
open EngineModel.Pure.Detect EngineModel.Spec

variable {db : Db}

/-- The part of `FInv` that does not mention the hierarchy table. -/
structure PInv (db : Db) : Prop where
  idsNodup : (ids db).Nodup
  cplNodup : (db.cpl.map (·.1)).Nodup
  cplTotal : ∀ c, c ∈ db.cpl.map (·.1) ↔ c ∈ ids db
  cplParentLive : ∀ r ∈ db.cpl, r.2 ∈ ids db

namespace PInv

theorem cpl_unique (h : PInv db) {c p p' : Id} (h1 : (c, p) ∈ db.cpl) (h2 : (c, p') ∈ db.cpl) : p = p' := by
  have := List.inj_on_of_nodup_map h.cplNodup h1 h2 rfl
  exact (Prod.mk.inj this).2

theorem par_live (h : PInv db) {c p : Id} (hp : Par db c p) : c ∈ ids db ∧ p ∈ ids db :=
  ⟨(h.cplTotal c).mp (List.mem_map_of_mem (f := (·.1)) hp.1), h.cplParentLive _ hp.1⟩

theorem parentOf_eq_some (h : PInv db) {c p : Id} : parentOf db c = some p ↔ Par db c p := by
  unfold parentOf Par
  constructor
  · intro hp
    split at hp
    · rename_i r hf
      have hm := List.mem_of_find?_eq_some hf
      have hr1 : r.1 = c := by simpa using List.find?_some hf
      split at hp
      · cases hp
      · rename_i hne
        cases hp
        refine ⟨by rw [← hr1]; exact hm, by simpa using hne⟩
    · cases hp
  · rintro ⟨hm, hne⟩
    have : ∃ r, db.cpl.find? (·.1 == c) = some r := by
      cases hf : db.cpl.find? (·.1 == c) with
      | some r => exact ⟨r, rfl⟩
      | none =>
        rw [List.find?_eq_none] at hf
        exact absurd (by simp) (hf _ hm)
    obtain ⟨r, hf⟩ := this
    have hrm := List.mem_of_find?_eq_some hf
    have hr1 : r.1 = c := by simpa using List.find?_some hf
    have : r = (c, p) := by
      have := h.cpl_unique (p := r.2) (p' := p) (c := c) (by rw [← hr1]; exact hrm) hm
      exact Prod.ext hr1 this
    rw [hf, this]
    simp [hne]

theorem abs_find_of_mem (h : PInv db) {r : CrateRow} (hr : r ∈ db.crate) :
    (absForest db).find r.id = some ⟨r.id, r.title, parentOf db r.id⟩ := by
  unfold Forest.Forest.find
  rw [abs_crates, List.find?_map]
  have : db.crate.find? ((fun x : Forest.Crate => x.id == r.id) ∘ fun r => ⟨r.id, r.title, parentOf db r.id⟩) = some r := by
    rw [List.find?_eq_some_iff_append]
    obtain ⟨l1, l2, hsplit⟩ := List.append_of_mem hr
    refine ⟨by simp, l1, l2, hsplit, ?_⟩
    intro x hx
    simp only [Function.comp_apply, Bool.not_eq_eq_eq_not, Bool.not_true, beq_eq_false_iff_ne, ne_eq]
    intro hxe
    have hnd := h.idsNodup
    unfold ids at hnd
    rw [hsplit, List.map_append, List.map_cons, List.nodup_append] at hnd
    exact hnd.2.2 x.id (List.mem_map_of_mem hx) r.id (by simp) hxe
  rw [this]
  rfl

theorem abs_parentOf (h : PInv db) (c : Id) : (absForest db).parentOf c = parentOf db c := by
  unfold Forest.Forest.parentOf
  by_cases hc : c ∈ ids db
  · obtain ⟨r, hr, rfl⟩ := exists_row hc
    rw [h.abs_find_of_mem hr]; rfl
  · rw [abs_find_none hc]
    symm
    show parentOf db c = none
    cases hp : parentOf db c with
    | none => rfl
    | some p => exact absurd (h.par_live (h.parentOf_eq_some.mp hp)).1 hc

end PInv

theorem all_contains_iff {l ids : List Id} : (l.all fun c => ids.contains c) = true ↔ ∀ c ∈ l, c ∈ ids := by
  rw [List.all_eq_true]
  constructor
  · intro h c hc; exact (contains_iff _ _).mp (h c hc)
  · intro h c hc; exact (contains_iff _ _).mpr (h c hc)

theorem inv_of_wfRaw (hw : WfRaw db = true) : Inv db := by
  unfold WfRaw wfChecks at hw
  simp only [List.all_cons, List.all_nil, Bool.and_true, Bool.and_eq_true] at hw
  obtain ⟨w1, w2, w3, w4, w5, w6, w7, w8, w9, w10, w11, w12, w13, w14⟩ := hw
  have hidsdef : db.crate.map (·.id) = ids db := rfl
  rw [hidsdef] at w1 w4 w5 w6 w8 w9 w12
  have hP : PInv db := by
    refine ⟨(nodupB_iff _).mp w1, (nodupB_iff _).mp w3, ?_, ?_⟩
    · intro c
      constructor
      · intro hc
        rw [List.mem_map] at hc
        obtain ⟨r, hr, rfl⟩ := hc
        have := (List.all_eq_true.mp w5) r hr
        rw [Bool.and_eq_true, contains_iff] at this
        exact this.1
      · intro hc
        exact (contains_iff _ _).mp ((List.all_eq_true.mp w4) c hc)
    · intro r hr
      have := (List.all_eq_true.mp w5) r hr
      rw [Bool.and_eq_true, contains_iff, contains_iff] at this
      exact this.2
  have hchLive : ∀ r ∈ db.ch, r.1 ∈ ids db ∧ r.2 ∈ ids db := by
    intro r hr
    have := (List.all_eq_true.mp w8) r hr
    rw [Bool.and_eq_true, contains_iff, contains_iff] at this
    exact this
  have hcl : ∀ a c, a ∈ ids db → c ∈ ids db → ((a, c) ∈ db.ch ↔ (absForest db).isAncestor a c = true) := by
    intro a c ha hc
    have := (List.all_eq_true.mp ((List.all_eq_true.mp w9) a ha)) c hc
    rw [beq_iff_eq] at this
    rw [← this, contains_iff]
  have hacyc : ∀ c ∈ ids db, (absForest db).isAncestor c c = false := by
    intro c hc
    have := (List.all_eq_true.mp w6) c hc
    simpa using this
  have hparOf : ∀ c p, (absForest db).parentOf c = some p ↔ Par db c p := by
    intro c p; rw [hP.abs_parentOf, hP.parentOf_eq_some]
  have hF : FInv db := by
    refine ⟨hP.idsNodup, hP.cplNodup, hP.cplTotal, hP.cplParentLive, (nodupB_iff _).mp w7, hchLive, ?_, ?_⟩
    · intro a c
      constructor
      · intro hm
        obtain ⟨ha, hc⟩ := hchLive _ hm
        obtain ⟨p, hp, hor⟩ := Forest.Forest.isAncestor_step ((hcl a c ha hc).mp hm)
        have hpar := (hparOf c p).mp hp
        refine ⟨p, hpar, ?_⟩
        rcases hor with e | hanc
        · exact Or.inl e.symm
        · exact Or.inr ((hcl a p ha (hP.par_live hpar).2).mpr hanc)
      · rintro ⟨p, hpar, hor⟩
        obtain ⟨hc, hp⟩ := hP.par_live hpar
        have hpc : (absForest db).isAncestor p c = true := Forest.Forest.isAncestor_of_parent ((hparOf c p).mpr hpar)
        rcases hor with rfl | hm
        · exact (hcl a c hp hc).mpr hpc
        · have ha := (hchLive _ hm).1
          exact (hcl a c ha hc).mpr (Forest.Forest.isAncestor_trans ((hcl a p ha hp).mp hm) hpc)
    · intro c hm
      have hc := (hchLive _ hm).1
      have := (hcl c c hc hc).mp hm
      rw [hacyc c hc] at this
      cases this
  have hpath : ∀ r ∈ db.crate, r.path = pathOf (absForest db) r.id := by
    intro r hr
    have := (List.all_eq_true.mp w10) r hr
    exact beq_iff_eq.mp this
  -- the fuel of `pathFuel` does not matter once it exceeds the depth
  have hfuel : ∀ n m y, depth db y < n → depth db y < m →
      pathFuel (absForest db) n y = pathFuel (absForest db) m y := by
    intro n m y h1 h2
    rw [pathFuel_eq_walk, pathFuel_eq_walk]
    apply walkPath_fuel (depth db) _ n m y h1 h2
    intro y p hp
    have := hF.depth_par ((hparOf y p).mp hp)
    omega
  refine ⟨hF, ?_, ?_, (nodupB_iff _).mp w11, ?_, (nodupB_iff _).mp w14⟩
  · exact fun r hr => (List.all_eq_true.mp w2) r hr
  · intro r hr p hp
    have hrl : r.id ∈ ids db := List.mem_map_of_mem (f := (·.id)) hr
    have hd := hF.depth_lt hrl
    obtain ⟨m, hm⟩ : ∃ m, db.crate.length = m + 1 := ⟨db.crate.length - 1, by omega⟩
    rw [hpath r hr]
    unfold pathOf
    rw [abs_length, hm]
    unfold pathFuel
    rw [abs_find_of_mem hF hr]
    simp only
    by_cases hpe : p = r.id
    · subst hpe
      rw [(root_row_iff hF hr).mpr hp]
      simp
    · have hpar : Par db r.id p := ⟨hp, hpe⟩
      rw [(parentOf_eq_some hF).mpr hpar]
      simp only [hpe, if_false]
      obtain ⟨rp, hrp, hrpid⟩ := exists_row (hF.par_live hpar).2
      have hdp := hF.depth_par hpar
      rw [← hrpid, rowPath_of_mem hF.idsNodup hrp, hpath rp hrp]
      unfold pathOf
      rw [abs_length, hm, hrpid, hfuel m (m + 1) p (by omega) (by omega)]
  · intro r hr
    refine ⟨(contains_iff _ _).mp ((List.all_eq_true.mp w12) r hr), ?_⟩
    have := (contains_iff _ _).mp ((List.all_eq_true.mp w13) r hr)
    exact (mem_liveIds db r.2).mp this

theorem wfRaw_iff_inv (db : Db) : WfRaw db = true ↔ Inv db := ⟨inv_of_wfRaw, wfRaw_of_inv⟩

end EngineModel.Api.CratesV1
