/-
Every 1.x setter is the lens the Spec describes: on rows satisfying the
invariant, a call that returns normally (a) was acceptable to the Spec,
(b) changes `snapshot()` by exactly `Spec.putField` of the normalised value and
(c) keeps the invariant.  One lemma per setter, then the case split.
-/
import Proofs.TracksV1LensBase
import Proofs.TracksV1Spec

namespace EngineModel.TracksV1

open Impl.V1 (GMarker HotCue LoopV Entry Wave Beat Cues Loops)
open Fl (FOps)

set_option linter.unusedSimpArgs false
set_option linter.unusedVariables false

/-- What a successful setter call does, against the Spec. -/
def Refines (o : FOps) (s : Schema) (r r' : TrackRows) (f : Field) (v : f.ty) : Prop :=
  ∃ w, Spec.normField f v = some w ∧ snapOf o s r' = Spec.putField (snapOf o s r) f w ∧ InvP r'

theorem bind_ok_inv {α β} {x : Res α} {f : α → Res β} {b : β} (h : (x >>= f) = .ok b) :
    ∃ a, x = .ok a ∧ f a = .ok b := Res.bind_eq_ok h

/-! ### invariant transport -/

theorem InvP.of_same {r r' : TrackRows} (h : InvP r) (h1 : r'.track.path = r.track.path)
    (h2 : r'.track.length = r.track.length) (h3 : cell 1 r'.mint = cell 1 r.mint)
    (h4 : cell 4 r'.mint = cell 4 r.mint) (h5 : r'.perf = r.perf) : InvP r' := by
  obtain ⟨a, b, c, d, e, f⟩ := h
  refine ⟨by rw [h1]; exact a, by rw [h2]; exact b, by rw [h3]; exact c, by rw [h5]; exact d,
    by rw [h5]; exact e, by rw [h5, h4]; exact f⟩

/-- The PerformanceData row changes, keeping the slot counts and the key. -/
theorem InvP.of_perf {r : TrackRows} (h : InvP r) (p p' : PerfRow) (hp : r.perf = some p)
    (hc : p'.cues.cues.length = 8) (hl : p'.loops.length = 8) (hk : p'.trackData.key = p.trackData.key)
    (track' : TrackRow) (h1 : track'.path = r.track.path) (h2 : track'.length = r.track.length) :
    InvP { r with track := track', perf := some p' } := by
  obtain ⟨a, b, c, d, e, f⟩ := h
  refine ⟨by rw [h1]; exact a, by rw [h2]; exact b, c, ?_, ?_, ?_⟩
  · intro q hq; cases hq; exact hc
  · intro q hq; cases hq; exact hl
  · intro q hq k hk'; cases hq; rw [hk] at hk'; exact f p hp k hk'

theorem fits1000 (d : UInt64) :
    -9223372036854775808 ≤ 1000 * tdivPos (Prim.s64 d) 1000 ∧ 1000 * tdivPos (Prim.s64 d) 1000 ≤ 9223372036854775807 := by
  have hr := Prim.s64_range d
  unfold tdivPos
  split <;> omega

theorem fitsBillion (d : UInt64) :
    -9223372036854775808 ≤ 1000000000 * toTimestamp d ∧ 1000000000 * toTimestamp d ≤ 9223372036854775807 := by
  have hr := Prim.s64_range d
  unfold toTimestamp tdivPos
  split <;> omega

/-! ### slots -/

theorem slotIndex_eq {α} (i : UInt32) (l : List α) :
    slotIndex i l = match Spec.slotOf i l.length with
      | some k => .ok k
      | none => .throw .out_of_range := by
  unfold slotIndex Spec.slotOf
  simp only
  by_cases h : Prim.s32 i < 0 ∨ (l.length : Int) ≤ Prim.s32 i
  · have : ¬ (0 ≤ Prim.s32 i ∧ Prim.s32 i < (l.length : Int)) := by omega
    rw [if_pos h, if_neg this]
  · have : 0 ≤ Prim.s32 i ∧ Prim.s32 i < (l.length : Int) := by omega
    rw [if_neg h, if_pos this]

theorem slotOf_lt (i : UInt32) (n k : Nat) (h : Spec.slotOf i n = some k) : k < n := by
  unfold Spec.slotOf at h
  simp only at h
  split at h
  · cases h; omega
  · cases h

theorem slotOf_8 (i : UInt32) (k : Nat) (h : Spec.slotOf i 8 = some k) : Spec.slotInRange i = true := by
  unfold Spec.slotOf at h
  unfold Spec.slotInRange
  simp only at h
  split at h
  · rename_i hh; simp only [decide_eq_true_eq]; omega
  · cases h

theorem mem_set_self {α} (l : List α) (k : Nat) (a : α) (h : k < l.length) : a ∈ l.set k a := by
  rw [List.mem_iff_getElem]
  exact ⟨k, by simpa using h, by simp⟩

theorem map_eq_self_mem {α} (g : α → α) (l : List α) (h : l.map g = l) (a : α) (ha : a ∈ l) : g a = a := by
  induction l with
  | nil => cases ha
  | cons b t ih =>
    simp only [List.map_cons, List.cons.injEq] at h
    cases ha with
    | head => exact h.1
    | tail _ ha' => exact ih h.2 ha'

/-! ### small value lemmas -/

theorem loud_eq (v : Option Bits) : (if F64.isZero (v.getD F64.zero) then none else v) = Spec.dropZero v := by
  cases v with
  | none => simp [Spec.dropZero]
  | some a =>
    simp only [Option.getD_some, Spec.dropZero]
    by_cases h : F64.isZero a = true
    · have := (isZero_iff a).mp h
      simp [h, this]
    · have : ¬ (a = F64.zero ∨ a = F64.negZero) := fun hh => h ((isZero_iff a).mpr hh)
      simp [h, this]

theorem all2_marker_noNaN (g : List GMarker) (h : all2 eqMarker g g = true) : ∀ m ∈ g, F64.isNaN m.off = false := by
  induction g with
  | nil => intro m hm; cases hm
  | cons a t ih =>
    simp only [all2, Bool.and_eq_true] at h
    intro m hm
    cases hm with
    | head =>
      have := h.1
      unfold eqMarker F64.eq at this
      simp only [Bool.and_eq_true, Bool.not_eq_true'] at this
      exact this.2.1.1
    | tail _ hm' => exact ih h.2 m hm'

theorem pad_all {α} (p : Option α → Bool) (l : List (Option α)) (h : (padTo8 l).all p = true) : l.all p = true := by
  unfold padTo8 at h
  rw [List.all_append, Bool.and_eq_true] at h
  exact h.1

theorem pad_len_le {α} (l : List (Option α)) (h : (padTo8 l).length = 8) : l.length ≤ 8 := by
  unfold padTo8 at h
  simp at h
  omega

end EngineModel.TracksV1
